(* SemPrivacy.v — property C09, part A3: the cells bound to err / errmsg are
   private (referenced from nowhere else), which is what makes the exception
   in A2 (SemStore.v) harmless. *)
From Coq Require Import ZArith NArith PArith List String Bool Floats FMapPositive Lia.
From EvyV Require Import Base Num Ast Omap Sem SemStoreBase SemFresh SemStore.
Import ListNotations.
Local Open Scope positive_scope.

(* ====================================================================== *)
(* 0. Why the copy in assignments matters: the code before fix f9bfea5      *)
(* ====================================================================== *)
(* evalAssignment before the fix, variable target: rebinding WITHOUT copyOrRef *)
Definition exec_assign_nocopy (n : nat) (P : program) (e : env) (name : str) (x : expr)
  : M (signal * env) :=
  let* _ := tick in
  let* v := eval_expr n P e x in
  let* e' := update_var name v e in
  ret (SigNone, e').

Definition read_global (name : str) (s : state) : option hval :=
  match frame_get name (st_globals s) with
  | Some l => hget (st_heap s) l
  | None => None
  end.

Definition P0 : program := {| p_funcs := []; p_handlers := []; p_stmts := [] |}.
Definition nx : str := Eval compute in s_ "x".
Definition nn : str := Eval compute in s_ "n".
Definition s_init : state := init_state None [] false false.
(* x := false *)
Definition st_decl_x : stmt := SDecl nx TBool (EBool false).
(* n := str2num "hi"   — fails, sets err = true *)
Definition st_fail : stmt :=
  SDecl nn TNum (ECall (s_ "str2num") TNum [EStr (s_ "hi")]).

Definition after (m : M (signal * env)) (s : state) : state := snd (m s).

(* with the old assignment `x = err` binds x to the err cell itself, and the failing str2num
   that follows changes what x reads from false to true *)
Theorem old_assignment_aliases_err_refuted :
  exists (s1 s2 : state),
    s1 = after (exec_assign_nocopy 10 P0 [] nx (EVar n_err TBool)) (after (exec_stmt 10 P0 [] st_decl_x) s_init) /\
    s2 = after (exec_stmt 10 P0 [] st_fail) s1 /\
    frame_get nx (st_globals s1) = frame_get n_err (st_globals s1) /\
    read_global nx s1 = Some (HBool false) /\
    read_global nx s2 = Some (HBool true).
Proof. eexists; eexists. split; [reflexivity|]. split; [reflexivity|]. vm_compute. auto. Qed.

(* the same two statements with the assignment as it is now (copying): x keeps reading false *)
Example new_assignment_does_not_alias :
  let s1 := after (exec_stmt 10 P0 [] (SAssign (EVar nx TBool) (EVar n_err TBool)))
                  (after (exec_stmt 10 P0 [] st_decl_x) s_init) in
  let s2 := after (exec_stmt 10 P0 [] st_fail) s1 in
  frame_get nx (st_globals s1) <> frame_get n_err (st_globals s1) /\
  read_global nx s1 = Some (HBool false) /\
  read_global nx s2 = Some (HBool false) /\
  read_global n_err s2 = Some (HBool true).
Proof. vm_compute. repeat split; auto. discriminate. Qed.

(* ====================================================================== *)
(* 1. The privacy invariant                                                *)
(* ====================================================================== *)
Definition allocd (s : state) (l : loc) : Prop := hget (st_heap s) l <> None.

(* a cell bound to err / errmsg that holds a basic value (the cells globalErr mutates) *)
Definition err_cell (s : state) (l : loc) : Prop :=
  err_loc (st_globals s) l /\ exists v, hget (st_heap s) l = Some v /\ is_basic v = true.
(* an any-box around such a cell: exists only as a value in flight (EAny (EVar err)) *)
Definition tainted (s : state) (l : loc) : Prop :=
  exists t i, hget (st_heap s) l = Some (HAny t i) /\ err_cell s i.
Definition bad (s : state) (l : loc) : Prop := err_cell s l \/ tainted s l.
Definition clean (s : state) (l : loc) : Prop := allocd s l /\ ~ bad s l.

Definition children (v : hval) : list loc :=
  match v with HArr els => els | HMap m => map snd (pairs m) | _ => [] end.
Definition not_box (v : hval) : Prop := forall t i, v <> HAny t i.

Record priv (s : state) : Prop := {
  pv_wf : wf s;
  (* no array element and no map value is an err cell or a box around one *)
  pv_cont : forall c v, hget (st_heap s) c = Some v -> Forall (clean s) (children v);
  (* boxes hold allocated non-box cells *)
  pv_box : forall c t i, hget (st_heap s) c = Some (HAny t i) ->
                         exists v, hget (st_heap s) i = Some v /\ not_box v;
  (* no other global is bound to an err cell or to a box around one *)
  pv_glob : forall n l, frame_get n (st_globals s) = Some l ->
                        allocd s l /\ (n <> n_err -> n <> n_errmsg -> ~ bad s l);
  pv_distinct : forall l l', frame_get n_err (st_globals s) = Some l ->
                             frame_get n_errmsg (st_globals s) = Some l' -> l <> l' }.

(* local frames hold only clean cells *)
Definition frame_clean (s : state) (f : frame) : Prop := forall n l, frame_get n f = Some l -> clean s l.
Definition env_clean (s : state) (e : env) : Prop := Forall (frame_clean s) e.

(* the one-level invariant gives the reachability statement: from a cell that is not itself an
   err cell or a box around one, NO err cell is reachable through any-contents, array elements
   and map values *)
Theorem priv_reach s : priv s -> forall l x, ~ bad s l -> reach (st_heap s) l x -> ~ err_cell s x.
Proof.
  intros PV l x NB R. induction R as [l | l t i x H R IH | l els i x H I R IH | l m k i x H I R IH].
  - intro E; apply NB; left; exact E.
  - apply IH. intros [E | (t' & i' & Hi & _)].
    + apply NB. right. exists t, i; auto.
    + destruct (pv_box s PV _ _ _ H) as (v & Hv & NBx). rewrite Hv in Hi. inversion Hi; subst.
      eapply NBx; reflexivity.
  - apply IH. pose proof (pv_cont s PV _ _ H) as F. simpl in F. rewrite Forall_forall in F.
    apply F; auto.
  - apply IH. pose proof (pv_cont s PV _ _ H) as F. simpl in F. rewrite Forall_forall in F.
    apply (F i). apply in_map_iff. exists (k, i); auto.
Qed.

(* so: every variable other than err / errmsg, every local, every array element, map value and
   any content reachable from them is a cell that globalErr never writes *)
Corollary priv_global_var s n l x :
  priv s -> frame_get n (st_globals s) = Some l -> n <> n_err -> n <> n_errmsg ->
  reach (st_heap s) l x -> ~ err_cell s x.
Proof. intros PV G N1 N2. apply priv_reach; auto. apply (pv_glob s PV n l G); auto. Qed.
Corollary priv_local_var s e f n l x :
  priv s -> env_clean s e -> In f e -> frame_get n f = Some l -> reach (st_heap s) l x -> ~ err_cell s x.
Proof.
  intros PV EC I G. apply priv_reach; auto. unfold env_clean in EC. rewrite Forall_forall in EC.
  apply (EC f I n l G).
Qed.

(* ---------- the initial state ---------- *)
Lemma init_heap_cases stop input ff ay c v :
  hget (st_heap (init_state stop input ff ay)) c = Some v ->
  (c = 1 /\ v = HBool false) \/ (c = 2 /\ v = HStr []) \/ (c = 3 /\ v = HNum (float_of_bits pi_bits)).
Proof.
  intro H. pose proof (wf_alloc_lt _ _ _ (wf_init stop input ff ay) H) as L.
  change (hnext (st_heap (init_state stop input ff ay))) with 4 in L.
  assert (C : c = 1 \/ c = 2 \/ c = 3) by lia.
  destruct C as [-> | [-> | ->]]; vm_compute in H; inversion H; auto.
Qed.

Lemma init_globals stop input ff ay n l :
  frame_get n (st_globals (init_state stop input ff ay)) = Some l ->
  (n = n_err /\ l = 1) \/ (n = n_errmsg /\ l = 2) \/ (n = s_ "pi" /\ l = 3).
Proof.
  change (st_globals (init_state stop input ff ay)) with [(n_err, 1); (n_errmsg, 2); (s_ "pi", 3)].
  cbn [frame_get].
  destruct (str_eqb n_err n) eqn:E1; [apply str_eqb_eq in E1; intro H; inversion H; auto|].
  destruct (str_eqb n_errmsg n) eqn:E2; [apply str_eqb_eq in E2; intro H; inversion H; auto|].
  destruct (str_eqb (s_ "pi") n) eqn:E3; [apply str_eqb_eq in E3; intro H; inversion H; auto|]. discriminate.
Qed.

Lemma priv_init stop input ff ay : priv (init_state stop input ff ay).
Proof.
  constructor.
  - apply wf_init.
  - intros c v H. apply init_heap_cases in H. destruct H as [[_ ->] | [[_ ->] | [_ ->]]]; constructor.
  - intros c t i H. apply init_heap_cases in H. destruct H as [[_ E] | [[_ E] | [_ E]]]; discriminate.
  - intros n l H. apply init_globals in H.
    destruct H as [[-> ->] | [[-> ->] | [-> ->]]]; (split; [vm_compute; discriminate|]); try congruence.
    intros _ _ [[E _] | (t & i & H & _)].
    + destruct E as [E|E]; vm_compute in E; discriminate.
    + vm_compute in H; discriminate.
  - intros l l' H1 H2. vm_compute in H1, H2. congruence.
Qed.

(* ====================================================================== *)
(* 2. Transfer of cleanliness between states                               *)
(* ====================================================================== *)
(* kinds of existing cells are stable (boxes immutable) and the err bindings are the same *)
Definition kinds_stable (s s' : state) : Prop :=
  forall l v, hget (st_heap s) l = Some v -> exists v', hget (st_heap s') l = Some v' /\ same_kind v v'.
Definition same_err (s s' : state) : Prop :=
  forall l, err_loc (st_globals s') l <-> err_loc (st_globals s) l.

Lemma allocd_stable s s' l : kinds_stable s s' -> allocd s l -> allocd s' l.
Proof.
  intros K A. unfold allocd in *. destruct (hget (st_heap s) l) as [v|] eqn:G; [|congruence].
  destruct (K _ _ G) as (v' & G' & _). congruence.
Qed.

Lemma err_cell_back s s' x :
  kinds_stable s s' -> same_err s s' -> allocd s x -> err_cell s' x -> err_cell s x.
Proof.
  intros K E A [EL (v' & G' & B)]. split; [apply E; auto|].
  unfold allocd in A. destruct (hget (st_heap s) x) as [v|] eqn:G; [|congruence].
  destruct (K _ _ G) as (v'' & G'' & SK). rewrite G' in G''. inversion G''; subst v''.
  exists v; split; auto. rewrite (same_kind_basic _ _ SK); auto.
Qed.

Lemma bad_back s s' x :
  priv s -> kinds_stable s s' -> same_err s s' -> allocd s x -> bad s' x -> bad s x.
Proof.
  intros PV K E A [EC | (t & i & G' & EC)].
  - left. eapply err_cell_back; eauto.
  - right. unfold allocd in A. destruct (hget (st_heap s) x) as [v|] eqn:G; [|congruence].
    destruct (K _ _ G) as (v'' & G'' & SK). rewrite G' in G''. inversion G''; subst v''.
    destruct v; simpl in SK; try contradiction. destruct SK as [-> ->].
    exists t, i. split; auto. eapply err_cell_back; eauto.
    destruct (pv_box s PV _ _ _ G) as (w & Hw & _). unfold allocd; congruence.
Qed.

Lemma clean_stable s s' x :
  priv s -> kinds_stable s s' -> same_err s s' -> clean s x -> clean s' x.
Proof.
  intros PV K E [A NB]. split; [eapply allocd_stable; eauto|]. intro B. apply NB. eapply bad_back; eauto.
Qed.

Lemma R_kinds_stable s s' : R s s' -> kinds_stable s s'.
Proof. intros [_ K _ _]. exact K. Qed.

(* ====================================================================== *)
(* 3. Allocation                                                           *)
(* ====================================================================== *)
Definition alloc_state (s : state) (v : hval) : state := upd_heap (snd (halloc (st_heap s) v)) s.

Lemma st_heap_alloc_state s v : st_heap (alloc_state s v) = snd (halloc (st_heap s) v).
Proof. reflexivity. Qed.
Lemma st_globals_alloc_state s v : st_globals (alloc_state s v) = st_globals s.
Proof. reflexivity. Qed.
Lemma hget_old_ne h v c : c <> hnext h -> hget (snd (halloc h v)) c = hget h c.
Proof. intro N. unfold halloc, hget; simpl. apply PositiveMap.gso; auto. Qed.

Lemma alloc_state_kinds s v : wf s -> kinds_stable s (alloc_state s v).
Proof.
  intros W l x G. exists x. split; [|apply same_kind_refl].
  rewrite st_heap_alloc_state. apply hget_halloc_old; auto.
Qed.
Lemma alloc_state_same_err s v : same_err s (alloc_state s v).
Proof. intro l. rewrite st_globals_alloc_state. tauto. Qed.

Lemma new_cell_not_err_loc s : priv s -> ~ err_loc (st_globals s) (hnext (st_heap s)).
Proof.
  intros PV [E|E]; destruct (pv_glob s PV _ _ E) as [A _]; apply A; apply (pv_wf s PV); lia.
Qed.

(* the new cell is clean unless it is a box around an err cell *)
Lemma alloc_state_new_clean s v :
  priv s -> (forall t i, v = HAny t i -> ~ err_cell s i /\ allocd s i) ->
  clean (alloc_state s v) (hnext (st_heap s)).
Proof.
  intros PV Hv. pose proof (pv_wf s PV) as W. split.
  - unfold allocd. rewrite st_heap_alloc_state, hget_halloc_new. discriminate.
  - intros [[EL _] | (t & i & G & EC)].
    + rewrite st_globals_alloc_state in EL. apply (new_cell_not_err_loc s PV EL).
    + rewrite st_heap_alloc_state, hget_halloc_new in G. inversion G; subst v.
      destruct (Hv _ _ eq_refl) as [NE A]. apply NE.
      eapply err_cell_back; eauto using alloc_state_kinds, alloc_state_same_err.
Qed.

Lemma alloc_state_priv s v :
  priv s -> Forall (clean s) (children v) ->
  (forall t i, v = HAny t i -> exists w, hget (st_heap s) i = Some w /\ not_box w) ->
  priv (alloc_state s v).
Proof.
  intros PV Hc Hb. pose proof (pv_wf s PV) as W.
  pose proof (alloc_state_kinds s v W) as K. pose proof (alloc_state_same_err s v) as E.
  constructor.
  - apply fresh_ok_halloc; auto.
  - intros c x G. rewrite st_heap_alloc_state in G. destruct (Pos.eq_dec c (hnext (st_heap s))) as [->|N].
    + rewrite hget_halloc_new in G. inversion G; subst x.
      eapply Forall_impl; [|exact Hc]. intros; eapply clean_stable; eauto.
    + rewrite hget_old_ne in G by auto.
      eapply Forall_impl; [|exact (pv_cont s PV c x G)]. intros; eapply clean_stable; eauto.
  - intros c t i G. rewrite st_heap_alloc_state in *.
    destruct (Pos.eq_dec c (hnext (st_heap s))) as [->|N].
    + rewrite hget_halloc_new in G. inversion G; subst v.
      destruct (Hb _ _ eq_refl) as (w & Hw & NBx). exists w; split; auto. apply hget_halloc_old; auto.
    + rewrite hget_old_ne in G by auto.
      destruct (pv_box s PV _ _ _ G) as (w & Hw & NBx). exists w; split; auto. apply hget_halloc_old; auto.
  - intros n l G. rewrite st_globals_alloc_state in G. destruct (pv_glob s PV _ _ G) as [A NB]. split.
    + eapply allocd_stable; eauto.
    + intros N1 N2 B. apply (NB N1 N2). eapply bad_back; eauto.
  - rewrite st_globals_alloc_state. apply (pv_distinct s PV).
Qed.

(* ====================================================================== *)
(* 4. copy_or_ref cleans: the value in flight may be the err cell (or a box   *)
(*    around it), but what is bound is its copy                             *)
(* ====================================================================== *)
Lemma composite_clean s l v :
  hget (st_heap s) l = Some v -> is_composite v = true -> clean s l.
Proof.
  intros G C. split; [unfold allocd; congruence|].
  intros [[_ (w & Gw & B)] | (t & i & Gi & _)].
  - rewrite G in Gw; inversion Gw; subst w. destruct v; discriminate.
  - rewrite G in Gi; inversion Gi; subst v. discriminate.
Qed.

Lemma copy_or_ref_clean fuel : forall l s c s',
  priv s -> copy_or_ref fuel l s = (Ok c, s') ->
  priv s' /\ kinds_stable s s' /\ same_err s s' /\ clean s' c /\
  (forall v, hget (st_heap s) l = Some v -> not_box v ->
             exists v', hget (st_heap s') c = Some v' /\ not_box v').
Proof.
  induction fuel as [|f IH]; intros l s c s' PV H; simpl in H.
  { apply fail_inv in H; destruct H; discriminate. }
  pose proof (pv_wf s PV) as W.
  apply bind_inv in H. destruct H as [(v & s1 & H1 & H) | (e & H1 & E)]; [|discriminate].
  apply load_inv in H1. destruct H1 as [-> [(v' & Ev & G) | [Ev _]]]; [|discriminate].
  inversion Ev; subst v'; clear Ev.
  assert (BASIC : is_basic v = true -> alloc v s = (Ok c, s') ->
          priv s' /\ kinds_stable s s' /\ same_err s s' /\ clean s' c /\
          (forall v0, hget (st_heap s) l = Some v0 -> not_box v0 ->
                      exists v', hget (st_heap s') c = Some v' /\ not_box v')).
  { intros B HA. apply alloc_inv in HA. destruct HA as [Ec ->]. inversion Ec; subst c; clear Ec.
    change (upd_heap (snd (halloc (st_heap s) v)) s) with (alloc_state s v).
    split; [apply alloc_state_priv; auto; [destruct v; simpl; auto; discriminate | intros; subst; discriminate]|].
    split; [apply alloc_state_kinds; auto|]. split; [apply alloc_state_same_err|].
    split; [apply alloc_state_new_clean; auto; intros; subst; discriminate|].
    intros v0 _ _. exists v. split; [rewrite st_heap_alloc_state; apply hget_halloc_new
                                    | intros t i Q; subst; discriminate]. }
  destruct v; try (apply BASIC; auto; fail).
  - (* any *)
    apply bind_inv in H. destruct H as [(i' & s1 & H1 & H) | (e & H1 & E)]; [|discriminate].
    destruct (IH _ _ _ _ PV H1) as (PV1 & K1 & E1 & C1 & NB1).
    apply alloc_inv in H. destruct H as [Ec ->]. inversion Ec; subst c; clear Ec.
    change (upd_heap (snd (halloc (st_heap s1) (HAny t i'))) s1) with (alloc_state s1 (HAny t i')).
    pose proof (pv_wf s1 PV1) as W1.
    destruct (pv_box s PV _ _ _ G) as (w & Hw & NBw). destruct (NB1 _ Hw NBw) as (w' & Hw' & NBw').
    split; [apply alloc_state_priv; auto; [constructor | intros t0 i0 Q; inversion Q; subst; eauto]|].
    split.
    { intros x y Gx. destruct (K1 _ _ Gx) as (y' & Gy' & SK). exists y'. split; auto.
      rewrite st_heap_alloc_state. apply hget_halloc_old; auto. }
    split; [intro x; rewrite st_globals_alloc_state; apply E1|].
    split.
    { apply alloc_state_new_clean; auto. intros t0 i0 Q; inversion Q; subst.
      destruct C1 as [A NBd]. split; auto. intro EC. apply NBd. left; auto. }
    intros v0 G0 NB0. rewrite G in G0. inversion G0; subst v0. exfalso. eapply NB0; reflexivity.
  - (* array *)
    apply ret_inv in H. destruct H as [Ec ->]. inversion Ec; subst c; clear Ec.
    split; auto. split; [intros x y Gx; exists y; split; auto using same_kind_refl|].
    split; [intro; tauto|]. split; [eapply composite_clean; eauto; reflexivity|].
    intros v0 G0 NB0. eauto.
  - apply ret_inv in H. destruct H as [Ec ->]. inversion Ec; subst c; clear Ec.
    split; auto. split; [intros x y Gx; exists y; split; auto using same_kind_refl|].
    split; [intro; tauto|]. split; [eapply composite_clean; eauto; reflexivity|].
    intros v0 G0 NB0. eauto.
  - apply crash_inv in H. destruct H; discriminate.
Qed.
