(* SemPrivacy.v — property C09, part A3: the cells bound to err / errmsg are
   private (referenced from nowhere else), which is what makes the exception
   in A2 (SemStore.v) harmless. *)
From Coq Require Import ZArith NArith PArith List String Bool Floats FMapPositive Lia.
From EvyV Require Import Base Num Ast Omap Sem SemStoreBase SemFresh SemStore.
Import ListNotations.
Local Open Scope positive_scope.

(* ====================================================================== *)
(* 0. Why the copy in assignments matters: the code before fix f9bfea5      *)
(* ====================================================================== *)
(* evalAssignment before the fix, variable target: rebinding WITHOUT copyOrRef *)
Definition exec_assign_nocopy (n : nat) (P : program) (e : env) (name : str) (x : expr)
  : M (signal * env) :=
  let* _ := tick in
  let* v := eval_expr n P e x in
  let* e' := update_var name v e in
  ret (SigNone, e').

Definition read_global (name : str) (s : state) : option hval :=
  match frame_get name (st_globals s) with
  | Some l => hget (st_heap s) l
  | None => None
  end.

Definition P0 : program := {| p_funcs := []; p_handlers := []; p_stmts := [] |}.
Definition nx : str := Eval compute in s_ "x".
Definition nn : str := Eval compute in s_ "n".
Definition s_init : state := init_state None [] false false.
(* x := false *)
Definition st_decl_x : stmt := SDecl nx TBool (EBool false).
(* n := str2num "hi"   — fails, sets err = true *)
Definition st_fail : stmt :=
  SDecl nn TNum (ECall (s_ "str2num") TNum [EStr (s_ "hi")]).

Definition after (m : M (signal * env)) (s : state) : state := snd (m s).

(* with the old assignment `x = err` binds x to the err cell itself, and the failing str2num
   that follows changes what x reads from false to true *)
Theorem old_assignment_aliases_err_refuted :
  exists (s1 s2 : state),
    s1 = after (exec_assign_nocopy 10 P0 [] nx (EVar n_err TBool)) (after (exec_stmt 10 P0 [] st_decl_x) s_init) /\
    s2 = after (exec_stmt 10 P0 [] st_fail) s1 /\
    frame_get nx (st_globals s1) = frame_get n_err (st_globals s1) /\
    read_global nx s1 = Some (HBool false) /\
    read_global nx s2 = Some (HBool true).
Proof. eexists; eexists. split; [reflexivity|]. split; [reflexivity|]. vm_compute. auto. Qed.

(* the same two statements with the assignment as it is now (copying): x keeps reading false *)
Example new_assignment_does_not_alias :
  let s1 := after (exec_stmt 10 P0 [] (SAssign (EVar nx TBool) (EVar n_err TBool)))
                  (after (exec_stmt 10 P0 [] st_decl_x) s_init) in
  let s2 := after (exec_stmt 10 P0 [] st_fail) s1 in
  frame_get nx (st_globals s1) <> frame_get n_err (st_globals s1) /\
  read_global nx s1 = Some (HBool false) /\
  read_global nx s2 = Some (HBool false) /\
  read_global n_err s2 = Some (HBool true).
Proof. vm_compute. repeat split; auto. discriminate. Qed.

(* ====================================================================== *)
(* 1. The privacy invariant                                                *)
(* ====================================================================== *)
Definition allocd (s : state) (l : loc) : Prop := hget (st_heap s) l <> None.

(* a cell bound to err / errmsg that holds a basic value (the cells globalErr mutates) *)
Definition err_cell (s : state) (l : loc) : Prop :=
  err_loc (st_globals s) l /\ exists v, hget (st_heap s) l = Some v /\ is_basic v = true.
(* an any-box around such a cell: exists only as a value in flight (EAny (EVar err)) *)
Definition tainted (s : state) (l : loc) : Prop :=
  exists t i, hget (st_heap s) l = Some (HAny t i) /\ err_cell s i.
Definition bad (s : state) (l : loc) : Prop := err_cell s l \/ tainted s l.
Definition clean (s : state) (l : loc) : Prop := allocd s l /\ ~ bad s l.

Definition children (v : hval) : list loc :=
  match v with HArr els => els | HMap m => map snd (pairs m) | _ => [] end.
Definition not_box (v : hval) : Prop := forall t i, v <> HAny t i.

Record priv (s : state) : Prop := {
  pv_wf : wf s;
  (* no array element and no map value is an err cell or a box around one *)
  pv_cont : forall c v, hget (st_heap s) c = Some v -> Forall (clean s) (children v);
  (* boxes hold allocated non-box cells *)
  pv_box : forall c t i, hget (st_heap s) c = Some (HAny t i) ->
                         exists v, hget (st_heap s) i = Some v /\ not_box v;
  (* no other global is bound to an err cell or to a box around one *)
  pv_glob : forall n l, frame_get n (st_globals s) = Some l ->
                        allocd s l /\ (n <> n_err -> n <> n_errmsg -> ~ bad s l);
  pv_distinct : forall l l', frame_get n_err (st_globals s) = Some l ->
                             frame_get n_errmsg (st_globals s) = Some l' -> l <> l' }.

(* local frames hold only clean cells *)
Definition frame_clean (s : state) (f : frame) : Prop := forall n l, frame_get n f = Some l -> clean s l.
Definition env_clean (s : state) (e : env) : Prop := Forall (frame_clean s) e.

(* the one-level invariant gives the reachability statement: from a cell that is not itself an
   err cell or a box around one, NO err cell is reachable through any-contents, array elements
   and map values *)
Theorem priv_reach s : priv s -> forall l x, ~ bad s l -> reach (st_heap s) l x -> ~ err_cell s x.
Proof.
  intros PV l x NB R. induction R as [l | l t i x H R IH | l els i x H I R IH | l m k i x H I R IH].
  - intro E; apply NB; left; exact E.
  - apply IH. intros [E | (t' & i' & Hi & _)].
    + apply NB. right. exists t, i; auto.
    + destruct (pv_box s PV _ _ _ H) as (v & Hv & NBx). rewrite Hv in Hi. inversion Hi; subst.
      eapply NBx; reflexivity.
  - apply IH. pose proof (pv_cont s PV _ _ H) as F. simpl in F. rewrite Forall_forall in F.
    apply F; auto.
  - apply IH. pose proof (pv_cont s PV _ _ H) as F. simpl in F. rewrite Forall_forall in F.
    apply (F i). apply in_map_iff. exists (k, i); auto.
Qed.

(* so: every variable other than err / errmsg, every local, every array element, map value and
   any content reachable from them is a cell that globalErr never writes *)
Corollary priv_global_var s n l x :
  priv s -> frame_get n (st_globals s) = Some l -> n <> n_err -> n <> n_errmsg ->
  reach (st_heap s) l x -> ~ err_cell s x.
Proof. intros PV G N1 N2. apply priv_reach; auto. apply (pv_glob s PV n l G); auto. Qed.
Corollary priv_local_var s e f n l x :
  priv s -> env_clean s e -> In f e -> frame_get n f = Some l -> reach (st_heap s) l x -> ~ err_cell s x.
Proof.
  intros PV EC I G. apply priv_reach; auto. unfold env_clean in EC. rewrite Forall_forall in EC.
  apply (EC f I n l G).
Qed.

(* ---------- the initial state ---------- *)
Lemma init_heap_cases stop input ff ay c v :
  hget (st_heap (init_state stop input ff ay)) c = Some v ->
  (c = 1 /\ v = HBool false) \/ (c = 2 /\ v = HStr []) \/ (c = 3 /\ v = HNum (float_of_bits pi_bits)).
Proof.
  intro H. pose proof (wf_alloc_lt _ _ _ (wf_init stop input ff ay) H) as L.
  change (hnext (st_heap (init_state stop input ff ay))) with 4 in L.
  assert (C : c = 1 \/ c = 2 \/ c = 3) by lia.
  destruct C as [-> | [-> | ->]]; vm_compute in H; inversion H; auto.
Qed.

Lemma init_globals stop input ff ay n l :
  frame_get n (st_globals (init_state stop input ff ay)) = Some l ->
  (n = n_err /\ l = 1) \/ (n = n_errmsg /\ l = 2) \/ (n = s_ "pi" /\ l = 3).
Proof.
  change (st_globals (init_state stop input ff ay)) with [(n_err, 1); (n_errmsg, 2); (s_ "pi", 3)].
  cbn [frame_get].
  destruct (str_eqb n_err n) eqn:E1; [apply str_eqb_eq in E1; intro H; inversion H; auto|].
  destruct (str_eqb n_errmsg n) eqn:E2; [apply str_eqb_eq in E2; intro H; inversion H; auto|].
  destruct (str_eqb (s_ "pi") n) eqn:E3; [apply str_eqb_eq in E3; intro H; inversion H; auto|]. discriminate.
Qed.

Lemma priv_init stop input ff ay : priv (init_state stop input ff ay).
Proof.
  constructor.
  - apply wf_init.
  - intros c v H. apply init_heap_cases in H. destruct H as [[_ ->] | [[_ ->] | [_ ->]]]; constructor.
  - intros c t i H. apply init_heap_cases in H. destruct H as [[_ E] | [[_ E] | [_ E]]]; discriminate.
  - intros n l H. apply init_globals in H.
    destruct H as [[-> ->] | [[-> ->] | [-> ->]]]; (split; [vm_compute; discriminate|]); try congruence.
    intros _ _ [[E _] | (t & i & H & _)].
    + destruct E as [E|E]; vm_compute in E; discriminate.
    + vm_compute in H; discriminate.
  - intros l l' H1 H2. vm_compute in H1, H2. congruence.
Qed.

(* ====================================================================== *)
(* 2. Transfer of cleanliness between states                               *)
(* ====================================================================== *)
(* kinds of existing cells are stable (boxes immutable) and the err bindings are the same *)
Definition kinds_stable (s s' : state) : Prop :=
  forall l v, hget (st_heap s) l = Some v -> exists v', hget (st_heap s') l = Some v' /\ same_kind v v'.
Definition same_err (s s' : state) : Prop :=
  forall l, err_loc (st_globals s') l <-> err_loc (st_globals s) l.

Lemma allocd_stable s s' l : kinds_stable s s' -> allocd s l -> allocd s' l.
Proof.
  intros K A. unfold allocd in *. destruct (hget (st_heap s) l) as [v|] eqn:G; [|congruence].
  destruct (K _ _ G) as (v' & G' & _). congruence.
Qed.

Lemma err_cell_back s s' x :
  kinds_stable s s' -> same_err s s' -> allocd s x -> err_cell s' x -> err_cell s x.
Proof.
  intros K E A [EL (v' & G' & B)]. split; [apply E; auto|].
  unfold allocd in A. destruct (hget (st_heap s) x) as [v|] eqn:G; [|congruence].
  destruct (K _ _ G) as (v'' & G'' & SK). rewrite G' in G''. inversion G''; subst v''.
  exists v; split; auto. rewrite (same_kind_basic _ _ SK); auto.
Qed.

Lemma bad_back s s' x :
  priv s -> kinds_stable s s' -> same_err s s' -> allocd s x -> bad s' x -> bad s x.
Proof.
  intros PV K E A [EC | (t & i & G' & EC)].
  - left. eapply err_cell_back; eauto.
  - right. unfold allocd in A. destruct (hget (st_heap s) x) as [v|] eqn:G; [|congruence].
    destruct (K _ _ G) as (v'' & G'' & SK). rewrite G' in G''. inversion G''; subst v''.
    destruct v; simpl in SK; try contradiction. destruct SK as [-> ->].
    exists t, i. split; auto. eapply err_cell_back; eauto.
    destruct (pv_box s PV _ _ _ G) as (w & Hw & _). unfold allocd; congruence.
Qed.

Lemma clean_stable s s' x :
  priv s -> kinds_stable s s' -> same_err s s' -> clean s x -> clean s' x.
Proof.
  intros PV K E [A NB]. split; [eapply allocd_stable; eauto|]. intro B. apply NB. eapply bad_back; eauto.
Qed.

Lemma R_kinds_stable s s' : R s s' -> kinds_stable s s'.
Proof. intros [_ K _ _]. exact K. Qed.

(* ====================================================================== *)
(* 3. Allocation                                                           *)
(* ====================================================================== *)
Definition alloc_state (s : state) (v : hval) : state := upd_heap (snd (halloc (st_heap s) v)) s.

Lemma st_heap_alloc_state s v : st_heap (alloc_state s v) = snd (halloc (st_heap s) v).
Proof. reflexivity. Qed.
Lemma st_globals_alloc_state s v : st_globals (alloc_state s v) = st_globals s.
Proof. reflexivity. Qed.
Lemma hget_old_ne h v c : c <> hnext h -> hget (snd (halloc h v)) c = hget h c.
Proof. intro N. unfold halloc, hget; simpl. apply PositiveMap.gso; auto. Qed.

Lemma alloc_state_kinds s v : wf s -> kinds_stable s (alloc_state s v).
Proof.
  intros W l x G. exists x. split; [|apply same_kind_refl].
  rewrite st_heap_alloc_state. apply hget_halloc_old; auto.
Qed.
Lemma alloc_state_same_err s v : same_err s (alloc_state s v).
Proof. intro l. rewrite st_globals_alloc_state. tauto. Qed.

Lemma new_cell_not_err_loc s : priv s -> ~ err_loc (st_globals s) (hnext (st_heap s)).
Proof.
  intros PV [E|E]; destruct (pv_glob s PV _ _ E) as [A _]; apply A; apply (pv_wf s PV); lia.
Qed.

(* the new cell is clean unless it is a box around an err cell *)
Lemma alloc_state_new_clean s v :
  priv s -> (forall t i, v = HAny t i -> ~ err_cell s i /\ allocd s i) ->
  clean (alloc_state s v) (hnext (st_heap s)).
Proof.
  intros PV Hv. pose proof (pv_wf s PV) as W. split.
  - unfold allocd. rewrite st_heap_alloc_state, hget_halloc_new. discriminate.
  - intros [[EL _] | (t & i & G & EC)].
    + rewrite st_globals_alloc_state in EL. apply (new_cell_not_err_loc s PV EL).
    + rewrite st_heap_alloc_state, hget_halloc_new in G. inversion G; subst v.
      destruct (Hv _ _ eq_refl) as [NE A]. apply NE.
      eapply err_cell_back; eauto using alloc_state_kinds, alloc_state_same_err.
Qed.

Lemma alloc_state_priv s v :
  priv s -> Forall (clean s) (children v) ->
  (forall t i, v = HAny t i -> exists w, hget (st_heap s) i = Some w /\ not_box w) ->
  priv (alloc_state s v).
Proof.
  intros PV Hc Hb. pose proof (pv_wf s PV) as W.
  pose proof (alloc_state_kinds s v W) as K. pose proof (alloc_state_same_err s v) as E.
  constructor.
  - apply fresh_ok_halloc; auto.
  - intros c x G. rewrite st_heap_alloc_state in G. destruct (Pos.eq_dec c (hnext (st_heap s))) as [->|N].
    + rewrite hget_halloc_new in G. inversion G; subst x.
      eapply Forall_impl; [|exact Hc]. intros; eapply clean_stable; eauto.
    + rewrite hget_old_ne in G by auto.
      eapply Forall_impl; [|exact (pv_cont s PV c x G)]. intros; eapply clean_stable; eauto.
  - intros c t i G. rewrite st_heap_alloc_state in *.
    destruct (Pos.eq_dec c (hnext (st_heap s))) as [->|N].
    + rewrite hget_halloc_new in G. inversion G; subst v.
      destruct (Hb _ _ eq_refl) as (w & Hw & NBx). exists w; split; auto. apply hget_halloc_old; auto.
    + rewrite hget_old_ne in G by auto.
      destruct (pv_box s PV _ _ _ G) as (w & Hw & NBx). exists w; split; auto. apply hget_halloc_old; auto.
  - intros n l G. rewrite st_globals_alloc_state in G. destruct (pv_glob s PV _ _ G) as [A NB]. split.
    + eapply allocd_stable; eauto.
    + intros N1 N2 B. apply (NB N1 N2). eapply bad_back; eauto.
  - rewrite st_globals_alloc_state. apply (pv_distinct s PV).
Qed.

(* ====================================================================== *)
(* 4. copy_or_ref cleans: the value in flight may be the err cell (or a box   *)
(*    around it), but what is bound is its copy                             *)
(* ====================================================================== *)
Lemma composite_clean s l v :
  hget (st_heap s) l = Some v -> is_composite v = true -> clean s l.
Proof.
  intros G C. split; [unfold allocd; congruence|].
  intros [[_ (w & Gw & B)] | (t & i & Gi & _)].
  - rewrite G in Gw; inversion Gw; subst w. destruct v; discriminate.
  - rewrite G in Gi; inversion Gi; subst v. discriminate.
Qed.

Lemma copy_or_ref_clean fuel : forall l s c s',
  priv s -> copy_or_ref fuel l s = (Ok c, s') ->
  priv s' /\ kinds_stable s s' /\ same_err s s' /\ clean s' c /\
  (forall v, hget (st_heap s) l = Some v -> not_box v ->
             exists v', hget (st_heap s') c = Some v' /\ not_box v').
Proof.
  induction fuel as [|f IH]; intros l s c s' PV H; simpl in H.
  { apply fail_inv in H; destruct H; discriminate. }
  pose proof (pv_wf s PV) as W.
  apply bind_inv in H. destruct H as [(v & s1 & H1 & H) | (e & H1 & E)]; [|discriminate].
  apply load_inv in H1. destruct H1 as [-> [(v' & Ev & G) | [Ev _]]]; [|discriminate].
  inversion Ev; subst v'; clear Ev.
  assert (BASIC : is_basic v = true -> alloc v s = (Ok c, s') ->
          priv s' /\ kinds_stable s s' /\ same_err s s' /\ clean s' c /\
          (forall v0, hget (st_heap s) l = Some v0 -> not_box v0 ->
                      exists v', hget (st_heap s') c = Some v' /\ not_box v')).
  { intros B HA. apply alloc_inv in HA. destruct HA as [Ec ->]. inversion Ec; subst c; clear Ec.
    change (upd_heap (snd (halloc (st_heap s) v)) s) with (alloc_state s v).
    split; [apply alloc_state_priv; auto; [destruct v; simpl; auto; discriminate | intros; subst; discriminate]|].
    split; [apply alloc_state_kinds; auto|]. split; [apply alloc_state_same_err|].
    split; [apply alloc_state_new_clean; auto; intros; subst; discriminate|].
    intros v0 _ _. exists v. split; [rewrite st_heap_alloc_state; apply hget_halloc_new
                                    | intros t i Q; subst; discriminate]. }
  destruct v; try (apply BASIC; auto; fail).
  - (* any *)
    apply bind_inv in H. destruct H as [(i' & s1 & H1 & H) | (e & H1 & E)]; [|discriminate].
    destruct (IH _ _ _ _ PV H1) as (PV1 & K1 & E1 & C1 & NB1).
    apply alloc_inv in H. destruct H as [Ec ->]. inversion Ec; subst c; clear Ec.
    change (upd_heap (snd (halloc (st_heap s1) (HAny t i'))) s1) with (alloc_state s1 (HAny t i')).
    pose proof (pv_wf s1 PV1) as W1.
    destruct (pv_box s PV _ _ _ G) as (w & Hw & NBw). destruct (NB1 _ Hw NBw) as (w' & Hw' & NBw').
    split; [apply alloc_state_priv; auto; [constructor | intros t0 i0 Q; inversion Q; subst; eauto]|].
    split.
    { intros x y Gx. destruct (K1 _ _ Gx) as (y' & Gy' & SK). exists y'. split; auto.
      rewrite st_heap_alloc_state. apply hget_halloc_old; auto. }
    split; [intro x; rewrite st_globals_alloc_state; apply E1|].
    split.
    { apply alloc_state_new_clean; auto. intros t0 i0 Q; inversion Q; subst.
      destruct C1 as [A NBd]. split; auto. intro EC. apply NBd. left; auto. }
    intros v0 G0 NB0. rewrite G in G0. inversion G0; subst v0. exfalso. eapply NB0; reflexivity.
  - (* array *)
    apply ret_inv in H. destruct H as [Ec ->]. inversion Ec; subst c; clear Ec.
    split; auto. split; [intros x y Gx; exists y; split; auto using same_kind_refl|].
    split; [intro; tauto|]. split; [eapply composite_clean; eauto; reflexivity|].
    intros v0 G0 NB0. eauto.
  - apply ret_inv in H. destruct H as [Ec ->]. inversion Ec; subst c; clear Ec.
    split; auto. split; [intros x y Gx; exists y; split; auto using same_kind_refl|].
    split; [intro; tauto|]. split; [eapply composite_clean; eauto; reflexivity|].
    intros v0 G0 NB0. eauto.
  - apply crash_inv in H. destruct H; discriminate.
Qed.

(* ====================================================================== *)
(* 5. The binding sites                                                    *)
(* ====================================================================== *)
(* states that differ only in the globals / in same-kind cell contents *)
Lemma priv_change s s' :
  priv s -> wf s' -> kinds_stable s s' -> kinds_stable s' s -> same_err s s' ->
  (forall c v', hget (st_heap s') c = Some v' -> Forall (clean s') (children v')) ->
  (forall n l, frame_get n (st_globals s') = Some l -> n <> n_err -> n <> n_errmsg -> clean s' l) ->
  (forall n l, frame_get n (st_globals s') = Some l -> n = n_err \/ n = n_errmsg ->
               frame_get n (st_globals s) = Some l) ->
  priv s'.
Proof.
  intros PV W' K K' E Hc Hg He. constructor; auto.
  - intros c t i G. destruct (K' _ _ G) as (v & Gv & SK). destruct v; simpl in SK; try contradiction.
    destruct SK as [<- <-]. destruct (pv_box s PV _ _ _ Gv) as (w & Hw & NBw).
    destruct (K _ _ Hw) as (w' & Hw' & SK'). exists w'. split; auto.
    intros t0 i0 Q; subst. destruct w; simpl in SK'; try contradiction. eapply NBw; reflexivity.
  - intros n l G. destruct (str_eq_dec n n_err) as [->|N1].
    { pose proof (He _ _ G (or_introl eq_refl)) as G0. destruct (pv_glob s PV _ _ G0) as [A _].
      split; [eapply allocd_stable; eauto | congruence]. }
    destruct (str_eq_dec n n_errmsg) as [->|N2].
    { pose proof (He _ _ G (or_intror eq_refl)) as G0. destruct (pv_glob s PV _ _ G0) as [A _].
      split; [eapply allocd_stable; eauto | congruence]. }
    destruct (Hg _ _ G N1 N2) as [A NB]. split; auto.
  - intros l l' G1 G2. apply (pv_distinct s PV); apply He; auto.
Qed.

(* scope.set / scope.update of a clean cell under a name other than err / errmsg, global scope *)
Lemma bind_global_priv s n c g' :
  priv s -> clean s c -> name_ok n = true ->
  (g' = frame_set n c (st_globals s) \/ g' = frame_replace n c (st_globals s)) ->
  priv (upd_globals g' s).
Proof.
  intros PV C N Hg. pose proof (name_ok_neq _ N) as [N1 N2].
  assert (K : kinds_stable s (upd_globals g' s)) by (intros l v G; exists v; split; auto using same_kind_refl).
  assert (K' : kinds_stable (upd_globals g' s) s) by (intros l v G; exists v; split; auto using same_kind_refl).
  assert (FG : forall m, m <> n -> frame_get m g' = frame_get m (st_globals s)).
  { intros m Hm. destruct Hg as [-> | ->]; [apply frame_get_set_other | apply frame_get_replace_other]; auto. }
  assert (E : same_err s (upd_globals g' s)).
  { intro l. unfold err_loc; simpl. rewrite !FG by congruence. tauto. }
  apply (priv_change s); auto.
  - apply (pv_wf s PV).
  - intros c0 v' G. eapply Forall_impl; [|exact (pv_cont s PV c0 v' G)]. intros; eapply clean_stable; eauto.
  - intros m l G M1 M2. simpl in G. destruct (str_eq_dec m n) as [->|Hm].
    + assert (l = c).
      { destruct Hg as [-> | ->].
        - rewrite frame_get_set_same in G; congruence.
        - destruct (frame_get n (st_globals s)) eqn:F0.
          + rewrite (frame_get_replace_same _ _ _ _ F0) in G; congruence.
          + exfalso. clear -G F0. induction (st_globals s) as [|[k y] t IH]; simpl in *; [discriminate|].
            destruct (str_eqb k n) eqn:Q; simpl in G; rewrite Q in G; [discriminate | auto]. }
      subst l. eapply clean_stable; eauto.
    + rewrite FG in G by auto. destruct (pv_glob s PV _ _ G) as [A NB].
      eapply clean_stable; eauto. split; auto.
  - intros m l G M. simpl in G. rewrite FG in G; auto. destruct M; subst; congruence.
Qed.

Lemma frame_clean_set s n c f : frame_clean s f -> clean s c -> frame_clean s (frame_set n c f).
Proof.
  intros F C m l G. destruct (str_eq_dec m n) as [->|N].
  - rewrite frame_get_set_same in G. inversion G; subst; auto.
  - rewrite frame_get_set_other in G by auto. eauto.
Qed.

(* set_var with a clean cell: SDecl after copy_or_ref, loop variables, parameters *)
Lemma set_var_priv n c e s r s' :
  priv s -> env_clean s e -> clean s c -> name_ok n = true -> set_var n c e s = (r, s') ->
  priv s' /\ kinds_stable s s' /\ same_err s s' /\ forall e', r = Ok e' -> env_clean s' e'.
Proof.
  unfold set_var. intros PV EC C N H. destruct (str_eqb n underscore).
  { inversion H; subst. split; [auto|].
    split; [intros l v G; exists v; split; auto using same_kind_refl|].
    split; [intro; tauto|]. intros ? Q; inversion Q; subst; auto. }
  destruct e as [|f t]; inversion H; subst; clear H.
  - assert (PV' : priv (upd_globals (frame_set n c (st_globals s)) s)) by (eapply bind_global_priv; eauto).
    split; auto. split; [intros l v G; exists v; split; auto using same_kind_refl|].
    split; [|intros ? Q; inversion Q; subst; constructor].
    pose proof (name_ok_neq _ N) as [N1 N2]. intro l. unfold err_loc; simpl.
    rewrite !frame_get_set_other by congruence. tauto.
  - split; auto. split; [intros l v G; exists v; split; auto using same_kind_refl|].
    split; [intro; tauto|]. intros ? Q; inversion Q; subst. inversion EC; subst.
    constructor; auto. apply frame_clean_set; auto.
Qed.

(* element store  a[i] = v  with a clean v *)
Lemma children_list_set els k (v : loc) x : In x (list_set els k v) -> In x els \/ x = v.
Proof.
  revert k. induction els as [|a t IH]; intros k H; simpl in H; [tauto|].
  destruct k; simpl in H.
  - destruct H; [right; auto | left; right; auto].
  - destruct H; [left; left; auto|]. destruct (IH _ H); [left; right; auto | right; auto].
Qed.

Lemma store_same_kind_priv s la v0 v :
  priv s -> hget (st_heap s) la = Some v0 -> is_composite v0 = true -> same_kind v0 v ->
  Forall (clean s) (children v) ->
  priv (upd_heap (hset (st_heap s) la v) s) /\
  kinds_stable s (upd_heap (hset (st_heap s) la v) s) /\ same_err s (upd_heap (hset (st_heap s) la v) s).
Proof.
  intros PV G C SK Hc. set (s' := upd_heap (hset (st_heap s) la v) s).
  assert (K : kinds_stable s s').
  { intros l x Gx. unfold s'; simpl. destruct (Pos.eq_dec l la) as [->|N].
    - rewrite hget_hset_same. exists v. split; auto. congruence.
    - rewrite hget_hset_other by auto. exists x; split; auto using same_kind_refl. }
  assert (K' : kinds_stable s' s).
  { intros l x Gx. unfold s' in Gx; simpl in Gx. destruct (Pos.eq_dec l la) as [->|N].
    - rewrite hget_hset_same in Gx. inversion Gx; subst x. exists v0. split; auto.
      destruct v0, v; simpl in *; try contradiction; try discriminate; auto.
    - rewrite hget_hset_other in Gx by auto. exists x; split; auto using same_kind_refl. }
  assert (E : same_err s s') by (intro; unfold s'; simpl; tauto).
  split; [|split; auto].
  apply (priv_change s); auto.
  - eapply fresh_ok_hset; eauto. apply (pv_wf s PV).
  - intros c x Gx. unfold s' in Gx; simpl in Gx. destruct (Pos.eq_dec c la) as [->|N].
    + rewrite hget_hset_same in Gx. inversion Gx; subst x.
      eapply Forall_impl; [|exact Hc]. intros; eapply clean_stable; eauto.
    + rewrite hget_hset_other in Gx by auto.
      eapply Forall_impl; [|exact (pv_cont s PV c x Gx)]. intros; eapply clean_stable; eauto.
  - intros n l Gn N1 N2. unfold s' in Gn; simpl in Gn. destruct (pv_glob s PV _ _ Gn) as [A NB].
    eapply clean_stable; eauto. split; auto.
Qed.

Lemma store_elem_priv s la els k v :
  priv s -> hget (st_heap s) la = Some (HArr els) -> clean s v ->
  priv (upd_heap (hset (st_heap s) la (HArr (list_set els k v))) s).
Proof.
  intros PV G C.
  refine (proj1 (store_same_kind_priv s la (HArr els) (HArr (list_set els k v)) PV G eq_refl I _)).
  simpl. apply Forall_forall. intros x Hx. apply children_list_set in Hx. destruct Hx as [Hx | ->]; auto.
  pose proof (pv_cont s PV _ _ G) as F. simpl in F. rewrite Forall_forall in F. auto.
Qed.

(* m[k] = v / m.k = v with a clean v *)
Lemma premove_subset {V} k (p : list (str * V)) x : In x (premove k p) -> In x p.
Proof.
  induction p as [|[k' y] t IH]; simpl; [tauto|]. destruct (str_eqb k' k); simpl; intuition.
Qed.
Lemma store_key_priv s la om k v :
  priv s -> hget (st_heap s) la = Some (HMap om) -> clean s v ->
  priv (upd_heap (hset (st_heap s) la (HMap (oset k v om))) s).
Proof.
  intros PV G C.
  refine (proj1 (store_same_kind_priv s la (HMap om) (HMap (oset k v om)) PV G eq_refl I _)).
  pose proof (pv_cont s PV _ _ G) as F. simpl in F. rewrite Forall_forall in F.
  simpl. apply Forall_forall. intros x Hx. apply in_map_iff in Hx. destruct Hx as ([k' y] & <- & Hy).
  unfold oset in Hy. destruct (plookup k (pairs om)); simpl in Hy;
    (destruct Hy as [Q | Hy]; [inversion Q; subst; auto|]);
    apply premove_subset in Hy; apply F; apply in_map_iff; exists (k', y); auto.
Qed.
(* del m k *)
Lemma del_key_priv s la om k :
  priv s -> hget (st_heap s) la = Some (HMap om) ->
  priv (upd_heap (hset (st_heap s) la (HMap (odel k om))) s).
Proof.
  intros PV G.
  refine (proj1 (store_same_kind_priv s la (HMap om) (HMap (odel k om)) PV G eq_refl I _)).
  pose proof (pv_cont s PV _ _ G) as F. simpl in F. rewrite Forall_forall in F.
  simpl. apply Forall_forall. intros x Hx. apply in_map_iff in Hx. destruct Hx as ([k' y] & <- & Hy).
  unfold odel in Hy. destruct (plookup k (pairs om)); simpl in Hy.
  - apply premove_subset in Hy. apply F; apply in_map_iff; exists (k', y); auto.
  - apply F; apply in_map_iff; exists (k', y); auto.
Qed.

(* globalErr itself: same-kind stores into the err cells keep the invariant *)
Lemma store_err_priv s l v0 v :
  priv s -> hget (st_heap s) l = Some v0 -> is_basic v0 = true -> same_kind v0 v ->
  priv (upd_heap (hset (st_heap s) l v) s).
Proof.
  intros PV G B SK. set (s' := upd_heap (hset (st_heap s) l v) s).
  assert (K : kinds_stable s s').
  { intros x y Gx. unfold s'; simpl. destruct (Pos.eq_dec x l) as [->|N].
    - rewrite hget_hset_same. exists v. split; auto. congruence.
    - rewrite hget_hset_other by auto. exists y; split; auto using same_kind_refl. }
  assert (K' : kinds_stable s' s).
  { intros x y Gx. unfold s' in Gx; simpl in Gx. destruct (Pos.eq_dec x l) as [->|N].
    - rewrite hget_hset_same in Gx. inversion Gx; subst y. exists v0. split; auto.
      destruct v0, v; simpl in *; try contradiction; try discriminate; auto.
    - rewrite hget_hset_other in Gx by auto. exists y; split; auto using same_kind_refl. }
  assert (E : same_err s s') by (intro; unfold s'; simpl; tauto).
  apply (priv_change s); auto.
  - eapply fresh_ok_hset; eauto. apply (pv_wf s PV).
  - intros c x Gx. unfold s' in Gx; simpl in Gx. destruct (Pos.eq_dec c l) as [->|N].
    + rewrite hget_hset_same in Gx. inversion Gx; subst x.
      destruct v0, v; simpl in *; try contradiction; try discriminate; constructor.
    + rewrite hget_hset_other in Gx by auto.
      eapply Forall_impl; [|exact (pv_cont s PV c x Gx)]. intros; eapply clean_stable; eauto.
  - intros n x Gn N1 N2. unfold s' in Gn; simpl in Gn. destruct (pv_glob s PV _ _ Gn) as [A NB].
    eapply clean_stable; eauto. split; auto.
Qed.

(* eval_exprs (arguments, array literals): whatever eval_expr returns — possibly the err cell
   or a box around it — the list holds copies, all clean.  Stated for any expression evaluator
   [ev] that keeps the invariant (that is what the nine-way induction would supply). *)
Section ExprList.
  Variable ev : expr -> M loc.
  Hypothesis ev_ok : forall x s l s', priv s -> ev x s = (Ok l, s') ->
                                       priv s' /\ kinds_stable s s' /\ same_err s s'.
  Fixpoint exprs_of (d : nat) (l : list expr) : M (list loc) :=
    match l with
    | [] => ret []
    | x :: t => let* v := ev x in let* c := copy_or_ref d v in let* r := exprs_of d t in ret (c :: r)
    end.

  Lemma kinds_stable_trans a b c : kinds_stable a b -> kinds_stable b c -> kinds_stable a c.
  Proof.
    intros K1 K2 l v G. destruct (K1 _ _ G) as (v' & G' & S1). destruct (K2 _ _ G') as (v'' & G'' & S2).
    exists v''; split; auto. eapply same_kind_trans; eauto.
  Qed.
  Lemma same_err_trans a b c : same_err a b -> same_err b c -> same_err a c.
  Proof. intros E1 E2 l. destruct (E1 l), (E2 l). split; auto. Qed.

  Lemma exprs_of_clean d l : forall s cs s',
    priv s -> exprs_of d l s = (Ok cs, s') ->
    priv s' /\ kinds_stable s s' /\ same_err s s' /\ Forall (clean s') cs.
  Proof.
    induction l as [|x t IH]; intros s cs s' PV H; simpl in H.
    - apply ret_inv in H. destruct H as [Q ->]. inversion Q; subst. split; [auto|].
      split; [intros l v G; exists v; split; auto using same_kind_refl|].
      split; [intro; tauto | constructor].
    - apply bind_inv in H. destruct H as [(v & s1 & H1 & H) | (e & _ & Q)]; [|discriminate].
      destruct (ev_ok _ _ _ _ PV H1) as (PV1 & K1 & E1).
      apply bind_inv in H. destruct H as [(c & s2 & H2 & H) | (e & _ & Q)]; [|discriminate].
      destruct (copy_or_ref_clean _ _ _ _ _ PV1 H2) as (PV2 & K2 & E2 & C2 & _).
      apply bind_inv in H. destruct H as [(r & s3 & H3 & H) | (e & _ & Q)]; [|discriminate].
      destruct (IH _ _ _ PV2 H3) as (PV3 & K3 & E3 & C3).
      apply ret_inv in H. destruct H as [Q ->]. inversion Q; subst.
      split; auto. split; [eauto using kinds_stable_trans|]. split; [eauto using same_err_trans|].
      constructor; auto. apply (clean_stable s2 s3); auto.
  Qed.
End ExprList.

Lemma env_clean_stable s s' e :
  priv s -> kinds_stable s s' -> same_err s s' -> env_clean s e -> env_clean s' e.
Proof.
  intros PV K E EC. unfold env_clean in *. eapply Forall_impl; [|exact EC].
  intros f F n l G. eapply clean_stable; eauto.
Qed.

(* x := e  (after e has been evaluated to the in-flight cell v): copy, then bind *)
Lemma decl_binding_priv d v n e s1 c s2 r s3 :
  priv s1 -> env_clean s1 e -> name_ok n = true ->
  copy_or_ref d v s1 = (Ok c, s2) -> set_var n c e s2 = (r, s3) ->
  priv s3 /\ forall e', r = Ok e' -> env_clean s3 e'.
Proof.
  intros PV EC N HC HS. destruct (copy_or_ref_clean _ _ _ _ _ PV HC) as (PV2 & K2 & E2 & C2 & _).
  destruct (set_var_priv _ _ _ _ _ _ PV2 (env_clean_stable _ _ _ PV K2 E2 EC) C2 N HS) as (PV3 & _ & _ & H).
  auto.
Qed.

(* a[i] = e  (after e has been evaluated to v and a to la): copy, then element store *)
Lemma assign_elem_priv d v s1 c s2 la els k :
  priv s1 -> copy_or_ref d v s1 = (Ok c, s2) -> hget (st_heap s2) la = Some (HArr els) ->
  priv (upd_heap (hset (st_heap s2) la (HArr (list_set els k c))) s2).
Proof.
  intros PV HC G. destruct (copy_or_ref_clean _ _ _ _ _ PV HC) as (PV2 & _ & _ & C2 & _).
  apply store_elem_priv; auto.
Qed.

(* m[k] = e / m.k = e *)
Lemma assign_key_priv d v s1 c s2 la om k :
  priv s1 -> copy_or_ref d v s1 = (Ok c, s2) -> hget (st_heap s2) la = Some (HMap om) ->
  priv (upd_heap (hset (st_heap s2) la (HMap (oset k c om))) s2).
Proof.
  intros PV HC G. destruct (copy_or_ref_clean _ _ _ _ _ PV HC) as (PV2 & _ & _ & C2 & _).
  apply store_key_priv; auto.
Qed.

(* A3, the whole-run statement (NOT proved here; see the report): every state reached by a run of
   a program that declares no variable named err / errmsg, and by the events delivered after it,
   satisfies the privacy invariant.  What is proved above: the invariant holds initially
   (priv_init), gives the reachability statement (priv_reach), is kept by allocation, by
   copy_or_ref (whose result is always clean: copy_or_ref_clean), by binding a clean cell to a
   variable (set_var_priv, bind_global_priv), by element / key stores of a clean cell and del
   (store_elem_priv, store_key_priv, del_key_priv), by globalErr's own stores (store_err_priv)
   and by evalExprList over any invariant-keeping expression evaluator (exprs_of_clean).
   Missing: threading these through the nine mutually recursive functions (with the side
   conditions: the value in flight — result of eval_expr, SigReturn (Some v) — is allocated but
   may be an err cell or a box around one; every frame of the environment is clean), and the
   rebinding `err = e` itself (update_var n_err c with c the fresh copy). *)
Definition err_cells_private_full : Prop :=
  forall fuel P stop input ff ay o s1,
    no_err_decl P = true ->
    run_program fuel P (init_state stop input ff ay) = (o, s1) ->
    priv s1 /\
    forall evs o2 s2,
      fold_left (fun acc ev => handle_event fuel P (fst ev) (snd ev) (snd acc)) evs (o, s1) = (o2, s2) ->
      priv s2.
