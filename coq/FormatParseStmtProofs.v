(* FormatParseStmtProofs.v — C06 round trip, statement level, against Parser.v (parser.go):
   the tokens the formatter writes for a one-line statement parse back to the statement's tree.
   Parser.v's statement trees carry no comments (like Pratt.v's expression trees carry no
   multiline items): the statements here are comment-free. *)
From Coq Require Import List String NArith ZArith Bool Arith Lia.
From EvyV Require Import Base FmtAst Format FormatProofs Pratt PrattProofs Parser FormatParse FormatParseProofs FormatParseListProofs.
From EvyV.Gen Require Import Prec.
Import ListNotations.
Local Open Scope nat_scope.

(* what one p.advance() outside a whitespace-sensitive context leaves: a blank after the token is skipped *)
Definition skip1 (l : list token) : list token :=
  match l with t :: r => if is_ws t then r else l | [] => [] end.

Lemma advance_skip1 st t rest' :
  is_wss st = false -> rest st = t :: rest' -> is_ws (look0 (skip1 rest')) = false ->
  rest (advance st) = skip1 rest' /\ wss (advance st) = wss st /\ errs (advance st) = errs st.
Proof.
  intros W Hr Hn. unfold advance. set (s1 := advance_wss st).
  assert (R1 : rest s1 = rest') by (unfold s1; rewrite rest_advance_wss, Hr; reflexivity).
  assert (W1 : is_wss s1 = false) by exact W. rewrite W1.
  unfold advance_if_ws, cur. rewrite R1. unfold skip1 in *. destruct rest' as [|t2 r2].
  - cbn [look0 hd]. change (is_ws tEOF) with false. destruct (is_ws (peek s1)); cbn; auto.
  - cbn [look0 hd]. destruct (is_ws t2) eqn:C.
    + set (s2 := advance_wss s1). assert (R2 : rest s2 = r2) by (unfold s2; rewrite rest_advance_wss, R1; reflexivity).
      destruct (is_ws (peek s2)); cbn [rest wss errs]; auto.
    + destruct (is_ws (peek s1)); cbn [rest wss errs]; auto.
Qed.

(* p.peek after an advance outside a whitespace-sensitive context: the token after the current one, blanks skipped *)
Definition peek_of (q : list token) : token := if is_ws (look1 q) then look2 q else look1 q.

Lemma advance_peek st t rest' :
  is_wss st = false -> rest st = t :: rest' -> peek (advance st) = peek_of (skip1 rest').
Proof.
  intros W Hr. unfold advance. set (s1 := advance_wss st).
  assert (R1 : rest s1 = rest') by (unfold s1; rewrite rest_advance_wss, Hr; reflexivity).
  assert (P1 : peek s1 = look1 rest') by (unfold s1, advance_wss; cbn [peek]; rewrite Hr; reflexivity).
  assert (W1 : is_wss s1 = false) by exact W. rewrite W1.
  assert (H2 : rest (advance_if_ws s1) = skip1 rest' /\ peek (advance_if_ws s1) = look1 (skip1 rest')).
  { unfold advance_if_ws, cur. rewrite R1. unfold skip1. destruct rest' as [|t2 r2].
    - cbn [look0 hd]. change (is_ws tEOF) with false. auto.
    - cbn [look0 hd]. destruct (is_ws t2); [|auto]. split; [rewrite rest_advance_wss, R1; reflexivity|].
      unfold advance_wss. cbn [peek]. rewrite R1. reflexivity. }
  destruct H2 as [H2 H3]. unfold peek_of. rewrite H3.
  destruct (is_ws (look1 (skip1 rest'))); cbn [peek]; [rewrite H2; reflexivity | exact H3].
Qed.

Section Stmts.
  Variable B : benv.
  Hypothesis BT : forall s t n, b_tyerr B s t n = false.   (* the typing oracle is silent: types are not modelled *)
  Variable fx : fixes.

  Lemma env_no_tyerr s : no_tyerr (env_of B s).
  Proof. intros a b c. apply BT. Qed.

  Lemma env_of_with_cs s c : env_of B (with_cs s c) = env_of B s.
  Proof. reflexivity. Qed.

  (* the cursor facts of a statement-parser state *)
  (* between statements the whitespace-sensitivity stack is [false] (every push has been popped) *)
  Definition at_toks (s : pst) (r : list token) (e : list (perr * nat)) : Prop :=
    rest (cs s) = r /\ wss (cs s) = [false] /\ errs (cs s) = e.

  Lemma adv_at s t r e : at_toks s (t :: r) e -> is_ws (look0 (skip1 r)) = false -> at_toks (adv s) (skip1 r) e.
  Proof.
    intros (Hr & Hw & He) Hn. assert (Hw' : is_wss (cs s) = false) by (unfold is_wss; rewrite Hw; reflexivity).
    destruct (advance_skip1 (cs s) t r Hw' Hr Hn) as (A1 & A2 & A3).
    unfold at_toks, adv, upd. cbn [cs with_cs]. rewrite A1, A2, A3. auto.
  Qed.

  (* collect only touches the scopes and the read log *)
  Lemma cs_fold_mark l s : cs (fold_right mark s l) = cs s.
  Proof. induction l as [|n l IH]; [reflexivity|]. cbn [fold_right]. unfold mark at 1. cbn [with_scs cs]. exact IH. Qed.

  Lemma collect_at s c r e : rest c = r -> wss c = [false] -> errs c = e -> at_toks (collect s c) r e.
  Proof.
    intros Hr Hw He. unfold collect, upd, at_toks. cbn [with_cs cs]. rewrite cs_fold_mark. cbn [with_cs cs rest errs wss]. auto.
  Qed.

  Lemma fns_fold_mark l s : fns (fold_right mark s l) = fns s.
  Proof. induction l as [|n l IH]; [reflexivity|]. cbn [fold_right]. unfold mark at 1. cbn [with_scs fns]. exact IH. Qed.

  Lemma fns_collect s c : fns (collect s c) = fns s.
  Proof. unfold collect, upd. cbn [with_cs fns]. rewrite fns_fold_mark. reflexivity. Qed.

  Lemma has_var_mark_in n m l : has_var n (mark_in m l) = has_var n l.
  Proof.
    induction l as [|v r IH]; [reflexivity|]. cbn [mark_in]. destruct (str_eqb (v_name v) m); cbn [has_var v_name]; [reflexivity|].
    rewrite IH. reflexivity.
  Qed.

  (* marking a variable as read does not change which names the innermost scope declares *)
  Lemma in_local_scopes_mark n m l :
    match mark_scopes m l with [] => false | sc :: _ => has_var n (sc_vars sc) end
    = match l with [] => false | sc :: _ => has_var n (sc_vars sc) end.
  Proof.
    destruct l as [|sc r]; [reflexivity|]. cbn [mark_scopes]. destruct (has_var m (sc_vars sc)); cbn [sc_vars]; [apply has_var_mark_in | reflexivity].
  Qed.

  Lemma in_local_fold_mark n l s : in_local n (fold_right mark s l) = in_local n s.
  Proof.
    induction l as [|m l IH]; [reflexivity|]. cbn [fold_right]. unfold in_local, mark at 1. cbn [with_scs scs].
    rewrite in_local_scopes_mark. exact IH.
  Qed.

  Lemma in_local_collect n s c : in_local n (collect s c) = in_local n s.
  Proof. unfold collect, upd, in_local. cbn [with_cs scs]. apply (in_local_fold_mark n (used c) (with_cs s c)). Qed.

  (* a declaration of x is legal in state s (validateVarDecl) *)
  Definition decl_ok (x : str) (s : pst) : Prop :=
    mem_str x (b_globals B) = false /\ in_local x s = false /\ is_func x s = false /\ str_eqb x (s_ "_"%string) = false.

  (* the value of a declaration / assignment / return, a condition: what parseTopLevelExpr is applied to *)
  Definition top_ok (E : env) (v : fexpr) : Prop :=
    item_ok E false v \/
    exists n args, v = FCall n args /\ ident_text n = true /\ func_of E n = Some false /\
                   arity_wrong E n (List.length args) = false /\ Forall (item_ok E true) args.

  (* parseTopLevelExpr on the formatted value, followed by the end of the line *)
  Lemma p_toplevel_value lvl s v r e :
    top_ok (env_of B s) v ->
    at_toks s (toks_of_pieces (fmt_expr fx lvl v) ++ mk T_NL :: r) e ->
    exists s', p_toplevel B s = Ok (Some (fexpr_tree v)) s' /\ at_toks s' (mk T_NL :: r) e /\
               fns s' = fns s /\ (forall n, in_local n s' = in_local n s).
  Proof.
    intros Hok (Hr & Hw & He). unfold p_toplevel, expr_call.
    set (E := env_of B s). set (fuel := efuel (cs s)).
    assert (Hw' : is_wss (cs s) = false) by (unfold is_wss; rewrite Hw; reflexivity).
    assert (Hfuel : 2 * List.length (toks_of_pieces (fmt_expr fx lvl v)) <= fuel).
    { unfold fuel, efuel, here. rewrite Hr, app_length. lia. }
    assert (Hex : exists c, parse_toplevel E (parse_expr E fuel) fuel (cs s) = Some (Some (fexpr_tree v), c)
                            /\ rest c = mk T_NL :: r /\ wss c = wss (cs s) /\ errs c = errs (cs s)).
    { destruct Hok as [Hit|(n & args & -> & Hn & Hfn & Har & Hall)].
      - destruct (item_rt E (env_no_tyerr s) eq_refl fx false lvl v Hit) as [Hrt Hhd].
        destruct (Hrt (cs s) (mk T_NL :: r) fuel Hw' Hr) as (c & P & Q1 & Q2 & Q3); auto.
        { right; left. reflexivity. }
        exists c. split; [|auto].
        (* parseTopLevelExpr is parseExpr here: the first token does not name a function with parameters *)
        unfold parse_toplevel. destruct (toks_of_pieces (fmt_expr fx lvl v)) as [|t0 ts] eqn:Et; [contradiction|].
        unfold cur_t, cur. rewrite Hr. cbn [app look0 hd].
        destruct (ttype t0) eqn:T0; try exact P.
        destruct (func_of E (tlit t0)) as [[|]|] eqn:F; try exact P.
        exfalso. exact (item_head_not_call E fx v false lvl t0 ts Hit Et T0 F).
      - destruct (toplevel_call_rt E (env_no_tyerr s) eq_refl fx lvl n args (cs s) (mk T_NL :: r) fuel [] Hn Hfn Har Hall Hr Hw I Hfuel) as (c & P & Q).
        exists c. split; [exact P | exact Q]. }
    destruct Hex as (c & P & Q1 & Q2 & Q3). rewrite P.
    exists (collect s c). split; [reflexivity|]. split; [|split; [apply fns_collect | intro; apply in_local_collect]].
    apply collect_at; auto; [rewrite Q2; exact Hw | rewrite Q3; exact He].
  Qed.

  (* assertEOL and advancePastNL at the end of the line *)
  Lemma assert_eol_nl s r e : at_toks s (mk T_NL :: r) e -> assert_eol s = s.
  Proof. intros (Hr & _). unfold assert_eol, is_at_eol, cur_t, cur. rewrite Hr. reflexivity. Qed.

  Lemma apnl_nl s r e : at_toks s (mk T_NL :: r) e -> is_ws (look0 (skip1 r)) = false -> at_toks (apnl s) (skip1 r) e.
  Proof.
    intros (Hr & Hw & He) Hn. unfold apnl, upd, at_toks. cbn [with_cs cs]. cbn [apnl_loop].
    unfold cur_t, cur. rewrite Hr. cbn [look0 hd ttype mk].
    assert (Hw' : is_wss (cs s) = false) by (unfold is_wss; rewrite Hw; reflexivity).
    destruct (advance_skip1 (cs s) (mk T_NL) r Hw' Hr Hn) as (A1 & A2 & A3). rewrite A1, A2, A3. auto.
  Qed.

  Definition peek_ok (s : pst) (r : list token) : Prop := peek (cs s) = peek_of r.

  Lemma apnl_peek s r e : at_toks s (mk T_NL :: r) e -> peek_ok (apnl s) (skip1 r).
  Proof.
    intros (Hr & Hw & He). unfold apnl, upd, peek_ok. cbn [with_cs cs]. cbn [apnl_loop].
    unfold cur_t, cur. rewrite Hr. cbn [look0 hd ttype mk].
    assert (Hw' : is_wss (cs s) = false) by (unfold is_wss; rewrite Hw; reflexivity).
    exact (advance_peek (cs s) (mk T_NL) r Hw' Hr).
  Qed.

  Lemma adv_peek s t r e : at_toks s (t :: r) e -> peek_ok (adv s) (skip1 r).
  Proof.
    intros (Hr & Hw & He). assert (Hw' : is_wss (cs s) = false) by (unfold is_wss; rewrite Hw; reflexivity).
    exact (advance_peek (cs s) t r Hw' Hr).
  Qed.

  (* x := v *)
  Theorem inferred_decl_roundtrip lvl s x v r e :
    ident_text x = true -> decl_ok x s -> top_ok (env_of B s) v ->
    at_toks s (toks_of_pieces (fmt_stmt fx lvl (FmtAst.SInferredDecl x v [])) ++ mk T_NL :: r) e ->
    is_ws (look0 (skip1 r)) = false ->
    exists s', parse_inferred_decl_stmt B s = Ok (Some (Parser.SInferredDecl x (fexpr_tree v))) s' /\ at_toks s' (skip1 r) e /\ peek_ok s' (skip1 r).
  Proof.
    intros Hx (D1 & D2 & D3 & D4) Hv Hat Hn.
    cbn [fmt_stmt] in Hat. unfold write_comment in Hat. cbn [is_empty app] in Hat. rewrite app_nil_r in Hat.
    change (T x :: Sp :: T k_declare :: Sp :: fmt_expr fx lvl v) with ([T x; Sp; T k_declare; Sp] ++ fmt_expr fx lvl v) in Hat.
    rewrite toks_app in Hat. cbn [toks_of_pieces flat_map tok_of_piece app] in Hat. rewrite (ident_text_spec x Hx) in Hat.
    change (tok_of_text k_declare) with (mk T_DECLARE) in Hat.
    set (vt := toks_of_pieces (fmt_expr fx lvl v)) in *.
    destruct Hat as (Hr & Hw & He).
    unfold parse_inferred_decl_stmt.
    assert (Pa : passert T_IDENT s = (true, s)).
    { unfold passert, assert_token, cur_t, cur. rewrite Hr. cbn. destruct s; reflexivity. }
    rewrite Pa. cbn [snd]. unfold cur. rewrite Hr. cbn [look0 hd tlit ident_tok].
    (* the value's first token is not a blank *)
    assert (Hvhead : exists t0 ts, vt = t0 :: ts /\ is_ws t0 = false).
    { unfold vt. destruct Hv as [Hit|(n & args & -> & Hn' & _)].
      - destruct (item_rt (env_of B s) (env_no_tyerr s) eq_refl fx false lvl v Hit) as [_ Hhd].
        destruct (toks_of_pieces (fmt_expr fx lvl v)) as [|t0 ts]; [contradiction|]. exists t0, ts. split; [reflexivity|].
        cbn [head_ok] in Hhd. unfold is_ws. destruct (ttype t0); try contradiction; reflexivity.
      - rewrite (toks_call fx lvl n args Hn'). eexists; eexists. split; reflexivity. }
    destruct Hvhead as (t0 & ts & Hvt & Ht0).
    assert (A1 : at_toks (adv s) (mk T_DECLARE :: mk T_WS :: vt ++ mk T_NL :: r) e).
    { apply (adv_at s (ident_tok x) (mk T_WS :: mk T_DECLARE :: mk T_WS :: vt ++ mk T_NL :: r) e); [split; auto|reflexivity]. }
    assert (A2 : at_toks (adv (adv s)) (vt ++ mk T_NL :: r) e).
    { apply (adv_at (adv s) (mk T_DECLARE) (mk T_WS :: vt ++ mk T_NL :: r) e A1). cbn [skip1 is_ws ttype mk]. rewrite Hvt. exact Ht0. }
    destruct (p_toplevel_value lvl (adv (adv s)) v r e Hv A2) as (s2 & P & A3 & F3 & L3). rewrite P.
    unfold tyerr_s. rewrite BT.
    assert (Hvd : validate_var_decl B x (pos s) false s2 = (true, s2)).
    { unfold validate_var_decl. rewrite D1.
      assert (L : in_local x s2 = false) by (rewrite L3; exact D2). rewrite L.
      assert (Fn : is_func x s2 = false) by (unfold is_func in *; rewrite F3; exact D3). rewrite Fn.
      cbn [negb andb]. rewrite D4. reflexivity. }
    rewrite Hvd.
    set (s3 := scope_set x _ s2).
    assert (A4 : at_toks s3 (mk T_NL :: r) e).
    { unfold s3, scope_set. rewrite D4. destruct (scs s2); [exact A3|]. unfold at_toks, with_scs. cbn [cs]. exact A3. }
    rewrite (assert_eol_nl s3 r e A4).
    eexists. split; [reflexivity|]. split; [apply apnl_nl | eapply apnl_peek]; eauto.
  Qed.

  (* break *)
  Theorem break_roundtrip lvl s r e :
    in_loop s = true ->
    at_toks s (toks_of_pieces (fmt_stmt fx lvl (FmtAst.SBreak [])) ++ mk T_NL :: r) e ->
    is_ws (look0 (skip1 r)) = false ->
    exists s', parse_break_stmt s = Ok (Some Parser.SBreak) s' /\ at_toks s' (skip1 r) e /\ peek_ok s' (skip1 r).
  Proof.
    intros Hl Hat Hn. change (toks_of_pieces (fmt_stmt fx lvl (FmtAst.SBreak [])) ++ mk T_NL :: r) with (mk T_BREAK :: mk T_NL :: r) in Hat.
    unfold parse_break_stmt. rewrite Hl.
    assert (A1 : at_toks (adv s) (mk T_NL :: r) e) by (apply (adv_at s (mk T_BREAK) (mk T_NL :: r) e Hat); reflexivity).
    rewrite (assert_eol_nl (adv s) r e A1). eexists. split; [reflexivity|]. split; [apply apnl_nl | eapply apnl_peek]; eauto.
  Qed.

  Lemma sc_ret_mark m l :
    match mark_scopes m l with sc :: _ => (sc_ret sc, sc_retval sc) | [] => (false, false) end
    = match l with sc :: _ => (sc_ret sc, sc_retval sc) | [] => (false, false) end.
  Proof. destruct l as [|sc r]; [reflexivity|]. cbn [mark_scopes]. destruct (has_var m (sc_vars sc)); reflexivity. Qed.

  Lemma ret_fold_mark l s :
    match scs (fold_right mark s l) with sc :: _ => (sc_ret sc, sc_retval sc) | [] => (false, false) end
    = match scs s with sc :: _ => (sc_ret sc, sc_retval sc) | [] => (false, false) end.
  Proof.
    induction l as [|m l IH]; [reflexivity|]. cbn [fold_right]. unfold mark at 1. cbn [with_scs scs]. rewrite sc_ret_mark. exact IH.
  Qed.

  Lemma ret_collect s c : has_ret (collect s c) = has_ret s /\ ret_value (collect s c) = ret_value s.
  Proof.
    unfold has_ret, ret_value, collect, upd. cbn [with_cs scs].
    pose proof (ret_fold_mark (used c) (with_cs s c)) as H. cbn [with_cs scs] in H.
    destruct (scs (fold_right mark (with_cs s c) (used c))) as [|a ?], (scs s) as [|b ?]; inversion H; auto.
  Qed.

  (* return v   inside a function or handler body (has_ret) *)
  Theorem return_value_roundtrip lvl s v r e :
    has_ret s = true -> top_ok (env_of B s) v ->
    at_toks s (toks_of_pieces (fmt_stmt fx lvl (FmtAst.SReturn (Some v) [])) ++ mk T_NL :: r) e ->
    is_ws (look0 (skip1 r)) = false ->
    exists s', parse_return_stmt B s = Ok (Some (Parser.SReturn (Some (fexpr_tree v)))) s' /\ at_toks s' (skip1 r) e /\ peek_ok s' (skip1 r).
  Proof.
    intros Hret Hv Hat Hn.
    cbn [fmt_stmt] in Hat. unfold write_comment in Hat. cbn [is_empty app] in Hat. rewrite app_nil_r in Hat.
    change (T k_return :: Sp :: fmt_expr fx lvl v) with ([T k_return; Sp] ++ fmt_expr fx lvl v) in Hat.
    rewrite toks_app in Hat. cbn [toks_of_pieces flat_map tok_of_piece app] in Hat.
    change (tok_of_text k_return) with (mk T_RETURN) in Hat.
    set (vt := toks_of_pieces (fmt_expr fx lvl v)) in *.
    assert (Hvhead : exists t0 ts, vt = t0 :: ts /\ is_ws t0 = false /\ is_eol (ttype t0) = false).
    { unfold vt. destruct Hv as [Hit|(n & args & -> & Hn' & _)].
      - destruct (item_rt (env_of B s) (env_no_tyerr s) eq_refl fx false lvl v Hit) as [_ Hhd].
        destruct (toks_of_pieces (fmt_expr fx lvl v)) as [|t0 ts]; [contradiction|]. exists t0, ts. split; [reflexivity|].
        cbn [head_ok] in Hhd. unfold is_ws, is_eol. destruct (ttype t0); try contradiction; split; reflexivity.
      - rewrite (toks_call fx lvl n args Hn'). eexists; eexists. split; [reflexivity | split; reflexivity]. }
    destruct Hvhead as (t0 & ts & Hvt & Ht0 & Heol0).
    unfold parse_return_stmt.
    assert (A1 : at_toks (adv s) (vt ++ mk T_NL :: r) e).
    { apply (adv_at s (mk T_RETURN) (mk T_WS :: vt ++ mk T_NL :: r) e Hat). cbn [skip1 is_ws ttype mk]. rewrite Hvt. exact Ht0. }
    assert (Hbare : is_at_eol (cs (adv s)) = false).
    { destruct A1 as (R1 & _). unfold is_at_eol, cur_t, cur. rewrite R1, Hvt. exact Heol0. }
    rewrite Hbare.
    destruct (p_toplevel_value lvl (adv s) v r e Hv A1) as (s2 & P & A3 & F3 & L3). rewrite P.
    rewrite (assert_eol_nl s2 r e A3).
    (* s2 = collect (adv s) c: the return type of the scope is untouched *)
    assert (Hs2 : has_ret s2 = true).
    { unfold p_toplevel, expr_call in P. destruct (parse_toplevel _ _ _ _) as [[a c]|]; [|discriminate]. inversion P; subst.
      rewrite (proj1 (ret_collect (adv s) c)). exact Hret. }
    rewrite Hs2. cbn [negb]. unfold tyerr_s. rewrite BT.
    eexists. split; [reflexivity|]. split; [apply apnl_nl | eapply apnl_peek]; eauto.
  Qed.

  (* a bare return inside a procedure or handler *)
  Theorem return_bare_roundtrip lvl s r e :
    has_ret s = true -> ret_value s = false ->
    at_toks s (toks_of_pieces (fmt_stmt fx lvl (FmtAst.SReturn None [])) ++ mk T_NL :: r) e ->
    is_ws (look0 (skip1 r)) = false ->
    exists s', parse_return_stmt B s = Ok (Some (Parser.SReturn None)) s' /\ at_toks s' (skip1 r) e /\ peek_ok s' (skip1 r).
  Proof.
    intros Hret Hrv Hat Hn.
    change (toks_of_pieces (fmt_stmt fx lvl (FmtAst.SReturn None [])) ++ mk T_NL :: r) with (mk T_RETURN :: mk T_NL :: r) in Hat.
    unfold parse_return_stmt.
    assert (A1 : at_toks (adv s) (mk T_NL :: r) e) by (apply (adv_at s (mk T_RETURN) (mk T_NL :: r) e Hat); reflexivity).
    assert (Hbare : is_at_eol (cs (adv s)) = true).
    { destruct A1 as (R1 & _). unfold is_at_eol, cur_t, cur. rewrite R1. reflexivity. }
    rewrite Hbare. change (has_ret (adv s)) with (has_ret s). change (ret_value (adv s)) with (ret_value s).
    rewrite Hret, Hrv. cbn [negb].
    eexists. split; [reflexivity|]. split; [apply apnl_nl | eapply apnl_peek]; eauto.
  Qed.

  (* the environment the expression parser sees is read off p.funcs *)
  Lemma arity_env s n k :
    arity_wrong (env_of B s) n k =
    match lookup_fn n (fns s) with Some fi => match fi_arity fi with Some a => negb (Nat.eqb a k) | None => false end | None => false end.
  Proof.
    unfold arity_wrong, env_of. cbn [e_arity]. induction (fns s) as [|[m fi] l IH]; [reflexivity|].
    cbn [map lookup_arity lookup_fn fst snd]. destruct (str_eqb m n); [reflexivity | exact IH].
  Qed.

  (* f a b ...   as a statement *)
  Theorem call_stmt_roundtrip lvl s n args fi r e :
    ident_text n = true -> lookup_fn n (fns s) = Some fi ->
    arity_wrong (env_of B s) n (List.length args) = false ->
    Forall (item_ok (env_of B s) true) args ->
    at_toks s (toks_of_pieces (fmt_stmt fx lvl (FmtAst.SCall n args [])) ++ mk T_NL :: r) e ->
    is_ws (look0 (skip1 r)) = false ->
    exists s', parse_call_stmt B s = Ok (Some (Parser.SCallStmt (TCall n (map fexpr_tree args)))) s' /\ at_toks s' (skip1 r) e /\ peek_ok s' (skip1 r).
  Proof.
    intros Hn Hfi Har Hall Hat Hnext.
    cbn [fmt_stmt] in Hat. unfold write_comment in Hat. cbn [is_empty] in Hat. rewrite app_nil_r in Hat.
    change (fmt_call fx lvl n args) with (fmt_expr fx lvl (FCall n args)) in Hat.
    rewrite (toks_call fx lvl n args Hn) in Hat.
    set (ats := map (fun a => toks_of_pieces (fmt_expr fx lvl a)) args) in *.
    destruct Hat as (Hr & Hw & He).
    unfold parse_call_stmt. unfold cur. rewrite Hr. cbn [app look0 hd tlit ident_tok]. rewrite Hfi.
    unfold p_func_call, expr_call. set (E := env_of B s). set (fuel := efuel (cs s)).
    assert (Hargs : forall a, In a ats -> List.length a <= List.length (more_args ats)).
    { clear. induction ats as [|x r0 IH]; intros a H; [contradiction|]. cbn [more_args flat_map]. fold (more_args r0).
      simpl. rewrite app_length. destruct H as [->|H]; [lia|]. specialize (IH a H). lia. }
    assert (Hnn : List.length ats <= List.length (more_args ats)).
    { clear. induction ats as [|x r0 IH]; [simpl; lia|]. cbn [more_args flat_map]. fold (more_args r0). simpl. rewrite app_length. lia. }
    assert (Hfuel : 2 * S (List.length (more_args ats)) <= fuel).
    { unfold fuel, efuel, here. rewrite Hr. cbn [app List.length]. rewrite app_length. lia. }
    assert (H1 : arity_wrong E n (List.length ats) = false) by (unfold ats; rewrite map_length; exact Har).
    assert (H2 : Forall2 (fun a t => RT E true a t /\ head_ok a) ats (map fexpr_tree args)).
    { unfold ats. clear - Hall BT. induction args as [|a r0 IH]; [constructor|]. inversion Hall; subst. cbn [map].
      constructor; [apply (item_rt E (env_no_tyerr s) eq_refl fx true lvl a); assumption | apply IH; assumption]. }
    assert (H3 : rest (cs s) = ident_tok n :: more_args ats ++ mk T_NL :: r).
    { rewrite Hr. cbn [app]. rewrite <- ?app_assoc. reflexivity. }
    assert (H6 : forall a, In a ats -> 2 * List.length a <= fuel) by (intros a Ha; specialize (Hargs a Ha); lia).
    assert (H7 : List.length ats < fuel) by lia.
    destruct (func_call_stmt E (env_no_tyerr s) fuel fuel (fi_nil fi) n ats (map fexpr_tree args) (cs s) (mk T_NL :: r) [] H1 H2 H3 Hw I H6 H7) as (c & P & Q1 & Q2 & Q3).
    rewrite P.
    assert (A3 : at_toks (collect s c) (mk T_NL :: r) e).
    { apply collect_at; auto; [rewrite Q2; exact Hw | rewrite Q3; exact He]. }
    rewrite (assert_eol_nl _ r e A3). eexists. split; [reflexivity|]. split; [apply apnl_nl | eapply apnl_peek]; eauto.
  Qed.

  (* x:T *)
  Theorem typed_decl_roundtrip lvl s x t ty r e :
    ident_text x = true -> fty_ty t = Some ty -> decl_ok x s ->
    at_toks s (toks_of_pieces (fmt_stmt fx lvl (FmtAst.STypedDecl x t [])) ++ mk T_NL :: r) e ->
    is_ws (look0 (skip1 r)) = false ->
    exists s', parse_typed_decl_stmt B s = Ok (Some (Parser.STypedDecl x (Some ty))) s' /\ at_toks s' (skip1 r) e /\ peek_ok s' (skip1 r).
  Proof.
    intros Hx Hty (D1 & D2 & D3 & D4) Hat Hn.
    cbn [fmt_stmt] in Hat. unfold write_comment in Hat. cbn [is_empty] in Hat. rewrite app_nil_r in Hat.
    unfold write_decl in Hat. rewrite toks_app in Hat. cbn [toks_of_pieces flat_map tok_of_piece app] in Hat.
    rewrite (ident_text_spec x Hx) in Hat. change (tok_of_text k_colon) with (mk T_COLON) in Hat.
    fold (toks_of_pieces (fmt_type t)) in Hat. rewrite (toks_fmt_type t ty Hty) in Hat.
    destruct Hat as (Hr & Hw & He).
    unfold parse_typed_decl_stmt, parse_typed_decl.
    assert (Pa : passert T_IDENT s = (true, s)).
    { unfold passert, assert_token, cur_t, cur. rewrite Hr. cbn. destruct s; reflexivity. }
    rewrite Pa. cbn [snd]. unfold cur. rewrite Hr. cbn [app look0 hd tlit ident_tok].
    assert (Hth : is_ws (look0 (render_ty ty ++ mk T_NL :: r)) = false) by (destruct ty; reflexivity).
    assert (A1 : at_toks (adv s) (mk T_COLON :: render_ty ty ++ mk T_NL :: r) e).
    { apply (adv_at s (ident_tok x) (mk T_COLON :: render_ty ty ++ mk T_NL :: r) e); [split; auto|reflexivity]. }
    assert (Pc : passert T_COLON (adv s) = (true, adv s)).
    { destruct A1 as (R1 & _ & _).
      assert (G : forall q : pst, cur_t (Parser.cs q) = T_COLON -> passert T_COLON q = (true, q)).
      { intros q Hq. unfold passert, assert_token. rewrite Hq. cbn. destruct q; reflexivity. }
      apply G. unfold cur_t, cur. rewrite R1. reflexivity. }
    rewrite Pc. cbn [snd].
    assert (A2 : at_toks (adv (adv s)) (render_ty ty ++ mk T_NL :: r) e).
    { assert (Hs : skip1 (render_ty ty ++ mk T_NL :: r) = render_ty ty ++ mk T_NL :: r) by (destruct ty; reflexivity).
      rewrite <- Hs. apply (adv_at (adv s) (mk T_COLON) (render_ty ty ++ mk T_NL :: r) e A1). rewrite Hs. exact Hth. }
    (* parseType *)
    unfold p_type, expr_call. destruct A2 as (R2 & W2 & E2).
    assert (W2' : is_wss (cs (adv (adv s))) = false) by (unfold is_wss; rewrite W2; reflexivity).
    assert (Hfu : ty_size ty <= efuel (cs (adv (adv s)))).
    { pose proof (ty_size_le ty). unfold efuel, here. rewrite R2, app_length. lia. }
    rewrite (parse_type_spec ty (cs (adv (adv s))) false (mk T_NL :: r) _ R2 W2' eq_refl Hfu).
    destruct (consume_ty_spec ty (cs (adv (adv s))) false (mk T_NL :: r) R2 W2' eq_refl) as (C1 & C2 & C3).
    set (c := consume_ty ty (cs (adv (adv s)))) in *.
    assert (A3 : at_toks (collect (adv (adv s)) c) (mk T_NL :: r) e).
    { apply collect_at; auto; [rewrite C2; exact W2 | rewrite C3; exact E2]. }
    set (s2 := collect (adv (adv s)) c) in *.
    assert (Hvd : validate_var_decl B x (pos s) false s2 = (true, s2)).
    { unfold validate_var_decl. rewrite D1.
      assert (L : in_local x s2 = false) by (unfold s2; rewrite in_local_collect; exact D2). rewrite L.
      assert (Fn : is_func x s2 = false) by (unfold is_func in *; unfold s2; rewrite fns_collect; exact D3). rewrite Fn.
      cbn [negb andb]. rewrite D4. reflexivity. }
    rewrite Hvd.
    set (s3 := scope_set x _ s2).
    assert (A4 : at_toks s3 (mk T_NL :: r) e).
    { unfold s3, scope_set. rewrite D4. destruct (scs s2); [exact A3|]. unfold at_toks, with_scs. cbn [cs]. exact A3. }
    rewrite (assert_eol_nl s3 r e A4).
    eexists. split; [reflexivity|]. split; [apply apnl_nl | eapply apnl_peek]; eauto.
  Qed.

  (* marking a variable as read does not change the names in scope *)
  Lemma names_mark_in n l : map v_name (mark_in n l) = map v_name l.
  Proof. induction l as [|v r IH]; [reflexivity|]. cbn [mark_in]. destruct (str_eqb (v_name v) n); cbn [map v_name]; [reflexivity | rewrite IH; reflexivity]. Qed.

  Lemma visible_mark n l : visible (mark_scopes n l) = visible l.
  Proof.
    induction l as [|sc r IH]; [reflexivity|]. cbn [mark_scopes]. destruct (has_var n (sc_vars sc)).
    - unfold visible. cbn [flat_map sc_vars]. rewrite names_mark_in. reflexivity.
    - unfold visible in *. cbn [flat_map]. rewrite IH. reflexivity.
  Qed.

  Lemma env_of_mark n s : env_of B (mark n s) = env_of B s.
  Proof. unfold env_of, mark. cbn [with_scs scs fns]. rewrite visible_mark. reflexivity. Qed.

  Lemma with_cs_id s : with_cs s (cs s) = s.
  Proof. destruct s; reflexivity. Qed.

  Lemma passert_ok t s : ct s = t -> passert t s = (true, s).
  Proof.
    intro H. unfold passert, assert_token. unfold ct in H. rewrite H.
    assert (Hb : toktype_beq t t = true) by (apply toktype_beq_eq; reflexivity). rewrite Hb. rewrite with_cs_id. reflexivity.
  Qed.

  (* x = v   (the target is a variable; index and dot targets are not covered) *)
  Theorem assign_var_roundtrip lvl s x v r e :
    ident_text x = true -> is_func x s = false -> scope_get x s = true -> top_ok (env_of B s) v ->
    at_toks s (toks_of_pieces (fmt_stmt fx lvl (FmtAst.SAssign (FVar x) v [])) ++ mk T_NL :: r) e ->
    is_ws (look0 (skip1 r)) = false ->
    exists s', parse_assign_stmt B s = Ok (Some (Parser.SAssign (TVar x) (fexpr_tree v))) s' /\ at_toks s' (skip1 r) e /\ peek_ok s' (skip1 r).
  Proof.
    intros Hx Hnf Hsg Hv Hat Hn.
    cbn [fmt_stmt fmt_expr] in Hat. unfold write_comment in Hat. cbn [is_empty app] in Hat. rewrite app_nil_r in Hat.
    change (T x :: Sp :: T k_assign :: Sp :: fmt_expr fx lvl v) with ([T x; Sp; T k_assign; Sp] ++ fmt_expr fx lvl v) in Hat.
    rewrite toks_app in Hat. cbn [toks_of_pieces flat_map tok_of_piece app] in Hat. rewrite (ident_text_spec x Hx) in Hat.
    change (tok_of_text k_assign) with (mk T_ASSIGN) in Hat.
    set (vt := toks_of_pieces (fmt_expr fx lvl v)) in *.
    assert (Hvhead : exists t0 ts, vt = t0 :: ts /\ is_ws t0 = false).
    { unfold vt. destruct Hv as [Hit|(n & args & -> & Hn' & _)].
      - destruct (item_rt (env_of B s) (env_no_tyerr s) eq_refl fx false lvl v Hit) as [_ Hhd].
        destruct (toks_of_pieces (fmt_expr fx lvl v)) as [|t0 ts]; [contradiction|]. exists t0, ts. split; [reflexivity|].
        cbn [head_ok] in Hhd. unfold is_ws. destruct (ttype t0); try contradiction; reflexivity.
      - rewrite (toks_call fx lvl n args Hn'). eexists; eexists. split; reflexivity. }
    destruct Hvhead as (t0 & ts & Hvt & Ht0).
    assert (Hat0 := Hat). destruct Hat as (Hr & Hw & He).
    unfold parse_assign_stmt. unfold cur. rewrite Hr. cbn [look0 hd tlit ident_tok]. rewrite Hnf.
    unfold parse_assign_target. unfold cur. rewrite Hr. cbn [look0 hd tlit ident_tok].
    assert (Hus : str_eqb x (s_ "_"%string) = false).
    { unfold scope_get in Hsg. apply andb_true_iff in Hsg as [H _]. apply negb_true_iff in H. exact H. }
    rewrite Hus. change (scope_get x (adv s)) with (scope_get x s). rewrite Hsg. cbn [negb].
    assert (A1 : at_toks (adv s) (mk T_ASSIGN :: mk T_WS :: vt ++ mk T_NL :: r) e).
    { apply (adv_at s (ident_tok x) (mk T_WS :: mk T_ASSIGN :: mk T_WS :: vt ++ mk T_NL :: r) e Hat0). reflexivity. }
    assert (A1m : at_toks (mark x (adv s)) (mk T_ASSIGN :: mk T_WS :: vt ++ mk T_NL :: r) e) by exact A1.
    (* the target loop stops at "=" *)
    assert (Hct : ct (mark x (adv s)) = T_ASSIGN).
    { destruct A1m as (R1 & _). unfold ct, cur_t, cur. rewrite R1. reflexivity. }
    cbn [assign_target_loop]. rewrite Hct.
    assert (Pa : passert T_ASSIGN (mark x (adv s)) = (true, mark x (adv s))).
    { apply passert_ok, Hct. }
    rewrite Pa. cbn [snd].
    assert (A2 : at_toks (adv (mark x (adv s))) (vt ++ mk T_NL :: r) e).
    { apply (adv_at (mark x (adv s)) (mk T_ASSIGN) (mk T_WS :: vt ++ mk T_NL :: r) e A1m). cbn [skip1 is_ws ttype mk]. rewrite Hvt. exact Ht0. }
    assert (Hv' : top_ok (env_of B (adv (mark x (adv s)))) v).
    { change (env_of B (adv (mark x (adv s)))) with (env_of B (mark x (adv s))). rewrite env_of_mark. exact Hv. }
    destruct (p_toplevel_value lvl (adv (mark x (adv s))) v r e Hv' A2) as (s2 & P & A3 & _ & _). rewrite P.
    unfold tyerr_s. rewrite BT. rewrite (assert_eol_nl s2 r e A3).
    eexists. split; [reflexivity|]. split; [apply apnl_nl | eapply apnl_peek]; eauto.
  Qed.
End Stmts.
