(* Lexer.v - model of pkg/lexer/lexer.go (Lexer.Next and its helpers) and of the
   part of strconv.Unquote that readString relies on.  No proofs here (see
   LexerProofs.v).

   Go:   l := lexer.New(input)   // input []rune, pos -1, line 1, col 0
         for tok := l.Next(); tok.Type != EOF; tok = l.Next() { ... }   (parser.consumeTokens)
   Model: [lex input] is the list of tokens returned by the successive calls of
   Next up to and including the first EOF token.  [input] is the rune slice
   []rune(input) (one code point per element; Go has already replaced every
   invalid UTF-8 byte by U+FFFD at that point).  Offset, Line and Col count
   runes, not bytes, because the lexer indexes the rune slice.

   The recursion is structural on the rune list: one step per rune, exactly
   like Lexer.advance; a token that spans k runes sets a skip counter to k-1.
   unicode.IsLetter / unicode.IsDigit are oracles (Section variables). *)
From Coq Require Import String ZArith NArith List Bool.
From EvyV Require Import Base.
From EvyV.Gen Require Import TokenTypes Keywords.
Import ListNotations.
Open Scope N_scope.

(* lexer.Token *)
Record token := mkToken {
  t_type : token_type;
  t_lit : str;      (* Literal; raw (non UTF-8) bytes b of an unquoted string are 0x110000 + b *)
  t_off : N;        (* Offset: rune index *)
  t_line : N;
  t_col : N }.

(* ---------- strconv.Unquote for a double-quoted lexeme ---------- *)

(* strconv.unhex *)
Definition unhex (c : N) : option N :=
  if (48 <=? c) && (c <=? 57) then Some (c - 48)
  else if (97 <=? c) && (c <=? 102) then Some (c - 97 + 10)
  else if (65 <=? c) && (c <=? 70) then Some (c - 65 + 10)
  else None.

(* v = v<<4 | x over a list of hex digits *)
Fixpoint hex_value (acc : N) (ds : list N) : option N :=
  match ds with
  | [] => Some acc
  | d :: r => match unhex d with Some x => hex_value (acc * 16 + x) r | None => None end
  end.

(* one octal digit: x := rune(s[j]) - '0'; x < 0 || x > 7 is an error *)
Definition unoct (c : N) : option N :=
  if (48 <=? c) && (c <=? 55) then Some (c - 48) else None.

(* utf8.ValidRune: for 8-digit \U escapes Go's int32 wraps negative above
   0x7fffffff, which is invalid as well, like every N above 0x10FFFF here *)
Definition valid_rune (v : N) : bool :=
  (v <? 55296) || ((57343 <? v) && (v <=? 1114111)).

(* \xHH and \ooo append byte(v): an ASCII character below 0x80, a raw byte
   otherwise (represented as 0x110000 + v, DESIGN.md section 3) *)
Definition raw_byte (v : N) : N := if v <? 128 then v else 1114112 + v.

Definition emit (u : N) (r : option str) : option str :=
  match r with Some s => Some (u :: s) | None => None end.

(* The loop of strconv.unquote (quote = double quote, unescape = true) with
   strconv.UnquoteChar inlined, on the runes after the opening quote.  [None]
   is ErrSyntax.  Go works on the UTF-8 bytes; every byte it inspects
   individually (quote, backslash, newline, escape letter, hex and octal
   digits) is ASCII, and a rune >= 0x80 is decoded and re-encoded unchanged,
   so working on runes is the same computation.  Deep patterns keep the
   recursion structural: \x takes 2, \u 4, \U 8 hex digits, \o two more octal
   digits.  After the closing quote nothing may remain (Unquote: len(rem) > 0
   is ErrSyntax). *)
Fixpoint unquote_body (l : list N) : option str :=
  match l with
  | [] => None                                   (* no terminating quote *)
  | c :: r =>
    if c =? 34 then (match r with [] => Some [] | _ :: _ => None end)
    else if c =? 10 then None                     (* in[0] == '\n' *)
    else if negb (c =? 92) then emit c (unquote_body r)
    else match r with
      | [] => None                                (* len(s) <= 1 *)
      | e :: s =>
        if e =? 97 then emit 7 (unquote_body s)         (* \a *)
        else if e =? 98 then emit 8 (unquote_body s)    (* \b *)
        else if e =? 102 then emit 12 (unquote_body s)  (* \f *)
        else if e =? 110 then emit 10 (unquote_body s)  (* \n *)
        else if e =? 114 then emit 13 (unquote_body s)  (* \r *)
        else if e =? 116 then emit 9 (unquote_body s)   (* \t *)
        else if e =? 118 then emit 11 (unquote_body s)  (* \v *)
        else if e =? 120 then                            (* \xHH *)
          match s with
          | h1 :: h2 :: s' =>
            match hex_value 0 [h1; h2] with
            | Some v => emit (raw_byte v) (unquote_body s')
            | None => None
            end
          | _ => None
          end
        else if e =? 117 then                            (* \uHHHH *)
          match s with
          | h1 :: h2 :: h3 :: h4 :: s' =>
            match hex_value 0 [h1; h2; h3; h4] with
            | Some v => if valid_rune v then emit v (unquote_body s') else None
            | None => None
            end
          | _ => None
          end
        else if e =? 85 then                             (* \UHHHHHHHH *)
          match s with
          | h1 :: h2 :: h3 :: h4 :: h5 :: h6 :: h7 :: h8 :: s' =>
            match hex_value 0 [h1; h2; h3; h4; h5; h6; h7; h8] with
            | Some v => if valid_rune v then emit v (unquote_body s') else None
            | None => None
            end
          | _ => None
          end
        else if (48 <=? e) && (e <=? 55) then            (* \ooo *)
          match s with
          | o2 :: o3 :: s' =>
            match unoct o2, unoct o3 with
            | Some x2, Some x3 =>
              let v := ((e - 48) * 8 + x2) * 8 + x3 in
              if 255 <? v then None else emit (raw_byte v) (unquote_body s')
            | _, _ => None
            end
          | _ => None
          end
        else if e =? 92 then emit 92 (unquote_body s)   (* \\ *)
        else if e =? 34 then emit 34 (unquote_body s)   (* backslash, double quote *)
        else None                                        (* backslash-apostrophe and every other escape *)
      end
  end.

(* strconv.Unquote(s) for s starting with a double quote *)
Definition unquote (s : list N) : option str :=
  match s with
  | 34 :: body => unquote_body body
  | _ => None
  end.

Definition invalid_string : str := Eval compute in s_ "invalid string"%string.

(* ---------- lexer helpers ---------- *)

(* lookAt(pos+1), lookAt(pos+2) on the remaining input; beyond the end Go returns eof (-1), the
   model 0: both are only compared with '=', '/' and '.', from which they differ alike *)
Definition peek (l : list N) : N := match l with [] => 0 | c :: _ => c end.
Definition peek2 (l : list N) : N := match l with _ :: c :: _ => c | _ => 0 end.

(* readWhile / consumeHorizontalWhitespace: how many of the following runes
   satisfy pred.  (Go stops at the end of the input because pred(eof) is false
   for each predicate it uses: eof = -1 is no letter, digit, blank or '.'.) *)
Fixpoint span_len (pred : N -> bool) (l : list N) : nat :=
  match l with
  | [] => O
  | c :: r => if pred c then S (span_len pred r) else O
  end.

(* isHorizontalWhitespace *)
Definition is_hws (r : N) : bool := (r =? 32) || (r =? 9) || (r =? 13).
(* isDigit *)
Definition is_digit (r : N) : bool := (48 <=? r) && (r <=? 57).
(* readNum's predicate *)
Definition num_char (r : N) : bool := is_digit r || (r =? 46).

(* lookupKeyword: a Go map lookup *)
Fixpoint lookup_keyword (kws : list (str * token_type)) (s : str) : option token_type :=
  match kws with
  | [] => None
  | (k, t) :: r => if str_eqb k s then Some t else lookup_keyword r s
  end.

Section Lexer.
  (* unicode.IsLetter, unicode.IsDigit: oracles *)
  Variable uni_letter uni_digit : N -> bool.
  (* lookAt returns the sentinel eof = -1, which is not a rune, beyond the end
     of the input (since commit d745e6e).  Before that fix it returned rune 0,
     the same value as a U+0000 in the source, so a NUL ended the token
     stream.  [nul_is_eof = false] is the code as it is; [true] is the lexer
     before the fix, kept for the regression lemmas C03_*_before_fix. *)
  Variable nul_is_eof : bool.
  Definition is_end (r : N) : bool := nul_is_eof && (r =? 0).

  (* readComment's predicate: r != eof && r != '\n' *)
  Definition comment_char (r : N) : bool := negb (is_end r) && negb (r =? 10).

  (* readString's loop: number of runes consumed after the opening quote.
     [esc] is the variable `escaped` computed for the rune under the cursor. *)
  Fixpoint string_span (esc : bool) (l : list N) : nat :=
    match l with
    | [] => O                                              (* pr == eof *)
    | c :: r =>
      if (c =? 34) && negb esc then 1%nat                  (* closing quote: advance, break *)
      else if is_end c || (c =? 10) then O                 (* error case: break *)
      else S (string_span ((c =? 92) && negb esc) r)
    end.

  (* isLetter *)
  Definition is_letter (r : N) : bool := uni_letter r || (r =? 95).
  (* readIdent's predicate *)
  Definition ident_char (r : N) : bool := is_letter r || uni_digit r.

  Definition fixed1 (t : token_type) : token_type * str * nat := (t, [], 1%nat).
  (* `if l.peekRune() == '=' { l.advance(); return t2 }; return t1` *)
  Definition with_eq (rest : list N) (t2 t1 : token_type) : token_type * str * nat :=
    if peek rest =? 61 then (t2, [], 2%nat) else (t1, [], 1%nat).

  (* The body of Lexer.Next after l.advance(): l.cur = c, the input after it
     is rest.  Result: token type, literal, number of runes the token spans
     (cursor rune included). *)
  Definition next_token (c : N) (rest : list N) : token_type * str * nat :=
    if (c =? 32) || (c =? 9) then (T_WS, [], S (span_len is_hws rest))
    else if c =? 61 then with_eq rest T_EQ T_ASSIGN             (* = *)
    else if c =? 43 then fixed1 T_PLUS
    else if c =? 45 then fixed1 T_MINUS
    else if c =? 33 then with_eq rest T_NOT_EQ T_BANG           (* ! *)
    else if c =? 47 then                                        (* / *)
      if peek rest =? 47 then
        let k := span_len comment_char rest in (T_COMMENT, c :: firstn k rest, S k)
      else fixed1 T_SLASH
    else if c =? 42 then fixed1 T_ASTERISK
    else if c =? 37 then fixed1 T_PERCENT
    else if c =? 60 then with_eq rest T_LTEQ T_LT               (* < *)
    else if c =? 62 then with_eq rest T_GTEQ T_GT               (* > *)
    else if c =? 58 then with_eq rest T_DECLARE T_COLON         (* : *)
    else if c =? 123 then fixed1 T_LCURLY
    else if c =? 125 then fixed1 T_RCURLY
    else if c =? 40 then fixed1 T_LPAREN
    else if c =? 41 then fixed1 T_RPAREN
    else if c =? 91 then fixed1 T_LBRACKET
    else if c =? 93 then fixed1 T_RBRACKET
    else if c =? 10 then fixed1 T_NL
    else if c =? 46 then                                        (* . *)
      if (peek rest =? 46) && (peek2 rest =? 46) then (T_DOT3, [], 3%nat) else fixed1 T_DOT
    else if c =? 34 then                                        (* double quote *)
      let k := string_span false rest in
      match unquote (c :: firstn k rest) with
      | Some lit => (T_STRING_LIT, lit, S k)
      | None => (T_ILLEGAL, invalid_string, S k)
      end
    else if is_end c then (T_EOF, [], 1%nat)                     (* before the fix: case 0 *)
    else if is_letter c then
      let k := span_len ident_char rest in
      let lit := c :: firstn k rest in
      match lookup_keyword keywords lit with
      | Some kw => (kw, [], S k)
      | None => (T_IDENT, lit, S k)
      end
    else if is_digit c then
      let k := span_len num_char rest in (T_NUM_LIT, c :: firstn k rest, S k)
    else (T_ILLEGAL, [c], 1%nat).

  (* Lexer.advance's bookkeeping when the cursor leaves rune c *)
  Definition adv_line (c line : N) : N := if c =? 10 then line + 1 else line.
  Definition adv_col (c col : N) : N := if c =? 10 then 1 else col + 1.

  (* One step per rune.  (off, line, col) is the position of the rune at the
     head of the list; skip > 0 means the rune belongs to the token emitted
     earlier. *)
  Fixpoint lex_go (skip : nat) (off line col : N) (l : list N) : list token :=
    match l with
    | [] => [mkToken T_EOF [] off line col]           (* lookAt beyond the end = eof: case eof *)
    | c :: rest =>
      match skip with
      | S k => lex_go k (off + 1) (adv_line c line) (adv_col c col) rest
      | O =>
        let '(ty, lit, len) := next_token c rest in
        let t := mkToken ty lit off line col in
        if token_type_beq ty T_EOF then [t]
        else t :: lex_go (Nat.pred len) (off + 1) (adv_line c line) (adv_col c col) rest
      end
    end.

  Definition lex_gen (input : list N) : list token := lex_go O 0 1 1 input.
End Lexer.

(* the lexer as it is, and the lexer before commit d745e6e (a NUL rune ended the input) *)
Definition lex (uni_letter uni_digit : N -> bool) := lex_gen uni_letter uni_digit false.
Definition lex_before_fix (uni_letter uni_digit : N -> bool) := lex_gen uni_letter uni_digit true.

(* ---------- entry point for the driver ----------
   case:   ((cp isLetter isDigit) ...) (cp ...)       the table lists every code point of the input
   result: ((NAME "literal" offset line col) ...) *)
Fixpoint table_get (tbl : list (N * (bool * bool))) (c : N) : bool * bool :=
  match tbl with
  | [] => (false, false)
  | (k, v) :: r => if k =? c then v else table_get r c
  end.

Definition dec_bool (x : sx) : option bool :=
  match x with
  | Sym s => if str_eqb s (s_ "true"%string) then Some true else if str_eqb s (s_ "false"%string) then Some false else None
  | _ => None
  end.

Fixpoint dec_table (l : list sx) : option (list (N * (bool * bool))) :=
  match l with
  | [] => Some []
  | Lst [Int c; a; b] :: r =>
    match dec_bool a, dec_bool b, dec_table r with
    | Some a, Some b, Some r => Some ((Z.to_N c, (a, b)) :: r)
    | _, _, _ => None
    end
  | _ => None
  end.

Fixpoint dec_cps (l : list sx) : option (list N) :=
  match l with
  | [] => Some []
  | Int c :: r => match dec_cps r with Some r => Some (Z.to_N c :: r) | None => None end
  | _ => None
  end.

Definition enc_token (t : token) : sx :=
  Lst [Sym (tt_name (t_type t)); Str (t_lit t); Int (Z.of_N (t_off t)); Int (Z.of_N (t_line t)); Int (Z.of_N (t_col t))].

Definition lex_case_gen (b : bool) (x : sx) : sx :=
  match x with
  | Lst [Lst tbl; Lst cps] =>
    match dec_table tbl, dec_cps cps with
    | Some tbl, Some cps =>
      Lst (map enc_token (lex_gen (fun c => fst (table_get tbl c)) (fun c => snd (table_get tbl c)) b cps))
    | _, _ => Sym (s_ "decode-error"%string)
    end
  | _ => Sym (s_ "decode-error"%string)
  end.

Definition lex_case := lex_case_gen false.
Definition lex_before_fix_case := lex_case_gen true.
