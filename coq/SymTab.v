(* SymTab.v — model of pkg/bytecode/symbol.go (SymbolTable: Push, Pop, Define,
   Resolve; fields store, index, nestedMaxIndex, outer).  No proofs here
   (see SymTabProofs.v).

   Go keeps a linked chain of tables through [outer]; only the innermost table
   (the compiler's c.symbolTable) is ever operated on, its outer tables are
   frozen until it is popped.  Model: the current table plus the list of its
   outer tables, innermost first; [outers = []] is Go's [outer == nil], i.e.
   the current table is the global one. *)
From Coq Require Import ZArith NArith List Bool String.
From EvyV Require Import Base.
Import ListNotations.
Open Scope string_scope.
Open Scope N_scope.

Inductive sscope := GlobalScope | LocalScope.

Definition sscope_eqb (a b : sscope) : bool :=
  match a, b with GlobalScope, GlobalScope | LocalScope, LocalScope => true | _, _ => false end.

(* type Symbol struct { Name; Scope; Index } *)
Record symbol := { sname : str; sscp : sscope; sidx : N }.

(* type SymbolTable struct { store; index; nestedMaxIndex; outer } — [store] is
   a Go map, only ever looked up by name: an association list, newest first *)
Record table := { store : list (str * symbol); index : N; nmax : N }.

Record symtab := { cur : table; outers : list table }.

Fixpoint slookup (name : str) (st : list (str * symbol)) : option symbol :=
  match st with
  | [] => None
  | (k, v) :: t => if str_eqb k name then Some v else slookup name t
  end.

(* NewSymbolTable *)
Definition new_symtab : symtab :=
  {| cur := {| store := []; index := 0; nmax := 0 |}; outers := [] |}.

(* SymbolTable.Push: the nested table starts at the index of s unless s is the
   global table (s.outer == nil), then at 0 *)
Definition st_push (s : symtab) : symtab :=
  let idx := match outers s with [] => 0 | _ :: _ => index (cur s) end in
  {| cur := {| store := []; index := idx; nmax := 0 |}; outers := cur s :: outers s |}.

(* SymbolTable.Pop: on the global table returns s itself; otherwise
   s.outer.nestedMaxIndex = max(s.outer.nestedMaxIndex, s.nestedMaxIndex + s.index) *)
Definition st_pop (s : symtab) : symtab :=
  match outers s with
  | [] => s
  | o :: rest =>
      {| cur := {| store := store o; index := index o;
                   nmax := N.max (nmax o) (nmax (cur s) + index (cur s)) |};
         outers := rest |}
  end.

(* SymbolTable.Define: an existing symbol of the same name *in this table* is
   returned unchanged; otherwise Index = s.index, s.index++, Scope by outer==nil *)
Definition st_define (name : str) (s : symtab) : symtab * symbol :=
  match slookup name (store (cur s)) with
  | Some existing => (s, existing)
  | None =>
      let sym := {| sname := name;
                    sscp := match outers s with [] => GlobalScope | _ :: _ => LocalScope end;
                    sidx := index (cur s) |} in
      ({| cur := {| store := (name, sym) :: store (cur s); index := index (cur s) + 1; nmax := nmax (cur s) |};
          outers := outers s |}, sym)
  end.

(* SymbolTable.Resolve: this table's store, then recursively the outer tables *)
Fixpoint resolve_in (name : str) (ts : list table) : option symbol :=
  match ts with
  | [] => None
  | t :: rest => match slookup name (store t) with
                 | Some v => Some v
                 | None => resolve_in name rest
                 end
  end.
Definition st_resolve (name : str) (s : symtab) : option symbol :=
  resolve_in name (cur s :: outers s).

(* Compiler.Bytecode(): GlobalCount = symbolTable.index, LocalCount =
   symbolTable.nestedMaxIndex, read from the *current* table *)
Definition st_global_count (s : symtab) : N := index (cur s).
Definition st_local_count (s : symtab) : N := nmax (cur s).

(* ---------- histories ---------- *)
Inductive sop := SPush | SPop | SDefine (name : str) | SResolve (name : str).

(* what an operation returns (observed by the correspondence check) *)
Inductive sres := RNone | RSym (s : symbol) | RMissing.

Definition st_step (o : sop) (s : symtab) : symtab * sres :=
  match o with
  | SPush => (st_push s, RNone)
  | SPop => (st_pop s, RNone)
  | SDefine n => let (s', sym) := st_define n s in (s', RSym sym)
  | SResolve n => (s, match st_resolve n s with Some sym => RSym sym | None => RMissing end)
  end.

Fixpoint st_run (h : list sop) (s : symtab) : symtab * list sres :=
  match h with
  | [] => (s, [])
  | o :: t => let (s1, r) := st_step o s in
              let (s2, rs) := st_run t s1 in (s2, r :: rs)
  end.

(* popping everything that is still open *)
Fixpoint st_pop_all_aux (c : table) (os : list table) : table :=
  match os with
  | [] => c
  | o :: rest =>
      st_pop_all_aux {| store := store o; index := index o;
                        nmax := N.max (nmax o) (nmax c + index c) |} rest
  end.
Definition st_pop_all (s : symtab) : table := st_pop_all_aux (cur s) (outers s).

(* ---------- wire format ---------- *)
Definition enc_scope (s : sscope) : sx := Sym (s_ match s with GlobalScope => "GLOBAL" | LocalScope => "LOCAL" end).
Definition enc_symbol (s : symbol) : sx := Lst [Str (sname s); enc_scope (sscp s); Int (Z.of_N (sidx s))].
Definition enc_res (r : sres) : sx :=
  match r with
  | RNone => Sym (s_ "none")
  | RSym s => enc_symbol s
  | RMissing => Sym (s_ "missing")
  end.
(* a table dump: (index nmax (symbols in definition order, oldest first)) *)
Definition enc_table (t : table) : sx :=
  Lst [Int (Z.of_N (index t)); Int (Z.of_N (nmax t)); Lst (map (fun kv => enc_symbol (snd kv)) (rev (store t)))].

Definition dec_sop (x : sx) : option sop :=
  match x with
  | Lst [Sym t] => if str_eqb t (s_ "push") then Some SPush
                   else if str_eqb t (s_ "pop") then Some SPop else None
  | Lst [Sym t; Str n] => if str_eqb t (s_ "define") then Some (SDefine n)
                          else if str_eqb t (s_ "resolve") then Some (SResolve n) else None
  | _ => None
  end.

Fixpoint dec_sops (l : list sx) : option (list sop) :=
  match l with
  | [] => Some []
  | y :: t => match dec_sop y, dec_sops t with Some o, Some r => Some (o :: r) | _, _ => None end
  end.

(* entry point: (op…) ↦ ((result…) (table dump, current first …)) *)
Definition symtab_case (x : sx) : sx :=
  match x with
  | Lst ops =>
      match dec_sops ops with
      | Some h => let (s, rs) := st_run h new_symtab in
                  Lst [Lst (map enc_res rs); Lst (map enc_table (cur s :: outers s))]
      | None => Sym (s_ "decode-error")
      end
  | _ => Sym (s_ "decode-error")
  end.
