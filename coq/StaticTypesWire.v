(* StaticTypesWire.v — wire entry of the specification-driven checker StaticTypes.swt_program:
   (prog ...) ↦ (swt <swt_program> <wt_program>) | decode-error *)
From Coq Require Import String List.
From EvyV Require Import Base Ast Static StaticTypes.
Import ListNotations.
Local Open Scope string_scope.

Definition swt_case (x : sx) : sx :=
  match dec_program x with
  | Some P => Lst [Sym (s_ "swt"); sx_bool (swt_program P); sx_bool (wt_program P)]
  | None => Sym (s_ "decode-error")
  end.
