(* PermCombineProofs.v — C08: combineTypes is order independent on types without Fixed flags. *)
From Coq Require Import ZArith NArith List Bool Permutation Lia.
From EvyV Require Import Base Perm PermProofs.
Import ListNotations.

Definition unopt (o : option ty) : ty := match o with Some x => x | None => TAny end.

Lemma clean_not_fixed t : clean t = true -> is_fixed t = false.
Proof. destruct t as [| k f s|]; simpl; auto. destruct f; simpl; auto. Qed.

Lemma teq_sw_eq (sw : bool) (a b : ty) : clean a = true -> clean b = true ->
  teq (if sw then b else a) (if sw then a else b) = true -> a = b.
Proof. intros Ca Cb H. destruct sw; apply teq_clean in H; auto. Qed.

Lemma join_neq_base x b : TBase x <> b -> join (TBase x) b = TAny.
Proof.
  destruct b as [y| |]; simpl; auto. intro N. destruct (base_eqb x y) eqn:E; auto.
  apply base_eqb_eq in E. congruence.
Qed.

Lemma ct_step_join a : forall b sw, clean a = true -> clean b = true -> unopt (ct_step sw a b) = join a b.
Proof.
  induction a as [x|ka fa sa IH|ka]; intros b sw Ca Cb.
  - cbn [ct_step]. destruct (teq (if sw then b else TBase x) (if sw then TBase x else b)) eqn:E.
    + apply teq_sw_eq in E; auto. subst b. rewrite join_idem by assumption. destruct sw; reflexivity.
    + assert (TBase x <> b). { intro; subst b. destruct sw; rewrite (proj2 (teq_clean _ _ Ca Ca) eq_refl) in E; discriminate. }
      rewrite join_neq_base by assumption.
      destruct (is_fixed (if sw then TBase x else b) || is_fixed (if sw then b else TBase x)); [reflexivity|].
      destruct b; reflexivity.
  - cbn [ct_step]. destruct (teq (if sw then b else TComp ka fa sa) (if sw then TComp ka fa sa else b)) eqn:E.
    + apply teq_sw_eq in E; auto. subst b. rewrite join_idem by assumption. destruct sw; reflexivity.
    + assert (NE : TComp ka fa sa <> b). { intro; subst b. destruct sw; rewrite (proj2 (teq_clean _ _ Ca Ca) eq_refl) in E; discriminate. }
      assert (Fx : is_fixed (if sw then TComp ka fa sa else b) || is_fixed (if sw then b else TComp ka fa sa) = false).
      { destruct sw; rewrite (clean_not_fixed _ Ca), (clean_not_fixed _ Cb); reflexivity. }
      rewrite Fx. destruct b as [y|kb fb sb|kb]; cbn [join unopt].
      * reflexivity.
      * simpl in Ca, Cb. apply andb_true_iff in Ca as [_ Ca]. apply andb_true_iff in Cb as [_ Cb].
        destruct (Bool.eqb ka kb); [|reflexivity]. cbn [unopt]. f_equal.
        exact (IH sb (negb sw) Ca Cb).
      * destruct (Bool.eqb ka kb); reflexivity.
  - cbn [ct_step]. destruct (teq (if sw then b else TEmpty ka) (if sw then TEmpty ka else b)) eqn:E.
    + apply teq_sw_eq in E; auto. subst b. rewrite join_idem by assumption. destruct sw; reflexivity.
    + assert (NE : TEmpty ka <> b). { intro; subst b. destruct sw; rewrite (proj2 (teq_clean _ _ Ca Ca) eq_refl) in E; discriminate. }
      assert (Fx : is_fixed (if sw then TEmpty ka else b) || is_fixed (if sw then b else TEmpty ka) = false).
      { destruct sw; rewrite (clean_not_fixed _ Ca), (clean_not_fixed _ Cb); reflexivity. }
      rewrite Fx. destruct b as [y|kb fb sb|kb]; cbn [join unopt].
      * reflexivity.
      * destruct (Bool.eqb ka kb); reflexivity.
      * destruct (Bool.eqb ka kb) eqn:K; [|reflexivity]. apply Bool.eqb_prop in K. congruence.
Qed.

Definition cleanP (t : ty) : Prop := clean t = true.

Lemma fold_join_any ts : fold_left join ts TAny = TAny.
Proof. induction ts as [|t r IH]; cbn [fold_left]; [reflexivity|]. rewrite join_any_l. exact IH. Qed.

Lemma ct_loop_fold ts : forall c, cleanP c -> Forall cleanP ts -> ct_loop c ts = fold_left join ts c.
Proof.
  induction ts as [|t r IH]; intros c Cc F; simpl; [reflexivity|].
  inversion F as [|? ? Ct Fr]; subst.
  pose proof (ct_step_join c t false Cc Ct) as J.
  destruct (ct_step false c t) as [c'|]; simpl in J; subst.
  - apply IH; [apply join_clean; assumption | assumption].
  - rewrite <- J. symmetry. apply fold_join_any.
Qed.

Lemma fold_join_perm l l' : Permutation l l' -> Forall cleanP l -> forall c, cleanP c ->
  fold_left join l c = fold_left join l' c.
Proof.
  induction 1 as [|x l l' P IH|x y l|l l' l'' P1 IH1 P2 IH2]; intros F c Cc; simpl; auto.
  - inversion F; subst. apply IH; [assumption | apply join_clean; assumption].
  - inversion F as [|? ? Cy F']; subst. inversion F' as [|? ? Cx F'']; subst.
    f_equal. rewrite !join_assoc by assumption. f_equal. apply join_comm; assumption.
  - rewrite IH1 by assumption. apply IH2; [|assumption].
    apply Forall_forall. intros t Ht. eapply Forall_forall; [exact F|].
    eapply Permutation_in; [apply Permutation_sym; exact P1 | exact Ht].
Qed.

(* combineTypes over literal-only (unfixed) types does not depend on the order *)
Theorem combineTypes_clean_perm l l' : Permutation l l' -> Forall cleanP l -> combineTypes l = combineTypes l'.
Proof.
  induction 1 as [|x l l' P IH|x y l|l l' l'' P1 IH1 P2 IH2]; intros F; auto.
  - inversion F as [|? ? Cx Fl]; subst. simpl.
    assert (Fl' : Forall cleanP l').
    { apply Forall_forall. intros t Ht. eapply Forall_forall; [exact Fl|]. eapply Permutation_in; [apply Permutation_sym; exact P | exact Ht]. }
    rewrite !ct_loop_fold by assumption. apply fold_join_perm; assumption.
  - inversion F as [|? ? Cy F']; subst. inversion F' as [|? ? Cx Fl]; subst.
    unfold combineTypes. rewrite !ct_loop_fold by (try assumption; constructor; assumption).
    simpl. f_equal. apply join_comm; assumption.
  - rewrite IH1 by assumption. apply IH2.
    apply Forall_forall. intros t Ht. eapply Forall_forall; [exact F|].
    eapply Permutation_in; [apply Permutation_sym; exact P1 | exact Ht].
Qed.

Lemma parseMapLiteral_sub_clean_perm pi1 pi2 :
  Permutation pi1 pi2 -> Forall (fun kv => clean (snd kv) = true) pi1 -> parseMapLiteral_sub pi1 = parseMapLiteral_sub pi2.
Proof.
  intros P F. unfold parseMapLiteral_sub. apply combineTypes_clean_perm.
  - apply Permutation_map. exact P.
  - apply Forall_forall. intros t Ht. apply in_map_iff in Ht as [kv [<- Hk]].
    exact (proj1 (Forall_forall _ _) F kv Hk).
Qed.
