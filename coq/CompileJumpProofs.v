(* CompileJumpProofs.v — well-formedness of code WITH jumps, at the level of
   instruction lists (opcode, operand):

   A linear pass assigns an abstract stack state to every instruction, treating
   OpJump as height-preserving for the instruction that follows it (which is
   only reachable through other jumps — in structured code always at the same
   height).  The code is well formed (judgment WF of Bytecode.v, LocalCount = 0)
   if the pass succeeds and every jump's target carries exactly the state the
   jump requires there.  [ops_WF] proves this once; CompileCtlProofs.v shows
   that what the compiler emits for if / else-if / else, while, break and the
   for-range forms satisfies the premises. *)
From Coq Require Import ZArith NArith List Bool Lia ZifyBool ZifyNat ZifyN Floats.
From EvyV Require Import Base Bytecode BytecodeProofs SymTab SymTabProofs Vm VmProofs Compile CompileSem CompileProofs CompileWfProofs.
Require Import EvyV.Gen.Opcodes.
Import ListNotations.
Open Scope N_scope.

(* ---------- the linear pass ---------- *)
Definition jop_step (nc gc : N) (x : sop) (a : ast) : option ast :=
  if negb (snd x <? 65536) then None
  else match fst x, a with
       | Jump, AH k => Some (AH k)
       | JumpOnFalse, AH k => if 1 <=? k then Some (AH (k - 1)) else None
       | JumpOnFalse, ACond k => Some (AH (k + 1))
       | StepRange, AH k => if 3 <=? k then Some (if snd x =? 0 then AH (k + 1) else ACond k) else None
       | IterRange, AH k => if 2 <=? k then Some (if snd x =? 0 then AH (k + 1) else ACond k) else None
       | _, AH k => match sop_ok nc gc x k with Some k' => Some (AH k') | None => None end
       | _, ACond _ => None
       end.

(* a jump's target and the state it requires there *)
Definition jop_req (x : sop) (a : ast) : option (N * ast) :=
  match fst x, a with
  | Jump, AH k => Some (snd x, AH k)
  | JumpOnFalse, AH k => Some (snd x, AH (k - 1))
  | JumpOnFalse, ACond k => Some (snd x, AH k)
  | _, _ => None
  end.

Fixpoint jruns (nc gc : N) (ops : list sop) (a : ast) : option ast :=
  match ops with
  | [] => Some a
  | x :: t => match jop_step nc gc x a with Some a' => jruns nc gc t a' | None => None end
  end.

Fixpoint jannot (nc gc : N) (ops : list sop) (pc : N) (a : ast) : list (N * ast) :=
  match ops with
  | [] => []
  | x :: t => (pc, a) :: match jop_step nc gc x a with
                         | Some a' => jannot nc gc t (pc + ilen_of x) a'
                         | None => []
                         end
  end.

(* every jump of ops (run from state a) finds its required state at its
   target: in the annotation A, or at the end E with state aend *)
Fixpoint jtargets (nc gc : N) (A : list (N * ast)) (E : N) (aend : ast) (ops : list sop) (a : ast) : Prop :=
  match ops with
  | [] => True
  | x :: t =>
      match jop_req x a with
      | Some (T, ra) => (T = E /\ ra = aend) \/ In (T, ra) A
      | None => True
      end /\
      match jop_step nc gc x a with
      | Some a' => jtargets nc gc A E aend t a'
      | None => True
      end
  end.

Lemma jruns_app nc gc a : forall b s s1 s2,
  jruns nc gc a s = Some s1 -> jruns nc gc b s1 = Some s2 -> jruns nc gc (a ++ b) s = Some s2.
Proof.
  induction a as [|x t IH]; simpl; intros b s s1 s2 H1 H2.
  - inversion H1; subst; exact H2.
  - destruct (jop_step nc gc x s); [|discriminate]. eauto.
Qed.

Lemma jop_step_arg nc gc x a a' : jop_step nc gc x a = Some a' -> snd x < 65536.
Proof. unfold jop_step. destruct (snd x <? 65536) eqn:E; [lia|discriminate]. Qed.

(* ---------- decoding ---------- *)
Lemma decode1_enc1' x rest : snd x < 65536 ->
  decode1 (enc1 x ++ rest) = Some (instr_of x, rest) /\ N.of_nat (List.length (enc1 x)) = ilen_of x.
Proof.
  destruct x as [o arg]. cbn [fst snd]. intros EA.
  unfold enc1, instr_of, ilen_of. cbn [fst snd].
  destruct (has_operand o) eqn:HO.
  - destruct (make_decode o (Z.of_N arg) rest HO) as (bs & HM & HD); [lia|]. rewrite HM.
    rewrite N2Z.id in HD. split; [exact HD|].
    destruct (make_arg_bytes o (Z.of_N arg) HO) as (hi & lo & HM' & _); [lia|]. rewrite HM in HM'.
    inversion HM'; subst. reflexivity.
  - destruct (make_decode_noarg o rest HO) as [HM HD]. rewrite HM. split; [exact HD|reflexivity].
Qed.

Lemma jdecode nc gc ops : forall pc a a' fuel,
  jruns nc gc ops a = Some a' -> (List.length (encode ops) <= fuel)%nat ->
  decode_from fuel pc (encode ops) = Some (instrs_of ops pc) /\
  N.of_nat (List.length (encode ops)) = total_len ops.
Proof.
  induction ops as [|x t IH]; intros pc a a' fuel H HF; simpl.
  - split; [destruct fuel; reflexivity|reflexivity].
  - simpl in H. destruct (jop_step nc gc x a) as [a1|] eqn:E; [|discriminate].
    pose proof (jop_step_arg _ _ _ _ _ E) as HA.
    destruct (decode1_enc1' x (encode t) HA) as [HD HL].
    assert (HP : (1 <= List.length (enc1 x))%nat) by (unfold ilen_of in HL; destruct (has_operand (fst x)); lia).
    simpl in HF. rewrite app_length in HF.
    destruct (enc1 x ++ encode t) as [|b r] eqn:EL; [apply (f_equal (@List.length N)) in EL; rewrite app_length in EL; simpl in EL; lia|].
    destruct fuel as [|f]; [lia|]. cbn [decode_from]. rewrite <- EL in *. rewrite HD.
    cbn [ilen instr_of].
    destruct (IH (pc + ilen_of x) a1 a' f H) as [IH1 IH2]; [lia|]. rewrite IH1. split; [reflexivity|].
    rewrite app_length, Nat2N.inj_add, HL, IH2. reflexivity.
Qed.

(* ---------- the annotation ---------- *)
Fixpoint alookupA (pc : N) (l : list (N * ast)) : option ast :=
  match l with
  | [] => None
  | (p, a) :: t => if p =? pc then Some a else alookupA pc t
  end.

Lemma jannot_ge nc gc ops : forall pc0 a0 pc a, In (pc, a) (jannot nc gc ops pc0 a0) -> pc0 <= pc.
Proof.
  induction ops as [|x t IH]; simpl; intros pc0 a0 pc a H; [destruct H|].
  destruct H as [E|H]; [inversion E; lia|].
  destruct (jop_step nc gc x a0); [|destruct H]. apply IH in H. pose proof (ilen_pos x). lia.
Qed.

Lemma alookupA_in nc gc ops : forall pc0 a0 pc a,
  In (pc, a) (jannot nc gc ops pc0 a0) -> alookupA pc (jannot nc gc ops pc0 a0) = Some a.
Proof.
  induction ops as [|x t IH]; simpl; intros pc0 a0 pc a H; [destruct H|].
  destruct H as [E|H].
  - inversion E; subst. rewrite N.eqb_refl. reflexivity.
  - destruct (jop_step nc gc x a0) eqn:ES; [|destruct H].
    pose proof (jannot_ge _ _ _ _ _ _ _ H). pose proof (ilen_pos x).
    destruct (pc0 =? pc) eqn:EQ; [apply N.eqb_eq in EQ; lia|]. apply IH; exact H.
Qed.

Lemma alookupA_some pc l a : alookupA pc l = Some a -> In (pc, a) l.
Proof.
  induction l as [|[p a0] t IH]; simpl; [discriminate|].
  destruct (p =? pc) eqn:E; intro H.
  - apply N.eqb_eq in E. inversion H; subst. left; reflexivity.
  - right; auto.
Qed.

(* ---------- the transfer function of Bytecode.v agrees with the linear pass ---------- *)
Definition jsuccs (x : sop) (a a' : ast) (pc : N) : list (N * ast) :=
  match jop_req x a with
  | Some tr => match fst x with Jump => [tr] | _ => [(pc + ilen_of x, a'); tr] end
  | None => [(pc + ilen_of x, a')]
  end.

Lemma jop_step_xfer nc gc x a a' pc : jop_step nc gc x a = Some a' ->
  xfer 0 pc (instr_of x) a = Some (jsuccs x a a' pc).
Proof.
  intro H. pose proof (jop_step_arg _ _ _ _ _ H) as HA. unfold jop_step in H.
  destruct (snd x <? 65536) eqn:EA; [|discriminate]. cbn [negb] in H.
  destruct x as [o arg]. cbn [fst snd] in *.
  destruct o; destruct a as [k|k]; try discriminate H;
    try (match type of H with
         | match sop_ok ?n ?g ?x ?k with _ => _ end = _ =>
             destruct (sop_ok n g x k) as [k'|] eqn:ES; [|discriminate]; inversion H; subst a';
             unfold jsuccs, jop_req; cbn [fst snd]; apply (sop_ok_xfer _ _ _ _ _ pc ES)
         end).
  - (* Jump *) inversion H; subst a'. unfold xfer, jsuccs, jop_req, instr_of, arg0. cbn [iop iargs ilen fst snd has_operand nth].
    rewrite opc_of_N_of_opc. reflexivity.
  - (* JumpOnFalse, AH *)
    destruct (1 <=? k) eqn:EK; [|discriminate]. inversion H; subst a'.
    unfold xfer, jsuccs, jop_req, instr_of, arg0, ilen_of. cbn [iop iargs ilen fst snd has_operand nth].
    rewrite opc_of_N_of_opc. change (0 + 1) with 1. rewrite EK. reflexivity.
  - (* JumpOnFalse, ACond *)
    inversion H; subst a'.
    unfold xfer, jsuccs, jop_req, instr_of, arg0, ilen_of. cbn [iop iargs ilen fst snd has_operand nth].
    rewrite opc_of_N_of_opc. reflexivity.
  - (* StepRange *)
    destruct (3 <=? k) eqn:EK; [|discriminate]. inversion H; subst a'.
    unfold xfer, jsuccs, jop_req, instr_of, arg0, ilen_of. cbn [iop iargs ilen fst snd has_operand nth].
    rewrite opc_of_N_of_opc. change (0 + 3) with 3. rewrite EK. reflexivity.
  - (* IterRange *)
    destruct (2 <=? k) eqn:EK; [|discriminate]. inversion H; subst a'.
    unfold xfer, jsuccs, jop_req, instr_of, arg0, ilen_of. cbn [iop iargs ilen fst snd has_operand nth].
    rewrite opc_of_N_of_opc. change (0 + 2) with 2. rewrite EK. reflexivity.
Qed.

(* operand ranges and the absence of locals, instruction by instruction *)
Lemma jop_step_operand_ok nc gc x a a' :
  jop_step nc gc x a = Some a' ->
  chk_nl nc gc (instr_of x) = true.
Proof.
  intro H. unfold jop_step in H. destruct (snd x <? 65536) eqn:EA; [|discriminate]. cbn [negb] in H.
  destruct x as [o arg]. cbn [fst snd] in *.
  unfold chk_nl, instr_of, arg0. cbn [iop iargs fst snd]. rewrite opc_of_N_of_opc.
  destruct o; try reflexivity; destruct a as [k|k]; try discriminate H;
    unfold sop_ok in H; cbn [is_sl negb has_operand andb simple_effect] in H; try discriminate H;
    rewrite EA in H; cbn [negb] in H;
    cbn [has_operand nth];
    repeat match type of H with context [if ?c then _ else _] => destruct c eqn:?; try discriminate H end;
    try reflexivity; assumption.
Qed.

(* every annotated point: its instruction, its transfer, its successors *)
Lemma jflow nc gc A E aend ops : forall pc0 a0,
  jruns nc gc ops a0 = Some aend -> jtargets nc gc A E aend ops a0 ->
  forall pc a, In (pc, a) (jannot nc gc ops pc0 a0) ->
    pc < pc0 + total_len ops /\
    exists x a', In (pc, instr_of x) (instrs_of ops pc0) /\ jop_step nc gc x a = Some a' /\
      ((pc + ilen_of x = pc0 + total_len ops /\ a' = aend) \/
       In (pc + ilen_of x, a') (jannot nc gc ops pc0 a0)) /\
      match jop_req x a with
      | Some (T, ra) => (T = E /\ ra = aend) \/ In (T, ra) A
      | None => True
      end.
Proof.
  induction ops as [|x t IH]; simpl; intros pc0 a0 HR HT pc a H; [destruct H|].
  destruct (jop_step nc gc x a0) as [a1|] eqn:ES; [|discriminate].
  destruct HT as [HT0 HT1]. pose proof (ilen_pos x) as HP.
  destruct H as [Eq|H].
  - inversion Eq; subst pc a. split; [unfold total_len; simpl; lia|].
    exists x, a1. split; [left; reflexivity|]. split; [exact ES|]. split; [|exact HT0].
    destruct t as [|y t'].
    + left. simpl in HR. inversion HR; subst. unfold total_len; simpl. split; [lia|reflexivity].
    + right. right. simpl. left. reflexivity.
  - destruct (IH (pc0 + ilen_of x) a1 HR HT1 pc a H) as (HB & y & a' & HI & HS & HN & HQ).
    split; [unfold total_len in *; simpl; lia|].
    exists y, a'. split; [right; exact HI|]. split; [exact HS|]. split; [|exact HQ].
    destruct HN as [[HE HK]|HN].
    + left. unfold total_len in *. simpl. split; [lia|exact HK].
    + right. right. exact HN.
Qed.

(* every instruction of the decode: its state, its step, its target clause *)
Lemma jinstr_annot nc gc A E ops : forall pc0 a0 aend,
  jruns nc gc ops a0 = Some aend -> jtargets nc gc A E aend ops a0 ->
  forall pc i, In (pc, i) (instrs_of ops pc0) ->
    exists x a a', i = instr_of x /\ jop_step nc gc x a = Some a' /\
      match jop_req x a with
      | Some (T, ra) => (T = E /\ ra = aend) \/ In (T, ra) A
      | None => True
      end.
Proof.
  induction ops as [|x t IH]; simpl; intros pc0 a0 aend HR HT pc i H; [destruct H|].
  destruct (jop_step nc gc x a0) as [a1|] eqn:ES; [|discriminate]. destruct HT as [HT0 HT1].
  destruct H as [Eq|H].
  - inversion Eq; subst pc i. exists x, a0, a1. split; [reflexivity|]. split; [exact ES|exact HT0].
  - apply (IH _ _ _ HR HT1 _ _ H).
Qed.

Lemma jannot_pcs nc gc ops : forall pc0 a0 pc a,
  In (pc, a) (jannot nc gc ops pc0 a0) -> In pc (map fst (instrs_of ops pc0)).
Proof.
  induction ops as [|x t IH]; simpl; intros pc0 a0 pc a H; [destruct H|].
  destruct H as [Eq|H]; [inversion Eq; left; reflexivity|].
  destruct (jop_step nc gc x a0); [|destruct H]. right. eapply IH; eauto.
Qed.

Lemma jump_target_req x a a' nc gc T : jop_step nc gc x a = Some a' ->
  jump_target (instr_of x) = Some T -> exists ra, jop_req x a = Some (T, ra).
Proof.
  intros HS HJ. unfold jump_target, instr_of, arg0 in HJ. cbn [iop iargs] in HJ. rewrite opc_of_N_of_opc in HJ.
  unfold jop_step in HS. destruct (snd x <? 65536); [|discriminate]. cbn [negb] in HS.
  destruct x as [o arg]. cbn [fst snd] in *. unfold jop_req. cbn [fst snd].
  destruct o; try discriminate HJ; cbn [has_operand nth] in HJ; inversion HJ; subst T;
    destruct a; try discriminate HS; eauto.
Qed.

(* ---------- the theorem: the two premises imply WF ---------- *)
Theorem ops_WFg : forall nc gc ops,
  jruns nc gc ops (AH 0) = Some (AH 0) ->
  jtargets nc gc (jannot nc gc ops 0 (AH 0)) (total_len ops) (AH 0) ops (AH 0) ->
  WFg (chk_nl nc gc) 0 (encode ops).
Proof.
  intros nc gc ops HR HT.
  set (A := jannot nc gc ops 0 (AH 0)).
  destruct (jdecode nc gc ops 0 (AH 0) (AH 0) (List.length (encode ops)) HR (le_n _)) as [HD HLEN].
  exists (instrs_of ops 0), (fun pc => alookupA pc A).
  split; [exact HD|]. split; [|split].
  - intros pc i HI.
    destruct (jinstr_annot nc gc A (total_len ops) ops 0 (AH 0) (AH 0) HR HT pc i HI) as (x & a & a' & -> & HS & HQ).
    split; [apply (jop_step_operand_ok _ _ _ _ _ HS)|].
    intros T HJ. destruct (jump_target_req _ _ _ _ _ _ HS HJ) as (ra & HQ'). rewrite HQ' in HQ.
    destruct HQ as [[E1 _]|HQ]; [left; rewrite HLEN; exact E1|right].
    apply (jannot_pcs _ _ _ _ _ _ _ HQ).
  - intro NE. destruct ops as [|x t]; [simpl in NE; congruence|]. unfold A. simpl. reflexivity.
  - intros pc a Ha. apply alookupA_some in Ha.
    destruct (jflow nc gc A (total_len ops) (AH 0) ops 0 (AH 0) HR HT pc a Ha) as (HB & x & a' & HI & HS & HN & HQ).
    exists (instr_of x), (jsuccs x a a' pc). split; [exact HI|]. split; [apply (jop_step_xfer _ _ _ _ _ pc HS)|].
    intros t b Hin. rewrite HLEN.
    assert (NEXT : (pc + ilen_of x = total_len ops /\ a' = AH 0) \/ (pc + ilen_of x < total_len ops /\ alookupA (pc + ilen_of x) A = Some a')).
    { destruct HN as [[HE HK]|HN]; [left; split; [lia|exact HK]|right].
      destruct (jflow nc gc A (total_len ops) (AH 0) ops 0 (AH 0) HR HT _ _ HN) as (HB' & _).
      split; [lia|apply alookupA_in; exact HN]. }
    assert (TGT : forall T ra, jop_req x a = Some (T, ra) ->
                  (T = total_len ops /\ ra = AH 0) \/ (T < total_len ops /\ alookupA T A = Some ra)).
    { intros T ra HQ'. rewrite HQ' in HQ. destruct HQ as [[E1 E2]|HQ]; [left; auto|right].
      destruct (jflow nc gc A (total_len ops) (AH 0) ops 0 (AH 0) HR HT _ _ HQ) as (HB' & _).
      split; [lia|apply alookupA_in; exact HQ]. }
    unfold jsuccs in Hin. destruct (jop_req x a) as [[T ra]|] eqn:EQ.
    + assert (Hcases : (pc + ilen_of x, a') = (t, b) \/ (T, ra) = (t, b)).
      { clear - Hin. destruct (fst x); simpl in Hin; tauto. }
      destruct Hcases as [Eq|Eq]; inversion Eq; subst; [apply NEXT|apply (TGT _ _ eq_refl)].
    + simpl in Hin. destruct Hin as [Hin|[]]. inversion Hin; subst. apply NEXT.
Qed.

(* with the operands of the local accesses below lc: WF with LocalCount = lc
   (the heights of the linear pass are counted from LocalCount) *)
Theorem ops_WF : forall nc gc lc ops,
  jruns nc gc ops (AH 0) = Some (AH 0) ->
  jtargets nc gc (jannot nc gc ops 0 (AH 0)) (total_len ops) (AH 0) ops (AH 0) ->
  Forall (lopk lc) ops ->
  WF {| bcode := encode ops; nconsts := nc; gcount := gc; lcount := lc |}.
Proof.
  intros nc gc lc ops HR HT HL. apply WFg_WF; [apply ops_WFg; assumption|].
  intros instrs pc i HD HI.
  destruct (jdecode nc gc ops 0 (AH 0) (AH 0) (List.length (encode ops)) HR (le_n _)) as [HD' _].
  unfold decode_all in HD. assert (instrs = instrs_of ops 0) by congruence. subst instrs.
  destruct (instrs_of_in _ _ _ _ HI) as (x & Hx & ->). apply lopk_instr.
  rewrite Forall_forall in HL. apply HL. exact Hx.
Qed.
