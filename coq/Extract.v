(* Extract.v — the single extraction file.  Only the three standard
   extraction libraries are used; no hand-written Extract directive. *)
From Coq Require Import String Extraction ExtrOcamlBasic ExtrOCamlFloats ExtrOCamlInt63.
From EvyV Require Import Base Omap.
Local Open Scope string_scope.

Definition name_omap := Eval compute in s_ "omap".

Definition dispatch (name : str) (x : sx) : sx :=
  if str_eqb name name_omap then omap_case x
  else Sym (s_ "unknown-model").

Extraction "model.ml" dispatch.
