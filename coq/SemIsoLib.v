(* SemIsoLib.v — the value helpers and built-ins of Sem.v are invariant under a
   renaming of heap locations (see SemIsoBase.v). *)
From Coq Require Import ZArith NArith PArith List String Bool Floats FMapPositive Lia.
From EvyV Require Import Base Num Ast Omap Sem SemStoreBase SemIsoBase.
Import ListNotations.
Local Open Scope positive_scope.

Ltac prim :=
  first
    [ apply sim_tick | apply sim_emitE | apply sim_depth_fuel | apply sim_lift
    | apply sim_fail | apply sim_crash | apply sim_internal
    | apply sim_load; eassumption
    | apply sim_load_num; eassumption | apply sim_load_str; eassumption | apply sim_load_bool; eassumption
    | apply sim_alloc; solve [constructor; eauto | repeat constructor]
    | apply sim_store; [eassumption | solve [constructor; eauto]]
    | apply sim_lookup; eassumption
    | apply sim_ret; solve [reflexivity | eassumption | constructor; eauto] ].

Ltac dopt :=
  match goal with R : optrel _ _ ?x ?y |- _ => destruct x, y; simpl in R; try contradiction end.
Ltac deq := repeat match goal with R : eqrel _ _ ?x ?y |- _ => unfold eqrel in R; subst end.

(* ---------- copyOrRef ---------- *)
Lemma sim_copy_or_ref fuel : forall f l1 l2, lrel f l1 l2 -> sim f lrel (copy_or_ref fuel l1) (copy_or_ref fuel l2).
Proof.
  induction fuel as [|n IH]; intros f l1 l2 L; simpl; [apply sim_fail|].
  sbind prim. destruct R; try prim.
  sbind ltac:(apply IH; eassumption). prim.
Qed.

(* ---------- deepCopy ---------- *)
Lemma sim_deep_copy fuel : forall f l1 l2, lrel f l1 l2 -> sim f lrel (deep_copy fuel l1) (deep_copy fuel l2).
Proof.
  induction fuel as [|n IH]; intros f l1 l2 L; simpl; [apply sim_crash|].
  sbind prim. destruct R; try prim.
  - sbind ltac:(apply IH; eassumption). prim.
  - sbind ltac:(eapply (sim_mapM lrel lrel); [intros; apply IH; eassumption | apply ext_refl | eassumption]).
    prim.
  - rewrite <- H.
    sbind ltac:(eapply (sim_mapM (eqrel str) bindrel);
                [ | apply ext_refl | apply listrel_eq_refl]).
    + intros f' E' k1 k2 K. unfold eqrel in K. subst k2.
      pose proof (framerel_plookup f' k1 _ _ (mono _ _ _ _ E' H0)) as G.
      destruct (plookup k1 (pairs m1)), (plookup k1 (pairs m2)); simpl in G; try contradiction; [|prim].
      sbind ltac:(apply IH; eassumption). apply sim_ret. split; [reflexivity | exact R].
    + apply sim_alloc. constructor; [reflexivity | exact R].
Qed.

(* ---------- String() ---------- *)
Lemma sim_show fuel : forall repr f l1 l2, lrel f l1 l2 ->
  sim f (eqrel (list piece)) (show fuel repr l1) (show fuel repr l2).
Proof.
  induction fuel as [|n IH]; intros repr f l1 l2 L; simpl; [apply sim_crash|].
  sbind prim. destruct R; try prim.
  - destruct repr; [destruct (go_quote x)|]; prim.
  - apply IH; assumption.
  - sbind ltac:(eapply (sim_mapM lrel (eqrel (list piece))); [intros; apply IH; eassumption | apply ext_refl | eassumption]).
    apply listrel_eq in R. subst. prim.
  - rewrite <- H.
    sbind ltac:(eapply (sim_mapM (eqrel str) (eqrel (list piece)));
                [ | apply ext_refl | apply listrel_eq_refl]).
    + intros f' E' k1 k2 K. unfold eqrel in K. subst k2.
      pose proof (framerel_plookup f' k1 _ _ (mono _ _ _ _ E' H0)) as G.
      destruct (plookup k1 (pairs m1)), (plookup k1 (pairs m2)); simpl in G; try contradiction; [|prim].
      sbind ltac:(apply IH; eassumption). unfold eqrel in R. subst. prim.
    + apply listrel_eq in R. subst. prim.
Qed.

Lemma sim_show_str f l1 l2 : lrel f l1 l2 -> sim f (eqrel str) (show_str l1) (show_str l2).
Proof.
  intro L. unfold show_str. sbind prim. unfold eqrel in R; subst.
  sbind ltac:(apply sim_show; eassumption). unfold eqrel in R; subst.
  destruct (pieces_str b0); prim.
Qed.

Lemma sim_join_args f a1 a2 sep : lrels f a1 a2 -> sim f (eqrel (list piece)) (join_args a1 sep) (join_args a2 sep).
Proof.
  intro L. unfold join_args. sbind prim. unfold eqrel in R; subst.
  sbind ltac:(eapply (sim_mapM lrel (eqrel (list piece))); [intros; apply sim_show; eassumption | apply ext_refl | eassumption]).
  apply listrel_eq in R. subst. prim.
Qed.

(* ---------- Equals / same ---------- *)
Section PairwiseGo.
  Variable eq1 : loc -> loc -> M bool.
  Hypothesis eq_sim : forall f a1 a2 b1 b2, lrel f a1 a2 -> lrel f b1 b2 -> sim f (eqrel bool) (eq1 a1 b1) (eq1 a2 b2).

  Definition go_arr := fix go (xs ys : list loc) : M bool :=
          match xs, ys with
          | x :: xt, y :: yt => let* e := eq1 x y in if e then go xt yt else ret false
          | _, _ => ret true
          end.
  Definition go_map (p2 : list (str * loc)) := fix go (ps : list (str * loc)) : M bool :=
          match ps with
          | [] => ret true
          | (k, i) :: t =>
              match plookup k p2 with
              | None => ret false
              | Some j => let* e := eq1 i j in if e then go t else ret false
              end
          end.

  Lemma sim_go_arr : forall xs1 xs2 ys1 ys2 f, lrels f xs1 xs2 -> lrels f ys1 ys2 ->
    sim f (eqrel bool) (go_arr xs1 ys1) (go_arr xs2 ys2).
  Proof.
    induction xs1 as [|x1 t1 IH]; intros xs2 ys1 ys2 f X Y; inversion X; subst; simpl; [prim|].
    inversion Y; subst; [prim|].
    sbind ltac:(apply eq_sim; eassumption). unfold eqrel in R; subst. destruct b; [|prim].
    apply IH; assumption.
  Qed.

  Lemma sim_go_map : forall ps1 ps2 q1 q2 f, framerel f ps1 ps2 -> framerel f q1 q2 ->
    sim f (eqrel bool) (go_map q1 ps1) (go_map q2 ps2).
  Proof.
    induction ps1 as [|[k1 i1] t1 IH]; intros ps2 q1 q2 f X Y; inversion X as [|? [k2 i2] ? t2 [K L] X']; subst; simpl; [prim|].
    simpl in K, L. unfold eqrel in K. subst k2.
    pose proof (framerel_plookup f k1 _ _ Y) as G.
    destruct (plookup k1 q1), (plookup k1 q2); simpl in G; try contradiction; [|prim].
    sbind ltac:(apply eq_sim; eassumption). unfold eqrel in R; subst. destruct b; [|prim].
    apply IH; assumption.
  Qed.
End PairwiseGo.

Lemma sim_equals fuel : forall f a1 a2 b1 b2, lrel f a1 a2 -> lrel f b1 b2 ->
  sim f (eqrel bool) (equals fuel a1 b1) (equals fuel a2 b2).
Proof.
  induction fuel as [|n IH]; intros f a1 a2 b1 b2 A B; simpl; [apply sim_crash|].
  sbind prim. sbind prim.
  destruct R, R0; try prim.
  - destruct (ty_eqb _ _); [apply IH; assumption | prim].
  - rewrite (listrel_length _ _ _ _ H), (listrel_length _ _ _ _ H0).
    destruct (negb _); [prim|]. apply (sim_go_arr (equals n) IH); assumption.
  - rewrite (listrel_length _ _ _ _ H0), (listrel_length _ _ _ _ H2).
    destruct (negb _); [prim|]. apply (sim_go_map (equals n) IH); assumption.
Qed.

Lemma sim_same fuel : forall f a1 a2 b1 b2, lrel f a1 a2 -> lrel f b1 b2 ->
  sim f (eqrel bool) (same fuel a1 b1) (same fuel a2 b2).
Proof.
  induction fuel as [|n IH]; intros f a1 a2 b1 b2 A B; simpl; [apply sim_crash|].
  sbind prim. sbind prim.
  destruct R, R0; try prim; try (apply IH; assumption).
  - rewrite (listrel_length _ _ _ _ H), (listrel_length _ _ _ _ H0).
    destruct (negb _); [prim|]. apply (sim_go_arr (same n) IH); assumption.
  - rewrite (listrel_length _ _ _ _ H0), (listrel_length _ _ _ _ H2).
    destruct (negb _); [prim|]. apply (sim_go_map (same n) IH); assumption.
Qed.

Lemma sim_zero_val f t : sim f lrel (zero_val t) (zero_val t).
Proof. destruct t; simpl; try prim. sbind prim. prim. Qed.

Lemma sim_bin_num f op x y : sim f lrel (bin_num op x y) (bin_num op x y).
Proof. destruct op; simpl; prim. Qed.
Lemma sim_bin_str f op x y : sim f lrel (bin_str op x y) (bin_str op x y).
Proof. destruct op; simpl; prim. Qed.
Lemma sim_bin_bool f op x y : sim f lrel (bin_bool op x y) (bin_bool op x y).
Proof. destruct op; simpl; prim. Qed.

Lemma lrels_concat f (p1 p2 : list (list loc)) : listrel lrels f p1 p2 -> lrels f (List.concat p1) (List.concat p2).
Proof. intro F. induction F; simpl; [constructor|]. apply listrel_app; auto. Qed.

Lemma sim_bin_arr f op xs1 xs2 r1 r2 :
  lrels f xs1 xs2 -> lrel f r1 r2 -> sim f lrel (bin_arr op xs1 r1) (bin_arr op xs2 r2).
Proof.
  intros X L. destruct op; simpl; try prim.
  - sbind prim. destruct R; try prim.
    sbind prim. unfold eqrel in R; subst.
    sbind ltac:(eapply (sim_mapM lrel lrel); [intros; apply sim_copy_or_ref; eassumption | apply ext_refl | eassumption]).
    sbind ltac:(eapply (sim_mapM lrel lrel); [intros; apply sim_copy_or_ref; eassumption | apply ext_refl | eassumption]).
    apply sim_alloc. constructor. apply listrel_app; assumption.
  - sbind prim. unfold eqrel in R; subst. destruct (go_int_exact b); [|prim].
    destruct (Z.ltb z 0); [prim|].
    rewrite (listrel_length _ _ _ _ X). destruct (Z.ltb max_alloc _); [prim|].
    sbind prim. unfold eqrel in R; subst.
    sbind ltac:(eapply (sim_mapM (eqrel unit) lrels);
                [ | apply ext_refl | apply listrel_eq_refl]).
    + intros f' E' u1 u2 _.
      eapply (sim_mapM lrel lrel); [intros; apply sim_deep_copy; eassumption | apply ext_refl |].
      eapply mono; eauto.
    + apply sim_alloc. constructor. apply lrels_concat. assumption.
Qed.

Lemma sim_slice_bounds f lo1 lo2 hi1 hi2 len :
  optrel lrel f lo1 lo2 -> optrel lrel f hi1 hi2 ->
  sim f (eqrel (nat * nat)) (slice_bounds lo1 hi1 len) (slice_bounds lo2 hi2 len).
Proof.
  intros A B. unfold slice_bounds.
  sbind ltac:(instantiate (1 := eqrel nat)).
  - destruct lo1, lo2; simpl in A; try contradiction; [|prim].
    sbind prim. unfold eqrel in R; subst. prim.
  - unfold eqrel in R; subst.
    sbind ltac:(instantiate (1 := eqrel nat)).
    + destruct hi1, hi2; simpl in B; try contradiction; [|prim].
      sbind prim. unfold eqrel in R; subst. prim.
    + unfold eqrel in R; subst. destruct (Nat.ltb _ _); prim.
Qed.

Lemma sim_unwrap_any f l1 l2 : lrel f l1 l2 -> sim f hvrel (unwrap_any l1) (unwrap_any l2).
Proof. intro L. unfold unwrap_any. sbind prim. destruct R; prim. Qed.

Lemma sim_none_val f : sim f (optrel lrel) none_val none_val.
Proof. unfold none_val. sbind prim. apply sim_ret. exact R. Qed.

(* ---------- globalErr ---------- *)
Lemma sim_global_err f e1 e2 is_err msg :
  envrel f e1 e2 -> sim f (eqrel unit) (global_err e1 is_err msg) (global_err e2 is_err msg).
Proof.
  intro E. unfold global_err.
  sbind prim. dopt; [|prim].
  sbind prim. match goal with H : hvrel _ _ _ |- _ => destruct H; try prim end.
  sbind prim. sbind prim. dopt; [|prim].
  sbind prim. match goal with H : hvrel _ _ _ |- _ => destruct H; try prim end.
  destruct (pieces_str msg); prim.
Qed.

(* ---------- ordered maps ---------- *)
Lemma framerel_premove f k p1 p2 : framerel f p1 p2 -> framerel f (premove k p1) (premove k p2).
Proof.
  intro F. induction F as [|[k1 a1] [k2 a2] t1 t2 [K L] F IH]; simpl; [constructor|].
  simpl in K, L. unfold eqrel in K. subst k2. destruct (str_eqb k1 k); auto.
  constructor; auto. split; simpl; auto. reflexivity.
Qed.
Lemma ohas_rel f k m1 m2 : framerel f (pairs m1) (pairs m2) -> ohas k m1 = ohas k m2.
Proof.
  intro F. unfold ohas. pose proof (framerel_plookup f k _ _ F) as G.
  destruct (plookup k (pairs m1)), (plookup k (pairs m2)); simpl in G; try contradiction; auto.
Qed.
Lemma oget_rel f k m1 m2 : framerel f (pairs m1) (pairs m2) -> optrel lrel f (oget k m1) (oget k m2).
Proof. intro F. unfold oget. apply framerel_plookup; auto. Qed.
Lemma odel_rel f k m1 m2 :
  order m1 = order m2 -> framerel f (pairs m1) (pairs m2) -> hvrel f (HMap (odel k m1)) (HMap (odel k m2)).
Proof.
  intros O F. unfold odel. pose proof (framerel_plookup f k _ _ F) as G.
  destruct (plookup k (pairs m1)), (plookup k (pairs m2)); simpl in G; try contradiction.
  - constructor; simpl; [congruence | apply framerel_premove; auto].
  - constructor; auto.
Qed.
Lemma oset_rel f k v1 v2 m1 m2 :
  lrel f v1 v2 -> order m1 = order m2 -> framerel f (pairs m1) (pairs m2) ->
  hvrel f (HMap (oset k v1 m1)) (HMap (oset k v2 m2)).
Proof.
  intros L O F. unfold oset. pose proof (framerel_plookup f k _ _ F) as G.
  assert (P : framerel f (pset k v1 (pairs m1)) (pset k v2 (pairs m2))).
  { unfold pset. constructor; [split; simpl; auto; reflexivity | apply framerel_premove; auto]. }
  destruct (plookup k (pairs m1)), (plookup k (pairs m2)); simpl in G; try contradiction;
    constructor; simpl; auto; congruence.
Qed.

(* ---------- built-ins: ONE lemma, uniform over the [if name_is ...] chain ---------- *)
Ltac sargs :=
  repeat match goal with
         | H : lrels _ ?l1 ?l2 |- sim _ _ (match ?l1 with _ => _ end) _ =>
             unfold lrels, listrel in H; inversion H; subst; clear H
         | H : Forall2 (lrel _) ?l1 ?l2 |- sim _ _ (match ?l1 with _ => _ end) _ =>
             inversion H; subst; clear H
         end.

Ltac sub1 :=
  first [ prim | apply sim_none_val
        | apply sim_join_args; solve [eassumption | constructor; eauto]
        | apply sim_unwrap_any; eassumption
        | apply sim_global_err; eassumption | apply sim_show_str; eassumption ].

Ltac lens :=
  repeat match goal with
         | H : framerel _ (pairs ?m1) (pairs ?m2) |- context [List.length (pairs ?m1)] =>
             rewrite (listrel_length _ _ _ _ H)
         | H : lrels _ ?x1 ?x2 |- context [List.length ?x1] => rewrite (listrel_length _ _ _ _ H)
         | H : framerel _ (pairs ?m1) (pairs ?m2) |- context [ohas ?k ?m1] => rewrite (ohas_rel _ k _ _ H)
         | H : order ?m1 = order ?m2 |- context [order ?m1] => rewrite H
         end.

Ltac sstep :=
  first
    [ sub1
    | match goal with
      | |- sim _ _ (bindM _ _) (bindM _ _) => sbind sub1; deq
      | H : hvrel _ ?v1 ?v2 |- sim _ _ (match ?v1 with _ => _ end) _ => destruct H; lens
      | H : framerel _ (pairs ?m1) (pairs ?m2), O : order ?m1 = order ?m2
        |- sim _ _ (bindM (store _ (HMap (odel _ ?m1))) _) _ =>
          sbind ltac:(apply sim_store; [eassumption | apply odel_rel; assumption])
      | |- sim _ _ (match ?x with _ => _ end) (match ?x with _ => _ end) => destruct x
      | |- sim _ _ (if ?x then _ else _) (if ?x then _ else _) => destruct x
      end ].
Ltac ssolve := sargs; repeat sstep.

Lemma sim_read_body f :
  sim f (optrel lrel)
    (fun s => match st_input s with
              | [] => (let* l := alloc (HStr []) in ret (Some l)) (upd_trace (EvRead :: st_trace s) s)
              | x :: t => (let* l := alloc (HStr x) in ret (Some l)) (upd_input t (upd_trace (EvRead :: st_trace s) s))
              end)
    (fun s => match st_input s with
              | [] => (let* l := alloc (HStr []) in ret (Some l)) (upd_trace (EvRead :: st_trace s) s)
              | x :: t => (let* l := alloc (HStr x) in ret (Some l)) (upd_input t (upd_trace (EvRead :: st_trace s) s))
              end).
Proof.
  intros s1 s2 I. pose proof (iso_input _ _ _ I) as Hi. cbv beta. rewrite <- Hi.
  assert (S : forall v, sim f (optrel lrel) (let* l := alloc (HStr v) in ret (Some l))
                                             (let* l := alloc (HStr v) in ret (Some l))).
  { intro v. sbind prim. apply sim_ret. exact R. }
  destruct (st_input s1) as [|x t].
  - apply S. eapply iso_same_heap; eauto; simpl; try (destruct I; assumption).
    f_equal. destruct I; assumption.
  - apply S. eapply iso_same_heap; eauto; simpl; try (destruct I; assumption).
    f_equal. destruct I; assumption.
Qed.

(* the pure string and math built-ins (Sem.pure_builtin) *)
Lemma sim_alloc_strs f (l : list str) :
  sim f lrels (mapM (fun p => alloc (HStr p)) l) (mapM (fun p => alloc (HStr p)) l).
Proof.
  eapply (sim_mapM (eqrel str) lrel); [ | apply ext_refl | apply listrel_eq_refl].
  intros f' E' k1 k2 K. unfold eqrel in K. subst k2. prim.
Qed.
Lemma sim_load_nums f a1 a2 : lrels f a1 a2 ->
  sim f (eqrel (list float)) (mapM load_num a1) (mapM load_num a2).
Proof.
  intro A. eapply sim_conseq; [|eapply (sim_mapM lrel (eqrel float)); [ | apply ext_refl | exact A]].
  - intros f' x y H. apply listrel_eq in H. exact H.
  - intros f' E' k1 k2 K. apply sim_load_num. exact K.
Qed.

Lemma sim_pure_builtin name f a1 a2 :
  lrels f a1 a2 ->
  match pure_builtin name a1, pure_builtin name a2 with
  | Some m1, Some m2 => sim f (optrel lrel) m1 m2
  | None, None => True
  | _, _ => False
  end.
Proof.
  intros A. unfold pure_builtin.
  repeat match goal with
         | |- match (if ?c then _ else _) with _ => _ end =>
             destruct c; [first [solve [ssolve] | idtac]|]
         end.
  3: exact I.
  - (* split *)
    sargs; try prim. sbind sub1; deq. sbind sub1; deq.
    sbind ltac:(apply sim_alloc_strs). sbind sub1. apply sim_ret. assumption.
  - (* hsl *)
    sbind ltac:(apply sim_load_nums; assumption). deq. ssolve.
Qed.

(* unwrapBasicvalue over the argument cells of sprintf / printf *)
Lemma sim_fargs f r1 r2 : lrels f r1 r2 ->
  sim f (eqrel (list Builtins.farg))
    (mapM (fun a => let* v := unwrap_any a in
                    match v with
                    | HNum x => ret (Builtins.FNum x)
                    | HStr x => ret (Builtins.FStr x)
                    | HBool b => ret (Builtins.FBool b)
                    | _ => let* x := show_str a in ret (Builtins.FStr x)
                    end) r1)
    (mapM (fun a => let* v := unwrap_any a in
                    match v with
                    | HNum x => ret (Builtins.FNum x)
                    | HStr x => ret (Builtins.FStr x)
                    | HBool b => ret (Builtins.FBool b)
                    | _ => let* x := show_str a in ret (Builtins.FStr x)
                    end) r2).
Proof.
  intro A. eapply sim_conseq; [|eapply (sim_mapM lrel (eqrel Builtins.farg)); [ | apply ext_refl | exact A]].
  - intros f' x y H. apply listrel_eq in H. exact H.
  - intros f' E' k1 k2 K. sbind ltac:(apply sim_unwrap_any; exact K).
    match goal with H : hvrel _ _ _ |- _ => destruct H end; try prim;
      (sbind ltac:(apply sim_show_str; eassumption); deq; prim).
Qed.

Ltac sprintf_tac :=
  sargs; try prim; sbind sub1;
  match goal with H : hvrel _ _ _ |- _ => destruct H end; try prim;
  sbind ltac:(apply sim_fargs; assumption); deq; ssolve.

Lemma sim_builtin name f e1 e2 a1 a2 :
  envrel f e1 e2 -> lrels f a1 a2 ->
  match builtin name e1 a1, builtin name e2 a2 with
  | Some m1, Some m2 => sim f (optrel lrel) m1 m2
  | None, None => True
  | _, _ => False
  end.
Proof.
  intros E A. unfold builtin.
  repeat match goal with
         | |- match (if ?c then _ else _) with _ => _ end =>
             destruct c; [first [apply sim_read_body | solve [ssolve] | solve [sprintf_tac]]|]
         end.
  apply sim_pure_builtin; assumption.
Qed.

(* ---------- the test builtin ---------- *)
Lemma iso_upd_tests f s1 s2 t1 fl1 t2 fl2 :
  iso f s1 s2 -> t1 = t2 -> fl1 = fl2 -> iso f (upd_tests t1 fl1 s1) (upd_tests t2 fl2 s2).
Proof. intros I -> ->. destruct I. constructor; simpl; auto. Qed.

Definition rt_validate (args : list loc) : M unit :=
  match args with
  | [] => fail (EPanic PkBadArguments)
  | [a] => let* v := unwrap_any a in match v with HBool _ => ret tt | _ => fail (EPanic PkBadArguments) end
  | _ :: _ :: rest =>
      match rest with
      | m :: _ => let* v := unwrap_any m in match v with HStr _ => ret tt | _ => fail (EPanic PkBadArguments) end
      | [] => ret tt
      end
  end.
Definition rt_verdict (d : nat) (args : list loc) : M bool :=
  match args with
  | [a] => let* v := unwrap_any a in match v with HBool b => ret b | _ => crash "test: not a bool" end
  | w :: g :: _ => same d w g
  | [] => ret true
  end.
Definition rt_bump (failed : bool) (s : state) : state :=
  upd_tests (S (st_total s)) (if failed then S (st_fails s) else st_fails s) s.
Definition rt_body (d : nat) (args : list loc) : M unit :=
  fun s0 =>
    match rt_validate args s0 with
    | (Er e, s1) => (Er e, rt_bump false s1)
    | (Ok _, s1) =>
        match rt_verdict d args s1 with
        | (Er e, s2) => (Er e, rt_bump false s2)
        | (Ok true, s2) => (Ok tt, rt_bump false s2)
        | (Ok false, s2) =>
            let s3 := rt_bump true s2 in
            if st_failfast s3 then (Er ETestFail, s3) else (Ok tt, s3)
        end
    end.
Lemma run_test_eq args : run_test args = (let* d := depth_fuel in rt_body d args).
Proof. reflexivity. Qed.

Lemma iso_bump f s1 s2 b : iso f s1 s2 -> iso f (rt_bump b s1) (rt_bump b s2).
Proof.
  intro I. unfold rt_bump. apply iso_upd_tests; auto.
  - f_equal; destruct I; assumption.
  - destruct b; [f_equal|]; destruct I; assumption.
Qed.

Lemma sim_rt_validate f a1 a2 : lrels f a1 a2 -> sim f (eqrel unit) (rt_validate a1) (rt_validate a2).
Proof.
  intro A. unfold rt_validate. unfold lrels, listrel in A.
  inversion A as [|x1 x2 t1 t2 Hx A1]; subst; [prim|].
  inversion A1 as [|y1 y2 u1 u2 Hy A2]; subst.
  - ssolve.
  - inversion A2 as [|z1 z2 w1 w2 Hz A3]; subst; [prim|]. ssolve.
Qed.
Lemma sim_rt_verdict f d a1 a2 : lrels f a1 a2 -> sim f (eqrel bool) (rt_verdict d a1) (rt_verdict d a2).
Proof.
  intro A. unfold rt_verdict. unfold lrels, listrel in A.
  inversion A as [|x1 x2 t1 t2 Hx A1]; subst; [prim|].
  inversion A1 as [|y1 y2 u1 u2 Hy A2]; subst.
  - ssolve.
  - apply sim_same; assumption.
Qed.

Lemma sim_run_test f a1 a2 : lrels f a1 a2 -> sim f (eqrel unit) (run_test a1) (run_test a2).
Proof.
  intro A. rewrite !run_test_eq. sbind prim. deq.
  intros s1 s2 I. unfold rt_body.
  destruct (sim_rt_validate _ _ _ A s1 s2 I) as (f' & E' & I' & Rr).
  destruct (rt_validate a1 s1) as [[u1|er1] t1], (rt_validate a2 s2) as [[u2|er2] t2];
    simpl in Rr, I'; try contradiction.
  2: { exists f'. split; auto. split; [|exact Rr]. simpl. apply iso_bump; auto. }
  destruct (sim_rt_verdict _ b _ _ (mono _ _ _ _ E' A) t1 t2 I') as (f'' & E'' & I'' & Rr').
  destruct (rt_verdict b a1 t1) as [[[|]|er1] r1], (rt_verdict b a2 t2) as [[[|]|er2] r2];
    simpl in Rr', I''; unfold eqrel in Rr'; try contradiction; try discriminate.
  - exists f''. split; [eapply ext_trans; eauto|]. split; [|reflexivity]. simpl. apply iso_bump; auto.
  - exists f''. split; [eapply ext_trans; eauto|].
    pose proof (iso_bump _ _ _ true I'') as I3. cbv zeta.
    replace (st_failfast (rt_bump true r2)) with (st_failfast (rt_bump true r1))
      by (apply (iso_failfast _ _ _ I3)).
    destruct (st_failfast (rt_bump true r1)); simpl; split; auto; reflexivity.
  - exists f''. split; [eapply ext_trans; eauto|]. split; [|exact Rr']. simpl. apply iso_bump; auto.
Qed.

(* ---------- parameter binding ---------- *)
Lemma sim_bind_params f ps : forall a1 a2 fr1 fr2,
  lrels f a1 a2 -> framerel f fr1 fr2 ->
  sim f (pairrel framerel lrels) (bind_params ps a1 fr1) (bind_params ps a2 fr2).
Proof.
  induction ps as [|[n t] ps IH]; intros a1 a2 fr1 fr2 A F; simpl.
  - apply sim_ret. split; assumption.
  - unfold lrels, listrel in A. inversion A as [|x1 x2 t1 t2 Hx A']; subst; [prim|].
    apply IH; [exact A'|]. destruct (str_eqb n underscore); auto. apply framerel_set; auto.
Qed.

Lemma sim_bind_payload f ps : forall args fr1 fr2,
  framerel f fr1 fr2 -> sim f framerel (bind_payload ps args fr1) (bind_payload ps args fr2).
Proof.
  induction ps as [|[n t] ps IH] in f |- *; intros args fr1 fr2 F; simpl.
  - apply sim_ret. assumption.
  - destruct args as [|a more]; [prim|].
    sbind ltac:(instantiate (1 := lrel); destruct t, a; prim).
    apply IH. destruct (str_eqb n underscore); auto. apply framerel_set; auto.
Qed.
