(* FormatLex.v — C06, the link between the formatter's TEXT and the token view of FormatParse.v:
   the lexer model (Lexer.v, lexer.go) applied to  render ps  returns, token by token, the
   tokens  toks_of_pieces ps.  Executable definitions; the theorem is in FormatLexProofs.v.

   The two generated enumerations of token types (Gen.TokenTypes for the lexer model, Gen.Prec for
   the Pratt / statement parser models) list the same constructors; [tt_conv] is the bijection by
   name.  Literals are compared for identifiers, numbers and comments; a string token carries the
   unquoted text in the lexer model and the quoted text in the token view, so only its type is
   compared. *)
From Coq Require Import List String NArith ZArith Bool Arith.
From EvyV Require Import Base FmtAst Format Pratt Lexer FormatParse.
From EvyV.Gen Require Prec TokenTypes.
Import ListNotations.
Local Open Scope nat_scope.

Definition tt_conv (t : Prec.toktype) : TokenTypes.token_type :=
  match t with
  | Prec.T_ILLEGAL => TokenTypes.T_ILLEGAL
  | Prec.T_EOF => TokenTypes.T_EOF
  | Prec.T_COMMENT => TokenTypes.T_COMMENT
  | Prec.T_IDENT => TokenTypes.T_IDENT
  | Prec.T_NUM_LIT => TokenTypes.T_NUM_LIT
  | Prec.T_STRING_LIT => TokenTypes.T_STRING_LIT
  | Prec.T_DECLARE => TokenTypes.T_DECLARE
  | Prec.T_ASSIGN => TokenTypes.T_ASSIGN
  | Prec.T_PLUS => TokenTypes.T_PLUS
  | Prec.T_MINUS => TokenTypes.T_MINUS
  | Prec.T_BANG => TokenTypes.T_BANG
  | Prec.T_ASTERISK => TokenTypes.T_ASTERISK
  | Prec.T_SLASH => TokenTypes.T_SLASH
  | Prec.T_PERCENT => TokenTypes.T_PERCENT
  | Prec.T_EQ => TokenTypes.T_EQ
  | Prec.T_NOT_EQ => TokenTypes.T_NOT_EQ
  | Prec.T_LT => TokenTypes.T_LT
  | Prec.T_GT => TokenTypes.T_GT
  | Prec.T_LTEQ => TokenTypes.T_LTEQ
  | Prec.T_GTEQ => TokenTypes.T_GTEQ
  | Prec.T_LPAREN => TokenTypes.T_LPAREN
  | Prec.T_RPAREN => TokenTypes.T_RPAREN
  | Prec.T_LBRACKET => TokenTypes.T_LBRACKET
  | Prec.T_RBRACKET => TokenTypes.T_RBRACKET
  | Prec.T_LCURLY => TokenTypes.T_LCURLY
  | Prec.T_RCURLY => TokenTypes.T_RCURLY
  | Prec.T_COLON => TokenTypes.T_COLON
  | Prec.T_WS => TokenTypes.T_WS
  | Prec.T_NL => TokenTypes.T_NL
  | Prec.T_DOT => TokenTypes.T_DOT
  | Prec.T_DOT3 => TokenTypes.T_DOT3
  | Prec.T_NUM => TokenTypes.T_NUM
  | Prec.T_STRING => TokenTypes.T_STRING
  | Prec.T_BOOL => TokenTypes.T_BOOL
  | Prec.T_ANY => TokenTypes.T_ANY
  | Prec.T_TRUE => TokenTypes.T_TRUE
  | Prec.T_FALSE => TokenTypes.T_FALSE
  | Prec.T_AND => TokenTypes.T_AND
  | Prec.T_OR => TokenTypes.T_OR
  | Prec.T_IF => TokenTypes.T_IF
  | Prec.T_ELSE => TokenTypes.T_ELSE
  | Prec.T_FUNC => TokenTypes.T_FUNC
  | Prec.T_RETURN => TokenTypes.T_RETURN
  | Prec.T_ON => TokenTypes.T_ON
  | Prec.T_FOR => TokenTypes.T_FOR
  | Prec.T_RANGE => TokenTypes.T_RANGE
  | Prec.T_WHILE => TokenTypes.T_WHILE
  | Prec.T_BREAK => TokenTypes.T_BREAK
  | Prec.T_END => TokenTypes.T_END
  | Prec.T_PKG => TokenTypes.T_PKG
  | Prec.T_IMPORT => TokenTypes.T_IMPORT
  end.

(* what is compared of a token: its type, and its literal unless it is a string *)
Definition view_lit (ty : TokenTypes.token_type) (lit : str) : str :=
  match ty with TokenTypes.T_STRING_LIT => [] | _ => lit end.
Definition lview (t : Lexer.token) : TokenTypes.token_type * str := (t_type t, view_lit (t_type t) (t_lit t)).
Definition pview (t : Pratt.token) : TokenTypes.token_type * str :=
  (tt_conv (ttype t), view_lit (tt_conv (ttype t)) (tlit t)).

Definition view_eqb (a b : TokenTypes.token_type * str) : bool :=
  TokenTypes.token_type_beq (fst a) (fst b) && str_eqb (snd a) (snd b).

Section Lex.
  Variable ul ud : N -> bool.      (* unicode.IsLetter, unicode.IsDigit *)

  (* a piece, followed by the text z, is read by Lexer.Next as exactly one token: the piece's *)
  Definition piece_ok (p : piece) (z : str) : bool :=
    match render1 p, tok_of_piece p with
    | [], [] => true
    | c :: w, [t] =>
        let '(ty, lit, len) := next_token ul ud false c (w ++ z) in
        Nat.eqb len (S (List.length w)) && negb (TokenTypes.token_type_beq ty TokenTypes.T_EOF)
        && view_eqb (ty, view_lit ty lit) (pview t)
    | _, _ => false
    end.

  Fixpoint pieces_ok (ps : list piece) : bool :=
    match ps with
    | [] => true
    | p :: r => piece_ok p (render r) && pieces_ok r
    end.

  Definition lex_matches (ps : list piece) : bool :=
    let a := map lview (lex ul ud (render ps)) in
    let b := map pview (toks_of_pieces ps) ++ [(TokenTypes.T_EOF, [])] in
    Nat.eqb (List.length a) (List.length b) && forallb (fun xy => view_eqb (fst xy) (snd xy)) (combine a b).
End Lex.

(* driver:  ((cp isLetter isDigit) ...) (prog ...)  ->  (pieces_ok lex_matches ntokens) *)
Definition fmtlex_case (x : sx) : sx :=
  match x with
  | Lst [Lst tbl; pr] =>
    match dec_table tbl, dec_fprog pr with
    | Some tbl, Some p =>
        let ul := fun c => fst (table_get tbl c) in
        let ud := fun c => snd (table_get tbl c) in
        let ps := fmt_prog current_fixes p in
        Lst [sx_bool (pieces_ok ul ud ps); sx_bool (lex_matches ul ud ps); sx_nat (List.length (toks_of_pieces ps))]
    | _, _ => Sym (s_ "bad-case")
    end
  | _ => Sym (s_ "bad-case")
  end.
