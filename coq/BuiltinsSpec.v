(* BuiltinsSpec.v — the signatures of the built-in functions AS DOCUMENTED in
   docs/builtins.md ("Reference" blocks), written by hand from the prose and
   independent of the code.  The regenerated table Gen/BuiltinSigs.v is compared
   with [documented_impl] (the documented signatures in the encoding the
   implementation uses for optional parameters). *)
From Coq Require Import List String Bool.
From EvyV Require Import BuiltinTy.
From EvyV.Gen Require Import BuiltinSigs.
Import ListNotations.
Local Open Scope string_scope.

(* documented signature: required parameters, optional trailing parameters
   ("[ry:num [tilt:num …]]"), a variadic parameter ("a:any..."), result *)
Record dsig := { d_name : string; d_req : list ty; d_opt : list ty; d_var : option ty; d_ret : ty }.

Definition D name req opt var ret := {| d_name := name; d_req := req; d_opt := opt; d_var := var; d_ret := ret |}.

Definition documented : list dsig := [
  (* Input and Output *)
  D "print" [] [] (Some TAny) TNone;                 (* print a:any... *)
  D "read" [] [] None TStr;                          (* read:string *)
  D "cls" [] [] None TNone;                          (* cls *)
  D "printf" [TStr] [] (Some TAny) TNone;            (* printf format:string a:any... *)
  (* Types *)
  D "len" [TAny] [] None TNum;                       (* len:num a:any *)
  D "typeof" [TAny] [] None TStr;                    (* typeof:string a:any *)
  (* Map *)
  D "has" [TGenMap; TStr] [] None TBool;             (* has:bool map:{} key:string *)
  D "del" [TGenMap; TStr] [] None TNone;             (* del map:{} key:string *)
  (* Program control *)
  D "sleep" [TNum] [] None TNone;                    (* sleep seconds:num *)
  D "exit" [TNum] [] None TNone;                     (* exit 1 (example; status code) *)
  D "panic" [TStr] [] None TNone;                    (* panic msg:string *)
  D "test" [] [] (Some TAny) TNone;                  (* test cond:bool | test want:any got:any [msg:string [args:any...]] *)
  (* Conversion *)
  D "str2num" [TStr] [] None TNum;
  D "str2bool" [TStr] [] None TBool;
  (* String *)
  D "sprint" [] [] (Some TAny) TStr;
  D "sprintf" [TStr] [] (Some TAny) TStr;            (* sprintf:string format:string a:any... *)
  D "join" [TArr TAny; TStr] [] None TStr;           (* join:string elems:[]any sep:string *)
  D "split" [TStr; TStr] [] None (TArr TStr);
  D "upper" [TStr] [] None TStr;
  D "lower" [TStr] [] None TStr;
  D "index" [TStr; TStr] [] None TNum;
  D "startswith" [TStr; TStr] [] None TBool;
  D "endswith" [TStr; TStr] [] None TBool;
  D "trim" [TStr; TStr] [] None TStr;
  D "replace" [TStr; TStr; TStr] [] None TStr;
  D "repr" [] [] (Some TAny) TStr;
  (* Random *)
  D "rand" [TNum] [] None TNum;
  D "rand1" [] [] None TNum;
  (* Math *)
  D "min" [TNum; TNum] [] None TNum;
  D "max" [TNum; TNum] [] None TNum;
  D "abs" [TNum] [] None TNum;
  D "floor" [TNum] [] None TNum;
  D "ceil" [TNum] [] None TNum;
  D "round" [TNum] [] None TNum;
  D "pow" [TNum; TNum] [] None TNum;
  D "log" [TNum] [] None TNum;
  D "sqrt" [TNum] [] None TNum;
  D "sin" [TNum] [] None TNum;
  D "cos" [TNum] [] None TNum;
  D "atan2" [TNum; TNum] [] None TNum;
  (* Graphics *)
  D "move" [TNum; TNum] [] None TNone;
  D "line" [TNum; TNum] [] None TNone;
  D "rect" [TNum; TNum] [] None TNone;
  D "circle" [TNum] [] None TNone;
  D "color" [TStr] [] None TNone;
  D "colour" [TStr] [] None TNone;
  D "hsl" [TNum] [TNum; TNum; TNum] None TStr;       (* hsl:string hue:num [saturation:num [lightness:num [alpha:num]]] *)
  D "width" [TNum] [] None TNone;
  D "clear" [] [TStr] None TNone;                    (* clear [c:string] *)
  D "grid" [] [] None TNone;
  D "gridn" [TNum; TStr] [] None TNone;
  D "poly" [] [] (Some (TArr TNum)) TNone;           (* poly xy:[]num... *)
  D "ellipse" [TNum; TNum; TNum] [TNum; TNum; TNum; TNum] None TNone; (* ellipse x y rx [ry [tilt [start end]]] *)
  D "stroke" [TStr] [] None TNone;
  D "fill" [TStr] [] None TNone;
  D "dash" [] [] (Some TNum) TNone;                  (* dash segments:num... *)
  D "linecap" [TStr] [] None TNone;
  D "text" [TStr] [] None TNone;
  D "font" [TMap TAny] [] None TNone                 (* font props:{}any *)
].

(* How the implementation encodes a documented signature in a
   parser.FuncDefStmt: optional parameters have no representation, so a
   function with optional parameters takes ALL its parameters through one
   variadic parameter of their common type and checks the count at run time. *)
Definition impl_encoding (d : dsig) : bsig :=
  match d_opt d with
  | [] => {| b_name := d_name d; b_params := d_req d; b_variadic := d_var d; b_ret := d_ret d |}
  | t :: _ => {| b_name := d_name d; b_params := []; b_variadic := Some t; b_ret := d_ret d |}
  end.

Definition documented_impl : list bsig := map impl_encoding documented.

(* names of [code] whose entry differs from (or is missing in) [docs] *)
Definition sig_diffs (code docs : list bsig) : list string :=
  flat_map (fun s => match find_sig (b_name s) docs with
                     | Some s' => if bsig_eqb s s' then [] else [b_name s]
                     | None => [b_name s]
                     end) code.

(* the documented deviations of the declaration table from the documentation:
   - join: documented elems:[]any, declared as the generic array [] (any array accepted)
   - printf, sprintf: documented format:string a:any..., declared as a:any... only
     (the format parameter is checked at run time: panic "bad arguments") *)
Definition known_sig_deviations : list string := ["join"; "printf"; "sprintf"].
