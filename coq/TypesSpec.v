(* TypesSpec.v — DECLARATIVE specification of evy's static typing rules,
   written from the prose of docs/spec.md only (sections "Types", "Variables
   and Declarations", "Zero Values", "Arrays", "Maps", "Index and Slice",
   "Operators and Expressions", "Variadic Functions", "Typeof", "Type
   Assertion", "Assignability").  Nothing here refers to the parser's code or
   to Types.v; each rule quotes the sentence it renders.

   Readings that the prose leaves open are marked (READING). *)
From Coq Require Import List Bool.
From EvyV Require Import TypesSyntax.
Import ListNotations.

(* "In the assignment target = val, val can be a variable, a constant, or an
   expression. A constant is either a literal of type num, string, or bool,
   or it is a composite literal that does not contain any variables. […] If
   val is an expression that only contains constants, it is treated like a
   constant; otherwise, it is treated like a variable." *)
Inductive kind : Set := KVar | KConst.

(* ---------- Assignability ---------- *)
(* "A constant of type t2 can be converted to type t if both types are
   composite types of the same structure and the final subtype of t is any."
   (READING) "same structure" = the same array/map constructors down to the
   position where t says any; below that position the constant may have any
   shape, because an element position of type any holds any value.
   "Empty composite literals [] and {} can be assigned to variables or
   parameters of any subtype, such as []string or {}num […] untyped, meaning
   that they can be matched to any subtype"; "nested empty composite literals
   of them, such as [[]]" likewise.
   [Converts a b]: a constant of type a can be given type b. *)
Inductive Converts : sty -> sty -> Prop :=
| Cv_refl t : Converts t t
| Cv_any a : Converts a SAny
| Cv_arr a b : Converts a b -> Converts (SArr a) (SArr b)
| Cv_map a b : Converts a b -> Converts (SMap a) (SMap b)
| Cv_empty_arr t : Converts SEmptyArr (SArr t)
| Cv_empty_map t : Converts SEmptyMap (SMap t).

(* "If target is of type t and val is a variable of type t2, target accepts
   val if: t and t2 are identical, or t is of type any."
   "If target is of type t and val is a constant of type t2, target accepts
   val if: t and t2 are identical, or t is of type any, or t is a composite
   with basic subtype any and t2 can be converted to it." *)
Inductive Assignable : kind -> sty (* target *) -> sty (* value *) -> Prop :=
| As_ident k t : Assignable k t t
| As_any k t2 : Assignable k SAny t2
| As_conv t t2 : Converts t2 t -> Assignable KConst t t2.

(* ---------- Inference ---------- *)
(* "arr := [] infers an array of type any, []any. map := {} infers a map of
   type any, {}any."; "[] gets converted to type []any, {} gets converted to
   type {}any and [[]] to type [][]any". *)
Inductive Defaults : sty -> sty -> Prop :=
| Df_num : Defaults SNum SNum | Df_string : Defaults SString SString
| Df_bool : Defaults SBool SBool | Df_any : Defaults SAny SAny
| Df_arr a b : Defaults a b -> Defaults (SArr a) (SArr b)
| Df_map a b : Defaults a b -> Defaults (SMap a) (SMap b)
| Df_empty_arr : Defaults SEmptyArr (SArr SAny)
| Df_empty_map : Defaults SEmptyMap (SMap SAny).

(* "The strictest possible type is inferred for composite types": the
   element type of a composite literal is the least type every element can be
   assigned to.  Elements are (kind, type) pairs. *)
Definition Strictest (els : list (kind * sty)) (t : sty) : Prop :=
  (forall e, In e els -> Assignable (fst e) t (snd e)) /\
  (forall t', (forall e, In e els -> Assignable (fst e) t' (snd e)) -> Converts t t').

(* ---------- Operators ---------- *)
(* "Binary expressions can only be evaluated if the operands are of the same
   type."  The untyped empty literal takes the type required by the other
   operand ("arr2 := [1] + [] // []num").  [Unify a b r]: a and b are the same
   type up to untyped empties, r is that type. *)
Inductive Unify : sty -> sty -> sty -> Prop :=
| U_same t : Unify t t t
| U_earr_l t : Unify SEmptyArr (SArr t) (SArr t)
| U_earr_r t : Unify (SArr t) SEmptyArr (SArr t)
| U_emap_l t : Unify SEmptyMap (SMap t) (SMap t)
| U_emap_r t : Unify (SMap t) SEmptyMap (SMap t)
| U_arr a b r : Unify a b r -> Unify (SArr a) (SArr b) (SArr r)
| U_map a b r : Unify a b r -> Unify (SMap a) (SMap b) (SMap r).

Definition is_array (t : sty) : Prop := t = SEmptyArr \/ exists s, t = SArr s.

Definition arith (op : binop) : bool :=
  match op with OpPlus | OpMinus | OpAsterisk | OpSlash | OpPercent => true | _ => false end.
Definition logical (op : binop) : bool := match op with OpAnd | OpOr => true | _ => false end.
Definition ordering (op : binop) : bool := match op with OpLt | OpGt | OpLtEq | OpGtEq => true | _ => false end.
Definition equality (op : binop) : bool := match op with OpEq | OpNotEq => true | _ => false end.

(* the operator table of "Operators and Expressions":
   | + - * / %   | num           | num    |
   | +           | string        | string |
   | +           | array         | array  |
   | *           | array * num   | array  |
   | and or      | bool          | bool   |
   | < <= > >=   | num           | bool   |
   | < <= > >=   | string        | bool   |
   | == !=       | all types     | bool   |  *)
Inductive OpType : binop -> sty -> sty -> sty -> Prop :=
| Op_arith op : arith op = true -> OpType op SNum SNum SNum
| Op_concat_string : OpType OpPlus SString SString SString
| Op_concat_array a b r : is_array a -> Unify a b r -> OpType OpPlus a b r
| Op_repeat a : is_array a -> OpType OpAsterisk a SNum a
| Op_logical op : logical op = true -> OpType op SBool SBool SBool
| Op_order_num op : ordering op = true -> OpType op SNum SNum SBool
| Op_order_string op : ordering op = true -> OpType op SString SString SBool
| Op_equality op a b r : equality op = true -> Unify a b r -> OpType op a b SBool.

(* "The unary operator - negates the value of a numeric operand. […] The unary
   operator ! performs logical negation on a boolean operand." *)
Inductive UnOpType : unop -> sty -> sty -> Prop :=
| Un_minus : UnOpType UMinus SNum SNum
| Un_bang : UnOpType UBang SBool SBool.

(* "An array or string index in Evy is a number"; map values "can also be
   accessed with an index expression" (string key); a slice "is a way to
   access portions of an array or a string"; "Map values can be accessed with
   the dot expression". *)
Inductive IndexType : sty -> sty -> sty -> Prop :=
| Ix_array s : IndexType (SArr s) SNum s
| Ix_string : IndexType SString SNum SString
| Ix_map s : IndexType (SMap s) SString s.

Inductive SliceType : sty -> sty -> Prop :=
| Sl_array s : SliceType (SArr s) (SArr s)
| Sl_empty : SliceType SEmptyArr SEmptyArr        (* the empty array literal is an array *)
| Sl_string : SliceType SString SString.

Inductive DotType : sty -> sty -> Prop :=
| Dt_map s : DotType (SMap s) s.

(* "The left-hand side of the = must contain an assignment target, a
   variable, an indexed array, or a map field."  Characters of a string can
   only be READ by index ("Individual characters of a string can be read by
   index"); a slice, a type assertion or a function is not a target.
   A step is described by what is written after the target so far; the index
   expression by its type. *)
Inductive sstep : Set := SKIdx (it : sty) | SKDot | SKSlice | SKAssert.

Inductive TargetStep : sty -> sstep -> sty -> Prop :=
| Ts_array s : TargetStep (SArr s) (SKIdx SNum) s             (* an indexed array *)
| Ts_map_index s : TargetStep (SMap s) (SKIdx SString) s      (* a map field, index form *)
| Ts_map_dot s : TargetStep (SMap s) SKDot s.                 (* a map field, dot form *)

(* [TargetChain root steps t]: the variable of type root followed by steps is a target of type t *)
Inductive TargetChain : sty -> list sstep -> sty -> Prop :=
| Tc_var t : TargetChain t [] t
| Tc_step t k t' rest r : TargetStep t k t' -> TargetChain t' rest r -> TargetChain t (k :: rest) r.

(* "Only values of type any can be type asserted"; "TYPE can be any basic or
   composite type". *)
Definition AssertOk (operand asserted : sty) : Prop := operand = SAny /\ asserted <> SAny /\ closed asserted = true.

(* ================= executable renderings =================
   Used by the harness to predict, from the specification alone, what a
   program's verdict and typeof output must be.  TypesSpecProofs.v proves
   each function equivalent to the relation above it. *)

Fixpoint conv_b (from to : sty) {struct to} : bool :=
  match to, from with
  | SAny, _ => true
  | SArr b, SArr a => conv_b a b
  | SMap b, SMap a => conv_b a b
  | SArr _, SEmptyArr => true
  | SMap _, SEmptyMap => true
  | _, _ => sty_eqb from to
  end.

Definition assignable_b (k : kind) (t t2 : sty) : bool :=
  match k with
  | KVar => sty_eqb t t2 || sty_eqb t SAny
  | KConst => conv_b t2 t
  end.

Fixpoint defaults (t : sty) : sty :=
  match t with
  | SEmptyArr => SArr SAny
  | SEmptyMap => SMap SAny
  | SArr s => SArr (defaults s)
  | SMap s => SMap (defaults s)
  | _ => t
  end.

(* least common type of two constants *)
Fixpoint cjoin (a b : sty) : sty :=
  if sty_eqb a b then a else
  match a, b with
  | SEmptyArr, SArr _ => b
  | SArr _, SEmptyArr => a
  | SEmptyMap, SMap _ => b
  | SMap _, SEmptyMap => a
  | SArr x, SArr y => SArr (cjoin x y)
  | SMap x, SMap y => SMap (cjoin x y)
  | _, _ => SAny
  end.

(* least common type of two elements of a composite literal *)
Definition sjoin (e1 e2 : kind * sty) : kind * sty :=
  match e1, e2 with
  | (KConst, a), (KConst, b) => (KConst, cjoin a b)
  | (KVar, a), (KConst, b) => if conv_b b a then (KVar, a) else (KVar, SAny)
  | (KConst, a), (KVar, b) => if conv_b a b then (KVar, b) else (KVar, SAny)
  | (KVar, a), (KVar, b) => if sty_eqb a b then (KVar, a) else (KVar, SAny)
  end.

Definition strictest (els : list (kind * sty)) : option (kind * sty) :=
  match els with
  | [] => None
  | e :: rest => Some (fold_left sjoin rest e)
  end.

Fixpoint unify (a b : sty) : option sty :=
  if sty_eqb a b then Some a else
  match a, b with
  | SEmptyArr, SArr _ => Some b
  | SArr _, SEmptyArr => Some a
  | SEmptyMap, SMap _ => Some b
  | SMap _, SEmptyMap => Some a
  | SArr x, SArr y => option_map SArr (unify x y)
  | SMap x, SMap y => option_map SMap (unify x y)
  | _, _ => None
  end.

Definition is_array_b (t : sty) : bool := match t with SEmptyArr | SArr _ => true | _ => false end.
Definition is_map_b (t : sty) : bool := match t with SEmptyMap | SMap _ => true | _ => false end.

Definition op_type (op : binop) (a b : sty) : option sty :=
  if equality op then (match unify a b with Some _ => Some SBool | None => None end)
  else match a, b with
       | SNum, SNum => if arith op then Some SNum else if ordering op then Some SBool else None
       | SString, SString =>
           match op with OpPlus => Some SString | _ => if ordering op then Some SBool else None end
       | SBool, SBool => if logical op then Some SBool else None
       | _, _ =>
           if is_array_b a then
             match op with
             | OpPlus => unify a b
             | OpAsterisk => match b with SNum => Some a | _ => None end
             | _ => None
             end
           else None
       end.

Definition unop_type (op : unop) (a : sty) : option sty :=
  match op, a with UMinus, SNum => Some SNum | UBang, SBool => Some SBool | _, _ => None end.

Definition index_type_s (l i : sty) : option sty :=
  match l, i with
  | SArr s, SNum => Some s
  | SString, SNum => Some SString
  | SMap s, SString => Some s
  | _, _ => None
  end.

Definition slice_type_s (l : sty) : option sty :=
  match l with SArr _ | SEmptyArr | SString => Some l | _ => None end.

Definition dot_type_s (l : sty) : option sty := match l with SMap s => Some s | _ => None end.

Definition target_step_s (t : sty) (k : sstep) : option sty :=
  match t, k with
  | SArr s, SKIdx SNum => Some s
  | SMap s, SKIdx SString => Some s
  | SMap s, SKDot => Some s
  | _, _ => None
  end.

Fixpoint target_chain_s (t : sty) (ks : list sstep) : option sty :=
  match ks with
  | [] => Some t
  | k :: rest => match target_step_s t k with Some t' => target_chain_s t' rest | None => None end
  end.

(* "The loop for el := range arr iterates over all elements of the array";
   "for key := range map iterates over all map keys"; "for ch := range str
   iterates over all characters of the string"; ranging over a num counts.
   The loop variable is a variable of that type (untyped empties defaulted). *)
Definition range_elem_s (t : sty) : option sty :=
  match t with
  | SNum => Some SNum
  | SString => Some SString
  | SMap _ | SEmptyMap => Some SString
  | SArr s => Some (defaults s)
  | SEmptyArr => Some SAny
  | _ => None
  end.

(* the grammar  range_args = expr [ expr [ expr ] ]  and the numeric form
   "for x := range 1 10 2 // from to step": one operand (a num to count to, or
   a string / array / map to iterate), or two or three operands that are all num *)
Inductive RangeOperands : list sty -> Prop :=
| Ro_one t s : range_elem_s t = Some s -> RangeOperands [t]
| Ro_two : RangeOperands [SNum; SNum]
| Ro_three : RangeOperands [SNum; SNum; SNum].

Definition range_operands_s (ts : list sty) : bool :=
  match ts with
  | [t] => match range_elem_s t with Some _ => true | None => false end
  | [SNum; SNum] | [SNum; SNum; SNum] => true
  | _ => false
  end.

Definition kjoin (a b : kind) : kind := match a, b with KConst, KConst => KConst | _, _ => KVar end.

Fixpoint all_some {A} (l : list (option A)) : option (list A) :=
  match l with
  | [] => Some []
  | Some x :: r => match all_some r with Some r' => Some (x :: r') | None => None end
  | None :: _ => None
  end.

(* kind and type of an expression; None = the specification gives it no type *)
Fixpoint spec_tc (e : expr) : option (kind * sty) :=
  match e with
  | ELitNum => Some (KConst, SNum)
  | ELitStr => Some (KConst, SString)
  | ELitBool => Some (KConst, SBool)
  | EVar t => Some (KVar, t)
  | ECall t => Some (KVar, t)            (* not a constant: "otherwise, it is treated like a variable" *)
  | EArr els =>
      match all_some (map spec_tc els) with
      | None => None
      | Some [] => Some (KConst, SEmptyArr)
      | Some (x :: r) =>
          let k := fold_left kjoin (map fst (x :: r)) KConst in
          Some (k, SArr (snd (fold_left sjoin r x)))
      end
  | EMap els =>
      match all_some (map spec_tc els) with
      | None => None
      | Some [] => Some (KConst, SEmptyMap)
      | Some (x :: r) =>
          let k := fold_left kjoin (map fst (x :: r)) KConst in
          Some (k, SMap (snd (fold_left sjoin r x)))
      end
  | EBin op l r =>
      match spec_tc l, spec_tc r with
      | Some (k1, a), Some (k2, b) =>
          match op_type op a b with Some t => Some (kjoin k1 k2, t) | None => None end
      | _, _ => None
      end
  | EUn op a =>
      match spec_tc a with
      | Some (k, t) => match unop_type op t with Some t' => Some (k, t') | None => None end
      | None => None
      end
  | EGroup a => spec_tc a
  | EIndex l i =>
      match spec_tc l, spec_tc i with
      | Some (k1, a), Some (k2, b) =>
          match index_type_s a b with Some t => Some (kjoin k1 k2, t) | None => None end
      | _, _ => None
      end
  | ESlice l s e' =>
      match spec_tc l with
      | Some (k, a) =>
          let bound := fun (o : option expr) =>
            match o with
            | None => Some KConst
            | Some x => match spec_tc x with Some (k', SNum) => Some k' | _ => None end
            end in
          match bound s, bound e', slice_type_s a with
          | Some k1, Some k2, Some t => Some (kjoin k (kjoin k1 k2), t)
          | _, _, _ => None
          end
      | None => None
      end
  | EDot l =>
      match spec_tc l with
      | Some (k, a) => match dot_type_s a with Some t => Some (k, t) | None => None end
      | None => None
      end
  | EAssert a t =>
      match spec_tc a with
      | Some (k, SAny) => if negb (sty_eqb t SAny) && closed t then Some (k, t) else None
      | _ => None
      end
  | ELoopVar rng =>
      match spec_tc rng with
      | Some (_, t) => match range_elem_s t with Some s => Some (KVar, s) | None => None end
      | None => None
      end
  end.

(* verdict of a statement context; [static]: type the context ends with,
   [shown]: what typeof reports for the stored value when the target is any *)
Inductive sresult : Set := SAccept (static shown : sty) | SReject.

Definition spec_assign (target : sty) (v : option (kind * sty)) : sresult :=
  match v with
  | Some (k, t) => if assignable_b k target t then SAccept target (match target with SAny => defaults t | _ => target end)
                   else SReject
  | None => SReject
  end.

(* contexts: "Assignability rules apply to: assignments, function parameters,
   return values"; "The type of the variadic parameter is an array with the
   element type of the parameter" (each argument is checked against the
   element type); conditions are bool; "for el := range arr iterates over all
   elements of the array", "for key := range map iterates over all map keys",
   range over a string yields its characters, over a num counts. *)
(* the steps of a written target: the index expression must have a type *)
Fixpoint spec_steps (steps : list tstep) : option (list sstep) :=
  match steps with
  | [] => Some []
  | st :: rest =>
      let k := match st with
               | TIdx i => match spec_tc i with Some (_, it) => Some (SKIdx it) | None => None end
               | TDot => Some SKDot
               | TSlice _ => Some SKSlice
               | TAssert _ => Some SKAssert
               end in
      match k, spec_steps rest with
      | Some k, Some r => Some (k :: r)
      | _, _ => None
      end
  end.

Definition spec_check (c : ctx) (e : expr) : sresult :=
  let v := spec_tc e in
  match c with
  | CDecl => match v with Some (_, t) => SAccept (defaults t) (defaults t) | None => SReject end
  | CAssign t | CParam t | CVariadic t | CReturn t => spec_assign t v
  | CGenericArr => match v with Some (_, t) => if is_array_b t then SAccept t t else SReject | None => SReject end
  | CGenericMap => match v with Some (_, t) => if is_map_b t then SAccept t t else SReject | None => SReject end
  | CAssignTo root steps =>
      match spec_steps steps with
      | Some ks => match target_chain_s root ks with
                   | Some t => spec_assign t v
                   | None => SReject
                   end
      | None => SReject
      end
  | CAssignCall _ => SReject
  | CRangeMore rest =>
      match all_some (map spec_tc (e :: rest)) with
      | Some vs =>
          if range_operands_s (map snd vs) then
            match vs with
            | [(_, t)] => match range_elem_s t with Some s => SAccept s s | None => SReject end
            | _ => SAccept SNum SNum
            end
          else SReject
      | None => SReject
      end
  | CCond => match v with Some (_, SBool) => SAccept SBool SBool | _ => SReject end
  | CRange =>
      match v with
      | Some (_, t) => match range_elem_s t with Some s => SAccept s s | None => SReject end
      | None => SReject
      end
  end.
