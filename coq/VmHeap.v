(* VmHeap.v — the VM of pkg/bytecode/vm.go WITH the store for composites.

   Vm.v has value semantics for arrays and maps (OpSetIndex only checks there).
   On the real VM an arrayVal is a struct holding a slice and a mapVal a struct
   holding a slice `order` and a Go map `m`; both are copied BY VALUE (push,
   globals[i] = …, stack[i] = …, Elements[i] = …), so every copy shares the
   backing array of Elements / the Go map.  This file models exactly that:

   - a value is a scalar, or [HArr l]: a reference to the heap cell holding
     the elements (vm.go never appends to Elements after the array was made —
     OpArrayConcatenate, Slice and OpArrayRepeat build fresh arrays —, so the
     length lives in the cell), or [HMap order l]: the `order` slice COPIED
     with the value plus a reference to the cell holding the Go map `m`.
     `order` is made with len = cap (OpMap: make(_, mapLen); deepCopy:
     make(_, len)), so OpSetIndex's `left.order = append(left.order, key)`
     always reallocates and changes only the local variable `left`: no stored
     mapVal ever sees a key inserted after creation in its `order`, while
     `left.m[key] = val` is seen by every copy.  (That is the recorded
     divergence vm-map-insert-lost; the model mirrors the real VM.)
   - the heap is append-only for cells (no GC is observable); OpSetIndex
     updates a cell in place.
   - recursion through the heap (Equals, deepCopy, the final dump) is by fuel
     = number of cells + 1: a longer path repeats a cell, i.e. the structure is
     cyclic (raw bytecode can build one: a[0] = a) and Go recurses until the
     host dies: [Crashed CHost].
   - everything else (numbers, strings, errors, crash classes, the split of
     the Go stack into locals and operand part) is as in Vm.v, whose value
     operations on scalars are reused.
   No proofs here (VmHeapProofs.v). *)
From Coq Require Import ZArith NArith PArith List Bool String Floats FMapPositive.
From EvyV Require Import Base Bytecode Vm.
Require Import EvyV.Gen.Opcodes.
Import ListNotations.
Open Scope N_scope.

Definition loc := positive.

Inductive hval :=
| HNum (f : float) | HBool (b : bool) | HStr (s : list N)
| HArr (l : loc)
| HMap (order : list (list N)) (l : loc)
| HNone | HNil.

Inductive cell := CArr (els : list hval) | CMap (m : list (list N * hval)).

Record heap := { hnext : positive; hcells : PositiveMap.t cell }.

Definition heap_empty : heap := {| hnext := 1; hcells := PositiveMap.empty cell |}.

Definition halloc (c : cell) (h : heap) : loc * heap :=
  (hnext h, {| hnext := Pos.succ (hnext h); hcells := PositiveMap.add (hnext h) c (hcells h) |}).

Definition hset (l : loc) (c : cell) (h : heap) : heap :=
  {| hnext := hnext h; hcells := PositiveMap.add l c (hcells h) |}.

(* a reference of the wrong kind / to no cell reads as empty; HeapOK in
   VmHeapProofs.v: neither happens in a reachable state *)
Definition arr_at (h : heap) (l : loc) : list hval :=
  match PositiveMap.find l (hcells h) with Some (CArr els) => els | _ => [] end.
Definition map_at (h : heap) (l : loc) : list (list N * hval) :=
  match PositiveMap.find l (hcells h) with Some (CMap m) => m | _ => [] end.

(* bound on the length of a path without a repeated cell *)
Definition depth_fuel (h : heap) : nat := Pos.to_nat (hnext h).

(* the Go map m *)
Fixpoint hlookup (k : list N) (m : list (list N * hval)) : option hval :=
  match m with
  | [] => None
  | (k', v) :: r => if str_eqb k' k then Some v else hlookup k r
  end.
Fixpoint hmap_set (k : list N) (v : hval) (m : list (list N * hval)) : list (list N * hval) :=
  match m with
  | [] => [(k, v)]
  | (k', v') :: r => if str_eqb k' k then (k', v) :: r else (k', v') :: hmap_set k v r
  end.

(* ---------- value.Equals ---------- *)
Inductive eqres := QB (b : bool) | QType | QDeep.

Fixpoint heq (fuel : nat) (h : heap) (a b : hval) {struct fuel} : eqres :=
  match fuel with
  | O => QDeep
  | S f =>
      match a, b with
      | HNum x, HNum y => QB (PrimFloat.eqb x y)
      | HBool x, HBool y => QB (Bool.eqb x y)
      | HStr x, HStr y => QB (str_eqb x y)
      | HArr la, HArr lb =>
          let ea := arr_at h la in
          let eb := arr_at h lb in
          if negb (Nat.eqb (List.length ea) (List.length eb)) then QB false
          else (fix go (l1 l2 : list hval) : eqres :=
                  match l1, l2 with
                  | x :: t1, y :: t2 =>
                      match heq f h x y with
                      | QB true => go t1 t2
                      | r => r
                      end
                  | _, _ => QB true
                  end) ea eb
      | HMap _ la, HMap _ lb =>
          let ma := map_at h la in
          let mb := map_at h lb in
          if negb (Nat.eqb (List.length ma) (List.length mb)) then QB false
          else (fix go (m1 : list (list N * hval)) : eqres :=
                  match m1 with
                  | [] => QB true
                  | (k, v) :: t =>
                      match hlookup k mb with
                      | None => QB false
                      | Some HNil => QB false
                      | Some v2 => match heq f h v v2 with
                                   | QB true => go t
                                   | r => r
                                   end
                      end
                  end) ma
      | HNone, _ => QB false
      | _, _ => QType
      end
  end.

Definition heq_top (h : heap) (a b : hval) : eqres :=
  match a with
  | HArr _ | HMap _ _ => heq (S (depth_fuel h)) h a b
  | _ => heq 1 h a b
  end.

(* ---------- deepCopy ---------- *)
(* the two traversals of deepCopy, over the copy function of the level below *)
Fixpoint copy_els (cp : hval -> heap -> option (hval * heap)) (els : list hval) (h : heap)
  : option (list hval * heap) :=
  match els with
  | [] => Some ([], h)
  | x :: t =>
      match cp x h with
      | None => None
      | Some (x', h1) =>
          match copy_els cp t h1 with
          | None => None
          | Some (t', h2) => Some (x' :: t', h2)
          end
      end
  end.
Fixpoint copy_pairs (cp : hval -> heap -> option (hval * heap)) (m : list (list N * hval)) (h : heap)
  : option (list (list N * hval) * heap) :=
  match m with
  | [] => Some ([], h)
  | (k, x) :: t =>
      match cp x h with
      | None => None
      | Some (x', h1) =>
          match copy_pairs cp t h1 with
          | None => None
          | Some (t', h2) => Some ((k, x') :: t', h2)
          end
      end
  end.

Fixpoint hcopy (fuel : nat) (v : hval) (h : heap) {struct fuel} : option (hval * heap) :=
  match fuel with
  | O => None
  | S f =>
      match v with
      | HArr l =>
          match copy_els (hcopy f) (arr_at h l) h with
          | None => None
          | Some (els', h') => let (l', h'') := halloc (CArr els') h' in Some (HArr l', h'')
          end
      | HMap order l =>
          match copy_pairs (hcopy f) (map_at h l) h with
          | None => None
          | Some (m', h') => let (l', h'') := halloc (CMap m') h' in Some (HMap order l', h'')
          end
      | _ => Some (v, h)
      end
  end.

Definition hcopy_list (fuel : nat) (els : list hval) (h : heap) : option (list hval * heap) :=
  copy_els (hcopy fuel) els h.

(* `for range repetitions { for _, e := range left.Elements { append(deepCopy(e)) } }` *)
Fixpoint hrepeat (fuel : nat) (n : nat) (els : list hval) (h : heap) : option (list hval * heap) :=
  match n with
  | O => Some ([], h)
  | S n' =>
      match hcopy_list fuel els h with
      | None => None
      | Some (c, h1) =>
          match hrepeat fuel n' els h1 with
          | None => None
          | Some (r, h2) => Some ((c ++ r)%list, h2)
          end
      end
  end.

Inductive hres := ROk (v : hval) (h : heap) | RErr (e : perr) | RCrash (c : crash).

(* OpArrayRepeat (guarded: vm.go since 208ef1c) *)
Definition harr_repeat (r : float) (l : loc) (h : heap) : hres :=
  let els := arr_at h l in
  match go_int_exact r with
  | None => RErr EBadRepetition
  | Some n =>
      if (n <? 0)%Z then RErr EBadRepetition
      else if repeat_too_large (List.length els) n then RErr EBadRepetition
      else match els with
           | [] => let (l', h') := halloc (CArr []) h in ROk (HArr l') h'
           | _ :: _ =>
               match hrepeat (depth_fuel h) (Z.to_nat n) els h with
               | None => RCrash CHost
               | Some (res, h1) => let (l', h') := halloc (CArr res) h1 in ROk (HArr l') h'
               end
           end
  end.

(* ---------- Index / Slice ---------- *)
Definition hindex (h : heap) (lhs idx : hval) : hres :=
  match lhs with
  | HStr s =>
      match idx with
      | HNum f => let runes := utf8_decode s in
                  match normalize_index f (List.length runes) false with
                  | IOk i => ROk (HStr (utf8_encode (firstn 1 (skipn i runes)))) h
                  | IErr e => RErr e
                  end
      | _ => RCrash CType
      end
  | HArr l =>
      match idx with
      | HNum f => let els := arr_at h l in
                  match normalize_index f (List.length els) false with
                  | IOk i => match nth_error els i with Some v => ROk v h | None => RCrash CType end
                  | IErr e => RErr e
                  end
      | _ => RCrash CType
      end
  | HMap _ l =>
      match idx with
      | HStr k => match hlookup k (map_at h l) with Some v => ROk v h | None => RErr EMapKey end
      | _ => RCrash CType
      end
  | _ => RCrash CType
  end.

Definition hslice_bounds (start stop : hval) (len : nat) : option (idx_res * idx_res) :=
  let one (v : hval) (dflt : nat) : option idx_res :=
    match v with
    | HNone => Some (IOk dflt)
    | HNum f => Some (normalize_index f len true)
    | _ => None
    end in
  match one start 0%nat with
  | None => None
  | Some (IErr e) => Some (IErr e, IErr e)
  | Some (IOk a) => match one stop len with
                    | None => None
                    | Some r => Some (IOk a, r)
                    end
  end.

Definition hslice (h : heap) (lhs start stop : hval) : hres :=
  let go (len : nat) (mk : nat -> nat -> hres) : hres :=
    match hslice_bounds start stop len with
    | None => RCrash CType
    | Some (IErr e, _) => RErr e
    | Some (IOk _, IErr e) => RErr e
    | Some (IOk a, IOk b) => if (b <? a)%nat then RErr ESlice else mk a b
    end in
  match lhs with
  | HStr s => let runes := utf8_decode s in
              go (List.length runes) (fun a b => ROk (HStr (utf8_encode (firstn (b - a) (skipn a runes)))) h)
  | HArr l => let els := arr_at h l in
              go (List.length els)
                 (fun a b => let (l', h') := halloc (CArr (firstn (b - a) (skipn a els))) h in ROk (HArr l') h')
  | _ => RCrash CType
  end.

(* OpMap: pairs (k1 v1 … kn vn) in source order from the popped values (top first) *)
Fixpoint hmap_pairs (args : list hval) (acc : list (list N * hval)) : option (list (list N * hval)) :=
  match args with
  | [] => Some acc
  | v :: HStr k :: t => hmap_pairs t ((k, v) :: acc)
  | _ => None
  end.
(* the Go map after `for i := mapLen-1 … 0 { m.m[key] = val }`: the pair written
   last — the FIRST in source order — wins *)
Fixpoint hmap_build (pairs : list (list N * hval)) (acc : list (list N * hval)) : list (list N * hval) :=
  match pairs with
  | [] => acc
  | (k, v) :: t => hmap_build t (match hlookup k acc with Some _ => acc | None => (acc ++ [(k, v)])%list end)
  end.

Definition hnum2 (h : heap) (args : list hval) (f : float -> float -> pres) : hres :=
  match args with
  | [HNum r; HNum l] => match f l r with
                        | POk (VNum x) => ROk (HNum x) h
                        | POk (VBool b) => ROk (HBool b) h
                        | POk _ => RCrash CType
                        | PErr e => RErr e
                        | PCrash c => RCrash c
                        end
  | _ => RCrash CType
  end.
Definition hstr2 (h : heap) (args : list hval) (f : list N -> list N -> hval) : hres :=
  match args with
  | [HStr r; HStr l] => ROk (f l r) h
  | _ => RCrash CType
  end.

(* the instructions that pop p values and push exactly one *)
Definition hpure_sem (o : opc) (arg : N) (consts locals globals : list hval) (h : heap) (args : list hval) : hres :=
  match o with
  | Constant => match nth_error consts (N.to_nat arg) with Some v => ROk v h | None => RCrash COperand end
  | GetGlobal => match nth_error globals (N.to_nat arg) with Some v => ROk v h | None => RCrash COperand end
  | GetLocal => match nth_error locals (N.to_nat arg) with Some v => ROk v h | None => RCrash COperand end
  | OTrue => ROk (HBool true) h
  | OFalse => ROk (HBool false) h
  | ONone => ROk HNone h
  | Add => hnum2 h args (fun l r => POk (VNum (l + r)))
  | Subtract => hnum2 h args (fun l r => POk (VNum (l - r)))
  | Multiply => hnum2 h args (fun l r => POk (VNum (l * r)))
  | Divide => hnum2 h args (fun l r => if PrimFloat.eqb r 0 then PErr EDivZero else POk (VNum (l / r)))
  | Modulo => hnum2 h args (fun l r => if PrimFloat.eqb r 0 then PErr EDivZero else POk (VNum (float_mod l r)))
  | Not => match args with [HBool b] => ROk (HBool (negb b)) h | _ => RCrash CType end
  | Minus => match args with [HNum f] => ROk (HNum (- f)) h | _ => RCrash CType end
  | Equal => match args with
             | [r; l] => match heq_top h l r with
                         | QB b => ROk (HBool b) h
                         | QType => RCrash CType
                         | QDeep => RCrash CHost
                         end
             | _ => RCrash CType
             end
  | NotEqual => match args with
                | [r; l] => match heq_top h l r with
                            | QB b => ROk (HBool (negb b)) h
                            | QType => RCrash CType
                            | QDeep => RCrash CHost
                            end
                | _ => RCrash CType
                end
  | NumLT => hnum2 h args (fun l r => POk (VBool (PrimFloat.ltb l r)))
  | NumLE => hnum2 h args (fun l r => POk (VBool (PrimFloat.leb l r)))
  | NumGT => hnum2 h args (fun l r => POk (VBool (PrimFloat.ltb r l)))
  | NumGE => hnum2 h args (fun l r => POk (VBool (PrimFloat.leb r l)))
  | StrLT => hstr2 h args (fun l r => HBool (str_ltb l r))
  | StrLE => hstr2 h args (fun l r => HBool (negb (str_ltb r l)))
  | StrGT => hstr2 h args (fun l r => HBool (str_ltb r l))
  | StrGE => hstr2 h args (fun l r => HBool (negb (str_ltb l r)))
  | StrConcat => hstr2 h args (fun l r => HStr (l ++ r)%list)
  | Array => let (l, h') := halloc (CArr (rev args)) h in ROk (HArr l) h'
  | Map => match hmap_pairs args [] with
           | Some ps => let (l, h') := halloc (CMap (hmap_build ps [])) h in ROk (HMap (map fst ps) l) h'
           | None => RCrash CType
           end
  | ArrConcat => match args with
                 | [HArr r; HArr l] => let (l', h') := halloc (CArr (arr_at h l ++ arr_at h r)%list) h in ROk (HArr l') h'
                 | _ => RCrash CType
                 end
  | ArrRepeat => match args with
                 | [HNum r; HArr l] => harr_repeat r l h
                 | _ => RCrash CType
                 end
  | Index => match args with [idx; lhs] => hindex h lhs idx | _ => RCrash CType end
  | Slice => match args with [stop; start; lhs] => hslice h lhs start stop | _ => RCrash CType end
  | _ => RCrash CType
  end.

(* OpSetIndex after its three pops (index, left, val): the store.  A left
   operand that is neither a map nor an array: the type switch has no default. *)
Inductive sres := SOk (h : heap) | SErr (e : perr) | SCrash (c : crash).
Definition hset_index (h : heap) (args : list hval) : sres :=
  match args with
  | [idx; HMap _ l; v] =>
      match idx with
      | HStr k => SOk (hset l (CMap (hmap_set k v (map_at h l))) h)
      | _ => SCrash CType
      end
  | [idx; HArr l; v] =>
      match idx with
      | HNum f => let els := arr_at h l in
                  match normalize_index f (List.length els) false with
                  | IErr e => SErr e
                  | IOk i => SOk (hset l (CArr (set_nth i v els)) h)
                  end
      | _ => SCrash CType
      end
  | _ => SOk h
  end.

(* ---------- the machine ---------- *)
Record hstate := { hip : N; hstack : list hval; hlocals : list hval; hglobals : list hval;
                   hconsts : list hval; hheap : heap }.

Inductive houtcome :=
| HRunning (s : hstate)
| HHalted (s : hstate)
| HFailed (e : perr)
| HCrashed (c : crash).

(* a constant of the program as a VM value; composite constants (the compiler
   emits none) are allocated once, so every OpConstant pushes the same reference *)
Fixpoint inject (v : value) (h : heap) {struct v} : hval * heap :=
  match v with
  | VNum f => (HNum f, h)
  | VBool b => (HBool b, h)
  | VStr s => (HStr s, h)
  | VNone => (HNone, h)
  | VNil => (HNil, h)
  | VArr l =>
      let (els, h') := (fix go (l : list value) (h : heap) : list hval * heap :=
                          match l with
                          | [] => ([], h)
                          | x :: t => let (x', h1) := inject x h in
                                      let (t', h2) := go t h1 in (x' :: t', h2)
                          end) l h in
      let (l', h'') := halloc (CArr els) h' in (HArr l', h'')
  | VMap m =>
      let (ps, h') := (fix go (m : list (list N * value)) (h : heap) : list (list N * hval) * heap :=
                         match m with
                         | [] => ([], h)
                         | (k, x) :: t => let (x', h1) := inject x h in
                                          let (t', h2) := go t h1 in ((k, x') :: t', h2)
                         end) m h in
      let (l', h'') := halloc (CMap (hmap_build ps [])) h' in (HMap (map fst ps) l', h'')
  end.

Fixpoint inject_list (l : list value) (h : heap) : list hval * heap :=
  match l with
  | [] => ([], h)
  | x :: t => let (x', h1) := inject x h in
              let (t', h2) := inject_list t h1 in (x' :: t', h2)
  end.

(* NewVM *)
Definition hvm_init (p : program) : hstate :=
  let (cs, h) := inject_list (pconsts p) heap_empty in
  {| hip := 0; hstack := []; hlocals := repeat HNil (N.to_nat (plcount p));
     hglobals := repeat HNil (N.to_nat (pgcount p)); hconsts := cs; hheap := h |}.

Definition hsp_of (s : hstate) : N := N.of_nat (List.length (hlocals s)) + N.of_nat (List.length (hstack s)).

Definition hwith (s : hstate) (next : N) (stk : list hval) (h : heap) : houtcome :=
  if StackSize <? N.of_nat (List.length (hlocals s)) + N.of_nat (List.length stk) then HFailed EStackOverflow
  else HRunning {| hip := next; hstack := stk; hlocals := hlocals s; hglobals := hglobals s;
                   hconsts := hconsts s; hheap := h |}.

Definition hstep_range (hv : N) (stk : list hval) : option (list hval) :=
  match stk with
  | HNum index :: HNum step :: HNum stop :: rest =>
      let going := (PrimFloat.ltb 0 step && PrimFloat.ltb index stop)
                   || (PrimFloat.ltb step 0 && PrimFloat.ltb stop index) in
      let base := HNum (index + step) :: HNum step :: HNum stop :: rest in
      Some (HBool going :: (if going && negb (hv =? 0) then HNum index :: base else base))
  | _ => None
  end.

Definition hzero_step (stk : list hval) : bool :=
  match stk with
  | HNum _ :: HNum step :: HNum _ :: _ => PrimFloat.eqb step 0
  | _ => false
  end.

Definition hiter_range (hv : N) (h : heap) (stk : list hval) : option (list hval) :=
  match stk with
  | HNum index :: iter :: rest =>
      match float_to_Z index with
      | Some z =>
          if (z <? 0)%Z then None else
          let i := Z.to_nat z in
          let val := match iter with
                     | HArr l => nth_error (arr_at h l) i
                     | HMap order _ => option_map (fun k => HStr k) (nth_error order i)
                     | HStr s => let runes := utf8_decode s in
                                 if (i <? List.length runes)%nat then Some (HStr (utf8_encode (firstn 1 (skipn i runes)))) else None
                     | _ => None
                     end in
          let base := HNum (index + 1) :: iter :: rest in
          Some match val with
               | Some v => HBool true :: (if negb (hv =? 0) then v :: base else base)
               | None => HBool false :: base
               end
      | None => None
      end
  | _ => None
  end.

Definition hmk (s : hstate) (next : N) (stk : list hval) : hstate :=
  {| hip := next; hstack := stk; hlocals := hlocals s; hglobals := hglobals s; hconsts := hconsts s; hheap := hheap s |}.

Definition hexec (s : hstate) (o : opc) (arg next : N) : houtcome :=
  match o with
  | Jump => HRunning (hmk s arg (hstack s))
  | JumpOnFalse =>
      match hstack s with
      | [] => HCrashed CUnderflow
      | HBool b :: rest => HRunning (hmk s (if b then next else arg) rest)
      | _ :: _ => HCrashed CType
      end
  | StepRange =>
      if (List.length (hstack s) <? 3)%nat then HCrashed CUnderflow else
      if hzero_step (hstack s) then HFailed ERangeValue else
      match hstep_range arg (hstack s) with
      | Some stk => hwith s next stk (hheap s)
      | None => HCrashed CType
      end
  | IterRange =>
      if (List.length (hstack s) <? 2)%nat then HCrashed CUnderflow else
      match hiter_range arg (hheap s) (hstack s) with
      | Some stk => hwith s next stk (hheap s)
      | None => HCrashed CType
      end
  | _ =>
      match simple_effect o arg with
      | None => HCrashed CDecode
      | Some (pn, q) =>
          let pnat := N.to_nat pn in
          if (List.length (hstack s) <? pnat)%nat then HCrashed CUnderflow else
          let args := firstn pnat (hstack s) in
          let rest := skipn pnat (hstack s) in
          match o with
          | SetGlobal =>
              match args, set_nth_opt (N.to_nat arg) (hd HNil args) (hglobals s) with
              | [_], Some g => HRunning {| hip := next; hstack := rest; hlocals := hlocals s; hglobals := g;
                                           hconsts := hconsts s; hheap := hheap s |}
              | _, _ => HCrashed COperand
              end
          | SetLocal =>
              match args, set_nth_opt (N.to_nat arg) (hd HNil args) (hlocals s) with
              | [_], Some l => HRunning {| hip := next; hstack := rest; hlocals := l; hglobals := hglobals s;
                                           hconsts := hconsts s; hheap := hheap s |}
              | _, _ => HCrashed COperand
              end
          | Drop => HRunning (hmk s next rest)
          | SetIndex =>
              match hset_index (hheap s) args with
              | SErr e => HFailed e
              | SCrash c => HCrashed c
              | SOk h' => HRunning {| hip := next; hstack := rest; hlocals := hlocals s; hglobals := hglobals s;
                                      hconsts := hconsts s; hheap := h' |}
              end
          | _ =>
              match hpure_sem o arg (hconsts s) (hlocals s) (hglobals s) (hheap s) args with
              | ROk v h' => hwith s next (v :: rest) h'
              | RErr e => HFailed e
              | RCrash c => HCrashed c
              end
          end
      end
  end.

(* one iteration of `for ip := 0; ip < len(vm.instructions); ip++` *)
Definition hvm_step (p : program) (s : hstate) : houtcome :=
  match skipn (N.to_nat (hip s)) (pcode p) with
  | [] => HHalted s
  | b :: rest =>
      match opc_of_N b with
      | None => HRunning (hmk s (hip s + 1) (hstack s))
      | Some o =>
          if vm_has_operand o then
            match rest with
            | hi :: lo :: _ => hexec s o (hi * 256 + lo) (hip s + 3)
            | _ => HCrashed CDecode
            end
          else hexec s o 0 (hip s + 1)
      end
  end.

Inductive hfinal := HFHalted (s : hstate) | HFFailed (e : perr) | HFCrashed (c : crash) | HFOutOfFuel.

Fixpoint hvm_run (fuel : nat) (p : program) (s : hstate) : hfinal :=
  match fuel with
  | O => HFOutOfFuel
  | S f =>
      match hvm_step p s with
      | HRunning s' => hvm_run f p s'
      | HHalted s' => HFHalted s'
      | HFailed e => HFFailed e
      | HCrashed c => HFCrashed c
      end
  end.

Inductive hreachable (p : program) : hstate -> Prop :=
| hreach_init : hreachable p (hvm_init p)
| hreach_step s s' : hreachable p s -> hvm_step p s = HRunning s' -> hreachable p s'.

(* ---------- reading a value back (the structural dump VerifGlobalRepr:
   arrays by elements, maps by `order` with the values of m) ---------- *)
Fixpoint resolve (fuel : nat) (h : heap) (v : hval) : value :=
  match fuel with
  | O => VNil
  | S f =>
      match v with
      | HNum x => VNum x
      | HBool b => VBool b
      | HStr s => VStr s
      | HArr l => VArr (map (resolve f h) (arr_at h l))
      | HMap order l =>
          let m := map_at h l in
          VMap (map (fun k => (k, match hlookup k m with Some x => resolve f h x | None => VNil end)) order)
      | HNone => VNone
      | HNil => VNil
      end
  end.
