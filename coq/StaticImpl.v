(* StaticImpl.v — Static.v's certificate checker against the IMPLEMENTATION model of the Go type
   checker (Types.v: tc / check, the model C04 proves equivalent to the specification rule by rule).
   Composition of StaticTypes.v (Static <-> TypesSpec) with TypesWhole.v (TypesSpec <-> Types on the
   uniform fragment). *)
From Coq Require Import List Bool.
From EvyV Require Import Base Ast Sem Static StaticTypes.
From EvyV Require TypesSyntax TypesSpec Types TypesProofs TypesWhole.
Import ListNotations.
Module S := TypesSyntax.
Module Sp := TypesSpec.
Module T := Types.
Module TP := TypesProofs.
Module TW := TypesWhole.

(* forward: a Static-typed coercion-free tree whose erasure is uniform is typed by the implementation
   model, without error, with the same type *)
Theorem static_to_impl F G A t e :
  ety F G A = Some t -> plain F G A = true -> erase G A = Some e -> TW.uniform e = true ->
  exists n, T.tc e = T.ONode n false /\ ty_of (TP.erase (T.node_type n)) = t.
Proof.
  intros Ht Hp He Hu. destruct (static_to_spec F G A t Ht Hp) as (e' & k & s & He' & Hs & ->).
  rewrite He in He'. inversion He'; subst e'.
  destruct (TW.tc_uniform e Hu k s Hs) as (n & Hn & _ & G2 & _). exists n. rewrite G2. auto.
Qed.

(* ---------- the statement contexts of swt_stmt, on the implementation model ---------- *)
Lemma sty_is_tc G A t : sty_is G A t = true ->
  exists e k s, erase G A = Some e /\ Sp.spec_tc e = Some (k, s) /\ t = ty_of s.
Proof. apply sty_is_inv. Qed.

(* condition *)
Theorem impl_ctx_cond F G c e : sis F G c TBool = true -> erase G c = Some e -> TW.uniform e = true ->
  T.check S.CCond e = T.Accept T.TBool T.TBool.
Proof.
  unfold sis. intros H He Hu. apply andb_true_iff in H as [_ H].
  destruct (sty_is_inv _ _ _ H) as (e' & k & s & He' & Hs & Ht). rewrite He in He'. inversion He'; subst e'.
  apply (TW.impl_cond e k s Hu Hs). destruct s; try discriminate; reflexivity.
Qed.

(* inferred declaration *)
Theorem impl_ctx_decl F G t a e : sis F G a t = true -> ty_decl t = true -> erase G a = Some e -> TW.uniform e = true ->
  exists T0 shown, T.check S.CDecl e = T.Accept T0 shown /\ ty_of (TP.erase T0) = t.
Proof.
  unfold sis. intros H Hd He Hu. apply andb_true_iff in H as [_ H].
  destruct (sty_is_inv _ _ _ H) as (e' & k & s & He' & Hs & Ht). rewrite He in He'. inversion He'; subst e'.
  assert (Hc : S.closed s = true).
  { rewrite closed_proper, <- Ht. unfold ty_decl in Hd. apply andb_true_iff in Hd as [Hd _]. exact Hd. }
  destruct (TW.impl_decl e k s Hu Hs Hc) as (T0 & shown & Hc' & HT). exists T0, shown. split; [exact Hc'|]. congruence.
Qed.

(* a value meeting a slot of exactly its type (assignment to a variable, parameter, return) *)
Theorem impl_ctx_value F G t a e st :
  ann_ok F G a = true -> sty_is G a t = true -> sty_of t = Some st -> erase G a = Some e -> TW.uniform e = true ->
  exists shown,
    T.check (S.CAssign st) e = T.Accept (T.fixed_type (T.embed st)) shown /\
    T.check (S.CParam st) e = T.Accept (T.fixed_type (T.embed st)) shown /\
    T.check (S.CVariadic st) e = T.Accept (T.fixed_type (T.embed st)) shown /\
    T.check (S.CReturn st) e = T.Accept (T.embed st) shown.
Proof.
  intros _ H Hst He Hu.
  destruct (sty_is_inv _ _ _ H) as (e' & k & s & He' & Hs & Ht). rewrite He in He'. inversion He'; subst e'.
  subst t. rewrite sty_of_ty_of in Hst. inversion Hst; subst st.
  exact (TW.impl_value e k s Hu Hs).
Qed.

(* a value stored into a slot of type any: the wrapped node  EAny a' t'  *)
Theorem impl_ctx_value_any F G a' t' e :
  arg_ann (ann_ok F G) G TAny (EAny a' t') = true -> erase G a' = Some e -> TW.uniform e = true ->
  exists shown, T.check (S.CAssign S.SAny) e = T.Accept T.TAny shown.
Proof.
  unfold arg_ann. intros H He Hu. apply orb_true_iff in H as [H|H].
  - apply andb_true_iff in H as [H _]. apply andb_true_iff in H as [H _]. apply andb_true_iff in H as [_ H].
    destruct (sty_is_inv _ _ _ H) as (e' & k & s & He' & Hs & Ht). rewrite He in He'. inversion He'; subst e'.
    exact (TW.impl_value_any e k s Hu Hs).
  - (* the defaulted empty literal:  print []  *)
    unfold zero_any, zero_lit in H. apply andb_true_iff in H as [H _].
    destruct a'; try discriminate.
    + destruct es; [|discriminate]. simpl in He. inversion He; subst e.
      exact (TW.impl_value_any (S.EArr []) Sp.KConst S.SEmptyArr Hu eq_refl).
    + destruct pairs; [|discriminate]. simpl in He. inversion He; subst e.
      exact (TW.impl_value_any (S.EMap []) Sp.KConst S.SEmptyMap Hu eq_refl).
Qed.

(* range operand: the loop variable gets the type Static expects *)
Theorem impl_ctx_range G y st t e :
  spec_ty_of G y = Some st -> srange st = Some t -> erase G y = Some e -> TW.uniform e = true ->
  exists T0, T.check S.CRange e = T.Accept T0 T0 /\ ty_of (TP.erase T0) = t.
Proof.
  intros Hsp Hr He Hu. unfold spec_ty_of in Hsp. rewrite He in Hsp.
  destruct (Sp.spec_tc e) as [[k s]|] eqn:Hs; [|discriminate]. simpl in Hsp. inversion Hsp; subst s.
  unfold srange in Hr. destruct (range_guard st) eqn:Eg; [|discriminate].
  rewrite <- (spec_check_range_tc e k st Hs) in Hr.
  destruct (Sp.spec_check S.CRange e) as [a b|] eqn:Ec; [|discriminate]. inversion Hr; subst t.
  destruct (TW.impl_range e k st Hu Hs) with (st := a) (sh := b) as (T0 & HT & HE).
  - destruct st; simpl in Eg; auto.
  - exact Ec.
  - exists T0. split; [exact HT|]. congruence.
Qed.

(* assignment to a target chain *)
Theorem impl_ctx_assign_to F G tg st a e root steps :
  target_of G tg = Some (root, steps) -> target_sty G tg = Some st -> S.closed root = true ->
  TW.uniform_steps steps = true ->
  ann_ok F G a = true -> sty_is G a (ty_of st) = true -> erase G a = Some e -> TW.uniform e = true ->
  exists T0 shown, T.check (S.CAssignTo root steps) e = T.Accept T0 shown /\ TP.erase T0 = st.
Proof.
  intros Hto Hts Hc Hus _ H He Hu. unfold target_sty in Hts. rewrite Hto in Hts.
  destruct (Sp.spec_steps steps) as [ks|] eqn:Ek; [|discriminate].
  destruct (sty_is_inv _ _ _ H) as (e' & k & s & He' & Hs & Ht). rewrite He in He'. inversion He'; subst e'.
  apply ty_of_inj in Ht. subst s.
  exact (TW.impl_assign_to e k root steps ks st Hu Hc Hus Ek Hts Hs).
Qed.

(* converse: what the implementation model types without error (uniform fragment), Static types the
   same on the tree that carries the specification's types *)
Theorem impl_to_static F G A e n :
  ann_ok F G A = true -> erase G A = Some e -> TW.uniform e = true -> T.tc e = T.ONode n false ->
  ety F G A = Some (ty_of (TP.erase (T.node_type n))).
Proof.
  intros Ha He Hu Hn. destruct (TW.tc_spec_agree e Hu n Hn) as (k & Hs).
  exact (proj1 (spec_to_static F G A) Ha e k _ He Hs).
Qed.

(* the retyped empty literal of a value slot: the implementation model converts the source [] / {}
   to the slot's (closed array / map) type *)
Theorem impl_ctx_zero t e st G : zero_lit t e = true -> sty_of t = Some st ->
  exists e' shown, erase G e = Some e' /\
    T.check (S.CAssign st) e' = T.Accept (T.fixed_type (T.embed st)) shown.
Proof.
  unfold zero_lit. intros H Hst.
  destruct e; try discriminate.
  - destruct es; [|discriminate]. destruct t; try discriminate. exists (S.EArr []).
    simpl in Hst. destruct (sty_of t) as [u|]; [|discriminate]. inversion Hst; subst st.
    eexists. split; [reflexivity|]. unfold T.check, T.check_accept. cbn [T.tc map T.seq_outcomes T.node_type T.embed T.fixed_type].
    assert (T.accepts (T.TArr true (T.embed u)) T.TEmptyArr = true) as -> by reflexivity.
    cbn [T.wrap_any T.node_type]. cbv zeta.
    assert (T.equals (T.TArr true (T.embed u)) T.TEmptyArr = false) as ->.
    { simpl. rewrite TP.equals_none_r. apply TP.spec_not_none. apply TP.spec_embed. }
    reflexivity.
  - destruct pairs; [|discriminate]. destruct t; try discriminate. exists (S.EMap []).
    simpl in Hst. destruct (sty_of t) as [u|]; [|discriminate]. inversion Hst; subst st.
    eexists. split; [reflexivity|]. unfold T.check, T.check_accept. cbn [T.tc map T.seq_outcomes T.node_type T.embed T.fixed_type].
    assert (T.accepts (T.TMap true (T.embed u)) T.TEmptyMap = true) as -> by reflexivity.
    cbn [T.wrap_any T.node_type]. cbv zeta.
    assert (T.equals (T.TMap true (T.embed u)) T.TEmptyMap = false) as ->.
    { simpl. rewrite TP.equals_none_r. apply TP.spec_not_none. apply TP.spec_embed. }
    reflexivity.
Qed.
