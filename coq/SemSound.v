(* SemSound.v — type soundness of the evaluator model (Sem.v) for programs
   accepted by the certificate checker (Static.v), Stage 1 fragment.
   Store typing Σ : cell ↦ dynamic type; every expression of static type t
   evaluates to a cell of dynamic type t; no run ends in EInternal/EHostCrash. *)
From Coq Require Import ZArith NArith PArith List String Bool Floats FMapPositive Lia.
From EvyV Require Import Base Num Ast Omap Sem Static.
Import ListNotations.
Open Scope Z_scope.

(* ---------- outcomes that are not "going wrong" ---------- *)
Definition safe_err (e : err) : Prop :=
  match e with EInternal _ | EHostCrash _ => False | _ => True end.

Definition wp {A} (r : res A * state) (Q : A -> state -> Prop) : Prop :=
  match r with (Ok a, s') => Q a s' | (Er er, _) => safe_err er end.

Lemma wp_bind {A B} (m : M A) (k : A -> M B) s Q :
  wp (m s) (fun a s' => wp (k a s') Q) -> wp (bindM m k s) Q.
Proof. unfold bindM, wp. destruct (m s) as [[a|er] s1]; auto. Qed.

Lemma wp_mono {A} (r : res A * state) (Q Q' : A -> state -> Prop) :
  wp r Q -> (forall a s, Q a s -> Q' a s) -> wp r Q'.
Proof. unfold wp. destruct r as [[a|er] s1]; auto. Qed.

Lemma wp_ret {A} (a : A) s (Q : A -> state -> Prop) : Q a s -> wp (ret a s) Q.
Proof. exact (fun H => H). Qed.

Lemma wp_fail {A} (e : err) s (Q : A -> state -> Prop) : safe_err e -> wp (fail e s) Q.
Proof. exact (fun H => H). Qed.

Ltac wbind H := apply wp_bind; eapply wp_mono; [ H | cbv beta ].

(* ---------- store typing ---------- *)
Definition sty := PositiveMap.t ty.
Definition sfind (S : sty) (l : loc) : option ty := PositiveMap.find l S.
Definition ext (S S' : sty) : Prop := forall l t, sfind S l = Some t -> sfind S' l = Some t.

Lemma ext_refl S : ext S S. Proof. intros l t H; exact H. Qed.
Lemma ext_trans S1 S2 S3 : ext S1 S2 -> ext S2 S3 -> ext S1 S3.
Proof. intros H1 H2 l t H; auto. Qed.

(* dynamic types of the Stage-1 fragment *)
Definition ty_ok1 (t : ty) : bool := (ty_s1 t || is_none t) && ty_small t.

Inductive cell_ok (S : sty) : hval -> ty -> Prop :=
| CNum f : cell_ok S (HNum f) TNum
| CStr x : cell_ok S (HStr x) TStr
| CBool b : cell_ok S (HBool b) TBool
| CAny u i : ty_s1in u = true -> sfind S i = Some u -> cell_ok S (HAny u i) TAny
| CArr u els : Forall (fun i => sfind S i = Some u) els -> cell_ok S (HArr els) (TArr u)
| CEmpty : cell_ok S (HArr []) TEmptyArr
| CNone : cell_ok S HNone TNone.

Lemma cell_ok_ext S S' v t : ext S S' -> cell_ok S v t -> cell_ok S' v t.
Proof.
  intros E H; inversion H; subst; constructor; auto.
  eapply Forall_impl; [|eassumption]. cbv beta; auto.
Qed.

Record heap_ok (S : sty) (h : heap) : Prop := {
  ho_cells : forall l t, sfind S l = Some t -> exists v, hget h l = Some v /\ cell_ok S v t;
  ho_dom : forall l t, sfind S l = Some t -> (l < hnext h)%positive;
  ho_tys : forall l t, sfind S l = Some t -> ty_ok1 t = true }.

(* ---------- environments ---------- *)
Definition frame_ok (S : sty) (outer : tyenv) (sf : sframe) (df : frame) : Prop :=
  (forall n t, sget n sf = Some t -> exists l, frame_get n df = Some l /\ sfind S l = Some t) /\
  (forall n l, frame_get n df = Some l -> sget n sf = None ->
     forall t, slookup n outer = Some t -> sfind S l = Some t).

Inductive env_ok (S : sty) : tyenv -> list frame -> Prop :=
| EO_nil : env_ok S [] []
| EO_cons b sf G df e : frame_ok S G sf df -> env_ok S G e -> env_ok S ((b, sf) :: G) (df :: e).

Definition full (e : env) (s : state) : list frame := e ++ [st_globals s].

Definition inv (S : sty) (G : tyenv) (e : env) (s : state) : Prop :=
  heap_ok S (st_heap s) /\ env_ok S G (full e s).

Lemma frame_ok_ext S S' T sf df : ext S S' -> frame_ok S T sf df -> frame_ok S' T sf df.
Proof.
  intros E [H1 H2]; split.
  - intros n t Hn. destruct (H1 n t Hn) as (l & Hl & Ht). eauto.
  - intros n l Hn Hs t Ho. eauto.
Qed.

Lemma env_ok_ext S S' G fe : ext S S' -> env_ok S G fe -> env_ok S' G fe.
Proof. intros E H; induction H; constructor; eauto using frame_ok_ext. Qed.

Lemma env_ok_length S G fe : env_ok S G fe -> List.length G = List.length fe.
Proof. induction 1; simpl; auto. Qed.

Lemma inv_ext_env S S' G e s : ext S S' -> heap_ok S' (st_heap s) -> env_ok S G (full e s) -> inv S' G e s.
Proof. intros; split; eauto using env_ok_ext. Qed.

(* lookup through the whole frame list finds the statically resolved variable *)
Lemma env_get_sound S G fe n t :
  env_ok S G fe -> slookup n G = Some t -> exists l, env_get n fe = Some l /\ sfind S l = Some t.
Proof.
  induction 1 as [|b sf G df e [H1 H2] He IH]; simpl; [discriminate|].
  intros Hs. destruct (sget n sf) as [t0|] eqn:Hg.
  - inversion Hs; subst. destruct (H1 n t Hg) as (l & Hl & Ht). rewrite Hl. eauto.
  - destruct (frame_get n df) as [l|] eqn:Hd.
    + exists l; split; auto. eapply H2; eauto.
    + auto.
Qed.

Lemma env_get_app n e g : env_get n (e ++ [g]) = match env_get n e with Some l => Some l | None => frame_get n g end.
Proof.
  induction e as [|f e IH]; simpl.
  - destruct (frame_get n g); reflexivity.
  - destruct (frame_get n f); auto.
Qed.

Lemma lookup_full n e s : str_eqb n underscore = false -> lookup n e s = (Ok (env_get n (full e s)), s).
Proof.
  intros Hn. unfold lookup, full. rewrite Hn, env_get_app. destruct (env_get n e); reflexivity.
Qed.

(* ---------- heap primitives ---------- *)
Lemma tick_wp s : wp (tick s) (fun _ s' => st_heap s' = st_heap s /\ st_globals s' = st_globals s).
Proof.
  unfold tick. destruct (st_stopped s); [exact I|].
  match goal with |- context [if ?c then _ else _] => destruct c end; simpl; auto.
Qed.

Lemma emitE_wp ev s : wp (emitE ev s) (fun _ s' => st_heap s' = st_heap s /\ st_globals s' = st_globals s).
Proof. simpl; auto. Qed.

Lemma heap_ok_alloc S h v t :
  heap_ok S h -> cell_ok S v t -> ty_ok1 t = true ->
  let l := hnext h in
  let S' := PositiveMap.add l t S in
  ext S S' /\ heap_ok S' (snd (halloc h v)) /\ sfind S' l = Some t.
Proof.
  intros [Hc Hd Ht] Hv Hok l S'.
  assert (E : ext S S').
  { intros l0 t0 H0. unfold S', sfind. rewrite PositiveMap.gso; auto.
    intro; subst l0. apply Hd in H0. unfold l in H0. lia. }
  split; [exact E|]. split.
  - constructor.
    + intros l0 t0 H0. unfold S', sfind in H0. unfold hget; simpl.
      destruct (Pos.eq_dec l0 l) as [->|Hne].
      * rewrite PositiveMap.gss in H0. inversion H0; subst.
        exists v. fold l. rewrite PositiveMap.gss. split; auto. eapply cell_ok_ext; eauto.
      * rewrite PositiveMap.gso in H0 by auto. fold l. rewrite PositiveMap.gso by auto.
        destruct (Hc l0 t0 H0) as (v0 & Hg & Hk). exists v0; split; auto. eapply cell_ok_ext; eauto.
    + intros l0 t0 H0. unfold S', sfind in H0. simpl.
      destruct (Pos.eq_dec l0 l) as [->|Hne].
      * unfold l. lia.
      * rewrite PositiveMap.gso in H0 by auto. apply Hd in H0. lia.
    + intros l0 t0 H0. unfold S', sfind in H0.
      destruct (Pos.eq_dec l0 l) as [->|Hne].
      * rewrite PositiveMap.gss in H0. inversion H0; subst; auto.
      * rewrite PositiveMap.gso in H0 by auto. eauto.
  - unfold S', sfind. apply PositiveMap.gss.
Qed.

Lemma alloc_wp S s v t :
  heap_ok S (st_heap s) -> cell_ok S v t -> ty_ok1 t = true ->
  wp (alloc v s) (fun l s' => exists S', ext S S' /\ heap_ok S' (st_heap s') /\ sfind S' l = Some t
                                         /\ st_globals s' = st_globals s).
Proof.
  intros Hh Hv Ht. unfold alloc, wp. simpl.
  destruct (heap_ok_alloc S (st_heap s) v t Hh Hv Ht) as (E & H1 & H2).
  eexists; split; [exact E|]. split; [exact H1|]. split; [exact H2|reflexivity].
Qed.

Lemma load_wp S s l t :
  heap_ok S (st_heap s) -> sfind S l = Some t ->
  wp (load l s) (fun v s' => s' = s /\ cell_ok S v t).
Proof.
  intros Hh Hl. unfold load. destruct (ho_cells _ _ Hh l t Hl) as (v & Hg & Hc). rewrite Hg. simpl; auto.
Qed.

Lemma heap_ok_store S h l v t :
  heap_ok S h -> sfind S l = Some t -> cell_ok S v t -> heap_ok S (hset h l v).
Proof.
  intros [Hc Hd Ht] Hl Hv. constructor; auto.
  intros l0 t0 H0. unfold hget, hset; simpl.
  destruct (Pos.eq_dec l0 l) as [->|Hne].
  - rewrite PositiveMap.gss. rewrite Hl in H0; inversion H0; subst. eauto.
  - rewrite PositiveMap.gso by auto. apply Hc; auto.
Qed.

Lemma store_wp S s l v t :
  heap_ok S (st_heap s) -> sfind S l = Some t -> cell_ok S v t ->
  wp (store l v s) (fun _ s' => heap_ok S (st_heap s') /\ st_globals s' = st_globals s).
Proof. intros. simpl. split; auto. eapply heap_ok_store; eauto. Qed.

(* ---------- value-level operations ---------- *)
Definition hpost {A} (S : sty) (g : frame) (R : sty -> A -> Prop) : A -> state -> Prop :=
  fun a s' => exists S', ext S S' /\ heap_ok S' (st_heap s') /\ st_globals s' = g /\ R S' a.

Ltac hdone S' :=
  exists S'; split; [eauto using ext_refl, ext_trans | split; [eassumption | split; [try reflexivity; try congruence | eauto]]].

Lemma ty_s1in_not_none t : ty_s1in t = true -> t <> TNone.
Proof. intros H E; subst; discriminate. Qed.

Lemma ty_s1in_ok1 t : ty_s1in t = true -> ty_small t = true -> ty_ok1 t = true.
Proof.
  intros H1 H2. unfold ty_ok1. rewrite H2, andb_true_r. apply orb_true_iff; left.
  destruct t; simpl in *; auto; discriminate.
Qed.

Lemma ok1_small t : ty_ok1 t = true -> ty_small t = true.
Proof. unfold ty_ok1. intros H; apply andb_true_iff in H; tauto. Qed.

Lemma copy_or_ref_wp d : forall S s l t,
  heap_ok S (st_heap s) -> sfind S l = Some t -> t <> TNone ->
  wp (copy_or_ref d l s) (hpost S (st_globals s) (fun S' l' => sfind S' l' = Some t)).
Proof.
  induction d as [|d IH]; intros S s l t Hh Hl Hn; [exact I|].
  cbn [copy_or_ref].
  wbind ltac:(eapply load_wp; eauto). intros v s' [-> Hc].
  pose proof (ho_tys _ _ Hh _ _ Hl) as Hok.
  inversion Hc; subst.
  - eapply wp_mono; [eapply alloc_wp; eauto|]. cbv beta. intros l' s' (S' & E & H1 & H2 & H3).
    exists S'; auto.
  - eapply wp_mono; [eapply alloc_wp; eauto|]. cbv beta. intros l' s' (S' & E & H1 & H2 & H3).
    exists S'; auto.
  - eapply wp_mono; [eapply alloc_wp; eauto|]. cbv beta. intros l' s' (S' & E & H1 & H2 & H3).
    exists S'; auto.
  - wbind ltac:(eapply (IH S s i u); eauto using ty_s1in_not_none).
    intros i' s1 (S1 & E1 & Hh1 & Hg1 & Hi1).
    eapply wp_mono; [eapply alloc_wp with (t := TAny); eauto; constructor; eauto|]. cbv beta.
    intros l' s' (S' & E & H1 & H2 & H3).
    hdone S'.
  - apply wp_ret. hdone S.
  - apply wp_ret. hdone S.
  - congruence.
Qed.

Lemma mapM_wp {A B} (f : A -> M B) (Pa : sty -> A -> Prop) (R : sty -> A -> B -> Prop) g :
  (forall S S' a, ext S S' -> Pa S a -> Pa S' a) ->
  (forall S S' a b, ext S S' -> R S a b -> R S' a b) ->
  (forall S s a, heap_ok S (st_heap s) -> st_globals s = g -> Pa S a ->
      wp (f a s) (hpost S g (fun S' b => R S' a b))) ->
  forall l S s, heap_ok S (st_heap s) -> st_globals s = g -> Forall (Pa S) l ->
    wp (mapM f l s) (hpost S g (fun S' bs => Forall2 (R S') l bs)).
Proof.
  intros MP MR Hf. induction l as [|a l IH]; intros S s Hh Hg Hall; cbn [mapM].
  - apply wp_ret. hdone S.
  - inversion Hall; subst.
    wbind ltac:(eapply Hf; eauto). intros b s1 (S1 & E1 & Hh1 & Hg1 & Hr1).
    wbind ltac:(eapply (IH S1 s1); eauto; eapply Forall_impl; [|eassumption]; cbv beta; eauto).
    intros bs s2 (S2 & E2 & Hh2 & Hg2 & Hr2).
    apply wp_ret. hdone S2.
Qed.

Lemma mapM_pure {A B} (f : A -> M B) l s :
  (forall a, In a l -> wp (f a s) (fun _ s' => s' = s)) -> wp (mapM f l s) (fun _ s' => s' = s).
Proof.
  induction l as [|a l IH]; intros H; cbn [mapM]; [reflexivity|].
  wbind ltac:(apply H; left; reflexivity). intros b s1 ->.
  wbind ltac:(apply IH; intros; apply H; right; assumption). intros bs s1 ->.
  reflexivity.
Qed.

(* [d] levels of recursion suffice to walk a value of type t *)
Definition deep_ok (t : ty) (d : nat) : Prop :=
  (t = TAny /\ (S max_ty_depth < d)%nat) \/ ((ty_s1in t = true \/ t = TNone) /\ (ty_depth t < d)%nat).

Lemma ty_small_le t : ty_small t = true -> (ty_depth t <= max_ty_depth)%nat.
Proof. unfold ty_small. apply Nat.leb_le. Qed.

Lemma show_wp d : forall S s r l t,
  heap_ok S (st_heap s) -> sfind S l = Some t -> deep_ok t d ->
  wp (show d r l s) (fun _ s' => s' = s).
Proof.
  induction d as [|d IH]; intros S s r l t Hh Hl Hd.
  { destruct Hd as [[_ H]|[_ H]]; lia. }
  cbn [show].
  wbind ltac:(eapply load_wp; eauto). intros v s' [-> Hc].
  inversion Hc; subst.
  - reflexivity.
  - destruct r; [|reflexivity]. destruct (go_quote x); [reflexivity|exact I].
  - reflexivity.
  - eapply IH; eauto. right. split; [left; assumption|].
    destruct Hd as [[_ Hx]|[[Hx|Hx] _]]; try discriminate.
    match goal with Hi : sfind S i = Some u |- _ =>
      pose proof (ty_small_le _ (ok1_small _ (ho_tys _ _ Hh _ _ Hi))) end. lia.
  - wbind ltac:(apply mapM_pure). 2:{ intros; subst; reflexivity. }
    intros a Ha.
    match goal with Hf : Forall _ els |- _ => rewrite Forall_forall in Hf; specialize (Hf a Ha) end.
    eapply IH; eauto.
    destruct Hd as [[Hx _]|[[Hx|Hx] Hy]]; try discriminate.
    right; split; [left; exact Hx|]. simpl in Hy. lia.
  - reflexivity.
  - reflexivity.
Qed.

Lemma shape_compat t u :
  ty_s1in t = true -> ty_s1in u = true -> ty_eqb (ty_shape t) (ty_shape u) = true -> ty_compat t u = true.
Proof.
  revert u; induction t; intros u Ht Hu H; destruct u; simpl in *; try discriminate; auto.
Qed.

Section EqGo.
  Context (eqf : loc -> loc -> M bool) (s : state).
  Lemma eq_go_pure : forall xs ys,
    (forall x y, In x xs -> In y ys -> wp (eqf x y s) (fun _ s' => s' = s)) ->
    wp ((fix go (xs ys : list loc) : M bool :=
           match xs, ys with
           | x :: xt, y :: yt => let* e := eqf x y in if e then go xt yt else ret false
           | _, _ => ret true
           end) xs ys s) (fun _ s' => s' = s).
  Proof.
    induction xs as [|x xs IH]; intros ys H; [reflexivity|].
    destruct ys as [|y ys]; [reflexivity|].
    wbind ltac:(apply H; left; reflexivity). intros e s1 ->.
    destruct e; [|reflexivity]. apply IH. intros; apply H; right; assumption.
  Qed.
End EqGo.

Lemma equals_wp d : forall S s a b ta tb,
  heap_ok S (st_heap s) -> sfind S a = Some ta -> sfind S b = Some tb ->
  ty_compat ta tb = true -> deep_ok ta d -> deep_ok tb d ->
  wp (equals d a b s) (fun _ s' => s' = s).
Proof.
  induction d as [|d IH]; intros S s a b ta tb Hh Ha Hb Hc Hda Hdb.
  { destruct Hda as [[_ H]|[_ H]]; lia. }
  cbn [equals].
  wbind ltac:(eapply load_wp; eauto). intros va s' [-> Hva].
  wbind ltac:(eapply load_wp; eauto). intros vb s' [-> Hvb].
  assert (SM : forall i u, sfind S i = Some u -> (ty_depth u <= max_ty_depth)%nat).
  { intros i u Hi. apply ty_small_le, ok1_small. eapply ho_tys; eauto. }
  inversion Hva; subst; inversion Hvb; subst; simpl in Hc; try discriminate; try reflexivity.
  - (* any / any *)
    destruct (ty_eqb (ty_shape u) (ty_shape u0)) eqn:Hs; [|reflexivity].
    eapply IH; eauto using shape_compat.
    + right; split; [left; assumption|].
      destruct Hda as [[_ Hx]|[[Hx|Hx] _]]; try discriminate. pose proof (SM _ _ H0). lia.
    + right; split; [left; assumption|].
      destruct Hdb as [[_ Hx]|[[Hx|Hx] _]]; try discriminate. pose proof (SM _ _ H2). lia.
  - (* arr / arr *)
    destruct (negb (Nat.eqb (List.length els) (List.length els0))); [reflexivity|].
    apply eq_go_pure. intros x y Hx Hy.
    rewrite Forall_forall in H, H0.
    destruct Hda as [[Hx0 _]|[[Hx0|Hx0] Hx1]]; try discriminate.
    destruct Hdb as [[Hy0 _]|[[Hy0|Hy0] Hy1]]; try discriminate.
    simpl in *.
    eapply IH; eauto; right; (split; [left; assumption|lia]).
  - (* arr / empty *)
    destruct (negb (Nat.eqb (List.length els) (List.length (@nil loc)))); [reflexivity|].
    apply eq_go_pure. intros x y Hx [].
  - (* empty / arr *)
    destruct (negb (Nat.eqb (List.length (@nil loc)) (List.length els))); reflexivity.
Qed.

Lemma deep_copy_wp d : forall S s l t,
  heap_ok S (st_heap s) -> sfind S l = Some t -> ty_s1in t = true -> (ty_depth t < d)%nat ->
  wp (deep_copy d l s) (hpost S (st_globals s) (fun S' l' => sfind S' l' = Some t)).
Proof.
  induction d as [|d IH]; intros S s l t Hh Hl Ht Hd; [lia|].
  cbn [deep_copy].
  wbind ltac:(eapply load_wp; eauto). intros v s' [-> Hc].
  pose proof (ho_tys _ _ Hh _ _ Hl) as Hok.
  inversion Hc; subst; try discriminate.
  - eapply wp_mono; [eapply alloc_wp; eauto|]. cbv beta. intros l' s' (S' & E & H1 & H2 & H3).
    exists S'; auto.
  - eapply wp_mono; [eapply alloc_wp; eauto|]. cbv beta. intros l' s' (S' & E & H1 & H2 & H3).
    exists S'; auto.
  - eapply wp_mono; [eapply alloc_wp; eauto|]. cbv beta. intros l' s' (S' & E & H1 & H2 & H3).
    exists S'; auto.
  - simpl in Ht, Hd.
    wbind ltac:(eapply (mapM_wp (deep_copy d) (fun S a => sfind S a = Some u)
                          (fun S a b => sfind S b = Some u) (st_globals s)); eauto).
    1:{ intros S0 s0 a Hh0 Hg0 Ha. rewrite <- Hg0. eapply IH; eauto. lia. }
    intros els' s1 (S1 & E1 & Hh1 & Hg1 & Hr1).
    eapply wp_mono; [eapply alloc_wp with (t := TArr u) (S := S1); eauto|].
    { constructor. clear -Hr1. induction Hr1; constructor; auto. }
    cbv beta. intros l' s' (S' & E & H1 & H2 & H3).
    hdone S'.
  - cbn [mapM]. unfold bindM at 1. cbn [ret].
    eapply wp_mono; [eapply alloc_wp with (t := TEmptyArr); eauto; constructor|].
    cbv beta. intros l' s' (S' & E & H1 & H2 & H3).
    exists S'; auto.
Qed.
