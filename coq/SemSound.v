(* SemSound.v — type soundness of the evaluator model (Sem.v) for programs
   accepted by the certificate checker (Static.v), Stage 1 fragment.
   Store typing Σ : cell ↦ dynamic type; every expression of static type t
   evaluates to a cell of dynamic type t; no run ends in EInternal/EHostCrash. *)
From Coq Require Import ZArith NArith PArith List String Bool Floats FMapPositive Lia.
From EvyV Require Import Base Num Ast Omap OmapProofs Sem SemPure Static.
Import ListNotations.
Open Scope Z_scope.

(* the host crashes that are the exhaustion of the host stack by a value that contains itself *)
Definition overflow_reason (w : str) : Prop :=
  w = s_ "stack overflow in String" \/ w = s_ "stack overflow in Equals" \/
  w = s_ "stack overflow in deepCopy" \/ w = s_ "stack overflow in same".

(* The whole development is parametrised by [strict]:
   strict = true  : `any` never occurs inside a composite type; then values are as deep as their
                    types and NO run ends in an internal error or a host crash;
   strict = false : every value type; the only host crash left is the stack overflow on a cyclic value. *)
Section Sound.
Context (strict : bool).
(* the typing of the program's globals (the frame wt_top computes); it extends the built-in globals *)
Context (Gg : sframe).
Context (HGg : forall n t, sget n global_frame0 = Some t -> sget n Gg = Some t).

(* ---------- outcomes that are not "going wrong" ---------- *)
Definition safe_err (e : err) : Prop :=
  match e with
  | EInternal _ => False
  | EHostCrash w => strict = false /\ overflow_reason w
  | _ => True
  end.

Definition wp {A} (r : res A * state) (Q : A -> state -> Prop) : Prop :=
  match r with (Ok a, s') => Q a s' | (Er er, _) => safe_err er end.

Lemma wp_bind {A B} (m : M A) (k : A -> M B) s Q :
  wp (m s) (fun a s' => wp (k a s') Q) -> wp (bindM m k s) Q.
Proof. unfold bindM, wp. destruct (m s) as [[a|er] s1]; auto. Qed.

Lemma wp_mono {A} (r : res A * state) (Q Q' : A -> state -> Prop) :
  wp r Q -> (forall a s, Q a s -> Q' a s) -> wp r Q'.
Proof. unfold wp. destruct r as [[a|er] s1]; auto. Qed.

Lemma wp_ret {A} (a : A) s (Q : A -> state -> Prop) : Q a s -> wp (ret a s) Q.
Proof. exact (fun H => H). Qed.

Lemma wp_fail {A} (e : err) s (Q : A -> state -> Prop) : safe_err e -> wp (fail e s) Q.
Proof. exact (fun H => H). Qed.

Ltac wbind H := apply wp_bind; eapply wp_mono; [ H | cbv beta ].

(* ---------- store typing ---------- *)
Definition sty := PositiveMap.t ty.
Definition sfind (S : sty) (l : loc) : option ty := PositiveMap.find l S.
Definition ext (S S' : sty) : Prop := forall l t, sfind S l = Some t -> sfind S' l = Some t.

Lemma ext_refl S : ext S S. Proof. intros l t H; exact H. Qed.
Lemma ext_trans S1 S2 S3 : ext S1 S2 -> ext S2 S3 -> ext S1 S3.
Proof. intros H1 H2 l t H; auto. Qed.

(* dynamic types: strict: `any` only at the top and bounded nesting; otherwise every value type *)
Definition ty_ok1 (t : ty) : bool :=
  if strict then (ty_s1 t || is_none t) && ty_small t else ty_value t || is_none t.

Inductive cell_ok (S : sty) : hval -> ty -> Prop :=
| CNum f : cell_ok S (HNum f) TNum
| CStr x : cell_ok S (HStr x) TStr
| CBool b : cell_ok S (HBool b) TBool
| CAny u i : u <> TAny -> u <> TNone -> sfind S i = Some u -> cell_ok S (HAny u i) TAny
| CArr u els : Forall (fun i => sfind S i = Some u) els -> cell_ok S (HArr els) (TArr u)
| CEmpty : cell_ok S (HArr []) TEmptyArr
| CMap u m : Inv m -> Forall (fun kv => sfind S (snd kv) = Some u) (pairs m) -> cell_ok S (HMap m) (TMap u)
| CEmptyMap m : pairs m = [] -> order m = [] -> cell_ok S (HMap m) TEmptyMap
| CNone : cell_ok S HNone TNone.

Lemma cell_ok_ext S S' v t : ext S S' -> cell_ok S v t -> cell_ok S' v t.
Proof.
  intros E H; inversion H; subst; constructor; auto;
    (eapply Forall_impl; [|eassumption]); cbv beta; auto.
Qed.

(* maps: entries of a well-formed mapVal *)
Lemma plookup_In {V} k (p : list (str * V)) v : plookup k p = Some v -> In (k, v) p.
Proof.
  induction p as [|[k' v'] p IH]; simpl; [discriminate|].
  destruct (str_eqb k' k) eqn:E.
  - apply str_eqb_eq in E; subst. intros H; inversion H; auto.
  - auto.
Qed.

Lemma map_entry_typed (S : sty) u (m : omap loc) k i :
  Forall (fun kv => sfind S (snd kv) = Some u) (pairs m) -> plookup k (pairs m) = Some i -> sfind S i = Some u.
Proof. intros HF H. apply plookup_In in H. rewrite Forall_forall in HF. exact (HF _ H). Qed.

Lemma map_order_has {V} (m : omap V) k : Inv m -> In k (order m) -> exists i, plookup k (pairs m) = Some i.
Proof.
  intros (_ & _ & H) Hk. apply H in Hk. apply plookup_In_keys in Hk.
  destruct (plookup k (pairs m)); [eauto|congruence].
Qed.

Lemma Inv_oset {V} k (v : V) m : Inv m -> Inv (oset k v m).
Proof. intros H. exact (proj1 (set_R m (abs m) k v (conj H eq_refl))). Qed.

Lemma Inv_odel {V} k (m : omap V) : Inv m -> Inv (odel k m).
Proof. intros H. exact (proj1 (del_R m (abs m) k (conj H eq_refl))). Qed.

Lemma Inv_oempty {V} : Inv (@oempty V).
Proof. exact (proj1 R_empty). Qed.

Lemma Forall_premove {V} (P : str * V -> Prop) k p : Forall P p -> Forall P (premove k p).
Proof.
  induction 1 as [|[k' v'] p Hx Hp IH]; simpl; [constructor|].
  destruct (str_eqb k' k); auto.
Qed.

Lemma Forall_pset {V} (P : str * V -> Prop) k v p : P (k, v) -> Forall P p -> Forall P (pset k v p).
Proof. intros H1 H2. Transparent pset. unfold pset. Opaque pset. constructor; auto using Forall_premove. Qed.

Lemma pairs_oset {V} k (v : V) m : pairs (oset k v m) = pset k v (pairs m).
Proof. unfold oset. destruct (plookup k (pairs m)); reflexivity. Qed.

Lemma pairs_odel_Forall {V} (P : str * V -> Prop) k m : Forall P (pairs m) -> Forall P (pairs (odel k m)).
Proof. unfold odel. destruct (plookup k (pairs m)); simpl; auto using Forall_premove. Qed.

Record heap_ok (S : sty) (h : heap) : Prop := {
  ho_cells : forall l t, sfind S l = Some t -> exists v, hget h l = Some v /\ cell_ok S v t;
  ho_dom : forall l t, sfind S l = Some t -> (l < hnext h)%positive;
  ho_tys : forall l t, sfind S l = Some t -> ty_ok1 t = true }.

(* ---------- environments ---------- *)
Definition sframe_sub (a b : sframe) : Prop := forall n t, sget n a = Some t -> sget n b = Some t.

(* a local frame: exactly the statically declared names, at their types *)
Definition frame_ok (S : sty) (sf : sframe) (df : frame) : Prop :=
  (forall n t, sget n sf = Some t -> exists l, frame_get n df = Some l /\ sfind S l = Some t) /\
  (forall n l, frame_get n df = Some l -> sget n sf <> None).

(* the globals: those declared so far, at the types the program gives them; err and errmsg exist *)
Definition globals_ok (S : sty) (g : frame) : Prop :=
  (forall n l, frame_get n g = Some l -> exists t, sget n Gg = Some t /\ sfind S l = Some t) /\
  frame_get n_err g <> None /\ frame_get n_errmsg g <> None.

Inductive env_ok (S : sty) : tyenv -> env -> frame -> Prop :=
| EO_glob gs g : sframe_sub gs Gg -> globals_ok S g -> env_ok S [gs] [] g
| EO_cons sf G df e g : frame_ok S sf df -> env_ok S G e g -> env_ok S (sf :: G) (df :: e) g.

Definition full (e : env) (s : state) : list frame := e ++ [st_globals s].

Definition inv (S : sty) (G : tyenv) (e : env) (s : state) : Prop :=
  heap_ok S (st_heap s) /\ env_ok S G e (st_globals s).

Lemma frame_ok_ext S S' sf df : ext S S' -> frame_ok S sf df -> frame_ok S' sf df.
Proof.
  intros E [H1 H2]; split; auto.
  intros n t Hn. destruct (H1 n t Hn) as (l & Hl & Ht). eauto.
Qed.

Lemma globals_ok_ext S S' g : ext S S' -> globals_ok S g -> globals_ok S' g.
Proof.
  intros E (H1 & H2 & H3); split; auto.
  intros n l Hn. destruct (H1 n l Hn) as (t & Ht & Hl). eauto.
Qed.

Lemma env_ok_ext S S' G e g : ext S S' -> env_ok S G e g -> env_ok S' G e g.
Proof. intros E H; induction H; constructor; eauto using frame_ok_ext, globals_ok_ext. Qed.

Lemma env_ok_length S G e g : env_ok S G e g -> List.length G = Datatypes.S (List.length e).
Proof. induction 1; simpl; auto. Qed.

Lemma env_ok_globals S G e g : env_ok S G e g -> globals_ok S g.
Proof. induction 1; auto. Qed.

Lemma env_ok_reglob S G e g g' : env_ok S G e g -> globals_ok S g' -> env_ok S G e g'.
Proof. intros H Hg; induction H; constructor; auto. Qed.

Lemma env_get_app n e g : env_get n (e ++ [g]) = match env_get n e with Some l => Some l | None => frame_get n g end.
Proof.
  induction e as [|f e IH]; simpl.
  - destruct (frame_get n g); reflexivity.
  - destruct (frame_get n f); auto.
Qed.

(* a variable that is found holds a cell of the type the checker resolved it to *)
Lemma env_lookup_sound S G e g n t l :
  env_ok S G e g -> slookup n G = Some t -> env_get n (e ++ [g]) = Some l -> sfind S l = Some t.
Proof.
  induction 1 as [gs g Hsub (Hg & _)|sf G df e g [H1 H2] He IH]; simpl.
  - destruct (sget n gs) as [t0|] eqn:Hs; [|discriminate]. intros Ht; inversion Ht; subst.
    destruct (frame_get n g) as [l0|] eqn:Hl; [|discriminate]. intros Hx; inversion Hx; subst.
    destruct (Hg _ _ Hl) as (t' & Ht' & Hl'). rewrite (Hsub _ _ Hs) in Ht'. congruence.
  - intros Hs. destruct (sget n sf) as [t0|] eqn:Hg.
    + inversion Hs; subst. destruct (H1 n t Hg) as (l0 & Hl0 & Ht0). rewrite Hl0. congruence.
    + destruct (frame_get n df) as [l0|] eqn:Hd; [exfalso; eapply H2; eauto|]. auto.
Qed.

Lemma lookup_full n e s : str_eqb n underscore = false -> lookup n e s = (Ok (env_get n (full e s)), s).
Proof.
  intros Hn. unfold lookup, full. rewrite Hn, env_get_app. destruct (env_get n e); reflexivity.
Qed.

(* ---------- heap primitives ---------- *)
Lemma tick_wp s : wp (tick s) (fun _ s' => st_heap s' = st_heap s /\ st_globals s' = st_globals s).
Proof.
  unfold tick. destruct (st_stopped s); [exact I|].
  match goal with |- context [if ?c then _ else _] => destruct c end; simpl; auto.
Qed.

Lemma emitE_wp ev s : wp (emitE ev s) (fun _ s' => st_heap s' = st_heap s /\ st_globals s' = st_globals s).
Proof. simpl; auto. Qed.

Lemma heap_ok_alloc S h v t :
  heap_ok S h -> cell_ok S v t -> ty_ok1 t = true ->
  let l := hnext h in
  let S' := PositiveMap.add l t S in
  ext S S' /\ heap_ok S' (snd (halloc h v)) /\ sfind S' l = Some t.
Proof.
  intros [Hc Hd Ht] Hv Hok l S'.
  assert (E : ext S S').
  { intros l0 t0 H0. unfold S', sfind. rewrite PositiveMap.gso; auto.
    intro; subst l0. apply Hd in H0. unfold l in H0. lia. }
  split; [exact E|]. split.
  - constructor.
    + intros l0 t0 H0. unfold S', sfind in H0. unfold hget; simpl.
      destruct (Pos.eq_dec l0 l) as [->|Hne].
      * rewrite PositiveMap.gss in H0. inversion H0; subst.
        exists v. fold l. rewrite PositiveMap.gss. split; auto. eapply cell_ok_ext; eauto.
      * rewrite PositiveMap.gso in H0 by auto. fold l. rewrite PositiveMap.gso by auto.
        destruct (Hc l0 t0 H0) as (v0 & Hg & Hk). exists v0; split; auto. eapply cell_ok_ext; eauto.
    + intros l0 t0 H0. unfold S', sfind in H0. simpl.
      destruct (Pos.eq_dec l0 l) as [->|Hne].
      * unfold l. lia.
      * rewrite PositiveMap.gso in H0 by auto. apply Hd in H0. lia.
    + intros l0 t0 H0. unfold S', sfind in H0.
      destruct (Pos.eq_dec l0 l) as [->|Hne].
      * rewrite PositiveMap.gss in H0. inversion H0; subst; auto.
      * rewrite PositiveMap.gso in H0 by auto. eauto.
  - unfold S', sfind. apply PositiveMap.gss.
Qed.

Lemma alloc_wp S s v t :
  heap_ok S (st_heap s) -> cell_ok S v t -> ty_ok1 t = true ->
  wp (alloc v s) (fun l s' => exists S', ext S S' /\ heap_ok S' (st_heap s') /\ sfind S' l = Some t
                                         /\ st_globals s' = st_globals s).
Proof.
  intros Hh Hv Ht. unfold alloc, wp. simpl.
  destruct (heap_ok_alloc S (st_heap s) v t Hh Hv Ht) as (E & H1 & H2).
  eexists; split; [exact E|]. split; [exact H1|]. split; [exact H2|reflexivity].
Qed.

Lemma load_wp S s l t :
  heap_ok S (st_heap s) -> sfind S l = Some t ->
  wp (load l s) (fun v s' => s' = s /\ cell_ok S v t).
Proof.
  intros Hh Hl. unfold load. destruct (ho_cells _ _ Hh l t Hl) as (v & Hg & Hc). rewrite Hg. simpl; auto.
Qed.

Lemma heap_ok_store S h l v t :
  heap_ok S h -> sfind S l = Some t -> cell_ok S v t -> heap_ok S (hset h l v).
Proof.
  intros [Hc Hd Ht] Hl Hv. constructor; auto.
  intros l0 t0 H0. unfold hget, hset; simpl.
  destruct (Pos.eq_dec l0 l) as [->|Hne].
  - rewrite PositiveMap.gss. rewrite Hl in H0; inversion H0; subst. eauto.
  - rewrite PositiveMap.gso by auto. apply Hc; auto.
Qed.

Lemma store_wp S s l v t :
  heap_ok S (st_heap s) -> sfind S l = Some t -> cell_ok S v t ->
  wp (store l v s) (fun _ s' => heap_ok S (st_heap s') /\ st_globals s' = st_globals s).
Proof. intros. simpl. split; auto. eapply heap_ok_store; eauto. Qed.

(* ---------- value-level operations ---------- *)
Definition hpost {A} (S : sty) (g : frame) (R : sty -> A -> Prop) : A -> state -> Prop :=
  fun a s' => exists S', ext S S' /\ heap_ok S' (st_heap s') /\ st_globals s' = g /\ R S' a.

Ltac hdone S' :=
  exists S'; split; [eauto using ext_refl, ext_trans | split; [eassumption | split; [try reflexivity; try congruence | eauto]]].

Lemma ty_s1in_not_none t : ty_s1in t = true -> t <> TNone.
Proof. intros H E; subst; discriminate. Qed.

Lemma ty_s1in_value t : ty_s1in t = true -> ty_value t = true.
Proof. induction t; simpl; auto; discriminate. Qed.

Lemma ty_value_not_none t : ty_value t = true -> t <> TNone.
Proof. intros H E; subst; discriminate. Qed.

Ltac ok1t := unfold ty_ok1; case strict; reflexivity.

Lemma ok1_TNum : ty_ok1 TNum = true. Proof. ok1t. Qed.
Lemma ok1_TStr : ty_ok1 TStr = true. Proof. ok1t. Qed.
Lemma ok1_TBool : ty_ok1 TBool = true. Proof. ok1t. Qed.
Lemma ok1_TAny : ty_ok1 TAny = true. Proof. ok1t. Qed.
Lemma ok1_TNone : ty_ok1 TNone = true. Proof. ok1t. Qed.
Lemma ok1_TEmptyArr : ty_ok1 TEmptyArr = true. Proof. ok1t. Qed.
Lemma ok1_TEmptyMap : ty_ok1 TEmptyMap = true. Proof. ok1t. Qed.
Hint Resolve ok1_TNum ok1_TStr ok1_TBool ok1_TAny ok1_TNone ok1_TEmptyArr ok1_TEmptyMap : core.

Lemma ok1_small t : strict = true -> ty_ok1 t = true -> ty_small t = true.
Proof. unfold ty_ok1. intros ->. intros H; apply andb_true_iff in H; tauto. Qed.

Lemma ok1_dyn t : ty_ok1 t = true -> ty_value t = true \/ t = TNone.
Proof.
  unfold ty_ok1. destruct strict; intros H.
  - apply andb_true_iff in H as [H _]. apply orb_true_iff in H as [H|H].
    + left. destruct t; simpl in *; auto using ty_s1in_value; discriminate.
    + right. destruct t; simpl in *; auto; discriminate.
  - apply orb_true_iff in H as [H|H]; auto. right. destruct t; simpl in *; auto; discriminate.
Qed.

Lemma ok1_s1in t : strict = true -> ty_ok1 t = true -> t <> TAny -> t <> TNone -> ty_s1in t = true.
Proof.
  unfold ty_ok1. intros -> H N1 N2. apply andb_true_iff in H as [H _]. apply orb_true_iff in H as [H|H].
  - destruct t; simpl in *; auto; congruence.
  - destruct t; simpl in *; try discriminate; congruence.
Qed.

Lemma ok1_elem t u : (t = TArr u \/ t = TMap u) -> ty_ok1 t = true -> ty_ok1 u = true /\ u <> TNone.
Proof.
  unfold ty_ok1, ty_small. intros Ht H. destruct strict.
  - apply andb_true_iff in H as [H1 H2]. apply Nat.leb_le in H2.
    assert (ty_s1in u = true /\ (ty_depth u <= max_ty_depth)%nat) as [Hs Hd].
    { destruct Ht as [->| ->]; simpl in *; rewrite orb_false_r in H1; split; auto; lia. }
    split; [|intros ->; discriminate].
    apply andb_true_iff; split; [|apply Nat.leb_le; auto].
    apply orb_true_iff; left. destruct u; simpl in *; auto; discriminate.
  - assert (ty_value u = true) by (destruct Ht as [->| ->]; simpl in *; rewrite orb_false_r in H; auto).
    split; [apply orb_true_iff; auto|auto using ty_value_not_none].
Qed.

Lemma ty_ann_fr_ok1 t : ty_ann t = true -> fr_tyin strict t = true -> ty_ok1 t = true.
Proof.
  unfold ty_ann, ty_ok1, fr_tyin. intros H1 H2. apply andb_true_iff in H1 as [H0 H1]. destruct strict.
  - rewrite H1, andb_true_r. apply orb_true_iff; left. destruct t; simpl in *; auto; discriminate.
  - apply orb_true_iff; auto.
Qed.

Lemma fr_tyin_elem t u : (t = TArr u \/ t = TMap u) -> fr_tyin strict t = true -> fr_tyin strict u = true.
Proof. unfold fr_tyin. destruct strict; auto. intros [->| ->]; auto. Qed.

Lemma copy_or_ref_wp d : forall S s l t,
  heap_ok S (st_heap s) -> sfind S l = Some t -> t <> TNone ->
  wp (copy_or_ref d l s) (hpost S (st_globals s) (fun S' l' => sfind S' l' = Some t)).
Proof.
  induction d as [|d IH]; intros S s l t Hh Hl Hn; [exact I|].
  cbn [copy_or_ref].
  wbind ltac:(eapply load_wp; eauto). intros v s' [-> Hc].
  pose proof (ho_tys _ _ Hh _ _ Hl) as Hok.
  inversion Hc; subst.
  - eapply wp_mono; [eapply alloc_wp; eauto|]. cbv beta. intros l' s' (S' & E & H1 & H2 & H3).
    exists S'; auto.
  - eapply wp_mono; [eapply alloc_wp; eauto|]. cbv beta. intros l' s' (S' & E & H1 & H2 & H3).
    exists S'; auto.
  - eapply wp_mono; [eapply alloc_wp; eauto|]. cbv beta. intros l' s' (S' & E & H1 & H2 & H3).
    exists S'; auto.
  - wbind ltac:(eapply (IH S s i u); eauto).
    intros i' s1 (S1 & E1 & Hh1 & Hg1 & Hi1).
    eapply wp_mono; [eapply alloc_wp with (t := TAny); eauto; constructor; eauto|]. cbv beta.
    intros l' s' (S' & E & Hx1 & Hx2 & Hx3).
    hdone S'.
  - apply wp_ret. hdone S.
  - apply wp_ret. hdone S.
  - apply wp_ret. hdone S.
  - apply wp_ret. hdone S.
  - congruence.
Qed.

Lemma mapM_wp {A B} (f : A -> M B) (Pa : sty -> A -> Prop) (R : sty -> A -> B -> Prop) g :
  (forall S S' a, ext S S' -> Pa S a -> Pa S' a) ->
  (forall S S' a b, ext S S' -> R S a b -> R S' a b) ->
  (forall S s a, heap_ok S (st_heap s) -> st_globals s = g -> Pa S a ->
      wp (f a s) (hpost S g (fun S' b => R S' a b))) ->
  forall l S s, heap_ok S (st_heap s) -> st_globals s = g -> Forall (Pa S) l ->
    wp (mapM f l s) (hpost S g (fun S' bs => Forall2 (R S') l bs)).
Proof.
  intros MP MR Hf. induction l as [|a l IH]; intros S s Hh Hg Hall; cbn [mapM].
  - apply wp_ret. hdone S.
  - inversion Hall; subst.
    wbind ltac:(eapply Hf; eauto). intros b s1 (S1 & E1 & Hh1 & Hg1 & Hr1).
    wbind ltac:(eapply (IH S1 s1); eauto; eapply Forall_impl; [|eassumption]; cbv beta; eauto).
    intros bs s2 (S2 & E2 & Hh2 & Hg2 & Hr2).
    apply wp_ret. hdone S2.
Qed.

Lemma mapM_pure {A B} (f : A -> M B) l s :
  (forall a, In a l -> wp (f a s) (fun _ s' => s' = s)) -> wp (mapM f l s) (fun _ s' => s' = s).
Proof.
  induction l as [|a l IH]; intros H; cbn [mapM]; [reflexivity|].
  wbind ltac:(apply H; left; reflexivity). intros b s1 ->.
  wbind ltac:(apply IH; intros; apply H; right; assumption). intros bs s1 ->.
  reflexivity.
Qed.

(* [d] levels of recursion suffice to walk a value of type t *)
Definition deep_ok (t : ty) (d : nat) : Prop :=
  (t = TAny /\ (S max_ty_depth < d)%nat) \/ ((ty_s1in t = true \/ t = TNone) /\ (ty_depth t < d)%nat).

Lemma ty_small_le t : ty_small t = true -> (ty_depth t <= max_ty_depth)%nat.
Proof. unfold ty_small. apply Nat.leb_le. Qed.

Lemma strict_cases : strict = true \/ strict = false.
Proof. case strict; auto. Qed.

Lemma deep_ok_elem t u d :
  (t = TArr u \/ t = TMap u) -> (strict = true -> deep_ok t (S d)) -> strict = true -> deep_ok u d.
Proof.
  intros Ht H Hs. destruct (H Hs) as [[Hx _]|[[Hx|Hx] Hy]]; destruct Ht; subst; try discriminate;
    (right; split; [left; exact Hx|simpl in Hy; lia]).
Qed.

Lemma deep_ok_any St h i u d :
  heap_ok St h -> sfind St i = Some u -> u <> TAny -> u <> TNone ->
  (strict = true -> deep_ok TAny (S d)) -> strict = true -> deep_ok u d.
Proof.
  intros Hh Hi N1 N2 H Hs. pose proof (ho_tys _ _ Hh _ _ Hi) as Hok.
  right; split; [left; eauto using ok1_s1in|].
  pose proof (ty_small_le _ (ok1_small _ Hs Hok)).
  destruct (H Hs) as [[_ Hx]|[[Hx|Hx] _]]; try discriminate. lia.
Qed.

Lemma overflow_wp {A} (w : string) s (Q : A -> state -> Prop) d t :
  overflow_reason (s_ w) -> (strict = true -> deep_ok t d) -> d = O -> wp (crash w s) Q.
Proof.
  intros Hw Hd ->. unfold crash, fail, wp, safe_err. destruct strict_cases as [Es|Es].
  - destruct (Hd Es) as [[_ H]|[_ H]]; lia.
  - auto.
Qed.

Lemma show_wp d : forall S s r l t,
  heap_ok S (st_heap s) -> sfind S l = Some t -> (strict = true -> deep_ok t d) ->
  wp (show d r l s) (fun _ s' => s' = s).
Proof.
  induction d as [|d IH]; intros S s r l t Hh Hl Hd.
  { cbn [show]. eapply overflow_wp; eauto. left; reflexivity. }
  cbn [show].
  wbind ltac:(eapply load_wp; eauto). intros v s' [-> Hc].
  inversion Hc; subst.
  - reflexivity.
  - destruct r; [|reflexivity]. destruct (go_quote x); [reflexivity|exact I].
  - reflexivity.
  - eapply IH; eauto using deep_ok_any.
  - wbind ltac:(apply mapM_pure). 2:{ intros; subst; reflexivity. }
    intros a Ha.
    match goal with Hf : Forall _ els |- _ => rewrite Forall_forall in Hf; specialize (Hf a Ha) end.
    eapply IH; eauto using deep_ok_elem.
  - reflexivity.
  - (* map *)
    wbind ltac:(apply mapM_pure). 2:{ intros; subst; reflexivity. }
    intros k Hk.
    match goal with HI : Inv m |- _ => destruct (map_order_has m k HI Hk) as (i & Hi) end. rewrite Hi.
    wbind ltac:(eapply IH; eauto using map_entry_typed, deep_ok_elem). intros; subst; reflexivity.
  - match goal with Ho : order m = [] |- _ => rewrite Ho end. reflexivity.
  - reflexivity.
Qed.

Lemma shape_compat t u :
  ty_value t = true -> ty_value u = true -> ty_eqb (ty_shape t) (ty_shape u) = true -> ty_compat t u = true.
Proof.
  revert u; induction t; intros u Ht Hu H; destruct u; simpl in *; try discriminate; auto.
Qed.

Section EqGo.
  Context (eqf : loc -> loc -> M bool) (s : state).
  Lemma eq_go_pure : forall xs ys,
    (forall x y, In x xs -> In y ys -> wp (eqf x y s) (fun _ s' => s' = s)) ->
    wp ((fix go (xs ys : list loc) : M bool :=
           match xs, ys with
           | x :: xt, y :: yt => let* e := eqf x y in if e then go xt yt else ret false
           | _, _ => ret true
           end) xs ys s) (fun _ s' => s' = s).
  Proof.
    induction xs as [|x xs IH]; intros ys H; [reflexivity|].
    destruct ys as [|y ys]; [reflexivity|].
    wbind ltac:(apply H; left; reflexivity). intros e s1 ->.
    destruct e; [|reflexivity]. apply IH. intros; apply H; right; assumption.
  Qed.
End EqGo.

Section EqMapGo.
  Context (eqf : loc -> loc -> M bool) (s : state) (p2 : list (str * loc)).
  Lemma eq_mgo_pure : forall ps,
    (forall k i j, In (k, i) ps -> plookup k p2 = Some j -> wp (eqf i j s) (fun _ s' => s' = s)) ->
    wp ((fix go (ps : list (str * loc)) : M bool :=
           match ps with
           | [] => ret true
           | (k, i) :: t =>
               match plookup k p2 with
               | None => ret false
               | Some j => let* e := eqf i j in if e then go t else ret false
               end
           end) ps s) (fun _ s' => s' = s).
  Proof.
    induction ps as [|[k i] ps IH]; intros H; [reflexivity|].
    destruct (plookup k p2) as [j|] eqn:Ej; [|reflexivity].
    wbind ltac:(eapply H; [left; reflexivity|exact Ej]). intros e s1 ->.
    destruct e; [|reflexivity]. apply IH. intros; eapply H; eauto. right; assumption.
  Qed.
End EqMapGo.

Lemma equals_wp d : forall S s a b ta tb,
  heap_ok S (st_heap s) -> sfind S a = Some ta -> sfind S b = Some tb ->
  ty_compat ta tb = true -> (strict = true -> deep_ok ta d) -> (strict = true -> deep_ok tb d) ->
  wp (equals d a b s) (fun _ s' => s' = s).
Proof.
  induction d as [|d IH]; intros S s a b ta tb Hh Ha Hb Hc Hda Hdb.
  { cbn [equals]. eapply overflow_wp; eauto. right; left; reflexivity. }
  cbn [equals].
  wbind ltac:(eapply load_wp; eauto). intros va s' [-> Hva].
  wbind ltac:(eapply load_wp; eauto). intros vb s' [-> Hvb].
  assert (VAL : forall i u, sfind S i = Some u -> u <> TNone -> ty_value u = true).
  { intros i u Hi Hn. destruct (ok1_dyn _ (ho_tys _ _ Hh _ _ Hi)); congruence. }
  inversion Hva; subst; inversion Hvb; subst; simpl in Hc; try discriminate; try reflexivity.
  - (* any / any *)
    destruct (ty_eqb (ty_shape u) (ty_shape u0)) eqn:Hs; [|reflexivity].
    eapply IH; eauto using shape_compat, deep_ok_any.
  - (* arr / arr *)
    destruct (negb (Nat.eqb (List.length els) (List.length els0))); [reflexivity|].
    apply eq_go_pure. intros x y Hx Hy.
    match goal with H1 : Forall _ els, H2 : Forall _ els0 |- _ => rewrite Forall_forall in H1, H2;
      pose proof (H1 _ Hx); pose proof (H2 _ Hy) end.
    eapply IH; eauto using deep_ok_elem.
  - (* arr / empty *)
    destruct (negb (Nat.eqb (List.length els) (List.length (@nil loc)))); [reflexivity|].
    apply eq_go_pure. intros x y Hx [].
  - (* empty / arr *)
    destruct (negb (Nat.eqb (List.length (@nil loc)) (List.length els))); reflexivity.
  - (* map / map *)
    match goal with |- context [if ?c then _ else _] => destruct c; [reflexivity|] end.
    apply eq_mgo_pure. intros k i j Hin Hj.
    match goal with HF : Forall _ (pairs m) |- _ => rewrite Forall_forall in HF; pose proof (HF _ Hin) as Hti end.
    simpl in Hti.
    eapply IH; eauto using map_entry_typed, deep_ok_elem.
  - (* map / empty map *)
    match goal with |- context [if ?c then _ else _] => destruct c; [reflexivity|] end.
    apply eq_mgo_pure. intros k i j Hin Hj.
    match goal with Hp : pairs m0 = [] |- _ => rewrite Hp in Hj end. discriminate.
  - (* empty map / map *)
    match goal with |- context [if ?c then _ else _] => destruct c; [reflexivity|] end.
    match goal with Hp : pairs m = [] |- _ => rewrite Hp end. reflexivity.
  - (* empty map / empty map *)
    match goal with |- context [if ?c then _ else _] => destruct c; [reflexivity|] end.
    match goal with Hp : pairs m = [] |- _ => rewrite Hp end. reflexivity.
Qed.

(* same(want, got) of the test built-in: walks [got] *)
Lemma same_wp d : forall S s w g tw tg,
  heap_ok S (st_heap s) -> sfind S w = Some tw -> sfind S g = Some tg ->
  (strict = true -> deep_ok tg d) ->
  wp (same d w g s) (fun _ s' => s' = s).
Proof.
  induction d as [|d IH]; intros S s w g tw tg Hh Hw Hg Hd.
  { cbn [same]. eapply overflow_wp; eauto. right; right; right; reflexivity. }
  cbn [same].
  wbind ltac:(eapply load_wp; eauto). intros vg s' [-> Hvg].
  wbind ltac:(eapply load_wp; eauto). intros vw s' [-> Hvw].
  inversion Hvg; subst.
  - destruct vw; reflexivity.
  - destruct vw; reflexivity.
  - destruct vw; reflexivity.
  - (* got is an any *)
    assert (Hdi : strict = true -> deep_ok u d) by eauto using deep_ok_any.
    inversion Hvw; subst; eapply IH; eauto.
  - (* got is an array *)
    inversion Hvw; subst; try reflexivity.
    + match goal with |- context [if ?c then _ else _] => destruct c; [reflexivity|] end.
      apply eq_go_pure. intros x y Hx Hy.
      match goal with H1 : Forall _ els, H2 : Forall _ els0 |- _ => rewrite Forall_forall in H1, H2;
        pose proof (H1 _ Hy); pose proof (H2 _ Hx) end.
      eapply IH; eauto using deep_ok_elem.
    + match goal with |- context [if ?c then _ else _] => destruct c; reflexivity end.
  - (* got is the untyped [] *)
    inversion Hvw; subst; try reflexivity;
      try (match goal with |- context [if ?c then _ else _] => destruct c; [reflexivity|] end);
      try reflexivity; try (apply eq_go_pure; intros x y Hx []).
  - (* got is a map *)
    inversion Hvw; subst; try reflexivity.
    + match goal with |- context [if ?c then _ else _] => destruct c; [reflexivity|] end.
      apply eq_mgo_pure. intros k i j Hin Hj.
      match goal with HF : Forall _ (pairs m0) |- _ => rewrite Forall_forall in HF; pose proof (HF _ Hin) as Hti end.
      simpl in Hti. eapply IH; eauto using map_entry_typed, deep_ok_elem.
    + match goal with |- context [if ?c then _ else _] => destruct c; [reflexivity|] end.
      match goal with Hp : pairs m0 = [] |- _ => rewrite Hp end. reflexivity.
  - (* got is the untyped {} *)
    inversion Hvw; subst; try reflexivity.
    + match goal with |- context [if ?c then _ else _] => destruct c; [reflexivity|] end.
      apply eq_mgo_pure. intros k i j Hin Hj.
      match goal with Hp : pairs m = [] |- _ => rewrite Hp in Hj end. discriminate.
    + match goal with |- context [if ?c then _ else _] => destruct c; [reflexivity|] end.
      match goal with Hp : pairs m0 = [] |- _ => rewrite Hp end. reflexivity.
  - destruct vw; reflexivity.
Qed.

(* deepCopy: [dc_ok t d]: in the strict fragment the copy of a value of type t needs at most d levels *)
Definition dc_ok (t : ty) (d : nat) : Prop := strict = true -> deep_ok t d.

Lemma deep_copy_wp d : forall S s l t,
  heap_ok S (st_heap s) -> sfind S l = Some t -> t <> TNone -> dc_ok t d ->
  wp (deep_copy d l s) (hpost S (st_globals s) (fun S' l' => sfind S' l' = Some t)).
Proof.
  induction d as [|d IH]; intros S s l t Hh Hl Hn Hd.
  { cbn [deep_copy]. eapply overflow_wp; eauto. right; right; left; reflexivity. }
  cbn [deep_copy].
  wbind ltac:(eapply load_wp; eauto). intros v s' [-> Hc].
  pose proof (ho_tys _ _ Hh _ _ Hl) as Hok.
  inversion Hc; subst; try congruence.
  - eapply wp_mono; [eapply alloc_wp; eauto|]. cbv beta. intros l' s' (S' & E & Hx1 & Hx2 & Hx3).
    exists S'; auto.
  - eapply wp_mono; [eapply alloc_wp; eauto|]. cbv beta. intros l' s' (S' & E & Hx1 & Hx2 & Hx3).
    exists S'; auto.
  - eapply wp_mono; [eapply alloc_wp; eauto|]. cbv beta. intros l' s' (S' & E & Hx1 & Hx2 & Hx3).
    exists S'; auto.
  - (* any *)
    wbind ltac:(eapply (IH S s i u); eauto; unfold dc_ok in *; eauto using deep_ok_any).
    intros i' s1 (S1 & E1 & Hh1 & Hg1 & Hi1).
    eapply wp_mono; [eapply alloc_wp with (t := TAny); eauto; constructor; eauto|]. cbv beta.
    intros l' s' (S' & E & Hx1 & Hx2 & Hx3). hdone S'.
  - (* array *)
    destruct (ok1_elem (TArr u) u (or_introl eq_refl) Hok) as [Hoku Hnu].
    wbind ltac:(eapply (mapM_wp (deep_copy d) (fun S a => sfind S a = Some u)
                          (fun S a b => sfind S b = Some u) (st_globals s)); eauto).
    1:{ intros S0 s0 a Hh0 Hg0 Ha. rewrite <- Hg0. eapply IH; eauto.
        unfold dc_ok in *; eauto using deep_ok_elem. }
    intros els' s1 (S1 & E1 & Hh1 & Hg1 & Hr1).
    eapply wp_mono; [eapply alloc_wp with (t := TArr u) (S := S1); eauto|].
    { constructor. clear -Hr1. induction Hr1; constructor; auto. }
    cbv beta. intros l' s' (S' & E & Hx1 & Hx2 & Hx3).
    hdone S'.
  - cbn [mapM]. unfold bindM at 1. cbn [ret].
    eapply wp_mono; [eapply alloc_wp with (t := TEmptyArr); eauto; constructor|].
    cbv beta. intros l' s' (S' & E & Hx1 & Hx2 & Hx3).
    exists S'; auto.
  - (* map *)
    destruct (ok1_elem (TMap u) u (or_intror eq_refl) Hok) as [Hoku Hnu].
    match goal with HI : Inv m, HF : Forall _ (pairs m) |- _ => rename HI into HInv; rename HF into HFm end.
    wbind ltac:(eapply (mapM_wp
        (fun k => match plookup k (pairs m) with
                  | Some i => let* i' := deep_copy d i in ret (k, i')
                  | None => crash "nil map entry"
                  end)
        (fun S k => exists i, plookup k (pairs m) = Some i /\ sfind S i = Some u)
        (fun S k kv => fst kv = k /\ sfind S (snd kv) = Some u) (st_globals s)); eauto).
    + intros S1 S2 k E12 (i & H1 & H2). eauto.
    + intros S1 S2 k kv E12 [H1 H2]. auto.
    + intros S0 s0 k Hh0 Hg0 (i & Hi & Hti). rewrite Hi.
      wbind ltac:(eapply (IH S0 s0 i u); eauto; unfold dc_ok in *; eauto using deep_ok_elem).
      intros i' s1 (S1 & E1 & Hh1 & Hg1 & Hi1). apply wp_ret. hdone S1.
    + rewrite Forall_forall. intros k Hk. destruct (map_order_has m k HInv Hk) as (i & Hi).
      eauto using map_entry_typed.
    + intros ps s1 (S1 & E1 & Hh1 & Hg1 & Hr1).
      assert (Hk : map fst ps = order m /\ Forall (fun kv => sfind S1 (snd kv) = Some u) ps).
      { clear -Hr1. induction Hr1 as [|k kv o ps [H1 H2] _ [I1 I2]]; simpl; [auto|]. split; [congruence|auto]. }
      destruct Hk as [Hk1 Hk2].
      eapply wp_mono; [eapply alloc_wp with (t := TMap u) (S := S1); eauto|].
      { constructor; simpl; auto. destruct HInv as (N1 & _ & _).
        unfold Inv, keys; simpl. rewrite Hk1. repeat split; auto. }
      cbv beta. intros l' s' (S' & E & Hx1 & Hx2 & Hx3). hdone S'.
  - match goal with Ho : order m = [] |- _ => rewrite Ho end.
    cbn [mapM]. unfold bindM at 1. cbn [ret].
    eapply wp_mono; [eapply alloc_wp with (t := TEmptyMap); eauto; constructor; auto|].
    cbv beta. intros l' s' (S' & E & Hx1 & Hx2 & Hx3).
    exists S'; auto.
Qed.

(* ---------- frames ---------- *)
Lemma str_eqb_sym a b : str_eqb a b = str_eqb b a.
Proof.
  destruct (str_eqb a b) eqn:E.
  - apply str_eqb_eq in E; subst. symmetry; apply str_eqb_refl.
  - symmetry. apply str_eqb_neq. apply str_eqb_neq in E. congruence.
Qed.

Lemma frame_get_replace_same n l f : frame_get n f <> None -> frame_get n (frame_replace n l f) = Some l.
Proof.
  induction f as [|[k l0] f IH]; simpl; [congruence|].
  destruct (str_eqb k n) eqn:E; simpl; rewrite E; auto.
Qed.

Lemma frame_get_replace_other n k l f : k <> n -> frame_get k (frame_replace n l f) = frame_get k f.
Proof.
  intros Hne. induction f as [|[k0 l0] f IH]; simpl; auto.
  destruct (str_eqb k0 n) eqn:E; simpl.
  - apply str_eqb_eq in E; subst k0.
    destruct (str_eqb n k) eqn:E2; auto. apply str_eqb_eq in E2; congruence.
  - destruct (str_eqb k0 k); auto.
Qed.

Lemma frame_get_set_same n l f : frame_get n (frame_set n l f) = Some l.
Proof.
  unfold frame_set. destruct (frame_get n f) eqn:E.
  - apply frame_get_replace_same; congruence.
  - simpl. rewrite str_eqb_refl. reflexivity.
Qed.

Lemma frame_get_set_other n k l f : k <> n -> frame_get k (frame_set n l f) = frame_get k f.
Proof.
  intros Hne. unfold frame_set. destruct (frame_get n f).
  - apply frame_get_replace_other; auto.
  - simpl. destruct (str_eqb n k) eqn:E; auto. apply str_eqb_eq in E; congruence.
Qed.

Lemma frame_ok_decl S sf df n t l :
  frame_ok S sf df -> sfind S l = Some t -> sget n sf = None ->
  frame_ok S ((n, t) :: sf) (frame_set n l df).
Proof.
  intros [H1 H2] Hl Hn; split.
  - intros k t0. simpl. destruct (str_eqb n k) eqn:E.
    + apply str_eqb_eq in E; subst k. intros H; inversion H; subst.
      exists l; split; auto using frame_get_set_same.
    + intros Hk. rewrite frame_get_set_other; auto.
      apply str_eqb_neq in E; congruence.
  - intros k l0. simpl. destruct (str_eqb n k) eqn:E; [discriminate|].
    apply str_eqb_neq in E. rewrite frame_get_set_other by congruence. eauto.
Qed.

Lemma frame_ok_replace S sf df n t l :
  frame_ok S sf df -> sfind S l = Some t -> sget n sf = Some t -> frame_ok S sf (frame_replace n l df).
Proof.
  intros [H1 H2] Hl Hs; split.
  - intros k t0 Hk. destruct (str_eq_dec k n) as [->|Hne].
    + rewrite Hk in Hs. inversion Hs; subst. destruct (H1 _ _ Hk) as (l0 & Hl0 & _).
      exists l; split; auto. apply frame_get_replace_same. congruence.
    + rewrite frame_get_replace_other by auto. auto.
  - intros k l0 Hk. destruct (str_eq_dec k n) as [->|Hne]; [congruence|].
    rewrite frame_get_replace_other in Hk by auto. eauto.
Qed.

Lemma frame_get_replace_none n k l f : frame_get k f <> None -> frame_get k (frame_replace n l f) <> None.
Proof.
  intros H. destruct (str_eq_dec k n) as [->|Hne].
  - rewrite frame_get_replace_same; congruence.
  - rewrite frame_get_replace_other; auto.
Qed.

Lemma frame_get_set_none n k l f : frame_get k f <> None -> frame_get k (frame_set n l f) <> None.
Proof.
  intros H. destruct (str_eq_dec k n) as [->|Hne].
  - rewrite frame_get_set_same; congruence.
  - rewrite frame_get_set_other; auto.
Qed.

Lemma globals_ok_replace S g n t l :
  globals_ok S g -> sget n Gg = Some t -> sfind S l = Some t -> frame_get n g <> None ->
  globals_ok S (frame_replace n l g).
Proof.
  intros (H1 & H2 & H3) Hs Hl Hn. split; [|split; apply frame_get_replace_none; auto].
  intros k l0 Hk. destruct (str_eq_dec k n) as [->|Hne].
  - rewrite frame_get_replace_same in Hk by auto. inversion Hk; subst. eauto.
  - rewrite frame_get_replace_other in Hk by auto. eauto.
Qed.

Lemma globals_ok_set S g n t l :
  globals_ok S g -> sget n Gg = Some t -> sfind S l = Some t -> globals_ok S (frame_set n l g).
Proof.
  intros (H1 & H2 & H3) Hs Hl. split; [|split; apply frame_get_set_none; auto].
  intros k l0 Hk. destruct (str_eq_dec k n) as [->|Hne].
  - rewrite frame_get_set_same in Hk. inversion Hk; subst. eauto.
  - rewrite frame_get_set_other in Hk by auto. eauto.
Qed.

Lemma env_update_length n l e e' : env_update n l e = Some e' -> List.length e' = List.length e.
Proof.
  revert e'; induction e as [|f e IH]; simpl; intros e' H; [discriminate|].
  destruct (frame_get n f); [inversion H; reflexivity|].
  destruct (env_update n l e); simpl in H; inversion H; subst. simpl; f_equal; auto.
Qed.

(* rebinding in the local frames *)
Lemma env_update_locals S G e g n t l e' :
  env_ok S G e g -> slookup n G = Some t -> sfind S l = Some t ->
  env_update n l e = Some e' -> env_ok S G e' g.
Proof.
  intros H; revert e'. induction H as [gs g Hsub Hg|sf G df e g Hf He IH]; intros e' Hs Hl Hu; simpl in *; [discriminate|].
  destruct (frame_get n df) as [l0|] eqn:Hd.
  - inversion Hu; subst. constructor; auto.
    destruct Hf as [H1 H2]. destruct (sget n sf) as [t0|] eqn:Hsf; [|exfalso; eapply H2; eauto].
    inversion Hs; subst. eapply frame_ok_replace; eauto. split; auto.
  - destruct (env_update n l e) as [e1|] eqn:Hu'; simpl in Hu; inversion Hu; subst.
    constructor; auto. apply IH; auto.
    destruct (sget n sf) as [t0|] eqn:Hsf; auto.
    destruct Hf as [H1 _]. destruct (H1 _ _ Hsf) as (l0 & Hl0 & _). congruence.
Qed.

(* no local frame binds the name: the checker resolved it in the global frame *)
Lemma env_update_none S G e g n t l :
  env_ok S G e g -> slookup n G = Some t -> env_update n l e = None -> sget n Gg = Some t.
Proof.
  induction 1 as [gs g Hsub Hg|sf G df e g Hf He IH]; simpl.
  - destruct (sget n gs) eqn:Hs; [|discriminate]. intros Ht _; inversion Ht; subst. auto.
  - intros Hs Hu. destruct (frame_get n df) eqn:Hd; [discriminate|].
    destruct (env_update n l e); [discriminate|].
    destruct (sget n sf) as [t0|] eqn:Hsf; auto.
    destruct Hf as [H1 _]. destruct (H1 _ _ Hsf) as (l0 & Hl0 & _). congruence.
Qed.

Lemma update_var_ok S G e s n t l :
  inv S G e s -> slookup n G = Some t -> sfind S l = Some t ->
  wp (update_var n l e s) (fun e' s' => inv S G e' s' /\ List.length e' = List.length e).
Proof.
  intros [Hh He] Hs Hl. unfold update_var.
  destruct (str_eqb n underscore); [simpl; split; [split|]; auto|].
  destruct (env_update n l e) as [e'|] eqn:Hu.
  - simpl. split; [split; eauto using env_update_locals|eauto using env_update_length].
  - destruct (frame_get n (st_globals s)) eqn:Hg; [|exact I].
    simpl. split; auto. split; auto.
    eapply env_ok_reglob; eauto. eapply globals_ok_replace; eauto using env_ok_globals, env_update_none.
    congruence.
Qed.

(* a declaration in the current scope *)
Lemma set_var_ok S sf G0 e s n t l :
  inv S (sf :: G0) e s -> sfind S l = Some t -> sget n sf = None -> str_eqb n underscore = false ->
  (G0 = [] -> sframe_sub ((n, t) :: sf) Gg) ->
  wp (set_var n l e s) (fun e' s' => inv S (((n, t) :: sf) :: G0) e' s' /\ List.length e' = List.length e).
Proof.
  intros [Hh He] Hl Hn Hus Hsub. unfold set_var. rewrite Hus.
  inversion He; subst.
  - simpl. split; auto. split; auto. constructor; auto.
    eapply globals_ok_set; eauto. apply (Hsub eq_refl). simpl. rewrite str_eqb_refl. reflexivity.
  - simpl. split; auto. split; auto. constructor; auto using frame_ok_decl.
Qed.

Lemma env_ok_push S G e g : env_ok S G e g -> env_ok S (push G) ([] :: e) g.
Proof. intros H. constructor; auto. split; simpl; intros; discriminate. Qed.

Lemma env_ok_pop S sf G e g :
  env_ok S (sf :: G) e g -> G <> [] -> env_ok S G (tl e) g /\ e <> [].
Proof.
  intros H HG. inversion H; subst; [congruence|]. simpl. split; auto. discriminate.
Qed.

(* growth of the top static frame by declarations *)
Inductive fgrows (sf0 : sframe) : sframe -> Prop :=
| FG_refl : fgrows sf0 sf0
| FG_decl sf n t : fgrows sf0 sf -> sget n sf = None -> binder_ok n = true -> fgrows sf0 ((n, t) :: sf).

Definition grows (G G' : tyenv) : Prop :=
  exists sf0 sf T, G = sf0 :: T /\ G' = sf :: T /\ fgrows sf0 sf.

Lemma fgrows_trans a c d : fgrows a c -> fgrows c d -> fgrows a d.
Proof. intros H1 H2; induction H2; auto. constructor; auto. Qed.

Lemma grows_refl G : G <> [] -> grows G G.
Proof. destruct G as [|sf T]; [congruence|]. intros _. exists sf, sf, T; repeat split; constructor. Qed.

Lemma grows_trans G1 G2 G3 : grows G1 G2 -> grows G2 G3 -> grows G1 G3.
Proof.
  intros (a & c & T & -> & -> & H1) (c' & d & T' & E & -> & H2).
  inversion E; subst. exists a, d, T'; repeat split; eauto using fgrows_trans.
Qed.

Lemma ty_eqb_eq a b : ty_eqb a b = true -> a = b.
Proof. revert b; induction a; destruct b; simpl; intros H; try discriminate; auto; f_equal; auto. Qed.

Lemma ty_eqb_refl a : ty_eqb a a = true.
Proof. induction a; simpl; auto. Qed.

(* err / errmsg resolve to the built-in globals; the program's functions check against the globals *)
Definition funcs_ok (P : program) : Prop :=
  forall fd, In fd (p_funcs P) -> wt_func (p_funcs P) Gg fd = true /\ s1_func strict fd = true.

Definition genv_ok (P : program) (G : tyenv) : Prop :=
  slookup n_err G = Some TBool /\ slookup n_errmsg G = Some TStr /\ funcs_ok P.

Lemma binder_not_reserved n : binder_ok n = true -> n <> n_err /\ n <> n_errmsg /\ str_eqb n underscore = false.
Proof.
  unfold binder_ok. intros H. apply andb_true_iff in H as [H1 H2].
  apply negb_true_iff in H1, H2. split; [|split]; auto.
  - intros ->. vm_compute in H2. discriminate.
  - intros ->. vm_compute in H2. discriminate.
Qed.

Lemma genv_ok_push P G : genv_ok P G -> genv_ok P (push G).
Proof. intros H; exact H. Qed.

Lemma sget_other n k t sf : n <> k -> sget k ((n, t) :: sf) = sget k sf.
Proof. intros H. simpl. destruct (str_eqb n k) eqn:E; auto. apply str_eqb_eq in E; congruence. Qed.

Lemma genv_ok_grows P G G' : grows G G' -> genv_ok P G -> genv_ok P G'.
Proof.
  intros (a & c & T & -> & -> & H) HG. induction H; auto.
  destruct IHfgrows as (I1 & I2 & I3). apply binder_not_reserved in H1 as (N1 & N2 & _).
  unfold genv_ok in *. cbn [slookup] in *. rewrite !sget_other by auto. auto.
Qed.

Lemma genv_ok_frame P G v vt : binder_ok v = true -> genv_ok P G -> genv_ok P ([(v, vt)] :: G).
Proof.
  intros Hb (H1 & H2 & H3). apply binder_not_reserved in Hb as (N1 & N2 & _).
  unfold genv_ok; simpl. destruct (str_eqb v n_err) eqn:E1; [apply str_eqb_eq in E1; congruence|].
  destruct (str_eqb v n_errmsg) eqn:E2; [apply str_eqb_eq in E2; congruence|]. auto.
Qed.

(* ---------- typed loads ---------- *)
Lemma load_num_wp S s l : heap_ok S (st_heap s) -> sfind S l = Some TNum -> wp (load_num l s) (fun _ s' => s' = s).
Proof.
  intros Hh Hl. unfold load_num. wbind ltac:(eapply load_wp; eauto). intros v s' [-> Hc].
  inversion Hc; subst. reflexivity.
Qed.
Lemma load_str_wp S s l : heap_ok S (st_heap s) -> sfind S l = Some TStr -> wp (load_str l s) (fun _ s' => s' = s).
Proof.
  intros Hh Hl. unfold load_str. wbind ltac:(eapply load_wp; eauto). intros v s' [-> Hc].
  inversion Hc; subst. reflexivity.
Qed.
Lemma load_bool_wp S s l : heap_ok S (st_heap s) -> sfind S l = Some TBool -> wp (load_bool l s) (fun _ s' => s' = s).
Proof.
  intros Hh Hl. unfold load_bool. wbind ltac:(eapply load_wp; eauto). intros v s' [-> Hc].
  inversion Hc; subst. reflexivity.
Qed.

Lemma value_depth_big : (S (S max_ty_depth) < value_depth)%nat.
Proof. unfold value_depth, max_ty_depth. lia. Qed.

Lemma deep_ok_of_ok1 t : strict = true -> ty_ok1 t = true -> deep_ok t value_depth.
Proof.
  intros Hs Hok. pose proof value_depth_big.
  unfold ty_ok1 in Hok. rewrite Hs in Hok. apply andb_true_iff in Hok as [H1 H2]. apply ty_small_le in H2.
  destruct t; simpl in H1; try discriminate;
    try (left; split; [reflexivity|lia]);
    try (right; split; [try rewrite orb_false_r in H1; auto|simpl in *; lia]).
Qed.

Lemma deep_ok_value S h l t : heap_ok S h -> sfind S l = Some t -> strict = true -> deep_ok t value_depth.
Proof. intros Hh Hl Hs. eapply deep_ok_of_ok1; eauto. eapply ho_tys; eauto. Qed.

(* ---------- inversion of the checker ---------- *)
Lemma opt_ty_eqb_eq o t : opt_ty_eqb o t = true -> o = Some t.
Proof. destruct o; simpl; [|discriminate]. intros H; apply ty_eqb_eq in H; congruence. Qed.

Lemma ty_ann_value t : ty_ann t = true -> ty_value t = true.
Proof. unfold ty_ann; intros H; apply andb_true_iff in H; tauto. Qed.

Lemma arg_ok_value p a : arg_ok p a = true -> ty_value a = true.
Proof.
  unfold arg_ok. destruct p; try (intros H; apply andb_true_iff in H as [_ H]; auto using ty_ann_value);
    destruct a; try discriminate; auto using ty_ann_value.
Qed.

Lemma ety_EArr F G t es : ety F G (EArr t es) =
      match es with
      | [] => match t with
              | TEmptyArr => Some t
              | TArr _ => if ty_ann t then Some t else None
              | _ => None end
      | _ :: _ =>
          match t, etys F G es with
          | TArr u, Some ts => if forallb (ty_eqb u) ts && ty_ann t then Some t else None
          | _, _ => None
          end
      end.
Proof. reflexivity. Qed.

Lemma ety_ECall F G name t args : ety F G (ECall name t args) =
      match lookup_sig F name, etys F G args with
      | Some sg, Some ts =>
          if sig_args_ok sg ts && ty_eqb (fs_ret sg) t then Some t else None
      | _, _ => None
      end.
Proof. reflexivity. Qed.

Lemma ety_ESlice F G t l lo hi : ety F G (ESlice t l lo hi) =
      match ety F G l with
      | Some a =>
          match a with
          | TArr _ | TEmptyArr | TStr => if ty_eqb a t && etyo F G lo && etyo F G hi then Some t else None
          | _ => None
          end
      | None => None
      end.
Proof. reflexivity. Qed.

Lemma ety_EMap F G t ps : ety F G (EMap t ps) =
      match ps with
      | [] => match t with
              | TEmptyMap => Some t
              | TMap _ => if ty_ann t then Some t else None
              | _ => None end
      | _ :: _ =>
          match t, etyps F G ps with
          | TMap u, Some ts =>
              if forallb (ty_eqb u) ts && ty_ann t && keys_nodup (map fst ps) then Some t else None
          | _, _ => None
          end
      end.
Proof. reflexivity. Qed.

Lemma s1_expr_EMap t ps : s1_expr strict (EMap t ps) = fr_tyin strict t && s1_pairs strict ps.
Proof. reflexivity. Qed.

Lemma keys_nodup_NoDup l : keys_nodup l = true -> NoDup l.
Proof.
  induction l as [|x l IH]; simpl; intros H; constructor; apply andb_true_iff in H as [H1 H2]; auto.
  apply negb_true_iff in H1. intros Hin. apply mem_str_In in Hin. congruence.
Qed.

Lemma s1_expr_EArr t es : s1_expr strict (EArr t es) = fr_tyin strict t && s1_exprs strict es.
Proof. reflexivity. Qed.
Lemma s1_expr_ECall name t args : s1_expr strict (ECall name t args) = call_frag name && s1_exprs strict args.
Proof. reflexivity. Qed.
Lemma s1_expr_ESlice t l lo hi : s1_expr strict (ESlice t l lo hi) = fr_tyin strict t && s1_expr strict l && s1_opt strict lo && s1_opt strict hi.
Proof. reflexivity. Qed.

(* ---------- invariant bookkeeping ---------- *)
Lemma inv_step S S' G e s s' :
  inv S G e s -> ext S S' -> heap_ok S' (st_heap s') -> st_globals s' = st_globals s -> inv S' G e s'.
Proof.
  intros [Hh He] E Hh' Hg. split; auto. unfold full in *. rewrite Hg. eauto using env_ok_ext.
Qed.

Lemma inv_same S G e s s' :
  inv S G e s -> st_heap s' = st_heap s -> st_globals s' = st_globals s -> inv S G e s'.
Proof. intros [Hh He] H1 H2. split; [rewrite H1; auto|unfold full in *; rewrite H2; auto]. Qed.

Definition epost (S : sty) (G : tyenv) (e : env) (t : ty) : loc -> state -> Prop :=
  fun l s' => exists S', ext S S' /\ inv S' G e s' /\ sfind S' l = Some t.

(* allocation of a result cell *)
Lemma alloc_epost S0 S G e s v t :
  ext S0 S -> inv S G e s -> cell_ok S v t -> ty_ok1 t = true -> wp (alloc v s) (epost S0 G e t).
Proof.
  intros E0 Hi Hv Ht. eapply wp_mono; [eapply alloc_wp; eauto; apply Hi|]. cbv beta.
  intros l s' (S' & E & Hh & Hl & Hg). exists S'; split; [eauto using ext_trans|]. split; auto.
  eapply inv_step; eauto.
Qed.

Lemma epost_weaken S0 S G e t l s : ext S0 S -> epost S G e t l s -> epost S0 G e t l s.
Proof. intros E (S' & E' & H). exists S'; split; eauto using ext_trans. Qed.



(* ---------- index arithmetic ---------- *)
Lemma normalize_index_lt f len k : normalize_index f len false = Ok k -> (k < len)%nat.
Proof.
  unfold normalize_index. destruct (go_int_exact f) as [i|]; [|discriminate].
  destruct ((i <? - Z.of_nat len) || (Z.of_nat len - 1 <? i)) eqn:E; [discriminate|].
  intros H; inversion H; subst. apply orb_false_iff in E as [E1 E2].
  apply Z.ltb_ge in E1, E2. destruct (i <? 0) eqn:E3; [apply Z.ltb_lt in E3|apply Z.ltb_ge in E3]; lia.
Qed.

Lemma normalize_index_safe f len b : match normalize_index f len b with Ok _ => True | Er er => safe_err er end.
Proof.
  unfold normalize_index. destruct (go_int_exact f); [|exact I].
  match goal with |- context [if ?c then _ else _] => destruct c end; exact I.
Qed.

Lemma lift_norm_wp f len b s (Q : nat -> state -> Prop) :
  (forall k, normalize_index f len b = Ok k -> Q k s) -> wp (lift (normalize_index f len b) s) Q.
Proof.
  intros H. unfold lift, wp. pose proof (normalize_index_safe f len b).
  destruct (normalize_index f len b); auto.
Qed.

Lemma slice_bounds_wp S s lo hi len :
  heap_ok S (st_heap s) ->
  (forall l, lo = Some l -> sfind S l = Some TNum) -> (forall l, hi = Some l -> sfind S l = Some TNum) ->
  wp (slice_bounds lo hi len s) (fun _ s' => s' = s).
Proof.
  intros Hh Hlo Hhi. unfold slice_bounds.
  apply wp_bind. destruct lo as [l|].
  - wbind ltac:(eapply load_num_wp; eauto). intros f s1 ->. apply lift_norm_wp. intros a _.
    apply wp_bind. destruct hi as [l2|].
    + wbind ltac:(eapply load_num_wp; eauto). intros f2 s1 ->. apply lift_norm_wp. intros b _.
      destruct (Nat.ltb b a); [exact I|reflexivity].
    + apply wp_ret. destruct (Nat.ltb len a); [exact I|reflexivity].
  - apply wp_ret. apply wp_bind. destruct hi as [l2|].
    + wbind ltac:(eapply load_num_wp; eauto). intros f2 s1 ->. apply lift_norm_wp. intros b _.
      destruct (Nat.ltb b 0); [exact I|reflexivity].
    + apply wp_ret. destruct (Nat.ltb len 0); [exact I|reflexivity].
Qed.

Lemma firstn_skipn_nil {A} n m : firstn n (skipn m (@nil A)) = [].
Proof. destruct n, m; reflexivity. Qed.

Lemma Forall_firstn {A} (P : A -> Prop) n l : Forall P l -> Forall P (firstn n l).
Proof. intros H; revert n; induction H; destruct n; simpl; constructor; auto. Qed.
Lemma Forall_skipn {A} (P : A -> Prop) n l : Forall P l -> Forall P (skipn n l).
Proof. intros H; revert n; induction H; destruct n; simpl; auto. Qed.

Lemma Forall2_same_ty (S : sty) ls u ts :
  Forall2 (fun l t => sfind S l = Some t) ls ts -> forallb (ty_eqb u) ts = true ->
  Forall (fun l => sfind S l = Some u) ls.
Proof.
  induction 1; simpl; intros Hf; constructor; apply andb_true_iff in Hf as [H1 H2]; auto.
  apply ty_eqb_eq in H1; congruence.
Qed.

Lemma Forall2_out (S : sty) (u : ty) (xs ys : list loc) :
  Forall2 (fun _ b => sfind S b = Some u) xs ys -> Forall (fun b => sfind S b = Some u) ys.
Proof. induction 1; constructor; auto. Qed.

Lemma Forall_ext_ty (S S' : sty) u ls : ext S S' ->
  Forall (fun l => sfind S l = Some u) ls -> Forall (fun l => sfind S' l = Some u) ls.
Proof. intros E H. eapply Forall_impl; [|exact H]. cbv beta; auto. Qed.

(* copies of a list of cells of one type *)
Lemma mapM_copy_wp S s d u ls :
  heap_ok S (st_heap s) -> u <> TNone -> Forall (fun l => sfind S l = Some u) ls ->
  wp (mapM (copy_or_ref d) ls s)
     (hpost S (st_globals s) (fun S' ls' => Forall (fun l => sfind S' l = Some u) ls')).
Proof.
  intros Hh Hu Hall.
  eapply wp_mono.
  - eapply (mapM_wp (copy_or_ref d) (fun S a => sfind S a = Some u) (fun S a b => sfind S b = Some u));
      eauto.
    intros S0 s0 a Hh0 Hg0 Ha. rewrite <- Hg0. eapply copy_or_ref_wp; eauto.
  - cbv beta. intros ls' s' (S' & E & Hh' & Hg' & HF). hdone S'. eapply Forall2_out; eauto.
Qed.

(* ---------- built-ins ---------- *)
Definition bpost (S : sty) (G : tyenv) (e : env) (t : ty) : option loc -> state -> Prop :=
  fun r s' => exists S' l, r = Some l /\ ext S S' /\ inv S' G e s' /\ sfind S' l = Some t.

Lemma ret_alloc_bpost S0 S G e s v t :
  ext S0 S -> inv S G e s -> cell_ok S v t -> ty_ok1 t = true ->
  wp ((let* l := alloc v in ret (Some l)) s) (bpost S0 G e t).
Proof.
  intros E0 Hi Hv Ht. wbind ltac:(eapply alloc_epost; eauto). intros l s' (S' & E & Hi' & Hl).
  apply wp_ret. exists S', l; auto.
Qed.

Lemma none_val_bpost S0 S G e s : ext S0 S -> inv S G e s -> wp (none_val s) (bpost S0 G e TNone).
Proof. intros. unfold none_val. eapply ret_alloc_bpost; eauto. constructor. Qed.

Lemma join_args_wp S s args sep :
  heap_ok S (st_heap s) -> Forall (fun l => exists t, sfind S l = Some t) args ->
  wp (join_args args sep s) (fun _ s' => s' = s).
Proof.
  intros Hh Hall. unfold join_args. unfold bindM at 1. unfold depth_fuel at 1.
  wbind ltac:(apply mapM_pure).
  - intros a Ha. rewrite Forall_forall in Hall. destruct (Hall a Ha) as (t & Ht).
    eapply show_wp; eauto using deep_ok_value.
  - intros p s1 ->. reflexivity.
Qed.

Lemma ne_err_us : str_eqb n_err underscore = false. Proof. reflexivity. Qed.
Lemma ne_errmsg_us : str_eqb n_errmsg underscore = false. Proof. reflexivity. Qed.

Lemma lookup_reserved S G e s n t :
  inv S G e s -> slookup n G = Some t -> (n = n_err \/ n = n_errmsg) ->
  exists l, lookup n e s = (Ok (Some l), s) /\ sfind S l = Some t.
Proof.
  intros [Hh He] Hs Hn.
  assert (Hus : str_eqb n underscore = false) by (destruct Hn as [->| ->]; reflexivity).
  rewrite (lookup_full _ _ _ Hus). unfold full.
  destruct (env_get n (e ++ [st_globals s])) as [l|] eqn:El.
  - exists l; split; auto. eapply env_lookup_sound; eauto.
  - exfalso. rewrite env_get_app in El. destruct (env_get n e); [discriminate|].
    destruct (env_ok_globals _ _ _ _ He) as (_ & G1 & G2). destruct Hn as [->| ->]; congruence.
Qed.

Lemma inv_store S G e s s' : inv S G e s -> heap_ok S (st_heap s') -> st_globals s' = st_globals s -> inv S G e s'.
Proof. intros [_ He] Hh Hg. split; auto. rewrite Hg; auto. Qed.

Lemma global_err_wp P S G e s b msg :
  genv_ok P G -> inv S G e s -> wp (global_err e b msg s) (fun _ s' => inv S G e s').
Proof.
  intros (G1 & G2 & _) Hi. pose proof Hi as [Hh He]. unfold global_err.
  destruct (lookup_reserved _ _ _ _ _ _ Hi G1 (or_introl eq_refl)) as (l & Hl & Ht).
  apply wp_bind. rewrite Hl. simpl.
  wbind ltac:(eapply load_wp; eauto). intros v s' [-> Hc]. inversion Hc; subst.
  wbind ltac:(eapply store_wp with (t := TBool); eauto; constructor). intros _ s1 [Hh1 Hg1].
  assert (Hi1 : inv S G e s1) by (eapply inv_store; eauto).
  destruct (lookup_reserved _ _ _ _ _ _ Hi1 G2 (or_intror eq_refl)) as (l2 & Hl2 & Ht2).
  apply wp_bind. rewrite Hl2. simpl.
  wbind ltac:(eapply load_wp; eauto). intros v s' [-> Hc2]. inversion Hc2; subst.
  destruct (pieces_str msg); [|exact I].
  eapply wp_mono; [eapply store_wp with (t := TStr); eauto; constructor|]. cbv beta.
  intros _ s2 [Hh2 Hg2]. eapply inv_store; eauto.
Qed.

Lemma arg_ok_basic p a : p <> TGenArr -> p <> TGenMap -> arg_ok p a = true -> a = p.
Proof.
  intros N1 N2. unfold arg_ok. destruct p; try congruence;
    intros H; apply andb_true_iff in H as [H _]; apply ty_eqb_eq in H; auto.
Qed.

Lemma args0 ts : args_ok [] None ts = true -> ts = [].
Proof. destruct ts; simpl; [auto|discriminate]. Qed.
Lemma args1 p ts : args_ok [p] None ts = true -> exists a, ts = [a] /\ arg_ok p a = true.
Proof.
  destruct ts as [|a [|b ts]]; simpl; try discriminate.
  - intros H. apply andb_true_iff in H as [H _]. eauto.
  - intros H. apply andb_true_iff in H as [_ H]. discriminate.
Qed.
Lemma args2 p q ts : args_ok [p; q] None ts = true ->
  exists a b, ts = [a; b] /\ arg_ok p a = true /\ arg_ok q b = true.
Proof.
  destruct ts as [|a [|b [|c ts]]]; simpl; try discriminate.
  - intros H. apply andb_true_iff in H as [_ H]. discriminate.
  - intros H. apply andb_true_iff in H as [H1 H]. apply andb_true_iff in H as [H2 _]. eauto.
  - intros H. apply andb_true_iff in H as [_ H]. apply andb_true_iff in H as [_ H]. discriminate.
Qed.

Lemma Forall2_any (S : sty) vals ts :
  Forall2 (fun l t => sfind S l = Some t) vals ts -> Forall (fun l => exists t, sfind S l = Some t) vals.
Proof. induction 1; constructor; eauto. Qed.

Ltac fa2 H := repeat match type of H with
  | Forall2 _ _ [] => inversion H; subst; clear H
  | Forall2 _ _ (_ :: _) =>
      let l := fresh "a" in let ls := fresh "ls" in let H1 := fresh "Ha" in let H2 := fresh "HF" in
      inversion H as [|l ? ls ? H1 H2]; subst; clear H; rename H2 into H
  end.

Ltac sig1 Hok HF :=
  unfold sig_args_ok in Hok; cbn [fs_var fs_params] in Hok;
  apply args1 in Hok as (? & -> & Hok); apply arg_ok_basic in Hok; [subst|discriminate|discriminate];
  let HF' := fresh "HF" in rename HF into HF'; fa2 HF'.
Ltac sig2 Hok HF :=
  unfold sig_args_ok in Hok; cbn [fs_var fs_params] in Hok;
  let H1 := fresh "Hok" in let H2 := fresh "Hok" in
  apply args2 in Hok as (? & ? & -> & H1 & H2);
  apply arg_ok_basic in H1; [subst|discriminate|discriminate];
  apply arg_ok_basic in H2; [subst|discriminate|discriminate];
  let HF' := fresh "HF" in rename HF into HF'; fa2 HF'.

Lemma bpost_of_alloc_num S G e s f : inv S G e s ->
  wp ((let* l := alloc (HNum f) in ret (Some l)) s) (bpost S G e TNum).
Proof. intros. eapply ret_alloc_bpost; eauto using ext_refl. constructor. Qed.
Lemma bpost_of_alloc_str S G e s x : inv S G e s ->
  wp ((let* l := alloc (HStr x) in ret (Some l)) s) (bpost S G e TStr).
Proof. intros. eapply ret_alloc_bpost; eauto using ext_refl. constructor. Qed.
Lemma bpost_of_alloc_bool S G e s b : inv S G e s ->
  wp ((let* l := alloc (HBool b) in ret (Some l)) s) (bpost S G e TBool).
Proof. intros. eapply ret_alloc_bpost; eauto using ext_refl. constructor. Qed.

Lemma emit_none_bpost S G e s ev : inv S G e s ->
  wp ((let* _ := emitE ev in none_val) s) (bpost S G e TNone).
Proof.
  intros Hi. wbind ltac:(apply emitE_wp). intros _ s' [H1 H2].
  eapply none_val_bpost; eauto using ext_refl, inv_same.
Qed.

Ltac load_n := wbind ltac:(eapply load_num_wp; eauto; apply_inv_heap); intros ? ? ->
with apply_inv_heap := match goal with H : inv _ _ _ _ |- _ => apply H end.
Ltac load_s := wbind ltac:(eapply load_str_wp; eauto; apply_inv_heap); intros ? ? ->.

Lemma unwrap_any_wp S s a :
  heap_ok S (st_heap s) -> sfind S a = Some TAny -> wp (unwrap_any a s) (fun _ s' => s' = s).
Proof.
  intros Hh Ha. unfold unwrap_any.
  wbind ltac:(eapply load_wp; eauto). intros v s1 [-> Hc]. inversion Hc; subst.
  eapply wp_mono; [eapply load_wp; eauto|]. cbv beta. intros v2 s2 [-> _]. reflexivity.
Qed.

(* the pure string and math built-ins of Sem.pure_builtin: their names, and that each has a
   signature in the table *)
Lemma pure_builtin_names name vals m : pure_builtin name vals = Some m ->
  In name (map s_ ["upper"; "lower"; "trim"; "replace"; "index"; "split"; "floor"; "ceil"; "round";
                   "pow"; "atan2"; "log"; "sin"; "cos"; "rand"; "rand1"; "hsl"]%string).
Proof.
  unfold pure_builtin. intros Hb.
  repeat match type of Hb with
  | (if name_is ?n ?lit then Some _ else _) = Some _ =>
      let E := fresh "E" in
      destruct (name_is n lit) eqn:E;
      [unfold name_is in E; apply str_eqb_eq in E; subst n; simpl; tauto|clear E]
  end.
  discriminate.
Qed.
Lemma pure_builtin_sig name vals m : pure_builtin name vals = Some m -> builtin_sig name <> None.
Proof.
  intros Hb. apply pure_builtin_names in Hb. simpl in Hb.
  repeat destruct Hb as [<-|Hb]; try contradiction; vm_compute; discriminate.
Qed.

Lemma args3 p q r ts : args_ok [p; q; r] None ts = true ->
  exists a b c, ts = [a; b; c] /\ arg_ok p a = true /\ arg_ok q b = true /\ arg_ok r c = true.
Proof.
  destruct ts as [|a [|b [|c [|d ts]]]]; simpl; try discriminate.
  - intros H. apply andb_true_iff in H as [_ H]. discriminate.
  - intros H. apply andb_true_iff in H as [_ H]. apply andb_true_iff in H as [_ H]. discriminate.
  - intros H. apply andb_true_iff in H as [H1 H]. apply andb_true_iff in H as [H2 H].
    apply andb_true_iff in H as [H3 _]. eauto 8.
  - intros H. apply andb_true_iff in H as [_ H]. apply andb_true_iff in H as [_ H].
    apply andb_true_iff in H as [_ H]. discriminate.
Qed.
Ltac sig3 Hok HF :=
  unfold sig_args_ok in Hok; cbn [fs_var fs_params] in Hok;
  let H1 := fresh "Hok" in let H2 := fresh "Hok" in let H3 := fresh "Hok" in
  apply args3 in Hok as (? & ? & ? & -> & H1 & H2 & H3);
  apply arg_ok_basic in H1; [subst|discriminate|discriminate];
  apply arg_ok_basic in H2; [subst|discriminate|discriminate];
  apply arg_ok_basic in H3; [subst|discriminate|discriminate];
  let HF' := fresh "HF" in rename HF into HF'; fa2 HF'.

(* hslFunc either rejects its arguments or returns a string *)
Lemma hsl_model_shape o nums :
  (exists k, Builtins.hsl_model o nums = Builtins.OPanic k) \/
  (exists t, Builtins.hsl_model o nums = Builtins.ORet (Builtins.VStr t)).
Proof.
  unfold Builtins.hsl_model, Builtins.hsl_with.
  destruct nums as [|h [|a [|b [|c [|d r]]]]];
    repeat match goal with |- context [if ?c then _ else _] => destruct c end; eauto.
Qed.

(* results of the pure string and math built-ins that are in the fragment *)
Lemma pure_builtin_sound P S G e s name vals m sg ts :
  pure_builtin name vals = Some m -> mem_str name s1_builtins = true -> builtin_sig name = Some sg ->
  sig_args_ok sg ts = true -> Forall2 (fun l t => sfind S l = Some t) vals ts ->
  genv_ok P G -> inv S G e s ->
  wp (m s) (bpost S G e (fs_ret sg)).
Proof.
  intros Hb Hs1 Hsig Hok HF HG Hi. pose proof Hi as [Hh He].
  unfold pure_builtin in Hb.
  repeat match type of Hb with
  | (if name_is ?n ?lit then Some _ else _) = Some _ =>
      let E := fresh "E" in
      destruct (name_is n lit) eqn:E;
      [ unfold name_is in E; apply str_eqb_eq in E; subst n; injection Hb as <-;
        vm_compute in Hs1; try discriminate Hs1;
        vm_compute in Hsig; injection Hsig as <-; cbn [fs_ret] | clear E ]
  end; try discriminate Hb.
  - (* upper *) sig1 Hok HF. load_s. destruct (is_ascii _); [apply bpost_of_alloc_str; auto | exact I].
  - (* lower *) sig1 Hok HF. load_s. destruct (is_ascii _); [apply bpost_of_alloc_str; auto | exact I].
  - (* trim *) sig2 Hok HF. load_s. load_s. apply bpost_of_alloc_str; auto.
  - (* replace *) sig3 Hok HF. load_s. load_s. load_s. apply bpost_of_alloc_str; auto.
  - (* index *) sig2 Hok HF. load_s. load_s. apply bpost_of_alloc_num; auto.
  - (* split: one string cell per part, then the array of them *)
    sig2 Hok HF. load_s. load_s.
    wbind ltac:(eapply (mapM_wp (fun p => alloc (HStr p)) (fun _ _ => True)
                          (fun S' (_ : str) l => sfind S' l = Some TStr) (st_globals s));
                [auto | intros; eauto | | exact Hh | reflexivity | apply Forall_forall; auto]).
    { intros S0 s0 p Hh0 Hg0 _.
      eapply wp_mono; [eapply (alloc_wp S0 s0 (HStr p) TStr); [exact Hh0 | apply CStr | apply ok1_TStr]|]. cbv beta.
      intros l s' (S' & E & Hh' & Hl & Hg'). hdone S'. }
    intros ls s1 (S1 & E1 & Hh1 & Hg1 & HR).
    eapply ret_alloc_bpost; [exact E1 | eapply inv_step; eauto | | ok1t].
    constructor. clear -HR. induction HR; constructor; auto.
  - (* floor *) sig1 Hok HF. load_n. apply bpost_of_alloc_num; auto.
  - (* ceil *) sig1 Hok HF. load_n. apply bpost_of_alloc_num; auto.
  - (* round *) sig1 Hok HF. load_n. apply bpost_of_alloc_num; auto.
  - (* pow *) sig2 Hok HF. load_n. load_n. exact I.
  - (* atan2 *) sig2 Hok HF. load_n. load_n. exact I.
  - (* log *) sig1 Hok HF. load_n. exact I.
  - (* sin *) sig1 Hok HF. load_n. exact I.
  - (* cos *) sig1 Hok HF. load_n. exact I.
  - (* rand *) sig1 Hok HF. load_n. destruct (negb _); exact I.
  - (* rand1 *)
    unfold sig_args_ok in Hok; cbn [fs_var fs_params] in Hok. apply args0 in Hok. subst ts.
    inversion HF; subst. exact I.
  - (* hsl: any number of num arguments *)
    unfold sig_args_ok in Hok; cbn [fs_var fs_params] in Hok.
    assert (Hn : Forall (fun l => sfind S l = Some TNum) vals).
    { clear -Hok HF. revert Hok. induction HF as [|l t vals ts Hl HF IH]; intros Hok; constructor.
      - cbn [forallb] in Hok. apply andb_true_iff in Hok as [H1 _].
        apply arg_ok_basic in H1; [congruence|discriminate|discriminate].
      - apply IH. cbn [forallb] in Hok. apply andb_true_iff in Hok as [_ H2]. exact H2. }
    wbind ltac:(apply mapM_pure; intros a Ha; eapply load_num_wp; eauto;
                rewrite Forall_forall in Hn; auto). intros nums s1 ->.
    destruct (hsl_model_shape ascii_oracles nums) as [[k ->] | [t ->]]; [exact I|].
    destruct (forallb small_int nums); [apply bpost_of_alloc_str; auto | exact I].
Qed.

(* every argument of a variadic `any` parameter list is an any-cell *)
Lemma variadic_any_typed (S : sty) vals ts :
  forallb (arg_ok TAny) ts = true -> Forall2 (fun l t => sfind S l = Some t) vals ts ->
  Forall (fun l => sfind S l = Some TAny) vals.
Proof.
  intros Hall HF. induction HF as [|l t ls ts' Hl _ IH]; cbn [forallb] in Hall; constructor;
    apply andb_true_iff in Hall as [H1 H2]; auto.
  apply arg_ok_basic in H1; [congruence|discriminate|discriminate].
Qed.

Lemma show_str_wp S s l t :
  heap_ok S (st_heap s) -> sfind S l = Some t -> wp (show_str l s) (fun _ s' => s' = s).
Proof.
  intros Hh Hl. unfold show_str. unfold bindM at 1. unfold depth_fuel at 1.
  wbind ltac:(eapply show_wp; eauto using deep_ok_value). intros p s1 ->.
  destruct (pieces_str p); [reflexivity|exact I].
Qed.

(* the operands of sprintf / printf: every argument is an any-cell; its content is read (a composite
   one is printed by String()), nothing is written *)
Lemma fmt_args_wp S s rest :
  heap_ok S (st_heap s) -> Forall (fun l => sfind S l = Some TAny) rest ->
  wp (mapM (fun a => let* v := unwrap_any a in
                     match v with
                     | HNum x => ret (Builtins.FNum x)
                     | HStr x => ret (Builtins.FStr x)
                     | HBool b => ret (Builtins.FBool b)
                     | _ => let* x := show_str a in ret (Builtins.FStr x)
                     end) rest s) (fun _ s' => s' = s).
Proof.
  intros Hh Hall. apply mapM_pure. intros a Ha. rewrite Forall_forall in Hall. specialize (Hall a Ha).
  wbind ltac:(eapply unwrap_any_wp; eauto). intros v s1 ->.
  destruct v; try reflexivity;
    (wbind ltac:(eapply show_str_wp; eauto); intros x s1 ->; reflexivity).
Qed.

Lemma builtin_sound P S G e s name vals m sg ts :
  builtin name e vals = Some m -> mem_str name s1_builtins = true -> builtin_sig name = Some sg ->
  sig_args_ok sg ts = true -> Forall2 (fun l t => sfind S l = Some t) vals ts ->
  genv_ok P G -> inv S G e s ->
  wp (m s) (bpost S G e (fs_ret sg)).
Proof.
  intros Hb Hs1 Hsig Hok HF HG Hi. pose proof Hi as [Hh He].
  unfold builtin in Hb.
  repeat match type of Hb with
  | (if name_is ?n ?lit then Some _ else _) = Some _ =>
      let E := fresh "E" in
      destruct (name_is n lit) eqn:E;
      [ unfold name_is in E; apply str_eqb_eq in E; subst n; injection Hb as <-;
        vm_compute in Hs1; try discriminate Hs1;
        vm_compute in Hsig; injection Hsig as <-; cbn [fs_ret] | clear E ]
  end.
  - (* print *)
    unfold sig_args_ok in Hok; cbn [fs_var fs_params] in Hok.
    wbind ltac:(eapply join_args_wp; eauto using Forall2_any). intros p s1 ->.
    apply emit_none_bpost; auto.
  - (* sprint *)
    wbind ltac:(eapply join_args_wp; eauto using Forall2_any). intros p s1 ->.
    destruct (pieces_str p); [|exact I]. apply bpost_of_alloc_str; auto.
  - (* read *)
    destruct (st_input s) eqn:Ein.
    + apply bpost_of_alloc_str. eapply inv_same; eauto.
    + apply bpost_of_alloc_str. eapply inv_same; eauto.
  - (* cls *) apply emit_none_bpost; auto.
  - (* sleep *) sig1 Hok HF. load_n. apply emit_none_bpost; auto.
  - (* len *)
    sig1 Hok HF. wbind ltac:(eapply unwrap_any_wp; eauto). intros v s1 ->.
    destruct v; try exact I; apply bpost_of_alloc_num; auto.
  - (* has *)
    unfold sig_args_ok in Hok; cbn [fs_var fs_params] in Hok.
    apply args2 in Hok as (ta & tb & -> & Hok1 & Hok2).
    apply arg_ok_basic in Hok2; [subst|discriminate|discriminate]. fa2 HF.
    wbind ltac:(eapply load_wp; eauto). intros v s1 [-> Hc]. load_s.
    destruct ta; simpl in Hok1; try discriminate; inversion Hc; subst; apply bpost_of_alloc_bool; auto.
  - (* del *)
    unfold sig_args_ok in Hok; cbn [fs_var fs_params] in Hok.
    apply args2 in Hok as (ta & tb & -> & Hok1 & Hok2).
    apply arg_ok_basic in Hok2; [subst|discriminate|discriminate]. fa2 HF.
    wbind ltac:(eapply load_wp; eauto). intros v s1 [-> Hc]. load_s.
    assert (Hc' : forall om ks, v = HMap om -> cell_ok S (HMap (odel ks om)) ta).
    { intros om ks ->. inversion Hc; subst.
      - constructor; auto using Inv_odel, pairs_odel_Forall.
      - unfold odel. match goal with Hp : pairs om = [] |- _ => rewrite Hp end. simpl. constructor; auto. }
    destruct ta; simpl in Hok1; try discriminate; inversion Hc; subst;
      (wbind ltac:(eapply store_wp; eauto); intros _ s1 [Hh1 Hg1];
       eapply none_val_bpost; eauto using ext_refl; split; auto; unfold full in *; rewrite Hg1; auto).
  - (* typeof *)
    sig1 Hok HF. wbind ltac:(eapply load_wp; eauto). intros v s1 [-> Hc]. inversion Hc; subst.
    apply bpost_of_alloc_str; auto.
  - (* str2num *)
    sig1 Hok HF. wbind ltac:(eapply global_err_wp; eauto). intros _ s1 Hi1. load_s.
    destruct (parse_float _); try exact I.
    + apply bpost_of_alloc_num; auto.
    + wbind ltac:(eapply global_err_wp; eauto). intros _ s2 Hi2. apply bpost_of_alloc_num; auto.
  - (* str2bool *)
    sig1 Hok HF. wbind ltac:(eapply global_err_wp; eauto). intros _ s1 Hi1. load_s.
    lazymatch goal with |- wp ((if ?c then _ else _) _) _ => destruct c end;
      [apply bpost_of_alloc_bool; auto|].
    lazymatch goal with |- wp ((if ?c then _ else _) _) _ => destruct c end;
      [apply bpost_of_alloc_bool; auto|].
    wbind ltac:(eapply global_err_wp; eauto). intros _ s2 Hi2. apply bpost_of_alloc_bool; auto.
  - (* exit *) sig1 Hok HF. load_n. exact I.
  - (* panic *) sig1 Hok HF. load_s. exact I.
  - (* join *)
    unfold sig_args_ok in Hok; cbn [fs_var fs_params] in Hok.
    apply args2 in Hok as (ta & tb & -> & Hok1 & Hok2).
    apply arg_ok_basic in Hok2; [subst|discriminate|discriminate]. fa2 HF.
    wbind ltac:(eapply load_wp; eauto). intros v s1 [-> Hc]. load_s.
    assert (Hels : forall els, v = HArr els -> Forall (fun l => exists t, sfind S l = Some t) els).
    { intros els ->. inversion Hc; subst; [|constructor].
      eapply Forall_impl; [|eassumption]. cbv beta; eauto. }
    destruct ta; simpl in Hok1; try discriminate; inversion Hc; subst;
      (wbind ltac:(eapply join_args_wp; eauto); intros p s1 ->;
       destruct (pieces_str p); [apply bpost_of_alloc_str; auto|exact I]).
  - (* startswith *) sig2 Hok HF. load_s. load_s. apply bpost_of_alloc_bool; auto.
  - (* endswith *) sig2 Hok HF. load_s. load_s. apply bpost_of_alloc_bool; auto.
  - (* min *) sig2 Hok HF. load_n. load_n.
    repeat match goal with |- context [if ?c then _ else _] => destruct c; try exact I end;
      apply bpost_of_alloc_num; auto.
  - (* max *) sig2 Hok HF. load_n. load_n.
    repeat match goal with |- context [if ?c then _ else _] => destruct c; try exact I end;
      apply bpost_of_alloc_num; auto.
  - (* abs *) sig1 Hok HF. load_n. apply bpost_of_alloc_num; auto.
  - (* sqrt *) sig1 Hok HF. load_n. apply bpost_of_alloc_num; auto.
  - (* sprintf: a missing or non-string format is the evy panic "bad arguments"; what fmt.Sprintf
       would compute with float formatting or %q quoting is ENeedOracle *)
    unfold sig_args_ok in Hok; cbn [fs_var fs_params] in Hok.
    pose proof (variadic_any_typed _ _ _ Hok HF) as Hany.
    destruct vals as [|fa rest]; [exact I|]. inversion Hany as [|? ? Hfa Hrest]; subst.
    wbind ltac:(eapply unwrap_any_wp; eauto). intros fv s1 ->.
    destruct fv; try exact I.
    wbind ltac:(eapply fmt_args_wp; eauto). intros fargs s1 ->.
    destruct (forallb fmt_decidable fargs); [|exact I].
    lazymatch goal with |- wp (match ?c with Some _ => _ | None => _ end _) _ => destruct c end; [|exact I].
    apply bpost_of_alloc_str; auto.
  - (* printf *)
    unfold sig_args_ok in Hok; cbn [fs_var fs_params] in Hok.
    pose proof (variadic_any_typed _ _ _ Hok HF) as Hany.
    destruct vals as [|fa rest]; [exact I|]. inversion Hany as [|? ? Hfa Hrest]; subst.
    wbind ltac:(eapply unwrap_any_wp; eauto). intros fv s1 ->.
    destruct fv; try exact I.
    wbind ltac:(eapply fmt_args_wp; eauto). intros fargs s1 ->.
    destruct (forallb fmt_decidable fargs); [|exact I].
    lazymatch goal with |- wp (match ?c with Some _ => _ | None => _ end _) _ => destruct c end; [|exact I].
    apply emit_none_bpost; auto.
  - (* graphics *)
    destruct (existsb (str_eqb name) gfx_num_names) eqn:E1.
    { injection Hb as <-. apply existsb_exists in E1 as (x & Hin & Hx). apply str_eqb_eq in Hx; subst x.
      simpl in Hin. repeat destruct Hin as [<-|Hin]; try contradiction;
        vm_compute in Hsig; injection Hsig as <-; cbn [fs_ret];
        sig1 Hok HF; load_n; apply emit_none_bpost; auto. }
    destruct (existsb (str_eqb name) gfx_xy_names) eqn:E2.
    { injection Hb as <-. apply existsb_exists in E2 as (x & Hin & Hx). apply str_eqb_eq in Hx; subst x.
      simpl in Hin. repeat destruct Hin as [<-|Hin]; try contradiction;
        vm_compute in Hsig; injection Hsig as <-; cbn [fs_ret];
        sig2 Hok HF; load_n; load_n; apply emit_none_bpost; auto. }
    destruct (existsb (str_eqb name) gfx_str_names) eqn:E3.
    { injection Hb as <-. apply existsb_exists in E3 as (x & Hin & Hx). apply str_eqb_eq in Hx; subst x.
      simpl in Hin. repeat destruct Hin as [<-|Hin]; try contradiction;
        vm_compute in Hsig; injection Hsig as <-; cbn [fs_ret];
        sig1 Hok HF; load_s; apply emit_none_bpost; auto. }
    (* the pure string and math built-ins *)
    eapply pure_builtin_sound; eauto.
Qed.

Lemma builtin_none name e vals : builtin name e vals = None -> mem_str name s1_builtins = false.
Proof.
  unfold builtin. intros Hb.
  repeat match type of Hb with
  | (if name_is ?n ?lit then Some _ else _) = None =>
      let E := fresh "E" in destruct (name_is n lit) eqn:E; [discriminate Hb|]
  end.
  destruct (existsb (str_eqb name) gfx_num_names) eqn:X1; [discriminate|].
  destruct (existsb (str_eqb name) gfx_xy_names) eqn:X2; [discriminate|].
  destruct (existsb (str_eqb name) gfx_str_names) eqn:X3; [discriminate|].
  unfold pure_builtin in Hb.
  repeat match type of Hb with
  | (if name_is ?n ?lit then Some _ else _) = None =>
      let E := fresh "E" in destruct (name_is n lit) eqn:E; [discriminate Hb|]
  end.
  apply not_true_is_false. intros Hm. apply mem_str_In in Hm. simpl in Hm.
  repeat destruct Hm as [<-|Hm]; try contradiction;
    repeat match goal with
    | E : name_is _ _ = false |- _ => vm_compute in E; try discriminate E; clear E
    | E : existsb _ _ = false |- _ => vm_compute in E; try discriminate E; clear E
    end.
Qed.

Lemma s1_name_facts name F : mem_str name s1_builtins = true ->
  str_eqb name n_test = false /\ lookup_sig F name = builtin_sig name /\ builtin_sig name <> None.
Proof.
  intros Hm. apply mem_str_In in Hm. simpl in Hm. unfold lookup_sig.
  repeat destruct Hm as [<-|Hm]; try contradiction; (split; [reflexivity|split; [reflexivity|discriminate]]).
Qed.

(* ---------- the nine statements ---------- *)
Definition exprs_post (S : sty) (G : tyenv) (e : env) (ts : list ty) : list loc -> state -> Prop :=
  fun ls s' => exists S', ext S S' /\ inv S' G e s' /\ Forall2 (fun l t => sfind S' l = Some t) ls ts.

Definition expr_sound (n : nat) : Prop := forall P e x G t S s,
  ety (p_funcs P) G x = Some t -> s1_expr strict x = true -> genv_ok P G -> inv S G e s ->
  wp (eval_expr n P e x s) (epost S G e t).

Definition exprs_sound (n : nat) : Prop := forall P e es G ts S s,
  etys (p_funcs P) G es = Some ts -> s1_exprs strict es = true -> Forall (fun t => t <> TNone) ts ->
  genv_ok P G -> inv S G e s ->
  wp (eval_exprs n P e es s) (exprs_post S G e ts).

(* the result of a call: a cell of the declared result type, or nothing for a procedure *)
Definition cpost (S : sty) (G : tyenv) (e : env) (t : ty) : option loc -> state -> Prop :=
  fun r s' => exists S', ext S S' /\ inv S' G e s' /\
     match r with Some l => sfind S' l = Some t | None => t = TNone end.

Definition call_sound (n : nat) : Prop := forall P e name args G sg ts S s,
  lookup_sig (p_funcs P) name = Some sg -> etys (p_funcs P) G args = Some ts ->
  sig_args_ok sg ts = true -> call_frag name = true -> s1_exprs strict args = true ->
  genv_ok P G -> inv S G e s ->
  wp (eval_call n P e name args s) (cpost S G e (fs_ret sg)).

(* control signals: break only inside a loop; a returned value has the declared result type *)
Definition sig_ok (S : sty) (ret : option ty) (il : bool) (sig : signal) : Prop :=
  match sig with
  | SigNone => True
  | SigBreak => il = true
  | SigReturn None => ret = Some TNone
  | SigReturn (Some l) => exists t, ret = Some t /\ sfind S l = Some t
  end.

(* statements that always terminate the function do end with a control signal *)
Definition must_ret (rt : bool) (sig : signal) : Prop :=
  rt = true -> sig = SigBreak \/ exists v, sig = SigReturn v.

(* the top-level frame stays inside the program's global typing *)
Definition gsub (G : tyenv) : Prop := match G with [gs] => sframe_sub gs Gg | _ => True end.

Definition spost (S : sty) (G G' : tyenv) (e : env) (ret : option ty) (il rt : bool)
  : signal * env -> state -> Prop :=
  fun r s' => exists S' G'', ext S S' /\ heap_ok S' (st_heap s') /\ grows G G'' /\
     env_ok S' G'' (snd r) (st_globals s') /\ List.length (snd r) = List.length e /\
     (fst r = SigNone -> G'' = G') /\ sig_ok S' ret il (fst r) /\ must_ret rt (fst r).

Definition stmt_sound (n : nat) : Prop := forall P ret il e st G G' S s,
  wt_stmt (p_funcs P) ret il G st = Some G' -> s1_stmt strict st = true -> genv_ok P G -> inv S G e s ->
  gsub G' ->
  wp (exec_stmt n P e st s) (spost S G G' e ret il (stmt_returns st)).

Definition stmts_sound (n : nat) : Prop := forall P ret il e l G G' S s,
  wt_stmts (p_funcs P) ret il G l = Some G' -> s1_stmts strict l = true -> genv_ok P G -> inv S G e s ->
  gsub G' ->
  wp (exec_stmts n P e l s) (spost S G G' e ret il (always_returns l)).

Definition block_sound (n : nat) : Prop := forall P ret il e l G G' S s,
  wt_stmts (p_funcs P) ret il G l = Some G' -> s1_stmts strict l = true -> genv_ok P G -> inv S G e s ->
  gsub G' ->
  wp (exec_block n P e l s) (spost S G G' e ret il (always_returns l)).

Definition kpost (S : sty) (G : tyenv) (e : env) (ret : option ty) (il : bool) : signal * env -> state -> Prop :=
  fun r s' => exists S', ext S S' /\ inv S' G (snd r) s' /\ List.length (snd r) = List.length e /\
                         sig_ok S' ret il (fst r).

Definition kposto (S : sty) (G : tyenv) (e : env) (ret : option ty) (il rt : bool)
  : option signal * env -> state -> Prop :=
  fun r s' => exists S', ext S S' /\ inv S' G (snd r) s' /\ List.length (snd r) = List.length e /\
     match fst r with Some sig => sig_ok S' ret il sig /\ must_ret rt sig | None => True end.

Definition cond_sound (n : nat) : Prop := forall P ret il e c body G Gb S s,
  ety (p_funcs P) (push G) c = Some TBool -> wt_stmts (p_funcs P) ret il (push G) body = Some Gb ->
  s1_expr strict c = true -> s1_stmts strict body = true -> genv_ok P G -> inv S G e s ->
  wp (exec_cond n P e c body s) (kposto S G e ret il (always_returns body)).

Definition while_sound (n : nat) : Prop := forall P ret e c body G Gb S s,
  ety (p_funcs P) (push G) c = Some TBool -> wt_stmts (p_funcs P) ret true (push G) body = Some Gb ->
  s1_expr strict c = true -> s1_stmts strict body = true -> genv_ok P G -> inv S G e s ->
  wp (exec_while n P e c body s) (kpost S G e ret false).

(* the loop variable (None: `for range ...`) and what the ranger yields *)
Definition rg_ok (S : sty) (named : option ty) (rg : ranger) : Prop :=
  match rg with
  | RgStep _ _ _ => named = None \/ named = Some TNum
  | RgArr a _ => (exists u, sfind S a = Some (TArr u) /\ (named = None \/ named = Some u))
                 \/ sfind S a = Some TEmptyArr
  | RgStr _ _ => named = None \/ named = Some TStr
  | RgMap m _ => ((exists u, sfind S m = Some (TMap u)) \/ sfind S m = Some TEmptyMap)
                 /\ (named = None \/ named = Some TStr)
  end.

Definition for_frame (named : option ty) (var : str) (fr0 : sframe) : Prop :=
  match named with
  | None => var = underscore /\ fr0 = []
  | Some vt => binder_ok var = true /\ fr0 = [(var, vt)]
  end.

Definition for_sound (n : nat) : Prop := forall P ret e var rg body G fr0 named Gb S s,
  wt_stmts (p_funcs P) ret true (push (fr0 :: G)) body = Some Gb -> s1_stmts strict body = true ->
  genv_ok P (fr0 :: G) -> inv S (fr0 :: G) e s ->
  for_frame named var fr0 -> rg_ok S named rg ->
  wp (exec_for n P e var rg body s) (kpost S (fr0 :: G) e ret false).

Definition all_sound (n : nat) : Prop :=
  expr_sound n /\ exprs_sound n /\ call_sound n /\ stmt_sound n /\ stmts_sound n /\ block_sound n /\
  cond_sound n /\ while_sound n /\ for_sound n.

Lemma tick_inv S G e s (Q : unit -> state -> Prop) :
  inv S G e s -> (forall s', inv S G e s' -> Q tt s') -> wp (tick s) Q.
Proof.
  intros Hi HQ. eapply wp_mono; [apply tick_wp|]. cbv beta. intros [] s' [H1 H2].
  apply HQ. eapply inv_same; eauto.
Qed.

Lemma epost_ret S G e t l s : inv S G e s -> sfind S l = Some t -> epost S G e t l s.
Proof. intros. exists S; auto using ext_refl. Qed.

Lemma assert_shape u t :
  ty_value u = true -> ty_proper t = true -> ty_eqb (ty_shape u) (ty_shape t) = true -> u = t.
Proof.
  revert t; induction u; intros t Hu Ht H; destruct t; simpl in *; try discriminate; auto;
    try (f_equal; auto; fail); destruct t; simpl in *; discriminate.
Qed.

(* ---------- binary operators ---------- *)
Lemma bin_num_wp S0 S G e s op y z t :
  ext S0 S -> inv S G e s -> bin_ty op TNum TNum = Some t -> op <> BEq -> op <> BNotEq ->
  wp (bin_num op y z s) (epost S0 G e t).
Proof.
  intros E Hi Ht N1 N2.
  destruct op; simpl in Ht; try congruence; inversion Ht; subst; simpl;
    eapply alloc_epost; eauto; constructor.
Qed.

Lemma bin_str_wp S0 S G e s op y z t :
  ext S0 S -> inv S G e s -> bin_ty op TStr TStr = Some t -> op <> BEq -> op <> BNotEq ->
  wp (bin_str op y z s) (epost S0 G e t).
Proof.
  intros E Hi Ht N1 N2.
  destruct op; simpl in Ht; try congruence; inversion Ht; subst; simpl;
    eapply alloc_epost; eauto; constructor.
Qed.

Lemma bin_bool_wp S0 S G e s op y z t :
  ext S0 S -> inv S G e s -> bin_ty op TBool TBool = Some t -> op <> BEq -> op <> BNotEq ->
  wp (bin_bool op y z s) (epost S0 G e t).
Proof.
  intros E Hi Ht N1 N2.
  destruct op; simpl in Ht; try congruence; inversion Ht; subst; simpl;
    eapply alloc_epost; eauto; constructor.
Qed.

Lemma Forall_app_ty (S : sty) u a b :
  Forall (fun l => sfind S l = Some u) a -> Forall (fun l => sfind S l = Some u) b ->
  Forall (fun l => sfind S l = Some u) (a ++ b).
Proof. intros; apply Forall_app; auto. Qed.

Lemma Forall_concat_ty (S : sty) u parts :
  Forall (Forall (fun l => sfind S l = Some u)) parts -> Forall (fun l => sfind S l = Some u) (List.concat parts).
Proof. induction 1; simpl; auto using Forall_app_ty. Qed.

(* array concatenation: both operands hold cells of type u (or are the untyped []) *)
Lemma concat_wp S0 S G e s u xs ys :
  ext S0 S -> inv S G e s -> ty_ok1 (TArr u) = true -> u <> TNone ->
  Forall (fun l => sfind S l = Some u) xs -> Forall (fun l => sfind S l = Some u) ys ->
  wp ((let* d := depth_fuel in
       let* xs' := mapM (copy_or_ref d) xs in
       let* ys' := mapM (copy_or_ref d) ys in
       alloc (HArr (xs' ++ ys'))) s) (epost S0 G e (TArr u)).
Proof.
  intros E0 Hi Hok Hu Hx Hy. pose proof Hi as [Hh He].
  unfold bindM at 1. unfold depth_fuel at 1.
  wbind ltac:(eapply mapM_copy_wp; eauto). intros xs' s1 (S1 & E1 & Hh1 & Hg1 & Hx1).
  wbind ltac:(eapply (mapM_copy_wp S1); eauto using Forall_ext_ty).
  intros ys' s2 (S2 & E2 & Hh2 & Hg2 & Hy2).
  eapply (alloc_epost S0 S2); [| |constructor; apply Forall_app_ty; eauto using Forall_ext_ty|auto].
  - eauto using ext_trans.
  - eapply inv_step; eauto using ext_trans. congruence.
Qed.

Lemma bin_arr_wp S0 S G e s op xs lb ta tb t :
  ext S0 S -> inv S G e s -> bin_ty op ta tb = Some t -> op <> BEq -> op <> BNotEq ->
  cell_ok S (HArr xs) ta -> sfind S lb = Some tb -> ty_ok1 t = true ->
  wp (bin_arr op xs lb s) (epost S0 G e t).
Proof.
  intros E0 Hi Ht N1 N2 Hxs Hlb Hok. pose proof Hi as [Hh He].
  destruct op; try congruence;
    try (inversion Hxs; subst; simpl in Ht; destruct tb; discriminate).
  - (* + *)
    cbn [bin_arr].
    wbind ltac:(eapply load_wp; eauto). intros rv s1 [-> Hrv].
    inversion Hxs; subst; simpl in Ht; destruct tb; try discriminate; inversion Hrv; subst.
    + destruct (ty_eqb u tb) eqn:Eu; [|discriminate]. apply ty_eqb_eq in Eu; subst tb.
      inversion Ht; subst. eapply concat_wp; eauto. eapply ok1_elem; eauto.
    + inversion Ht; subst. eapply concat_wp; eauto. eapply ok1_elem; eauto.
    + inversion Ht; subst. eapply concat_wp; eauto. eapply ok1_elem; eauto.
    + inversion Ht; subst. unfold bindM at 1. unfold depth_fuel at 1. cbn [mapM].
      unfold bindM, ret. eapply alloc_epost; eauto; constructor.
  - (* * *)
    cbn [bin_arr].
    inversion Hxs; subst; simpl in Ht; destruct tb; try discriminate. inversion Ht; subst.
    wbind ltac:(eapply load_num_wp; eauto). intros f s1 ->.
    destruct (go_int_exact f) as [n|]; [|exact I].
    destruct (n <? 0); [exact I|].
    match goal with |- context [if ?c then _ else _] => destruct c; [exact I|] end.
    unfold bindM at 1. unfold depth_fuel at 1.
    destruct (ok1_elem (TArr u) u (or_introl eq_refl) Hok) as [Hoku Hnu].
    wbind ltac:(eapply (mapM_wp (fun _ : unit => mapM (deep_copy value_depth) xs)
                          (fun S _ => Forall (fun l => sfind S l = Some u) xs)
                          (fun S _ b => Forall (fun l => sfind S l = Some u) b) (st_globals s))).
    + intros S1 S2 _ E12 HF. eauto using Forall_ext_ty.
    + intros S1 S2 _ b E12 HF. eauto using Forall_ext_ty.
    + intros S1 s1 _ Hh1 Hg1 HF.
      eapply wp_mono.
      * eapply (mapM_wp (deep_copy value_depth) (fun S a => sfind S a = Some u)
                  (fun S a b => sfind S b = Some u) (st_globals s)); eauto.
        intros S2 s2 a Hh2 Hg2 Ha. rewrite <- Hg2. eapply deep_copy_wp; eauto. intros Hs. eauto using deep_ok_of_ok1.
      * cbv beta. intros b s2 (S2 & E2 & Hh2 & Hg2 & HF2). hdone S2. eapply Forall2_out; eauto.
    + exact Hh.
    + reflexivity.
    + clear -H0. induction (repeat tt (Z.to_nat n)); constructor; auto.
    + intros parts s2 (S2 & E2 & Hh2 & Hg2 & HF2).
      eapply (alloc_epost S0 S2); eauto using ext_trans.
      * eapply inv_step; eauto.
      * constructor. apply Forall_concat_ty. clear -HF2. induction HF2; constructor; auto.
Qed.

(* ---------- expressions ---------- *)
Lemma wp_depth_fuel {B} (k : nat -> M B) s Q : wp (k value_depth s) Q -> wp (bindM depth_fuel k s) Q.
Proof. exact (fun H => H). Qed.

Lemma bin_ty_compat op a b t : (op = BEq \/ op = BNotEq) -> bin_ty op a b = Some t -> ty_compat a b = true /\ t = TBool.
Proof.
  intros [->| ->]; simpl; destruct (ty_compat a b); try discriminate; intros H; inversion H; auto.
Qed.

Lemma concat_nils (parts : list (list loc)) : Forall (fun b => b = []) parts -> List.concat parts = [].
Proof. induction 1; simpl; auto. subst. auto. Qed.

(* + and * on the untyped []: the result is the empty array, at whatever array type the parser inferred *)
Lemma bin_arr_empty_wp S0 S G e s op lb tb t :
  ext S0 S -> inv S G e s -> bin_empty op TEmptyArr tb t = true -> sfind S lb = Some tb -> ty_ok1 t = true ->
  wp (bin_arr op [] lb s) (epost S0 G e t).
Proof.
  intros E0 Hi Hbe Hlb Hok. pose proof Hi as [Hh He].
  assert (Hcell : cell_ok S (HArr []) t).
  { destruct op, tb; simpl in Hbe; try discriminate; destruct t; try discriminate; constructor; constructor. }
  destruct op; simpl in Hbe; try discriminate; destruct tb; try discriminate.
  - cbn [bin_arr]. wbind ltac:(eapply load_wp; eauto). intros rv s1 [-> Hrv]. inversion Hrv; subst.
    unfold bindM at 1. unfold depth_fuel at 1. cbn [mapM]. unfold bindM, ret.
    eapply alloc_epost; eauto.
  - cbn [bin_arr]. wbind ltac:(eapply load_num_wp; eauto). intros f s1 ->.
    destruct (go_int_exact f) as [n|]; [|exact I].
    destruct (n <? 0); [exact I|].
    match goal with |- context [if ?c then _ else _] => destruct c; [exact I|] end.
    unfold bindM at 1. unfold depth_fuel at 1. cbn [mapM].
    wbind ltac:(eapply (mapM_wp (fun _ : unit => ret (@nil loc)) (fun _ _ => True)
                          (fun _ _ b => b = []) (st_globals s)); eauto).
    + intros S1 s1 _ Hh1 Hg1 _. apply wp_ret. hdone S1.
    + clear. induction (repeat tt (Z.to_nat n)); constructor; auto.
    + intros parts s2 (S2 & E2 & Hh2 & Hg2 & HF2).
      rewrite concat_nils by (clear -HF2; induction HF2; constructor; auto).
      eapply (alloc_epost S0 S2); eauto using ext_trans, cell_ok_ext. eapply inv_step; eauto.
Qed.

Lemma ebin_tail S0 S G e s op la lb ta tb t :
  ext S0 S -> inv S G e s -> sfind S la = Some ta -> sfind S lb = Some tb ->
  (bin_ty op ta tb = Some t \/ bin_empty op ta tb t = true) -> ty_ok1 t = true ->
  wp ((match op with
       | BEq => let* d := depth_fuel in let* r := equals d la lb in alloc (HBool r)
       | BNotEq => let* d := depth_fuel in let* r := equals d la lb in alloc (HBool (negb r))
       | _ =>
           let* va := load la in
           match va with
           | HNum y => let* z := load_num lb in bin_num op y z
           | HStr y => let* z := load_str lb in bin_str op y z
           | HBool y => let* z := load_bool lb in bin_bool op y z
           | HArr xs => bin_arr op xs lb
           | _ => internal "unknown operation (binary)"
           end
       end) s) (epost S0 G e t).
Proof.
  intros E0 Hi Hla Hlb [Hbin|Hbe] Hok; pose proof Hi as [Hh He].
  2:{ (* an operator on the untyped [] *)
    assert (ta = TEmptyArr) by (destruct op, ta; simpl in Hbe; try discriminate; auto). subst ta.
    assert (Hne : op = BPlus \/ op = BAsterisk) by (destruct op; simpl in Hbe; try discriminate; auto).
    assert (W : wp ((let* va := load la in
                     match va with
                     | HNum y => let* z := load_num lb in bin_num op y z
                     | HStr y => let* z := load_str lb in bin_str op y z
                     | HBool y => let* z := load_bool lb in bin_bool op y z
                     | HArr xs => bin_arr op xs lb
                     | _ => internal "unknown operation (binary)"
                     end) s) (epost S0 G e t)).
    { wbind ltac:(eapply load_wp; eauto). intros va s1 [-> Hva]. inversion Hva; subst.
      eapply bin_arr_empty_wp; eauto. }
    destruct Hne as [->| ->]; exact W. }
  assert (EQ : forall b : bool, (op = BEq \/ op = BNotEq) ->
            wp ((let* d := depth_fuel in let* r := equals d la lb in alloc (HBool (if b then negb r else r))) s)
               (epost S0 G e t)).
  { intros b Hop. destruct (bin_ty_compat _ _ _ _ Hop Hbin) as [Hc ->].
    apply wp_depth_fuel.
    wbind ltac:(eapply equals_wp; eauto using deep_ok_value). intros r s1 ->.
    eapply alloc_epost; eauto. constructor. }
  assert (OTHER : op <> BEq -> op <> BNotEq ->
     wp ((let* va := load la in
           match va with
           | HNum y => let* z := load_num lb in bin_num op y z
           | HStr y => let* z := load_str lb in bin_str op y z
           | HBool y => let* z := load_bool lb in bin_bool op y z
           | HArr xs => bin_arr op xs lb
           | _ => internal "unknown operation (binary)"
           end) s) (epost S0 G e t)).
  { intros N1 N2.
    wbind ltac:(eapply load_wp; eauto). intros va s1 [-> Hva].
    inversion Hva; subst.
    - assert (tb = TNum) by (destruct op, tb; simpl in Hbin; congruence). subst.
      wbind ltac:(eapply load_num_wp; eauto). intros z s1 ->. eapply bin_num_wp; eauto.
    - assert (tb = TStr) by (destruct op, tb; simpl in Hbin; congruence). subst.
      wbind ltac:(eapply load_str_wp; eauto). intros z s1 ->. eapply bin_str_wp; eauto.
    - assert (tb = TBool) by (destruct op, tb; simpl in Hbin; congruence). subst.
      wbind ltac:(eapply load_bool_wp; eauto). intros z s1 ->. eapply bin_bool_wp; eauto.
    - destruct op; simpl in Hbin; congruence.
    - eapply bin_arr_wp; eauto.
    - eapply bin_arr_wp; eauto.
    - destruct op; simpl in Hbin; congruence.
    - destruct op; simpl in Hbin; congruence.
    - destruct op; simpl in Hbin; congruence. }
  destruct op; try (apply OTHER; discriminate).
  - exact (EQ false (or_introl eq_refl)).
  - exact (EQ true (or_intror eq_refl)).
Qed.

Lemma nth_error_lt_some {A} (l : list A) k : (k < List.length l)%nat -> exists x, nth_error l k = Some x.
Proof. intros H. destruct (nth_error l k) eqn:E; eauto. apply nth_error_None in E. lia. Qed.

Section ExprStep.
  Context (f : nat) (IHe : expr_sound f) (IHes : exprs_sound f) (IHc : call_sound f).

  Lemma eval_opt_wp P e o G S s :
    etyo (p_funcs P) G o = true -> s1_opt strict o = true -> genv_ok P G -> inv S G e s ->
    wp ((match o with
         | Some y => let* l := eval_expr f P e y in ret (Some l)
         | None => ret None
         end) s)
       (fun r s' => exists S', ext S S' /\ inv S' G e s' /\ forall l, r = Some l -> sfind S' l = Some TNum).
  Proof.
    intros Ht Hs HG Hi. destruct o as [y|].
    - simpl in Ht, Hs. apply opt_ty_eqb_eq in Ht.
      wbind ltac:(eapply IHe; eauto). intros l s1 (S1 & E1 & Hi1 & Hl1).
      apply wp_ret. exists S1; repeat split; auto; try apply Hi1. intros l0 H; inversion H; subst; auto.
    - apply wp_ret. exists S; repeat split; auto using ext_refl; try apply Hi. discriminate.
  Qed.

  Lemma emap_go_wp P e G u :
    genv_ok P G -> u <> TNone ->
    forall ps ts s S,
      etyps (p_funcs P) G ps = Some ts -> forallb (ty_eqb u) ts = true -> s1_pairs strict ps = true -> inv S G e s ->
      wp ((fix go (ps : list (str * expr)) : M (list (str * loc)) :=
             match ps with
             | [] => ret []
             | (k, a) :: t0 =>
                 let* l := eval_expr f P e a in
                 let* c := copy_or_ref value_depth l in
                 let* r := go t0 in ret ((k, c) :: r)
             end) ps s)
         (fun vals s' => exists S', ext S S' /\ inv S' G e s' /\ map fst vals = map fst ps /\
                                    Forall (fun kv => sfind S' (snd kv) = Some u) vals).
  Proof.
    intros HG Hu. induction ps as [|[k a] ps IHp]; intros ts s S Hty Hall Hs1 Hi.
    - apply wp_ret. exists S; split; [apply ext_refl|split; [exact Hi|split; [reflexivity|constructor]]].
    - cbn [etyps] in Hty. cbn [s1_pairs] in Hs1. apply andb_true_iff in Hs1 as [Hs1a Hs1b].
      destruct (ety (p_funcs P) G a) as [t|] eqn:Ea; [|discriminate].
      destruct (etyps (p_funcs P) G ps) as [ts'|] eqn:Eps; inversion Hty; subst.
      simpl in Hall. apply andb_true_iff in Hall as [Hall1 Hall2]. apply ty_eqb_eq in Hall1; subst t.
      wbind ltac:(eapply IHe; eauto). intros l s1 (S1 & E1 & Hi1 & Hl1).
      wbind ltac:(eapply copy_or_ref_wp; eauto; apply Hi1). intros c s2 (S2 & E2 & Hh2 & Hg2 & Hc).
      assert (Hi2 : inv S2 G e s2) by (eapply inv_step; eauto).
      wbind ltac:(eapply (IHp ts' s2 S2); eauto). intros r s3 (S3 & E3 & Hi3 & Hk3 & HF3).
      apply wp_ret. exists S3; split; [eauto using ext_trans|split; [exact Hi3|split]].
      + simpl. congruence.
      + constructor; auto.
  Qed.

  Lemma expr_step : expr_sound (S f).
  Proof.
    intros P e x G t S s Hty Hs1 HG Hi.
    destruct x; cbn [eval_expr];
      (apply wp_bind; eapply tick_inv; [exact Hi|]; clear s Hi; intros s Hi); pose proof Hi as [Hh He].
    - (* ENum *) inversion Hty; subst. eapply alloc_epost; [apply ext_refl|exact Hi|constructor|auto].
    - inversion Hty; subst. eapply alloc_epost; [apply ext_refl|exact Hi|constructor|auto].
    - inversion Hty; subst. eapply alloc_epost; [apply ext_refl|exact Hi|constructor|auto].
    - (* EVar *)
      cbn [ety] in Hty.
      destruct (negb (str_eqb name underscore) && opt_ty_eqb (slookup name G) t0 && ty_ann t0) eqn:E; [|discriminate].
      inversion Hty; subst. apply andb_true_iff in E as [E E3]. apply andb_true_iff in E as [E1 E2].
      apply negb_true_iff in E1. apply opt_ty_eqb_eq in E2.
      apply wp_bind. rewrite (lookup_full _ _ _ E1). simpl.
      destruct (env_get name (full e s)) as [l|] eqn:El; [|exact I].
      apply wp_ret. apply epost_ret; auto. eapply env_lookup_sound; eauto.
    - (* EAny *)
      cbn [ety] in Hty. cbn [s1_expr] in Hs1. apply andb_true_iff in Hs1 as [Hs1a Hs1b].
      destruct (opt_ty_eqb (ety (p_funcs P) G x) t0 && negb (is_any t0) && ty_ann t0) eqn:E; [|discriminate].
      inversion Hty; subst. apply andb_true_iff in E as [E E3]. apply andb_true_iff in E as [E1 E2].
      apply opt_ty_eqb_eq in E1.
      wbind ltac:(eapply IHe; eauto). intros l s1 (S1 & E1' & Hi1 & Hl1).
      wbind ltac:(eapply load_wp; eauto; apply Hi1). intros v s2 [-> Hc].
      assert (N1 : t0 <> TAny) by (intros ->; discriminate).
      assert (N2 : t0 <> TNone) by (apply ty_value_not_none, ty_ann_value; auto).
      destruct v; try (eapply alloc_epost; [exact E1'|exact Hi1|constructor; auto|auto]).
      inversion Hc; subst. congruence.
    - (* EArr *)
      rewrite ety_EArr in Hty. rewrite s1_expr_EArr in Hs1. apply andb_true_iff in Hs1 as [Hs1a Hs1b].
      destruct es as [|x es].
      + wbind ltac:(eapply (IHes P e [] G []); eauto; reflexivity). intros ls s1 (S1 & E1 & Hi1 & HF).
        inversion HF; subst.
        destruct t0; try discriminate.
        * destruct (ty_ann (TArr t0)) eqn:Ea; inversion Hty; subst.
          eapply alloc_epost; eauto using ty_ann_fr_ok1. constructor; constructor.
        * inversion Hty; subst. eapply alloc_epost; eauto. constructor.
      + destruct t0; try discriminate.
        destruct (etys (p_funcs P) G (x :: es)) as [ts|] eqn:Ets; [|discriminate].
        destruct (forallb (ty_eqb t0) ts && ty_ann (TArr t0)) eqn:Ea; inversion Hty; subst.
        apply andb_true_iff in Ea as [Ea1 Ea2].
        assert (Hnn : Forall (fun t => t <> TNone) ts).
        { apply ty_ann_value in Ea2. simpl in Ea2. clear -Ea1 Ea2.
          induction ts; constructor; simpl in Ea1; apply andb_true_iff in Ea1 as [H1 H2]; auto.
          apply ty_eqb_eq in H1; subst. auto using ty_value_not_none. }
        wbind ltac:(eapply IHes; eauto). intros ls s1 (S1 & E1 & Hi1 & HF).
        eapply alloc_epost; eauto using ty_ann_fr_ok1.
        constructor. eapply Forall2_same_ty; eauto.
    - (* EMap *)
      rewrite ety_EMap in Hty. rewrite s1_expr_EMap in Hs1. apply andb_true_iff in Hs1 as [Hs1a Hs1b].
      apply wp_depth_fuel.
      destruct pairs as [|p0 ps0].
      + cbn [bindM]. unfold bindM at 1. cbn [ret].
        destruct t0; try discriminate.
        * destruct (ty_ann (TMap t0)) eqn:Ea; inversion Hty; subst.
          eapply alloc_epost; eauto using ty_ann_fr_ok1, ext_refl. constructor; [apply Inv_oempty|constructor].
        * inversion Hty; subst. eapply alloc_epost; eauto using ext_refl. constructor; reflexivity.
      + destruct t0; try discriminate.
        destruct (etyps (p_funcs P) G (p0 :: ps0)) as [ts|] eqn:Ets; [|discriminate].
        destruct (forallb (ty_eqb t0) ts && ty_ann (TMap t0) && keys_nodup (map fst (p0 :: ps0))) eqn:Ea;
          inversion Hty; subst.
        apply andb_true_iff in Ea as [Ea Ea3]. apply andb_true_iff in Ea as [Ea1 Ea2].
        assert (Hu : t0 <> TNone).
        { apply ty_ann_value in Ea2. simpl in Ea2. auto using ty_value_not_none. }
        wbind ltac:(eapply (emap_go_wp P e G t0 HG Hu (p0 :: ps0)); eauto).
        intros vals s1 (S1 & E1 & Hi1 & Hk1 & HF1).
        eapply alloc_epost; eauto using ty_ann_fr_ok1.
        constructor; simpl; auto.
        apply keys_nodup_NoDup in Ea3.
        unfold Inv, keys; simpl. rewrite Hk1. repeat split; auto.
    - (* ECall *)
      rewrite ety_ECall in Hty. rewrite s1_expr_ECall in Hs1. apply andb_true_iff in Hs1 as [Hs1a Hs1b].
      destruct (lookup_sig (p_funcs P) name) as [sg|] eqn:Esg; [|discriminate].
      destruct (etys (p_funcs P) G args) as [ts|] eqn:Ets; [|discriminate].
      destruct (sig_args_ok sg ts && ty_eqb (fs_ret sg) t0) eqn:Ea; inversion Hty; subst.
      apply andb_true_iff in Ea as [Ea1 Ea2]. apply ty_eqb_eq in Ea2.
      wbind ltac:(eapply IHc; eauto). intros r s1 (S1 & E1 & Hi1 & Hr).
      destruct r as [l|].
      + apply wp_ret. exists S1; split; [auto|split; [exact Hi1|congruence]].
      + rewrite <- Ea2, Hr. eapply alloc_epost; eauto. constructor.
    - (* EUn *)
      cbn [ety] in Hty. cbn [s1_expr] in Hs1.
      destruct (ety (p_funcs P) G x) as [tx|] eqn:Ex; [|destruct op; discriminate].
      wbind ltac:(eapply IHe; eauto). intros l s1 (S1 & E1 & Hi1 & Hl1).
      wbind ltac:(eapply load_wp; eauto; apply Hi1). intros v s2 [-> Hc].
      destruct op; destruct tx; try discriminate; inversion Hty; subst; inversion Hc; subst;
        (eapply alloc_epost; [exact E1|exact Hi1|constructor|auto]).
    - (* EBin *)
      cbn [ety] in Hty. cbn [s1_expr] in Hs1.
      apply andb_true_iff in Hs1 as [Hs1 Hs1c]. apply andb_true_iff in Hs1 as [Hs1a Hs1b].
      destruct (ety (p_funcs P) G x1) as [ta|] eqn:Ea; [|discriminate].
      destruct (ety (p_funcs P) G x2) as [tb|] eqn:Eb; [|discriminate].
      destruct ((opt_ty_eqb (bin_ty op ta tb) t0 || bin_empty op ta tb t0) && ty_ann t0) eqn:Ec; inversion Hty; subst.
      apply andb_true_iff in Ec as [Ec1 Ec2].
      assert (Hb : bin_ty op ta tb = Some t \/ bin_empty op ta tb t = true).
      { apply orb_true_iff in Ec1 as [H|H]; [left; apply opt_ty_eqb_eq; auto|right; auto]. }
      pose proof (ty_ann_fr_ok1 _ Ec2 Hs1a) as Hok.
      wbind ltac:(eapply IHe; eauto). intros la s1 (S1 & E1 & Hi1 & Hla).
      wbind ltac:(eapply load_wp; eauto; apply Hi1). intros va0 s2 [-> Hva0].
      match goal with |- context [if ?c then ret la else _] => destruct c eqn:Esh end.
      + (* short circuit: the left operand is a bool *)
        assert (ta = TBool /\ tb = TBool) as [-> ->].
        { destruct op; try discriminate; destruct va0; try discriminate; inversion Hva0; subst;
            destruct Hb as [Hb|Hb]; destruct tb; simpl in Hb; try discriminate; auto. }
        apply wp_bind. apply wp_ret.
        eapply (ebin_tail S S1); eauto.
      + wbind ltac:(eapply (IHe P e x2 G tb S1); eauto). intros lb s2 (S2 & E2 & Hi2 & Hlb).
        eapply (ebin_tail S S2); eauto using ext_trans.
    - (* EIndex *)
      cbn [ety] in Hty. cbn [s1_expr] in Hs1.
      apply andb_true_iff in Hs1 as [Hs1 Hs1c]. apply andb_true_iff in Hs1 as [Hs1a Hs1b].
      destruct (ety (p_funcs P) G x1) as [ta|] eqn:Ea; [|discriminate].
      destruct (ety (p_funcs P) G x2) as [ti|] eqn:Ei; [|destruct ta; discriminate].
      wbind ltac:(eapply IHe; eauto). intros la s1 (S1 & E1 & Hi1 & Hla).
      wbind ltac:(eapply (IHe P e x2 G ti S1); eauto). intros li s2 (S2 & E2 & Hi2 & Hli).
      pose proof Hi2 as [Hh2 He2].
      wbind ltac:(eapply load_wp; eauto). intros va s3 [-> Hva].
      destruct ta; try discriminate; destruct ti; try discriminate.
      + (* string *)
        destruct (ty_eqb TStr t0) eqn:Et; inversion Hty; subst. apply ty_eqb_eq in Et; subst t.
        inversion Hva; subst.
        wbind ltac:(eapply load_num_wp; eauto). intros fi s3 ->.
        apply wp_bind. apply lift_norm_wp. intros k Hk. apply normalize_index_lt in Hk.
        destruct (nth_error_lt_some _ _ Hk) as (c & ->).
        eapply (alloc_epost S S2); eauto using ext_trans. constructor.
      + (* array *)
        destruct (ty_eqb ta t0 && ty_ann t0) eqn:Et; inversion Hty; subst.
        apply andb_true_iff in Et as [Et1 Et2]. apply ty_eqb_eq in Et1; subst ta.
        inversion Hva; subst.
        wbind ltac:(eapply load_num_wp; eauto). intros fi s3 ->.
        apply wp_bind. apply lift_norm_wp. intros k Hk. apply normalize_index_lt in Hk.
        destruct (nth_error_lt_some _ _ Hk) as (c & Hc). rewrite Hc.
        apply wp_ret. exists S2; split; [eauto using ext_trans|split; [exact Hi2|]].
        match goal with HF : Forall _ els |- _ => rewrite Forall_forall in HF; apply HF end.
        eapply nth_error_In; eauto.
      + (* map *)
        destruct (ty_eqb ta t0 && ty_ann t0) eqn:Et; inversion Hty; subst.
        apply andb_true_iff in Et as [Et1 Et2]. apply ty_eqb_eq in Et1; subst ta.
        inversion Hva; subst.
        wbind ltac:(eapply load_wp; eauto). intros vi s3 [-> Hvi]. inversion Hvi; subst.
        unfold oget. destruct (plookup x (pairs m)) as [l|] eqn:El; [|exact I].
        apply wp_ret. exists S2; split; [eauto using ext_trans|split; [exact Hi2|]].
        eauto using map_entry_typed.
    - (* ESlice *)
      rewrite ety_ESlice in Hty. rewrite s1_expr_ESlice in Hs1.
      apply andb_true_iff in Hs1 as [Hs1 Hs1d]. apply andb_true_iff in Hs1 as [Hs1 Hs1c].
      apply andb_true_iff in Hs1 as [Hs1a Hs1b].
      destruct (ety (p_funcs P) G x) as [ta|] eqn:Ea; [|discriminate].
      assert (Hc : ty_eqb ta t0 && etyo (p_funcs P) G lo && etyo (p_funcs P) G hi = true /\ t = t0
                   /\ (ta = TStr \/ (exists u, ta = TArr u) \/ ta = TEmptyArr)).
      { destruct ta; try discriminate;
          (destruct (ty_eqb _ t0 && etyo (p_funcs P) G lo && etyo (p_funcs P) G hi); inversion Hty; eauto 6). }
      destruct Hc as (Hc & -> & Hta). apply andb_true_iff in Hc as [Hc Hc3]. apply andb_true_iff in Hc as [Hc1 Hc2].
      apply ty_eqb_eq in Hc1; subst ta.
      wbind ltac:(eapply IHe; eauto). intros la s1 (S1 & E1 & Hi1 & Hla).
      wbind ltac:(eapply eval_opt_wp; eauto). intros llo s2 (S2 & E2 & Hi2 & Hlo).
      wbind ltac:(eapply eval_opt_wp; eauto). intros lhi s3 (S3 & E3 & Hi3 & Hhi).
      pose proof Hi3 as [Hh3 He3].
      wbind ltac:(eapply load_wp; [exact Hh3|]; eauto). intros va s4 [-> Hva].
      destruct Hta as [->|[(u & ->)| ->]]; inversion Hva; subst.
      + wbind ltac:(eapply slice_bounds_wp; eauto). intros [a b] s4 ->.
        eapply (alloc_epost S S3); eauto using ext_trans. constructor.
      + wbind ltac:(eapply slice_bounds_wp; eauto). intros [a b] s4 ->.
        apply wp_depth_fuel.
        assert (Hnu : u <> TNone).
        { eapply (ok1_elem (TArr u) u); [left; reflexivity|]. eapply ho_tys; [exact Hh3|]; eauto. }
        wbind ltac:(eapply mapM_copy_wp with (u := u); eauto using Forall_firstn, Forall_skipn).
        intros els' s5 (S5 & E5 & Hh5 & Hg5 & HF5).
        eapply (alloc_epost S S5); eauto using ext_trans.
        * eapply inv_step; eauto.
        * constructor; auto.
        * eapply ho_tys; [exact Hh3|]. eauto.
      + (* a slice of the untyped [] *)
        wbind ltac:(eapply slice_bounds_wp; eauto). intros [a b] s4 ->.
        apply wp_depth_fuel.
        rewrite firstn_skipn_nil. cbn [mapM]. unfold bindM at 1. cbn [ret].
        eapply (alloc_epost S S3); eauto using ext_trans; constructor.
    - (* EDot *)
      cbn [ety] in Hty. cbn [s1_expr] in Hs1. apply andb_true_iff in Hs1 as [Hs1a Hs1b].
      destruct (ety (p_funcs P) G x) as [ta|] eqn:Ea; [|discriminate].
      destruct ta; try discriminate.
      destruct (ty_eqb ta t0 && ty_ann t0) eqn:Et; inversion Hty; subst.
      apply andb_true_iff in Et as [Et1 Et2]. apply ty_eqb_eq in Et1; subst ta.
      wbind ltac:(eapply IHe; eauto). intros la s1 (S1 & E1 & Hi1 & Hla).
      wbind ltac:(eapply load_wp; eauto; apply Hi1). intros va s2 [-> Hva]. inversion Hva; subst.
      unfold oget. destruct (plookup key (pairs m)) as [l|] eqn:El; [|exact I].
      apply wp_ret. exists S1; split; [auto|split; [exact Hi1|]]. eauto using map_entry_typed.
    - (* EGroup *) cbn [ety] in Hty. cbn [s1_expr] in Hs1. eapply IHe; eauto.
    - (* EAssert *)
      cbn [ety] in Hty. cbn [s1_expr] in Hs1. apply andb_true_iff in Hs1 as [Hs1a Hs1b].
      destruct (ety (p_funcs P) G x) as [ta|] eqn:Ea; [|discriminate].
      destruct ta; try discriminate.
      destruct (negb (is_any t0) && ty_decl t0) eqn:Ec; inversion Hty; subst.
      apply andb_true_iff in Ec as [Ec1 Ec2]. unfold ty_decl in Ec2. apply andb_true_iff in Ec2 as [Ec2 Ec3].
      wbind ltac:(eapply IHe; eauto). intros la s1 (S1 & E1 & Hi1 & Hla).
      wbind ltac:(eapply load_wp; eauto; apply Hi1). intros va s2 [-> Hva]. inversion Hva; subst.
      destruct (ty_eqb (ty_shape u) (ty_shape t)) eqn:Esh; [|exact I].
      apply assert_shape in Esh; auto.
      2:{ destruct (ok1_dyn _ (ho_tys _ _ (proj1 Hi1) _ _ H1)); congruence. }
      subst u. apply wp_ret. exists S1; auto.
  Qed.
End ExprStep.

Lemma args_ok_value ps ts : args_ok ps None ts = true -> Forall (fun t => t <> TNone) ts.
Proof.
  revert ts; induction ps as [|p ps IH]; intros [|a ts]; simpl; intros H; try discriminate; constructor.
  - apply andb_true_iff in H as [H _]. apply ty_value_not_none. eapply arg_ok_value; eauto.
  - apply andb_true_iff in H as [_ H]. auto.
Qed.

Lemma sig_args_ok_value sg ts : sig_args_ok sg ts = true -> Forall (fun t => t <> TNone) ts.
Proof.
  unfold sig_args_ok. destruct (fs_var sg) as [v|].
  - destruct (fs_params sg); [|discriminate]. intros H.
    induction ts; constructor; simpl in H; apply andb_true_iff in H as [H1 H2]; auto.
    apply ty_value_not_none. eapply arg_ok_value; eauto.
  - apply args_ok_value.
Qed.

Section ExprsStep.
  Context (f : nat) (IHe : expr_sound f) (IHes : exprs_sound f).

  Lemma exprs_step : exprs_sound (S f).
  Proof.
    intros P e es G ts S s Hty Hs1 Hnn HG Hi. cbn [eval_exprs]. destruct es as [|x es].
    - simpl in Hty; inversion Hty; subst. apply wp_ret. exists S; repeat split; auto using ext_refl; apply Hi.
    - cbn [etys] in Hty. cbn [s1_exprs] in Hs1. apply andb_true_iff in Hs1 as [Hs1a Hs1b].
      destruct (ety (p_funcs P) G x) as [t|] eqn:Ex; [|discriminate].
      destruct (etys (p_funcs P) G es) as [ts'|] eqn:Ees; inversion Hty; subst.
      inversion Hnn; subst.
      wbind ltac:(eapply IHe; eauto). intros v s1 (S1 & E1 & Hi1 & Hv).
      apply wp_depth_fuel.
      wbind ltac:(eapply copy_or_ref_wp; eauto; apply Hi1). intros c s2 (S2 & E2 & Hh2 & Hg2 & Hc).
      assert (Hi2 : inv S2 G e s2) by (eapply inv_step; eauto).
      wbind ltac:(eapply (IHes P e es G ts' S2); eauto). intros r s3 (S3 & E3 & Hi3 & HF).
      apply wp_ret. exists S3; split; [eauto using ext_trans|split; [exact Hi3|]].
      constructor; auto.
  Qed.

End ExprsStep.

(* ---------- statements: checker equations ---------- *)
Section CondsWt.
  Context (F : list funcdef) (ret : option ty) (il : bool) (G : tyenv).
  Fixpoint conds_wt (cs : list (expr * list stmt)) : bool :=
    match cs with
    | [] => true
    | (c, body) :: r =>
        opt_ty_eqb (ety F (push G) c) TBool && is_some (wt_stmts F ret il (push G) body) && conds_wt r
    end.
End CondsWt.

Fixpoint conds_s1 (cs : list (expr * list stmt)) : bool :=
  match cs with [] => true | (c, b) :: r => s1_expr strict c && s1_stmts strict b && conds_s1 r end.

Fixpoint conds_ret (cs : list (expr * list stmt)) : bool :=
  match cs with [] => true | (_, b) :: t => always_returns b && conds_ret t end.

Lemma stmt_returns_SIf conds els : stmt_returns (SIf conds els) =
  match els with Some b => conds_ret conds && always_returns b | None => false end.
Proof. destruct els; reflexivity. Qed.

Lemma wt_stmt_SIf F ret il G conds els : wt_stmt F ret il G (SIf conds els) =
  if conds_wt F ret il G conds &&
     match els with Some body => is_some (wt_stmts F ret il (push G) body) | None => true end
  then Some G else None.
Proof. reflexivity. Qed.

Lemma wt_stmt_SWhile F ret il G c body : wt_stmt F ret il G (SWhile c body) =
  if opt_ty_eqb (ety F (push G) c) TBool && is_some (wt_stmts F ret true (push G) body) then Some G else None.
Proof. reflexivity. Qed.

Lemma wt_stmt_SFor F ret il G var vt r body : wt_stmt F ret il G (SFor var vt r body) =
      let G1 := push G in
      let rng : option ty :=
        match r with
        | RStep start stop step =>
            if etyo F G1 start && opt_ty_eqb (ety F G1 stop) TNum && etyo F G1 step then Some TNum else None
        | RExpr y => match ety F G1 y with Some t => range_var_ty t | None => None end
        end in
      match rng with
      | None => None
      | Some t =>
          let G2 := match var with
                    | Some v => if binder_ok v && ty_eqb vt t && ty_decl vt then Some ([(v, vt)] :: G) else None
                    | None => Some ([] :: G)
                    end in
          match G2 with
          | Some G2 => if is_some (wt_stmts F ret true (push G2) body) then Some G else None
          | None => None
          end
      end.
Proof. reflexivity. Qed.

Lemma s1_stmt_SIf conds els : s1_stmt strict (SIf conds els) =
  conds_s1 conds && match els with Some b => s1_stmts strict b | None => true end.
Proof. reflexivity. Qed.
Lemma s1_stmt_SWhile c body : s1_stmt strict (SWhile c body) = s1_expr strict c && s1_stmts strict body.
Proof. reflexivity. Qed.
Lemma s1_stmt_SFor var vt r body : s1_stmt strict (SFor var vt r body) =
      match var with Some _ => fr_ty strict vt | None => true end
      && match r with
         | RStep a b c => s1_opt strict a && s1_expr strict b && s1_opt strict c
         | RExpr y => s1_expr strict y
         end
      && s1_stmts strict body.
Proof. reflexivity. Qed.
Lemma s1_stmt_SCallStmt name args : s1_stmt strict (SCallStmt name args) = call_frag name && s1_exprs strict args.
Proof. reflexivity. Qed.

(* ---------- statements: invariant bookkeeping ---------- *)
Lemma grows_inv sf0 T G' : grows (sf0 :: T) G' -> exists sf, G' = sf :: T /\ fgrows sf0 sf.
Proof. intros (a & c & T' & E & -> & H). inversion E; subst. eauto. Qed.

Lemma inv_nonempty S G e s : inv S G e s -> G <> [].
Proof. intros [_ He] ->. apply env_ok_length in He. simpl in He. lia. Qed.

Lemma sig_ok_ext S S' ret il sig : ext S S' -> sig_ok S ret il sig -> sig_ok S' ret il sig.
Proof. intros E. destruct sig as [| |[l|]]; simpl; auto. intros (t & H1 & H2); eauto. Qed.

Lemma sig_ok_noloop S ret il sig : sig_ok S ret false sig -> sig_ok S ret il sig.
Proof. destruct sig as [| |[l|]]; simpl; auto. discriminate. Qed.

Lemma must_ret_false sig : must_ret false sig.
Proof. intros H; discriminate. Qed.

Lemma spost_of_kpost S G e ret il sig e' s' :
  G <> [] -> kpost S G e ret false (sig, e') s' -> spost S G G e ret il false (sig, e') s'.
Proof.
  intros HG (S' & E & [Hh He] & Hl & Hs). exists S', G. simpl in *.
  split; [auto|]. split; [auto|]. split; [auto using grows_refl|]. split; [auto|]. split; [auto|].
  split; [auto|]. split; [auto using sig_ok_noloop|apply must_ret_false].
Qed.

(* leaving a block: the frame pushed for it is dropped *)
Lemma pop_post S G Gb e ret il rt r s' :
  G <> [] -> spost S (push G) Gb ([] :: e) ret il rt r s' ->
  exists S', ext S S' /\ inv S' G (tl (snd r)) s' /\ List.length (tl (snd r)) = List.length e /\
             sig_ok S' ret il (fst r) /\ must_ret rt (fst r).
Proof.
  intros HG (S' & G'' & E & Hh & Hg & He & Hl & _ & Hs & Hm).
  apply grows_inv in Hg as (sf & -> & _).
  apply env_ok_pop in He as [He Hne]; auto.
  exists S'; split; auto. split; [split; auto|]. split; [|split; auto].
  destruct (snd r); [congruence|]. simpl in *. injection Hl; auto.
Qed.

Lemma inv_push S G e s : inv S G e s -> inv S (push G) ([] :: e) s.
Proof. intros [Hh He]. split; auto. apply env_ok_push; auto. Qed.

Lemma inv_unpush S sf G d e s : inv S (sf :: G) (d :: e) s -> inv S G e s.
Proof. intros [Hh He]. split; auto. inversion He; subst; auto. Qed.

Lemma fgrows_sub a b : fgrows a b -> sframe_sub a b.
Proof.
  induction 1 as [|sf n t Hg IH Hn Hb]; intros k u Hk; auto.
  simpl. destruct (str_eqb n k) eqn:E; [|auto].
  apply str_eqb_eq in E; subst. rewrite (IH _ _ Hk) in Hn. discriminate.
Qed.

Lemma gsub_grows G G' : grows G G' -> gsub G' -> gsub G.
Proof.
  intros (a & c & T & -> & -> & H). destruct T; simpl; auto.
  intros Hs k u Hk. apply Hs. eapply fgrows_sub; eauto.
Qed.

Lemma gsub_push_result G Gb : grows (push G) Gb -> G <> [] -> gsub Gb.
Proof. intros Hg HG. apply grows_inv in Hg as (sf & -> & _). destruct G; [congruence|exact I]. Qed.

Lemma wt_stmt_grows F ret il G st G' : wt_stmt F ret il G st = Some G' -> G <> [] -> grows G G'.
Proof.
  intros H HG.
  assert (SAME : G' = G -> grows G G') by (intros ->; apply grows_refl; auto).
  destruct st.
  - cbn [wt_stmt] in H. destruct G as [|fr G0]; [discriminate|].
    match type of H with (if ?c then _ else _) = _ => destruct c eqn:Ec; inversion H; subst end.
    apply andb_true_iff in Ec as [Ec _]. apply andb_true_iff in Ec as [Ec _]. apply andb_true_iff in Ec as [Ec1 Ec2].
    exists fr, ((name, t) :: fr), G0. repeat split; auto. constructor; [constructor| |auto].
    apply negb_true_iff in Ec2. destruct (sget name fr); [discriminate|auto].
  - cbn [wt_stmt] in H. apply SAME.
    repeat match type of H with
           | match ?x with _ => _ end = _ => destruct x; try discriminate
           | (if ?c then _ else _) = _ => destruct c; try discriminate
           end. inversion H; auto.
  - cbn [wt_stmt] in H. apply SAME. destruct (is_some _); inversion H; auto.
  - cbn [wt_stmt] in H. apply SAME.
    repeat match type of H with
           | match ?x with _ => _ end = _ => destruct x; try discriminate
           | (if ?c then _ else _) = _ => destruct c; try discriminate
           end; inversion H; auto.
  - cbn [wt_stmt] in H. apply SAME. destruct il; inversion H; auto.
  - rewrite wt_stmt_SIf in H. apply SAME.
    match type of H with (if ?c then _ else _) = _ => destruct c; inversion H; auto end.
  - rewrite wt_stmt_SWhile in H. apply SAME.
    match type of H with (if ?c then _ else _) = _ => destruct c; inversion H; auto end.
  - rewrite wt_stmt_SFor in H. cbv zeta in H. apply SAME.
    repeat match type of H with
           | match ?x with _ => _ end = _ => destruct x; try discriminate
           | (if ?c then _ else _) = _ => destruct c; try discriminate
           end; inversion H; auto.
  - inversion H; subst. apply SAME; auto.
Qed.

Lemma grows_nonempty G G' : grows G G' -> G' <> [].
Proof. intros (a & c & T & -> & -> & _). discriminate. Qed.

Lemma wt_stmts_grows F ret il : forall l G G', wt_stmts F ret il G l = Some G' -> G <> [] -> grows G G'.
Proof.
  induction l as [|st l IH]; intros G G' H HG; simpl in H.
  - inversion H; subst. apply grows_refl; auto.
  - destruct (wt_stmt F ret il G st) as [G1|] eqn:E1; [|discriminate].
    pose proof (wt_stmt_grows _ _ _ _ _ _ E1 HG) as Hg1.
    eapply grows_trans; eauto. eapply IH; eauto using grows_nonempty.
Qed.

Lemma list_set_Forall {A} (P : A -> Prop) l k x : Forall P l -> P x -> Forall P (list_set l k x).
Proof.
  intros H Hx; revert k; induction H; intros k; simpl; [constructor|].
  destruct k; constructor; auto.
Qed.

Lemma ty_decl_not_none t : ty_decl t = true -> t <> TNone.
Proof. unfold ty_decl. intros H E; subst; discriminate. Qed.

Lemma rg_ok_ext S S' named rg : ext S S' -> rg_ok S named rg -> rg_ok S' named rg.
Proof.
  intros E. destruct rg; simpl; auto.
  - intros [(u & H1 & H2)|H]; [left; eauto|right; auto].
  - intros [[(u & H1)|H] H2]; (split; [|exact H2]); [left; eauto|right; auto].
Qed.

(* ---------- the test built-in ---------- *)
Definition run_test_body (d : nat) (args : list loc) : M unit :=
  let validate : M unit :=
    match args with
    | [] => fail (EPanic PkBadArguments)
    | [a] => let* v := unwrap_any a in match v with HBool _ => ret tt | _ => fail (EPanic PkBadArguments) end
    | _ :: _ :: rest =>
        match rest with
        | m :: _ => let* v := unwrap_any m in match v with HStr _ => ret tt | _ => fail (EPanic PkBadArguments) end
        | [] => ret tt
        end
    end in
  fun s0 =>
    let bump (failed : bool) (s : state) :=
      upd_tests (Datatypes.S (st_total s)) (if failed then Datatypes.S (st_fails s) else st_fails s) s in
    match validate s0 with
    | (Er e, s1) => (Er e, bump false s1)
    | (Ok _, s1) =>
        let verdict : M bool :=
          match args with
          | [a] => let* v := unwrap_any a in match v with HBool b => ret b | _ => crash "test: not a bool" end
          | w :: g :: _ => same d w g
          | [] => ret true
          end in
        match verdict s1 with
        | (Er e, s2) => (Er e, bump false s2)
        | (Ok true, s2) => (Ok tt, bump false s2)
        | (Ok false, s2) =>
            let s3 := bump true s2 in
            if st_failfast s3 then (Er ETestFail, s3) else (Ok tt, s3)
        end
    end.

Lemma run_test_unfold args s : run_test args s = run_test_body value_depth args s.
Proof. reflexivity. Qed.

Lemma run_test_body_wp d S G e s args :
  inv S G e s -> Forall (fun l => sfind S l = Some TAny) args -> (strict = true -> deep_ok TAny d) ->
  wp (run_test_body d args s) (fun _ s' => inv S G e s').
Proof.
  intros Hi Hall Hd. pose proof Hi as [Hh He].
  assert (BUMP : forall n m, inv S G e (upd_tests n m s)) by (intros; eapply inv_same; eauto).
  pose proof (proj1 (Forall_forall _ _) Hall) as Hin.
  assert (UW : forall a, In a args -> wp (unwrap_any a s) (fun _ s' => s' = s)).
  { intros a Ha. eapply unwrap_any_wp; eauto. }
  unfold run_test_body. cbv zeta.
  destruct args as [|a [|b rest]].
  - exact I.
  - pose proof (UW a (or_introl eq_refl)) as Ua. unfold bindM, wp in *.
    destruct (unwrap_any a s) as [[v|er] s1] eqn:Eu; [subst s1|exact Ua].
    destruct v; try exact I. unfold ret at 1. cbv iota beta. rewrite Eu. unfold ret.
    destruct b; [apply BUMP|]. cbn [st_failfast upd_tests]. destruct (st_failfast s); [exact I|apply BUMP].
  - assert (SM : wp (same d a b s) (fun _ s' => s' = s)).
    { eapply (same_wp d S s a b TAny TAny); [auto|apply Hin; left; reflexivity|apply Hin; right; left; reflexivity|auto]. }
    assert (TAIL : forall s1, s1 = s ->
      wp (match same d a b s1 with
          | (Er e0, s2) => (Er e0, upd_tests (Datatypes.S (st_total s2)) (st_fails s2) s2)
          | (Ok true, s2) => (Ok tt, upd_tests (Datatypes.S (st_total s2)) (st_fails s2) s2)
          | (Ok false, s2) =>
              if st_failfast (upd_tests (Datatypes.S (st_total s2)) (Datatypes.S (st_fails s2)) s2)
              then (Er ETestFail, upd_tests (Datatypes.S (st_total s2)) (Datatypes.S (st_fails s2)) s2)
              else (Ok tt, upd_tests (Datatypes.S (st_total s2)) (Datatypes.S (st_fails s2)) s2)
          end) (fun _ s' => inv S G e s')).
    { intros s1 ->. unfold wp in SM |- *.
      destruct (same d a b s) as [[r|er] s2]; [subst s2|exact SM].
      destruct r; [apply BUMP|]. cbn [st_failfast upd_tests]. destruct (st_failfast s); [exact I|apply BUMP]. }
    destruct rest as [|m rest'].
    + unfold ret at 1. apply TAIL; reflexivity.
    + pose proof (UW m (or_intror (or_intror (or_introl eq_refl)))) as Um. unfold bindM at 1.
      unfold wp in Um. destruct (unwrap_any m s) as [[v|er] s1] eqn:Eu; [subst s1|exact Um].
      destruct v; try exact I; unfold ret at 1; apply TAIL; reflexivity.
Qed.

Lemma run_test_wp S G e s args :
  inv S G e s -> Forall (fun l => sfind S l = Some TAny) args ->
  wp (run_test args s) (fun _ s' => inv S G e s').
Proof.
  intros Hi Hall. rewrite run_test_unfold. eapply run_test_body_wp; eauto.
  intros Hs. eapply deep_ok_of_ok1; auto.
Qed.

(* ---------- calls of user functions ---------- *)
Lemma call_frag_cases name : call_frag name = true ->
  name = n_test \/ (str_eqb name n_test = false /\ (mem_str name s1_builtins = true \/ builtin_sig name = None)).
Proof.
  unfold call_frag. intros H.
  destruct (str_eqb name n_test) eqn:E; [left; apply str_eqb_eq; auto|right; split; auto].
  rewrite orb_false_r in H. apply orb_true_iff in H as [H|H]; auto.
  right. destruct (builtin_sig name); [discriminate|auto].
Qed.

Lemma forallb_any_typed (S : sty) vals ts :
  Forall2 (fun l t => sfind S l = Some t) vals ts -> forallb (arg_ok TAny) ts = true ->
  Forall (fun l => sfind S l = Some TAny) vals.
Proof.
  induction 1 as [|l t ls ts' Hl _ IH]; cbn [forallb]; intros H; constructor; apply andb_true_iff in H as [H1 H2]; auto.
  apply arg_ok_basic in H1; [congruence|discriminate|discriminate].
Qed.

Lemma builtin_some_sig name e vals m : builtin name e vals = Some m -> builtin_sig name <> None.
Proof.
  unfold builtin. intros Hb.
  repeat match type of Hb with
  | (if name_is ?n ?lit then Some _ else _) = Some _ =>
      let E := fresh "E" in
      destruct (name_is n lit) eqn:E;
      [unfold name_is in E; apply str_eqb_eq in E; subst n; vm_compute; discriminate|clear E]
  end.
  destruct (existsb (str_eqb name) gfx_num_names) eqn:X1.
  { apply existsb_exists in X1 as (x & Hin & Hx). apply str_eqb_eq in Hx; subst x.
    simpl in Hin. repeat destruct Hin as [<-|Hin]; try contradiction; vm_compute; discriminate. }
  destruct (existsb (str_eqb name) gfx_xy_names) eqn:X2.
  { apply existsb_exists in X2 as (x & Hin & Hx). apply str_eqb_eq in Hx; subst x.
    simpl in Hin. repeat destruct Hin as [<-|Hin]; try contradiction; vm_compute; discriminate. }
  destruct (existsb (str_eqb name) gfx_str_names) eqn:X3; [|eapply pure_builtin_sig; eauto].
  apply existsb_exists in X3 as (x & Hin & Hx). apply str_eqb_eq in Hx; subst x.
  simpl in Hin. repeat destruct Hin as [<-|Hin]; try contradiction; vm_compute; discriminate.
Qed.

Lemma find_func_In n F fd : find_func n F = Some fd -> In fd F.
Proof.
  induction F as [|f F IH]; simpl; [discriminate|].
  destruct (str_eqb (fn_name f) n); [intros H; inversion H; auto|auto].
Qed.

Lemma ty_proper_not_gen p : ty_proper p = true -> p <> TGenArr /\ p <> TGenMap.
Proof. intros H; split; intros ->; discriminate. Qed.

Lemma args_ok_eq ps ts :
  Forall (fun p => ty_proper p = true) ps -> args_ok ps None ts = true -> ts = ps.
Proof.
  intros H; revert ts; induction H as [|p ps Hp _ IH]; intros [|a ts]; simpl; try discriminate; auto.
  intros Ha. apply andb_true_iff in Ha as [H1 H2]. destruct (ty_proper_not_gen _ Hp).
  apply arg_ok_basic in H1; auto. subst. f_equal; auto.
Qed.

Definition nz (p : str * ty) : bool := negb (str_eqb (fst p) underscore).

Lemma params_frame_eq ps : params_frame ps = rev (filter nz ps).
Proof. reflexivity. Qed.

Lemma bind_params_ok S : forall ps args sf fr s,
  Forall2 (fun l t => sfind S l = Some t) args (map snd ps) ->
  frame_ok S sf fr ->
  Forall (fun p => nz p = true -> sget (fst p) sf = None) ps ->
  names_distinct (map fst ps) = true ->
  wp (bind_params ps args fr s)
     (fun r s' => s' = s /\ frame_ok S (rev (filter nz ps) ++ sf) (fst r)).
Proof.
  induction ps as [|[n t] ps IH]; intros args sf fr s HF Hfr Hfresh Hd.
  - simpl. split; auto.
  - simpl in HF. inversion HF as [|a t' rest ts' Ha HF']; subst. cbn [bind_params].
    simpl in Hd. apply andb_true_iff in Hd as [Hd1 Hd2]. inversion Hfresh as [|? ? Hf1 Hf2]; subst.
    simpl. unfold nz at 1. simpl.
    destruct (str_eqb n underscore) eqn:En; simpl.
    + eapply IH; eauto.
    + eapply wp_mono; [eapply (IH rest ((n, t) :: sf) (frame_set n a fr) s); eauto|].
      * apply frame_ok_decl; auto. apply Hf1. unfold nz; simpl. rewrite En. reflexivity.
      * rewrite Forall_forall in Hf2 |- *. intros [k tk] Hin Hk. simpl.
        destruct (str_eqb n k) eqn:Enk.
        -- apply str_eqb_eq in Enk; subst k. exfalso.
           apply negb_true_iff in Hd1. assert (In n (map fst ps)) by (apply in_map_iff; exists (n, tk); auto).
           apply mem_str_In in H. congruence.
        -- apply (Hf2 _ Hin Hk).
      * cbv beta. intros r s' [-> Hr]. split; auto. rewrite <- app_assoc. exact Hr.
Qed.

Lemma sget_In n sf t : sget n sf = Some t -> In (n, t) sf.
Proof.
  induction sf as [|[k u] sf IH]; simpl; [discriminate|].
  destruct (str_eqb k n) eqn:E; auto. apply str_eqb_eq in E; subst. intros H; inversion H; auto.
Qed.

Lemma params_frame_not_reserved ps n :
  forallb param_ok ps = true -> (n = n_err \/ n = n_errmsg) -> sget n (params_frame ps) = None.
Proof.
  intros Hp Hn. destruct (sget n (params_frame ps)) as [t|] eqn:E; auto. exfalso.
  apply sget_In in E. unfold params_frame in E. apply in_rev in E. apply filter_In in E as [Hin Hnz].
  rewrite forallb_forall in Hp. specialize (Hp _ Hin). unfold param_ok in Hp. simpl in Hp, Hnz.
  apply andb_true_iff in Hp as [Hp _]. apply negb_true_iff in Hnz. rewrite Hnz in Hp. simpl in Hp.
  apply binder_not_reserved in Hp as (N1 & N2 & _). destruct Hn; congruence.
Qed.

Section CallStep.
  Context (f : nat) (IHes : exprs_sound f) (IHblock : block_sound f).

  Lemma call_step : call_sound (S f).
  Proof.
    intros P e name args G sg ts S s Hsig Hty Hok Hm Hs1 HG Hi. cbn [eval_call].
    wbind ltac:(eapply IHes; eauto using sig_args_ok_value). intros vals s1 (S1 & E1 & Hi1 & HF).
    destruct (call_frag_cases _ Hm) as [->|[Htest Hm']].
    { (* test *)
      change (str_eqb n_test n_test) with true. cbv iota.
      unfold lookup_sig in Hsig. vm_compute in Hsig. inversion Hsig; subst sg. clear Hsig.
      unfold sig_args_ok in Hok. cbn [fs_var fs_params] in Hok.
      wbind ltac:(eapply run_test_wp; eauto using forallb_any_typed). intros _ s2 Hi2.
      apply wp_ret. exists S1; split; [auto|split; [auto|reflexivity]]. }
    rewrite Htest. destruct (builtin name e vals) as [m|] eqn:Eb.
    - (* a modelled built-in *)
      assert (Hmem : mem_str name s1_builtins = true).
      { destruct Hm' as [Hm'|Hm']; auto. apply builtin_some_sig in Eb. congruence. }
      destruct (s1_name_facts name (p_funcs P) Hmem) as (_ & Hl & _).
      eapply wp_mono; [eapply builtin_sound; eauto; rewrite <- Hl; eauto|]. cbv beta.
      intros r s2 (S2 & l & -> & E2 & Hi2 & Hl2). exists S2; split; [eauto using ext_trans|split; auto].
    - destruct (existsb (str_eqb name) unmodelled_builtins); [exact I|].
      (* a user function *)
      assert (Hnb : builtin_sig name = None).
      { destruct Hm' as [Hm'|Hm']; auto. apply builtin_none in Eb. congruence. }
      unfold lookup_sig in Hsig. rewrite Hnb in Hsig.
      destruct (find_func name (p_funcs P)) as [fd|] eqn:Ef; [|discriminate].
      simpl in Hsig. inversion Hsig; subst sg. clear Hsig.
      destruct HG as (HG1 & HG2 & HF0). destruct (HF0 fd (find_func_In _ _ _ Ef)) as [Hwt Hfr].
      unfold wt_func in Hwt.
      repeat match type of Hwt with _ && _ = true => apply andb_true_iff in Hwt as [Hwt ?] end.
      match goal with H : is_some (wt_stmts _ _ _ _ (fn_body fd)) = true |- _ => rename H into Hbody end.
      match goal with H : forallb param_ok _ = true |- _ => rename H into Hpok end.
      match goal with H : names_distinct _ = true |- _ => rename H into Hnd end.
      match goal with H : is_none (fn_ret fd) || always_returns (fn_body fd) = true |- _ => rename H into Hret end.
      match goal with H : match fn_variadic fd with Some _ => _ | None => true end = true |- _ => rename H into Hvar end.
      unfold s1_func in Hfr. apply andb_true_iff in Hfr as [Hfrb Hfrv].
      set (pf := params_frame (fn_params fd ++ match fn_variadic fd with Some (n, t) => [(n, TArr t)] | None => [] end)) in *.
      destruct (wt_stmts (p_funcs P) (Some (fn_ret fd)) false [pf; Gg] (fn_body fd)) as [Gb|] eqn:EGb; [|discriminate].
      pose proof Hi1 as [Hh1 He1].
      assert (HGne : G <> []) by (eapply inv_nonempty; eauto).
      (* the body, in the parameter frame *)
      assert (TAIL : forall fr' s2 S2, ext S1 S2 -> heap_ok S2 (st_heap s2) ->
                st_globals s2 = st_globals s1 -> frame_ok S2 pf fr' ->
                wp ((let* (sig, _) := exec_block f P [fr'] (fn_body fd) in
                     match sig with
                     | SigReturn v => Sem.ret v
                     | _ => let* l := alloc HNone in Sem.ret (Some l)
                     end) s2) (cpost S G e (fn_ret fd))).
      { intros fr' s2 S2 E2 Hh2 Hg2 Hfr'.
        assert (Hgl : globals_ok S2 (st_globals s2)).
        { rewrite Hg2. eapply globals_ok_ext; eauto. eapply env_ok_globals; eauto. }
        assert (Hi2 : inv S2 [pf; Gg] [fr'] s2).
        { split; auto. constructor; auto. constructor; auto. intros k u Hk; exact Hk. }
        assert (HG2' : genv_ok P [pf; Gg]).
        { split; [|split; auto]; simpl.
          - subst pf. rewrite params_frame_not_reserved; auto. rewrite (HGg n_err TBool eq_refl). reflexivity.
          - subst pf. rewrite params_frame_not_reserved; auto. rewrite (HGg n_errmsg TStr eq_refl). reflexivity. }
        assert (Hgs : gsub Gb).
        { apply wt_stmts_grows in EGb; [|discriminate]. apply grows_inv in EGb as (sf & -> & _). exact I. }
        wbind ltac:(eapply (IHblock P (Some (fn_ret fd)) false [fr'] (fn_body fd) [pf; Gg] Gb S2); eauto).
        intros [sig e3] s3 (S3 & G3 & E3 & Hh3 & Hg3 & He3 & Hl3 & _ & Hsig & Hmust). simpl in *.
        assert (Hi3 : inv S3 G e s3).
        { split; auto. eapply env_ok_reglob; [eapply env_ok_ext; [|exact He1]; eauto using ext_trans|].
          eapply env_ok_globals; eauto. }
        assert (E13 : ext S S3) by eauto using ext_trans.
        destruct sig as [| |v].
        - (* fell off the end: a procedure *)
          assert (Hn : fn_ret fd = TNone).
          { apply orb_true_iff in Hret as [Hr|Hr]; [destruct (fn_ret fd); try discriminate; auto|].
            destruct (Hmust Hr) as [Hx|(v & Hx)]; discriminate. }
          rewrite Hn.
          wbind ltac:(eapply (alloc_epost S S3 G e s3 HNone TNone); eauto; constructor).
          intros l s4 (S4 & E4 & Hi4 & Hl4). apply wp_ret. exists S4; auto.
        - simpl in Hsig. discriminate.
        - apply wp_ret. exists S3; split; [auto|split; [auto|]].
          destruct v as [l|]; simpl in Hsig.
          + destruct Hsig as (t & Ht & Hl). inversion Ht; subst. auto.
          + inversion Hsig; auto. }
      (* the parameter frame *)
      unfold sig_args_ok, sig_of_fd in Hok. cbn [fs_var fs_params] in Hok.
      destruct (fn_variadic fd) as [[vn vt]|] eqn:Ev; cbn [option_map snd] in Hok.
      + (* variadic *)
        destruct (fn_params fd) eqn:Eps; [|discriminate]. simpl in Hok.
        cbn [bind_params]. unfold bindM at 1. cbn [Sem.ret].
        assert (Hvd : ty_decl (TArr vt) = true).
        { simpl in Hpok. apply andb_true_iff in Hpok as [Hp _].
          unfold param_ok in Hp. simpl in Hp. apply andb_true_iff in Hp; tauto. }
        assert (Hvp : ty_proper vt = true).
        { unfold ty_decl in Hvd. apply andb_true_iff in Hvd as [Hvd _]. exact Hvd. }
        assert (Hall : Forall (fun l => sfind S1 l = Some vt) vals).
        { destruct (ty_proper_not_gen _ Hvp). clear -Hok HF H H0.
          induction HF as [|l y ls ys Hl _ IHF]; [constructor|]. simpl in Hok. apply andb_true_iff in Hok as [Hk1 Hk2].
          constructor; auto. apply arg_ok_basic in Hk1; auto. congruence. }
        assert (Hoka : ty_ok1 (TArr vt) = true).
        { unfold ty_ok1, ty_decl, fr_tyin in *. apply andb_true_iff in Hvd as [Hp Hsm].
          destruct strict.
          - rewrite Hsm, andb_true_r. simpl. rewrite Hfrv. reflexivity.
          - simpl. rewrite orb_false_r. clear -Hvp. induction vt; simpl in *; auto; discriminate. }
        apply wp_bind.
        wbind ltac:(eapply (alloc_wp S1 s1 (HArr vals) (TArr vt)); eauto; constructor; auto).
        intros a s2 (S2 & E2 & Hh2 & Ha & Hg2). apply wp_ret.
        eapply (TAIL _ s2 S2); eauto.
        subst pf. unfold params_frame. simpl.
        destruct (str_eqb vn underscore) eqn:Evn; simpl.
        * split; simpl; intros; discriminate.
        * apply (frame_ok_decl S2 [] [] vn (TArr vt) a); auto. split; simpl; intros; discriminate.
      + (* fixed parameters *)
        assert (Hprop : Forall (fun p => ty_proper p = true) (map snd (fn_params fd))).
        { rewrite app_nil_r in Hpok. rewrite forallb_forall in Hpok. rewrite Forall_forall.
          intros p Hp. apply in_map_iff in Hp as (q & <- & Hq). specialize (Hpok _ Hq).
          unfold param_ok, ty_decl in Hpok. apply andb_true_iff in Hpok as [_ Hpok].
          apply andb_true_iff in Hpok; tauto. }
        apply args_ok_eq in Hok; auto. subst ts.
        wbind ltac:(eapply (bind_params_ok S1 (fn_params fd) vals [] [] s1); eauto).
        * split; simpl; intros; discriminate.
        * rewrite Forall_forall. intros; reflexivity.
        * rewrite app_nil_r in Hnd. exact Hnd.
        * intros [fr rest] s2 [-> Hfr]. unfold bindM at 1. cbn [Sem.ret].
          eapply (TAIL _ s1 S1); eauto using ext_refl.
          subst pf. simpl in Hfr. rewrite !app_nil_r in *. exact Hfr.
  Qed.
End CallStep.

(* ---------- blocks and loops ---------- *)
Ltac kdone S' :=
  exists S'; split; [eauto using ext_trans, ext_refl | split; [eassumption | simpl in *; congruence]].
Section CtlStep.
  Context (f : nat) (IH : all_sound f).
  Let IHe : expr_sound f := proj1 IH.
  Let IHstmt : stmt_sound f := proj1 (proj2 (proj2 (proj2 IH))).
  Let IHstmts : stmts_sound f := proj1 (proj2 (proj2 (proj2 (proj2 IH)))).
  Let IHblock : block_sound f := proj1 (proj2 (proj2 (proj2 (proj2 (proj2 IH))))).
  Let IHcond : cond_sound f := proj1 (proj2 (proj2 (proj2 (proj2 (proj2 (proj2 IH)))))).
  Let IHwhile : while_sound f := proj1 (proj2 (proj2 (proj2 (proj2 (proj2 (proj2 (proj2 IH))))))).
  Let IHfor : for_sound f := proj2 (proj2 (proj2 (proj2 (proj2 (proj2 (proj2 (proj2 IH))))))).

  Lemma block_step : block_sound (S f).
  Proof.
    intros P ret il e l G G' S s Hwt Hs1 HG Hi Hgs. cbn [exec_block].
    apply wp_bind. eapply tick_inv; [exact Hi|]. intros s' Hi'. eapply IHstmts; eauto.
  Qed.

  Lemma stmts_step : stmts_sound (S f).
  Proof.
    intros P ret il e l G G' S s Hwt Hs1 HG Hi Hgs. cbn [exec_stmts].
    pose proof (inv_nonempty _ _ _ _ Hi) as HGne.
    destruct l as [|st l].
    - simpl in Hwt; inversion Hwt; subst. apply wp_ret.
      exists S, G'. simpl. destruct Hi as [Hh He].
      split; [apply ext_refl|]. split; [auto|]. split; [apply grows_refl; auto|]. split; [auto|].
      split; [auto|]. split; [auto|]. split; [exact I|apply must_ret_false].
    - cbn [wt_stmts] in Hwt. cbn [s1_stmts] in Hs1. apply andb_true_iff in Hs1 as [Hs1a Hs1b].
      destruct (wt_stmt (p_funcs P) ret il G st) as [G1|] eqn:E1; [|discriminate].
      assert (Hg01 : grows G G1) by (eapply wt_stmt_grows; eauto).
      assert (Hg1' : grows G1 G') by (eapply wt_stmts_grows; eauto using grows_nonempty).
      wbind ltac:(eapply IHstmt; eauto using gsub_grows).
      intros [sig e1] s1 (S1 & G1' & Ex1 & Hh1 & Hg1 & He1 & Hl1 & Hn1 & Hsg1 & Hm1). simpl in *.
      destruct (is_ctl sig) eqn:Ec.
      + apply wp_ret. exists S1, G1'. simpl.
        split; [auto|]. split; [auto|]. split; [auto|]. split; [auto|]. split; [auto|].
        split; [intros ->; discriminate|]. split; [auto|].
        intros _. destruct sig as [| |v]; [discriminate|left; reflexivity|right; eauto].
      + assert (sig = SigNone) by (destruct sig; auto; discriminate). subst sig.
        rewrite (Hn1 eq_refl) in *.
        eapply wp_mono; [eapply (IHstmts P ret il e1 l G1 G' S1); eauto using genv_ok_grows; split; auto|].
        cbv beta. intros [sig2 e2] s2 (S2 & G2 & Ex2 & Hh2 & Hg2 & He2 & Hl2 & Hn2 & Hsg2 & Hm2). simpl in *.
        exists S2, G2. simpl.
        split; [eauto using ext_trans|]. split; [auto|]. split; [eauto using grows_trans|]. split; [auto|].
        split; [congruence|]. split; [auto|]. split; [auto|].
        intros Hr. cbn [always_returns existsb] in Hr. apply orb_true_iff in Hr as [Hr|Hr]; [|auto].
        destruct (Hm1 Hr) as [Hx|(v & Hx)]; discriminate.
  Qed.

  Lemma cond_step : cond_sound (S f).
  Proof.
    intros P ret il e c body G Gb S s Hc Hb Hs1c Hs1b HG Hi. cbn [exec_cond].
    pose proof (inv_nonempty _ _ _ _ Hi) as HGne.
    wbind ltac:(eapply (IHe P ([] :: e) c (push G) TBool S); eauto using inv_push, genv_ok_push).
    intros l s1 (S1 & E1 & Hi1 & Hl1).
    wbind ltac:(eapply load_wp; eauto; apply Hi1). intros v s2 [-> Hv]. inversion Hv; subst.
    destruct b.
    - assert (Hgs : gsub Gb) by (eapply gsub_push_result; eauto; eapply wt_stmts_grows; eauto; discriminate).
      wbind ltac:(eapply (IHblock P ret il ([] :: e) body (push G) Gb S1); eauto using genv_ok_push).
      intros [sig e2] s2 Hp. apply wp_ret.
      eapply pop_post in Hp; auto.
      destruct Hp as (S2 & E2 & Hi2 & Hl2 & Hsg & Hm). exists S2. simpl in *.
      split; [eauto using ext_trans|]. split; [auto|]. split; auto.
    - apply wp_ret. exists S1; split; auto. split; [eapply inv_unpush; eauto|]. simpl; auto.
  Qed.

  Lemma while_step : while_sound (S f).
  Proof.
    intros P ret e c body G Gb S s Hc Hb Hs1c Hs1b HG Hi. cbn [exec_while].
    wbind ltac:(eapply IHcond; eauto). intros [r e1] s1 (S1 & E1 & Hi1 & Hl1 & Hr). simpl in *.
    destruct r as [[| |v]|].
    - eapply wp_mono; [eapply (IHwhile P ret e1 c body G Gb S1); eauto|]. cbv beta.
      intros [sig e2] s2 (S2 & E2 & Hi2 & Hl2 & Hs2). exists S2. simpl in *.
      split; [eauto using ext_trans|]. split; [auto|]. split; [congruence|auto].
    - apply wp_ret. exists S1; simpl; auto.
    - apply wp_ret. exists S1; simpl. destruct Hr as [Hr _]. auto.
    - apply wp_ret. exists S1; simpl; auto.
  Qed.

  Lemma for_next_wp S G e s named rg :
    inv S G e s -> rg_ok S named rg ->
    wp ((match rg with
         | RgStep cur stop step =>
             if (PrimFloat.ltb 0 step && PrimFloat.leb stop cur) || (PrimFloat.ltb step 0 && PrimFloat.leb cur stop)
             then ret None
             else let* l := alloc (HNum cur) in ret (Some (l, RgStep (cur + step)%float stop step))
         | RgArr a cur =>
             let* v := load a in
             match v with
             | HArr els => match nth_error els cur with
                           | Some l => ret (Some (l, RgArr a (Datatypes.S cur)))
                           | None => ret None end
             | _ => crash "range over non-array"
             end
         | RgStr s cur =>
             match nth_error s cur with
             | Some c => let* l := alloc (HStr [c]) in ret (Some (l, RgStr s (Datatypes.S cur)))
             | None => ret None
             end
         | RgMap m todo =>
             let* v := load m in
             match v with
             | HMap om =>
                 (fix next (ks : list str) : M (option (loc * ranger)) :=
                    match ks with
                    | [] => ret None
                    | k :: t => if ohas k om then let* l := alloc (HStr k) in ret (Some (l, RgMap m t))
                                else next t
                    end) todo
             | _ => crash "range over non-map"
             end
         end) s)
       (fun nx s' => exists S', ext S S' /\ inv S' G e s' /\
          match nx with
          | None => True
          | Some (l, rg') => rg_ok S' named rg' /\ (forall vt, named = Some vt -> sfind S' l = Some vt)
          end).
  Proof.
    intros Hi Hrg. pose proof Hi as [Hh He]. destruct rg; simpl in Hrg.
    - match goal with |- context [if ?c then _ else _] => destruct c end.
      + apply wp_ret. exists S; auto using ext_refl.
      + wbind ltac:(eapply (alloc_epost S S G e s (HNum cur) TNum); eauto using ext_refl; constructor).
        intros l s1 (S1 & E1 & Hi1 & Hl1). apply wp_ret. exists S1; split; [auto|split; [exact Hi1|]].
        split; [simpl; auto|]. intros vt Hvt. destruct Hrg as [H|H]; congruence.
    - destruct Hrg as [(u & H1 & H2)|H1].
      + wbind ltac:(eapply load_wp with (S := S); eauto).
        intros v s1 [-> Hv]. inversion Hv; subst.
        destruct (nth_error els cur) as [l|] eqn:En; apply wp_ret;
          (exists S; split; [apply ext_refl|split; [exact Hi|]]); auto.
        split; [simpl; left; eauto|].
        intros vt Hvt. match goal with HF : Forall _ els |- _ => rewrite Forall_forall in HF; rename HF into HF0 end.
        apply nth_error_In in En.
        destruct H2; [congruence|]. rewrite (HF0 _ En). congruence.
      + wbind ltac:(eapply load_wp with (S := S); eauto).
        intros v s1 [-> Hv]. inversion Hv; subst. destruct cur; apply wp_ret; exists S; auto using ext_refl.
    - destruct (nth_error runes cur) as [c|].
      + wbind ltac:(eapply (alloc_epost S S G e s (HStr [c]) TStr); eauto using ext_refl; constructor).
        intros l s1 (S1 & E1 & Hi1 & Hl1). apply wp_ret. exists S1; split; [auto|split; [exact Hi1|]].
        split; [simpl; auto|]. intros vt Hvt. destruct Hrg as [H|H]; congruence.
      + apply wp_ret. exists S; auto using ext_refl.
    - destruct Hrg as [Hm Hn].
      assert (Hm' : exists t, sfind S m = Some t /\ (t = TEmptyMap \/ exists u, t = TMap u)).
      { destruct Hm as [(u & Hm)|Hm]; eauto. }
      destruct Hm' as (tm & Hmt & Htm).
      wbind ltac:(eapply load_wp with (S := S); eauto). intros v s1 [-> Hv].
      assert (exists om, v = HMap om) as (om & ->).
      { destruct Htm as [->|(u & ->)]; inversion Hv; subst; eauto. }
      clear Hv. induction todo as [|k todo IHt].
      + apply wp_ret. exists S; auto using ext_refl.
      + destruct (ohas k om); [|exact IHt].
        wbind ltac:(eapply (alloc_epost S S G e s (HStr k) TStr); eauto using ext_refl; constructor).
        intros l s1 (S1 & E1 & Hi1 & Hl1). apply wp_ret. exists S1; split; [auto|split; [exact Hi1|]].
        split.
        * simpl. split; auto. destruct Hm as [(u & Hm)|Hm]; [left; eauto|right; auto].
        * intros vt Hvt. destruct Hn as [H|H]; congruence.
  Qed.

  Lemma for_step : for_sound (S f).
  Proof.
    intros P ret e var rg body G fr0 named Gb S s Hb Hs1 HG Hi Hfr Hrg. cbn [exec_for].
    wbind ltac:(eapply for_next_wp; eauto). intros nx s1 (S1 & E1 & Hi1 & Hnx).
    destruct nx as [[l rg']|].
    2:{ apply wp_ret. exists S1; simpl; auto. }
    destruct Hnx as [Hrg' Hl].
    (* rebinding of the loop variable *)
    assert (U : wp (update_var var l e s1)
                   (fun e1 s2 => inv S1 (fr0 :: G) e1 s2 /\ List.length e1 = List.length e)).
    { destruct named as [vt|]; simpl in Hfr.
      - destruct Hfr as [Hbo ->].
        assert (Hsl : slookup var ([(var, vt)] :: G) = Some vt) by (simpl; rewrite str_eqb_refl; auto).
        eapply update_var_ok; eauto.
      - destruct Hfr as [-> ->]. unfold update_var. simpl. auto. }
    wbind ltac:(exact U). intros e1 s2 [Hi2 Hl2].
    assert (HGne : fr0 :: G <> []) by discriminate.
    assert (Hgs : gsub Gb) by (eapply gsub_push_result; eauto; eapply wt_stmts_grows; eauto; discriminate).
    wbind ltac:(eapply (IHblock P ret true ([] :: e1) body (push (fr0 :: G)) Gb S1);
                eauto using inv_push, genv_ok_push).
    intros [sig e2'] s3 Hp.
    eapply pop_post in Hp; auto.
    destruct Hp as (S3 & E3 & Hi3 & Hl3 & Hsg3 & _). simpl in *.
    destruct sig.
    - eapply wp_mono; [eapply (IHfor P ret (tl e2') var rg' body G fr0 named Gb S3); eauto using rg_ok_ext|].
      cbv beta. intros [sig4 e4] s4 (S4 & E4 & Hi4 & Hl4 & Hs4). exists S4. simpl in *.
      split; [eauto using ext_trans|]. split; [auto|]. split; [rewrite Hl4, Hl3; exact Hl2|auto].
    - apply wp_ret. exists S3. simpl.
      split; [eauto using ext_trans|]. split; [auto|]. split; [rewrite Hl3; exact Hl2|auto].
    - apply wp_ret. exists S3. simpl.
      split; [eauto using ext_trans|]. split; [auto|]. split; [rewrite Hl3; exact Hl2|auto].
  Qed.
End CtlStep.

(* ---------- single statements ---------- *)
Lemma map_set_key_wp S s m k v u :
  heap_ok S (st_heap s) -> sfind S m = Some (TMap u) -> sfind S v = Some u ->
  wp (map_set_key m k v s) (fun _ s' => heap_ok S (st_heap s') /\ st_globals s' = st_globals s).
Proof.
  intros Hh Hm Hv. unfold map_set_key.
  wbind ltac:(eapply load_wp; eauto). intros mv s1 [-> Hc]. inversion Hc; subst.
  eapply store_wp; eauto. constructor; auto using Inv_oset.
  rewrite pairs_oset. apply Forall_pset; auto.
Qed.

Section StmtStep.
  Context (f : nat) (IH : all_sound f).
  Let IHe : expr_sound f := proj1 IH.
  Let IHc : call_sound f := proj1 (proj2 (proj2 IH)).
  Let IHblock : block_sound f := proj1 (proj2 (proj2 (proj2 (proj2 (proj2 IH))))).
  Let IHcond : cond_sound f := proj1 (proj2 (proj2 (proj2 (proj2 (proj2 (proj2 IH)))))).
  Let IHwhile : while_sound f := proj1 (proj2 (proj2 (proj2 (proj2 (proj2 (proj2 (proj2 IH))))))).
  Let IHfor : for_sound f := proj2 (proj2 (proj2 (proj2 (proj2 (proj2 (proj2 (proj2 IH))))))).

  Definition ipost (S : sty) (G : tyenv) (e : env) (rt : option ty) (il mr : bool)
    : signal * env -> state -> Prop :=
    fun r s' => exists S', ext S S' /\ inv S' G (snd r) s' /\ List.length (snd r) = List.length e /\
                           sig_ok S' rt il (fst r) /\ must_ret mr (fst r).

  Lemma if_go_wp P rt il els G :
    match els with
    | Some body => is_some (wt_stmts (p_funcs P) rt il (push G) body) = true /\ s1_stmts strict body = true
    | None => True
    end ->
    genv_ok P G ->
    forall conds e s S,
      conds_wt (p_funcs P) rt il G conds = true -> conds_s1 conds = true -> inv S G e s ->
      wp ((fix go (cs : list (expr * list stmt)) (e : env) : M (signal * env) :=
             match cs with
             | [] =>
                 match els with
                 | Some body =>
                     let* (sig, e1) := exec_block f P ([] :: e) body in
                     ret (sig, tl e1)
                 | None => ret (SigNone, e)
                 end
             | (c, body) :: t =>
                 let* (r, e1) := exec_cond f P e c body in
                 match r with
                 | Some sig => ret (sig, e1)
                 | None => go t e1
                 end
             end) conds e s)
         (ipost S G e rt il (conds_ret conds && match els with Some b => always_returns b | None => false end)).
  Proof.
    intros Hels HG. induction conds as [|[c body] conds IHl]; intros e s S Hwt Hs1 Hi.
    - pose proof (inv_nonempty _ _ _ _ Hi) as HGne. destruct els as [body|].
      + destruct Hels as [Hb Hsb].
        destruct (wt_stmts (p_funcs P) rt il (push G) body) as [Gb|] eqn:Eb; [|discriminate].
        assert (Hgs : gsub Gb) by (eapply gsub_push_result; eauto; eapply wt_stmts_grows; eauto; discriminate).
        wbind ltac:(eapply (IHblock P rt il ([] :: e) body (push G) Gb S); eauto using inv_push, genv_ok_push).
        intros [sig e1] s1 Hp. apply wp_ret.
        eapply pop_post in Hp; auto.
      + apply wp_ret. exists S. simpl.
        split; [apply ext_refl|]. split; [auto|]. split; [auto|]. split; [exact I|apply must_ret_false].
    - cbn [conds_wt] in Hwt. cbn [conds_s1] in Hs1.
      apply andb_true_iff in Hwt as [Hwt Hwt3]. apply andb_true_iff in Hwt as [Hwt1 Hwt2].
      apply andb_true_iff in Hs1 as [Hs1 Hs13]. apply andb_true_iff in Hs1 as [Hs11 Hs12].
      apply opt_ty_eqb_eq in Hwt1.
      destruct (wt_stmts (p_funcs P) rt il (push G) body) as [Gb|] eqn:Eb; [|discriminate].
      wbind ltac:(eapply IHcond; eauto). intros [r e1] s1 (S1 & E1 & Hi1 & Hl1 & Hr). simpl in *.
      destruct r as [sig|].
      + apply wp_ret. destruct Hr as [Hr1 Hr2]. exists S1. simpl.
        split; [auto|]. split; [auto|]. split; [auto|]. split; [auto|].
        intros Hm. apply Hr2. apply andb_true_iff in Hm as [Hm _]. apply andb_true_iff in Hm; tauto.
      + eapply wp_mono; [eapply (IHl e1 s1 S1); eauto|]. cbv beta.
        intros [sig e2] s2 (S2 & E2 & Hi2 & Hl2 & Hs2 & Hm2). exists S2. simpl in *.
        split; [eauto using ext_trans|]. split; [auto|]. split; [rewrite Hl2; auto|]. split; [auto|].
        intros Hm. apply Hm2. apply andb_true_iff in Hm as [Hm Hm']. apply andb_true_iff in Hm as [_ Hm].
        rewrite Hm, Hm'. reflexivity.
  Qed.

  Lemma spost_same S0 S G e ret il e' s' sig :
    ext S0 S -> inv S G e' s' -> List.length e' = List.length e -> sig_ok S ret il sig ->
    spost S0 G G e ret il false (sig, e') s'.
  Proof.
    intros E [Hh He] Hl Hs. exists S, G. simpl.
    split; [auto|]. split; [auto|]. split; [apply grows_refl; eapply inv_nonempty; split; eauto|].
    split; [auto|]. split; [auto|]. split; [auto|]. split; [auto|apply must_ret_false].
  Qed.

  Lemma num_wp P e1 x G1 S s :
    ety (p_funcs P) G1 x = Some TNum -> s1_expr strict x = true -> genv_ok P G1 -> inv S G1 e1 s ->
    wp ((let* l := eval_expr f P e1 x in
         let* v := load l in
         match v with HNum y => Sem.ret y | _ => internal "expected number" end) s)
       (fun _ s' => exists S', ext S S' /\ inv S' G1 e1 s').
  Proof.
    intros Ht Hs HG Hi.
    wbind ltac:(eapply IHe; eauto). intros l s1 (S1 & E1 & Hi1 & Hl1).
    wbind ltac:(eapply load_wp; eauto; apply Hi1). intros v s2 [-> Hv]. inversion Hv; subst.
    apply wp_ret. eauto.
  Qed.

  Lemma opt_num_expr F G o dflt :
    etyo F G o = true -> s1_opt strict o = true ->
    ety F G (match o with Some y => y | None => ENum dflt end) = Some TNum /\
    s1_expr strict (match o with Some y => y | None => ENum dflt end) = true.
  Proof. destruct o; simpl; intros H1 H2; auto. apply opt_ty_eqb_eq in H1; auto. Qed.

  Lemma zero_val_wp S s vt :
    heap_ok S (st_heap s) -> ty_decl vt = true -> fr_ty strict vt = true ->
    wp (zero_val vt s) (hpost S (st_globals s) (fun S' z => sfind S' z = Some vt)).
  Proof.
    intros Hh Hd Hs1.
    assert (Hok : ty_ok1 vt = true).
    { unfold ty_decl in Hd. apply andb_true_iff in Hd as [Hp Hd]. unfold ty_ok1, fr_ty in *.
      destruct strict; [rewrite Hs1, Hd; reflexivity|].
      apply orb_true_iff; left. clear -Hp. induction vt; simpl in *; auto; discriminate. }
    unfold ty_decl in Hd. apply andb_true_iff in Hd as [Hp _].
    destruct vt; try discriminate; cbn [zero_val].
    - eapply wp_mono; [eapply alloc_wp; eauto; constructor|]. cbv beta.
      intros l s' (S' & E & H1 & H2 & H3). hdone S'.
    - eapply wp_mono; [eapply alloc_wp; eauto; constructor|]. cbv beta.
      intros l s' (S' & E & H1 & H2 & H3). hdone S'.
    - eapply wp_mono; [eapply alloc_wp; eauto; constructor|]. cbv beta.
      intros l s' (S' & E & H1 & H2 & H3). hdone S'.
    - wbind ltac:(eapply (alloc_wp S s (HBool false) TBool); eauto; constructor).
      intros b s1 (S1 & E1 & Hh1 & Hb & Hg1).
      eapply wp_mono; [eapply (alloc_wp S1 s1 (HAny TBool b) TAny); eauto; constructor; auto; discriminate|]. cbv beta.
      intros l s' (S' & E & H1 & H2 & H3). hdone S'.
    - eapply wp_mono; [eapply (alloc_wp S s (HArr []) (TArr vt)); eauto; constructor; constructor|]. cbv beta.
      intros l s' (S' & E & H1 & H2 & H3). hdone S'.
    - eapply wp_mono; [eapply (alloc_wp S s (HMap oempty) (TMap vt)); eauto; constructor;
                       [apply Inv_oempty|constructor]|]. cbv beta.
      intros l s' (S' & E & H1 & H2 & H3). hdone S'.
  Qed.

  Lemma bind_loopvar S G e s var vt (m : M loc) :
    inv S (push G) ([] :: e) s ->
    (forall v, var = Some v -> binder_ok v = true /\
       wp (m s) (hpost S (st_globals s) (fun S' z => sfind S' z = Some vt))) ->
    wp ((match var with
         | Some v => let* z := m in set_var v z ([] :: e)
         | None => Sem.ret ([] :: e)
         end) s)
       (fun e2 s' => exists S', ext S S' /\
          inv S' ((match var with Some v => [(v, vt)] | None => [] end) :: G) e2 s' /\
          List.length e2 = Datatypes.S (List.length e)).
  Proof.
    intros Hi Hv. destruct var as [v|].
    - destruct (Hv v eq_refl) as [Hb Hm]. pose proof (binder_not_reserved _ Hb) as (_ & _ & Hus).
      wbind ltac:(exact Hm). intros z s1 (S1 & E1 & Hh1 & Hg1 & Hz).
      assert (Hi1 : inv S1 (push G) ([] :: e) s1) by (eapply inv_step; eauto).
      pose proof (inv_nonempty _ _ _ _ (inv_unpush _ _ _ _ _ _ Hi1)) as HGne.
      eapply wp_mono; [eapply (set_var_ok S1 [] G ([] :: e) s1 v vt z); eauto; congruence|].
      cbv beta. intros e2 s2 [Hi2 Hl2]. exists S1; split; auto.
    - apply wp_ret. exists S; split; auto using ext_refl.
  Qed.

  Lemma stmt_step : stmt_sound (S f).
  Proof.
    intros P ret il e st G G' S s Hwt Hs1 HG Hi Hgs.
    pose proof (inv_nonempty _ _ _ _ Hi) as HGne.
    destruct st; cbn [exec_stmt];
      (apply wp_bind; eapply tick_inv; [exact Hi|]; clear s Hi; intros s Hi); pose proof Hi as [Hh He].
    - (* SDecl *)
      cbn [wt_stmt] in Hwt. cbn [s1_stmt] in Hs1. apply andb_true_iff in Hs1 as [Hs1a Hs1b].
      destruct G as [|fr G0]; [discriminate|].
      match type of Hwt with (if ?c then _ else _) = _ => destruct c eqn:Ec; inversion Hwt; subst end.
      apply andb_true_iff in Ec as [Ec Ec5]. apply andb_true_iff in Ec as [Ec Ec4].
      apply andb_true_iff in Ec as [Ec1 Ec2].
      apply opt_ty_eqb_eq in Ec5. apply negb_true_iff in Ec2.
      pose proof (binder_not_reserved _ Ec1) as (_ & _ & Hus).
      wbind ltac:(eapply IHe; eauto). intros v s1 (S1 & E1 & Hi1 & Hv).
      apply wp_depth_fuel.
      wbind ltac:(eapply copy_or_ref_wp; eauto using ty_decl_not_none; apply Hi1).
      intros c s2 (S2 & E2 & Hh2 & Hg2 & Hc).
      assert (Hi2 : inv S2 (fr :: G0) e s2) by (eapply inv_step; eauto).
      assert (Hnf : sget name fr = None) by (destruct (sget name fr); [discriminate|auto]).
      wbind ltac:(eapply (set_var_ok S2 fr G0 e s2 name t c); eauto).
      { intros ->. exact Hgs. }
      intros e' s3 [[Hh3 He3] Hl3].
      apply wp_ret. exists S2, (((name, t) :: fr) :: G0). simpl.
      split; [eauto using ext_trans|]. split; [auto|]. split.
      { exists fr, ((name, t) :: fr), G0. repeat split; auto. constructor; [constructor| |]; auto. }
      split; [auto|]. split; [auto|]. split; [auto|]. split; [exact I|apply must_ret_false].
    - (* SAssign *)
      cbn [wt_stmt] in Hwt. cbn [s1_stmt] in Hs1. apply andb_true_iff in Hs1 as [Hs1a Hs1b].
      destruct (ety (p_funcs P) G target) as [tg|] eqn:Etg; [|discriminate].
      destruct (ety (p_funcs P) G e0) as [tv|] eqn:Etv; [|discriminate].
      match type of Hwt with (if ?c && _ then _ else _) = _ => destruct c eqn:Esh; simpl in Hwt; [|discriminate] end.
      destruct (ty_eqb tg tv) eqn:Eeq; inversion Hwt; subst. apply ty_eqb_eq in Eeq; subst tv.
      assert (Hnn : tg <> TNone).
      { destruct target; try discriminate.
        - cbn [ety] in Etg.
          match type of Etg with (if ?c then _ else _) = _ => destruct c eqn:Ec; inversion Etg; subst end.
          apply andb_true_iff in Ec as [_ Ec]. auto using ty_value_not_none, ty_ann_value.
        - cbn [ety] in Etg.
          destruct (ety (p_funcs P) G' target1) as [[]|]; try discriminate;
          destruct (ety (p_funcs P) G' target2) as [[]|]; try discriminate;
          match type of Etg with (if ?c then _ else _) = _ => destruct c eqn:Ec; inversion Etg; subst end;
          apply andb_true_iff in Ec as [_ Ec]; auto using ty_value_not_none, ty_ann_value.
        - cbn [ety] in Etg.
          destruct (ety (p_funcs P) G' target) as [[]|]; try discriminate;
          match type of Etg with (if ?c then _ else _) = _ => destruct c eqn:Ec; inversion Etg; subst end;
          apply andb_true_iff in Ec as [_ Ec]; auto using ty_value_not_none, ty_ann_value. }
      wbind ltac:(eapply IHe; eauto). intros v0 s1 (S1 & E1 & Hi1 & Hv0).
      apply wp_depth_fuel.
      wbind ltac:(eapply copy_or_ref_wp; eauto; apply Hi1). intros v s2 (S2 & E2 & Hh2 & Hg2 & Hv).
      assert (Hi2 : inv S2 G' e s2) by (eapply inv_step; eauto).
      destruct target; try discriminate.
      + (* variable *)
        cbn [ety] in Etg.
        match type of Etg with (if ?c then _ else _) = _ => destruct c eqn:Ec; inversion Etg; subst end.
        apply andb_true_iff in Ec as [Ec Ec3]. apply andb_true_iff in Ec as [Ec1 Ec2].
        apply negb_true_iff in Ec1. apply opt_ty_eqb_eq in Ec2.
        wbind ltac:(eapply update_var_ok; eauto). intros e' s3 [Hi3 Hl3].
        apply wp_ret. eapply (spost_same S S2); eauto using ext_trans. exact I.
      + (* array element *)
        cbn [ety] in Etg. cbn [s1_expr] in Hs1a.
        apply andb_true_iff in Hs1a as [Hs1a Hs1a3]. apply andb_true_iff in Hs1a as [Hs1a1 Hs1a2].
        destruct (ety (p_funcs P) G' target1) as [ta|] eqn:Ea; [|discriminate].
        destruct (ety (p_funcs P) G' target2) as [ti|] eqn:Ei; [|destruct ta; discriminate].
        wbind ltac:(eapply (IHe P e target1 G' ta S2); eauto). intros la s3 (S3 & E3 & Hi3 & Hla).
        wbind ltac:(eapply (IHe P e target2 G' ti S3); eauto). intros li s4 (S4 & E4 & Hi4 & Hli).
        pose proof Hi4 as [Hh4 He4].
        wbind ltac:(eapply load_wp; [exact Hh4|]; eauto). intros va s5 [-> Hva].
        destruct ta; try discriminate.
        * (* array *)
          destruct ti; try discriminate.
          match type of Etg with (if ?c then _ else _) = _ => destruct c eqn:Ec; inversion Etg; subst end.
          apply andb_true_iff in Ec as [Ec1 Ec2]. apply ty_eqb_eq in Ec1; subst ta.
          inversion Hva; subst.
          wbind ltac:(eapply load_num_wp; eauto). intros fi s5 ->.
          apply wp_bind. apply lift_norm_wp. intros k Hk.
          wbind ltac:(eapply (store_wp S4 s4 la (HArr (list_set els k v)) (TArr tg)); eauto).
          { constructor. apply list_set_Forall; auto. }
          intros _ s5 [Hh5 Hg5]. apply wp_ret.
          eapply (spost_same S S4); eauto using ext_trans; [eapply inv_store; eauto|exact I].
        * (* map entry *)
          destruct ti; try discriminate.
          match type of Etg with (if ?c then _ else _) = _ => destruct c eqn:Ec; inversion Etg; subst end.
          apply andb_true_iff in Ec as [Ec1 Ec2]. apply ty_eqb_eq in Ec1; subst ta.
          inversion Hva; subst.
          wbind ltac:(eapply load_str_wp; eauto). intros ks s5 ->.
          wbind ltac:(eapply (map_set_key_wp S4 s4 la ks v tg); eauto).
          intros _ s5 [Hh5 Hg5]. apply wp_ret.
          eapply (spost_same S S4); eauto using ext_trans; [eapply inv_store; eauto|exact I].
      + (* map field *)
        cbn [ety] in Etg. cbn [s1_expr] in Hs1a. apply andb_true_iff in Hs1a as [Hs1a1 Hs1a2].
        destruct (ety (p_funcs P) G' target) as [ta|] eqn:Ea; [|discriminate].
        destruct ta; try discriminate.
        match type of Etg with (if ?c then _ else _) = _ => destruct c eqn:Ec; inversion Etg; subst end.
        apply andb_true_iff in Ec as [Ec1 Ec2]. apply ty_eqb_eq in Ec1; subst ta.
        wbind ltac:(eapply (IHe P e target G' (TMap tg) S2); eauto). intros la s3 (S3 & E3 & Hi3 & Hla).
        pose proof Hi3 as [Hh3 He3].
        wbind ltac:(eapply load_wp; [exact Hh3|]; eauto). intros va s4 [-> Hva]. inversion Hva; subst.
        wbind ltac:(eapply (map_set_key_wp S3 s3 la key v tg); eauto).
        intros _ s4 [Hh4 Hg4]. apply wp_ret.
        eapply (spost_same S S3); eauto using ext_trans; [eapply inv_store; eauto|exact I].
    - (* SCallStmt *)
      cbn [wt_stmt] in Hwt. rewrite s1_stmt_SCallStmt in Hs1. apply andb_true_iff in Hs1 as [Hs1a Hs1b].
      unfold call_ty in Hwt.
      destruct (lookup_sig (p_funcs P) name) as [sg|] eqn:Esg; [|discriminate].
      destruct (etys (p_funcs P) G args) as [ts|] eqn:Ets; [|discriminate].
      destruct (sig_args_ok sg ts) eqn:Eok; [|discriminate]. inversion Hwt; subst.
      wbind ltac:(eapply IHc; eauto). intros r s1 (S1 & E1 & Hi1 & _).
      apply wp_ret. eapply (spost_same S S1); eauto. exact I.
    - (* SReturn *)
      cbn [wt_stmt] in Hwt. cbn [s1_stmt] in Hs1.
      assert (MR : forall v, must_ret true (SigReturn v)) by (intros v _; right; eauto).
      destruct e0 as [x|].
      + destruct ret as [t|]; [|discriminate].
        match type of Hwt with (if ?c then _ else _) = _ => destruct c eqn:Ec; inversion Hwt; subst end.
        apply andb_true_iff in Ec as [Ec1 Ec2]. apply opt_ty_eqb_eq in Ec2. simpl in Hs1.
        wbind ltac:(eapply IHe; eauto). intros l s1 (S1 & E1 & [Hh1 He1] & Hl1).
        apply wp_ret. exists S1, G'. simpl.
        split; [auto|]. split; [auto|]. split; [apply grows_refl; auto|]. split; [auto|]. split; [auto|].
        split; [auto|]. split; [eauto|apply MR].
      + destruct ret as [[]|]; try discriminate. inversion Hwt; subst.
        apply wp_ret. exists S, G'. simpl.
        split; [apply ext_refl|]. split; [auto|]. split; [apply grows_refl; auto|]. split; [auto|]. split; [auto|].
        split; [auto|]. split; [reflexivity|apply MR].
    - (* SBreak *)
      cbn [wt_stmt] in Hwt. destruct il; inversion Hwt; subst.
      apply wp_ret. eapply (spost_same S S); eauto using ext_refl.
    - (* SIf *)
      rewrite wt_stmt_SIf in Hwt. rewrite s1_stmt_SIf in Hs1. apply andb_true_iff in Hs1 as [Hs1a Hs1b].
      match type of Hwt with (if ?c && ?d then _ else _) = _ => destruct c eqn:Ec; destruct d eqn:Ed; inversion Hwt; subst end.
      rewrite stmt_returns_SIf.
      eapply wp_mono; [eapply (if_go_wp P ret il els G'); eauto|].
      { destruct els; auto. }
      cbv beta. intros [sig e1] s1 (S1 & E1 & [Hh1 He1] & Hl1 & Hs & Hm). simpl in *.
      exists S1, G'. simpl.
      split; [auto|]. split; [auto|]. split; [apply grows_refl; auto|]. split; [auto|]. split; [auto|].
      split; [auto|]. split; [auto|]. destruct els; [exact Hm|apply must_ret_false].
    - (* SWhile *)
      rewrite wt_stmt_SWhile in Hwt. rewrite s1_stmt_SWhile in Hs1. apply andb_true_iff in Hs1 as [Hs1a Hs1b].
      match type of Hwt with (if ?c && _ then _ else _) = _ => destruct c eqn:Ec; simpl in Hwt; [|discriminate] end.
      destruct (wt_stmts (p_funcs P) ret true (push G) body) as [Gb|] eqn:Eb; inversion Hwt; subst.
      apply opt_ty_eqb_eq in Ec.
      eapply wp_mono; [eapply IHwhile; eauto|].
      cbv beta. intros [sig e1] s1 K. eapply spost_of_kpost; eauto.
    - (* SFor *)
      rewrite wt_stmt_SFor in Hwt. cbv zeta in Hwt. rewrite s1_stmt_SFor in Hs1.
      apply andb_true_iff in Hs1 as [Hs1 Hs1b]. apply andb_true_iff in Hs1 as [Hs1v Hs1r].
      set (vname := match var with Some v => v | None => underscore end).
      set (named := match var with Some _ => Some vt | None => None end).
      set (fr0 := match var with Some v => [(v, vt)] | None => [] end).
      match type of Hwt with match ?rng with _ => _ end = _ => destruct rng as [t|] eqn:Erng; [|discriminate] end.
      assert (HS : (forall v, var = Some v -> binder_ok v = true /\ vt = t /\ ty_decl vt = true /\ fr_ty strict vt = true) /\
                   (exists Gb, wt_stmts (p_funcs P) ret true (push (fr0 :: G)) body = Some Gb) /\ G' = G).
      { destruct var as [v|].
        - match type of Hwt with match (if ?c then _ else _) with _ => _ end = _ => destruct c eqn:Ec; [|discriminate] end.
          apply andb_true_iff in Ec as [Ec Ec3]. apply andb_true_iff in Ec as [Ec1 Ec2]. apply ty_eqb_eq in Ec2.
          destruct (wt_stmts (p_funcs P) ret true (push ([(v, vt)] :: G)) body) as [Gb|] eqn:Eb; inversion Hwt; subst.
          split; [|eauto]. intros v0 Hv0; inversion Hv0; subst; auto.
        - destruct (wt_stmts (p_funcs P) ret true (push ([] :: G)) body) as [Gb|] eqn:Eb; inversion Hwt; subst.
          split; [|eauto]. discriminate. }
      destruct HS as (Hvar & (Gb & Hbody) & ->). clear Hwt.
      assert (HG2 : genv_ok P (fr0 :: G)).
      { unfold fr0. destruct var as [v|]; [|exact HG]. destruct (Hvar v eq_refl) as (Hb & _). apply genv_ok_frame; auto. }
      assert (Hff : for_frame named vname fr0).
      { unfold named, vname, fr0. destruct var as [v|]; simpl; auto. destruct (Hvar v eq_refl); auto. }
      pose proof (inv_push _ _ _ _ Hi) as Hip.
      apply wp_bind.
      eapply (wp_mono _ (fun p s' => exists S', ext S S' /\ inv S' (fr0 :: G) (snd p) s' /\
                            rg_ok S' named (fst p) /\ List.length (snd p) = Datatypes.S (List.length e))).
      { destruct r as [start stop step|y].
        - (* step range *)
          apply andb_true_iff in Hs1r as [Hs1r Hs1r3]. apply andb_true_iff in Hs1r as [Hs1r1 Hs1r2].
          match type of Erng with (if ?c then _ else _) = _ => destruct c eqn:Ec; inversion Erng; subst end.
          apply andb_true_iff in Ec as [Ec Ec3]. apply andb_true_iff in Ec as [Ec1 Ec2]. apply opt_ty_eqb_eq in Ec2.
          destruct (opt_num_expr _ _ _ 0%float Ec1 Hs1r1) as [Ta Sa].
          destruct (opt_num_expr _ _ _ 1%float Ec3 Hs1r3) as [Tc Sc].
          wbind ltac:(eapply num_wp; eauto using genv_ok_push). intros a s1 (S1 & E1 & Hi1).
          wbind ltac:(eapply (num_wp P ([] :: e) stop (push G) S1); eauto using genv_ok_push). intros b s2 (S2 & E2 & Hi2).
          wbind ltac:(eapply (num_wp P ([] :: e) _ (push G) S2); eauto using genv_ok_push). intros c s3 (S3 & E3 & Hi3).
          destruct (PrimFloat.eqb c 0); [exact I|].
          wbind ltac:(eapply (bind_loopvar S3 G e s3 var vt); eauto).
          { intros v Hv. destruct (Hvar v Hv) as (Hb & -> & _). split; auto.
            eapply wp_mono; [eapply alloc_wp; [apply Hi3|constructor|auto]|]. cbv beta.
            intros l s' (S' & E & H1 & H2 & H3). hdone S'. }
          intros e2 s4 (S4 & E4 & Hi4 & Hl4). apply wp_ret. exists S4. simpl.
          split; [eauto using ext_trans|]. split; [exact Hi4|]. split; auto.
          unfold named. destruct var as [v|]; auto. destruct (Hvar v eq_refl) as (_ & -> & _); auto.
        - (* range over a value *)
          destruct (ety (p_funcs P) (push G) y) as [ty'|] eqn:Ey; [|discriminate].
          wbind ltac:(eapply IHe; eauto using genv_ok_push). intros l s1 (S1 & E1 & Hi1 & Hl1).
          pose proof Hi1 as [Hh1 He1].
          wbind ltac:(eapply load_wp; eauto). intros v s2 [-> Hv].
          pose proof (ho_tys _ _ Hh1 _ _ Hl1) as Hok.
          destruct ty'; simpl in Erng; try discriminate; inversion Erng; subst; inversion Hv; subst.
          + (* string *)
            wbind ltac:(eapply (bind_loopvar S1 G e s1 var vt); eauto).
            { intros v Hv0. destruct (Hvar v Hv0) as (Hb & -> & _). split; auto.
              eapply wp_mono; [eapply alloc_wp; [apply Hi1|constructor|auto]|]. cbv beta.
              intros l0 s' (S' & E & Hx1 & Hx2 & Hx3). hdone S'. }
            intros e2 s4 (S4 & E4 & Hi4 & Hl4). apply wp_ret. exists S4. simpl.
            split; [eauto using ext_trans|]. split; [exact Hi4|]. split; auto.
            unfold named. destruct var as [v|]; auto. destruct (Hvar v eq_refl) as (_ & -> & _); auto.
          + (* array *)
            wbind ltac:(eapply (bind_loopvar S1 G e s1 var vt); eauto).
            { intros v Hv0. destruct (Hvar v Hv0) as (Hb & -> & Hd & Hs). split; auto.
              eapply zero_val_wp; eauto. }
            intros e2 s4 (S4 & E4 & Hi4 & Hl4). apply wp_ret. exists S4. simpl.
            split; [eauto using ext_trans|]. split; [exact Hi4|]. split; auto.
            left. exists t. split; [auto|].
            unfold named. destruct var as [v|]; auto. destruct (Hvar v eq_refl) as (_ & -> & _); auto.
          + (* map *)
            wbind ltac:(eapply (bind_loopvar S1 G e s1 var vt); eauto).
            { intros v Hv0. destruct (Hvar v Hv0) as (Hb & -> & _). split; auto.
              eapply wp_mono; [eapply alloc_wp; [apply Hi1|constructor|auto]|]. cbv beta.
              intros l0 s' (S' & E & Hx1 & Hx2 & Hx3). hdone S'. }
            intros e2 s4 (S4 & E4 & Hi4 & Hl4). apply wp_ret. exists S4. simpl.
            split; [eauto using ext_trans|]. split; [exact Hi4|]. split; auto.
            split; [left; eauto|].
            unfold named. destruct var as [v|]; auto. destruct (Hvar v eq_refl) as (_ & -> & _); auto.
          + (* the untyped [] *)
            wbind ltac:(eapply (bind_loopvar S1 G e s1 var vt); eauto).
            { intros v Hv0. destruct (Hvar v Hv0) as (Hb & -> & Hd & Hs). split; auto.
              eapply zero_val_wp; eauto. }
            intros e2 s4 (S4 & E4 & Hi4 & Hl4). apply wp_ret. exists S4. simpl.
            split; [eauto using ext_trans|]. split; [exact Hi4|]. split; auto.
          + (* map, untyped {} *)
            wbind ltac:(eapply (bind_loopvar S1 G e s1 var vt); eauto).
            { intros v Hv0. destruct (Hvar v Hv0) as (Hb & -> & _). split; auto.
              eapply wp_mono; [eapply alloc_wp; [apply Hi1|constructor|auto]|]. cbv beta.
              intros l0 s' (S' & E & Hx1 & Hx2 & Hx3). hdone S'. }
            intros e2 s4 (S4 & E4 & Hi4 & Hl4). apply wp_ret. exists S4. simpl.
            split; [eauto using ext_trans|]. split; [exact Hi4|]. split; auto.
            split; [right; eauto|].
            unfold named. destruct var as [v|]; auto. destruct (Hvar v eq_refl) as (_ & -> & _); auto. }
      cbv beta. intros [rg e2] s1 (S1 & E1 & Hi1 & Hrg & Hl1). simpl in *.
      wbind ltac:(eapply (IHfor P ret e2 vname rg body G fr0 named Gb S1); eauto).
      intros [sig e3] s2 (S2 & E2 & [Hh2 He2] & Hl2 & Hsg). simpl in *. apply wp_ret.
      apply env_ok_pop in He2 as [He2 Hne]; auto.
      eapply (spost_same S S2); eauto using ext_trans, sig_ok_noloop.
      + split; auto.
      + destruct e3; [congruence|]. simpl in *. rewrite Hl1 in Hl2. injection Hl2; auto.
    - (* SNop *)
      inversion Hwt; subst. apply wp_ret. eapply (spost_same S S); eauto using ext_refl. exact I.
  Qed.
End StmtStep.

(* ---------- the induction on the fuel ---------- *)
Theorem all_sound_n : forall n, all_sound n.
Proof.
  induction n as [|f IH].
  - repeat split; red; intros; exact I.
  - pose proof IH as (I1 & I2 & I3 & I4 & I5 & I6 & I7 & I8 & I9).
    split; [apply expr_step; auto|]. split; [apply exprs_step; auto|]. split; [apply call_step; auto|].
    split; [apply stmt_step; auto|]. split; [apply stmts_step; auto|]. split; [apply block_step; auto|].
    split; [apply cond_step; auto|]. split; [apply while_step; auto|]. apply for_step; auto.
Qed.

(* ---------- whole runs ---------- *)
Definition goes_wrong_s (o : outcome) : Prop :=
  match o with OErr e => ~ safe_err e | _ => False end.

Definition genv0 : tyenv := [global_frame0].

(* a state a run may start from: some store typing makes the heap well typed and the globals are
   (a part of) the program's globals at their types, err and errmsg among them *)
Definition state_ok (s : state) : Prop := exists S, inv S genv0 [] s.

Lemma heap_ok_empty : heap_ok (PositiveMap.empty ty) hempty.
Proof.
  constructor; intros l t H; unfold sfind in H; rewrite PositiveMap.gempty in H; discriminate.
Qed.

Lemma init_state_ok stop input ff ay : state_ok (init_state stop input ff ay).
Proof.
  destruct (heap_ok_alloc _ _ (HBool false) TBool heap_ok_empty (CBool _ false) ok1_TBool) as (E1 & H1 & F1).
  destruct (heap_ok_alloc _ _ (HStr []) TStr H1 (CStr _ []) ok1_TStr) as (E2 & H2 & F2).
  destruct (heap_ok_alloc _ _ (HNum (float_of_bits pi_bits)) TNum H2 (CNum _ _) ok1_TNum) as (E3 & H3 & F3).
  eexists. split; [exact H3|].
  unfold genv0. constructor; [exact HGg|].
  change (st_globals (init_state stop input ff ay))
    with [(n_err, 1%positive); (n_errmsg, 2%positive); (s_ "pi", 3%positive)].
  split; [|split; discriminate].
  intros n l. cbn [frame_get].
  repeat match goal with |- context [str_eqb ?k n] =>
    let E := fresh "E" in
    destruct (str_eqb k n) eqn:E;
    [apply str_eqb_eq in E; subst n; intros H; inversion H; subst; eexists; split; [apply HGg; reflexivity|];
     first [reflexivity | apply F3 | apply E3, F2 | apply E3, E2, F1]|clear E] end.
  discriminate.
Qed.

(* the program is checked against Gg and lies in the fragment *)
Definition prog_ok (P : program) : Prop :=
  wt_top P = Some Gg /\
  forallb (wt_func (p_funcs P) Gg) (p_funcs P) = true /\
  s1_stmts strict (p_stmts P) = true /\ forallb (s1_func strict) (p_funcs P) = true.

Lemma prog_genv_ok P : prog_ok P -> genv_ok P genv0.
Proof.
  intros (_ & Hfs & _ & Hs1f). split; [reflexivity|split; [reflexivity|]]. intros fd Hfd.
  rewrite forallb_forall in Hfs, Hs1f. auto.
Qed.

Lemma state_ok_of S G e s : heap_ok S (st_heap s) -> env_ok S G e (st_globals s) -> state_ok s.
Proof.
  intros Hh He. exists S. split; auto. constructor; [exact HGg|eapply env_ok_globals; eauto].
Qed.

(* Soundness with the final state: a run ends with a safe outcome, and when it ends normally the state
   it leaves (on which the event handlers then run) is again well typed *)
Theorem run_generic P : prog_ok P ->
  forall fuel s0, state_ok s0 ->
    match run_program fuel P s0 with
    | (OErr e, _) => safe_err e
    | (_, s1) => state_ok s1
    end.
Proof.
  intros HP fuel s0 (S & Hi). pose proof (prog_genv_ok P HP) as HG. destruct HP as (Htop & Hfs & Hs1 & Hs1f).
  assert (Htop' : wt_stmts (p_funcs P) None false genv0 (p_stmts P) = Some [Gg]).
  { unfold wt_top, genv0 in *.
    destruct (wt_stmts (p_funcs P) None false [global_frame0] (p_stmts P)) as [[|g [|]]|]; try discriminate.
    inversion Htop; subst; auto. }
  destruct (all_sound_n fuel) as (_ & _ & _ & _ & Hstmts & _).
  assert (W : wp ((let* _ := tick in let* _ := exec_stmts fuel P [] (p_stmts P) in Sem.ret tt) s0)
                 (fun _ s' => state_ok s')).
  { apply wp_bind. eapply tick_inv; [exact Hi|]. intros s1 Hi1.
    wbind ltac:(eapply (Hstmts P None false [] (p_stmts P) genv0 [Gg] S); eauto).
    - intros n t H; exact H.
    - intros r s2 (S2 & G2 & _ & Hh2 & _ & He2 & _). apply wp_ret. eapply state_ok_of; eauto. }
  unfold run_program.
  destruct ((let* _ := tick in let* _ := exec_stmts fuel P [] (p_stmts P) in Sem.ret tt) s0) as [[u|er] s1].
  - simpl in W. assert (state_ok (test_report s1)).
    { destruct W as (S1 & Hh1 & He1). exists S1. unfold test_report.
      destruct (Nat.eqb (st_total s1) 0); split; auto. }
    destruct (Nat.ltb 0 (st_fails (test_report s1))); auto.
  - simpl in W. destruct er; simpl in *; auto.
Qed.

Theorem soundness_generic P : prog_ok P ->
  forall fuel s0, state_ok s0 -> ~ goes_wrong_s (fst (run_program fuel P s0)).
Proof.
  intros HP fuel s0 Hs0 Hbad. pose proof (run_generic P HP fuel s0 Hs0) as H.
  destruct (run_program fuel P s0) as [[| |er] s1]; simpl in *; auto.
Qed.

(* ---------- event handlers ---------- *)
Lemma bind_payload_ok : forall ps args sf fr S s,
  heap_ok S (st_heap s) -> (List.length ps <= List.length args)%nat ->
  frame_ok S sf fr ->
  Forall (fun p => nz p = true -> sget (fst p) sf = None) ps ->
  names_distinct (map fst ps) = true ->
  wp (bind_payload ps args fr s)
     (fun fr' s' => exists S', ext S S' /\ heap_ok S' (st_heap s') /\ st_globals s' = st_globals s /\
                               frame_ok S' (rev (filter nz ps) ++ sf) fr').
Proof.
  induction ps as [|[n t] ps IH]; intros args sf fr S s Hh Hlen Hfr Hfresh Hd.
  - simpl. exists S; split; [apply ext_refl|auto].
  - cbn [bind_payload]. destruct args as [|a args]; [simpl in Hlen; lia|]. simpl in Hlen.
    simpl in Hd. apply andb_true_iff in Hd as [Hd1 Hd2]. inversion Hfresh as [|? ? Hf1 Hf2]; subst.
    assert (K : forall v, cell_ok S v t -> ty_ok1 t = true ->
              wp ((let* l := alloc v in
                   bind_payload ps args (if str_eqb n underscore then fr else frame_set n l fr)) s)
                 (fun fr' s' => exists S', ext S S' /\ heap_ok S' (st_heap s') /\ st_globals s' = st_globals s /\
                                           frame_ok S' (rev (filter nz ((n, t) :: ps)) ++ sf) fr')).
    { intros v Hv Hok.
      wbind ltac:(eapply alloc_wp; eauto). intros l s1 (S1 & E1 & Hh1 & Hl1 & Hg1).
      simpl. unfold nz at 1. simpl. destruct (str_eqb n underscore) eqn:En; simpl.
      - eapply wp_mono; [eapply (IH args sf fr S1 s1); eauto using frame_ok_ext; lia|].
        cbv beta. intros fr' s' (S' & E' & Hh' & Hg' & Hf'). hdone S'.
      - eapply wp_mono; [eapply (IH args ((n, t) :: sf) (frame_set n l fr) S1 s1); eauto; try lia|].
        + apply frame_ok_decl; eauto using frame_ok_ext. apply Hf1. unfold nz; simpl. rewrite En. reflexivity.
        + rewrite Forall_forall in Hf2 |- *. intros [k tk] Hin Hk. simpl.
          destruct (str_eqb n k) eqn:Enk.
          * apply str_eqb_eq in Enk; subst k. exfalso.
            apply negb_true_iff in Hd1. assert (Hin' : In n (map fst ps)) by (apply in_map_iff; exists (n, tk); auto).
            apply mem_str_In in Hin'. congruence.
          * apply (Hf2 _ Hin Hk).
        + cbv beta. intros fr' s' (S' & E' & Hh' & Hg' & Hf'). rewrite <- app_assoc. hdone S'. }
    unfold bindM at 1.
    destruct t; destruct a; try exact I.
    + apply (K (HNum f)); [constructor|auto].
    + apply (K (HStr s0)); [constructor|auto].
    + apply (K (HBool b)); [constructor|auto].
Qed.

Theorem handle_event_generic P : prog_ok P ->
  forallb (wt_handler (p_funcs P) Gg) (p_handlers P) = true ->
  forallb (fun h => s1_stmts strict (h_body h)) (p_handlers P) = true ->
  forall fuel name args s0 h, state_ok s0 ->
    find_handler name (p_handlers P) = Some h -> (List.length (h_params h) <= List.length args)%nat ->
    match handle_event fuel P name args s0 with
    | (OErr e, _) => safe_err e
    | (_, s1) => state_ok s1
    end.
Proof.
  intros HP Hwh Hsh fuel name args s0 h (S & [Hh He]) Hfind Hlen.
  pose proof (prog_genv_ok P HP) as (_ & _ & HF0).
  assert (Hin : In h (p_handlers P)).
  { clear -Hfind. induction (p_handlers P) as [|x l IH]; simpl in *; [discriminate|].
    destruct (str_eqb (h_name x) name); [inversion Hfind; auto|auto]. }
  rewrite forallb_forall in Hwh, Hsh. specialize (Hwh _ Hin). specialize (Hsh _ Hin).
  unfold wt_handler in Hwh. destruct (assoc_str (h_name h) event_sigs) as [ts|]; [|discriminate].
  repeat match type of Hwh with _ && _ = true => apply andb_true_iff in Hwh as [Hwh ?] end.
  match goal with H : is_some (wt_stmts _ _ _ _ (h_body h)) = true |- _ => rename H into Hbody end.
  match goal with H : forallb param_ok _ = true |- _ => rename H into Hpok end.
  match goal with H : names_distinct _ = true |- _ => rename H into Hnd end.
  set (pf := params_frame (h_params h)) in *.
  destruct (wt_stmts (p_funcs P) (Some TNone) false [pf; Gg] (h_body h)) as [Gb|] eqn:EGb; [|discriminate].
  destruct (all_sound_n fuel) as (_ & _ & _ & _ & _ & Hblock & _).
  unfold handle_event. rewrite Hfind.
  assert (W : wp ((let* fr := bind_payload (h_params h) args [] in
                   let* _ := exec_block fuel P [fr] (h_body h) in Sem.ret tt) s0)
                 (fun _ s' => state_ok s')).
  { wbind ltac:(eapply (bind_payload_ok (h_params h) args [] [] S s0); eauto).
    - split; simpl; intros; discriminate.
    - rewrite Forall_forall. intros; reflexivity.
    - intros fr s1 (S1 & E1 & Hh1 & Hg1 & Hfr). rewrite app_nil_r in Hfr.
      assert (Hgl : globals_ok S1 (st_globals s1)).
      { rewrite Hg1. eapply globals_ok_ext; eauto. eapply env_ok_globals; eauto. }
      assert (Hi1 : inv S1 [pf; Gg] [fr] s1).
      { split; auto. constructor; auto. constructor; auto. intros k u Hk; exact Hk. }
      assert (HG1 : genv_ok P [pf; Gg]).
      { split; [|split; auto]; simpl.
        - subst pf. rewrite params_frame_not_reserved; auto. rewrite (HGg n_err TBool eq_refl). reflexivity.
        - subst pf. rewrite params_frame_not_reserved; auto. rewrite (HGg n_errmsg TStr eq_refl). reflexivity. }
      assert (Hgs : gsub Gb).
      { apply wt_stmts_grows in EGb; [|discriminate]. apply grows_inv in EGb as (sf & -> & _). exact I. }
      wbind ltac:(eapply (Hblock P (Some TNone) false [fr] (h_body h) [pf; Gg] Gb S1); eauto).
      intros r s2 (S2 & G2 & _ & Hh2 & _ & He2 & _). apply wp_ret. eapply state_ok_of; eauto. }
  destruct ((let* fr := bind_payload (h_params h) args [] in
             let* _ := exec_block fuel P [fr] (h_body h) in Sem.ret tt) s0) as [[u|er] s1]; simpl in *; auto.
Qed.

(* Preservation, Stage 1: under a store typing S that types the heap and the
   environment, an expression of static type t evaluates (if it returns) to a
   cell of dynamic type t in an extended store typing that still types heap
   and environment; no evaluation ends in an internal error or a host crash. *)
Theorem preservation_generic : forall n P e x G t S s,
  ety (p_funcs P) G x = Some t -> s1_expr strict x = true -> genv_ok P G -> inv S G e s ->
  match eval_expr n P e x s with
  | (Ok l, s') => exists S', ext S S' /\ inv S' G e s' /\ sfind S' l = Some t
  | (Er er, _) => safe_err er
  end.
Proof. intros n. exact (proj1 (all_sound_n n)). Qed.

(* every `any` cell of a typed heap carries a concrete, non-any type and holds
   a value of exactly that type *)
Theorem any_cells_concrete S h l :
  heap_ok S h -> sfind S l = Some TAny ->
  exists u i v, hget h l = Some (HAny u i) /\ u <> TAny /\ sfind S i = Some u /\
                hget h i = Some v /\ cell_ok S v u.
Proof.
  intros Hh Hl. destruct (ho_cells _ _ Hh _ _ Hl) as (v & Hg & Hc). inversion Hc; subst.
  match goal with Hi : sfind S i = Some u |- _ => destruct (ho_cells _ _ Hh _ _ Hi) as (v' & Hg' & Hc') end.
  exists u, i, v'. repeat split; auto.
Qed.

Theorem any_cells_only_at_any S h l u i :
  heap_ok S h -> hget h l = Some (HAny u i) -> forall t, sfind S l = Some t -> t = TAny.
Proof.
  intros Hh Hg t Hl. destruct (ho_cells _ _ Hh _ _ Hl) as (v & Hg' & Hc).
  rewrite Hg in Hg'; inversion Hg'; subst. inversion Hc; auto.
Qed.

End Sound.

(* ---------- the two instances ---------- *)
Definition goes_wrong (o : outcome) : Prop :=
  match o with OErr (EInternal _) | OErr (EHostCrash _) => True | _ => False end.

(* going wrong otherwise than by the stack overflow on a cyclic value *)
Definition goes_wrong_badly (o : outcome) : Prop :=
  match o with
  | OErr (EInternal _) => True
  | OErr (EHostCrash w) => ~ overflow_reason w
  | _ => False
  end.

(* the global frame of a checked program extends the built-in globals *)
Lemma wt_top_extends P g : wt_top P = Some g ->
  forall n t, sget n global_frame0 = Some t -> sget n g = Some t.
Proof.
  unfold wt_top. destruct (wt_stmts (p_funcs P) None false [global_frame0] (p_stmts P)) as [G'|] eqn:E; [|discriminate].
  intros Hg. apply wt_stmts_grows in E; [|discriminate].
  apply grows_inv in E as (sf & -> & Hf). inversion Hg; subst. apply fgrows_sub. exact Hf.
Qed.

(* a start state of program P: well typed w.r.t. the global frame the checker computes for P *)
Definition start_ok (strict : bool) (P : program) (s : state) : Prop :=
  exists g, wt_top P = Some g /\ state_ok strict g s.

Lemma wt_program_inv P : wt_program P = true ->
  exists g, wt_top P = Some g /\ forallb (wt_func (p_funcs P) g) (p_funcs P) = true /\
            forallb (wt_handler (p_funcs P) g) (p_handlers P) = true.
Proof.
  unfold wt_program. destruct (wt_top P) as [g|]; [|discriminate].
  intros H. apply andb_true_iff in H as [H1 H2]. eauto.
Qed.

Lemma init_state_start_ok strict P stop input ff ay :
  wt_program P = true -> start_ok strict P (init_state stop input ff ay).
Proof.
  intros H. destruct (wt_program_inv P H) as (g & Hg & _). exists g; split; auto.
  apply init_state_ok. eapply wt_top_extends; eauto.
Qed.

(* the fragment predicate of a whole program (s1_program = frag true, s2_program = frag false) *)
Definition frag (strict : bool) (P : program) : bool :=
  s1_stmts strict (p_stmts P) && forallb (s1_func strict) (p_funcs P)
  && forallb (fun h => s1_stmts strict (h_body h)) (p_handlers P).

Definition safe_outcome (strict : bool) (o : outcome) : Prop :=
  match o with OErr e => safe_err strict e | _ => True end.

(* a run from a well-typed start state ends safely and, when it ends normally, leaves a well-typed state *)
Lemma run_inst strict P :
  wt_program P = true -> frag strict P = true ->
  forall fuel s0, start_ok strict P s0 ->
    safe_outcome strict (fst (run_program fuel P s0)) /\
    (forall e, fst (run_program fuel P s0) <> OErr e) -> start_ok strict P (snd (run_program fuel P s0)).
Proof.
  intros Hwt Hfr fuel s0 (g & Hg & Hs0).
  destruct (wt_program_inv P Hwt) as (g' & Hg' & Hf & _). rewrite Hg in Hg'. inversion Hg'; subst g'.
  unfold frag in Hfr. apply andb_true_iff in Hfr as [Hfr Hfr3]. apply andb_true_iff in Hfr as [Hfr1 Hfr2].
  assert (HP : prog_ok strict g P) by (repeat split; auto).
  pose proof (run_generic strict g (wt_top_extends P g Hg) P HP fuel s0 Hs0) as H.
  destruct (run_program fuel P s0) as [[| |er] s1]; simpl in *.
  - intros _. exists g; auto.
  - intros _. exists g; auto.
  - intros [_ Hn]. exfalso. eapply Hn; eauto.
Qed.

Lemma run_inst_safe strict P :
  wt_program P = true -> frag strict P = true ->
  forall fuel s0, start_ok strict P s0 -> safe_outcome strict (fst (run_program fuel P s0)).
Proof.
  intros Hwt Hfr fuel s0 (g & Hg & Hs0).
  destruct (wt_program_inv P Hwt) as (g' & Hg' & Hf & _). rewrite Hg in Hg'. inversion Hg'; subst g'.
  unfold frag in Hfr. apply andb_true_iff in Hfr as [Hfr Hfr3]. apply andb_true_iff in Hfr as [Hfr1 Hfr2].
  assert (HP : prog_ok strict g P) by (repeat split; auto).
  pose proof (run_generic strict g (wt_top_extends P g Hg) P HP fuel s0 Hs0) as H.
  destruct (run_program fuel P s0) as [[| |er] s1]; simpl in *; auto.
Qed.

(* an event delivered to a handler of the program, in a well-typed state, with at least as many
   payload values as the handler declares parameters *)
Lemma event_inst strict P :
  wt_program P = true -> frag strict P = true ->
  forall fuel name args s0 h, start_ok strict P s0 ->
    find_handler name (p_handlers P) = Some h -> (List.length (h_params h) <= List.length args)%nat ->
    safe_outcome strict (fst (handle_event fuel P name args s0)) /\
    ((forall e, fst (handle_event fuel P name args s0) <> OErr e) ->
     start_ok strict P (snd (handle_event fuel P name args s0))).
Proof.
  intros Hwt Hfr fuel name args s0 h (g & Hg & Hs0) Hfind Hlen.
  destruct (wt_program_inv P Hwt) as (g' & Hg' & Hf & Hh). rewrite Hg in Hg'. inversion Hg'; subst g'.
  unfold frag in Hfr. apply andb_true_iff in Hfr as [Hfr Hfr3]. apply andb_true_iff in Hfr as [Hfr1 Hfr2].
  assert (HP : prog_ok strict g P) by (repeat split; auto).
  pose proof (handle_event_generic strict g (wt_top_extends P g Hg) P HP Hh Hfr3 fuel name args s0 h Hs0 Hfind Hlen) as H.
  destruct (handle_event fuel P name args s0) as [[| |er] s1]; simpl in *.
  - split; auto. intros _. exists g; auto.
  - split; auto. intros _. exists g; auto.
  - split; auto. intros Hn. exfalso. eapply Hn; eauto.
Qed.

Lemma safe_true_not_wrong o : safe_outcome true o -> ~ goes_wrong o.
Proof. destruct o as [| |er]; simpl; auto. destruct er; simpl; auto. intros [H _]; discriminate. Qed.

Lemma safe_false_not_badly o : safe_outcome false o -> ~ goes_wrong_badly o.
Proof. destruct o as [| |er]; simpl; auto. destruct er; simpl; auto. intros [_ H]; auto. Qed.

(* Stage 1 (strict fragment: `any` never inside a composite type): no run goes wrong *)
Theorem soundness_stage1 P :
  wt_program P = true -> s1_program P = true ->
  forall fuel s0, start_ok true P s0 -> ~ goes_wrong (fst (run_program fuel P s0)).
Proof. intros Hwt Hs1 fuel s0 Hs0. apply safe_true_not_wrong. apply run_inst_safe; auto. Qed.

(* Stage 2 (every value type): the only way to go wrong is the stack overflow on a cyclic value *)
Theorem soundness_stage2 P :
  wt_program P = true -> s2_program P = true ->
  forall fuel s0, start_ok false P s0 -> ~ goes_wrong_badly (fst (run_program fuel P s0)).
Proof. intros Hwt Hs1 fuel s0 Hs0. apply safe_false_not_badly. apply run_inst_safe; auto. Qed.

(* the state a normally ended run leaves is a start state again (for the event handlers) *)
Theorem run_leaves_start_ok strict P :
  wt_program P = true -> frag strict P = true ->
  forall fuel s0, start_ok strict P s0 ->
    (forall e, fst (run_program fuel P s0) <> OErr e) -> start_ok strict P (snd (run_program fuel P s0)).
Proof. intros Hwt Hfr fuel s0 Hs0 Hn. apply run_inst; auto. split; [apply run_inst_safe; auto|exact Hn]. Qed.

Theorem handlers_stage1 P :
  wt_program P = true -> s1_program P = true ->
  forall fuel name args s0 h, start_ok true P s0 ->
    find_handler name (p_handlers P) = Some h -> (List.length (h_params h) <= List.length args)%nat ->
    ~ goes_wrong (fst (handle_event fuel P name args s0)) /\
    ((forall e, fst (handle_event fuel P name args s0) <> OErr e) ->
     start_ok true P (snd (handle_event fuel P name args s0))).
Proof.
  intros Hwt Hs1 fuel name args s0 h Hs0 Hf Hl.
  destruct (event_inst true P Hwt Hs1 fuel name args s0 h Hs0 Hf Hl) as [H1 H2].
  split; auto using safe_true_not_wrong.
Qed.

Theorem handlers_stage2 P :
  wt_program P = true -> s2_program P = true ->
  forall fuel name args s0 h, start_ok false P s0 ->
    find_handler name (p_handlers P) = Some h -> (List.length (h_params h) <= List.length args)%nat ->
    ~ goes_wrong_badly (fst (handle_event fuel P name args s0)) /\
    ((forall e, fst (handle_event fuel P name args s0) <> OErr e) ->
     start_ok false P (snd (handle_event fuel P name args s0))).
Proof.
  intros Hwt Hs1 fuel name args s0 h Hs0 Hf Hl.
  destruct (event_inst false P Hwt Hs1 fuel name args s0 h Hs0 Hf Hl) as [H1 H2].
  split; auto using safe_false_not_badly.
Qed.

(* ---------- typeof ---------- *)
(* the tag of the any cell built by an Any node is the node's annotation ... *)
Lemma eany_tag n P e a t s l s' :
  eval_expr n P e (EAny a t) s = (Ok l, s') -> exists i, hget (st_heap s') l = Some (HAny t i).
Proof.
  destruct n; [discriminate|]. cbn [eval_expr]. unfold bindM.
  destruct (tick s) as [[[]|] s1]; [|discriminate].
  destruct (eval_expr n P e a s1) as [[l0|] s2]; [|discriminate].
  destruct (load l0 s2) as [[v|] s3]; [|discriminate].
  destruct v; try discriminate; unfold alloc; simpl; intros H; inversion H; subst; simpl;
    unfold hget; simpl; rewrite PositiveMap.gss; eauto.
Qed.

(* ... copying an argument keeps the tag ... *)
Lemma copy_or_ref_tag d l s l' s' u i :
  copy_or_ref d l s = (Ok l', s') -> hget (st_heap s) l = Some (HAny u i) ->
  exists i', hget (st_heap s') l' = Some (HAny u i').
Proof.
  destruct d; [discriminate|]. cbn [copy_or_ref]. unfold bindM, load. intros H Hg. rewrite Hg in H.
  destruct (copy_or_ref d i s) as [[i'|] s1]; [|discriminate].
  unfold alloc in H; simpl in H. inversion H; subst. simpl. unfold hget; simpl. rewrite PositiveMap.gss; eauto.
Qed.

(* ... and typeof returns the text of the tag *)
Lemma typeof_any_tag e l u i s :
  hget (st_heap s) l = Some (HAny u i) ->
  exists m r s', builtin (s_ "typeof") e [l] = Some m /\ m s = (Ok (Some r), s') /\
                 hget (st_heap s') r = Some (HStr (ty_str u)).
Proof.
  intros Hg. unfold builtin.
  repeat match goal with |- context [name_is ?a ?b] =>
    let v := eval vm_compute in (name_is a b) in change (name_is a b) with v; cbv iota end.
  eexists _, _, _. split; [reflexivity|]. unfold bindM, load. rewrite Hg. unfold alloc, Sem.ret. simpl.
  split; [reflexivity|]. unfold hget; simpl. apply PositiveMap.gss.
Qed.
