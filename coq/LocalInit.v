(* LocalInit.v — definite initialisation of local slots: a validator for
   emitted bytecode.  WF (Bytecode.v) bounds the operand of OpGetLocal /
   OpSetLocal by LocalCount but says nothing about the ORDER of accesses: a
   program that reads a local slot no OpSetLocal has written yet passes
   wf_check, and on the VM the read yields the nil the slot was created with
   (a nil dereference in the next pop: a host crash).  linit_check accepts a
   program only if on EVERY path from the entry to an OpGetLocal a the slot a
   has been the operand of an executed OpSetLocal.  (Untrusted inference of
   the sets by iteration + a local check, as wf_check; soundness against the
   VM model: LocalInitProofs.v.) *)
From Coq Require Import ZArith NArith List Bool String FMapPositive.
From EvyV Require Import Base Bytecode.
Require Import EvyV.Gen.Opcodes.
Import ListNotations.
Open Scope string_scope.
Open Scope N_scope.

Definition lmem (a : N) (l : list N) : bool := existsb (N.eqb a) l.
Definition linter (x y : list N) : list N := filter (fun a => lmem a y) x.
Definition lsubset (x y : list N) : bool := forallb (fun a => lmem a y) x.

(* where control can go after instruction i at pc *)
Definition lsuccs (pc : N) (i : instr) : list N :=
  let next := pc + ilen i in
  match opc_of_N (iop i) with
  | Some Jump => [arg0 i]
  | Some JumpOnFalse => [next; arg0 i]
  | _ => [next]
  end.

(* the slots written after i, given those written before *)
Definition lout (i : instr) (w : list N) : list N :=
  match opc_of_N (iop i) with Some SetLocal => arg0 i :: w | _ => w end.

Definition cmap := PositiveMap.t (list N).
Definition cfind (pc : N) (m : cmap) : option (list N) := PositiveMap.find (hkey pc) m.

(* ---------- step 1 (untrusted): the sets, by iteration to a fixpoint ---------- *)
Definition flow1 (cl : N) (st : cmap * bool) (x : N * instr) : cmap * bool :=
  let (pc, i) := x in
  match cfind pc (fst st) with
  | None => st
  | Some w =>
      let o := lout i w in
      fold_left (fun (st : cmap * bool) t =>
                   if cl <=? t then st else
                   match cfind t (fst st) with
                   | None => (PositiveMap.add (hkey t) o (fst st), true)
                   | Some old =>
                       let nw := linter old o in
                       if Nat.eqb (List.length nw) (List.length old) then st
                       else (PositiveMap.add (hkey t) nw (fst st), true)
                   end) (lsuccs pc i) st
  end.

Fixpoint linfer (fuel : nat) (cl : N) (instrs : list (N * instr)) (m : cmap) : cmap :=
  match fuel with
  | O => m
  | S f =>
      let r := fold_left (flow1 cl) instrs (m, false) in
      if snd r then linfer f cl instrs (fst r) else fst r
  end.

(* ---------- step 2 (checked, proved sound): the sets are consistent ---------- *)
Definition lcheck_instr (cl : N) (m : cmap) (x : N * instr) : bool :=
  let (pc, i) := x in
  match cfind pc m with
  | None => true                       (* claimed unreachable: nothing flows in (see the successor check) *)
  | Some w =>
      match opc_of_N (iop i) with Some GetLocal => lmem (arg0 i) w | _ => true end &&
      forallb (fun t => (t =? cl) ||
                        match cfind t m with Some w' => lsubset w' (lout i w) | None => false end)
              (lsuccs pc i)
  end.

Definition linit_verify (cl : N) (instrs : list (N * instr)) (m : cmap) : bool :=
  match instrs with
  | [] => true
  | _ :: _ => match cfind 0 m with Some [] => true | _ => false end
  end && forallb (lcheck_instr cl m) instrs.

Definition linit_sets (bc : bcinfo) (instrs : list (N * instr)) : cmap :=
  linfer (List.length instrs + 2) (codelen bc) instrs (PositiveMap.add (hkey 0) [] (PositiveMap.empty _)).

Definition linit_check (bc : bcinfo) : bool :=
  match decode_all (bcode bc) with
  | None => false
  | Some instrs => linit_verify (codelen bc) instrs (linit_sets bc instrs)
  end.

(* diagnostics: the first instruction the check rejects *)
Definition linit_diag (bc : bcinfo) : sx :=
  match decode_all (bcode bc) with
  | None => Lst [Sym (s_ "decode-failed")]
  | Some instrs =>
      let m := linit_sets bc instrs in
      match find (fun x => negb (lcheck_instr (codelen bc) m x)) instrs with
      | Some (pc, i) =>
          Lst [Sym (s_ "bad-instruction"); Int (Z.of_N pc); Int (Z.of_N (iop i)); Int (Z.of_N (arg0 i));
               Lst (map (fun a => Int (Z.of_N a)) (match cfind pc m with Some w => w | None => [] end))]
      | None => Lst [Sym (s_ "entry")]
      end
  end.

(* (linit (byte…) nconsts gcount lcount) ↦ (true) | (false diag) *)
Definition linit_case (x : sx) : sx :=
  match x with
  | Lst [Sym t; Lst bs; Int nc; Int gc; Int lc] =>
      if str_eqb t (s_ "linit") then
        match dec_bytes bs with
        | Some code =>
            let bc := {| bcode := code; nconsts := Z.to_N nc; gcount := Z.to_N gc; lcount := Z.to_N lc |} in
            if linit_check bc then Lst [Sym (s_ "true")] else Lst [Sym (s_ "false"); linit_diag bc]
        | None => Sym (s_ "decode-error")
        end
      else Sym (s_ "decode-error")
  | _ => Sym (s_ "decode-error")
  end.
