(* SemIsoApps.v — consequences of the invariance of the evaluator under heap
   isomorphism and garbage (SemIso.v):
   (a) C15: delivering an event = calling the twin procedure on argument cells
       that hold the payload values (equal outcomes, equal traces, isomorphic
       final states), for single events and for whole histories with literal
       arguments;
   (b) C09: runs from states that differ only outside a closed set of cells
       containing the roots (i.e. in garbage) give the same observables. *)
From Coq Require Import ZArith NArith PArith List String Bool Floats FMapPositive Lia.
From EvyV Require Import Base Num Ast Omap Sem SemStoreBase SemIsoBase SemIsoLib SemIso SemEvents.
Import ListNotations.
Local Open Scope positive_scope.

(* ====================================================================== *)
(* 1. One-sided steps                                                      *)
(* ====================================================================== *)
Definition alloc_st (s : state) (v : hval) : state := upd_heap (snd (halloc (st_heap s) v)) s.

(* garbage on the right: an allocation the left side does not make *)
Lemma iso_right_alloc f s1 s2 v : iso f s1 s2 -> iso f s1 (alloc_st s2 v).
Proof.
  intro I. pose proof (iso_wf2 _ _ _ I) as W2. pose proof (iso_cells _ _ _ I) as C.
  destruct I. constructor; auto.
  - unfold wf, alloc_st; fields. apply fresh_ok_halloc; auto.
  - intros a b H. destruct (C a b H) as (v1 & v2 & G1 & G2 & R).
    exists v1, v2. split; auto. split; auto. unfold alloc_st; fields. apply hget_halloc_old; auto.
Qed.
Lemma iso_left_alloc f s1 s2 v : iso f s1 s2 -> iso f (alloc_st s1 v) s2.
Proof.
  intro I. pose proof (iso_wf1 _ _ _ I) as W1. pose proof (iso_cells _ _ _ I) as C.
  destruct I. constructor; auto.
  - unfold wf, alloc_st; fields. apply fresh_ok_halloc; auto.
  - intros a b H. destruct (C a b H) as (v1 & v2 & G1 & G2 & R).
    exists v1, v2. split; auto. unfold alloc_st; fields. apply hget_halloc_old; auto.
Qed.

(* the yield counter does not matter when no stop request can come *)
Lemma iso_right_yield f s1 s2 y :
  iso f s1 s2 -> st_stop_at s2 = None -> st_stopped s2 = false -> iso f s1 (upd_yield y false s2).
Proof.
  intros I N S. eapply iso_same_heap; eauto; simpl; try (destruct I; assumption).
  - rewrite <- S. apply (iso_stopped _ _ _ I).
  - left. rewrite (iso_stop_at _ _ _ I). exact N.
Qed.

(* a fresh cell on the left is matched with an existing cell on the right that holds a related
   value and is not yet in the range of f *)
Lemma iso_left_alloc_to f s1 s2 v1 b v2 :
  iso f s1 s2 -> hget (st_heap s2) b = Some v2 -> hvrel f v1 v2 -> (forall a, f a <> Some b) ->
  iso (extend f (hnext (st_heap s1)) b) (alloc_st s1 v1) s2 /\ ext f (extend f (hnext (st_heap s1)) b).
Proof.
  intros I G V NR. pose proof (iso_wf1 _ _ _ I) as W1.
  assert (E : ext f (extend f (hnext (st_heap s1)) b)).
  { intros x y H. unfold extend. destruct (Pos.eqb_spec x (hnext (st_heap s1))) as [->|N]; auto.
    rewrite (iso_not_dom_fresh _ _ _ I) in H. discriminate. }
  split; auto. constructor; unfold alloc_st; fields; try (destruct I; assumption).
  - apply fresh_ok_halloc; auto.
  - intros x x' y Hx Hx'. unfold extend in *.
    destruct (Pos.eqb_spec x (hnext (st_heap s1))) as [->|Nx], (Pos.eqb_spec x' (hnext (st_heap s1))) as [->|Nx']; auto.
    + inversion Hx; subst y. exfalso. eapply NR; eauto.
    + inversion Hx'; subst y. exfalso. eapply NR; eauto.
    + eapply (iso_inj _ _ _ I); eauto.
  - intros x y Hxy. unfold extend in Hxy. destruct (Pos.eqb_spec x (hnext (st_heap s1))) as [->|Nx].
    + inversion Hxy; subst y. exists v1, v2. rewrite hget_halloc_new. repeat split; auto. eapply mono; eauto.
    + destruct (iso_cells _ _ _ I _ _ Hxy) as (w1 & w2 & G1 & G2 & H).
      exists w1, w2. split; [apply hget_halloc_old; auto|]. split; auto. eapply mono; eauto.
  - eapply mono; eauto. apply (iso_glob _ _ _ I).
Qed.

(* ====================================================================== *)
(* 2. Payload binding (event side) against parameter binding (call side)   *)
(* ====================================================================== *)
Definition holds_in (s : state) (v : loc) (a : payload) : Prop :=
  hget (st_heap s) v = Some (hval_of_payload a).

Lemma payload_vs_params ps : forall args vals fr1 fr2 f s1 s2 fr1' s1',
  iso f s1 s2 -> framerel f fr1 fr2 ->
  Forall2 (holds_in s2) vals args ->
  NoDup vals -> (forall v a, In v vals -> f a <> Some v) ->
  bind_payload ps args fr1 s1 = (Ok fr1', s1') ->
  exists fr2' rest f',
    bind_params ps vals fr2 s2 = (Ok (fr2', rest), s2) /\
    ext f f' /\ iso f' s1' s2 /\ framerel f' fr1' fr2'.
Proof.
  induction ps as [|[n t] ps IH]; intros args vals fr1 fr2 f s1 s2 fr1' s1' I F H ND NR B; simpl in B |- *.
  - inversion B; subst. exists fr2, vals, f. split; [reflexivity|]. split; [apply ext_refl|]. split; auto.
  - destruct args as [|a more]; [inversion B|].
    inversion H as [|v a' vals' more' Hv H']; subst.
    assert (Hex : exists hv : hval, (match t, a with
                       | TNum, PvNum x => alloc (HNum x)
                       | TStr, PvStr x => alloc (HStr x)
                       | TBool, PvBool x => alloc (HBool x)
                       | _, _ => fail (EPanic PkAnyConversion)
                       end) = alloc hv /\ hv = hval_of_payload a /\ is_basic hv = true).
    { destruct t, a; try (unfold bindM, fail in B; simpl in B; discriminate B); eexists; repeat split. }
    destruct Hex as (x & Ex & Hx & Bx). rewrite Ex in B. unfold bindM in B. rewrite alloc_run in B.
    subst x. inversion ND as [|? ? Nin ND']; subst.
    destruct (iso_left_alloc_to f s1 s2 (hval_of_payload a) v (hval_of_payload a) I Hv) as [I1 E1].
    { destruct a; constructor. }
    { intros a0. apply NR. left; reflexivity. }
    set (f1 := extend f (hnext (st_heap s1)) v) in *.
    eapply IH in B; [ | exact I1 | | exact H' | exact ND' | ].
    + destruct B as (fr2' & rest & f' & B2 & E2 & I2 & F2).
      exists fr2', rest, f'. split; [exact B2|]. split; [eapply ext_trans; eauto|]. split; auto.
    + assert (F1 : framerel f1 fr1 fr2) by (eapply mono; eauto).
      destruct (str_eqb n underscore); auto. apply framerel_set; auto.
      unfold lrel, f1, extend. rewrite Pos.eqb_refl. reflexivity.
    + intros v' a0 Hin Q. unfold f1, extend in Q.
      destruct (Pos.eqb_spec a0 (hnext (st_heap s1))).
      * inversion Q; subst v'. contradiction.
      * eapply NR; [right; exact Hin | exact Q].
Qed.

(* ====================================================================== *)
(* 3. One event = one call of the twin procedure on cells holding the payload *)
(* ====================================================================== *)
Theorem event_as_call fuel P name args h fd vals f sE sC :
  find_handler name (p_handlers P) = Some h ->
  fn_params fd = h_params h -> fn_variadic fd = None -> fn_body fd = h_body h ->
  iso f sE sC ->
  Forall2 (holds_in sC) vals args -> NoDup vals -> (forall v a, In v vals -> f a <> Some v) ->
  (forall e s', bind_payload (h_params h) args [] sE <> (Er e, s')) ->
  fst (handle_event fuel P name args sE) = outcome_of_call (fst (call_user fuel P fd vals sC)) /\
  exists f', ext f f' /\ iso f' (snd (handle_event fuel P name args sE)) (snd (call_user fuel P fd vals sC)).
Proof.
  intros Hh Hp Hv Hb I H ND NR OKp. unfold handle_event, call_user. rewrite Hh, Hp, Hv, Hb.
  destruct (bind_payload (h_params h) args [] sE) as [[fr1|e] s1] eqn:B; [|exfalso; eapply OKp; eauto].
  destruct (payload_vs_params _ _ _ _ [] _ _ _ _ _ I ltac:(constructor) H ND NR B)
    as (fr2 & rest & f1 & B2 & E1 & I1 & F1).
  destruct (exec_block_iso P fuel f1 [fr1] [fr2] (h_body h) (envrel_single _ _ _ F1) s1 sC I1)
    as (f2 & E2 & I2 & Rr).
  unfold bindM, ret. rewrite B, B2. cbn beta iota.
  destruct (exec_block fuel P [fr1] (h_body h) s1) as [[[sig1 e1]|er1] t1],
           (exec_block fuel P [fr2] (h_body h) sC) as [[[sig2 e2]|er2] t2];
    simpl in Rr, I2; try contradiction.
  - destruct Rr as [Rs _]. simpl in Rs.
    assert (Ex : ext f f2) by (eapply ext_trans; eauto).
    destruct Rs; try rewrite alloc_run; cbn [fst snd outcome_of_call].
    + split; [reflexivity|]. exists f2. split; auto. apply (iso_right_alloc _ _ _ HNone I2).
    + split; [reflexivity|]. exists f2. split; auto. apply (iso_right_alloc _ _ _ HNone I2).
    + split; [reflexivity|]. exists f2. split; auto.
  - subst er2. simpl. split; [reflexivity|]. exists f2. split; auto. eapply ext_trans; eauto.
Qed.
