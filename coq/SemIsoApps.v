(* SemIsoApps.v — consequences of the invariance of the evaluator under heap
   isomorphism and garbage (SemIso.v):
   (a) C15: delivering an event = calling the twin procedure on argument cells
       that hold the payload values (equal outcomes, equal traces, isomorphic
       final states), for single events and for whole histories with literal
       arguments;
   (b) C09: runs from states that differ only outside a closed set of cells
       containing the roots (i.e. in garbage) give the same observables. *)
From Coq Require Import ZArith NArith PArith List String Bool Floats FMapPositive Lia.
From EvyV Require Import Base Num Ast Omap Sem SemOrder SemStoreBase SemIsoBase SemIsoLib SemIso SemEvents.
Import ListNotations.
Local Open Scope positive_scope.

(* ====================================================================== *)
(* 1. One-sided steps                                                      *)
(* ====================================================================== *)
Definition alloc_st (s : state) (v : hval) : state := upd_heap (snd (halloc (st_heap s) v)) s.

(* garbage on the right: an allocation the left side does not make *)
Lemma iso_right_alloc f s1 s2 v : iso f s1 s2 -> iso f s1 (alloc_st s2 v).
Proof.
  intro I. pose proof (iso_wf2 _ _ _ I) as W2. pose proof (iso_cells _ _ _ I) as C.
  destruct I. constructor; auto.
  - unfold wf, alloc_st; fields. apply fresh_ok_halloc; auto.
  - intros a b H. destruct (C a b H) as (v1 & v2 & G1 & G2 & R).
    exists v1, v2. split; auto. split; auto. unfold alloc_st; fields. apply hget_halloc_old; auto.
Qed.
Lemma iso_left_alloc f s1 s2 v : iso f s1 s2 -> iso f (alloc_st s1 v) s2.
Proof.
  intro I. pose proof (iso_wf1 _ _ _ I) as W1. pose proof (iso_cells _ _ _ I) as C.
  destruct I. constructor; auto.
  - unfold wf, alloc_st; fields. apply fresh_ok_halloc; auto.
  - intros a b H. destruct (C a b H) as (v1 & v2 & G1 & G2 & R).
    exists v1, v2. split; auto. unfold alloc_st; fields. apply hget_halloc_old; auto.
Qed.

(* the yield counter does not matter when no stop request can come *)
Lemma iso_right_yield f s1 s2 y :
  iso f s1 s2 -> st_stop_at s2 = None -> st_stopped s2 = false -> iso f s1 (upd_yield y false s2).
Proof.
  intros I N S. eapply iso_same_heap; eauto; simpl; try (destruct I; assumption).
  - rewrite <- S. apply (iso_stopped _ _ _ I).
  - left. rewrite (iso_stop_at _ _ _ I). exact N.
Qed.

(* a fresh cell on the left is matched with an existing cell on the right that holds a related
   value and is not yet in the range of f *)
Lemma iso_left_alloc_to f s1 s2 v1 b v2 :
  iso f s1 s2 -> hget (st_heap s2) b = Some v2 -> hvrel f v1 v2 -> (forall a, f a <> Some b) ->
  iso (extend f (hnext (st_heap s1)) b) (alloc_st s1 v1) s2 /\ ext f (extend f (hnext (st_heap s1)) b).
Proof.
  intros I G V NR. pose proof (iso_wf1 _ _ _ I) as W1.
  assert (E : ext f (extend f (hnext (st_heap s1)) b)).
  { intros x y H. unfold extend. destruct (Pos.eqb_spec x (hnext (st_heap s1))) as [->|N]; auto.
    rewrite (iso_not_dom_fresh _ _ _ I) in H. discriminate. }
  split; auto. constructor; unfold alloc_st; fields; try (destruct I; assumption).
  - apply fresh_ok_halloc; auto.
  - intros x x' y Hx Hx'. unfold extend in *.
    destruct (Pos.eqb_spec x (hnext (st_heap s1))) as [->|Nx], (Pos.eqb_spec x' (hnext (st_heap s1))) as [->|Nx']; auto.
    + inversion Hx; subst y. exfalso. eapply NR; eauto.
    + inversion Hx'; subst y. exfalso. eapply NR; eauto.
    + eapply (iso_inj _ _ _ I); eauto.
  - intros x y Hxy. unfold extend in Hxy. destruct (Pos.eqb_spec x (hnext (st_heap s1))) as [->|Nx].
    + inversion Hxy; subst y. exists v1, v2. rewrite hget_halloc_new. repeat split; auto. eapply mono; eauto.
    + destruct (iso_cells _ _ _ I _ _ Hxy) as (w1 & w2 & G1 & G2 & H).
      exists w1, w2. split; [apply hget_halloc_old; auto|]. split; auto. eapply mono; eauto.
  - eapply mono; eauto. apply (iso_glob _ _ _ I).
Qed.

(* ====================================================================== *)
(* 2. Payload binding (event side) against parameter binding (call side)   *)
(* ====================================================================== *)
Definition holds_in (s : state) (v : loc) (a : payload) : Prop :=
  hget (st_heap s) v = Some (hval_of_payload a).

Lemma payload_vs_params ps : forall args vals fr1 fr2 f s1 s2 fr1' s1',
  iso f s1 s2 -> framerel f fr1 fr2 ->
  Forall2 (holds_in s2) vals (firstn (List.length ps) args) ->
  NoDup vals -> (forall v a, In v vals -> f a <> Some v) ->
  bind_payload ps args fr1 s1 = (Ok fr1', s1') ->
  exists fr2' rest f',
    bind_params ps vals fr2 s2 = (Ok (fr2', rest), s2) /\
    ext f f' /\ iso f' s1' s2 /\ framerel f' fr1' fr2'.
Proof.
  induction ps as [|[n t] ps IH]; intros args vals fr1 fr2 f s1 s2 fr1' s1' I F H ND NR B; simpl in B |- *.
  - inversion B; subst. exists fr2, vals, f. split; [reflexivity|]. split; [apply ext_refl|]. split; auto.
  - destruct args as [|a more]; [inversion B|]. cbn [List.length firstn] in H.
    inversion H as [|v a' vals' more' Hv H']; subst.
    assert (Hex : exists hv : hval, (match t, a with
                       | TNum, PvNum x => alloc (HNum x)
                       | TStr, PvStr x => alloc (HStr x)
                       | TBool, PvBool x => alloc (HBool x)
                       | _, _ => fail (EPanic PkAnyConversion)
                       end) = alloc hv /\ hv = hval_of_payload a /\ is_basic hv = true).
    { destruct t, a; try (unfold bindM, fail in B; simpl in B; discriminate B); eexists; repeat split. }
    destruct Hex as (x & Ex & Hx & Bx). rewrite Ex in B. unfold bindM in B. rewrite alloc_run in B.
    subst x. inversion ND as [|? ? Nin ND']; subst.
    destruct (iso_left_alloc_to f s1 s2 (hval_of_payload a) v (hval_of_payload a) I Hv) as [I1 E1].
    { destruct a; constructor. }
    { intros a0. apply NR. left; reflexivity. }
    set (f1 := extend f (hnext (st_heap s1)) v) in *.
    eapply IH in B; [ | exact I1 | | exact H' | exact ND' | ].
    + destruct B as (fr2' & rest & f' & B2 & E2 & I2 & F2).
      exists fr2', rest, f'. split; [exact B2|]. split; [eapply ext_trans; eauto|]. split; auto.
    + assert (F1 : framerel f1 fr1 fr2) by (eapply mono; eauto).
      destruct (str_eqb n underscore); auto. apply framerel_set; auto.
      unfold lrel, f1, extend. rewrite Pos.eqb_refl. reflexivity.
    + intros v' a0 Hin Q. unfold f1, extend in Q.
      destruct (Pos.eqb_spec a0 (hnext (st_heap s1))).
      * inversion Q; subst v'. contradiction.
      * eapply NR; [right; exact Hin | exact Q].
Qed.

(* ====================================================================== *)
(* 3. One event = one call of the twin procedure on cells holding the payload *)
(* ====================================================================== *)
Theorem event_as_call fuel P name args h fd vals f sE sC :
  find_handler name (p_handlers P) = Some h ->
  fn_params fd = h_params h -> fn_variadic fd = None -> fn_body fd = h_body h ->
  iso f sE sC ->
  Forall2 (holds_in sC) vals (firstn (List.length (h_params h)) args) ->
  NoDup vals -> (forall v a, In v vals -> f a <> Some v) ->
  (forall e s', bind_payload (h_params h) args [] sE <> (Er e, s')) ->
  fst (handle_event fuel P name args sE) = outcome_of_call (fst (call_user fuel P fd vals sC)) /\
  exists f', ext f f' /\ iso f' (snd (handle_event fuel P name args sE)) (snd (call_user fuel P fd vals sC)).
Proof.
  intros Hh Hp Hv Hb I H ND NR OKp. unfold handle_event, call_user. rewrite Hh, Hp, Hv, Hb.
  destruct (bind_payload (h_params h) args [] sE) as [[fr1|e] s1] eqn:B; [|exfalso; eapply OKp; eauto].
  destruct (payload_vs_params _ _ _ _ [] _ _ _ _ _ I ltac:(constructor) H ND NR B)
    as (fr2 & rest & f1 & B2 & E1 & I1 & F1).
  destruct (exec_block_iso P fuel f1 [fr1] [fr2] (h_body h) (envrel_single _ _ _ F1) s1 sC I1)
    as (f2 & E2 & I2 & Rr).
  unfold bindM, ret. rewrite B, B2. cbn beta iota.
  destruct (exec_block fuel P [fr1] (h_body h) s1) as [[[sig1 e1]|er1] t1],
           (exec_block fuel P [fr2] (h_body h) sC) as [[[sig2 e2]|er2] t2];
    simpl in Rr, I2; try contradiction.
  - destruct Rr as [Rs _]. simpl in Rs.
    assert (Ex : ext f f2) by (eapply ext_trans; eauto).
    destruct Rs; try rewrite alloc_run; cbn [fst snd outcome_of_call].
    + split; [reflexivity|]. exists f2. split; auto. apply (iso_right_alloc _ _ _ HNone I2).
    + split; [reflexivity|]. exists f2. split; auto. apply (iso_right_alloc _ _ _ HNone I2).
    + split; [reflexivity|]. exists f2. split; auto.
  - subst er2. simpl. split; [reflexivity|]. exists f2. split; auto. eapply ext_trans; eauto.
Qed.

(* ====================================================================== *)
(* 4. The structural dump of the globals is invariant                      *)
(* ====================================================================== *)
Lemma seen_id_iso f l1 l2 seen1 seen2 n1 n2 :
  inj f -> lrel f l1 l2 -> lrels f seen1 seen2 -> seen_id l1 seen1 n1 = seen_id l2 seen2 n2.
Proof.
  intros J L S. induction S as [|x1 x2 t1 t2 Hx S IH]; simpl; auto.
  rewrite (listrel_length _ _ _ _ S).
  destruct (Pos.eqb_spec x1 l1) as [->|N1], (Pos.eqb_spec x2 l2) as [->|N2]; auto.
  - exfalso. apply N2. unfold lrel in *. congruence.
  - exfalso. apply N1. eapply J; eauto.
Qed.

Lemma dump_iso f s1 s2 : iso f s1 s2 -> forall fuel l1 l2 seen1 seen2,
  lrel f l1 l2 -> lrels f seen1 seen2 ->
  fst (dump fuel (st_heap s1) l1 seen1) = fst (dump fuel (st_heap s2) l2 seen2) /\
  lrels f (snd (dump fuel (st_heap s1) l1 seen1)) (snd (dump fuel (st_heap s2) l2 seen2)).
Proof.
  intro I. pose proof (iso_inj _ _ _ I) as J.
  induction fuel as [|n IH]; intros l1 l2 seen1 seen2 L S; simpl; [split; auto|].
  rewrite (seen_id_iso f l1 l2 seen1 seen2 0 0 J L S).
  destruct (seen_id l2 seen2 0); [split; auto|].
  destruct (iso_cells _ _ _ I _ _ L) as (v1 & v2 & G1 & G2 & V). rewrite G1, G2.
  assert (S1 : lrels f (l1 :: seen1) (l2 :: seen2)) by (constructor; auto).
  rewrite (listrel_length _ _ _ _ S).
  destruct V; simpl; try (split; auto; fail).
  - destruct (IH i j (l1 :: seen1) (l2 :: seen2) H S1) as [D1 D2].
    destruct (dump n (st_heap s1) i (l1 :: seen1)), (dump n (st_heap s2) j (l2 :: seen2)); simpl in *.
    subst. split; auto.
  - (* arrays *)
    assert (F : forall ds a1 a2, lrels f a1 a2 ->
              fst (fold_left (fun acc i => let '(ds, sn) := acc in
                                           let '(d, sn') := dump n (st_heap s1) i sn in (ds ++ [d], sn')) xs (ds, a1)) =
              fst (fold_left (fun acc i => let '(ds, sn) := acc in
                                           let '(d, sn') := dump n (st_heap s2) i sn in (ds ++ [d], sn')) ys (ds, a2)) /\
              lrels f (snd (fold_left (fun acc i => let '(ds, sn) := acc in
                                           let '(d, sn') := dump n (st_heap s1) i sn in (ds ++ [d], sn')) xs (ds, a1)))
                      (snd (fold_left (fun acc i => let '(ds, sn) := acc in
                                           let '(d, sn') := dump n (st_heap s2) i sn in (ds ++ [d], sn')) ys (ds, a2)))).
    { clear -H IH. induction H as [|x1 x2 t1 t2 Hx X IHX]; intros ds a1 a2 A; simpl; [split; auto|].
      destruct (IH x1 x2 a1 a2 Hx A) as [D1 D2].
      destruct (dump n (st_heap s1) x1 a1), (dump n (st_heap s2) x2 a2); simpl in *. subst. apply IHX; auto. }
    destruct (F [] _ _ S1) as [F1 F2].
    destruct (fold_left _ xs _), (fold_left _ ys _); simpl in *. subst. split; auto.
  - (* maps *)
    rewrite <- H.
    assert (F : forall ks ds a1 a2, lrels f a1 a2 ->
              fst (fold_left (fun acc k => let '(ds, sn) := acc in
                      match plookup k (pairs m1) with
                      | Some i => let '(d, sn') := dump n (st_heap s1) i sn in (ds ++ [Lst [Str k; d]], sn')
                      | None => (ds ++ [Lst [Str k; Sym (s_ "nil")]], sn)
                      end) ks (ds, a1)) =
              fst (fold_left (fun acc k => let '(ds, sn) := acc in
                      match plookup k (pairs m2) with
                      | Some i => let '(d, sn') := dump n (st_heap s2) i sn in (ds ++ [Lst [Str k; d]], sn')
                      | None => (ds ++ [Lst [Str k; Sym (s_ "nil")]], sn)
                      end) ks (ds, a2)) /\
              lrels f (snd (fold_left (fun acc k => let '(ds, sn) := acc in
                      match plookup k (pairs m1) with
                      | Some i => let '(d, sn') := dump n (st_heap s1) i sn in (ds ++ [Lst [Str k; d]], sn')
                      | None => (ds ++ [Lst [Str k; Sym (s_ "nil")]], sn)
                      end) ks (ds, a1)))
                      (snd (fold_left (fun acc k => let '(ds, sn) := acc in
                      match plookup k (pairs m2) with
                      | Some i => let '(d, sn') := dump n (st_heap s2) i sn in (ds ++ [Lst [Str k; d]], sn')
                      | None => (ds ++ [Lst [Str k; Sym (s_ "nil")]], sn)
                      end) ks (ds, a2)))).
    { clear -H0 IH. induction ks as [|k t IHk]; intros ds a1 a2 A; simpl; [split; auto|].
      pose proof (framerel_plookup f k _ _ H0) as G.
      destruct (plookup k (pairs m1)) as [i1|], (plookup k (pairs m2)) as [i2|]; simpl in G; try contradiction.
      - destruct (IH i1 i2 a1 a2 G A) as [D1 D2].
        destruct (dump n (st_heap s1) i1 a1), (dump n (st_heap s2) i2 a2); simpl in *. subst. apply IHk; auto.
      - apply IHk; auto. }
    destruct (F (order m1) [] _ _ S1) as [F1 F2].
    destruct (fold_left _ (order m1) _), (fold_left _ (order m1) _); simpl in *. subst. split; auto.
Qed.

Lemma insert_sorted_rel f x1 x2 l1 l2 :
  bindrel f x1 x2 -> framerel f l1 l2 -> framerel f (insert_sorted x1 l1) (insert_sorted x2 l2).
Proof.
  intros X L. induction L as [|y1 y2 t1 t2 Hy L IH]; simpl; [constructor; [exact X | constructor]|].
  destruct X as [X1 X2], Hy as [Y1 Y2]. unfold eqrel in X1, Y1. rewrite <- X1, <- Y1.
  destruct (str_ltb (fst x1) (fst y1)).
  - constructor; [split; assumption | constructor; [split; assumption | exact L]].
  - constructor; [split; assumption | apply IH].
Qed.
Lemma sort_frame_rel f g1 g2 : framerel f g1 g2 -> framerel f (sort_frame g1) (sort_frame g2).
Proof.
  intro G. unfold sort_frame. induction G; simpl; [constructor|]. apply insert_sorted_rel; auto.
Qed.

(* the hook's dump of the globals (values and sharing structure) does not see the renaming *)
Theorem dump_globals_iso f s1 s2 : iso f s1 s2 -> dump_globals s1 = dump_globals s2.
Proof.
  intro I. unfold dump_globals. generalize value_depth. intro d.
  pose proof (sort_frame_rel _ _ _ (iso_glob _ _ _ I)) as G.
  assert (F : forall ds a1 a2, lrels f a1 a2 ->
     fst (fold_left (fun acc nl => let '(ds, sn) := acc in
                       let '(d, sn') := dump d (st_heap s1) (snd nl) sn in
                       (ds ++ [Lst [Str (fst nl); d]], sn')) (sort_frame (st_globals s1)) (ds, a1)) =
     fst (fold_left (fun acc nl => let '(ds, sn) := acc in
                       let '(d, sn') := dump d (st_heap s2) (snd nl) sn in
                       (ds ++ [Lst [Str (fst nl); d]], sn')) (sort_frame (st_globals s2)) (ds, a2))).
  { induction G as [|x1 x2 t1 t2 [Hx1 Hx2] G IH]; intros ds a1 a2 A; cbn [fold_left]; auto.
    destruct (dump_iso _ _ _ I d (snd x1) (snd x2) a1 a2 Hx2 A) as [D1 D2].
    unfold eqrel in Hx1. rewrite <- Hx1.
    destruct (dump d (st_heap s1) (snd x1) a1) as [d1 q1], (dump d (st_heap s2) (snd x2) a2) as [d2 q2].
    cbn [fst snd] in D1, D2. subst d2. apply IH; auto. }
  specialize (F [] [] [] ltac:(constructor)).
  destruct (fold_left _ (sort_frame (st_globals s1)) _) as [r1 q1],
           (fold_left _ (sort_frame (st_globals s2)) _) as [r2 q2].
  cbn [fst] in F. subst. reflexivity.
Qed.

(* everything the platform and the verif hooks observe *)
Theorem iso_same_observables f s1 s2 : iso f s1 s2 -> same_observables s1 s2.
Proof.
  intro I. unfold same_observables. repeat split; try (destruct I; assumption).
  eapply dump_globals_iso; eauto.
Qed.
