(* SemIsoApps.v — consequences of the invariance of the evaluator under heap
   isomorphism and garbage (SemIso.v):
   (a) C15: delivering an event = calling the twin procedure on argument cells
       that hold the payload values (equal outcomes, equal traces, isomorphic
       final states), for single events and for whole histories with literal
       arguments;
   (b) C09: runs from states that differ only outside a closed set of cells
       containing the roots (i.e. in garbage) give the same observables. *)
From Coq Require Import ZArith NArith PArith List String Bool Floats FMapPositive Lia.
From EvyV Require Import Base Num Ast Omap Sem SemOrder SemStoreBase SemIsoBase SemIsoLib SemIso SemEvents.
Import ListNotations.
Local Open Scope positive_scope.

(* ====================================================================== *)
(* 1. One-sided steps                                                      *)
(* ====================================================================== *)
Definition alloc_st (s : state) (v : hval) : state := upd_heap (snd (halloc (st_heap s) v)) s.

(* garbage on the right: an allocation the left side does not make *)
Lemma iso_right_alloc f s1 s2 v : iso f s1 s2 -> iso f s1 (alloc_st s2 v).
Proof.
  intro I. pose proof (iso_wf2 _ _ _ I) as W2. pose proof (iso_cells _ _ _ I) as C.
  destruct I. constructor; auto.
  - unfold wf, alloc_st; fields. apply fresh_ok_halloc; auto.
  - intros a b H. destruct (C a b H) as (v1 & v2 & G1 & G2 & R).
    exists v1, v2. split; auto. split; auto. unfold alloc_st; fields. apply hget_halloc_old; auto.
Qed.
Lemma iso_left_alloc f s1 s2 v : iso f s1 s2 -> iso f (alloc_st s1 v) s2.
Proof.
  intro I. pose proof (iso_wf1 _ _ _ I) as W1. pose proof (iso_cells _ _ _ I) as C.
  destruct I. constructor; auto.
  - unfold wf, alloc_st; fields. apply fresh_ok_halloc; auto.
  - intros a b H. destruct (C a b H) as (v1 & v2 & G1 & G2 & R).
    exists v1, v2. split; auto. unfold alloc_st; fields. apply hget_halloc_old; auto.
Qed.

(* the yield counter does not matter when no stop request can come *)
Lemma iso_right_yield f s1 s2 y :
  iso f s1 s2 -> st_stop_at s2 = None -> st_stopped s2 = false -> iso f s1 (upd_yield y false s2).
Proof.
  intros I N S. eapply iso_same_heap; eauto; simpl; try (destruct I; assumption).
  - rewrite <- S. apply (iso_stopped _ _ _ I).
  - left. rewrite (iso_stop_at _ _ _ I). exact N.
Qed.

(* a fresh cell on the left is matched with an existing cell on the right that holds a related
   value and is not yet in the range of f *)
Lemma iso_left_alloc_to f s1 s2 v1 b v2 :
  iso f s1 s2 -> hget (st_heap s2) b = Some v2 -> hvrel f v1 v2 -> (forall a, f a <> Some b) ->
  iso (extend f (hnext (st_heap s1)) b) (alloc_st s1 v1) s2 /\ ext f (extend f (hnext (st_heap s1)) b).
Proof.
  intros I G V NR. pose proof (iso_wf1 _ _ _ I) as W1.
  assert (E : ext f (extend f (hnext (st_heap s1)) b)).
  { intros x y H. unfold extend. destruct (Pos.eqb_spec x (hnext (st_heap s1))) as [->|N]; auto.
    rewrite (iso_not_dom_fresh _ _ _ I) in H. discriminate. }
  split; auto. constructor; unfold alloc_st; fields; try (destruct I; assumption).
  - apply fresh_ok_halloc; auto.
  - intros x x' y Hx Hx'. unfold extend in *.
    destruct (Pos.eqb_spec x (hnext (st_heap s1))) as [->|Nx], (Pos.eqb_spec x' (hnext (st_heap s1))) as [->|Nx']; auto.
    + inversion Hx; subst y. exfalso. eapply NR; eauto.
    + inversion Hx'; subst y. exfalso. eapply NR; eauto.
    + eapply (iso_inj _ _ _ I); eauto.
  - intros x y Hxy. unfold extend in Hxy. destruct (Pos.eqb_spec x (hnext (st_heap s1))) as [->|Nx].
    + inversion Hxy; subst y. exists v1, v2. rewrite hget_halloc_new. repeat split; auto. eapply mono; eauto.
    + destruct (iso_cells _ _ _ I _ _ Hxy) as (w1 & w2 & G1 & G2 & H).
      exists w1, w2. split; [apply hget_halloc_old; auto|]. split; auto. eapply mono; eauto.
  - eapply mono; eauto. apply (iso_glob _ _ _ I).
Qed.

(* ====================================================================== *)
(* 2. Payload binding (event side) against parameter binding (call side)   *)
(* ====================================================================== *)
Definition holds_in (s : state) (v : loc) (a : payload) : Prop :=
  hget (st_heap s) v = Some (hval_of_payload a).

Lemma payload_vs_params ps : forall args vals fr1 fr2 f s1 s2 fr1' s1',
  iso f s1 s2 -> framerel f fr1 fr2 ->
  Forall2 (holds_in s2) vals (firstn (List.length ps) args) ->
  NoDup vals -> (forall v a, In v vals -> f a <> Some v) ->
  bind_payload ps args fr1 s1 = (Ok fr1', s1') ->
  exists fr2' rest f',
    bind_params ps vals fr2 s2 = (Ok (fr2', rest), s2) /\
    ext f f' /\ iso f' s1' s2 /\ framerel f' fr1' fr2'.
Proof.
  induction ps as [|[n t] ps IH]; intros args vals fr1 fr2 f s1 s2 fr1' s1' I F H ND NR B; simpl in B |- *.
  - inversion B; subst. exists fr2, vals, f. split; [reflexivity|]. split; [apply ext_refl|]. split; auto.
  - destruct args as [|a more]; [inversion B|]. cbn [List.length firstn] in H.
    inversion H as [|v a' vals' more' Hv H']; subst.
    assert (Hex : exists hv : hval, (match t, a with
                       | TNum, PvNum x => alloc (HNum x)
                       | TStr, PvStr x => alloc (HStr x)
                       | TBool, PvBool x => alloc (HBool x)
                       | _, _ => fail (EPanic PkAnyConversion)
                       end) = alloc hv /\ hv = hval_of_payload a /\ is_basic hv = true).
    { destruct t, a; try (unfold bindM, fail in B; simpl in B; discriminate B); eexists; repeat split. }
    destruct Hex as (x & Ex & Hx & Bx). rewrite Ex in B. unfold bindM in B. rewrite alloc_run in B.
    subst x. inversion ND as [|? ? Nin ND']; subst.
    destruct (iso_left_alloc_to f s1 s2 (hval_of_payload a) v (hval_of_payload a) I Hv) as [I1 E1].
    { destruct a; constructor. }
    { intros a0. apply NR. left; reflexivity. }
    set (f1 := extend f (hnext (st_heap s1)) v) in *.
    eapply IH in B; [ | exact I1 | | exact H' | exact ND' | ].
    + destruct B as (fr2' & rest & f' & B2 & E2 & I2 & F2).
      exists fr2', rest, f'. split; [exact B2|]. split; [eapply ext_trans; eauto|]. split; auto.
    + assert (F1 : framerel f1 fr1 fr2) by (eapply mono; eauto).
      destruct (str_eqb n underscore); auto. apply framerel_set; auto.
      unfold lrel, f1, extend. rewrite Pos.eqb_refl. reflexivity.
    + intros v' a0 Hin Q. unfold f1, extend in Q.
      destruct (Pos.eqb_spec a0 (hnext (st_heap s1))).
      * inversion Q; subst v'. contradiction.
      * eapply NR; [right; exact Hin | exact Q].
Qed.

(* ====================================================================== *)
(* 3. One event = one call of the twin procedure on cells holding the payload *)
(* ====================================================================== *)
Theorem event_as_call fuel P name args h fd vals f sE sC :
  find_handler name (p_handlers P) = Some h ->
  fn_params fd = h_params h -> fn_variadic fd = None -> fn_body fd = h_body h ->
  iso f sE sC ->
  Forall2 (holds_in sC) vals (firstn (List.length (h_params h)) args) ->
  NoDup vals -> (forall v a, In v vals -> f a <> Some v) ->
  (forall e s', bind_payload (h_params h) args [] sE <> (Er e, s')) ->
  fst (handle_event fuel P name args sE) = outcome_of_call (fst (call_user fuel P fd vals sC)) /\
  exists f', ext f f' /\ iso f' (snd (handle_event fuel P name args sE)) (snd (call_user fuel P fd vals sC)).
Proof.
  intros Hh Hp Hv Hb I H ND NR OKp. unfold handle_event, call_user. rewrite Hh, Hp, Hv, Hb.
  destruct (bind_payload (h_params h) args [] sE) as [[fr1|e] s1] eqn:B; [|exfalso; eapply OKp; eauto].
  destruct (payload_vs_params _ _ _ _ [] _ _ _ _ _ I ltac:(constructor) H ND NR B)
    as (fr2 & rest & f1 & B2 & E1 & I1 & F1).
  destruct (exec_block_iso P fuel f1 [fr1] [fr2] (h_body h) (envrel_single _ _ _ F1) s1 sC I1)
    as (f2 & E2 & I2 & Rr).
  unfold bindM, ret. rewrite B, B2. cbn beta iota.
  destruct (exec_block fuel P [fr1] (h_body h) s1) as [[[sig1 e1]|er1] t1],
           (exec_block fuel P [fr2] (h_body h) sC) as [[[sig2 e2]|er2] t2];
    simpl in Rr, I2; try contradiction.
  - destruct Rr as [Rs _]. simpl in Rs.
    assert (Ex : ext f f2) by (eapply ext_trans; eauto).
    destruct Rs; try rewrite alloc_run; cbn [fst snd outcome_of_call].
    + split; [reflexivity|]. exists f2. split; auto. apply (iso_right_alloc _ _ _ HNone I2).
    + split; [reflexivity|]. exists f2. split; auto. apply (iso_right_alloc _ _ _ HNone I2).
    + split; [reflexivity|]. exists f2. split; auto.
  - subst er2. simpl. split; [reflexivity|]. exists f2. split; auto. eapply ext_trans; eauto.
Qed.

(* ====================================================================== *)
(* 4. The structural dump of the globals is invariant                      *)
(* ====================================================================== *)
Lemma seen_id_iso f l1 l2 seen1 seen2 n1 n2 :
  inj f -> lrel f l1 l2 -> lrels f seen1 seen2 -> seen_id l1 seen1 n1 = seen_id l2 seen2 n2.
Proof.
  intros J L S. induction S as [|x1 x2 t1 t2 Hx S IH]; simpl; auto.
  rewrite (listrel_length _ _ _ _ S).
  destruct (Pos.eqb_spec x1 l1) as [->|N1], (Pos.eqb_spec x2 l2) as [->|N2]; auto.
  - exfalso. apply N2. unfold lrel in *. congruence.
  - exfalso. apply N1. eapply J; eauto.
Qed.

Lemma dump_iso f s1 s2 : iso f s1 s2 -> forall fuel l1 l2 seen1 seen2,
  lrel f l1 l2 -> lrels f seen1 seen2 ->
  fst (dump fuel (st_heap s1) l1 seen1) = fst (dump fuel (st_heap s2) l2 seen2) /\
  lrels f (snd (dump fuel (st_heap s1) l1 seen1)) (snd (dump fuel (st_heap s2) l2 seen2)).
Proof.
  intro I. pose proof (iso_inj _ _ _ I) as J.
  induction fuel as [|n IH]; intros l1 l2 seen1 seen2 L S; simpl; [split; auto|].
  rewrite (seen_id_iso f l1 l2 seen1 seen2 0 0 J L S).
  destruct (seen_id l2 seen2 0); [split; auto|].
  destruct (iso_cells _ _ _ I _ _ L) as (v1 & v2 & G1 & G2 & V). rewrite G1, G2.
  assert (S1 : lrels f (l1 :: seen1) (l2 :: seen2)) by (constructor; auto).
  rewrite (listrel_length _ _ _ _ S).
  destruct V; simpl; try (split; auto; fail).
  - destruct (IH i j (l1 :: seen1) (l2 :: seen2) H S1) as [D1 D2].
    destruct (dump n (st_heap s1) i (l1 :: seen1)), (dump n (st_heap s2) j (l2 :: seen2)); simpl in *.
    subst. split; auto.
  - (* arrays *)
    assert (F : forall ds a1 a2, lrels f a1 a2 ->
              fst (fold_left (fun acc i => let '(ds, sn) := acc in
                                           let '(d, sn') := dump n (st_heap s1) i sn in (ds ++ [d], sn')) xs (ds, a1)) =
              fst (fold_left (fun acc i => let '(ds, sn) := acc in
                                           let '(d, sn') := dump n (st_heap s2) i sn in (ds ++ [d], sn')) ys (ds, a2)) /\
              lrels f (snd (fold_left (fun acc i => let '(ds, sn) := acc in
                                           let '(d, sn') := dump n (st_heap s1) i sn in (ds ++ [d], sn')) xs (ds, a1)))
                      (snd (fold_left (fun acc i => let '(ds, sn) := acc in
                                           let '(d, sn') := dump n (st_heap s2) i sn in (ds ++ [d], sn')) ys (ds, a2)))).
    { clear -H IH. induction H as [|x1 x2 t1 t2 Hx X IHX]; intros ds a1 a2 A; simpl; [split; auto|].
      destruct (IH x1 x2 a1 a2 Hx A) as [D1 D2].
      destruct (dump n (st_heap s1) x1 a1), (dump n (st_heap s2) x2 a2); simpl in *. subst. apply IHX; auto. }
    destruct (F [] _ _ S1) as [F1 F2].
    destruct (fold_left _ xs _), (fold_left _ ys _); simpl in *. subst. split; auto.
  - (* maps *)
    rewrite <- H.
    assert (F : forall ks ds a1 a2, lrels f a1 a2 ->
              fst (fold_left (fun acc k => let '(ds, sn) := acc in
                      match plookup k (pairs m1) with
                      | Some i => let '(d, sn') := dump n (st_heap s1) i sn in (ds ++ [Lst [Str k; d]], sn')
                      | None => (ds ++ [Lst [Str k; Sym (s_ "nil")]], sn)
                      end) ks (ds, a1)) =
              fst (fold_left (fun acc k => let '(ds, sn) := acc in
                      match plookup k (pairs m2) with
                      | Some i => let '(d, sn') := dump n (st_heap s2) i sn in (ds ++ [Lst [Str k; d]], sn')
                      | None => (ds ++ [Lst [Str k; Sym (s_ "nil")]], sn)
                      end) ks (ds, a2)) /\
              lrels f (snd (fold_left (fun acc k => let '(ds, sn) := acc in
                      match plookup k (pairs m1) with
                      | Some i => let '(d, sn') := dump n (st_heap s1) i sn in (ds ++ [Lst [Str k; d]], sn')
                      | None => (ds ++ [Lst [Str k; Sym (s_ "nil")]], sn)
                      end) ks (ds, a1)))
                      (snd (fold_left (fun acc k => let '(ds, sn) := acc in
                      match plookup k (pairs m2) with
                      | Some i => let '(d, sn') := dump n (st_heap s2) i sn in (ds ++ [Lst [Str k; d]], sn')
                      | None => (ds ++ [Lst [Str k; Sym (s_ "nil")]], sn)
                      end) ks (ds, a2)))).
    { clear -H0 IH. induction ks as [|k t IHk]; intros ds a1 a2 A; simpl; [split; auto|].
      pose proof (framerel_plookup f k _ _ H0) as G.
      destruct (plookup k (pairs m1)) as [i1|], (plookup k (pairs m2)) as [i2|]; simpl in G; try contradiction.
      - destruct (IH i1 i2 a1 a2 G A) as [D1 D2].
        destruct (dump n (st_heap s1) i1 a1), (dump n (st_heap s2) i2 a2); simpl in *. subst. apply IHk; auto.
      - apply IHk; auto. }
    destruct (F (order m1) [] _ _ S1) as [F1 F2].
    destruct (fold_left _ (order m1) _), (fold_left _ (order m1) _); simpl in *. subst. split; auto.
Qed.

Lemma insert_sorted_rel f x1 x2 l1 l2 :
  bindrel f x1 x2 -> framerel f l1 l2 -> framerel f (insert_sorted x1 l1) (insert_sorted x2 l2).
Proof.
  intros X L. induction L as [|y1 y2 t1 t2 Hy L IH]; simpl; [constructor; [exact X | constructor]|].
  destruct X as [X1 X2], Hy as [Y1 Y2]. unfold eqrel in X1, Y1. rewrite <- X1, <- Y1.
  destruct (str_ltb (fst x1) (fst y1)).
  - constructor; [split; assumption | constructor; [split; assumption | exact L]].
  - constructor; [split; assumption | apply IH].
Qed.
Lemma sort_frame_rel f g1 g2 : framerel f g1 g2 -> framerel f (sort_frame g1) (sort_frame g2).
Proof.
  intro G. unfold sort_frame. induction G; simpl; [constructor|]. apply insert_sorted_rel; auto.
Qed.

(* the hook's dump of the globals (values and sharing structure) does not see the renaming *)
Theorem dump_globals_iso f s1 s2 : iso f s1 s2 -> dump_globals s1 = dump_globals s2.
Proof.
  intro I. unfold dump_globals. generalize value_depth. intro d.
  pose proof (sort_frame_rel _ _ _ (iso_glob _ _ _ I)) as G.
  assert (F : forall ds a1 a2, lrels f a1 a2 ->
     fst (fold_left (fun acc nl => let '(ds, sn) := acc in
                       let '(d, sn') := dump d (st_heap s1) (snd nl) sn in
                       (ds ++ [Lst [Str (fst nl); d]], sn')) (sort_frame (st_globals s1)) (ds, a1)) =
     fst (fold_left (fun acc nl => let '(ds, sn) := acc in
                       let '(d, sn') := dump d (st_heap s2) (snd nl) sn in
                       (ds ++ [Lst [Str (fst nl); d]], sn')) (sort_frame (st_globals s2)) (ds, a2))).
  { induction G as [|x1 x2 t1 t2 [Hx1 Hx2] G IH]; intros ds a1 a2 A; cbn [fold_left]; auto.
    destruct (dump_iso _ _ _ I d (snd x1) (snd x2) a1 a2 Hx2 A) as [D1 D2].
    unfold eqrel in Hx1. rewrite <- Hx1.
    destruct (dump d (st_heap s1) (snd x1) a1) as [d1 q1], (dump d (st_heap s2) (snd x2) a2) as [d2 q2].
    cbn [fst snd] in D1, D2. subst d2. apply IH; auto. }
  specialize (F [] [] [] ltac:(constructor)).
  destruct (fold_left _ (sort_frame (st_globals s1)) _) as [r1 q1],
           (fold_left _ (sort_frame (st_globals s2)) _) as [r2 q2].
  cbn [fst] in F. subst. reflexivity.
Qed.

(* everything the platform and the verif hooks observe *)
Theorem iso_same_observables f s1 s2 : iso f s1 s2 -> same_observables s1 s2.
Proof.
  intro I. unfold same_observables. repeat split; try (destruct I; assumption).
  eapply dump_globals_iso; eauto.
Qed.

(* ====================================================================== *)
(* 5. tick_ok (no stop request pending or possible) is kept by the evaluator *)
(* ====================================================================== *)
Definition keeps_ok (s s' : state) : Prop := tick_ok s -> tick_ok s'.

Lemma keeps_ok_tick s : st_stopped s = false ->
  keeps_ok s (upd_yield (S (st_yields s))
                (match st_stop_at s with Some k => Nat.eqb k (st_yields s) | None => false end) s).
Proof. intros _ [H1 H2]. split; simpl; [rewrite H2; reflexivity | exact H2]. Qed.

Definition eval_keeps_ok :=
  eval_resp keeps_ok (fun s H => H) (fun a b c H1 H2 H => H2 (H1 H))
    (fun h s H => H) (fun g s H => H) keeps_ok_tick
    (fun i s H => H) (fun t f s H => H) (fun ev s H => H).

Lemma eval_call_keeps_ok n P e nm args s r s' :
  eval_call n P e nm args s = (r, s') -> tick_ok s -> tick_ok s'.
Proof. intro H. exact (proj1 (proj2 (proj2 (eval_keeps_ok n))) P e nm args s r s' H). Qed.

(* ====================================================================== *)
(* 6. Literal arguments on the call side                                   *)
(* ====================================================================== *)
Lemma lit_state_eq a s :
  lit_state a s = alloc_st (alloc_st (upd_yield (S (st_yields s)) false s) (hval_of_payload a)) (hval_of_payload a).
Proof. reflexivity. Qed.

Lemma lit_run_props args : forall f sE s,
  iso f sE s -> tick_ok s ->
  let ls := fst (lit_run args s) in
  let s2 := snd (lit_run args s) in
  iso f sE s2 /\ tick_ok s2 /\ Forall2 (holds_in s2) ls args /\ NoDup ls /\
  (forall v, In v ls -> hnext (st_heap s) <= v) /\
  (forall l v, hget (st_heap s) l = Some v -> hget (st_heap s2) l = Some v).
Proof.
  induction args as [|a t IH]; intros f sE s I T; simpl.
  - split; [exact I|]. split; [exact T|]. split; [constructor|]. split; [constructor|].
    split; [intros v []| auto].
  - assert (I1 : iso f sE (lit_state a s)).
    { rewrite lit_state_eq. apply iso_right_alloc, iso_right_alloc. destruct T. apply iso_right_yield; auto. }
    pose proof (tick_ok_lit_state a s T) as T1.
    destruct (IH f sE (lit_state a s) I1 T1) as (I2 & T2 & H2 & ND2 & G2 & X2).
    destruct (lit_run t (lit_state a s)) as [ls s2] eqn:L. simpl in *.
    pose proof (iso_wf2 _ _ _ I) as W.
    assert (N1 : hnext (st_heap (lit_state a s)) = Pos.succ (Pos.succ (hnext (st_heap s)))) by reflexivity.
    split; [exact I2|]. split; [exact T2|]. split; [|split; [|split]].
    + constructor; [|exact H2]. unfold holds_in. apply X2. apply lit_heap_copy.
    + constructor; [|exact ND2]. intro Hin. apply G2 in Hin. try rewrite N1 in Hin. simpl in Hin. lia.
    + intros v [<-|Hin]; [lia|]. apply G2 in Hin. try rewrite N1 in Hin. simpl in Hin. lia.
    + intros l v Hl. apply X2. unfold lit_state; fields. rewrite lit_heap_old; auto.
      eapply wf_alloc_lt; eauto.
Qed.

(* ====================================================================== *)
(* 7. One event against the call with literal arguments; whole histories   *)
(* ====================================================================== *)
Theorem event_as_literal_call fuel P pn (e : ev) h f sE sC :
  procs_mirror_handlers P pn ->
  find_handler (fst e) (p_handlers P) = Some h ->
  (forall er s', bind_payload (h_params h) (snd e) [] sE <> (Er er, s')) ->
  (List.length (h_params h) < fuel)%nat ->
  iso f sE sC -> tick_ok sC ->
  fst (handle_event fuel P (fst e) (snd e) sE) = fst (call_event fuel P pn e sC) /\
  tick_ok (snd (call_event fuel P pn e sC)) /\
  exists f', ext f f' /\ iso f' (snd (handle_event fuel P (fst e) (snd e) sE)) (snd (call_event fuel P pn e sC)).
Proof.
  intros PM Hh OKp Lf I T.
  assert (Hin : In h (p_handlers P)).
  { clear -Hh. induction (p_handlers P) as [|x t IH]; simpl in Hh; [discriminate|].
    destruct (str_eqb (h_name x) (fst e)); [inversion Hh; left; auto | right; auto]. }
  assert (Hn : h_name h = fst e).
  { clear -Hh. induction (p_handlers P) as [|x t IH]; simpl in Hh; [discriminate|].
    destruct (str_eqb (h_name x) (fst e)) eqn:Q; [inversion Hh; subst; apply str_eqb_eq; auto | auto]. }
  destruct (PM h Hin) as (UF & fd & Ff & Fp & Fv & Fb). rewrite Hn in UF, Ff.
  unfold call_event. rewrite Hh.
  set (args' := firstn (List.length (h_params h)) (snd e)).
  assert (La : (List.length args' < fuel)%nat).
  { unfold args'. rewrite firstn_length. lia. }
  pose proof (eval_call_keeps_ok (S fuel) P [] (pn (fst e)) (map payload_expr args') sC) as KO.
  rewrite (eval_call_user_unfold fuel P [] (pn (fst e)) (map payload_expr args') fd sC UF Ff) in *.
  rewrite (eval_exprs_literals P [] args' fuel sC T La) in *.
  destruct (lit_run_props args' f sE sC I T) as (I2 & T2 & H2 & ND2 & G2 & _).
  set (vals := fst (lit_run args' sC)) in *. set (sC2 := snd (lit_run args' sC)) in *.
  destruct (event_as_call fuel P (fst e) (snd e) h fd vals f sE sC2 Hh Fp Fv Fb I2 H2 ND2) as [O (f' & E' & I')].
  { intros v a Hv Q. apply G2 in Hv.
    destruct (iso_cells _ _ _ I _ _ Q) as (_ & w & _ & Gw & _).
    pose proof (wf_alloc_lt _ _ _ (iso_wf2 _ _ _ I) Gw). lia. }
  { exact OKp. }
  destruct (call_user fuel P fd vals sC2) as [r2 s2] eqn:CU. simpl in *.
  split; [exact O|]. split; [eapply KO; eauto | eauto].
Qed.

Theorem events_as_calls fuel P pn : forall (es : list ev) f sE sC,
  procs_mirror_handlers P pn ->
  iso f sE sC -> tick_ok sC ->
  (forall e, In e es -> exists h vs,
       find_handler (fst e) (p_handlers P) = Some h /\
       payload_vals (h_params h) (snd e) = PvOk vs /\ (List.length (h_params h) < fuel)%nat) ->
  fst (handle_events fuel P es sE) = fst (call_events fuel P pn es sC) /\
  exists f', ext f f' /\ iso f' (snd (handle_events fuel P es sE)) (snd (call_events fuel P pn es sC)).
Proof.
  induction es as [|e t IH]; intros f sE sC PM I T H; simpl.
  - split; auto. exists f. split; [apply ext_refl | exact I].
  - destruct (H e (or_introl eq_refl)) as (h & vs & Hh & Pv & Lf).
    destruct (event_as_literal_call fuel P pn e h f sE sC PM Hh) as (O1 & T1 & f1 & E1 & I1); auto.
    { intros er s'. rewrite bind_payload_exact. unfold bind_payload_result. rewrite Pv. discriminate. }
    destruct (handle_event fuel P (fst e) (snd e) sE) as [o1 s1].
    destruct (call_event fuel P pn e sC) as [o2 s2]. simpl in *.
    destruct (IH f1 s1 s2 PM I1 T1) as (O2 & f2 & E2 & I2).
    { intros e' He'. apply H. right; exact He'. }
    destruct (handle_events fuel P t s1) as [os1 s1'], (call_events fuel P pn t s2) as [os2 s2']. simpl in *.
    split; [congruence|]. exists f2. split; [eapply ext_trans; eauto | exact I2].
Qed.

(* ====================================================================== *)
(* 8. C09: garbage does not matter                                         *)
(* ====================================================================== *)
Definition refs (v : hval) : list loc :=
  match v with HAny _ i => [i] | HArr els => els | HMap m => map snd (pairs m) | _ => [] end.

(* the partial identity on a set of cells *)
Definition pid (D : loc -> bool) : lmap := fun l => if D l then Some l else None.

(* s1 and s2 agree on the set D, which contains the global roots and is closed under
   references; outside D (garbage) the two heaps are unrelated *)
Record agree (D : loc -> bool) (s1 s2 : state) : Prop := {
  ag_wf1 : wf s1;
  ag_wf2 : wf s2;
  ag_cells : forall l, D l = true ->
             exists v, hget (st_heap s1) l = Some v /\ hget (st_heap s2) l = Some v /\
                       Forall (fun c => D c = true) (refs v);
  ag_glob : st_globals s1 = st_globals s2;
  ag_roots : Forall (fun nl => D (snd nl) = true) (st_globals s1);
  ag_trace : st_trace s1 = st_trace s2;
  ag_stopped : st_stopped s1 = st_stopped s2;
  ag_stop_at : st_stop_at s1 = st_stop_at s2;
  ag_yields : st_yields s1 = st_yields s2;
  ag_cay : st_check_after_yield s1 = st_check_after_yield s2;
  ag_input : st_input s1 = st_input s2;
  ag_total : st_total s1 = st_total s2;
  ag_fails : st_fails s1 = st_fails s2;
  ag_failfast : st_failfast s1 = st_failfast s2 }.

Lemma pid_lrels D l : Forall (fun c => D c = true) l -> lrels (pid D) l l.
Proof. intro F. induction F; constructor; auto. unfold lrel, pid. rewrite H. reflexivity. Qed.
Lemma pid_framerel D (fr : frame) : Forall (fun nl => D (snd nl) = true) fr -> framerel (pid D) fr fr.
Proof.
  intro F. induction F as [|[n l] t H F IH]; constructor; auto. split; simpl; [reflexivity|].
  unfold lrel, pid. simpl in H. rewrite H. reflexivity.
Qed.
Lemma pid_hvrel D v : Forall (fun c => D c = true) (refs v) -> hvrel (pid D) v v.
Proof.
  intro F. destruct v; simpl in F; constructor; auto.
  - inversion F; subst. unfold lrel, pid. rewrite H1. reflexivity.
  - apply pid_lrels; auto.
  - apply pid_framerel. clear -F. induction (pairs m) as [|[k l] t IH]; simpl in *; constructor; inversion F; auto.
Qed.

Lemma agree_iso D s1 s2 : agree D s1 s2 -> iso (pid D) s1 s2.
Proof.
  intro A. destruct A. constructor; auto.
  - intros a a' b Ha Ha'. unfold pid in *. destruct (D a), (D a'); congruence.
  - intros a b H. unfold pid in H. destruct (D a) eqn:Da; inversion H; subst b.
    destruct (ag_cells0 a Da) as (v & G1 & G2 & F). exists v, v. repeat split; auto. apply pid_hvrel; auto.
  - rewrite <- ag_glob0. apply pid_framerel; auto.
Qed.

(* whole runs from states that differ only in garbage: same outcome, same observables (trace,
   input, test counters, structural dump of the globals), isomorphic final states *)
Theorem garbage_noninterference_run D fuel P s1 s2 :
  agree D s1 s2 ->
  fst (run_program fuel P s1) = fst (run_program fuel P s2) /\
  same_observables (snd (run_program fuel P s1)) (snd (run_program fuel P s2)) /\
  exists f', ext (pid D) f' /\ iso f' (snd (run_program fuel P s1)) (snd (run_program fuel P s2)).
Proof.
  intro A. destruct (run_program_iso fuel P _ _ _ (agree_iso _ _ _ A)) as [O (f' & E & I)].
  split; [exact O|]. split; [eapply iso_same_observables; eauto | eauto].
Qed.

Theorem garbage_noninterference_event D fuel P name args s1 s2 :
  agree D s1 s2 ->
  fst (handle_event fuel P name args s1) = fst (handle_event fuel P name args s2) /\
  same_observables (snd (handle_event fuel P name args s1)) (snd (handle_event fuel P name args s2)) /\
  exists f', ext (pid D) f' /\
             iso f' (snd (handle_event fuel P name args s1)) (snd (handle_event fuel P name args s2)).
Proof.
  intro A. destruct (handle_event_iso fuel P name args _ _ _ (agree_iso _ _ _ A)) as [O (f' & E & I)].
  split; [exact O|]. split; [eapply iso_same_observables; eauto | eauto].
Qed.

(* statements in an environment whose cells are in D *)
Theorem garbage_noninterference_stmts D n P (e : env) l s1 s2 :
  agree D s1 s2 -> Forall (Forall (fun nl => D (snd nl) = true)) e ->
  exists f', ext (pid D) f' /\
    iso f' (snd (exec_stmts n P e l s1)) (snd (exec_stmts n P e l s2)) /\
    rrel (serel f') (fst (exec_stmts n P e l s1)) (fst (exec_stmts n P e l s2)).
Proof.
  intros A He. apply (exec_stmts_iso P n (pid D) e e l); [|apply agree_iso; exact A].
  induction He; constructor; auto. apply pid_framerel; auto.
Qed.

(* ====================================================================== *)
(* 9. events_as_calls, in the form of SemEvents.events_as_calls_full        *)
(* ====================================================================== *)
(* both sides start from the same state s, all of whose cells are live (D = allocated cells);
   a fuel bound per event stands in place of the exclusion of EOutOfFuel outcomes *)
Theorem events_as_calls_observables D fuel P pn (es : list ev) s :
  procs_mirror_handlers P pn -> agree D s s ->
  st_stop_at s = None -> st_stopped s = false ->
  (forall e, In e es -> exists h vs,
       find_handler (fst e) (p_handlers P) = Some h /\
       payload_vals (h_params h) (snd e) = PvOk vs /\ (List.length (h_params h) < fuel)%nat) ->
  fst (handle_events fuel P es s) = fst (call_events fuel P pn es s) /\
  same_observables (snd (handle_events fuel P es s)) (snd (call_events fuel P pn es s)).
Proof.
  intros PM A N S H.
  destruct (events_as_calls fuel P pn es (pid D) s s PM (agree_iso _ _ _ A) (conj S N) H) as [O (f' & E & I)].
  split; [exact O | eapply iso_same_observables; eauto].
Qed.
