(* Pratt.v — token-level model of evy's expression parser
   (pkg/parser/expression.go, with the token cursor and the whitespace-
   sensitivity stack of pkg/parser/parser.go).  No proofs here (PrattProofs.v).

   What is modelled: every parse decision of expression.go — which token is
   looked at, when whitespace ends an expression, when it is an error, which
   binding power is handed to the recursive call — and the shape of the tree
   that results.  What is NOT modelled: types (validateBinaryType, wrapAny,
   assertArgTypes, the "only array, string and map can be indexed" tests);
   trees are untyped (operator, operands).  Binding powers, the operand powers
   of the recursive calls and the loop comparison come from Gen/Prec.v, which
   is regenerated from /repo on every run; nothing of it is written here.

   Token cursor.  Go keeps  tokens []*Token, pos, cur = lookAt(pos), peek.
   lookAt clamps out-of-range positions to the final EOF token, and the
   expression parser only ever looks at pos-1, pos, pos+1, pos+2 and only ever
   moves forward by one, so the model keeps a zipper instead of an index:
     prev = lookAt(pos-1),  rest = tokens[pos:] (without the final EOF; an
     exhausted list reads as EOF),  peek = the stateful p.peek field. *)
From Coq Require Import List String NArith ZArith Bool Arith.
From EvyV Require Import Base.
From EvyV.Gen Require Import Prec.
Import ListNotations.
Local Open Scope nat_scope.

(* ---------- tokens ---------- *)
Record token := { ttype : toktype; tlit : str }.
Definition mk (t : toktype) : token := {| ttype := t; tlit := [] |}.
Definition tEOF : token := mk T_EOF.

(* ---------- trees (untyped) ---------- *)
Inductive ty := TyNum | TyStr | TyBool | TyAny | TyArr (t : ty) | TyMap (t : ty).

Inductive tree :=
| TVar (name : str)                       (* lookupVar *)
| TNum (lit : str)                        (* NumLiteral (literal text) *)
| TStr (lit : str)                        (* StringLiteral *)
| TBool (b : bool)                        (* BoolLiteral *)
| TArr (elems : list tree)                (* ArrayLiteral *)
| TMap (pairs : list (str * tree))        (* MapLiteral, in Order *)
| TUn (op : toktype) (r : tree)           (* UnaryExpression *)
| TBin (op : toktype) (l r : tree)        (* BinaryExpression *)
| TGroup (e : tree)                       (* GroupExpression *)
| TIndex (l i : tree)                     (* IndexExpression *)
| TSlice (l : tree) (s e : option tree)   (* SliceExpression *)
| TDot (l : tree) (key : str)             (* DotExpression *)
| TAssert (l : tree) (t : option ty)      (* TypeAssertion *)
| TCall (name : str) (args : list tree).  (* FuncCall *)

(* The type-checking sites of expression.go / parser.go.  Typing is NOT modelled: whether a
   site reports a type error is decided by an arbitrary oracle (env.e_tyerr); the model mirrors
   what the parser does next in either case (append an error, return nil, which tokens it has
   consumed by then). *)
Inductive tsite :=
| TS_unary | TS_binary | TS_not_indexable | TS_index_type | TS_not_sliceable | TS_slice_bounds
| TS_dot_not_map | TS_assert_not_any | TS_array_elem_none | TS_map_value_none | TS_call_args
| TS_assign_string_index | TS_assign_type | TS_decl_none | TS_return_type | TS_for_multi
| TS_for_range_type | TS_condition | TS_event_param.

(* one constructor per appendError site *)
Inductive perr :=
| E_unexpected | E_ws_after_unary | E_ws_before_bracket | E_ws_before_dot | E_ws_after_dot
| E_expected (t : toktype) | E_map_key | E_dup_key | E_bad_num | E_anon_var | E_unknown_var
| E_func_needs_parens | E_bad_type | E_assert_any
| E_type (s : tsite)     (* a typing error (typing itself is not modelled, see e_tyerr) *)
| E_stmt (code : nat)    (* the appendError sites of parser.go, numbered in Parser.v *)
| E_arity.               (* assertArgTypes: wrong number of arguments (the blamed token, arg.Token(), is not mirrored) *)

(* ---------- parser state ---------- *)
Record pstate := {
  prev : token;        (* lookAt(pos-1) *)
  rest : list token;   (* tokens[pos:] *)
  peek : token;        (* p.peek *)
  wss  : list bool;    (* p.wssStack, top first *)
  errs : list (perr * nat);  (* p.errors, newest first; the nat locates the blamed token: the number
                                of tokens from it to the end of the input (0 = EOF) *)
  used : list str      (* names on which lookupVar set isUsed since the caller last collected them *)
}.

(* the environment the parser consults: p.funcs (name, isNiladic) and the variables in scope *)
Record env := { e_funcs : list (str * bool); e_vars : list str;
                 e_arity : list (str * option nat);   (* p.funcs: number of parameters, None = variadic *)
                 (* the typing oracle: site, the tree being checked, the token the error would blame (tokens left) *)
                 e_tyerr : tsite -> tree -> nat -> bool;
                 (* false = the code as it is; true = parseSlice with the proposed fix
                    (proposed_fixes/C01-slice-rbracket-ws.diff): "]" consumed with advanceWSS *)
                 e_fix_slice : bool }.

Definition look0 (l : list token) : token := hd tEOF l.                 (* lookAt(pos)   *)
Definition look1 (l : list token) : token := hd tEOF (tl l).            (* lookAt(pos+1) *)
Definition look2 (l : list token) : token := hd tEOF (tl (tl l)).       (* lookAt(pos+2) *)
Definition cur (st : pstate) : token := look0 (rest st).                (* p.cur *)
Definition cur_t (st : pstate) : toktype := ttype (cur st).

Definition is_ws (t : token) : bool := match ttype t with T_WS => true | _ => false end.

(* isWSS *)
Definition is_wss (st : pstate) : bool := hd false (wss st).

(* advanceWSS: pos++; cur = lookAt(pos); peek = lookAt(pos+1) *)
Definition advance_wss (st : pstate) : pstate :=
  {| prev := cur st; rest := tl (rest st); peek := look1 (tl (rest st)); wss := wss st; errs := errs st; used := used st |}.

(* advanceIfWS *)
Definition advance_if_ws (st : pstate) : pstate :=
  if is_ws (cur st) then advance_wss st else st.

(* advance *)
Definition advance (st : pstate) : pstate :=
  let st1 := advance_wss st in
  if is_wss st1 then st1
  else let st2 := advance_if_ws st1 in
       if is_ws (peek st2)
       then {| prev := prev st2; rest := rest st2; peek := look2 (rest st2); wss := wss st2; errs := errs st2; used := used st2 |}
       else st2.

(* pushWSS *)
Definition push_wss (b : bool) (st : pstate) : pstate :=
  {| prev := prev st; rest := rest st; peek := peek st; wss := b :: wss st; errs := errs st; used := used st |}.

(* popWSS *)
Definition pop_wss (st : pstate) : pstate :=
  let st1 := {| prev := prev st; rest := rest st; peek := peek st; wss := tl (wss st); errs := errs st; used := used st |} in
  if negb (is_wss st1) && is_ws (cur st1) then advance st1 else st1.

(* position of the current token, as the number of tokens left *)
Definition here (st : pstate) : nat := List.length (rest st).

(* appendErrorForToken(msg, tok) with tok located by [n] *)
Definition add_err_at (e : perr) (n : nat) (st : pstate) : pstate :=
  {| prev := prev st; rest := rest st; peek := peek st; wss := wss st; errs := (e, n) :: errs st; used := used st |}.

(* appendError(msg) = appendErrorForToken(msg, p.cur) *)
Definition add_err (e : perr) (st : pstate) : pstate := add_err_at e (here st) st.

Definition mark_used (n : str) (st : pstate) : pstate :=
  {| prev := prev st; rest := rest st; peek := peek st; wss := wss st; errs := errs st; used := n :: used st |}.

(* assertToken *)
Definition assert_token (t : toktype) (st : pstate) : bool * pstate :=
  if toktype_beq (cur_t st) t then (true, st) else (false, add_err (E_expected t) st).

(* isEOL / isAtEOL *)
Definition is_eol (t : toktype) : bool :=
  match t with T_NL | T_EOF | T_COMMENT => true | _ => false end.
Definition is_at_eol (st : pstate) : bool := is_eol (cur_t st).

(* isAtExprEnd *)
Definition is_at_expr_end (st : pstate) : bool :=
  if is_wss st && is_ws (cur st) then true else is_at_eol st.

(* isComparisonOp, isBinaryOp *)
Definition is_comparison_op (t : toktype) : bool :=
  match t with T_EQ | T_NOT_EQ | T_LT | T_GT | T_LTEQ | T_GTEQ => true | _ => false end.
Definition is_binary_op (t : toktype) : bool :=
  is_comparison_op t ||
  match t with T_PLUS | T_MINUS | T_SLASH | T_ASTERISK | T_PERCENT | T_OR | T_AND => true | _ => false end.

(* Token.AsIdent *)
Definition as_ident (t : token) : token :=
  match keyword_ident (ttype t) with
  | Some s => {| ttype := T_IDENT; tlit := s_ s |}
  | None => t
  end.

(* strconv.ParseFloat on what readNum produces (a digit, then digits and dots):
   an error exactly when there is more than one dot (overflow to ±Inf, which
   ParseFloat also reports, needs > 300 digits and is outside the model) *)
Definition num_lit_ok (lit : str) : bool :=
  Nat.leb (List.length (filter (fun c => N.eqb c 46%N) lit)) 1.

(* results: None = out of fuel; the inner option is Go's nil ("previous error") *)
Definition res (A : Type) : Type := option (A * pstate).
Definition ret {A} (a : A) (st : pstate) : res A := Some (a, st).

Notation "'do' ( x , s ) <- m ; k" := (match m with None => None | Some (x, s) => k end)
  (at level 200, x name, s name, m at level 100, k at level 200).

Section WithEnv.
Variable E : env.

Fixpoint lookup_func (name : str) (l : list (str * bool)) : option bool :=
  match l with
  | [] => None
  | (n, nil_) :: t => if str_eqb n name then Some nil_ else lookup_func name t
  end.
Definition func_of (name : str) : option bool := lookup_func name (e_funcs E).
Fixpoint lookup_arity (name : str) (l : list (str * option nat)) : option (option nat) :=
  match l with
  | [] => None
  | (n, a) :: t => if str_eqb n name then Some a else lookup_arity name t
  end.
(* the argument count is wrong for a function with a fixed number of parameters *)
Definition arity_wrong (name : str) (nargs : nat) : bool :=
  match lookup_arity name (e_arity E) with
  | Some (Some n) => negb (Nat.eqb n nargs)
  | _ => false
  end.

(* parseMulitlineWS (the recorded items are formatter data, not modelled) *)
Fixpoint parse_multiline_ws (fuel : nat) (st : pstate) : option pstate :=
  match fuel with
  | 0 => None
  | S f =>
    match cur_t st with
    | T_NL | T_WS => parse_multiline_ws f (advance_wss st)
    | T_COMMENT =>
        let st1 := advance_wss st in
        let st2 := snd (assert_token T_NL st1) in
        parse_multiline_ws f (advance_wss st2)
    | _ => Some st
    end
  end.

(* parseType *)
Fixpoint parse_type (fuel : nat) (st : pstate) : res (option ty) :=
  match fuel with
  | 0 => None
  | S f =>
    let tt := cur_t st in
    let st1 := advance st in
    match tt with
    | T_NUM => ret (Some TyNum) st1
    | T_STRING => ret (Some TyStr) st1
    | T_BOOL => ret (Some TyBool) st1
    | T_ANY => ret (Some TyAny) st1
    | T_LBRACKET =>
        match cur_t st1 with
        | T_RBRACKET =>
            do (sub, st2) <- parse_type f (advance st1);
            ret (match sub with Some s => Some (TyArr s) | None => None end) st2
        | _ => ret None st1
        end
    | T_LCURLY =>
        match cur_t st1 with
        | T_RCURLY =>
            do (sub, st2) <- parse_type f (advance st1);
            ret (match sub with Some s => Some (TyMap s) | None => None end) st2
        | _ => ret None st1
        end
    | _ => ret None st1
    end
  end.

(* the functions below are open in [pe] = parseExpr at the fuel available to callees *)
Section Open.
Variable pe : nat -> pstate -> res (option tree).

(* does the type checker object at site s to tree t; [blame] locates the token the error would
   be reported for (decided by the oracle) *)
Definition tyerr (s : tsite) (t : tree) (blame : nat) : bool := e_tyerr E s t blame.

(* parseExprWSS *)
Definition parse_expr_wss (st : pstate) : res (option tree) :=
  do (r, st1) <- pe lowestPrec (push_wss true st);
  ret r (pop_wss st1).

(* parseExprList; [None] result list = Go's nil return after an error *)
Fixpoint parse_expr_list (fuel : nat) (acc : list tree) (st : pstate) : res (option (list tree)) :=
  match fuel with
  | 0 => None
  | S f =>
    match cur_t st with
    | T_RPAREN | T_RBRACKET | T_EOF => ret (Some (rev acc)) st
    | _ =>
      if is_at_eol st then ret (Some (rev acc)) st else
      do (n, st1) <- parse_expr_wss st;
      match n with
      | None => ret None st1
      | Some t => parse_expr_list f (t :: acc) (advance_if_ws st1)
      end
    end
  end.

(* parseFuncCall; only called for names in p.funcs.  assertArgTypes (arity and argument
   types) only appends errors: one oracle site *)
Definition parse_func_call (fuel : nat) (is_top : bool) (niladic : bool) (st : pstate) : res (option tree) :=
  let name := tlit (cur st) in
  let st1 := advance st in
  if is_top || negb niladic then
    do (args, st2) <- parse_expr_list fuel [] st1;
    let l := match args with Some l => l | None => [] end in
    let c := TCall name l in
    (* assertArgTypes: the count first (fixed arity only), then the argument types *)
    ret (Some c) (if arity_wrong name (List.length l) then add_err E_arity st2
                  else if tyerr TS_call_args c (here st2) then add_err (E_type TS_call_args) st2 else st2)
  else ret (Some (TCall name [])) st1.

(* parseTopLevelExpr *)
Definition parse_toplevel (fuel : nat) (st : pstate) : res (option tree) :=
  match cur_t st, func_of (tlit (cur st)) with
  | T_IDENT, Some false => parse_func_call fuel true false st
  | _, _ => pe lowestPrec st
  end.

(* lookupVar; errors are reported for the identifier token *)
Definition lookup_var (st : pstate) : res (option tree) :=
  let name := tlit (cur st) in
  let tok := here st in
  let st1 := advance st in
  if str_eqb name (s_ "_") then ret None (add_err_at E_anon_var tok st1)
  else if mem_str name (e_vars E) then ret (Some (TVar name)) (mark_used name st1)
  else match func_of name with
       | Some _ => ret None (add_err_at E_func_needs_parens tok st1)
       | None => ret None (add_err_at E_unknown_var tok st1)
       end.

(* parseIdentExpr *)
Definition parse_ident_expr (fuel : nat) (st : pstate) : res (option tree) :=
  match func_of (tlit (cur st)) with
  | Some true => parse_func_call fuel false true st
  | _ => lookup_var st
  end.

(* parseArrayLiteral: the element loop *)
Fixpoint parse_array_elems (fuel : nat) (acc : list tree) (st : pstate) : res (option (list tree)) :=
  match fuel with
  | 0 => None
  | S f =>
    match cur_t st with
    | T_RBRACKET | T_EOF => ret (Some (rev acc)) st
    | _ =>
      let el_tok := here st in
      do (n, st1) <- parse_expr_wss st;
      match n with
      | None => ret None st1
      | Some t =>
        if tyerr TS_array_elem_none t el_tok then ret None (add_err_at (E_type TS_array_elem_none) el_tok st1) else
        match parse_multiline_ws fuel st1 with
        | None => None
        | Some st2 => parse_array_elems f (t :: acc) st2
        end
      end
    end
  end.

(* parseArrayLiteral *)
Definition parse_array_literal (fuel : nat) (st : pstate) : res (option tree) :=
  let st1 := advance st in
  match parse_multiline_ws fuel st1 with
  | None => None
  | Some st2 =>
    do (els, st3) <- parse_array_elems fuel [] st2;
    match els with
    | None => ret None st3
    | Some l =>
      let '(ok, st4) := assert_token T_RBRACKET st3 in
      if ok then ret (Some (TArr l)) (advance st4) else ret None st4
    end
  end.

Fixpoint has_key (k : str) (l : list (str * tree)) : bool :=
  match l with [] => false | (k', _) :: t => str_eqb k' k || has_key k t end.

(* parseMapPairs: [None] = returned false *)
Fixpoint parse_map_pairs (fuel : nat) (acc : list (str * tree)) (st : pstate) : res (option (list (str * tree))) :=
  match fuel with
  | 0 => None
  | S f =>
    match cur_t st with
    | T_RCURLY | T_EOF => ret (Some (rev acc)) st
    | _ =>
      let key_tok := as_ident (cur st) in
      let st0 := match ttype key_tok with T_IDENT => st | _ => add_err E_map_key st end in
      let key := tlit key_tok in
      let st1 := advance st0 in
      if has_key key acc then ret None (add_err E_dup_key st1) else
      let st2 := snd (assert_token T_COLON st1) in
      let st3 := advance st2 in
      let val_tok := here st3 in
      do (n, st4) <- parse_expr_wss st3;
      match n with
      | None => ret None st4
      | Some t =>
        if tyerr TS_map_value_none t val_tok then ret None (add_err_at (E_type TS_map_value_none) val_tok st4) else
        match parse_multiline_ws fuel st4 with
        | None => None
        | Some st5 => parse_map_pairs f ((key, t) :: acc) st5
        end
      end
    end
  end.

(* parseMapLiteral; the deferred popWSS runs on every return *)
Definition parse_map_literal (fuel : nat) (st : pstate) : res (option tree) :=
  let st1 := advance (push_wss false st) in
  match parse_multiline_ws fuel st1 with
  | None => None
  | Some st2 =>
    do (ps, st3) <- parse_map_pairs fuel [] st2;
    match ps with
    | None => ret None (pop_wss st3)
    | Some l =>
      let '(ok, st4) := assert_token T_RCURLY st3 in
      if ok then ret (Some (TMap l)) (pop_wss (advance_wss st4)) else ret None (pop_wss st4)
    end
  end.

(* parseLiteral *)
Definition parse_literal (fuel : nat) (st : pstate) : res (option tree) :=
  let tok := cur st in
  match ttype tok with
  | T_STRING_LIT => ret (Some (TStr (tlit tok))) (advance st)
  | T_NUM_LIT =>
      let st1 := advance st in
      if num_lit_ok (tlit tok) then ret (Some (TNum (tlit tok))) st1
      else ret None (add_err E_bad_num st1)     (* p.appendError after p.advance(): the NEXT token is blamed *)
  | T_TRUE => ret (Some (TBool true)) (advance st)
  | T_FALSE => ret (Some (TBool false)) (advance st)
  | T_LBRACKET => parse_array_literal fuel st
  | T_LCURLY => parse_map_literal fuel st
  | _ => ret None st
  end.

(* parseUnaryExpr; both errors are reported for the operator token *)
Definition parse_unary (st : pstate) : res (option tree) :=
  let op := cur_t st in
  let tok := here st in
  let st1 := advance st in
  let st2 := if is_ws (prev st1) then add_err_at E_ws_after_unary tok st1 else st1 in
  do (r, st3) <- pe unary_operand_prec st2;
  match r with
  | None => ret None st3
  | Some t =>
      if tyerr TS_unary (TUn op t) tok then ret None (add_err_at (E_type TS_unary) tok st3)  (* validateUnaryType *)
      else ret (Some (TUn op t)) st3
  end.

(* parseBinaryExpr *)
Definition parse_binary (left : tree) (st : pstate) : res (option tree) :=
  let op := cur_t st in
  let tok := here st in
  let prec := precedences op in
  let st1 := advance st in
  do (r, st2) <- pe (binary_operand_prec prec) st1;
  match r with
  | None => ret None st2
  | Some t =>
      if tyerr TS_binary (TBin op left t) tok then ret None (add_err_at (E_type TS_binary) tok st2)  (* validateBinaryType *)
      else ret (Some (TBin op left t)) st2
  end.

(* parseGroupedExpr *)
Definition parse_grouped (fuel : nat) (st : pstate) : res (option tree) :=
  let st1 := advance (push_wss false st) in
  do (e, st2) <- parse_toplevel fuel st1;
  let '(ok, st3) := assert_token T_RPAREN st2 in
  match ok, e with
  | true, Some t => ret (Some (TGroup t)) (pop_wss (advance_wss st3))
  | _, _ => ret None (pop_wss st3)
  end.

(* parseSlice (called with the cursor just after ':'); [tok] locates the "[" token.
   e_fix_slice = false is parseSlice before commit 16971a1 (p.advance() for "]"). *)
Definition slice_close (st : pstate) : pstate :=
  if e_fix_slice E then advance_wss st else advance st.

Definition parse_slice (fuel : nat) (tok : nat) (left : tree) (start : option tree) (st : pstate) : res (option tree) :=
  if tyerr TS_not_sliceable left tok then ret None (add_err_at (E_type TS_not_sliceable) tok st) else
  match cur_t st with
  | T_RBRACKET =>
      let st1 := slice_close st in
      let t := TSlice left start None in
      if tyerr TS_slice_bounds t tok then ret None (add_err_at (E_type TS_slice_bounds) tok st1) else ret (Some t) st1
  | _ =>
    do (e, st1) <- parse_toplevel fuel st;
    match e with
    | None => ret None st1
    | Some x =>
      let '(ok, st2) := assert_token T_RBRACKET st1 in
      if ok then
        let st3 := slice_close st2 in
        let t := TSlice left start (Some x) in
        if tyerr TS_slice_bounds t tok then ret None (add_err_at (E_type TS_slice_bounds) tok st3) else ret (Some t) st3
      else ret None st2
    end
  end.

(* parseIndexOrSliceExpr *)
Definition parse_index_or_slice (fuel : nat) (allow_slice : bool) (left : tree) (st : pstate) : res (option tree) :=
  let st0 := push_wss false st in
  let tok := here st in
  let fin (r : res (option tree)) : res (option tree) := do (x, s) <- r; ret x (pop_wss s) in
  if is_ws (prev st0) then ret None (pop_wss (add_err E_ws_before_bracket st0)) else
  let st1 := advance st0 in
  if tyerr TS_not_indexable left tok then ret None (pop_wss (add_err_at (E_type TS_not_indexable) tok st1)) else
  let is_colon (s : pstate) : bool := allow_slice && match cur_t s with T_COLON => true | _ => false end in
  if is_colon st1 then fin (parse_slice fuel tok left None (advance st1)) else
    do (ix, st2) <- parse_toplevel fuel st1;
    match ix with
    | None => ret None (pop_wss st2)
    | Some i =>
      if is_colon st2 then fin (parse_slice fuel tok left (Some i) (advance st2)) else
        (* validateIndex *)
        let '(ok, st3) := assert_token T_RBRACKET st2 in
        if ok then
          if tyerr TS_index_type (TIndex left i) tok then ret None (pop_wss (add_err_at (E_type TS_index_type) tok st3))
          else ret (Some (TIndex left i)) (pop_wss (advance_wss st3))
        else ret None (pop_wss st3)
    end.

(* parseDotExpr *)
Definition parse_dot (left : tree) (st : pstate) : res (option tree) :=
  let tok := here st in
  if is_ws (prev st) then ret None (add_err E_ws_before_dot st) else
  if is_ws (look1 (rest st)) then ret None (add_err E_ws_after_dot st) else
  let st1 := advance st in
  if tyerr TS_dot_not_map left tok then ret None (add_err_at (E_type TS_dot_not_map) tok st1) else
  let key := as_ident (cur st1) in
  match ttype key with
  | T_IDENT => ret (Some (TDot left (tlit key))) (advance st1)
  | _ => ret None (add_err_at E_map_key tok st1)
  end.

(* parseTypeAssertion *)
Definition parse_type_assertion (fuel : nat) (left : tree) (st : pstate) : res (option tree) :=
  let tok := here st in
  if is_ws (prev st) then ret None (add_err E_ws_before_dot st) else
  if is_ws (look1 (rest st)) then ret None (add_err E_ws_after_dot st) else
  let st1 := advance (advance (push_wss false st)) in
  do (t, st2) <- parse_type fuel st1;
  let st3 := match t with
             | None => add_err_at E_bad_type tok st2
             | Some TyAny => add_err_at E_assert_any tok st2
             | Some _ => st2
             end in
  let '(ok, st4) := assert_token T_RPAREN st3 in
  let st5 := if ok then advance_wss st4 else st4 in
  let st6 := if tyerr TS_assert_not_any left tok then add_err_at (E_type TS_assert_not_any) tok st5 else st5 in
  match t with
  | None => ret None (pop_wss st6)            (* if t == nil { return nil } *)
  | Some _ => ret (Some (TAssert left t)) (pop_wss st6)
  end.

(* unexpectedLeftTokenError: which token is blamed *)
Definition unexpected_left (st : pstate) : pstate :=
  if is_wss st && is_ws (cur st) && is_binary_op (ttype (prev st))
  then add_err_at E_unexpected (S (here st)) st   (* "unexpected whitespace after <op>", for the operator token *)
  else add_err E_unexpected st.

(* parseExpr: the prefix switch *)
Definition parse_prefix (fuel : nat) (st : pstate) : res (option tree) :=
  match cur_t st with
  | T_IDENT => parse_ident_expr fuel st
  | T_STRING_LIT | T_NUM_LIT | T_TRUE | T_FALSE | T_LBRACKET | T_LCURLY => parse_literal fuel st
  | T_BANG | T_MINUS => parse_unary st
  | T_LPAREN => parse_grouped fuel st
  | _ => ret None (unexpected_left st)
  end.

(* parseExpr: one turn of the loop body; [None] in the first component = "default: return left" *)
Definition parse_infix (fuel : nat) (left : tree) (st : pstate) : option (res (option tree)) :=
  let tt := cur_t st in
  if is_binary_op tt then Some (parse_binary left st)
  else match tt with
       | T_LBRACKET => Some (parse_index_or_slice fuel true left st)
       | T_DOT => match ttype (peek st) with
                  | T_LPAREN => Some (parse_type_assertion fuel left st)
                  | _ => Some (parse_dot left st)
                  end
       | _ => None
       end.

End Open.

(* parseExpr:  for left != nil && !p.isAtExprEnd() && prec < precedences[p.cur.Type] { ... } *)
Fixpoint parse_expr (fuel : nat) (prec : nat) (st : pstate) {struct fuel} : res (option tree) :=
  match fuel with
  | 0 => None
  | S f =>
    do (l, st1) <- parse_prefix (parse_expr f) f st;
    match l with
    | None => ret None st1
    | Some lf => expr_loop f prec lf st1
    end
  end
with expr_loop (fuel : nat) (prec : nat) (left : tree) (st : pstate) {struct fuel} : res (option tree) :=
  match fuel with
  | 0 => None
  | S f =>
    if is_at_expr_end st then ret (Some left) st
    else if loop_continues prec (precedences (cur_t st)) then
      match parse_infix (parse_expr f) f left st with
      | None => ret (Some left) st
      | Some r =>
        do (l, st1) <- r;
        match l with
        | None => ret None st1
        | Some left' => expr_loop f prec left' st1
        end
      end
    else ret (Some left) st
  end.

(* statement wrapper: the statement parser has consumed [k] tokens with p.advance()
   (e.g. IDENT and ":=" of an inferred declaration, "return", "if", "while"; k = 0
   for a function-call statement) and calls parseTopLevelExpr *)
Definition init_state (toks : list token) : pstate :=
  (* advanceTo(0) *)
  {| prev := tEOF; rest := toks;
     peek := if is_ws (look1 toks) then look2 toks else look1 toks;
     wss := [false]; errs := []; used := [] |}.

Definition parse_stmt_expr (fuel : nat) (k : nat) (toks : list token) : res (option tree) :=
  parse_toplevel (parse_expr fuel) fuel (Nat.iter k advance (init_state toks)).

End WithEnv.

(* ---------- wire format ---------- *)
Fixpoint ty_sx (t : ty) : sx :=
  match t with
  | TyNum => Sym (s_ "num") | TyStr => Sym (s_ "string") | TyBool => Sym (s_ "bool") | TyAny => Sym (s_ "any")
  | TyArr s => Lst [Sym (s_ "arr"); ty_sx s]
  | TyMap s => Lst [Sym (s_ "map"); ty_sx s]
  end.

Definition tt_sx (t : toktype) : sx := Sym (s_ (toktype_name t)).

Fixpoint tree_sx (t : tree) : sx :=
  match t with
  | TVar n => Lst [Sym (s_ "var"); Str n]
  | TNum l => Lst [Sym (s_ "num"); Str l]
  | TStr l => Lst [Sym (s_ "str"); Str l]
  | TBool b => Lst [Sym (s_ "bool"); sx_bool b]
  | TArr l => Lst (Sym (s_ "arr") :: map tree_sx l)
  | TMap l => Lst (Sym (s_ "map") :: map (fun kv => Lst [Str (fst kv); tree_sx (snd kv)]) l)
  | TUn o r => Lst [Sym (s_ "un"); tt_sx o; tree_sx r]
  | TBin o l r => Lst [Sym (s_ "bin"); tt_sx o; tree_sx l; tree_sx r]
  | TGroup e => Lst [Sym (s_ "group"); tree_sx e]
  | TIndex l i => Lst [Sym (s_ "index"); tree_sx l; tree_sx i]
  | TSlice l s e =>
      let o x := match x with Some y => tree_sx y | None => Sym (s_ "none") end in
      Lst [Sym (s_ "slice"); tree_sx l; o s; o e]
  | TDot l k => Lst [Sym (s_ "dot"); tree_sx l; Str k]
  | TAssert l t => Lst [Sym (s_ "assert"); tree_sx l; match t with Some t => ty_sx t | None => Sym (s_ "none") end]
  | TCall n a => Lst (Sym (s_ "call") :: Str n :: map tree_sx a)
  end.

Definition decode_token (x : sx) : option token :=
  match x with
  | Lst [Sym n; Str l] => match toktype_of_name n with Some t => Some {| ttype := t; tlit := l |} | None => None end
  | _ => None
  end.

Fixpoint decode_tokens (l : list sx) : option (list token) :=
  match l with
  | [] => Some []
  | x :: t => match decode_token x, decode_tokens t with
              | Some a, Some b => Some (a :: b)
              | _, _ => None
              end
  end.

Definition decode_func (x : sx) : option (str * bool) :=
  match x with
  | Lst [Str n; b] => Some (n, sym_is b "true")
  | _ => None
  end.

Fixpoint decode_list {A} (f : sx -> option A) (l : list sx) : option (list A) :=
  match l with
  | [] => Some []
  | x :: t => match f x, decode_list f t with Some a, Some b => Some (a :: b) | _, _ => None end
  end.

Definition decode_str (x : sx) : option str := match x with Str s => Some s | _ => None end.

(* case: (k fix-slice ((fname niladic) ...) (var ...) ((TYPE "lit") ...))
   answer: (ok|nil|oof tree at_eol nerrs remaining-tokens) *)
Definition pratt_case (x : sx) : sx :=
  match x with
  | Lst [Int k; fx; Lst fs; Lst vs; Lst ts] =>
    match decode_list decode_func fs, decode_list decode_str vs, decode_tokens ts with
    | Some funcs, Some vars, Some toks =>
      let E := {| e_funcs := funcs; e_vars := vars; e_arity := []; e_tyerr := fun _ _ _ => false; e_fix_slice := sym_is fx "true" |} in
      let fuel := 2 * List.length toks + 10 in
      match parse_stmt_expr E fuel (Z.to_nat k) toks with
      | None => Lst [Sym (s_ "oof")]
      | Some (r, st) =>
        Lst [Sym (s_ (match r with Some _ => "ok" | None => "nil" end));
             match r with Some t => tree_sx t | None => Lst [] end;
             sx_bool (is_at_eol st);
             sx_nat (List.length (errs st));
             sx_nat (List.length (rest st))]
      end
    | _, _, _ => Sym (s_ "bad-case")
    end
  | _ => Sym (s_ "bad-case")
  end.
