(* Ast.v — the typed AST of pkg/parser/ast.go as the evaluator, formatter and
   compiler models consume it (route B: the tree is exported by the Go harness
   from the real parser.Parse result and decoded here, inside Coq). *)
From Coq Require Import ZArith NArith List String Bool Floats.
From EvyV Require Import Base.
Import ListNotations.
Open Scope Z_scope.

(* parser.Type: Name/Sub; the interned EMPTY_x / GENERIC_x identities are
   separate leaves.  The Fixed flag does not influence evaluation and is kept
   only by the typing models (Types.v). *)
Inductive ty :=
| TNum | TStr | TBool | TAny | TNone
| TArr (t : ty) | TMap (t : ty)
| TEmptyArr | TEmptyMap | TGenArr | TGenMap.

Fixpoint ty_eqb (a b : ty) : bool :=
  match a, b with
  | TNum, TNum | TStr, TStr | TBool, TBool | TAny, TAny | TNone, TNone => true
  | TArr x, TArr y => ty_eqb x y
  | TMap x, TMap y => ty_eqb x y
  | TEmptyArr, TEmptyArr | TEmptyMap, TEmptyMap | TGenArr, TGenArr | TGenMap, TGenMap => true
  | _, _ => false
  end.

(* Type.Equals: structural on Name, where EMPTY_ARRAY = array of NONE,
   GENERIC_ARRAY = array with nil Sub *)
Fixpoint ty_shape (t : ty) : ty :=   (* canonical shape used by Equals *)
  match t with
  | TEmptyArr => TArr TNone
  | TEmptyMap => TMap TNone
  | TArr x => TArr (ty_shape x)
  | TMap x => TMap (ty_shape x)
  | x => x
  end.

(* Type.String() *)
Fixpoint ty_str (t : ty) : str :=
  match t with
  | TNum => s_ "num" | TStr => s_ "string" | TBool => s_ "bool" | TAny => s_ "any" | TNone => s_ "none"
  | TArr x => s_ "[]" ++ ty_str x
  | TMap x => s_ "{}" ++ ty_str x
  | TEmptyArr | TGenArr => s_ "[]"
  | TEmptyMap | TGenMap => s_ "{}"
  end.

Inductive unop := UMinus | UBang.
Inductive binop :=
| BPlus | BMinus | BSlash | BAsterisk | BPercent
| BOr | BAnd | BEq | BNotEq | BLt | BGt | BLtEq | BGtEq.

Inductive expr :=
| ENum (f : float)
| EStr (s : str)
| EBool (b : bool)
| EVar (name : str) (t : ty)
| EAny (e : expr) (t : ty)                       (* parser.Any; t = Value.Type() *)
| EArr (t : ty) (es : list expr)
| EMap (t : ty) (pairs : list (str * expr))      (* in m.Order *)
| ECall (name : str) (t : ty) (args : list expr)
| EUn (op : unop) (e : expr)
| EBin (op : binop) (t : ty) (l r : expr)
| EIndex (t : ty) (l i : expr)
| ESlice (t : ty) (l : expr) (lo hi : option expr)
| EDot (t : ty) (l : expr) (key : str)
| EGroup (e : expr)
| EAssert (t : ty) (l : expr).

Inductive range :=
| RStep (start : option expr) (stop : expr) (step : option expr)
| RExpr (e : expr).

Inductive stmt :=
| SDecl (name : str) (t : ty) (e : expr)         (* Typed/InferredDeclStmt: e is the value node *)
| SAssign (target : expr) (e : expr)
| SCallStmt (name : str) (args : list expr)
| SReturn (e : option expr)
| SBreak
| SIf (conds : list (expr * list stmt)) (els : option (list stmt))
| SWhile (c : expr) (body : list stmt)
| SFor (var : option str) (vt : ty) (r : range) (body : list stmt)
| SNop.                                          (* FuncDefStmt, EventHandlerStmt, EmptyStmt *)

Record funcdef := {
  fn_name : str; fn_params : list (str * ty); fn_variadic : option (str * ty);
  fn_ret : ty; fn_body : list stmt }.
Record handler := { h_name : str; h_params : list (str * ty); h_body : list stmt }.
Record program := { p_funcs : list funcdef; p_handlers : list handler; p_stmts : list stmt }.

(* ---------- decoding from the wire format ---------- *)
Definition sy_num := Eval compute in s_ "num".
Definition sy_string := Eval compute in s_ "string".
Definition sy_bool := Eval compute in s_ "bool".
Definition sy_any := Eval compute in s_ "any".
Definition sy_none := Eval compute in s_ "none".
Definition sy_arr := Eval compute in s_ "arr".
Definition sy_map := Eval compute in s_ "map".
Definition sy_earr := Eval compute in s_ "earr".
Definition sy_emap := Eval compute in s_ "emap".
Definition sy_garr := Eval compute in s_ "garr".
Definition sy_gmap := Eval compute in s_ "gmap".
Definition sy_str := Eval compute in s_ "str".
Definition sy_true := Eval compute in s_ "true".
Definition sy_false := Eval compute in s_ "false".
Definition sy_nil := Eval compute in s_ "nil".
Definition sy_var := Eval compute in s_ "var".
Definition sy_maplit := Eval compute in s_ "maplit".
Definition sy_call := Eval compute in s_ "call".
Definition sy_un := Eval compute in s_ "un".
Definition sy_bin := Eval compute in s_ "bin".
Definition sy_idx := Eval compute in s_ "idx".
Definition sy_slice := Eval compute in s_ "slice".
Definition sy_dot := Eval compute in s_ "dot".
Definition sy_group := Eval compute in s_ "group".
Definition sy_assert := Eval compute in s_ "assert".
Definition sy_decl := Eval compute in s_ "decl".
Definition sy_assign := Eval compute in s_ "assign".
Definition sy_callstmt := Eval compute in s_ "callstmt".
Definition sy_ret := Eval compute in s_ "ret".
Definition sy_break := Eval compute in s_ "break".
Definition sy_if := Eval compute in s_ "if".
Definition sy_while := Eval compute in s_ "while".
Definition sy_for := Eval compute in s_ "for".
Definition sy_nop := Eval compute in s_ "nop".
Definition sy_step := Eval compute in s_ "step".
Definition sy_expr := Eval compute in s_ "expr".
Definition sy_func := Eval compute in s_ "func".
Definition sy_on := Eval compute in s_ "on".
Definition sy_prog := Eval compute in s_ "prog".

Fixpoint dec_ty (x : sx) : option ty :=
  match x with
  | Sym s =>
      if str_eqb s sy_num then Some TNum else if str_eqb s sy_string then Some TStr
      else if str_eqb s sy_bool then Some TBool else if str_eqb s sy_any then Some TAny
      else if str_eqb s sy_none then Some TNone else if str_eqb s sy_earr then Some TEmptyArr
      else if str_eqb s sy_emap then Some TEmptyMap else if str_eqb s sy_garr then Some TGenArr
      else if str_eqb s sy_gmap then Some TGenMap else None
  | Lst [Sym s; y] =>
      if str_eqb s sy_arr then option_map TArr (dec_ty y)
      else if str_eqb s sy_map then option_map TMap (dec_ty y) else None
  | _ => None
  end.

Definition dec_unop (s : str) : option unop :=
  if str_eqb s (s_ "-") then Some UMinus else if str_eqb s (s_ "!") then Some UBang else None.

Definition binop_names : list (str * binop) := Eval compute in
  [(s_ "+", BPlus); (s_ "-", BMinus); (s_ "/", BSlash); (s_ "*", BAsterisk); (s_ "%", BPercent);
   (s_ "or", BOr); (s_ "and", BAnd); (s_ "==", BEq); (s_ "!=", BNotEq); (s_ "<", BLt); (s_ ">", BGt);
   (s_ "<=", BLtEq); (s_ ">=", BGtEq)].

Fixpoint assoc_str {A} (k : str) (l : list (str * A)) : option A :=
  match l with [] => None | (k', v) :: t => if str_eqb k' k then Some v else assoc_str k t end.

Definition dec_binop (s : str) : option binop := assoc_str s binop_names.

Definition bind {A B} (o : option A) (f : A -> option B) : option B :=
  match o with Some a => f a | None => None end.
Notation "'do' x <- o ;; k" := (bind o (fun x => k)) (at level 200, x pattern, o at level 100, k at level 200).

Section DecList.
  Context {A : Type} (f : sx -> option A).
  Fixpoint dec_list (l : list sx) : option (list A) :=
    match l with
    | [] => Some []
    | x :: t => do a <- f x;; do r <- dec_list t;; Some (a :: r)
    end.
End DecList.

Fixpoint dec_expr (x : sx) : option expr :=
  let dec_opt (y : sx) : option (option expr) :=
    match y with Sym _ => Some None | _ => option_map Some (dec_expr y) end in
  let dec_exprs := fix go (l : list sx) : option (list expr) :=
    match l with [] => Some [] | y :: t => do a <- dec_expr y;; do r <- go t;; Some (a :: r) end in
  match x with
  | Lst [Sym h; Int b] => if str_eqb h sy_num then Some (ENum (float_of_bits b)) else None
  | Lst [Sym h; Str s] => if str_eqb h sy_str then Some (EStr s) else None
  | Lst [Sym h; Sym b] =>
      if str_eqb h sy_bool then
        (if str_eqb b sy_true then Some (EBool true) else if str_eqb b sy_false then Some (EBool false) else None)
      else if str_eqb h sy_arr then option_map (fun t => EArr t []) (dec_ty (Sym b))
      else if str_eqb h sy_maplit then option_map (fun t => EMap t []) (dec_ty (Sym b))
      else None
  | Lst [Sym h; Str n; t] =>
      if str_eqb h sy_var then option_map (EVar n) (dec_ty t)
      else if str_eqb h sy_call then option_map (fun t' => ECall n t' []) (dec_ty t)
      else None
  | Lst (Sym h :: rest) =>
      if str_eqb h sy_any then
        match rest with [e; t] => do e' <- dec_expr e;; do t' <- dec_ty t;; Some (EAny e' t') | _ => None end
      else if str_eqb h sy_arr then
        match rest with t :: es => do t' <- dec_ty t;; do es' <- dec_exprs es;; Some (EArr t' es') | _ => None end
      else if str_eqb h sy_maplit then
        match rest with
        | t :: ps =>
            do t' <- dec_ty t;;
            do ps' <- (fix go (l : list sx) : option (list (str * expr)) :=
                         match l with
                         | [] => Some []
                         | Lst [Str k; e] :: tl => do e' <- dec_expr e;; do r <- go tl;; Some ((k, e') :: r)
                         | _ => None
                         end) ps;;
            Some (EMap t' ps')
        | _ => None end
      else if str_eqb h sy_call then
        match rest with
        | Str n :: t :: args => do t' <- dec_ty t;; do a <- dec_exprs args;; Some (ECall n t' a)
        | _ => None end
      else if str_eqb h sy_un then
        match rest with [Sym o; e] => do o' <- dec_unop o;; do e' <- dec_expr e;; Some (EUn o' e') | _ => None end
      else if str_eqb h sy_bin then
        match rest with
        | [Sym o; t; l; r] => do o' <- dec_binop o;; do t' <- dec_ty t;; do l' <- dec_expr l;; do r' <- dec_expr r;;
                              Some (EBin o' t' l' r')
        | _ => None end
      else if str_eqb h sy_idx then
        match rest with
        | [t; l; i] => do t' <- dec_ty t;; do l' <- dec_expr l;; do i' <- dec_expr i;; Some (EIndex t' l' i')
        | _ => None end
      else if str_eqb h sy_slice then
        match rest with
        | [t; l; a; b] => do t' <- dec_ty t;; do l' <- dec_expr l;; do a' <- dec_opt a;; do b' <- dec_opt b;;
                          Some (ESlice t' l' a' b')
        | _ => None end
      else if str_eqb h sy_dot then
        match rest with
        | [t; l; Str k] => do t' <- dec_ty t;; do l' <- dec_expr l;; Some (EDot t' l' k)
        | _ => None end
      else if str_eqb h sy_group then
        match rest with [e] => option_map EGroup (dec_expr e) | _ => None end
      else if str_eqb h sy_assert then
        match rest with [t; l] => do t' <- dec_ty t;; do l' <- dec_expr l;; Some (EAssert t' l') | _ => None end
      else None
  | _ => None
  end.

Definition dec_opt_expr (y : sx) : option (option expr) :=
  match y with Sym _ => Some None | _ => option_map Some (dec_expr y) end.

Definition dec_range (x : sx) : option range :=
  match x with
  | Lst [Sym h; a; b; c] =>
      if str_eqb h sy_step then
        do a' <- dec_opt_expr a;; do b' <- dec_expr b;; do c' <- dec_opt_expr c;; Some (RStep a' b' c')
      else None
  | Lst [Sym h; e] => if str_eqb h sy_expr then option_map RExpr (dec_expr e) else None
  | _ => None
  end.

Fixpoint dec_stmt (x : sx) : option stmt :=
  let dec_stmts := fix go (l : list sx) : option (list stmt) :=
    match l with [] => Some [] | y :: t => do a <- dec_stmt y;; do r <- go t;; Some (a :: r) end in
  match x with
  | Lst [Sym h] =>
      if str_eqb h sy_break then Some SBreak else if str_eqb h sy_nop then Some SNop else None
  | Lst (Sym h :: rest) =>
      if str_eqb h sy_decl then
        match rest with [Str n; t; e] => do t' <- dec_ty t;; do e' <- dec_expr e;; Some (SDecl n t' e') | _ => None end
      else if str_eqb h sy_assign then
        match rest with [a; e] => do a' <- dec_expr a;; do e' <- dec_expr e;; Some (SAssign a' e') | _ => None end
      else if str_eqb h sy_callstmt then
        match rest with Str n :: args => do a <- dec_list dec_expr args;; Some (SCallStmt n a) | _ => None end
      else if str_eqb h sy_ret then
        match rest with [e] => option_map SReturn (dec_opt_expr e) | _ => None end
      else if str_eqb h sy_if then
        match rest with
        | [Lst conds; els] =>
            do cs <- (fix go (l : list sx) : option (list (expr * list stmt)) :=
                        match l with
                        | [] => Some []
                        | Lst (c :: body) :: tl =>
                            do c' <- dec_expr c;; do b' <- dec_stmts body;; do r <- go tl;; Some ((c', b') :: r)
                        | _ => None
                        end) conds;;
            do e <- match els with
                    | Sym _ => Some None
                    | Lst body => option_map Some (dec_stmts body)
                    | _ => None end;;
            Some (SIf cs e)
        | _ => None end
      else if str_eqb h sy_while then
        match rest with c :: body => do c' <- dec_expr c;; do b' <- dec_stmts body;; Some (SWhile c' b') | _ => None end
      else if str_eqb h sy_for then
        match rest with
        | v :: t :: r :: body =>
            do v' <- match v with Str n => Some (Some n) | Sym _ => Some None | _ => None end;;
            do t' <- dec_ty t;; do r' <- dec_range r;; do b' <- dec_stmts body;;
            Some (SFor v' t' r' b')
        | _ => None end
      else None
  | _ => None
  end.

Definition dec_param (x : sx) : option (str * ty) :=
  match x with Lst [Str n; t] => option_map (pair n) (dec_ty t) | _ => None end.

Definition dec_func (x : sx) : option funcdef :=
  match x with
  | Lst (Sym h :: Str n :: Lst ps :: v :: rt :: body) =>
      if str_eqb h sy_func then
        do ps' <- dec_list dec_param ps;;
        do v' <- match v with Sym _ => Some None | _ => option_map Some (dec_param v) end;;
        do rt' <- dec_ty rt;;
        do b <- dec_list dec_stmt body;;
        Some {| fn_name := n; fn_params := ps'; fn_variadic := v'; fn_ret := rt'; fn_body := b |}
      else None
  | _ => None
  end.

Definition dec_handler (x : sx) : option handler :=
  match x with
  | Lst (Sym h :: Str n :: Lst ps :: body) =>
      if str_eqb h sy_on then
        do ps' <- dec_list dec_param ps;; do b <- dec_list dec_stmt body;;
        Some {| h_name := n; h_params := ps'; h_body := b |}
      else None
  | _ => None
  end.

Definition dec_program (x : sx) : option program :=
  match x with
  | Lst [Sym h; Lst fs; Lst hs; Lst ss] =>
      if str_eqb h sy_prog then
        do fs' <- dec_list dec_func fs;; do hs' <- dec_list dec_handler hs;; do ss' <- dec_list dec_stmt ss;;
        Some {| p_funcs := fs'; p_handlers := hs'; p_stmts := ss' |}
      else None
  | _ => None
  end.
