(* CompileSemTieCase.v — the syntactic hypothesis of the C16 tie as an executable check:
   [lrelb p xs] decides (soundly: lrelb_sound) whether the Ast.v statements xs are the
   Compile.v statements p with arbitrary type annotations — the relation lrel of
   CompileSemTie.v.  Entry point tie_case for the harness: both exported ASTs of one source
   program go in, the answer says whether the tie theorem applies to that pair. *)
From Coq Require Import ZArith NArith List String Bool Floats.
From EvyV Require Import Base Num Ast Omap Sem CompileSemTie.
From EvyV Require Vm Compile CompileSem.
Import ListNotations.


Definition binop_eqb (a b : binop) : bool :=
  match a, b with
  | BPlus, BPlus | BMinus, BMinus | BSlash, BSlash | BAsterisk, BAsterisk | BPercent, BPercent
  | BOr, BOr | BAnd, BAnd | BEq, BEq | BNotEq, BNotEq | BLt, BLt | BGt, BGt | BLtEq, BLtEq | BGtEq, BGtEq => true
  | _, _ => false
  end.

Fixpoint xrelb (e : Compile.expr) (x : expr) {struct e} : bool :=
  match e, x with
  | Compile.ENum f, ENum g => PrimFloat.Leibniz.eqb f g
  | Compile.EBool b, EBool c => Bool.eqb b c
  | Compile.EStr s, EStr t => str_eqb s t
  | Compile.EVar n, EVar m _ => str_eqb n m
  | Compile.EGroup e1, EGroup x1 => xrelb e1 x1
  | Compile.EUn Compile.UMinus e1, EUn UMinus x1 => xrelb e1 x1
  | Compile.EUn Compile.UBang e1, EUn UBang x1 => xrelb e1 x1
  | Compile.EBin op _ _ l r, EBin op' _ xl xr =>
      match trop op with Some o => binop_eqb o op' && xrelb l xl && xrelb r xr | None => false end
  | Compile.EArr l, EArr _ xl => xlrelb l xl
  | Compile.EIndex l i, EIndex _ xl xi => xrelb l xl && xrelb i xi
  | _, _ => false
  end
with xlrelb (l : Compile.elist) (xl : list expr) {struct l} : bool :=
  match l, xl with
  | Compile.ENil, [] => true
  | Compile.ECons e t, x :: xt => xrelb e x && xlrelb t xt
  | _, _ => false
  end.

Fixpoint srelb (s : Compile.stmt) (x : stmt) {struct s} : bool :=
  match s, x with
  | Compile.SDecl n e, SDecl m _ xe => str_eqb n m && xrelb e xe
  | Compile.SAssign (Compile.EVar n) e, SAssign (EVar m _) xe => str_eqb n m && xrelb e xe
  | Compile.SEmpty, SNop => true
  | Compile.SBreak, SBreak => true
  | Compile.SIf c b elifs els, SIf ((xc, xb) :: xelifs) xels =>
      xrelb c xc && lrelb b xb && crelb elifs xelifs &&
      match els, xels with
      | Compile.NoElse, None => true
      | Compile.Else eb, Some xeb => lrelb eb xeb
      | _, _ => false
      end
  | Compile.SWhile c b, SWhile xc xb => xrelb c xc && lrelb b xb
  | _, _ => false
  end
with lrelb (l : Compile.slist) (xl : list stmt) {struct l} : bool :=
  match l, xl with
  | Compile.SNil, [] => true
  | Compile.SCons s t, x :: xt => srelb s x && lrelb t xt
  | _, _ => false
  end
with crelb (l : Compile.clist) (xl : list (expr * list stmt)) {struct l} : bool :=
  match l, xl with
  | Compile.CNil, [] => true
  | Compile.CCons c b t, (xc, xb) :: xt => xrelb c xc && lrelb b xb && crelb t xt
  | _, _ => false
  end.

Lemma binop_eqb_eq a b : binop_eqb a b = true -> a = b.
Proof. destruct a, b; simpl; intro H; try discriminate; reflexivity. Qed.

Lemma xrelb_sound : forall e x, xrelb e x = true -> xrel e x.
Proof.
  fix IH 1 with (IHl (l : Compile.elist) : forall xl, xlrelb l xl = true -> xlrel l xl).
  - intros e x H.
    destruct e as [f|b|s|n|l|kvs np|uop e1|bop lt rt l r|l i|l a b|e1|w].
    + destruct x; simpl in H; try discriminate. apply FloatAxioms.Leibniz.eqb_spec in H. subst. constructor.
    + destruct x; simpl in H; try discriminate. apply Bool.eqb_prop in H. subst. constructor.
    + destruct x; simpl in H; try discriminate. apply str_eqb_eq in H. subst. constructor.
    + destruct x; simpl in H; try discriminate. apply str_eqb_eq in H. subst. constructor.
    + destruct x; simpl in H; try discriminate. constructor. apply IHl; exact H.
    + destruct x; simpl in H; discriminate.
    + destruct uop; destruct x; simpl in H; try discriminate;
        match goal with o : unop |- _ => destruct o end; try discriminate; constructor; apply IH; exact H.
    + destruct x; simpl in H; try discriminate.
      destruct (trop bop) as [o|] eqn:T; [|discriminate].
      apply andb_true_iff in H as [H H3]. apply andb_true_iff in H as [H1 H2].
      apply binop_eqb_eq in H1. subst. apply x_bin; [exact T | apply IH; exact H2 | apply IH; exact H3].
    + destruct x; simpl in H; try discriminate.
      apply andb_true_iff in H as [H1 H2]. constructor; apply IH; assumption.
    + destruct x; simpl in H; discriminate.
    + destruct x; simpl in H; try discriminate. constructor. apply IH; exact H.
    + destruct x; simpl in H; discriminate.
  - intros l xl H. destruct l; destruct xl; simpl in H; try discriminate; [constructor|].
    apply andb_true_iff in H as [H1 H2]. constructor; [apply IH; exact H1 | apply IHl; exact H2].
Qed.

Lemma lrelb_sound : forall l xl, lrelb l xl = true -> lrel l xl.
Proof.
  fix IHl 1 with (IHs (s : Compile.stmt) : forall x, srelb s x = true -> srel s x)
                 (IHc (l : Compile.clist) : forall xl, crelb l xl = true -> crel l xl).
  - intros l xl H. destruct l; destruct xl; simpl in H; try discriminate; [constructor|].
    apply andb_true_iff in H as [H1 H2]. constructor; [apply IHs; exact H1 | apply IHl; exact H2].
  - intros s x H.
    destruct s as [n e|target e|c b elifs els|c b|lv start stop step b|lv t e b| | |b|w].
    + destruct x; simpl in H; try discriminate.
      apply andb_true_iff in H as [H1 H2]. apply str_eqb_eq in H1. subst. constructor. apply xrelb_sound; exact H2.
    + destruct target; simpl in H; try discriminate.
      destruct x as [? ? ?|xt xe|? ?|?| |? ?|? ?|? ? ? ?|]; try discriminate. destruct xt; try discriminate.
      apply andb_true_iff in H as [H1 H2]. apply str_eqb_eq in H1. subst. constructor. apply xrelb_sound; exact H2.
    + destruct x; simpl in H; try discriminate.
      destruct conds as [|[xc xb] xelifs]; [discriminate|].
      apply andb_true_iff in H as [H H4]. apply andb_true_iff in H as [H H3]. apply andb_true_iff in H as [H1 H2].
      constructor; [apply xrelb_sound; exact H1 | apply IHl; exact H2 | apply IHc; exact H3|].
      destruct els; match goal with o : option (list stmt) |- _ => destruct o end; try discriminate; constructor.
      apply IHl; exact H4.
    + destruct x; simpl in H; try discriminate.
      apply andb_true_iff in H as [H1 H2]. constructor; [apply xrelb_sound; exact H1 | apply IHl; exact H2].
    + destruct x; simpl in H; discriminate.
    + destruct x; simpl in H; discriminate.
    + destruct x; simpl in H; try discriminate. constructor.
    + destruct x; simpl in H; try discriminate. constructor.
    + destruct x; simpl in H; discriminate.
    + destruct x; simpl in H; discriminate.
  - intros l xl H. destruct l; destruct xl as [|[xc xb] xt]; simpl in H; try discriminate; [constructor|].
    apply andb_true_iff in H as [H H3]. apply andb_true_iff in H as [H1 H2].
    constructor; [apply xrelb_sound; exact H1 | apply IHl; exact H2 | apply IHc; exact H3].
Qed.

(* (tie (stmt…) <program>) ↦ (tie outside)   the compile-side program is not in tfrag_l
                            | (tie related)   lrelb holds: the tie theorems apply to this pair
                            | (tie unrelated) the two exports of one source do not correspond *)
Definition tie_case (x : sx) : sx :=
  match x with
  | Lst [Sym t; Lst stmts; prog] =>
      if str_eqb t (s_ "tie") then
        match Compile.dec_program 400 stmts, dec_program prog with
        | Some p, Some P =>
            if negb (tfrag_l p) then Lst [Sym (s_ "tie"); Sym (s_ "outside")]
            else if lrelb p (p_stmts P) then Lst [Sym (s_ "tie"); Sym (s_ "related")]
            else Lst [Sym (s_ "tie"); Sym (s_ "unrelated")]
        | _, _ => Sym (s_ "decode-error")
        end
      else Sym (s_ "decode-error")
  | _ => Sym (s_ "decode-error")
  end.
