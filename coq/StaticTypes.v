(* StaticTypes.v — the two Gallina descriptions of evy's static typing, connected:
     Static.v      the certificate checker [wt] on the ANNOTATED tree the parser exports
                   (proved sound w.r.t. the evaluator model in SemSound.v), and
     TypesSpec.v   the declarative typing rules written from docs/spec.md, whose executable
                   renderings (spec_tc, spec_check, op_type, …) b-c04 proved equivalent, rule by rule,
                   to the implementation model Types.v (accepts, matches, validateBinaryType, …).
   The translation [erase] forgets what the parser added to the source: type annotations and Any
   wrappers; variables are typed by the environment on both sides. *)
From Coq Require Import List Bool NArith ZArith Lia.
From EvyV Require Import Base Ast Sem Static.
From EvyV Require TypesSyntax TypesSpec TypesSpecProofs Types TypesProofs.
Import ListNotations.


(* ---------- types ---------- *)
(* Ast.ty has three parser-internal leaves the source language cannot name (none, the generic
   parameter types); the specification's [sty] has none of them *)
Fixpoint sty_of (t : ty) : option TypesSyntax.sty :=
  match t with
  | TNum => Some TypesSyntax.SNum | TStr => Some TypesSyntax.SString | TBool => Some TypesSyntax.SBool | TAny => Some TypesSyntax.SAny
  | TArr u => option_map TypesSyntax.SArr (sty_of u)
  | TMap u => option_map TypesSyntax.SMap (sty_of u)
  | TEmptyArr => Some TypesSyntax.SEmptyArr | TEmptyMap => Some TypesSyntax.SEmptyMap
  | TNone | TGenArr | TGenMap => None
  end.

Fixpoint ty_of (s : TypesSyntax.sty) : ty :=
  match s with
  | TypesSyntax.SNum => TNum | TypesSyntax.SString => TStr | TypesSyntax.SBool => TBool | TypesSyntax.SAny => TAny
  | TypesSyntax.SArr u => TArr (ty_of u) | TypesSyntax.SMap u => TMap (ty_of u)
  | TypesSyntax.SEmptyArr => TEmptyArr | TypesSyntax.SEmptyMap => TEmptyMap
  end.

Lemma sty_of_ty_of s : sty_of (ty_of s) = Some s.
Proof. induction s; simpl; try reflexivity; rewrite IHs; reflexivity. Qed.

Lemma ty_of_sty_of t s : sty_of t = Some s -> ty_of s = t.
Proof.
  revert s; induction t; simpl; intros s H; try discriminate; try (inversion H; reflexivity);
    destruct (sty_of t) as [u|]; simpl in H; inversion H; subst; simpl; f_equal; auto.
Qed.

Lemma sty_of_value t : ty_value t = true <-> exists s, sty_of t = Some s.
Proof.
  induction t; simpl; split; intros H; try (eexists; reflexivity); try reflexivity;
    try discriminate; try (destruct H as (s & H); discriminate).
  - apply IHt in H as (s & ->). simpl; eauto.
  - destruct H as (s & H). apply IHt. destruct (sty_of t); [eauto|discriminate].
  - apply IHt in H as (s & ->). simpl; eauto.
  - destruct H as (s & H). apply IHt. destruct (sty_of t); [eauto|discriminate].
Qed.

Definition sty_eqb_eq := TypesSpecProofs.sty_eqb_eq.
Definition sty_eqb_refl := TypesSpecProofs.sty_eqb_refl.

Lemma ty_eqb_true a b : ty_eqb a b = true -> a = b.
Proof. revert b; induction a; destruct b; simpl; intros H; try discriminate; auto; f_equal; auto. Qed.

Lemma ty_eqb_same a : ty_eqb a a = true.
Proof. induction a; simpl; auto. Qed.

(* a type the source can write = a closed specification type *)
Lemma closed_proper s : TypesSyntax.closed s = ty_proper (ty_of s).
Proof. induction s; simpl; auto. Qed.

(* ---------- operators ---------- *)
Definition binop_of (op : binop) : TypesSyntax.binop :=
  match op with
  | BPlus => TypesSyntax.OpPlus | BMinus => TypesSyntax.OpMinus | BSlash => TypesSyntax.OpSlash | BAsterisk => TypesSyntax.OpAsterisk
  | BPercent => TypesSyntax.OpPercent | BOr => TypesSyntax.OpOr | BAnd => TypesSyntax.OpAnd | BEq => TypesSyntax.OpEq | BNotEq => TypesSyntax.OpNotEq
  | BLt => TypesSyntax.OpLt | BGt => TypesSyntax.OpGt | BLtEq => TypesSyntax.OpLtEq | BGtEq => TypesSyntax.OpGtEq
  end.

Definition unop_of (op : unop) : TypesSyntax.unop := match op with UMinus => TypesSyntax.UMinus | UBang => TypesSyntax.UBang end.

(* operands of == / != : Static's [ty_compat] is the specification's [unify] succeeding *)
Lemma compat_unify : forall a b, ty_compat (ty_of a) (ty_of b) = true <-> TypesSpec.unify a b <> None.
Proof.
  induction a; destruct b; simpl; split; intros H; try discriminate; try congruence; try reflexivity;
    try (exfalso; apply H; reflexivity).
  - destruct (TypesSyntax.sty_eqb a b); [discriminate|]. apply IHa in H. destruct (TypesSpec.unify a b); [discriminate|congruence].
  - destruct (TypesSyntax.sty_eqb a b) eqn:E; [apply sty_eqb_eq in E; subst; apply IHa; rewrite TypesSpecProofs.unify_refl; discriminate|].
    apply IHa. destruct (TypesSpec.unify a b); [discriminate|]. simpl in H. congruence.
  - destruct (TypesSyntax.sty_eqb a b); [discriminate|]. apply IHa in H. destruct (TypesSpec.unify a b); [discriminate|congruence].
  - destruct (TypesSyntax.sty_eqb a b) eqn:E; [apply sty_eqb_eq in E; subst; apply IHa; rewrite TypesSpecProofs.unify_refl; discriminate|].
    apply IHa. destruct (TypesSpec.unify a b); [discriminate|]. simpl in H. congruence.
Qed.

Lemma ty_of_inj a b : ty_of a = ty_of b -> a = b.
Proof. intros H. pose proof (sty_of_ty_of a) as Ha. rewrite H, sty_of_ty_of in Ha. congruence. Qed.

(* ---------- the operator table ---------- *)
(* Static's acceptance of a binary node annotated t over operand types a, b *)
Definition bin_ok (op : binop) (a b t : ty) : bool := opt_ty_eqb (bin_ty op a b) t || bin_empty op a b t.

(* forward: the result type Static computes is the one the specification's table gives *)
Theorem bin_ty_spec op a b t :
  bin_ty op (ty_of a) (ty_of b) = Some t ->
  exists s, TypesSpec.op_type (binop_of op) a b = Some s /\ t = ty_of s.
Proof.
  intros H.
  destruct op; simpl binop_of;
    try (destruct a, b; simpl in H; try discriminate; inversion H; subst; eexists; split; reflexivity).
  - (* + *)
    destruct a, b; simpl in H; try discriminate;
      try (inversion H; subst; eexists; split; reflexivity).
    + destruct (ty_eqb (ty_of a) (ty_of b)) eqn:E; [|discriminate]. apply ty_eqb_true, ty_of_inj in E; subst b.
      inversion H; subst. exists (TypesSyntax.SArr a). split; [|reflexivity].
      unfold TypesSpec.op_type. simpl. rewrite sty_eqb_refl. reflexivity.
  - (* == *)
    simpl in H. destruct (ty_compat (ty_of a) (ty_of b)) eqn:E; [|discriminate]. inversion H; subst.
    apply compat_unify in E. exists TypesSyntax.SBool. split; [|reflexivity].
    unfold TypesSpec.op_type. simpl. destruct (TypesSpec.unify a b); [reflexivity|congruence].
  - simpl in H. destruct (ty_compat (ty_of a) (ty_of b)) eqn:E; [|discriminate]. inversion H; subst.
    apply compat_unify in E. exists TypesSyntax.SBool. split; [|reflexivity].
    unfold TypesSpec.op_type. simpl. destruct (TypesSpec.unify a b); [reflexivity|congruence].
Qed.

(* converse: where the specification's table gives a type Static accepts the node annotated with
   it, PROVIDED array concatenation unifies its operands only at the top ([shallow]): Static types
   a + b when a = b or one of them is exactly the untyped [].  The guard is needed: see
   [bin_guard_needed] (the program  [[1]] + [[]] ). *)
Definition shallow (op : binop) (a b : TypesSyntax.sty) : Prop :=
  op = BPlus -> TypesSpec.is_array_b a = true -> a = b \/ a = TypesSyntax.SEmptyArr \/ b = TypesSyntax.SEmptyArr.

Theorem op_type_static op a b s :
  TypesSpec.op_type (binop_of op) a b = Some s -> shallow op a b ->
  bin_ok op (ty_of a) (ty_of b) (ty_of s) = true.
Proof.
  intros H Hsh. unfold bin_ok.
  destruct op; simpl binop_of in H;
    try (destruct a, b; simpl in H; try discriminate; inversion H; subst; reflexivity).
  - (* + *)
    destruct a, b; simpl in H; try discriminate; try (inversion H; subst; reflexivity).
    + destruct (Hsh eq_refl eq_refl) as [E|[E|E]]; try discriminate. inversion E; subst b.
      unfold TypesSpec.op_type in H. simpl in H. rewrite sty_eqb_refl in H. inversion H; subst.
      simpl. rewrite ty_eqb_same. simpl. rewrite ty_eqb_same. reflexivity.
    + unfold TypesSpec.op_type in H; simpl in H. inversion H; subst. simpl. rewrite ty_eqb_same. reflexivity.
    + unfold TypesSpec.op_type in H; simpl in H. inversion H; subst. simpl. rewrite ty_eqb_same. reflexivity.
  - (* * *)
    destruct a, b; simpl in H; try discriminate; inversion H; subst; simpl; try rewrite ty_eqb_same; reflexivity.
  - (* == *)
    unfold TypesSpec.op_type in H. simpl in H. destruct (TypesSpec.unify a b) eqn:E; [|discriminate]. inversion H; subst.
    assert (Hc : ty_compat (ty_of a) (ty_of b) = true) by (apply compat_unify; congruence).
    simpl. rewrite Hc. reflexivity.
  - unfold TypesSpec.op_type in H. simpl in H. destruct (TypesSpec.unify a b) eqn:E; [|discriminate]. inversion H; subst.
    assert (Hc : ty_compat (ty_of a) (ty_of b) = true) by (apply compat_unify; congruence).
    simpl. rewrite Hc. reflexivity.
Qed.

(* the guard is exact: the specification (and the Go parser) type  [[1]] + [[]]  as [][]num,
   Static does not (the evaluator would store an untyped-[] cell in a [][]num array) *)
Lemma bin_guard_needed :
  let a := TypesSyntax.SArr (TypesSyntax.SArr TypesSyntax.SNum) in let b := TypesSyntax.SArr TypesSyntax.SEmptyArr in
  TypesSpec.op_type TypesSyntax.OpPlus a b = Some a /\ bin_ok BPlus (ty_of a) (ty_of b) (ty_of a) = false.
Proof. split; reflexivity. Qed.

(* unary operators, index, slice, dot, type assertion: the same tables *)
Lemma unop_spec op a : 
  match op, ty_of a with UMinus, TNum => Some TNum | UBang, TBool => Some TBool | _, _ => None end
  = option_map ty_of (TypesSpec.unop_type (unop_of op) a).
Proof. destruct op, a; reflexivity. Qed.

Definition static_index (a b : ty) : option ty :=
  match a, b with
  | TArr u, TNum => Some u | TStr, TNum => Some TStr | TMap u, TStr => Some u | _, _ => None
  end.
Lemma index_spec a b : static_index (ty_of a) (ty_of b) = option_map ty_of (TypesSpec.index_type_s a b).
Proof. destruct a, b; reflexivity. Qed.

Definition static_slice (a : ty) : option ty :=
  match a with TArr _ | TEmptyArr | TStr => Some a | _ => None end.
Lemma slice_spec a : static_slice (ty_of a) = option_map ty_of (TypesSpec.slice_type_s a).
Proof. destruct a; reflexivity. Qed.

Definition static_dot (a : ty) : option ty := match a with TMap u => Some u | _ => None end.
Lemma dot_spec a : static_dot (ty_of a) = option_map ty_of (TypesSpec.dot_type_s a).
Proof. destruct a; reflexivity. Qed.

(* type assertion: Static's side condition is the specification's AssertOk plus the nesting bound *)
Lemma assert_spec t :
  negb (is_any (ty_of t)) && ty_decl (ty_of t) =
  negb (TypesSyntax.sty_eqb t TypesSyntax.SAny) && TypesSyntax.closed t && ty_small (ty_of t).
Proof. unfold ty_decl. rewrite <- closed_proper. destruct t; simpl; try reflexivity. Qed.

(* assignment target steps *)
Lemma target_step_spec_static t k :
  TypesSpec.target_step_s t k =
  match t, k with
  | TypesSyntax.SArr s, TypesSpec.SKIdx TypesSyntax.SNum => Some s
  | TypesSyntax.SMap s, TypesSpec.SKIdx TypesSyntax.SString => Some s
  | TypesSyntax.SMap s, TypesSpec.SKDot => Some s
  | _, _ => None
  end.
Proof. reflexivity. Qed.

(* the loop variable of  for x := range e : equal except that the specification (like the parser)
   gives the DEFAULTED element type, Static the element type itself; they coincide on closed
   element types *)
Lemma range_spec a :
  match a with TypesSyntax.SArr u => TypesSyntax.closed u = true | TypesSyntax.SNum => False (* a step range: RStep, not RExpr *) | _ => True end ->
  option_map ty_of
    (match TypesSpec.spec_check TypesSyntax.CRange (TypesSyntax.EVar a) with TypesSpec.SAccept st _ => Some st | TypesSpec.SReject => None end)
  = range_var_ty (ty_of a).
Proof.
  destruct a as [| | | |u|u| |]; simpl; auto; try contradiction. intros Hc. f_equal.
  clear -Hc. induction u; simpl in *; try reflexivity; try discriminate; f_equal; auto.
Qed.

Lemma range_guard_needed :
  TypesSpec.spec_check TypesSyntax.CRange (TypesSyntax.EVar (TypesSyntax.SArr TypesSyntax.SEmptyArr)) = TypesSpec.SAccept (TypesSyntax.SArr TypesSyntax.SAny) (TypesSyntax.SArr TypesSyntax.SAny) /\
  range_var_ty (ty_of (TypesSyntax.SArr TypesSyntax.SEmptyArr)) = Some TEmptyArr.
Proof. split; reflexivity. Qed.

(* ---------- expressions: the translation ---------- *)
(* forgets annotations and Any wrappers; a variable is represented by its type, taken from the
   environment; a call by its result type (its arguments are contexts of their own, see
   [call_args_spec]) *)
Fixpoint erase (G : tyenv) (e : expr) {struct e} : option TypesSyntax.expr :=
  let erases := fix go (es : list expr) : option (list TypesSyntax.expr) :=
    match es with
    | [] => Some []
    | x :: r => match erase G x, go r with Some a, Some b => Some (a :: b) | _, _ => None end
    end in
  let erasep := fix go (ps : list (str * expr)) : option (list TypesSyntax.expr) :=
    match ps with
    | [] => Some []
    | (_, x) :: r => match erase G x, go r with Some a, Some b => Some (a :: b) | _, _ => None end
    end in
  let eraseo (o : option expr) : option (option TypesSyntax.expr) :=
    match o with None => Some None | Some x => option_map Some (erase G x) end in
  match e with
  | ENum _ => Some TypesSyntax.ELitNum
  | EStr _ => Some TypesSyntax.ELitStr
  | EBool _ => Some TypesSyntax.ELitBool
  | EVar n _ => match slookup n G with Some t => option_map TypesSyntax.EVar (sty_of t) | None => None end
  | EAny a _ => erase G a
  | EArr _ es => option_map TypesSyntax.EArr (erases es)
  | EMap _ ps => option_map TypesSyntax.EMap (erasep ps)
  | ECall _ t _ => option_map TypesSyntax.ECall (sty_of t)
  | EUn op a => option_map (TypesSyntax.EUn (unop_of op)) (erase G a)
  | EBin op _ l r =>
      match erase G l, erase G r with Some a, Some b => Some (TypesSyntax.EBin (binop_of op) a b) | _, _ => None end
  | EIndex _ l i =>
      match erase G l, erase G i with Some a, Some b => Some (TypesSyntax.EIndex a b) | _, _ => None end
  | ESlice _ l lo hi =>
      match erase G l, eraseo lo, eraseo hi with
      | Some a, Some b, Some c => Some (TypesSyntax.ESlice a b c)
      | _, _, _ => None
      end
  | EDot _ l _ => option_map TypesSyntax.EDot (erase G l)
  | EGroup a => option_map TypesSyntax.EGroup (erase G a)
  | EAssert t a => match erase G a, sty_of t with Some a', Some s => Some (TypesSyntax.EAssert a' s) | _, _ => None end
  end.

Section Erases.
  Context (G : tyenv).
  Fixpoint erases (es : list expr) : option (list TypesSyntax.expr) :=
    match es with
    | [] => Some []
    | x :: r => match erase G x, erases r with Some a, Some b => Some (a :: b) | _, _ => None end
    end.
  Fixpoint erasep (ps : list (str * expr)) : option (list TypesSyntax.expr) :=
    match ps with
    | [] => Some []
    | (_, x) :: r => match erase G x, erasep r with Some a, Some b => Some (a :: b) | _, _ => None end
    end.
  Definition eraseo (o : option expr) : option (option TypesSyntax.expr) :=
    match o with None => Some None | Some x => option_map Some (erase G x) end.
End Erases.

Lemma erase_EArr G t es : erase G (EArr t es) = option_map TypesSyntax.EArr (erases G es).
Proof. reflexivity. Qed.
Lemma erase_EMap G t ps : erase G (EMap t ps) = option_map TypesSyntax.EMap (erasep G ps).
Proof. reflexivity. Qed.
Lemma erase_ESlice G t l lo hi : erase G (ESlice t l lo hi) =
      match erase G l, eraseo G lo, eraseo G hi with
      | Some a, Some b, Some c => Some (TypesSyntax.ESlice a b c)
      | _, _, _ => None
      end.
Proof. reflexivity. Qed.

(* ---------- the coercion-free fragment ---------- *)
(* [plain]: the tree contains no Any wrapper and no annotation that only a conversion by its context
   explains: every binary node carries the type the operator table gives ([bin_ty], not the
   inferred annotation of [] + [] / [] * n).  In such a tree every annotation is the type of the
   source expression itself. *)
Fixpoint plain (F : list funcdef) (G : tyenv) (e : expr) {struct e} : bool :=
  let plains := fix go (es : list expr) : bool :=
    match es with [] => true | x :: r => plain F G x && go r end in
  let plainp := fix go (ps : list (str * expr)) : bool :=
    match ps with [] => true | (_, x) :: r => plain F G x && go r end in
  let plaino (o : option expr) : bool := match o with Some x => plain F G x | None => true end in
  match e with
  | ENum _ | EStr _ | EBool _ | EVar _ _ => true
  | EAny _ _ => false
  | EArr t es => match es, t with [], TEmptyArr => true | [], _ => false | _, _ => plains es end
  | EMap t ps => match ps, t with [], TEmptyMap => true | [], _ => false | _, _ => plainp ps end
  | ECall _ t _ => ty_value t
  | EUn _ a => plain F G a
  | EBin op t l r =>
      plain F G l && plain F G r &&
      match ety F G l, ety F G r with Some a, Some b => opt_ty_eqb (bin_ty op a b) t | _, _ => false end
  | EIndex _ l i => plain F G l && plain F G i
  | ESlice _ l lo hi => plain F G l && plaino lo && plaino hi
  | EDot _ l _ => plain F G l
  | EGroup a => plain F G a
  | EAssert _ a => plain F G a
  end.

Section Plains.
  Context (F : list funcdef) (G : tyenv).
  Fixpoint plains (es : list expr) : bool := match es with [] => true | x :: r => plain F G x && plains r end.
  Fixpoint plainp (ps : list (str * expr)) : bool :=
    match ps with [] => true | (_, x) :: r => plain F G x && plainp r end.
  Definition plaino (o : option expr) : bool := match o with Some x => plain F G x | None => true end.
End Plains.

Lemma plain_EArr F G t es : plain F G (EArr t es) =
  match es, t with [], TEmptyArr => true | [], _ => false | _, _ => plains F G es end.
Proof. destruct es; reflexivity. Qed.
Lemma plain_EMap F G t ps : plain F G (EMap t ps) =
  match ps, t with [], TEmptyMap => true | [], _ => false | _, _ => plainp F G ps end.
Proof. destruct ps; reflexivity. Qed.
Lemma plain_ESlice F G t l lo hi : plain F G (ESlice t l lo hi) = plain F G l && plaino F G lo && plaino F G hi.
Proof. reflexivity. Qed.

(* ---------- induction over annotated expressions ---------- *)
Section ExprInd.
  Context (P : expr -> Prop).
  Context (Hnum : forall f, P (ENum f)) (Hstr : forall s, P (EStr s)) (Hbool : forall b, P (EBool b))
          (Hvar : forall n t, P (EVar n t)) (Hany : forall a t, P a -> P (EAny a t))
          (Harr : forall t es, Forall P es -> P (EArr t es))
          (Hmap : forall t ps, Forall (fun p => P (snd p)) ps -> P (EMap t ps))
          (Hcall : forall n t args, Forall P args -> P (ECall n t args))
          (Hun : forall op a, P a -> P (EUn op a))
          (Hbin : forall op t l r, P l -> P r -> P (EBin op t l r))
          (Hidx : forall t l i, P l -> P i -> P (EIndex t l i))
          (Hslice : forall t l lo hi, P l -> (forall x, lo = Some x -> P x) -> (forall x, hi = Some x -> P x) ->
                                      P (ESlice t l lo hi))
          (Hdot : forall t l k, P l -> P (EDot t l k))
          (Hgroup : forall a, P a -> P (EGroup a))
          (Hassert : forall t a, P a -> P (EAssert t a)).
  Fixpoint expr_ind' (e : expr) : P e :=
    match e with
    | ENum f => Hnum f | EStr s => Hstr s | EBool b => Hbool b | EVar n t => Hvar n t
    | EAny a t => Hany a t (expr_ind' a)
    | EArr t es => Harr t es ((fix go (l : list expr) : Forall P l :=
                                 match l with [] => Forall_nil _ | x :: r => Forall_cons _ (expr_ind' x) (go r) end) es)
    | EMap t ps => Hmap t ps ((fix go (l : list (str * expr)) : Forall (fun p => P (snd p)) l :=
                                 match l with
                                 | [] => Forall_nil _
                                 | (k, x) :: r => Forall_cons (k, x) (expr_ind' x) (go r)
                                 end) ps)
    | ECall n t args => Hcall n t args ((fix go (l : list expr) : Forall P l :=
                                 match l with [] => Forall_nil _ | x :: r => Forall_cons _ (expr_ind' x) (go r) end) args)
    | EUn op a => Hun op a (expr_ind' a)
    | EBin op t l r => Hbin op t l r (expr_ind' l) (expr_ind' r)
    | EIndex t l i => Hidx t l i (expr_ind' l) (expr_ind' i)
    | ESlice t l lo hi =>
        Hslice t l lo hi (expr_ind' l)
          (match lo as o return (forall x, o = Some x -> P x) with
           | Some y => fun x H => match H in (_ = z) return (match z with Some w => P w | None => True end) with
                                  | eq_refl => expr_ind' y end
           | None => fun x H => match H in (_ = z) return (match z with Some w => P w | None => True end) with
                                | eq_refl => I end
           end)
          (match hi as o return (forall x, o = Some x -> P x) with
           | Some y => fun x H => match H in (_ = z) return (match z with Some w => P w | None => True end) with
                                  | eq_refl => expr_ind' y end
           | None => fun x H => match H in (_ = z) return (match z with Some w => P w | None => True end) with
                                | eq_refl => I end
           end)
    | EDot t l k => Hdot t l k (expr_ind' l)
    | EGroup a => Hgroup a (expr_ind' a)
    | EAssert t a => Hassert t a (expr_ind' a)
    end.
End ExprInd.

(* ---------- checker equations (nested lists) ---------- *)
Lemma ety_EArr F G t es : ety F G (EArr t es) =
      match es with
      | [] => match t with
              | TEmptyArr => Some t
              | TArr _ => if ty_ann t then Some t else None
              | _ => None end
      | _ :: _ =>
          match t, etys F G es with
          | TArr u, Some ts => if forallb (ty_eqb u) ts && ty_ann t then Some t else None
          | _, _ => None
          end
      end.
Proof. reflexivity. Qed.

Lemma ety_EMap F G t ps : ety F G (EMap t ps) =
      match ps with
      | [] => match t with
              | TEmptyMap => Some t
              | TMap _ => if ty_ann t then Some t else None
              | _ => None end
      | _ :: _ =>
          match t, etyps F G ps with
          | TMap u, Some ts =>
              if forallb (ty_eqb u) ts && ty_ann t && keys_nodup (map fst ps) then Some t else None
          | _, _ => None
          end
      end.
Proof. reflexivity. Qed.

Lemma ety_ECall F G name t args : ety F G (ECall name t args) =
      match lookup_sig F name, etys F G args with
      | Some sg, Some ts => if sig_args_ok sg ts && ty_eqb (fs_ret sg) t then Some t else None
      | _, _ => None
      end.
Proof. reflexivity. Qed.

Lemma ety_ESlice F G t l lo hi : ety F G (ESlice t l lo hi) =
      match ety F G l with
      | Some a =>
          match a with
          | TArr _ | TEmptyArr | TStr => if ty_eqb a t && etyo F G lo && etyo F G hi then Some t else None
          | _ => None
          end
      | None => None
      end.
Proof. reflexivity. Qed.

Lemma opt_ty_eqb_some o t : opt_ty_eqb o t = true -> o = Some t.
Proof. destruct o; simpl; [|discriminate]. intros H; apply ty_eqb_true in H; congruence. Qed.

Lemma ty_value_sty t : ty_value t = true -> exists s, sty_of t = Some s /\ ty_of s = t.
Proof. intros H. apply sty_of_value in H as (s & Hs). exists s; split; auto. eapply ty_of_sty_of; eauto. Qed.

Lemma ty_ann_sty t : ty_ann t = true -> exists s, sty_of t = Some s /\ ty_of s = t.
Proof. unfold ty_ann. intros H. apply andb_true_iff in H as [H _]. apply ty_value_sty; auto. Qed.

(* joining elements that all have the same type gives that type *)
Lemma sjoin_same k1 k2 u : snd (TypesSpec.sjoin (k1, u) (k2, u)) = u.
Proof.
  destruct k1, k2; simpl; try rewrite TypesSpecProofs.conv_b_refl; try rewrite sty_eqb_refl; simpl; auto.
  unfold TypesSpec.cjoin. destruct u; simpl; try rewrite !sty_eqb_refl; reflexivity.
Qed.

Lemma fold_sjoin_same u : forall l x, snd x = u -> Forall (fun y => snd y = u) l ->
  snd (fold_left TypesSpec.sjoin l x) = u.
Proof.
  induction l as [|y l IH]; intros x Hx Hall; simpl; auto.
  inversion Hall; subst. apply IH; auto. destruct x, y; simpl in *; subst. apply sjoin_same.
Qed.

(* ---------- forward: a Static-typed coercion-free tree is typed by the specification ---------- *)
Definition spec_typed (F : list funcdef) (G : tyenv) (A : expr) : Prop :=
  forall t, ety F G A = Some t -> plain F G A = true ->
  exists e k s, erase G A = Some e /\ TypesSpec.spec_tc e = Some (k, s) /\ t = ty_of s.

Lemma elems_spec F G es :
  Forall (spec_typed F G) es ->
  forall ts, etys F G es = Some ts -> plains F G es = true ->
  exists el ks, erases G es = Some el /\ TypesSpec.all_some (map TypesSpec.spec_tc el) = Some ks /\
                map (fun x => ty_of (snd x)) ks = ts.
Proof.
  induction 1 as [|A es HA _ IH]; intros ts Ht Hp.
  - simpl in Ht. inversion Ht; subst. exists [], []. repeat split; reflexivity.
  - cbn [etys] in Ht. cbn [plains] in Hp. apply andb_true_iff in Hp as [Hp1 Hp2].
    destruct (ety F G A) as [t|] eqn:Ea; [|discriminate].
    destruct (etys F G es) as [ts'|] eqn:Ees; inversion Ht; subst.
    destruct (HA t Ea Hp1) as (e & k & s & He & Hs & ->).
    destruct (IH ts' eq_refl Hp2) as (el & ks & Hel & Hks & Hm).
    exists (e :: el), ((k, s) :: ks). cbn [erases]. rewrite He, Hel. simpl. rewrite Hs, Hks. simpl.
    repeat split; auto. congruence.
Qed.

Lemma pairs_spec F G ps :
  Forall (fun p => spec_typed F G (snd p)) ps ->
  forall ts, etyps F G ps = Some ts -> plainp F G ps = true ->
  exists el ks, erasep G ps = Some el /\ TypesSpec.all_some (map TypesSpec.spec_tc el) = Some ks /\
                map (fun x => ty_of (snd x)) ks = ts.
Proof.
  induction 1 as [|[key A] ps HA _ IH]; intros ts Ht Hp.
  - simpl in Ht. inversion Ht; subst. exists [], []. repeat split; reflexivity.
  - cbn [etyps] in Ht. cbn [plainp] in Hp. apply andb_true_iff in Hp as [Hp1 Hp2]. simpl in HA.
    destruct (ety F G A) as [t|] eqn:Ea; [|discriminate].
    destruct (etyps F G ps) as [ts'|] eqn:Ees; inversion Ht; subst.
    destruct (HA t Ea Hp1) as (e & k & s & He & Hs & ->).
    destruct (IH ts' eq_refl Hp2) as (el & ks & Hel & Hks & Hm).
    exists (e :: el), ((k, s) :: ks). cbn [erasep]. rewrite He, Hel. simpl. rewrite Hs, Hks. simpl.
    repeat split; auto. congruence.
Qed.

Lemma all_same u : forall ks, forallb (ty_eqb (ty_of u)) (map (fun x : TypesSpec.kind * TypesSyntax.sty => ty_of (snd x)) ks) = true ->
  Forall (fun y => snd y = u) ks.
Proof.
  induction ks as [|x ks IH]; simpl; intros H; constructor; apply andb_true_iff in H as [H1 H2]; auto.
  apply ty_eqb_true, ty_of_inj in H1. auto.
Qed.

Lemma opt_spec F G o :
  (forall x, o = Some x -> spec_typed F G x) -> etyo F G o = true -> plaino F G o = true ->
  exists eo, eraseo G o = Some eo /\
    match eo with None => True | Some x => exists k, TypesSpec.spec_tc x = Some (k, TypesSyntax.SNum) end.
Proof.
  intros H Ht Hp. destruct o as [x|]; simpl in *.
  - apply opt_ty_eqb_some in Ht. destruct (H x eq_refl TNum Ht Hp) as (e & k & s & He & Hs & Hts).
    destruct s; try discriminate. rewrite He. simpl. eexists; split; [reflexivity|]. simpl. eauto.
  - exists None; auto.
Qed.

Theorem static_to_spec F G : forall A, spec_typed F G A.
Proof.
  induction A using expr_ind'; intros ty0 Hty Hp.
  - inversion Hty; subst. exists TypesSyntax.ELitNum, TypesSpec.KConst, TypesSyntax.SNum. auto.
  - inversion Hty; subst. exists TypesSyntax.ELitStr, TypesSpec.KConst, TypesSyntax.SString. auto.
  - inversion Hty; subst. exists TypesSyntax.ELitBool, TypesSpec.KConst, TypesSyntax.SBool. auto.
  - (* variable *)
    cbn [ety] in Hty.
    match type of Hty with (if ?c then _ else _) = _ => destruct c eqn:Ec; inversion Hty; subst end.
    apply andb_true_iff in Ec as [Ec Ec3]. apply andb_true_iff in Ec as [Ec1 Ec2].
    apply opt_ty_eqb_some in Ec2. destruct (ty_ann_sty _ Ec3) as (s & Hs & Hts).
    exists (TypesSyntax.EVar s), TypesSpec.KVar, s. cbn [erase]. rewrite Ec2, Hs. simpl. auto.
  - discriminate.
  - (* array literal *)
    rewrite ety_EArr in Hty. rewrite plain_EArr in Hp. rewrite erase_EArr.
    destruct es as [|x es].
    + destruct t; try discriminate. inversion Hty; subst.
      exists (TypesSyntax.EArr []), TypesSpec.KConst, TypesSyntax.SEmptyArr. simpl. auto.
    + destruct t; try discriminate.
      destruct (etys F G (x :: es)) as [ts|] eqn:Ets; [|discriminate].
      match type of Hty with (if ?c then _ else _) = _ => destruct c eqn:Ec; inversion Hty; subst end.
      apply andb_true_iff in Ec as [Ec1 Ec2].
      destruct (elems_spec F G (x :: es) H ts Ets Hp) as (el & ks & Hel & Hks & Hm).
      destruct (ty_ann_sty _ Ec2) as (s0 & Hs & Hts). destruct s0 as [| | | |s|s| |]; try discriminate. simpl in Hts. inversion Hts; subst t.
      rewrite Hel. simpl. rewrite <- Hm in Ec1. apply all_same in Ec1.
      destruct ks as [|k0 ks]; [destruct el; simpl in Hks; [discriminate Hel || (cbn [erases] in Hel; destruct (erase G x), (erases G es); discriminate)|destruct (TypesSpec.spec_tc e); try discriminate; destruct (TypesSpec.all_some (map TypesSpec.spec_tc el)); discriminate]|].
      inversion Ec1 as [|? ? Hk0 Hks'].
      eexists _, _, (TypesSyntax.SArr s). split; [reflexivity|]. split; [|reflexivity].
      cbn [TypesSpec.spec_tc]. rewrite Hks. rewrite fold_sjoin_same with (u := s); auto.
  - (* map literal *)
    rewrite ety_EMap in Hty. rewrite plain_EMap in Hp. rewrite erase_EMap.
    destruct ps as [|p ps].
    + destruct t; try discriminate. inversion Hty; subst.
      exists (TypesSyntax.EMap []), TypesSpec.KConst, TypesSyntax.SEmptyMap. simpl. auto.
    + destruct t; try discriminate.
      destruct (etyps F G (p :: ps)) as [ts|] eqn:Ets; [|discriminate].
      match type of Hty with (if ?c then _ else _) = _ => destruct c eqn:Ec; inversion Hty; subst end.
      apply andb_true_iff in Ec as [Ec Ec3]. apply andb_true_iff in Ec as [Ec1 Ec2].
      destruct (pairs_spec F G (p :: ps) H ts Ets Hp) as (el & ks & Hel & Hks & Hm).
      destruct (ty_ann_sty _ Ec2) as (s0 & Hs & Hts). destruct s0 as [| | | |s|s| |]; try discriminate. simpl in Hts. inversion Hts; subst t.
      rewrite Hel. simpl. rewrite <- Hm in Ec1. apply all_same in Ec1.
      destruct ks as [|k0 ks].
      { destruct p as [key a]. cbn [erasep] in Hel. destruct (erase G a), (erasep G ps); try discriminate.
        inversion Hel; subst. simpl in Hks. destruct (TypesSpec.spec_tc e); try discriminate.
        destruct (TypesSpec.all_some (map TypesSpec.spec_tc l)); discriminate. }
      inversion Ec1 as [|? ? Hk0 Hks'].
      eexists _, _, (TypesSyntax.SMap s). split; [reflexivity|]. split; [|reflexivity].
      cbn [TypesSpec.spec_tc]. rewrite Hks. rewrite fold_sjoin_same with (u := s); auto.
  - (* call: its result type *)
    rewrite ety_ECall in Hty. cbn [plain] in Hp.
    destruct (lookup_sig F n) as [sg|]; [|discriminate].
    destruct (etys F G args) as [ts|]; [|discriminate].
    match type of Hty with (if ?c then _ else _) = _ => destruct c eqn:Ec; inversion Hty; subst end.
    destruct (ty_value_sty _ Hp) as (s & Hs & Hts).
    exists (TypesSyntax.ECall s), TypesSpec.KVar, s. cbn [erase]. rewrite Hs. simpl. auto.
  - (* unary *)
    cbn [ety] in Hty. cbn [plain] in Hp.
    destruct (ety F G A) as [ta|] eqn:Ea; [|destruct op; discriminate].
    destruct (IHA ta Ea Hp) as (e & k & s & He & Hs & ->).
    cbn [erase]. rewrite He. simpl.
    destruct op, s; simpl in Hty; try discriminate; inversion Hty; subst;
      eexists _, k, _; (split; [reflexivity|]); cbn [TypesSpec.spec_tc]; rewrite Hs; simpl; auto.
  - (* binary *)
    cbn [ety] in Hty. cbn [plain] in Hp.
    apply andb_true_iff in Hp as [Hp Hp3]. apply andb_true_iff in Hp as [Hp1 Hp2].
    destruct (ety F G A1) as [ta|] eqn:Ea; [|discriminate].
    destruct (ety F G A2) as [tb|] eqn:Eb; [|discriminate].
    match type of Hty with (if ?c then _ else _) = _ => destruct c eqn:Ec; inversion Hty; subst end.
    apply opt_ty_eqb_some in Hp3.
    destruct (IHA1 ta Ea Hp1) as (e1 & k1 & s1 & He1 & Hs1 & ->).
    destruct (IHA2 tb Eb Hp2) as (e2 & k2 & s2 & He2 & Hs2 & ->).
    destruct (bin_ty_spec _ _ _ _ Hp3) as (s & Hop & ->).
    cbn [erase]. rewrite He1, He2.
    eexists _, _, s. split; [reflexivity|]. cbn [TypesSpec.spec_tc]. rewrite Hs1, Hs2, Hop. auto.
  - (* index *)
    cbn [ety] in Hty. cbn [plain] in Hp. apply andb_true_iff in Hp as [Hp1 Hp2].
    destruct (ety F G A1) as [ta|] eqn:Ea; [|discriminate].
    destruct (ety F G A2) as [tb|] eqn:Eb; [|destruct ta; discriminate].
    destruct (IHA1 ta Ea Hp1) as (e1 & k1 & s1 & He1 & Hs1 & ->).
    destruct (IHA2 tb Eb Hp2) as (e2 & k2 & s2 & He2 & Hs2 & ->).
    cbn [erase]. rewrite He1, He2.
    destruct s1; simpl in Hty; try discriminate; destruct s2; simpl in Hty; try discriminate.
    + match type of Hty with (if ?c then _ else _) = _ => destruct c eqn:Ec; inversion Hty; subst end.
      destruct ty0; try discriminate.
      eexists _, _, TypesSyntax.SString. split; [reflexivity|]. cbn [TypesSpec.spec_tc]. rewrite Hs1, Hs2. simpl. auto.
    + match type of Hty with (if ?c then _ else _) = _ => destruct c eqn:Ec; inversion Hty; subst end.
      apply andb_true_iff in Ec as [Ec _]. apply ty_eqb_true in Ec.
      eexists _, _, s1. split; [reflexivity|]. cbn [TypesSpec.spec_tc]. rewrite Hs1, Hs2. simpl. auto.
    + match type of Hty with (if ?c then _ else _) = _ => destruct c eqn:Ec; inversion Hty; subst end.
      apply andb_true_iff in Ec as [Ec _]. apply ty_eqb_true in Ec.
      eexists _, _, s1. split; [reflexivity|]. cbn [TypesSpec.spec_tc]. rewrite Hs1, Hs2. simpl. auto.
  - (* slice *)
    rewrite ety_ESlice in Hty. rewrite plain_ESlice in Hp. rewrite erase_ESlice.
    apply andb_true_iff in Hp as [Hp Hp3]. apply andb_true_iff in Hp as [Hp1 Hp2].
    destruct (ety F G A) as [ta|] eqn:Ea; [|discriminate].
    destruct (IHA ta Ea Hp1) as (e1 & k1 & s1 & He1 & Hs1 & ->).
    assert (Hc : ty_eqb (ty_of s1) t && etyo F G lo && etyo F G hi = true /\ ty0 = t /\ TypesSpec.slice_type_s s1 = Some s1).
    { destruct s1; simpl in Hty; try discriminate;
        match type of Hty with (if ?c then _ else _) = _ => destruct c eqn:Ec; inversion Hty; subst end; auto. }
    destruct Hc as (Hc & -> & Hsl). apply andb_true_iff in Hc as [Hc Hc3]. apply andb_true_iff in Hc as [Hc1 Hc2].
    apply ty_eqb_true in Hc1. subst t.
    destruct (opt_spec F G lo H Hc2 Hp2) as (elo & Helo & Hlo).
    destruct (opt_spec F G hi H0 Hc3 Hp3) as (ehi & Hehi & Hhi).
    rewrite He1, Helo, Hehi.
    assert (BD : forall eo, match eo with None => True | Some x => exists k, TypesSpec.spec_tc x = Some (k, TypesSyntax.SNum) end ->
               exists kb, match eo with
                          | None => Some TypesSpec.KConst
                          | Some x => match TypesSpec.spec_tc x with Some (k', TypesSyntax.SNum) => Some k' | _ => None end
                          end = Some kb).
    { intros [x|] Hx; [destruct Hx as (k & ->); eauto|eauto]. }
    destruct (BD _ Hlo) as (kl & Hkl). destruct (BD _ Hhi) as (kh & Hkh).
    eexists _, _, s1. split; [reflexivity|]. cbn [TypesSpec.spec_tc]. rewrite Hs1, Hkl, Hkh, Hsl. auto.
  - (* dot *)
    cbn [ety] in Hty. cbn [plain] in Hp.
    destruct (ety F G A) as [ta|] eqn:Ea; [|discriminate].
    destruct (IHA ta Ea Hp) as (e1 & k1 & s1 & He1 & Hs1 & ->).
    cbn [erase]. rewrite He1. simpl.
    destruct s1; simpl in Hty; try discriminate.
    match type of Hty with (if ?c then _ else _) = _ => destruct c eqn:Ec; inversion Hty; subst end.
    apply andb_true_iff in Ec as [Ec _]. apply ty_eqb_true in Ec.
    eexists _, _, s1. split; [reflexivity|]. cbn [TypesSpec.spec_tc]. rewrite Hs1. simpl. auto.
  - (* group *)
    cbn [ety] in Hty. cbn [plain] in Hp.
    destruct (IHA ty0 Hty Hp) as (e1 & k1 & s1 & He1 & Hs1 & ->).
    cbn [erase]. rewrite He1. simpl. eexists _, _, s1. split; [reflexivity|]. cbn [TypesSpec.spec_tc]. eauto.
  - (* type assertion *)
    cbn [ety] in Hty. cbn [plain] in Hp.
    destruct (ety F G A) as [ta|] eqn:Ea; [|discriminate].
    destruct (IHA ta Ea Hp) as (e1 & k1 & s1 & He1 & Hs1 & ->).
    destruct s1; simpl in Hty; try discriminate.
    match type of Hty with (if ?c then _ else _) = _ => destruct c eqn:Ec; inversion Hty; subst end.
    assert (Hv : ty_value ty0 = true).
    { apply andb_true_iff in Ec as [_ Ec]. unfold ty_decl in Ec. apply andb_true_iff in Ec as [Ec _].
      clear -Ec. induction ty0; simpl in *; auto; discriminate. }
    destruct (ty_value_sty _ Hv) as (s & Hs & Hts). subst ty0.
    rewrite assert_spec in Ec. apply andb_true_iff in Ec as [Ec _].
    cbn [erase]. rewrite He1, Hs.
    eexists _, _, s. split; [reflexivity|]. cbn [TypesSpec.spec_tc]. rewrite Hs1. rewrite Ec. auto.
Qed.

(* ---------- converse: a tree annotated with the specification's types is Static-typed ---------- *)
(* the specification's type of an annotated node (of its erasure) *)
Definition spec_ty_of (G : tyenv) (A : expr) : option TypesSyntax.sty :=
  match erase G A with Some e => option_map snd (TypesSpec.spec_tc e) | None => None end.

Definition sty_is (G : tyenv) (A : expr) (t : ty) : bool :=
  match spec_ty_of G A with Some s => ty_eqb (ty_of s) t | None => false end.

Definition shallow_b (op : binop) (a b : TypesSyntax.sty) : bool :=
  match op with
  | BPlus => negb (TypesSpec.is_array_b a) || TypesSyntax.sty_eqb a b || TypesSyntax.sty_eqb a TypesSyntax.SEmptyArr || TypesSyntax.sty_eqb b TypesSyntax.SEmptyArr
  | _ => true
  end.

Lemma shallow_b_ok op a b : shallow_b op a b = true -> shallow op a b.
Proof.
  unfold shallow_b, shallow. intros H -> Ha. rewrite Ha in H. simpl in H.
  apply orb_true_iff in H as [H|H]; [apply orb_true_iff in H as [H|H]|]; apply sty_eqb_eq in H; auto.
Qed.

(* the value node the parser fabricates for a typed declaration  x:[]num  /  x:{}num  and for
   x := []  (declared with the defaulted type): an empty literal carrying the declared type *)
Definition zero_lit (t : ty) (e : expr) : bool :=
  match e, t with
  | EArr t' [], TArr _ => ty_eqb t t'
  | EMap t' [], TMap _ => ty_eqb t t'
  | _, _ => false
  end.

Lemma zero_lit_ety F G t e : zero_lit t e = true -> ty_decl t = true -> ety F G e = Some t.
Proof.
  unfold zero_lit. intros H Hd.
  assert (Ha : ty_ann t = true).
  { unfold ty_decl in Hd. apply andb_true_iff in Hd as [Hp Hs]. unfold ty_ann. rewrite Hs.
    destruct (ty_value_sty t) as (s & _ & _) || idtac.
    - clear -Hp. induction t; simpl in *; auto; discriminate.
    - rewrite andb_true_r. clear -Hp. induction t; simpl in *; auto; discriminate. }
  destruct e; try discriminate.
  - destruct es; [|discriminate]. destruct t; try discriminate. apply ty_eqb_true in H. subst t0.
    rewrite ety_EArr. rewrite Ha. reflexivity.
  - destruct pairs; [|discriminate]. destruct t; try discriminate. apply ty_eqb_true in H. subst t0.
    rewrite ety_EMap. rewrite Ha. reflexivity.
Qed.

(* the defaulted empty literal stored into any:  print []  ,  typeof {}  *)
Definition zero_any (t : ty) (e : expr) : bool :=
  zero_lit t e && match t with TArr TAny | TMap TAny => true | _ => false end.

(* an argument against a parameter type: the value has exactly the parameter's type, or the parameter is
   any and the value is wrapped (the wrapper records the value's own type), or the parameter is one of
   the two generic built-in parameter types *)
Section ArgAnn.
  Context (ann : expr -> bool) (G : tyenv).
  Definition arg_ann (p : ty) (a : expr) : bool :=
    match p with
    | TAny =>
        match a with
        | EAny a' t' => (ann a' && sty_is G a' t' && negb (is_any t') && ty_small t') || zero_any t' a'
        | _ => ann a && sty_is G a TAny
        end
    | TGenArr => ann a && match spec_ty_of G a with Some s => TypesSpec.is_array_b s && ty_small (ty_of s) | None => false end
    | TGenMap => ann a && match spec_ty_of G a with Some s => TypesSpec.is_map_b s && ty_small (ty_of s) | None => false end
    | _ => (ann a && sty_is G a p && ty_small p) || (ty_decl p && zero_lit p a)
    end.
  Fixpoint args_ann (ps : list ty) (args : list expr) {struct args} : bool :=
    match ps, args with
    | [], [] => true
    | p :: ps', a :: args' => arg_ann p a && args_ann ps' args'
    | _, _ => false
    end.
  Section VArgs.
    Context (v : ty).
    Fixpoint vargs_ann (args : list expr) : bool :=
      match args with [] => true | a :: r => arg_ann v a && vargs_ann r end.
  End VArgs.
  (* the values of a map literal of type {}any *)
  Fixpoint pvargs_ann (ps : list (str * expr)) : bool :=
    match ps with [] => true | (_, x) :: r => arg_ann TAny x && pvargs_ann r end.
  Definition sig_ann (sg : fsig) (args : list expr) : bool :=
    match fs_var sg with
    | Some v => match fs_params sg with [] => vargs_ann v args | _ => false end
    | None => args_ann (fs_params sg) args
    end.
End ArgAnn.

(* [ann_ok]: every annotation of the tree is the type the SPECIFICATION gives the node; literals are
   uniform (their elements all have the literal's element type: nothing was converted), concatenation
   unifies only at the top ([shallow]), variables are those of the environment, nesting depths are
   within the model's bound *)
Fixpoint ann_ok (F : list funcdef) (G : tyenv) (A : expr) {struct A} : bool :=
  let elems (u : ty) := fix go (es : list expr) : bool :=
    match es with [] => true | x :: r => ann_ok F G x && sty_is G x u && go r end in
  let pelems (u : ty) := fix go (ps : list (str * expr)) : bool :=
    match ps with [] => true | (_, x) :: r => ann_ok F G x && sty_is G x u && go r end in
  let bound (o : option expr) : bool := match o with Some x => ann_ok F G x | None => true end in
  let arg1 (p : ty) (a : expr) : bool :=
    match p with
    | TAny =>
        match a with
        | EAny a' t' => (ann_ok F G a' && sty_is G a' t' && negb (is_any t') && ty_small t') || zero_any t' a'
        | _ => ann_ok F G a && sty_is G a TAny
        end
    | TGenArr => ann_ok F G a && match spec_ty_of G a with Some s => TypesSpec.is_array_b s && ty_small (ty_of s) | None => false end
    | TGenMap => ann_ok F G a && match spec_ty_of G a with Some s => TypesSpec.is_map_b s && ty_small (ty_of s) | None => false end
    | _ => (ann_ok F G a && sty_is G a p && ty_small p) || (ty_decl p && zero_lit p a)
    end in
  let argsf := fix go (ps : list ty) (args : list expr) {struct args} : bool :=
    match ps, args with
    | [], [] => true
    | p :: ps', a :: args' => arg1 p a && go ps' args'
    | _, _ => false
    end in
  let argsv (v : ty) := fix go (args : list expr) : bool :=
    match args with [] => true | a :: r => arg1 v a && go r end in
  let pargsv := fix go (ps : list (str * expr)) : bool :=
    match ps with [] => true | (_, x) :: r => arg1 TAny x && go r end in
  let elemsz (u : ty) := fix go (es : list expr) : bool :=
    match es with [] => true | x :: r => ((ann_ok F G x && sty_is G x u) || zero_lit u x) && go r end in
  let pelemsz (u : ty) := fix go (ps : list (str * expr)) : bool :=
    match ps with [] => true | (_, x) :: r => ((ann_ok F G x && sty_is G x u) || zero_lit u x) && go r end in
  match A with
  | ENum _ | EStr _ | EBool _ => true
  | EVar n t => negb (str_eqb n underscore) && opt_ty_eqb (slookup n G) t && ty_small t
  | EAny _ _ => false
  | EArr t es =>
      match es, t with
      | [], TEmptyArr => true
      | _ :: _, TArr u =>
          (elems u es || (is_any u && argsv TAny es && sty_is G A t) || (ty_decl u && elemsz u es && sty_is G A t))
          && ty_small t
      | _, _ => false
      end
  | EMap t ps =>
      match ps, t with
      | [], TEmptyMap => true
      | _ :: _, TMap u =>
          (pelems u ps || (is_any u && pargsv ps && sty_is G A t) || (ty_decl u && pelemsz u ps && sty_is G A t))
          && ty_small t && keys_nodup (map fst ps)
      | _, _ => false
      end
  | ECall name t args =>
      match lookup_sig F name with
      | Some sg =>
          ty_eqb (fs_ret sg) t && ty_value t &&
          match fs_var sg with
          | Some v => match fs_params sg with [] => argsv v args | _ => false end
          | None => argsf (fs_params sg) args
          end
      | None => false
      end
  | EUn _ a => ann_ok F G a
  | EBin op t l r =>
      ann_ok F G l && ann_ok F G r && ty_small t && sty_is G A t &&
      match spec_ty_of G l, spec_ty_of G r with Some a, Some b => shallow_b op a b | _, _ => false end
  | EIndex t l i => ann_ok F G l && ann_ok F G i && ty_small t && sty_is G A t
  | ESlice t l lo hi => ann_ok F G l && bound lo && bound hi && sty_is G A t
  | EDot t l _ => ann_ok F G l && ty_small t && sty_is G A t
  | EGroup a => ann_ok F G a
  | EAssert t a => ann_ok F G a && ty_small t
  end.

Section AnnLists.
  Context (F : list funcdef) (G : tyenv).
  Section Elems.
    Context (u : ty).
    Fixpoint elems_ann (es : list expr) : bool :=
      match es with [] => true | x :: r => ann_ok F G x && sty_is G x u && elems_ann r end.
    Fixpoint pelems_ann (ps : list (str * expr)) : bool :=
      match ps with [] => true | (_, x) :: r => ann_ok F G x && sty_is G x u && pelems_ann r end.
    (* elements that may be the empty literal retyped to the element type:  [[1] []]  *)
    Fixpoint elemsz_ann (es : list expr) : bool :=
      match es with [] => true | x :: r => ((ann_ok F G x && sty_is G x u) || zero_lit u x) && elemsz_ann r end.
    Fixpoint pelemsz_ann (ps : list (str * expr)) : bool :=
      match ps with [] => true | (_, x) :: r => ((ann_ok F G x && sty_is G x u) || zero_lit u x) && pelemsz_ann r end.
  End Elems.
  Definition bound_ann (o : option expr) : bool := match o with Some x => ann_ok F G x | None => true end.
End AnnLists.

Lemma ann_ok_EArr F G t es : ann_ok F G (EArr t es) =
      match es, t with
      | [], TEmptyArr => true
      | _ :: _, TArr u =>
          (elems_ann F G u es || (is_any u && vargs_ann (ann_ok F G) G TAny es && sty_is G (EArr t es) t)
           || (ty_decl u && elemsz_ann F G u es && sty_is G (EArr t es) t)) && ty_small t
      | _, _ => false
      end.
Proof. destruct es, t; reflexivity. Qed.
Lemma ann_ok_EMap F G t ps : ann_ok F G (EMap t ps) =
      match ps, t with
      | [], TEmptyMap => true
      | _ :: _, TMap u =>
          (pelems_ann F G u ps || (is_any u && pvargs_ann (ann_ok F G) G ps && sty_is G (EMap t ps) t)
           || (ty_decl u && pelemsz_ann F G u ps && sty_is G (EMap t ps) t))
          && ty_small t && keys_nodup (map fst ps)
      | _, _ => false
      end.
Proof. destruct ps, t; reflexivity. Qed.
Lemma ann_ok_ECall F G name t args : ann_ok F G (ECall name t args) =
      match lookup_sig F name with
      | Some sg => ty_eqb (fs_ret sg) t && ty_value t && sig_ann (ann_ok F G) G sg args
      | None => false
      end.
Proof. reflexivity. Qed.
Lemma ann_ok_ESlice F G t l lo hi : ann_ok F G (ESlice t l lo hi) =
  ann_ok F G l && bound_ann F G lo && bound_ann F G hi && sty_is G (ESlice t l lo hi) t.
Proof. reflexivity. Qed.

Lemma ty_value_ty_of s : ty_value (ty_of s) = true.
Proof. induction s; simpl; auto. Qed.

Lemma sty_is_inv G A t : sty_is G A t = true ->
  exists e k s, erase G A = Some e /\ TypesSpec.spec_tc e = Some (k, s) /\ t = ty_of s.
Proof.
  unfold sty_is, spec_ty_of. destruct (erase G A) as [e|]; [|discriminate].
  destruct (TypesSpec.spec_tc e) as [[k s]|] eqn:Es; [|discriminate]. simpl. intros H. apply ty_eqb_true in H.
  exists e, k, s. auto.
Qed.

Lemma sty_is_eq G A t e k s :
  sty_is G A t = true -> erase G A = Some e -> TypesSpec.spec_tc e = Some (k, s) -> t = ty_of s.
Proof.
  intros H He Hs. destruct (sty_is_inv _ _ _ H) as (e' & k' & s' & He' & Hs' & ->). congruence.
Qed.

Definition ann_typed (F : list funcdef) (G : tyenv) (A : expr) : Prop :=
  ann_ok F G A = true -> forall e k s, erase G A = Some e -> TypesSpec.spec_tc e = Some (k, s) ->
  ety F G A = Some (ty_of s).

Lemma ann_typed_by_sty F G A t : ann_typed F G A -> ann_ok F G A = true -> sty_is G A t = true -> ety F G A = Some t.
Proof.
  intros H Ha Hs. destruct (sty_is_inv _ _ _ Hs) as (e & k & s & He & Hsp & ->). eapply H; eauto.
Qed.

Lemma elems_conv F G u es :
  Forall (ann_typed F G) es -> elems_ann F G u es = true ->
  exists ts, etys F G es = Some ts /\ forallb (ty_eqb u) ts = true.
Proof.
  induction 1 as [|x es Hx _ IH]; intros H.
  - exists []. auto.
  - cbn [elems_ann] in H. apply andb_true_iff in H as [H H3]. apply andb_true_iff in H as [H1 H2].
    destruct (IH H3) as (ts & Hts & Hall).
    exists (u :: ts). cbn [etys]. rewrite (ann_typed_by_sty F G x u Hx H1 H2), Hts. simpl.
    rewrite ty_eqb_same. auto.
Qed.

Lemma pelems_conv F G u ps :
  Forall (fun p => ann_typed F G (snd p)) ps -> pelems_ann F G u ps = true ->
  exists ts, etyps F G ps = Some ts /\ forallb (ty_eqb u) ts = true.
Proof.
  induction 1 as [|[key x] ps Hx _ IH]; intros H.
  - exists []. auto.
  - cbn [pelems_ann] in H. apply andb_true_iff in H as [H H3]. apply andb_true_iff in H as [H1 H2].
    destruct (IH H3) as (ts & Hts & Hall). simpl in Hx.
    exists (u :: ts). cbn [etyps]. rewrite (ann_typed_by_sty F G x u Hx H1 H2), Hts. simpl.
    rewrite ty_eqb_same. auto.
Qed.

(* arguments *)
Definition arg_typed (F : list funcdef) (G : tyenv) (a : expr) : Prop :=
  ann_typed F G a /\ (forall a' t', a = EAny a' t' -> ann_typed F G a').

Lemma ty_decl_ann t : ty_decl t = true -> ty_ann t = true.
Proof.
  unfold ty_decl, ty_ann. intros H. apply andb_true_iff in H as [Hp Hs]. rewrite Hs, andb_true_r.
  clear -Hp. induction t; simpl in *; auto; discriminate.
Qed.

Lemma arg_conv F G p a :
  arg_typed F G a -> arg_ann (ann_ok F G) G p a = true ->
  exists ta, ety F G a = Some ta /\ arg_ok p ta = true.
Proof.
  intros [H1 H2] Ha. unfold arg_ann in Ha.
  assert (PLAINARG : forall q, ann_ok F G a && sty_is G a q && ty_small q = true -> q <> TGenArr -> q <> TGenMap ->
             exists ta, ety F G a = Some ta /\ arg_ok q ta = true).
  { intros q Hq N1 N2. apply andb_true_iff in Hq as [Hq Hq3]. apply andb_true_iff in Hq as [Hq1 Hq2].
    exists q. split; [eapply ann_typed_by_sty; eauto|].
    destruct (sty_is_inv _ _ _ Hq2) as (e & k & s & _ & _ & ->).
    unfold arg_ok, ty_ann. rewrite ty_eqb_same, ty_value_ty_of, Hq3.
    destruct (ty_of s); try reflexivity; congruence. }
  assert (ZEROARG : forall q, ty_decl q && zero_lit q a = true ->
             exists ta, ety F G a = Some ta /\ arg_ok q ta = true).
  { intros q Hq. apply andb_true_iff in Hq as [Hd Hz]. exists q. split; [apply zero_lit_ety; assumption|].
    unfold arg_ok. rewrite ty_eqb_same, (ty_decl_ann q Hd).
    unfold zero_lit in Hz. destruct a; try discriminate; destruct q; try discriminate; reflexivity. }
  destruct p;
    try (apply orb_true_iff in Ha as [Ha|Ha]; [apply PLAINARG; [exact Ha|discriminate|discriminate]|apply ZEROARG; exact Ha]).
  - (* any *)
    destruct a; try (apply (PLAINARG TAny); [rewrite Ha; reflexivity|discriminate|discriminate]).
    exists TAny. split; [|reflexivity]. cbn [ety].
    apply orb_true_iff in Ha as [Ha|Ha].
    + apply andb_true_iff in Ha as [Ha Ha4]. apply andb_true_iff in Ha as [Ha Ha3]. apply andb_true_iff in Ha as [Ha1 Ha2].
      rewrite (ann_typed_by_sty F G a t (H2 a t eq_refl) Ha1 Ha2). simpl. rewrite ty_eqb_same, Ha3. simpl.
      destruct (sty_is_inv _ _ _ Ha2) as (e & k & s & _ & _ & ->). unfold ty_ann. rewrite ty_value_ty_of, Ha4. reflexivity.
    + unfold zero_any in Ha. apply andb_true_iff in Ha as [Hz Hk].
      assert (Hd : ty_decl t = true) by (destruct t as [| | | | |u|u| | | |]; try discriminate; destruct u; try discriminate; reflexivity).
      rewrite (zero_lit_ety F G t a Hz Hd). simpl. rewrite ty_eqb_same, (ty_decl_ann t Hd).
      destruct t; try discriminate; reflexivity.
  - (* generic array *)
    apply andb_true_iff in Ha as [Ha1 Ha2]. unfold spec_ty_of in Ha2.
    destruct (erase G a) as [e|] eqn:He; [|discriminate].
    destruct (TypesSpec.spec_tc e) as [[k s]|] eqn:Hs; [|discriminate]. simpl in Ha2.
    apply andb_true_iff in Ha2 as [Ha2 Ha3].
    exists (ty_of s). split; [eapply H1; eauto|].
    unfold arg_ok, ty_ann. destruct s; try discriminate; simpl in *; rewrite ?ty_value_ty_of, ?Ha3; reflexivity.
  - (* generic map *)
    apply andb_true_iff in Ha as [Ha1 Ha2]. unfold spec_ty_of in Ha2.
    destruct (erase G a) as [e|] eqn:He; [|discriminate].
    destruct (TypesSpec.spec_tc e) as [[k s]|] eqn:Hs; [|discriminate]. simpl in Ha2.
    apply andb_true_iff in Ha2 as [Ha2 Ha3].
    exists (ty_of s). split; [eapply H1; eauto|].
    unfold arg_ok, ty_ann. destruct s; try discriminate; simpl in *; rewrite ?ty_value_ty_of, ?Ha3; reflexivity.
Qed.

Lemma args_conv F G : forall args ps,
  Forall (arg_typed F G) args -> args_ann (ann_ok F G) G ps args = true ->
  exists ts, etys F G args = Some ts /\ args_ok ps None ts = true.
Proof.
  induction args as [|a args IH]; intros ps HF Ha; destruct ps as [|p ps]; simpl in Ha; try discriminate.
  - exists []. auto.
  - inversion HF; subst. apply andb_true_iff in Ha as [Ha1 Ha2].
    destruct (arg_conv F G p a H1 Ha1) as (ta & Hta & Hok).
    destruct (IH ps H2 Ha2) as (ts & Hts & Hoks).
    exists (ta :: ts). cbn [etys]. rewrite Hta, Hts. simpl. rewrite Hok, Hoks. auto.
Qed.

Lemma vargs_conv F G v : forall args,
  Forall (arg_typed F G) args -> vargs_ann (ann_ok F G) G v args = true ->
  exists ts, etys F G args = Some ts /\ forallb (arg_ok v) ts = true.
Proof.
  induction args as [|a args IH]; intros HF Ha; simpl in Ha.
  - exists []. auto.
  - inversion HF; subst. apply andb_true_iff in Ha as [Ha1 Ha2].
    destruct (arg_conv F G v a H1 Ha1) as (ta & Hta & Hok).
    destruct (IH H2 Ha2) as (ts & Hts & Hoks).
    exists (ta :: ts). cbn [etys]. rewrite Hta, Hts. simpl. rewrite Hok, Hoks. auto.
Qed.

Lemma erases_inv G : forall es el, erases G es = Some el -> List.length el = List.length es.
Proof.
  induction es as [|x es IH]; intros el H; simpl in H; [inversion H; reflexivity|].
  destruct (erase G x), (erases G es) eqn:E; try discriminate. inversion H; subst. simpl. f_equal. auto.
Qed.

Lemma elems_same F G t : forall es el ks,
  elems_ann F G t es = true -> erases G es = Some el -> TypesSpec.all_some (map TypesSpec.spec_tc el) = Some ks ->
  Forall (fun y => ty_of (snd y) = t) ks.
Proof.
  induction es as [|x es IH]; intros el ks Ha He Hk.
  - simpl in He. inversion He; subst. simpl in Hk. inversion Hk; constructor.
  - cbn [elems_ann] in Ha. apply andb_true_iff in Ha as [Ha Ha3]. apply andb_true_iff in Ha as [_ Ha2].
    cbn [erases] in He. destruct (erase G x) as [e|] eqn:Ex; [|discriminate].
    destruct (erases G es) as [el'|] eqn:Ees; [|discriminate]. inversion He; subst.
    simpl in Hk. destruct (TypesSpec.spec_tc e) as [[k st]|] eqn:Est; [|discriminate].
    destruct (TypesSpec.all_some (map TypesSpec.spec_tc el')) as [ks'|] eqn:Eks; [|discriminate]. inversion Hk; subst.
    constructor; [simpl; symmetry; eapply sty_is_eq; eauto|eauto].
Qed.

Lemma pelems_same F G t : forall ps el ks,
  pelems_ann F G t ps = true -> erasep G ps = Some el -> TypesSpec.all_some (map TypesSpec.spec_tc el) = Some ks ->
  Forall (fun y => ty_of (snd y) = t) ks.
Proof.
  induction ps as [|[key x] ps IH]; intros el ks Ha He Hk.
  - simpl in He. inversion He; subst. simpl in Hk. inversion Hk; constructor.
  - cbn [pelems_ann] in Ha. apply andb_true_iff in Ha as [Ha Ha3]. apply andb_true_iff in Ha as [_ Ha2].
    cbn [erasep] in He. destruct (erase G x) as [e|] eqn:Ex; [|discriminate].
    destruct (erasep G ps) as [el'|] eqn:Ees; [|discriminate]. inversion He; subst.
    simpl in Hk. destruct (TypesSpec.spec_tc e) as [[k st]|] eqn:Est; [|discriminate].
    destruct (TypesSpec.all_some (map TypesSpec.spec_tc el')) as [ks'|] eqn:Eks; [|discriminate]. inversion Hk; subst.
    constructor; [simpl; symmetry; eapply sty_is_eq; eauto|eauto].
Qed.

Lemma join_same (t : ty) y ks : Forall (fun z : TypesSpec.kind * TypesSyntax.sty => ty_of (snd z) = t) (y :: ks) ->
  ty_of (snd (fold_left TypesSpec.sjoin ks y)) = t.
Proof.
  intros H. inversion H; subst. rewrite fold_sjoin_same with (u := snd y); auto.
  eapply Forall_impl; [|exact H3]. cbv beta. intros z Hz. apply ty_of_inj. congruence.
Qed.

Lemma all_some_len {A} : forall (l : list (option A)) ks, TypesSpec.all_some l = Some ks -> List.length ks = List.length l.
Proof.
  induction l as [|[x|] l IH]; intros ks H; simpl in H; try discriminate; [inversion H; reflexivity|].
  destruct (TypesSpec.all_some l); [|discriminate]. inversion H; subst. simpl. f_equal. auto.
Qed.

Lemma erasep_inv G : forall ps el, erasep G ps = Some el -> List.length el = List.length ps.
Proof.
  induction ps as [|[key x] ps IH]; intros el H; simpl in H; [inversion H; reflexivity|].
  destruct (erase G x), (erasep G ps) eqn:E; try discriminate. inversion H; subst. simpl. f_equal. auto.
Qed.

Lemma nonempty_ks {X} (n : nat) (el : list TypesSyntax.expr) (l : list X) :
  List.length el = List.length l -> l <> [] -> TypesSpec.all_some (map TypesSpec.spec_tc el) = Some [] -> False.
Proof.
  intros Hl Hn H. apply all_some_len in H. rewrite map_length in H. simpl in H.
  destruct l; [congruence|]. rewrite <- H in Hl. discriminate.
Qed.

Definition sbound (o : option TypesSyntax.expr) : option TypesSpec.kind :=
  match o with
  | None => Some TypesSpec.KConst
  | Some x => match TypesSpec.spec_tc x with Some (k', TypesSyntax.SNum) => Some k' | _ => None end
  end.

Lemma spec_tc_ESlice l s e' : TypesSpec.spec_tc (TypesSyntax.ESlice l s e') =
  match TypesSpec.spec_tc l with
  | Some (k, a) =>
      match sbound s, sbound e', TypesSpec.slice_type_s a with
      | Some k1, Some k2, Some t => Some (TypesSpec.kjoin k (TypesSpec.kjoin k1 k2), t)
      | _, _, _ => None
      end
  | None => None
  end.
Proof. reflexivity. Qed.

Lemma elemsz_conv F G u : forall es, Forall (ann_typed F G) es -> ty_decl u = true -> elemsz_ann F G u es = true ->
  exists ts, etys F G es = Some ts /\ forallb (ty_eqb u) ts = true.
Proof.
  induction 1 as [|x es Hx _ IH]; intros Hd H.
  - exists []. auto.
  - cbn [elemsz_ann] in H. apply andb_true_iff in H as [H1 H2]. destruct (IH Hd H2) as (ts & Hts & Hall).
    exists (u :: ts). cbn [etys].
    assert (ety F G x = Some u) as ->.
    { apply orb_true_iff in H1 as [H1|H1]; [|apply zero_lit_ety; assumption].
      apply andb_true_iff in H1 as [A B]. exact (ann_typed_by_sty F G x u Hx A B). }
    rewrite Hts. cbn [forallb]. rewrite ty_eqb_same, Hall. auto.
Qed.

Lemma pelemsz_conv F G u : forall ps, Forall (fun p : str * expr => ann_typed F G (snd p)) ps -> ty_decl u = true ->
  pelemsz_ann F G u ps = true -> exists ts, etyps F G ps = Some ts /\ forallb (ty_eqb u) ts = true.
Proof.
  induction 1 as [|[k x] ps Hx _ IH]; intros Hd H.
  - exists []. auto.
  - cbn [pelemsz_ann] in H. apply andb_true_iff in H as [H1 H2]. destruct (IH Hd H2) as (ts & Hts & Hall).
    exists (u :: ts). cbn [etyps]. simpl in Hx.
    assert (ety F G x = Some u) as ->.
    { apply orb_true_iff in H1 as [H1|H1]; [|apply zero_lit_ety; assumption].
      apply andb_true_iff in H1 as [A B]. exact (ann_typed_by_sty F G x u Hx A B). }
    rewrite Hts. cbn [forallb]. rewrite ty_eqb_same, Hall. auto.
Qed.

Lemma pvargs_conv F G : forall ps,
  Forall (fun p : str * expr => arg_typed F G (snd p)) ps -> pvargs_ann (ann_ok F G) G ps = true ->
  exists ts, etyps F G ps = Some ts /\ forallb (arg_ok TAny) ts = true.
Proof.
  induction ps as [|[key a] ps IH]; intros HF Ha; simpl in Ha.
  - exists []. auto.
  - inversion HF; subst. apply andb_true_iff in Ha as [Ha1 Ha2].
    destruct (arg_conv F G TAny a H1 Ha1) as (ta & Hta & Hok).
    destruct (IH H2 Ha2) as (ts & Hts & Hoks).
    exists (ta :: ts). cbn [etyps]. rewrite Hta, Hts. split; [reflexivity|].
    cbn [forallb]. rewrite Hok, Hoks. reflexivity.
Qed.

Lemma arg_ok_any_all ts : forallb (arg_ok TAny) ts = true -> forallb (ty_eqb TAny) ts = true.
Proof.
  induction ts as [|a ts IH]; [reflexivity|]. cbn [forallb]. intros H. apply andb_true_iff in H as [A B].
  unfold arg_ok in A. apply andb_true_iff in A as [A _]. rewrite A, (IH B). reflexivity.
Qed.

Theorem spec_to_static F G : forall A, arg_typed F G A.
Proof.
  induction A using expr_ind'; (split; [|try (intros a' t' Heq; discriminate Heq)]).
  - intros _ e k st He Hs. inversion He; subst. inversion Hs; subst. reflexivity.
  - intros _ e k st He Hs. inversion He; subst. inversion Hs; subst. reflexivity.
  - intros _ e k st He Hs. inversion He; subst. inversion Hs; subst. reflexivity.
  - (* variable *)
    intros Ha e k st He Hs. cbn [ann_ok] in Ha. cbn [erase] in He.
    apply andb_true_iff in Ha as [Ha Ha3]. apply andb_true_iff in Ha as [Ha1 Ha2].
    pose proof (opt_ty_eqb_some _ _ Ha2) as Hl. rewrite Hl in He.
    destruct (sty_of t) as [s0|] eqn:Est; [|discriminate]. inversion He; subst. inversion Hs; subst.
    pose proof (ty_of_sty_of _ _ Est) as Et. subst t.
    cbn [ety]. rewrite Ha1, Ha2. unfold ty_ann. rewrite ty_value_ty_of, Ha3. reflexivity.
  - intros Ha; discriminate.
  - (* the operand of an Any wrapper *)
    intros a' t' Heq. inversion Heq; subst. apply IHA.
  - (* array literal *)
    intros Ha e k st He Hs. pose proof He as He0. rewrite ann_ok_EArr in Ha. rewrite erase_EArr in He. rewrite ety_EArr.
    assert (HF : Forall (ann_typed F G) es) by (eapply Forall_impl; [|exact H]; intros a [Ha' _]; exact Ha').
    destruct es as [|x es].
    + destruct t; try discriminate. simpl in He. inversion He; subst. inversion Hs; subst. reflexivity.
    + destruct t; try discriminate. apply andb_true_iff in Ha as [Ha1 Ha2].
      apply orb_true_iff in Ha1 as [Ha1|Ha1]; cycle 1.
      { (* elements that may be the empty literal retyped to the element type *)
        apply andb_true_iff in Ha1 as [Ha1 Hst]. apply andb_true_iff in Ha1 as [Hd Hv].
        destruct (elemsz_conv F G t (x :: es) HF Hd Hv) as (ts & Hts & Hok).
        rewrite Hts, Hok. rewrite <- (sty_is_eq G _ _ e k st Hst He0 Hs).
        unfold ty_ann. cbn [ty_value]. unfold ty_decl in Hd. apply andb_true_iff in Hd as [Hp _].
        assert (ty_value t = true) as -> by (clear -Hp; induction t; simpl in *; auto; discriminate).
        rewrite Ha2. reflexivity. }
      apply orb_true_iff in Ha1 as [Ha1|Ha1]; cycle 1.
      { (* a literal of mixed element types: []any, every element wrapped *)
        apply andb_true_iff in Ha1 as [Ha1 Hst]. apply andb_true_iff in Ha1 as [Hany Hv].
        destruct t; try discriminate.
        destruct (vargs_conv F G TAny (x :: es) H Hv) as (ts & Hts & Hok).
        rewrite Hts, (arg_ok_any_all ts Hok). rewrite <- (sty_is_eq G _ _ e k st Hst He0 Hs).
        unfold ty_ann. rewrite Ha2. reflexivity. }
      destruct (elems_conv F G t (x :: es) HF Ha1) as (ts & Hts & Hall). rewrite Hts, Hall.
      destruct (erases G (x :: es)) as [el|] eqn:Eel; [|discriminate]. simpl in He. inversion He; subst.
      cbn [TypesSpec.spec_tc] in Hs.
      destruct (TypesSpec.all_some (map TypesSpec.spec_tc el)) as [ks|] eqn:Eks; [|discriminate].
      pose proof (elems_same F G t _ _ _ Ha1 Eel Eks) as Hsame.
      destruct ks as [|y ks]; [exfalso; eapply (nonempty_ks 0); [eapply erases_inv; eauto|discriminate|eauto]|]. injection Hs as <- <-.
      simpl ty_of. rewrite (join_same t y ks Hsame).
      assert (Hv : ty_value t = true) by (inversion Hsame; subst; apply ty_value_ty_of).
      unfold ty_ann. simpl ty_value. rewrite Hv, Ha2. reflexivity.
  - (* map literal *)
    intros Ha e k st He Hs. pose proof He as He0. rewrite ann_ok_EMap in Ha. rewrite erase_EMap in He. rewrite ety_EMap.
    assert (HF : Forall (fun p => ann_typed F G (snd p)) ps) by (eapply Forall_impl; [|exact H]; intros a [Ha' _]; exact Ha').
    destruct ps as [|p ps].
    + destruct t; try discriminate. simpl in He. inversion He; subst. inversion Hs; subst. reflexivity.
    + destruct t; try discriminate. apply andb_true_iff in Ha as [Ha Ha3]. apply andb_true_iff in Ha as [Ha1 Ha2].
      apply orb_true_iff in Ha1 as [Ha1|Ha1]; cycle 1.
      { (* values that may be the empty literal retyped to the value type *)
        apply andb_true_iff in Ha1 as [Ha1 Hst]. apply andb_true_iff in Ha1 as [Hd Hv].
        destruct (pelemsz_conv F G t (p :: ps) HF Hd Hv) as (ts & Hts & Hok).
        rewrite Hts, Hok. rewrite <- (sty_is_eq G _ _ e k st Hst He0 Hs).
        unfold ty_ann. cbn [ty_value]. unfold ty_decl in Hd. apply andb_true_iff in Hd as [Hp _].
        assert (ty_value t = true) as -> by (clear -Hp; induction t; simpl in *; auto; discriminate).
        rewrite Ha2, Ha3. reflexivity. }
      apply orb_true_iff in Ha1 as [Ha1|Ha1]; cycle 1.
      { (* a map literal of mixed value types: {}any, every value wrapped *)
        apply andb_true_iff in Ha1 as [Ha1 Hst]. apply andb_true_iff in Ha1 as [Hany Hv].
        destruct t; try discriminate.
        destruct (pvargs_conv F G (p :: ps) H Hv) as (ts & Hts & Hok).
        rewrite Hts, (arg_ok_any_all ts Hok). rewrite <- (sty_is_eq G _ _ e k st Hst He0 Hs).
        unfold ty_ann. rewrite Ha2, Ha3. reflexivity. }
      destruct (pelems_conv F G t (p :: ps) HF Ha1) as (ts & Hts & Hall). rewrite Hts, Hall.
      destruct (erasep G (p :: ps)) as [el|] eqn:Eel; [|discriminate]. simpl in He. inversion He; subst.
      cbn [TypesSpec.spec_tc] in Hs.
      destruct (TypesSpec.all_some (map TypesSpec.spec_tc el)) as [ks|] eqn:Eks; [|discriminate].
      pose proof (pelems_same F G t _ _ _ Ha1 Eel Eks) as Hsame.
      destruct ks as [|y ks]; [exfalso; eapply (nonempty_ks 0); [eapply erasep_inv; eauto|discriminate|eauto]|]. injection Hs as <- <-.
      simpl ty_of. rewrite (join_same t y ks Hsame).
      assert (Hv : ty_value t = true) by (inversion Hsame; subst; apply ty_value_ty_of).
      unfold ty_ann. simpl ty_value. rewrite Hv, Ha2, Ha3. reflexivity.
  - (* call *)
    intros Ha e k st He Hs. rewrite ann_ok_ECall in Ha. rewrite ety_ECall. cbn [erase] in He.
    destruct (lookup_sig F n) as [sg|]; [|discriminate].
    apply andb_true_iff in Ha as [Ha Ha3]. apply andb_true_iff in Ha as [Ha1 Ha2].
    destruct (sty_of t) as [s0|] eqn:Est; [|discriminate]. inversion He; subst. inversion Hs; subst.
    rewrite (ty_of_sty_of _ _ Est).
    unfold sig_ann in Ha3. unfold sig_args_ok.
    destruct (fs_var sg) as [v|].
    + destruct (fs_params sg); [|discriminate].
      destruct (vargs_conv F G v args H Ha3) as (ts & Hts & Hok). rewrite Hts, Hok, Ha1. reflexivity.
    + destruct (args_conv F G args (fs_params sg) H Ha3) as (ts & Hts & Hok). rewrite Hts, Hok, Ha1. reflexivity.
  - (* unary *)
    intros Ha e k st He Hs. cbn [ann_ok] in Ha. cbn [erase] in He. destruct IHA as [IHA _].
    destruct (erase G A) as [ea|] eqn:Ea; [|discriminate]. simpl in He. inversion He; subst.
    cbn [TypesSpec.spec_tc] in Hs. destruct (TypesSpec.spec_tc ea) as [[ka sa]|] eqn:Esa; [|discriminate].
    cbn [ety]. rewrite (IHA Ha _ _ _ Ea Esa).
    destruct op, sa; simpl in Hs; try discriminate; inversion Hs; subst; reflexivity.
  - (* binary *)
    intros Ha e k st He Hs. cbn [ann_ok] in Ha. cbn [erase] in He.
    destruct IHA1 as [IHA1 _]. destruct IHA2 as [IHA2 _].
    apply andb_true_iff in Ha as [Ha Ha5]. apply andb_true_iff in Ha as [Ha Ha4].
    apply andb_true_iff in Ha as [Ha Ha3]. apply andb_true_iff in Ha as [Ha1 Ha2].
    unfold spec_ty_of in Ha5.
    destruct (erase G A1) as [e1|] eqn:E1; [|discriminate]. destruct (erase G A2) as [e2|] eqn:E2; [|discriminate].
    inversion He; subst. cbn [TypesSpec.spec_tc] in Hs.
    destruct (TypesSpec.spec_tc e1) as [[k1 s1]|] eqn:Es1; [|discriminate].
    destruct (TypesSpec.spec_tc e2) as [[k2 s2]|] eqn:Es2; [|discriminate]. simpl in Ha5.
    destruct (TypesSpec.op_type (binop_of op) s1 s2) as [so|] eqn:Eop; inversion Hs; subst.
    assert (Et : t = ty_of st).
    { eapply sty_is_eq; [exact Ha4| |].
      - cbn [erase]. rewrite E1, E2. reflexivity.
      - cbn [TypesSpec.spec_tc]. rewrite Es1, Es2, Eop. reflexivity. }
    subst t.
    cbn [ety]. rewrite (IHA1 Ha1 _ _ _ E1 Es1), (IHA2 Ha2 _ _ _ E2 Es2).
    pose proof (op_type_static op s1 s2 st Eop (shallow_b_ok _ _ _ Ha5)) as Hok. unfold bin_ok in Hok.
    rewrite Hok. unfold ty_ann. rewrite ty_value_ty_of, Ha3. reflexivity.
  - (* index *)
    intros Ha e k st He Hs. cbn [ann_ok] in Ha. cbn [erase] in He.
    destruct IHA1 as [IHA1 _]. destruct IHA2 as [IHA2 _].
    apply andb_true_iff in Ha as [Ha Ha4]. apply andb_true_iff in Ha as [Ha Ha3]. apply andb_true_iff in Ha as [Ha1 Ha2].
    destruct (erase G A1) as [e1|] eqn:E1; [|discriminate]. destruct (erase G A2) as [e2|] eqn:E2; [|discriminate].
    inversion He; subst. cbn [TypesSpec.spec_tc] in Hs.
    destruct (TypesSpec.spec_tc e1) as [[k1 s1]|] eqn:Es1; [|discriminate].
    destruct (TypesSpec.spec_tc e2) as [[k2 s2]|] eqn:Es2; [|discriminate].
    destruct (TypesSpec.index_type_s s1 s2) as [so|] eqn:Eop; inversion Hs; subst.
    assert (Et : t = ty_of st).
    { eapply sty_is_eq; [exact Ha4| |].
      - cbn [erase]. rewrite E1, E2. reflexivity.
      - cbn [TypesSpec.spec_tc]. rewrite Es1, Es2, Eop. reflexivity. }
    subst t.
    cbn [ety]. rewrite (IHA1 Ha1 _ _ _ E1 Es1), (IHA2 Ha2 _ _ _ E2 Es2).
    destruct s1, s2; simpl in Eop; try discriminate; inversion Eop; subst; simpl;
      unfold ty_ann; rewrite ?ty_eqb_same, ?ty_value_ty_of, ?Ha3; reflexivity.
  - (* slice *)
    intros Ha e k st He Hs. rewrite ann_ok_ESlice in Ha. rewrite erase_ESlice in He. rewrite ety_ESlice.
    destruct IHA as [IHA _].
    apply andb_true_iff in Ha as [Ha Ha4]. apply andb_true_iff in Ha as [Ha Ha3]. apply andb_true_iff in Ha as [Ha1 Ha2].
    destruct (erase G A) as [e1|] eqn:E1; [|discriminate].
    destruct (eraseo G lo) as [elo|] eqn:Elo; [|discriminate]. destruct (eraseo G hi) as [ehi|] eqn:Ehi; [|discriminate].
    inversion He; subst. rewrite spec_tc_ESlice in Hs.
    destruct (TypesSpec.spec_tc e1) as [[k1 s1]|] eqn:Es1; [|discriminate].
    assert (BD : forall o eo, (forall x, o = Some x -> arg_typed F G x) -> bound_ann F G o = true -> eraseo G o = Some eo ->
               sbound eo <> None -> etyo F G o = true).
    { intros o eo Ho Hb Heo Hne. destruct o as [x|]; [|reflexivity]. simpl in *.
      destruct (erase G x) as [ex|] eqn:Ex; [|discriminate]. inversion Heo; subst. simpl in Hne.
      destruct (TypesSpec.spec_tc ex) as [[kx sx]|] eqn:Esx; [|congruence].
      destruct sx; try congruence. destruct (Ho x eq_refl) as [Hx _].
      rewrite (Hx Hb _ _ _ Ex Esx). reflexivity. }
    destruct (sbound elo) as [kb1|] eqn:B1; [|discriminate].
    destruct (sbound ehi) as [kb2|] eqn:B2; [|discriminate].
    destruct (TypesSpec.slice_type_s s1) as [so|] eqn:Esl; [|discriminate].
    inversion Hs; subst.
    assert (Et : t = ty_of st).
    { eapply sty_is_eq; [exact Ha4| |].
      - rewrite erase_ESlice, E1, Elo, Ehi. reflexivity.
      - rewrite spec_tc_ESlice, Es1, B1, B2, Esl. reflexivity. }
    subst t.
    rewrite (IHA Ha1 _ _ _ E1 Es1).
    rewrite (BD lo elo H Ha2 Elo) by (rewrite B1; discriminate).
    rewrite (BD hi ehi H0 Ha3 Ehi) by (rewrite B2; discriminate).
    destruct s1; simpl in Esl; try discriminate; inversion Esl; subst; simpl; rewrite ?ty_eqb_same; reflexivity.
  - (* dot *)
    rename k into key. intros Ha e k st He Hs. cbn [ann_ok] in Ha. cbn [erase] in He. destruct IHA as [IHA _].
    apply andb_true_iff in Ha as [Ha Ha3]. apply andb_true_iff in Ha as [Ha1 Ha2].
    destruct (erase G A) as [e1|] eqn:E1; [|discriminate]. simpl in He. inversion He; subst.
    cbn [TypesSpec.spec_tc] in Hs. destruct (TypesSpec.spec_tc e1) as [[k1 s1]|] eqn:Es1; [|discriminate].
    destruct (TypesSpec.dot_type_s s1) as [so|] eqn:Eop; inversion Hs; subst.
    assert (Et : t = ty_of st).
    { eapply sty_is_eq; [exact Ha3| |].
      - cbn [erase]. rewrite E1. reflexivity.
      - cbn [TypesSpec.spec_tc]. rewrite Es1, Eop. reflexivity. }
    subst t. cbn [ety]. rewrite (IHA Ha1 _ _ _ E1 Es1).
    destruct s1; simpl in Eop; try discriminate; inversion Eop; subst; simpl.
    unfold ty_ann. rewrite ty_eqb_same, ty_value_ty_of, Ha2. reflexivity.
  - (* group *)
    intros Ha e k st He Hs. cbn [ann_ok] in Ha. cbn [erase] in He. destruct IHA as [IHA _].
    destruct (erase G A) as [e1|] eqn:E1; [|discriminate]. simpl in He. inversion He; subst.
    cbn [TypesSpec.spec_tc] in Hs. cbn [ety]. eapply IHA; eauto.
  - (* type assertion *)
    intros Ha e k st He Hs. cbn [ann_ok] in Ha. cbn [erase] in He. destruct IHA as [IHA _].
    apply andb_true_iff in Ha as [Ha1 Ha2].
    destruct (erase G A) as [e1|] eqn:E1; [|discriminate]. destruct (sty_of t) as [s0|] eqn:Est; [|discriminate].
    inversion He; subst. cbn [TypesSpec.spec_tc] in Hs.
    destruct (TypesSpec.spec_tc e1) as [[k1 s1]|] eqn:Es1; [|discriminate].
    destruct s1; try discriminate.
    destruct (negb (TypesSyntax.sty_eqb s0 TypesSyntax.SAny) && TypesSyntax.closed s0) eqn:Ec; inversion Hs; subst.
    pose proof (ty_of_sty_of _ _ Est) as Et. subst t.
    cbn [ety]. rewrite (IHA Ha1 _ _ _ E1 Es1). simpl.
    rewrite assert_spec, Ec, Ha2. reflexivity.
Qed.

(* ====================================================================== *)
(* statements: the contexts in which a value meets an expected type        *)
(* ====================================================================== *)

Lemma ann_sty_ety F G A s : ann_ok F G A = true -> spec_ty_of G A = Some s -> ety F G A = Some (ty_of s).
Proof.
  intros Ha Hs. unfold spec_ty_of in Hs. destruct (erase G A) as [e|] eqn:He; [|discriminate].
  destruct (TypesSpec.spec_tc e) as [[k s']|] eqn:Ht; [|discriminate]. simpl in Hs. inversion Hs; subst.
  exact (proj1 (spec_to_static F G A) Ha e k s He Ht).
Qed.

(* a value flowing into a slot of type t (declared variable, assignment target, return type): it has
   exactly the slot's type, or the slot is any and the value is wrapped *)
Definition sval (F : list funcdef) (G : tyenv) (t : ty) (e : expr) : bool :=
  ty_value t && arg_ann (ann_ok F G) G t e.

Lemma sval_ety F G t e : sval F G t e = true -> ety F G e = Some t.
Proof.
  unfold sval. intros H. apply andb_true_iff in H as [Hv H].
  destruct (arg_conv F G t e (spec_to_static F G e) H) as (ta & Hta & Hok).
  unfold arg_ok in Hok. destruct t; try discriminate;
    apply andb_true_iff in Hok as [Hok _]; apply ty_eqb_true in Hok; subst; exact Hta.
Qed.

(* ... and the specification's assignability rule accepts that flow *)
(* the retyped empty literal of a value slot is the source expression [] / {} , which the
   specification converts to every closed array / map type (and stores into any) *)
Lemma zero_spec_accepts G t e st : zero_lit t e = true -> sty_of t = Some st ->
  exists e', erase G e = Some e' /\
    (exists shown, TypesSpec.spec_check (TypesSyntax.CAssign st) e' = TypesSpec.SAccept st shown) /\
    (exists shown, TypesSpec.spec_check (TypesSyntax.CAssign TypesSyntax.SAny) e' = TypesSpec.SAccept TypesSyntax.SAny shown).
Proof.
  unfold zero_lit. intros H Hst.
  destruct e; try discriminate.
  - destruct es; [|discriminate]. destruct t; try discriminate. exists (TypesSyntax.EArr []). split; [reflexivity|].
    simpl in Hst. destruct (sty_of t) as [u|]; [|discriminate]. inversion Hst; subst st.
    vm_compute. eauto.
  - destruct pairs; [|discriminate]. destruct t; try discriminate. exists (TypesSyntax.EMap []). split; [reflexivity|].
    simpl in Hst. destruct (sty_of t) as [u|]; [|discriminate]. inversion Hst; subst st.
    vm_compute. eauto.
Qed.

Lemma sval_spec_accepts F G t e st :
  sval F G t e = true -> sty_of t = Some st -> TypesSyntax.closed st = true ->
  exists e', erase G e = Some e' /\
             exists shown, TypesSpec.spec_check (TypesSyntax.CAssign st) e' = TypesSpec.SAccept st shown.
Proof.
  unfold sval. intros H Hst Hc. apply andb_true_iff in H as [_ H].
  assert (EXACT : forall a, sty_is G a t = true ->
            exists e', erase G a = Some e' /\ exists k, TypesSpec.spec_tc e' = Some (k, st)).
  { intros a Hs. destruct (sty_is_inv _ _ _ Hs) as (e' & k & s & He & Htc & Ht).
    exists e'. split; [exact He|]. exists k. rewrite Htc. subst t. rewrite sty_of_ty_of in Hst. congruence. }
  assert (ACC : forall e' k, TypesSpec.spec_tc e' = Some (k, st) ->
            exists shown, TypesSpec.spec_check (TypesSyntax.CAssign st) e' = TypesSpec.SAccept st shown).
  { intros e' k Htc. unfold TypesSpec.spec_check, TypesSpec.spec_assign. rewrite Htc.
    assert (TypesSpec.assignable_b k st st = true) as ->; [|eauto].
    unfold TypesSpec.assignable_b. destruct k; [rewrite (proj2 (sty_eqb_eq st st) eq_refl); reflexivity|].
    apply TypesSpecProofs.conv_b_refl. }
  assert (PLAIN : forall a, ann_ok F G a && sty_is G a t && ty_small t = true ->
            exists e', erase G a = Some e' /\
              exists shown, TypesSpec.spec_check (TypesSyntax.CAssign st) e' = TypesSpec.SAccept st shown).
  { intros a Ha. apply andb_true_iff in Ha as [Ha _]. apply andb_true_iff in Ha as [_ Ha].
    destruct (EXACT _ Ha) as (e' & He & k & Htc). exists e'. split; [exact He|]. eapply ACC; eauto. }
  assert (ZERO : ty_decl t && zero_lit t e = true ->
            exists e', erase G e = Some e' /\
              exists shown, TypesSpec.spec_check (TypesSyntax.CAssign st) e' = TypesSpec.SAccept st shown).
  { intros Hz. apply andb_true_iff in Hz as [_ Hz].
    destruct (zero_spec_accepts G t e st Hz Hst) as (e' & He & A & _). eauto. }
  unfold arg_ann in H. destruct t; try discriminate;
    try (apply orb_true_iff in H as [H|H]; [apply PLAIN; exact H|apply ZERO; exact H]).
  (* the slot is any *)
  simpl in Hst. inversion Hst; subst st.
  destruct e as [| | | |a' t'| | | | | | | | | |]; try (apply andb_true_iff in H as [_ H];
         destruct (EXACT _ H) as (e' & He & k & Htc); exists e'; split; [exact He|]; eapply ACC; eauto).
  apply orb_true_iff in H as [H|H].
  - apply andb_true_iff in H as [H _]. apply andb_true_iff in H as [H _]. apply andb_true_iff in H as [_ H].
    destruct (sty_is_inv _ _ _ H) as (e' & k & s & He & Htc & Ht).
    exists e'. cbn [erase]. split; [exact He|].
    unfold TypesSpec.spec_check, TypesSpec.spec_assign. rewrite Htc.
    assert (TypesSpec.assignable_b k TypesSyntax.SAny s = true) as ->; [|eauto].
    unfold TypesSpec.assignable_b. destruct k; [apply orb_true_r|]. destruct s; reflexivity.
  - unfold zero_any in H. apply andb_true_iff in H as [Hz Hk].
    assert (exists u, sty_of t' = Some u) as (u & Hu).
    { destruct t' as [| | | | |v|v| | | |]; try discriminate; destruct v; try discriminate; simpl; eauto. }
    destruct (zero_spec_accepts G t' a' u Hz Hu) as (e' & He & _ & A). exists e'. cbn [erase]. split; [exact He|exact A].
Qed.

(* ---------- assignment targets: the chain of index / dot steps from a variable ---------- *)
(* the written target as the specification's context sees it: root variable type + steps *)
Fixpoint target_of (G : tyenv) (tg : expr) : option (TypesSyntax.sty * list TypesSyntax.tstep) :=
  match tg with
  | EVar n _ => match slookup n G with
                | Some t => match sty_of t with Some s => Some (s, []) | None => None end
                | None => None
                end
  | EIndex _ a i =>
      match target_of G a, erase G i with
      | Some (root, steps), Some i' => Some (root, steps ++ [TypesSyntax.TIdx i'])
      | _, _ => None
      end
  | EDot _ a _ =>
      match target_of G a with
      | Some (root, steps) => Some (root, steps ++ [TypesSyntax.TDot])
      | None => None
      end
  | _ => None
  end.

(* the type the specification's target-chain rule gives the target *)
Definition target_sty (G : tyenv) (tg : expr) : option TypesSyntax.sty :=
  match target_of G tg with
  | Some (root, steps) =>
      match TypesSpec.spec_steps steps with
      | Some ks => TypesSpec.target_chain_s root ks
      | None => None
      end
  | None => None
  end.

Lemma spec_steps_app a b :
  TypesSpec.spec_steps (a ++ b) =
  match TypesSpec.spec_steps a, TypesSpec.spec_steps b with Some x, Some y => Some (x ++ y) | _, _ => None end.
Proof.
  induction a as [|st a IH]; simpl.
  - destruct (TypesSpec.spec_steps b); reflexivity.
  - rewrite IH.
    destruct (match st with
              | TypesSyntax.TIdx i => match TypesSpec.spec_tc i with Some (_, it) => Some (TypesSpec.SKIdx it) | None => None end
              | TypesSyntax.TDot => Some TypesSpec.SKDot | TypesSyntax.TSlice _ => Some TypesSpec.SKSlice | TypesSyntax.TAssert _ => Some TypesSpec.SKAssert end);
      destruct (TypesSpec.spec_steps a); destruct (TypesSpec.spec_steps b); reflexivity.
Qed.

Lemma target_chain_app root a b :
  TypesSpec.target_chain_s root (a ++ b) =
  match TypesSpec.target_chain_s root a with Some t => TypesSpec.target_chain_s t b | None => None end.
Proof.
  revert root; induction a as [|k a IH]; intros root; simpl; [reflexivity|].
  destruct (TypesSpec.target_step_s root k); [apply IH|reflexivity].
Qed.

(* a target the chain rule types is typed the same by the expression rules, and its last step is an
   array or map step (Static's shape condition) *)
Lemma target_sty_spec G : forall tg st, target_sty G tg = Some st ->
  spec_ty_of G tg = Some st /\
  match tg with
  | EVar _ _ | EDot _ _ _ => True
  | EIndex _ a _ => exists u, spec_ty_of G a = Some (TypesSyntax.SArr u) \/ spec_ty_of G a = Some (TypesSyntax.SMap u)
  | _ => False
  end.
Proof.
  unfold target_sty.
  induction tg as [| | |n t0'| | | | | | |tx tg1 IHtg1 tg2 IHtg2| |tx tg IHtg key| |]; intros st H; cbn [target_of] in H; try discriminate.
  - (* variable *)
    destruct (slookup n G) as [t0|] eqn:El; [|discriminate].
    destruct (sty_of t0) as [s0|] eqn:Es; [|discriminate]. simpl in H. inversion H; subst.
    split; [|exact I]. unfold spec_ty_of. cbn [erase]. rewrite El, Es. reflexivity.
  - (* index step *)
    destruct (target_of G tg1) as [[root steps]|] eqn:E1; [|discriminate].
    destruct (erase G tg2) as [i'|] eqn:E2; [|discriminate].
    rewrite spec_steps_app in H. destruct (TypesSpec.spec_steps steps) as [ks|] eqn:Ek; [|discriminate].
    simpl in H. destruct (TypesSpec.spec_tc i') as [[ki it]|] eqn:Ei; [|discriminate].
    rewrite target_chain_app in H. destruct (TypesSpec.target_chain_s root ks) as [ta|] eqn:Ec; [|discriminate].
    destruct (IHtg1 ta eq_refl) as [Ha _]. simpl in H.
    unfold spec_ty_of in *. cbn [erase]. destruct (erase G tg1) as [l'|]; [|discriminate]. rewrite E2.
    cbn [TypesSpec.spec_tc]. destruct (TypesSpec.spec_tc l') as [[kl a]|]; [|discriminate]. simpl in Ha. inversion Ha; subst a.
    rewrite Ei. destruct (TypesSpec.target_step_s ta (TypesSpec.SKIdx it)) as [t'|] eqn:Et; [|discriminate]. inversion H; subst t'.
    destruct ta; try discriminate; destruct it; try discriminate; simpl in Et; inversion Et; subst; simpl; eauto.
  - (* dot step *)
    destruct (target_of G tg) as [[root steps]|] eqn:E1; [|discriminate].
    rewrite spec_steps_app in H. destruct (TypesSpec.spec_steps steps) as [ks|] eqn:Ek; [|discriminate].
    simpl in H. rewrite target_chain_app in H. destruct (TypesSpec.target_chain_s root ks) as [ta|] eqn:Ec; [|discriminate].
    destruct (IHtg ta eq_refl) as [Ha _]. simpl in H.
    unfold spec_ty_of in *. cbn [erase]. destruct (erase G tg) as [l'|]; [|discriminate].
    cbn [TypesSpec.spec_tc option_map]. destruct (TypesSpec.spec_tc l') as [[kl a]|]; [|discriminate]. simpl in Ha. inversion Ha; subst a.
    destruct (TypesSpec.target_step_s ta TypesSpec.SKDot) as [t'|] eqn:Et; [|discriminate]. inversion H; subst t'.
    destruct ta; try discriminate; simpl in Et; inversion Et; subst; simpl; auto.
Qed.

(* ---------- the loop variable of  for x := range e ---------- *)
(* the specification's verdict on the range operand, under the guard of [range_spec] *)
Definition range_guard (s : TypesSyntax.sty) : bool :=
  match s with TypesSyntax.SArr u => TypesSyntax.closed u | TypesSyntax.SNum => false | _ => true end.

Definition srange (s : TypesSyntax.sty) : option ty :=
  if range_guard s then
    match TypesSpec.spec_check TypesSyntax.CRange (TypesSyntax.EVar s) with TypesSpec.SAccept st _ => Some (ty_of st) | TypesSpec.SReject => None end
  else None.

Lemma spec_check_range_tc e k s : TypesSpec.spec_tc e = Some (k, s) ->
  TypesSpec.spec_check TypesSyntax.CRange e = TypesSpec.spec_check TypesSyntax.CRange (TypesSyntax.EVar s).
Proof. intros H. unfold TypesSpec.spec_check. rewrite H. reflexivity. Qed.

Lemma srange_static s t : srange s = Some t -> range_var_ty (ty_of s) = Some t.
Proof.
  unfold srange. destruct (range_guard s) eqn:Eg; [|discriminate]. intros H.
  rewrite <- (range_spec s).
  - destruct (TypesSpec.spec_check TypesSyntax.CRange (TypesSyntax.EVar s)); [|discriminate]. inversion H; reflexivity.
  - destruct s; simpl in *; auto; discriminate.
Qed.

(* ---------- converted literals: the tree wrapAny builds for a constant in a slot of another type ---------- *)
(* [conv F G t A]: A is a tree of slot type t -- either an expression of exactly that type carrying the
   specification's types, or the conversion of a composite literal: the literal (and the
   concatenations, repetitions, groups and slices of literals) retyped t with every element converted
   to the element type; an element converted to any is wrapped, the wrapper recording the type the
   value has on its own *)
Definition is_arr (t : ty) : bool := match t with TArr _ => true | _ => false end.

Fixpoint conv (F : list funcdef) (G : tyenv) (t : ty) (A : expr) {struct A} : bool :=
  let all (u : ty) := fix go (es : list expr) : bool :=
    match es with [] => true | x :: r => conv F G u x && go r end in
  let allp (u : ty) := fix go (ps : list (str * expr)) : bool :=
    match ps with [] => true | (_, x) :: r => conv F G u x && go r end in
  let bnd (o : option expr) : bool :=
    match o with Some x => ann_ok F G x && sty_is G x TNum | None => true end in
  (ann_ok F G A && sty_is G A t && ty_small t)
  || match A with
     | EAny a' t' => is_any t && negb (is_any t') && ty_decl t' && conv F G t' a'
     | EArr t0 es => ty_eqb t0 t && ty_decl t && match t with TArr u => all u es | _ => false end
     | EMap t0 ps =>
         ty_eqb t0 t && ty_decl t && match t with TMap u => allp u ps && keys_nodup (map fst ps) | _ => false end
     | EBin BPlus t0 l r => ty_eqb t0 t && ty_decl t && is_arr t && conv F G t l && conv F G t r
     | EBin BAsterisk t0 l r =>
         ty_eqb t0 t && ty_decl t && is_arr t && conv F G t l && ann_ok F G r && sty_is G r TNum
     | EGroup a => conv F G t a
     | ESlice t0 l lo hi => ty_eqb t0 t && ty_decl t && is_arr t && conv F G t l && bnd lo && bnd hi
     | _ => false
     end.

Section ConvLists.
  Context (F : list funcdef) (G : tyenv) (u : ty).
  Fixpoint convs (es : list expr) : bool :=
    match es with [] => true | x :: r => conv F G u x && convs r end.
  Fixpoint convp (ps : list (str * expr)) : bool :=
    match ps with [] => true | (_, x) :: r => conv F G u x && convp r end.
End ConvLists.
Definition bnd_ann (F : list funcdef) (G : tyenv) (o : option expr) : bool :=
  match o with Some x => ann_ok F G x && sty_is G x TNum | None => true end.

Definition conv_struct (F : list funcdef) (G : tyenv) (t : ty) (A : expr) : bool :=
  match A with
  | EAny a' t' => is_any t && negb (is_any t') && ty_decl t' && conv F G t' a'
  | EArr t0 es => ty_eqb t0 t && ty_decl t && match t with TArr u => convs F G u es | _ => false end
  | EMap t0 ps =>
      ty_eqb t0 t && ty_decl t && match t with TMap u => convp F G u ps && keys_nodup (map fst ps) | _ => false end
  | EBin BPlus t0 l r => ty_eqb t0 t && ty_decl t && is_arr t && conv F G t l && conv F G t r
  | EBin BAsterisk t0 l r =>
      ty_eqb t0 t && ty_decl t && is_arr t && conv F G t l && ann_ok F G r && sty_is G r TNum
  | EGroup a => conv F G t a
  | ESlice t0 l lo hi => ty_eqb t0 t && ty_decl t && is_arr t && conv F G t l && bnd_ann F G lo && bnd_ann F G hi
  | _ => false
  end.

Lemma conv_eq F G t A : conv F G t A = (ann_ok F G A && sty_is G A t && ty_small t) || conv_struct F G t A.
Proof. destruct A; reflexivity. Qed.

Lemma convs_etys F G u : forall es, Forall (fun x => forall t, conv F G t x = true -> ety F G x = Some t) es ->
  convs F G u es = true -> exists ts, etys F G es = Some ts /\ forallb (ty_eqb u) ts = true.
Proof.
  induction 1 as [|x es Hx _ IH]; intros H.
  - exists []. auto.
  - cbn [convs] in H. apply andb_true_iff in H as [H1 H2]. destruct (IH H2) as (ts & Hts & Hall).
    exists (u :: ts). cbn [etys]. rewrite (Hx u H1), Hts. cbn [forallb]. rewrite ty_eqb_same, Hall. auto.
Qed.

Lemma convp_etyps F G u : forall ps,
  Forall (fun p : str * expr => forall t, conv F G t (snd p) = true -> ety F G (snd p) = Some t) ps ->
  convp F G u ps = true -> exists ts, etyps F G ps = Some ts /\ forallb (ty_eqb u) ts = true.
Proof.
  induction 1 as [|[k x] ps Hx _ IH]; intros H.
  - exists []. auto.
  - cbn [convp] in H. apply andb_true_iff in H as [H1 H2]. destruct (IH H2) as (ts & Hts & Hall).
    exists (u :: ts). cbn [etyps]. simpl in Hx. rewrite (Hx u H1), Hts. cbn [forallb]. rewrite ty_eqb_same, Hall. auto.
Qed.

Lemma bnd_etyo F G o : bnd_ann F G o = true -> etyo F G o = true.
Proof.
  destruct o as [x|]; simpl; auto. intros H. apply andb_true_iff in H as [H1 H2].
  rewrite (ann_typed_by_sty F G x TNum (proj1 (spec_to_static F G x)) H1 H2). apply ty_eqb_same.
Qed.

(* a converted tree is Static-typed with the slot's type *)
Theorem conv_ety F G : forall A t, conv F G t A = true -> ety F G A = Some t.
Proof.
  induction A using expr_ind'; intros tz Hcv; rewrite conv_eq in Hcv; apply orb_true_iff in Hcv as [Hcv|Hcv];
    try (apply andb_true_iff in Hcv as [Hcv _]; apply andb_true_iff in Hcv as [Ha Hs];
         exact (ann_typed_by_sty F G _ tz (proj1 (spec_to_static F G _)) Ha Hs));
    try discriminate Hcv; cbn [conv_struct] in Hcv.
  - (* wrapped into any *)
    apply andb_true_iff in Hcv as [Hcv Hc]. apply andb_true_iff in Hcv as [Hcv Hd]. apply andb_true_iff in Hcv as [Hany Hn].
    destruct tz; try discriminate. cbn [ety]. rewrite (IHA t Hc), (ty_decl_ann t Hd), Hn. simpl. rewrite ty_eqb_same. reflexivity.
  - (* array literal *)
    apply andb_true_iff in Hcv as [Hcv Hc]. apply andb_true_iff in Hcv as [He Hd]. apply ty_eqb_true in He. subst t.
    destruct tz; try discriminate. rewrite ety_EArr. rewrite (ty_decl_ann _ Hd).
    destruct es as [|x es]; [reflexivity|].
    destruct (convs_etys F G tz (x :: es) H Hc) as (ts & -> & ->). reflexivity.
  - (* map literal *)
    apply andb_true_iff in Hcv as [Hcv Hc]. apply andb_true_iff in Hcv as [He Hd]. apply ty_eqb_true in He. subst t.
    destruct tz; try discriminate. apply andb_true_iff in Hc as [Hc Hk]. rewrite ety_EMap. rewrite (ty_decl_ann _ Hd).
    destruct ps as [|p ps]; [reflexivity|].
    destruct (convp_etyps F G tz (p :: ps) H Hc) as (ts & -> & ->). rewrite Hk. reflexivity.
  - (* concatenation / repetition *)
    destruct op; try discriminate.
    + apply andb_true_iff in Hcv as [Hcv Hr]. apply andb_true_iff in Hcv as [Hcv Hl]. apply andb_true_iff in Hcv as [Hcv Harr].
      apply andb_true_iff in Hcv as [He Hd]. apply ty_eqb_true in He. subst t.
      cbn [ety]. rewrite (IHA1 tz Hl), (IHA2 tz Hr), (ty_decl_ann _ Hd).
      destruct tz; try discriminate. simpl. unfold opt_ty_eqb. simpl. rewrite ?ty_eqb_same. reflexivity.
    + apply andb_true_iff in Hcv as [Hcv Hs]. apply andb_true_iff in Hcv as [Hcv Ha]. apply andb_true_iff in Hcv as [Hcv Hl].
      apply andb_true_iff in Hcv as [Hcv Harr]. apply andb_true_iff in Hcv as [He Hd]. apply ty_eqb_true in He. subst t.
      cbn [ety]. rewrite (IHA1 tz Hl), (ann_typed_by_sty F G A2 TNum (proj1 (spec_to_static F G A2)) Ha Hs), (ty_decl_ann _ Hd).
      destruct tz; try discriminate. simpl. unfold opt_ty_eqb. simpl. rewrite ?ty_eqb_same. reflexivity.
  - (* slice *)
    apply andb_true_iff in Hcv as [Hcv Hhi]. apply andb_true_iff in Hcv as [Hcv Hlo]. apply andb_true_iff in Hcv as [Hcv Hl].
    apply andb_true_iff in Hcv as [Hcv Harr]. apply andb_true_iff in Hcv as [He Hd]. apply ty_eqb_true in He. subst t.
    rewrite ety_ESlice, (IHA tz Hl), (bnd_etyo _ _ _ Hlo), (bnd_etyo _ _ _ Hhi).
    destruct tz; try discriminate. rewrite ty_eqb_same. reflexivity.
  - (* group *)
    cbn [ety]. apply IHA. exact Hcv.
Qed.

Lemma conv_ty_ann F G : forall A t, conv F G t A = true -> ty_ann t = true.
Proof.
  induction A using expr_ind'; intros tz Hcv; rewrite conv_eq in Hcv; apply orb_true_iff in Hcv as [Hcv|Hcv];
    try (apply andb_true_iff in Hcv as [Hcv Hsm]; apply andb_true_iff in Hcv as [_ Hs];
         destruct (sty_is_inv _ _ _ Hs) as (e' & k' & s' & _ & _ & ->); unfold ty_ann; rewrite ty_value_ty_of, Hsm; reflexivity);
    try discriminate Hcv; cbn [conv_struct] in Hcv.
  - apply andb_true_iff in Hcv as [Hcv _]. apply andb_true_iff in Hcv as [Hcv _]. apply andb_true_iff in Hcv as [Hany _].
    destruct tz; try discriminate. reflexivity.
  - apply andb_true_iff in Hcv as [Hcv _]. apply andb_true_iff in Hcv as [_ Hd]. apply ty_decl_ann; exact Hd.
  - apply andb_true_iff in Hcv as [Hcv _]. apply andb_true_iff in Hcv as [_ Hd]. apply ty_decl_ann; exact Hd.
  - destruct op; try discriminate.
    + apply andb_true_iff in Hcv as [Hcv _]. apply andb_true_iff in Hcv as [Hcv _]. apply andb_true_iff in Hcv as [Hcv _].
      apply andb_true_iff in Hcv as [_ Hd]. apply ty_decl_ann; exact Hd.
    + apply andb_true_iff in Hcv as [Hcv _]. apply andb_true_iff in Hcv as [Hcv _]. apply andb_true_iff in Hcv as [Hcv _].
      apply andb_true_iff in Hcv as [Hcv _]. apply andb_true_iff in Hcv as [_ Hd]. apply ty_decl_ann; exact Hd.
  - apply andb_true_iff in Hcv as [Hcv _]. apply andb_true_iff in Hcv as [Hcv _]. apply andb_true_iff in Hcv as [Hcv _].
    apply andb_true_iff in Hcv as [Hcv _]. apply andb_true_iff in Hcv as [_ Hd]. apply ty_decl_ann; exact Hd.
  - apply IHA. exact Hcv.
Qed.

(* a converted value in a slot: the SPECIFICATION accepts the source expression in a slot of that type
   (and, stored into any, shows the type the wrapper records), and the tree is its conversion *)
Definition spec_slot (G : tyenv) (t : ty) (A : expr) : bool :=
  match erase G A, sty_of t with
  | Some e, Some st =>
      match TypesSpec.spec_check (TypesSyntax.CAssign st) e with
      | TypesSpec.SAccept _ shown =>
          match t, A with TAny, EAny _ t' => ty_eqb (ty_of shown) t' | _, _ => true end
      | TypesSpec.SReject => false
      end
  | _, _ => false
  end.

Definition cval (F : list funcdef) (G : tyenv) (t : ty) (A : expr) : bool := spec_slot G t A && conv F G t A.

Lemma cval_ety F G t A : cval F G t A = true -> ety F G A = Some t.
Proof. unfold cval. intros H. apply andb_true_iff in H as [_ H]. apply conv_ety; exact H. Qed.

Lemma cval_spec_accepts F G t A : cval F G t A = true ->
  exists e st, erase G A = Some e /\ sty_of t = Some st /\
    exists shown, TypesSpec.spec_check (TypesSyntax.CAssign st) e = TypesSpec.SAccept st shown.
Proof.
  unfold cval, spec_slot. intros H. apply andb_true_iff in H as [H _].
  destruct (erase G A) as [e|]; [|discriminate]. destruct (sty_of t) as [st|]; [|discriminate].
  exists e, st. split; [reflexivity|]. split; [reflexivity|].
  unfold TypesSpec.spec_check in *. unfold TypesSpec.spec_assign in *.
  destruct (TypesSpec.spec_tc e) as [[k s]|]; [|discriminate].
  destruct (TypesSpec.assignable_b k st s); [eauto|discriminate].
Qed.

(* arguments of a call statement: as [arg_ann], or a converted value *)
Definition carg (F : list funcdef) (G : tyenv) (p : ty) (a : expr) : bool :=
  arg_ann (ann_ok F G) G p a || match p with TGenArr | TGenMap => false | _ => cval F G p a end.
Fixpoint cargs (F : list funcdef) (G : tyenv) (ps : list ty) (args : list expr) {struct args} : bool :=
  match ps, args with
  | [], [] => true
  | p :: ps', a :: args' => carg F G p a && cargs F G ps' args'
  | _, _ => false
  end.
Fixpoint cvargs (F : list funcdef) (G : tyenv) (v : ty) (args : list expr) : bool :=
  match args with [] => true | a :: r => carg F G v a && cvargs F G v r end.
Definition sig_cv (F : list funcdef) (G : tyenv) (sg : fsig) (args : list expr) : bool :=
  match fs_var sg with
  | Some v => match fs_params sg with [] => cvargs F G v args | _ => false end
  | None => cargs F G (fs_params sg) args
  end.

Lemma carg_ok F G p a : carg F G p a = true -> exists ta, ety F G a = Some ta /\ arg_ok p ta = true.
Proof.
  unfold carg. intros H. apply orb_true_iff in H as [H|H]; [exact (arg_conv F G p a (spec_to_static F G a) H)|].
  assert (Hc : cval F G p a = true) by (destruct p; try discriminate; exact H).
  exists p. split; [apply cval_ety; exact Hc|].
  unfold cval in Hc. apply andb_true_iff in Hc as [_ Hc]. pose proof (conv_ty_ann F G a p Hc) as Ha.
  unfold arg_ok. destruct p; try discriminate H; rewrite ty_eqb_same, Ha; reflexivity.
Qed.

Lemma cargs_ok F G : forall args ps, cargs F G ps args = true ->
  exists ts, etys F G args = Some ts /\ args_ok ps None ts = true.
Proof.
  induction args as [|a args IH]; intros ps Ha; destruct ps as [|p ps]; simpl in Ha; try discriminate.
  - exists []. auto.
  - apply andb_true_iff in Ha as [Ha1 Ha2].
    destruct (carg_ok F G p a Ha1) as (ta & Hta & Hok). destruct (IH ps Ha2) as (ts & Hts & Hoks).
    exists (ta :: ts). cbn [etys]. rewrite Hta, Hts. simpl. rewrite Hok, Hoks. auto.
Qed.

Lemma cvargs_ok F G v : forall args, cvargs F G v args = true ->
  exists ts, etys F G args = Some ts /\ forallb (arg_ok v) ts = true.
Proof.
  induction args as [|a args IH]; intros Ha; simpl in Ha.
  - exists []. auto.
  - apply andb_true_iff in Ha as [Ha1 Ha2].
    destruct (carg_ok F G v a Ha1) as (ta & Hta & Hok). destruct (IH Ha2) as (ts & Hts & Hoks).
    exists (ta :: ts). cbn [etys]. rewrite Hta, Hts. split; [reflexivity|]. cbn [forallb]. rewrite Hok, Hoks. reflexivity.
Qed.

Lemma sig_cv_call F G name sg args :
  lookup_sig F name = Some sg -> sig_cv F G sg args = true -> call_ty F G name args = Some (fs_ret sg).
Proof.
  intros Hl Ha. unfold call_ty. rewrite Hl. unfold sig_cv in Ha. unfold sig_args_ok.
  destruct (fs_var sg) as [v|].
  - destruct (fs_params sg); [|discriminate].
    destruct (cvargs_ok F G v args Ha) as (ts & -> & Hok). rewrite Hok. reflexivity.
  - destruct (cargs_ok F G args (fs_params sg) Ha) as (ts & -> & Hok). rewrite Hok. reflexivity.
Qed.

(* ---------- the statement checker driven by the specification's rules ---------- *)
Definition sis (F : list funcdef) (G : tyenv) (e : expr) (t : ty) : bool := ann_ok F G e && sty_is G e t.
Definition siso (F : list funcdef) (G : tyenv) (o : option expr) (t : ty) : bool :=
  match o with Some x => sis F G x t | None => true end.

Lemma sis_ety F G e t : sis F G e t = true -> ety F G e = Some t.
Proof.
  unfold sis. intros H. apply andb_true_iff in H as [H1 H2].
  eapply ann_typed_by_sty; eauto. apply spec_to_static.
Qed.

(* a value slot: [sval], or the empty literal retyped to the slot's type ( x = []  with x:[]num ) *)
Definition sval0 (F : list funcdef) (G : tyenv) (t : ty) (e : expr) : bool :=
  sval F G t e || (ty_decl t && zero_lit t e) || (ty_value t && cval F G t e).

Lemma sval0_ety F G t e : sval0 F G t e = true -> ety F G e = Some t.
Proof.
  unfold sval0. intros H. apply orb_true_iff in H as [H|H].
  - apply orb_true_iff in H as [H|H]; [apply sval_ety; exact H|].
    apply andb_true_iff in H as [Hd Hz]. apply zero_lit_ety; assumption.
  - apply andb_true_iff in H as [_ H]. apply cval_ety; exact H.
Qed.

Fixpoint swt_stmt (F : list funcdef) (ret : option ty) (inloop : bool) (G : tyenv) (s : stmt) {struct s}
  : option tyenv :=
  let swt_stmts := fix swt_stmts (inloop : bool) (G : tyenv) (l : list stmt) : option tyenv :=
    match l with
    | [] => Some G
    | x :: r => match swt_stmt F ret inloop G x with Some G' => swt_stmts inloop G' r | None => None end
    end in
  match s with
  | SDecl n t e =>
      match G with
      | fr :: G' =>
          if binder_ok n && negb (is_some (sget n fr))
             && ty_decl t && sval0 F G t e
          then Some (((n, t) :: fr) :: G') else None
      | [] => None
      end
  | SAssign target e =>
      match target_sty G target with
      | Some st => if ann_ok F G target && sval0 F G (ty_of st) e then Some G else None
      | None => None
      end
  | SCallStmt name args =>
      match lookup_sig F name with
      | Some sg => if sig_cv F G sg args then Some G else None
      | None => None
      end
  | SReturn None => match ret with Some TNone => Some G | _ => None end
  | SReturn (Some e) =>
      match ret with
      | Some t => if sval0 F G t e then Some G else None
      | None => None
      end
  | SBreak => if inloop then Some G else None
  | SIf conds els =>
      let conds_ok := (fix go (cs : list (expr * list stmt)) : bool :=
        match cs with
        | [] => true
        | (c, body) :: r =>
            sis F (push G) c TBool && is_some (swt_stmts inloop (push G) body) && go r
        end) conds in
      let els_ok := match els with Some body => is_some (swt_stmts inloop (push G) body) | None => true end in
      if conds_ok && els_ok then Some G else None
  | SWhile c body =>
      if sis F (push G) c TBool && is_some (swt_stmts true (push G) body) then Some G else None
  | SFor var vt r body =>
      let G1 := push G in
      let rng : option ty :=
        match r with
        | RStep start stop step =>
            if siso F G1 start TNum && sis F G1 stop TNum && siso F G1 step TNum then Some TNum else None
        | RExpr y =>
            if ann_ok F G1 y then match spec_ty_of G1 y with Some st => srange st | None => None end else None
        end in
      match rng with
      | None => None
      | Some t =>
          let G2 := match var with
                    | Some v => if binder_ok v && ty_eqb vt t && ty_decl vt then Some ([(v, vt)] :: G) else None
                    | None => Some ([] :: G)
                    end in
          match G2 with
          | Some G2 => if is_some (swt_stmts true (push G2) body) then Some G else None
          | None => None
          end
      end
  | SNop => Some G
  end.

Section SwtStmts.
  Context (F : list funcdef) (ret : option ty).
  Fixpoint swt_stmts (inloop : bool) (G : tyenv) (l : list stmt) : option tyenv :=
    match l with
    | [] => Some G
    | x :: r => match swt_stmt F ret inloop G x with Some G' => swt_stmts inloop G' r | None => None end
    end.
  Section Conds.
    Context (il : bool) (G : tyenv).
    Fixpoint sconds (cs : list (expr * list stmt)) : bool :=
      match cs with
      | [] => true
      | (c, body) :: r => sis F (push G) c TBool && is_some (swt_stmts il (push G) body) && sconds r
      end.
    Fixpoint wconds (cs : list (expr * list stmt)) : bool :=
      match cs with
      | [] => true
      | (c, body) :: r =>
          opt_ty_eqb (ety F (push G) c) TBool && is_some (wt_stmts F ret il (push G) body) && wconds r
      end.
  End Conds.
End SwtStmts.

Lemma swt_stmt_SIf F ret il G conds els : swt_stmt F ret il G (SIf conds els) =
  if sconds F ret il G conds &&
     match els with Some body => is_some (swt_stmts F ret il (push G) body) | None => true end
  then Some G else None.
Proof. reflexivity. Qed.
Lemma wt_stmt_SIf' F ret il G conds els : wt_stmt F ret il G (SIf conds els) =
  if wconds F ret il G conds &&
     match els with Some body => is_some (wt_stmts F ret il (push G) body) | None => true end
  then Some G else None.
Proof. reflexivity. Qed.
Lemma swt_stmt_SWhile F ret il G c body : swt_stmt F ret il G (SWhile c body) =
  if sis F (push G) c TBool && is_some (swt_stmts F ret true (push G) body) then Some G else None.
Proof. reflexivity. Qed.
Lemma wt_stmt_SWhile' F ret il G c body : wt_stmt F ret il G (SWhile c body) =
  if opt_ty_eqb (ety F (push G) c) TBool && is_some (wt_stmts F ret true (push G) body) then Some G else None.
Proof. reflexivity. Qed.
Lemma swt_stmt_SFor F ret il G var vt r body : swt_stmt F ret il G (SFor var vt r body) =
      let G1 := push G in
      let rng : option ty :=
        match r with
        | RStep start stop step =>
            if siso F G1 start TNum && sis F G1 stop TNum && siso F G1 step TNum then Some TNum else None
        | RExpr y =>
            if ann_ok F G1 y then match spec_ty_of G1 y with Some st => srange st | None => None end else None
        end in
      match rng with
      | None => None
      | Some t =>
          let G2 := match var with
                    | Some v => if binder_ok v && ty_eqb vt t && ty_decl vt then Some ([(v, vt)] :: G) else None
                    | None => Some ([] :: G)
                    end in
          match G2 with
          | Some G2 => if is_some (swt_stmts F ret true (push G2) body) then Some G else None
          | None => None
          end
      end.
Proof. reflexivity. Qed.
Lemma wt_stmt_SFor' F ret il G var vt r body : wt_stmt F ret il G (SFor var vt r body) =
      let G1 := push G in
      let rng : option ty :=
        match r with
        | RStep start stop step =>
            if etyo F G1 start && opt_ty_eqb (ety F G1 stop) TNum && etyo F G1 step then Some TNum else None
        | RExpr y => match ety F G1 y with Some t => range_var_ty t | None => None end
        end in
      match rng with
      | None => None
      | Some t =>
          let G2 := match var with
                    | Some v => if binder_ok v && ty_eqb vt t && ty_decl vt then Some ([(v, vt)] :: G) else None
                    | None => Some ([] :: G)
                    end in
          match G2 with
          | Some G2 => if is_some (wt_stmts F ret true (push G2) body) then Some G else None
          | None => None
          end
      end.
Proof. reflexivity. Qed.

Definition opt_all (P : stmt -> Prop) (els : option (list stmt)) : Prop :=
  match els with Some b => Forall P b | None => True end.

Section StmtInd.
  Context (P : stmt -> Prop).
  Context (HDecl : forall n t e, P (SDecl n t e)) (HAssign : forall a e, P (SAssign a e))
          (HCall : forall n a, P (SCallStmt n a)) (HRet : forall e, P (SReturn e)) (HBreak : P SBreak)
          (HIf : forall conds els, Forall (fun cb => Forall P (snd cb)) conds ->
                   opt_all P els -> P (SIf conds els))
          (HWhile : forall c body, Forall P body -> P (SWhile c body))
          (HFor : forall v vt r body, Forall P body -> P (SFor v vt r body))
          (HNop : P SNop).
  Fixpoint stmt_ind' (s : stmt) : P s :=
    let lind := fix go (l : list stmt) : Forall P l :=
      match l with [] => Forall_nil _ | x :: r => Forall_cons _ (stmt_ind' x) (go r) end in
    match s with
    | SDecl n t e => HDecl n t e
    | SAssign a e => HAssign a e
    | SCallStmt n a => HCall n a
    | SReturn e => HRet e
    | SBreak => HBreak
    | SIf conds els =>
        HIf conds els
          ((fix go (cs : list (expr * list stmt)) : Forall (fun cb => Forall P (snd cb)) cs :=
              match cs with
              | [] => Forall_nil _
              | cb :: r => Forall_cons cb (match cb as cb' return Forall P (snd cb') with (c, b) => lind b end) (go r)
              end) conds)
          (match els as els' return opt_all P els' with Some b => lind b | None => I end)
    | SWhile c body => HWhile c body (lind body)
    | SFor v vt r body => HFor v vt r body (lind body)
    | SNop => HNop
    end.
End StmtInd.

Definition stmt_conv (F : list funcdef) (s : stmt) : Prop :=
  forall ret il G G', swt_stmt F ret il G s = Some G' -> wt_stmt F ret il G s = Some G'.

Lemma stmts_conv F l : Forall (stmt_conv F) l ->
  forall ret il G G', swt_stmts F ret il G l = Some G' -> wt_stmts F ret il G l = Some G'.
Proof.
  induction 1 as [|x l Hx Hl IH]; intros ret il G G' Hs; simpl in *; [exact Hs|].
  destruct (swt_stmt F ret il G x) as [G1|] eqn:E; [|discriminate].
  rewrite (Hx _ _ _ _ E). apply IH; exact Hs.
Qed.

Lemma stmts_conv_some F l : Forall (stmt_conv F) l ->
  forall ret il G, is_some (swt_stmts F ret il G l) = true -> is_some (wt_stmts F ret il G l) = true.
Proof.
  intros Hl ret il G H. destruct (swt_stmts F ret il G l) as [G'|] eqn:E; [|discriminate].
  rewrite (stmts_conv F l Hl _ _ _ _ E). reflexivity.
Qed.

Lemma all_arg_typed F G (args : list expr) : Forall (arg_typed F G) args.
Proof. apply Forall_forall. intros a _. apply spec_to_static. Qed.

Lemma sig_ann_call F G name sg args :
  lookup_sig F name = Some sg -> sig_ann (ann_ok F G) G sg args = true ->
  call_ty F G name args = Some (fs_ret sg).
Proof.
  intros Hl Ha. unfold call_ty. rewrite Hl. unfold sig_ann in Ha. unfold sig_args_ok.
  destruct (fs_var sg) as [v|].
  - destruct (fs_params sg); [|discriminate].
    destruct (vargs_conv F G v args (all_arg_typed F G args) Ha) as (ts & -> & Hok). rewrite Hok. reflexivity.
  - destruct (args_conv F G args (fs_params sg) (all_arg_typed F G args) Ha) as (ts & -> & Hok). rewrite Hok. reflexivity.
Qed.

Lemma opt_ty_eqb_refl t : opt_ty_eqb (Some t) t = true.
Proof. simpl. apply ty_eqb_same. Qed.

Lemma siso_etyo F G o : siso F G o TNum = true -> etyo F G o = true.
Proof. destruct o; simpl; auto. intros H. rewrite (sis_ety _ _ _ _ H). apply opt_ty_eqb_refl. Qed.

Theorem swt_stmt_wt F : forall s, stmt_conv F s.
Proof.
  induction s as [n t e|a e|n a|e| |conds els Hc He|c body Hb|v vt r body Hb|] using stmt_ind'; intros ret il G G' H.
  - (* declaration *)
    cbn [swt_stmt] in H. cbn [wt_stmt]. destruct G as [|fr G0]; [discriminate|].
    match type of H with (if ?c then _ else _) = _ => destruct c eqn:Ec; [|discriminate] end.
    apply andb_true_iff in Ec as [Ec Ev]. rewrite Ec. simpl.
    apply andb_true_iff in Ec as [_ Ed].
    assert (ety F (fr :: G0) e = Some t) as -> by (apply sval0_ety; exact Ev).
    rewrite opt_ty_eqb_refl. exact H.
  - (* assignment *)
    cbn [swt_stmt] in H. cbn [wt_stmt].
    destruct (target_sty G a) as [st|] eqn:Et; [|discriminate].
    match type of H with (if ?c then _ else _) = _ => destruct c eqn:Ec; [|discriminate] end.
    apply andb_true_iff in Ec as [Ea Ev].
    destruct (target_sty_spec G a st Et) as [Hs Hshape].
    rewrite (ann_sty_ety F G a st Ea Hs), (sval0_ety F G _ _ Ev), ty_eqb_same, andb_true_r.
    destruct a; try contradiction; try exact H.
    destruct Hshape as (u & Hu). cbn [ann_ok] in Ea.
    apply andb_true_iff in Ea as [Ea _]. apply andb_true_iff in Ea as [Ea _]. apply andb_true_iff in Ea as [Ea _].
    destruct Hu as [Hu|Hu]; rewrite (ann_sty_ety F G a1 _ Ea Hu); exact H.
  - (* call statement *)
    cbn [swt_stmt] in H. cbn [wt_stmt].
    destruct (lookup_sig F n) as [sg|] eqn:El; [|discriminate].
    destruct (sig_cv F G sg a) eqn:Ea; [|discriminate].
    rewrite (sig_cv_call F G n sg a El Ea). exact H.
  - (* return *)
    cbn [swt_stmt] in H. cbn [wt_stmt]. destruct e as [e|]; [|exact H].
    destruct ret as [t|]; [|discriminate].
    destruct (sval0 F G t e) eqn:Ev; [|discriminate].
    rewrite (sval0_ety F G t e Ev), opt_ty_eqb_refl.
    assert (is_none t = false) as ->; [|exact H].
    unfold sval0, sval, ty_decl in Ev. destruct t; try reflexivity. discriminate Ev.
  - exact H.
  - (* if *)
    rewrite swt_stmt_SIf in H. rewrite wt_stmt_SIf'.
    match type of H with (if ?c then _ else _) = _ => destruct c eqn:Ec; [|discriminate] end.
    apply andb_true_iff in Ec as [Ec Ee].
    assert (wconds F ret il G conds = true) as ->.
    { clear -Hc Ec. induction Hc as [|[c b] r Hb Hr IH]; [reflexivity|]. simpl in *.
      apply andb_true_iff in Ec as [Ec Ec3]. apply andb_true_iff in Ec as [Ec1 Ec2].
      rewrite (sis_ety _ _ _ _ Ec1), opt_ty_eqb_refl, (stmts_conv_some F b Hb _ _ _ Ec2), (IH Ec3). reflexivity. }
    destruct els as [b|]; [|exact H]. simpl in He. rewrite (stmts_conv_some F b He _ _ _ Ee). exact H.
  - (* while *)
    rewrite swt_stmt_SWhile in H. rewrite wt_stmt_SWhile'.
    match type of H with (if ?c then _ else _) = _ => destruct c eqn:Ec; [|discriminate] end.
    apply andb_true_iff in Ec as [Ec1 Ec2].
    rewrite (sis_ety _ _ _ _ Ec1), opt_ty_eqb_refl, (stmts_conv_some F body Hb _ _ _ Ec2). exact H.
  - (* for *)
    rewrite swt_stmt_SFor in H. rewrite wt_stmt_SFor'. cbv zeta in *.
    match type of H with match ?x with _ => _ end = _ => destruct x as [t|] eqn:Er; [|discriminate] end.
    match goal with |- match ?x with _ => _ end = _ => assert (x = Some t) as -> end.
    { destruct r as [start stop step|y].
      - match type of Er with (if ?c then _ else _) = _ => destruct c eqn:Ec; [|discriminate] end.
        apply andb_true_iff in Ec as [Ec Ec3]. apply andb_true_iff in Ec as [Ec1 Ec2].
        rewrite (siso_etyo _ _ _ Ec1), (siso_etyo _ _ _ Ec3), (sis_ety _ _ _ _ Ec2), opt_ty_eqb_refl. exact Er.
      - destruct (ann_ok F (push G) y) eqn:Ea; [|discriminate].
        destruct (spec_ty_of (push G) y) as [st|] eqn:Es; [|discriminate].
        rewrite (ann_sty_ety F _ y st Ea Es). apply srange_static; exact Er. }
    match type of H with match ?x with _ => _ end = _ => destruct x as [G2|]; [|discriminate] end.
    match type of H with (if ?c then _ else _) = _ => destruct c eqn:Ec; [|discriminate] end.
    rewrite (stmts_conv_some F body Hb _ _ _ Ec). exact H.
  - exact H.
Qed.

(* ---------- functions, handlers, programs ---------- *)
(* the structural checks are Static's own (binders, parameters, signatures, break inside a loop, every
   path of a typed function returns); only the typing of the contexts is replaced by the specification's *)
Definition swt_func (F : list funcdef) (globals : sframe) (fd : funcdef) : bool :=
  let ps := fn_params fd in
  let vp := match fn_variadic fd with Some (n, t) => [(n, TArr t)] | None => [] end in
  forallb param_ok (ps ++ vp) && names_distinct (map fst (ps ++ vp))
  && (match fn_variadic fd with Some _ => match ps with [] => true | _ => false end | None => true end)
  && (is_none (fn_ret fd) || ty_decl (fn_ret fd))
  && negb (is_some (builtin_sig (fn_name fd)))
  && is_some (swt_stmts F (Some (fn_ret fd)) false [params_frame (ps ++ vp); globals] (fn_body fd))
  && (is_none (fn_ret fd) || always_returns (fn_body fd)).

Definition swt_handler (F : list funcdef) (globals : sframe) (h : handler) : bool :=
  match assoc_str (h_name h) event_sigs with
  | None => false
  | Some ts =>
      (match h_params h with [] => true | ps => tys_eqb (map snd ps) ts end)
      && forallb param_ok (h_params h) && names_distinct (map fst (h_params h))
      && is_some (swt_stmts F (Some TNone) false [params_frame (h_params h); globals] (h_body h))
  end.

Definition swt_top (P : program) : option sframe :=
  match swt_stmts (p_funcs P) None false [global_frame0] (p_stmts P) with
  | Some [g] => Some g
  | _ => None
  end.

Definition swt_program (P : program) : bool :=
  match swt_top P with
  | Some g => forallb (swt_func (p_funcs P) g) (p_funcs P) && forallb (swt_handler (p_funcs P) g) (p_handlers P)
  | None => false
  end.

Lemma all_stmt_conv F l : Forall (stmt_conv F) l.
Proof. apply Forall_forall. intros s _. apply swt_stmt_wt. Qed.

Lemma swt_func_wt F g fd : swt_func F g fd = true -> wt_func F g fd = true.
Proof.
  unfold swt_func, wt_func. intros H.
  apply andb_true_iff in H as [H H7]. apply andb_true_iff in H as [H H6].
  rewrite H, H7. rewrite (stmts_conv_some F _ (all_stmt_conv F _) _ _ _ H6). reflexivity.
Qed.

Lemma swt_handler_wt F g h : swt_handler F g h = true -> wt_handler F g h = true.
Proof.
  unfold swt_handler, wt_handler. destruct (assoc_str (h_name h) event_sigs); [|auto]. intros H.
  apply andb_true_iff in H as [H H4].
  rewrite H. rewrite (stmts_conv_some F _ (all_stmt_conv F _) _ _ _ H4). reflexivity.
Qed.

Lemma forallb_impl {A} (f g : A -> bool) l : (forall x, f x = true -> g x = true) -> forallb f l = true -> forallb g l = true.
Proof. intros Hfg. induction l; simpl; auto. intros H. apply andb_true_iff in H as [H1 H2]. rewrite (Hfg _ H1), (IHl H2). reflexivity. Qed.

(* a program all of whose contexts the specification's rules accept (on the tree annotated with the
   specification's types) and that passes the structural checks is accepted by Static's checker *)
Theorem swt_program_wt P : swt_program P = true -> wt_program P = true.
Proof.
  unfold swt_program, wt_program, swt_top, wt_top. intros H.
  destruct (swt_stmts (p_funcs P) None false [global_frame0] (p_stmts P)) as [G'|] eqn:E; [|discriminate].
  rewrite (stmts_conv _ _ (all_stmt_conv _ _) _ _ _ _ E).
  destruct G' as [|g [|? ?]]; try discriminate.
  apply andb_true_iff in H as [H1 H2].
  rewrite (forallb_impl _ _ _ (swt_func_wt _ _) H1), (forallb_impl _ _ _ (swt_handler_wt _ _) H2). reflexivity.
Qed.

(* ---------- every context condition of [swt_stmt] is a case the SPECIFICATION accepts ---------- *)
Lemma defaults_closed s : TypesSyntax.closed s = true -> TypesSpec.defaults s = s.
Proof. induction s; simpl; intros H; try reflexivity; try discriminate; f_equal; auto. Qed.

(* inferred declaration  x := e  *)
Lemma decl_spec_accepts F G t e : sis F G e t = true -> ty_decl t = true ->
  exists e' st, erase G e = Some e' /\ ty_of st = t /\ TypesSpec.spec_check TypesSyntax.CDecl e' = TypesSpec.SAccept st st.
Proof.
  unfold sis. intros H Hd. apply andb_true_iff in H as [_ H].
  destruct (sty_is_inv _ _ _ H) as (e' & k & s & He & Htc & Ht). exists e', s. split; [exact He|]. split; [auto|].
  unfold TypesSpec.spec_check. rewrite Htc. rewrite defaults_closed; [reflexivity|].
  rewrite closed_proper, <- Ht. unfold ty_decl in Hd. apply andb_true_iff in Hd as [Hd _]. exact Hd.
Qed.

(* condition of if / while *)
Lemma cond_spec_accepts F G c : sis F G c TBool = true ->
  exists e', erase G c = Some e' /\ TypesSpec.spec_check TypesSyntax.CCond e' = TypesSpec.SAccept TypesSyntax.SBool TypesSyntax.SBool.
Proof.
  unfold sis. intros H. apply andb_true_iff in H as [_ H].
  destruct (sty_is_inv _ _ _ H) as (e' & k & s & He & Htc & Ht). exists e'. split; [exact He|].
  unfold TypesSpec.spec_check. rewrite Htc. destruct s; try discriminate. reflexivity.
Qed.

(* range operand *)
Lemma range_spec_accepts G y st t : spec_ty_of G y = Some st -> srange st = Some t ->
  exists e' st', erase G y = Some e' /\ ty_of st' = t /\ TypesSpec.spec_check TypesSyntax.CRange e' = TypesSpec.SAccept st' st'.
Proof.
  unfold spec_ty_of, srange. destruct (erase G y) as [e'|]; [|discriminate].
  destruct (TypesSpec.spec_tc e') as [[k s]|] eqn:Htc; [|discriminate]. cbn [option_map snd]. intros Hs. inversion Hs; subst s.
  destruct (range_guard st); [|discriminate]. rewrite <- (spec_check_range_tc e' k st Htc).
  destruct (TypesSpec.spec_check TypesSyntax.CRange e') as [a b|] eqn:Ec; [|discriminate]. intros Ht. inversion Ht; subst.
  exists e', a. split; [reflexivity|]. split; [reflexivity|].
  rewrite Ec. unfold TypesSpec.spec_check in Ec. rewrite Htc in Ec. destruct st; inversion Ec; reflexivity.
Qed.

(* assignment to a target chain  v<steps> = e  *)
Lemma assign_to_spec_accepts F G tg st e :
  target_sty G tg = Some st -> TypesSyntax.closed st = true -> sval F G (ty_of st) e = true ->
  exists root steps e', target_of G tg = Some (root, steps) /\ erase G e = Some e' /\
    exists shown, TypesSpec.spec_check (TypesSyntax.CAssignTo root steps) e' = TypesSpec.SAccept st shown.
Proof.
  unfold target_sty. destruct (target_of G tg) as [[root steps]|]; [|discriminate].
  destruct (TypesSpec.spec_steps steps) as [ks|] eqn:Ek; [|discriminate]. intros Hc Hcl Hv.
  destruct (sval_spec_accepts F G (ty_of st) e st Hv (sty_of_ty_of st) Hcl) as (e' & He & shown & Hacc).
  exists root, steps, e'. split; [reflexivity|]. split; [exact He|]. exists shown.
  unfold TypesSpec.spec_check in *. rewrite Ek, Hc. exact Hacc.
Qed.

(* arguments of generic built-in parameters *)
Lemma generic_arr_spec_accepts F G a : arg_ann (ann_ok F G) G TGenArr a = true ->
  exists e' st, erase G a = Some e' /\ TypesSpec.spec_check TypesSyntax.CGenericArr e' = TypesSpec.SAccept st st.
Proof.
  unfold arg_ann, spec_ty_of. intros H. apply andb_true_iff in H as [_ H].
  destruct (erase G a) as [e'|]; [|discriminate]. destruct (TypesSpec.spec_tc e') as [[k s]|] eqn:Htc; [|discriminate].
  simpl in H. apply andb_true_iff in H as [H _]. exists e', s. split; [reflexivity|].
  unfold TypesSpec.spec_check. rewrite Htc, H. reflexivity.
Qed.
Lemma generic_map_spec_accepts F G a : arg_ann (ann_ok F G) G TGenMap a = true ->
  exists e' st, erase G a = Some e' /\ TypesSpec.spec_check TypesSyntax.CGenericMap e' = TypesSpec.SAccept st st.
Proof.
  unfold arg_ann, spec_ty_of. intros H. apply andb_true_iff in H as [_ H].
  destruct (erase G a) as [e'|]; [|discriminate]. destruct (TypesSpec.spec_tc e') as [[k s]|] eqn:Htc; [|discriminate].
  simpl in H. apply andb_true_iff in H as [H _]. exists e', s. split; [reflexivity|].
  unfold TypesSpec.spec_check. rewrite Htc, H. reflexivity.
Qed.

(* an assignment to a target chain is judged like an assignment to a variable of the chain's type *)
Lemma assign_to_as_assign G tg st root steps e' :
  target_of G tg = Some (root, steps) -> target_sty G tg = Some st ->
  TypesSpec.spec_check (TypesSyntax.CAssignTo root steps) e' = TypesSpec.spec_check (TypesSyntax.CAssign st) e'.
Proof.
  unfold target_sty. intros -> H. destruct (TypesSpec.spec_steps steps) as [ks|] eqn:Ek; [|discriminate].
  unfold TypesSpec.spec_check. rewrite Ek, H. reflexivity.
Qed.
