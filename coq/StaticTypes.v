(* StaticTypes.v — the two Gallina descriptions of evy's static typing, connected:
     Static.v      the certificate checker [wt] on the ANNOTATED tree the parser exports
                   (proved sound w.r.t. the evaluator model in SemSound.v), and
     TypesSpec.v   the declarative typing rules written from docs/spec.md, whose executable
                   renderings (spec_tc, spec_check, op_type, …) b-c04 proved equivalent, rule by rule,
                   to the implementation model Types.v (accepts, matches, validateBinaryType, …).
   The translation [erase] forgets what the parser added to the source: type annotations and Any
   wrappers; variables are typed by the environment on both sides. *)
From Coq Require Import List Bool NArith ZArith Lia.
From EvyV Require Import Base Ast Sem Static.
From EvyV Require TypesSyntax TypesSpec TypesSpecProofs Types TypesProofs.
Import ListNotations.

Module S := TypesSyntax.
Module Sp := TypesSpec.

(* ---------- types ---------- *)
(* Ast.ty has three parser-internal leaves the source language cannot name (none, the generic
   parameter types); the specification's [sty] has none of them *)
Fixpoint sty_of (t : ty) : option S.sty :=
  match t with
  | TNum => Some S.SNum | TStr => Some S.SString | TBool => Some S.SBool | TAny => Some S.SAny
  | TArr u => option_map S.SArr (sty_of u)
  | TMap u => option_map S.SMap (sty_of u)
  | TEmptyArr => Some S.SEmptyArr | TEmptyMap => Some S.SEmptyMap
  | TNone | TGenArr | TGenMap => None
  end.

Fixpoint ty_of (s : S.sty) : ty :=
  match s with
  | S.SNum => TNum | S.SString => TStr | S.SBool => TBool | S.SAny => TAny
  | S.SArr u => TArr (ty_of u) | S.SMap u => TMap (ty_of u)
  | S.SEmptyArr => TEmptyArr | S.SEmptyMap => TEmptyMap
  end.

Lemma sty_of_ty_of s : sty_of (ty_of s) = Some s.
Proof. induction s; simpl; try reflexivity; rewrite IHs; reflexivity. Qed.

Lemma ty_of_sty_of t s : sty_of t = Some s -> ty_of s = t.
Proof.
  revert s; induction t; simpl; intros s H; try discriminate; try (inversion H; reflexivity);
    destruct (sty_of t) as [u|]; simpl in H; inversion H; subst; simpl; f_equal; auto.
Qed.

Lemma sty_of_value t : ty_value t = true <-> exists s, sty_of t = Some s.
Proof.
  induction t; simpl; split; intros H; try (eexists; reflexivity); try reflexivity;
    try discriminate; try (destruct H as (s & H); discriminate).
  - apply IHt in H as (s & ->). simpl; eauto.
  - destruct H as (s & H). apply IHt. destruct (sty_of t); [eauto|discriminate].
  - apply IHt in H as (s & ->). simpl; eauto.
  - destruct H as (s & H). apply IHt. destruct (sty_of t); [eauto|discriminate].
Qed.

Definition sty_eqb_eq := TypesSpecProofs.sty_eqb_eq.
Definition sty_eqb_refl := TypesSpecProofs.sty_eqb_refl.

Lemma ty_eqb_true a b : ty_eqb a b = true -> a = b.
Proof. revert b; induction a; destruct b; simpl; intros H; try discriminate; auto; f_equal; auto. Qed.

Lemma ty_eqb_same a : ty_eqb a a = true.
Proof. induction a; simpl; auto. Qed.

(* a type the source can write = a closed specification type *)
Lemma closed_proper s : S.closed s = ty_proper (ty_of s).
Proof. induction s; simpl; auto. Qed.

(* ---------- operators ---------- *)
Definition binop_of (op : binop) : S.binop :=
  match op with
  | BPlus => S.OpPlus | BMinus => S.OpMinus | BSlash => S.OpSlash | BAsterisk => S.OpAsterisk
  | BPercent => S.OpPercent | BOr => S.OpOr | BAnd => S.OpAnd | BEq => S.OpEq | BNotEq => S.OpNotEq
  | BLt => S.OpLt | BGt => S.OpGt | BLtEq => S.OpLtEq | BGtEq => S.OpGtEq
  end.

Definition unop_of (op : unop) : S.unop := match op with UMinus => S.UMinus | UBang => S.UBang end.

(* operands of == / != : Static's [ty_compat] is the specification's [unify] succeeding *)
Lemma compat_unify : forall a b, ty_compat (ty_of a) (ty_of b) = true <-> Sp.unify a b <> None.
Proof.
  induction a; destruct b; simpl; split; intros H; try discriminate; try congruence; try reflexivity;
    try (exfalso; apply H; reflexivity).
  - destruct (S.sty_eqb a b); [discriminate|]. apply IHa in H. destruct (Sp.unify a b); [discriminate|congruence].
  - destruct (S.sty_eqb a b) eqn:E; [apply sty_eqb_eq in E; subst; apply IHa; rewrite TypesSpecProofs.unify_refl; discriminate|].
    apply IHa. destruct (Sp.unify a b); [discriminate|]. simpl in H. congruence.
  - destruct (S.sty_eqb a b); [discriminate|]. apply IHa in H. destruct (Sp.unify a b); [discriminate|congruence].
  - destruct (S.sty_eqb a b) eqn:E; [apply sty_eqb_eq in E; subst; apply IHa; rewrite TypesSpecProofs.unify_refl; discriminate|].
    apply IHa. destruct (Sp.unify a b); [discriminate|]. simpl in H. congruence.
Qed.

Lemma ty_of_inj a b : ty_of a = ty_of b -> a = b.
Proof. intros H. pose proof (sty_of_ty_of a) as Ha. rewrite H, sty_of_ty_of in Ha. congruence. Qed.

(* ---------- the operator table ---------- *)
(* Static's acceptance of a binary node annotated t over operand types a, b *)
Definition bin_ok (op : binop) (a b t : ty) : bool := opt_ty_eqb (bin_ty op a b) t || bin_empty op a b t.

(* forward: the result type Static computes is the one the specification's table gives *)
Theorem bin_ty_spec op a b t :
  bin_ty op (ty_of a) (ty_of b) = Some t ->
  exists s, Sp.op_type (binop_of op) a b = Some s /\ t = ty_of s.
Proof.
  intros H.
  destruct op; simpl binop_of;
    try (destruct a, b; simpl in H; try discriminate; inversion H; subst; eexists; split; reflexivity).
  - (* + *)
    destruct a, b; simpl in H; try discriminate;
      try (inversion H; subst; eexists; split; reflexivity).
    + destruct (ty_eqb (ty_of a) (ty_of b)) eqn:E; [|discriminate]. apply ty_eqb_true, ty_of_inj in E; subst b.
      inversion H; subst. exists (S.SArr a). split; [|reflexivity].
      unfold Sp.op_type. simpl. rewrite sty_eqb_refl. reflexivity.
  - (* == *)
    simpl in H. destruct (ty_compat (ty_of a) (ty_of b)) eqn:E; [|discriminate]. inversion H; subst.
    apply compat_unify in E. exists S.SBool. split; [|reflexivity].
    unfold Sp.op_type. simpl. destruct (Sp.unify a b); [reflexivity|congruence].
  - simpl in H. destruct (ty_compat (ty_of a) (ty_of b)) eqn:E; [|discriminate]. inversion H; subst.
    apply compat_unify in E. exists S.SBool. split; [|reflexivity].
    unfold Sp.op_type. simpl. destruct (Sp.unify a b); [reflexivity|congruence].
Qed.

(* converse: where the specification's table gives a type Static accepts the node annotated with
   it, PROVIDED array concatenation unifies its operands only at the top ([shallow]): Static types
   a + b when a = b or one of them is exactly the untyped [].  The guard is needed: see
   [bin_guard_needed] (the program  [[1]] + [[]] ). *)
Definition shallow (op : binop) (a b : S.sty) : Prop :=
  op = BPlus -> Sp.is_array_b a = true -> a = b \/ a = S.SEmptyArr \/ b = S.SEmptyArr.

Theorem op_type_static op a b s :
  Sp.op_type (binop_of op) a b = Some s -> shallow op a b ->
  bin_ok op (ty_of a) (ty_of b) (ty_of s) = true.
Proof.
  intros H Hsh. unfold bin_ok.
  destruct op; simpl binop_of in H;
    try (destruct a, b; simpl in H; try discriminate; inversion H; subst; reflexivity).
  - (* + *)
    destruct a, b; simpl in H; try discriminate; try (inversion H; subst; reflexivity).
    + destruct (Hsh eq_refl eq_refl) as [E|[E|E]]; try discriminate. inversion E; subst b.
      unfold Sp.op_type in H. simpl in H. rewrite sty_eqb_refl in H. inversion H; subst.
      simpl. rewrite ty_eqb_same. simpl. rewrite ty_eqb_same. reflexivity.
    + unfold Sp.op_type in H; simpl in H. inversion H; subst. simpl. rewrite ty_eqb_same. reflexivity.
    + unfold Sp.op_type in H; simpl in H. inversion H; subst. simpl. rewrite ty_eqb_same. reflexivity.
  - (* * *)
    destruct a, b; simpl in H; try discriminate; inversion H; subst; simpl; try rewrite ty_eqb_same; reflexivity.
  - (* == *)
    unfold Sp.op_type in H. simpl in H. destruct (Sp.unify a b) eqn:E; [|discriminate]. inversion H; subst.
    assert (Hc : ty_compat (ty_of a) (ty_of b) = true) by (apply compat_unify; congruence).
    simpl. rewrite Hc. reflexivity.
  - unfold Sp.op_type in H. simpl in H. destruct (Sp.unify a b) eqn:E; [|discriminate]. inversion H; subst.
    assert (Hc : ty_compat (ty_of a) (ty_of b) = true) by (apply compat_unify; congruence).
    simpl. rewrite Hc. reflexivity.
Qed.

(* the guard is exact: the specification (and the Go parser) type  [[1]] + [[]]  as [][]num,
   Static does not (the evaluator would store an untyped-[] cell in a [][]num array) *)
Lemma bin_guard_needed :
  let a := S.SArr (S.SArr S.SNum) in let b := S.SArr S.SEmptyArr in
  Sp.op_type S.OpPlus a b = Some a /\ bin_ok BPlus (ty_of a) (ty_of b) (ty_of a) = false.
Proof. split; reflexivity. Qed.

(* unary operators, index, slice, dot, type assertion: the same tables *)
Lemma unop_spec op a : 
  match op, ty_of a with UMinus, TNum => Some TNum | UBang, TBool => Some TBool | _, _ => None end
  = option_map ty_of (Sp.unop_type (unop_of op) a).
Proof. destruct op, a; reflexivity. Qed.

Definition static_index (a b : ty) : option ty :=
  match a, b with
  | TArr u, TNum => Some u | TStr, TNum => Some TStr | TMap u, TStr => Some u | _, _ => None
  end.
Lemma index_spec a b : static_index (ty_of a) (ty_of b) = option_map ty_of (Sp.index_type_s a b).
Proof. destruct a, b; reflexivity. Qed.

Definition static_slice (a : ty) : option ty :=
  match a with TArr _ | TEmptyArr | TStr => Some a | _ => None end.
Lemma slice_spec a : static_slice (ty_of a) = option_map ty_of (Sp.slice_type_s a).
Proof. destruct a; reflexivity. Qed.

Definition static_dot (a : ty) : option ty := match a with TMap u => Some u | _ => None end.
Lemma dot_spec a : static_dot (ty_of a) = option_map ty_of (Sp.dot_type_s a).
Proof. destruct a; reflexivity. Qed.

(* type assertion: Static's side condition is the specification's AssertOk plus the nesting bound *)
Lemma assert_spec t :
  negb (is_any (ty_of t)) && ty_decl (ty_of t) =
  negb (S.sty_eqb t S.SAny) && S.closed t && ty_small (ty_of t).
Proof. unfold ty_decl. rewrite <- closed_proper. destruct t; simpl; try reflexivity. Qed.

(* assignment target steps *)
Lemma target_step_spec_static t k :
  Sp.target_step_s t k =
  match t, k with
  | S.SArr s, Sp.SKIdx S.SNum => Some s
  | S.SMap s, Sp.SKIdx S.SString => Some s
  | S.SMap s, Sp.SKDot => Some s
  | _, _ => None
  end.
Proof. reflexivity. Qed.

(* the loop variable of  for x := range e : equal except that the specification (like the parser)
   gives the DEFAULTED element type, Static the element type itself; they coincide on closed
   element types *)
Lemma range_spec a :
  match a with S.SArr u => S.closed u = true | S.SNum => False (* a step range: RStep, not RExpr *) | _ => True end ->
  option_map ty_of
    (match Sp.spec_check S.CRange (S.EVar a) with Sp.SAccept st _ => Some st | Sp.SReject => None end)
  = range_var_ty (ty_of a).
Proof.
  destruct a as [| | | |u|u| |]; simpl; auto; try contradiction. intros Hc. f_equal.
  clear -Hc. induction u; simpl in *; try reflexivity; try discriminate; f_equal; auto.
Qed.

Lemma range_guard_needed :
  Sp.spec_check S.CRange (S.EVar (S.SArr S.SEmptyArr)) = Sp.SAccept (S.SArr S.SAny) (S.SArr S.SAny) /\
  range_var_ty (ty_of (S.SArr S.SEmptyArr)) = Some TEmptyArr.
Proof. split; reflexivity. Qed.
