(* LexerProofs.v - lemmas about the lexer model (coq/Lexer.v) in the vocabulary
   of LexerSpec.v.  The property theorems of C03 (coq/Props/C03.v) are exact
   instances of the lemmas at the end of this file. *)
From Coq Require Import NArith List Bool Lia ZifyBool ZifyNat ZifyN Arith.
From EvyV Require Import Base Lexer LexerSpec.
From EvyV.Gen Require Import TokenTypes Keywords.
Import ListNotations.
Open Scope N_scope.

(* ---------- generic list facts ---------- *)
Lemma firstn_length_app {A} (pre x : list A) : firstn (List.length pre) (pre ++ x) = pre.
Proof. induction pre; simpl; [destruct x; reflexivity | rewrite IHpre; reflexivity]. Qed.

Lemma span_len_le pred l : (span_len pred l <= List.length l)%nat.
Proof. induction l; simpl; [lia | destruct (pred a); simpl; lia]. Qed.

Lemma span_len_forall pred l : Forall (fun r => pred r = true) (firstn (span_len pred l) l).
Proof.
  induction l; simpl; [constructor|]. destruct (pred a) eqn:E; simpl; constructor; assumption.
Qed.

Lemma span_len_maximal pred l : next_not pred (skipn (span_len pred l) l).
Proof.
  induction l as [|a l IH]; simpl; [exact I|]. destruct (pred a) eqn:E; simpl; [exact IH | exact E].
Qed.

(* ---------- positions ---------- *)
Lemma count_nl_snoc l c : count_nl (l ++ [c]) = (count_nl l + (if (c =? 10)%N then 1 else 0))%nat.
Proof.
  unfold count_nl. rewrite count_occ_app. simpl.
  destruct (N.eq_dec c 10) as [->|Hn]; [reflexivity|].
  apply N.eqb_neq in Hn. rewrite Hn. reflexivity.
Qed.

Lemma since_newline_snoc l c :
  since_newline (l ++ [c]) = if c =? 10 then O else S (since_newline l).
Proof. unfold since_newline. rewrite rev_app_distr. simpl. destruct (c =? 10); reflexivity. Qed.

Definition line_at (pre : list N) : N := 1 + N.of_nat (count_nl pre).
Definition col_at (pre : list N) : N := 1 + N.of_nat (since_newline pre).

Lemma adv_line_snoc pre c : adv_line c (line_at pre) = line_at (pre ++ [c]).
Proof. unfold adv_line, line_at. rewrite count_nl_snoc. destruct (c =? 10); lia. Qed.

Lemma adv_col_snoc pre c : adv_col c (col_at pre) = col_at (pre ++ [c]).
Proof. unfold adv_col, col_at. rewrite since_newline_snoc. destruct (c =? 10); lia. Qed.

(* a token is located in input: its Offset is an offset of the input (or its
   end) and its Line/Col are the line and column of that offset *)
Definition located (input : list N) (t : token) : Prop :=
  exists k : nat, t_off t = N.of_nat k /\ (k <= List.length input)%nat /\
                  (t_line t, t_col t) = pos_of_offset input k.

(* ---------- effective input ---------- *)
Lemma effective_app b x r :
  (b = true -> Forall (fun c => c <> 0) x) -> effective b (x ++ r) = x ++ effective b r.
Proof.
  destruct b; simpl; [|reflexivity]. intro H. specialize (H eq_refl).
  induction H as [|c x Hc _ IH]; simpl; [reflexivity|].
  apply N.eqb_neq in Hc. rewrite Hc, IH. reflexivity.
Qed.

Lemma effective_prefix b l : exists tail, l = effective b l ++ tail.
Proof.
  destruct b; simpl; [|exists []; rewrite app_nil_r; reflexivity].
  induction l as [|c l [tail IH]]; simpl; [exists []; reflexivity|].
  destruct (c =? 0); [exists (c :: l); reflexivity|]. exists tail. simpl. rewrite <- IH. reflexivity.
Qed.

Lemma effective_length_le b l : (List.length (effective b l) <= List.length l)%nat.
Proof.
  destruct (effective_prefix b l) as [t H]. rewrite H at 2. rewrite app_length. lia.
Qed.

(* ---------- slices ---------- *)
Lemma slices_ends lx : forall rest tail cur,
  rest = concat lx ++ tail -> slices rest cur (ends cur lx) = lx.
Proof.
  induction lx as [|x xs IH]; intros rest tail cur H; simpl; [reflexivity|].
  replace (N.to_nat (cur + N.of_nat (List.length x) - cur)) with (List.length x) by lia.
  subst rest. simpl. rewrite <- app_assoc.
  rewrite firstn_length_app. f_equal.
  apply (IH _ tail). rewrite skipn_app, skipn_all, Nat.sub_diag. reflexivity.
Qed.

(* ---------- the keyword table ---------- *)
Lemma lookup_keyword_sound kws x k : lookup_keyword kws x = Some k -> In (x, k) kws.
Proof.
  induction kws as [|[w t] r IH]; simpl; [discriminate|].
  destruct (str_eqb w x) eqn:E.
  - intro H. inversion H; subst. apply str_eqb_eq in E. subst. left. reflexivity.
  - intro H. right. apply IH. exact H.
Qed.

Lemma lookup_keyword_none kws x : lookup_keyword kws x = None -> forall k, ~ In (x, k) kws.
Proof.
  induction kws as [|[w t] r IH]; simpl; [tauto|].
  destruct (str_eqb w x) eqn:E; [discriminate|].
  intros H k [Hin|Hin]; [|exact (IH H k Hin)].
  inversion Hin; subst. rewrite str_eqb_refl in E. discriminate.
Qed.

Lemma lookup_keyword_complete kws x k :
  NoDup (map fst kws) -> In (x, k) kws -> lookup_keyword kws x = Some k.
Proof.
  induction kws as [|[w t] r IH]; simpl; [tauto|]. intros Hnd [Hin|Hin].
  - inversion Hin; subst. rewrite str_eqb_refl. reflexivity.
  - inversion Hnd as [|? ? Hnotin Hnd']; subst.
    destruct (str_eqb w x) eqn:E.
    + apply str_eqb_eq in E. subst. exfalso. apply Hnotin.
      change x with (fst (x, k)). apply in_map. exact Hin.
    + apply IH; assumption.
Qed.

(* facts about the regenerated table, re-checked by computation whenever
   token.go changes: keys are distinct, no keyword maps to EOF / IDENT / a
   literal or layout token type, and tokenStrings' format of a keyword type is
   the keyword itself *)
Definition is_keyword_type (t : token_type) : bool :=
  existsb (fun p => token_type_beq (snd p) t) keywords.

Definition plain_type (t : token_type) : bool :=
  match t with
  | T_EOF | T_WS | T_COMMENT | T_STRING_LIT | T_ILLEGAL | T_IDENT | T_NUM_LIT => false
  | _ => true
  end.

Lemma keywords_nodup : NoDup (map fst keywords).
Proof.
  assert (H : forall l : list str, (fix nd (l : list str) : bool :=
              match l with [] => true | x :: r => negb (mem_str x r) && nd r end) l = true -> NoDup l).
  { induction l as [|x r IH]; intro H; [constructor|].
    apply andb_true_iff in H as [H1 H2]. constructor; [|apply IH; exact H2].
    intro Hin. apply mem_str_In in Hin. rewrite Hin in H1. discriminate. }
  apply H. vm_compute. reflexivity.
Qed.

Lemma keywords_table_ok :
  Forall (fun p => plain_type (snd p) = true /\ tt_format (snd p) = fst p) keywords.
Proof. unfold keywords. repeat constructor. Qed.

Lemma keyword_entry x k : In (x, k) keywords -> plain_type k = true /\ tt_format k = x.
Proof.
  intro H. pose proof keywords_table_ok as T. rewrite Forall_forall in T. exact (T _ H).
Qed.

Lemma token_type_beq_refl t : token_type_beq t t = true.
Proof. destruct t; reflexivity. Qed.

Lemma token_type_beq_eq a c : token_type_beq a c = true -> a = c.
Proof. apply internal_token_type_dec_bl. Qed.

Lemma token_type_beq_neq a c : a <> c -> token_type_beq a c = false.
Proof. intro H. destruct (token_type_beq a c) eqn:E; [apply token_type_beq_eq in E; contradiction | reflexivity]. Qed.

Section Proofs.
  Variable uni_letter uni_digit : N -> bool.
  Variable b : bool.   (* nul_is_eof *)

  Notation lex_go := (lex_go uni_letter uni_digit b).
  Notation next_token := (next_token uni_letter uni_digit b).
  Notation lexeme_ok := (lexeme_ok uni_letter uni_digit b).
  Notation ident_shaped := (ident_shaped uni_letter uni_digit b).

  (* the only fact about the Unicode oracle that is used: U+0000 is neither a
     letter nor a digit.  Without it Go's readIdent would not stop at the end
     of the input (lookAt returns 0 there). *)
  Definition oracle_ok : Prop := uni_letter 0 = false /\ uni_digit 0 = false.

  (* ---------- lex_total ---------- *)
  Lemma lex_go_length : forall l skip off line col,
    (1 <= List.length (lex_go skip off line col l) <= S (List.length l))%nat.
  Proof.
    induction l as [|c rest IH]; intros; simpl; [lia|].
    destruct skip.
    - destruct (next_token c rest) as [[ty lit] len].
      destruct (token_type_beq ty T_EOF); simpl; [lia|].
      specialize (IH (Nat.pred len) (off + 1) (adv_line c line) (adv_col c col)). lia.
    - specialize (IH skip (off + 1) (adv_line c line) (adv_col c col)). lia.
  Qed.

  (* ---------- lex_positions ---------- *)
  Lemma located_at_pre pre l ty lit :
    located (pre ++ l) (mkToken ty lit (N.of_nat (List.length pre)) (line_at pre) (col_at pre)).
  Proof.
    exists (List.length pre). simpl. split; [reflexivity|]. split; [rewrite app_length; lia|].
    unfold pos_of_offset. rewrite firstn_length_app. reflexivity.
  Qed.

  Lemma lex_go_located : forall l pre skip,
    Forall (located (pre ++ l))
           (lex_go skip (N.of_nat (List.length pre)) (line_at pre) (col_at pre) l).
  Proof.
    induction l as [|c rest IH]; intros pre skip; simpl.
    - constructor; [apply located_at_pre | constructor].
    - assert (Hstep : forall k, Forall (located (pre ++ c :: rest))
                (lex_go k (N.of_nat (List.length pre) + 1) (adv_line c (line_at pre)) (adv_col c (col_at pre)) rest)).
      { intro k. specialize (IH (pre ++ [c]) k).
        rewrite <- app_assoc in IH. simpl in IH.
        rewrite adv_line_snoc, adv_col_snoc.
        replace (N.of_nat (List.length pre) + 1) with (N.of_nat (List.length (pre ++ [c])))
          by (rewrite app_length; simpl; lia).
        exact IH. }
      destruct skip; [|apply Hstep].
      destruct (next_token c rest) as [[ty lit] len].
      destruct (token_type_beq ty T_EOF).
      + constructor; [apply located_at_pre | constructor].
      + constructor; [apply located_at_pre | apply Hstep].
  Qed.

  (* ---------- one token ---------- *)
  Lemma string_span_le : forall l esc, (string_span b esc l <= List.length l)%nat.
  Proof.
    induction l as [|c r IH]; intro esc; simpl; [lia|].
    destruct ((c =? 34) && negb esc); [lia|].
    destruct (is_end b c || (c =? 10)); [lia|]. specialize (IH ((c =? 92) && negb esc)). lia.
  Qed.

  Lemma string_span_nonnul : forall l esc, b = true ->
    Forall (fun r => r <> 0) (firstn (string_span b esc l) l).
  Proof.
    induction l as [|c r IH]; intros esc Hb; simpl; [constructor|].
    destruct ((c =? 34) && negb esc) eqn:E1.
    - simpl. constructor; [|constructor]. apply andb_true_iff in E1 as [E1 _].
      apply N.eqb_eq in E1. subst. discriminate.
    - destruct (is_end b c || (c =? 10)) eqn:E2; [constructor|].
      simpl. constructor; [|apply IH; exact Hb].
      apply orb_false_iff in E2 as [E2 _]. unfold is_end in E2. rewrite Hb in E2. simpl in E2.
      apply N.eqb_neq. exact E2.
  Qed.

  Lemma comment_char_nonnul r : b = true -> comment_char b r = true -> r <> 0.
  Proof.
    intros Hb H. unfold comment_char, is_end in H. rewrite Hb in H. simpl in H.
    apply andb_true_iff in H as [H _]. apply negb_true_iff in H. apply N.eqb_neq. exact H.
  Qed.

  Lemma is_hws_nonnul r : is_hws r = true -> r <> 0.
  Proof. unfold is_hws. intros H E. subst. discriminate. Qed.

  Lemma num_char_nonnul r : num_char r = true -> r <> 0.
  Proof. unfold num_char, is_digit. intros H E. subst. discriminate. Qed.

  Lemma ident_char_nonnul r : oracle_ok -> ident_char uni_letter uni_digit r = true -> r <> 0.
  Proof.
    intros [H1 H2] H E. subst. unfold ident_char, is_letter in H. rewrite H1, H2 in H. discriminate.
  Qed.

  Lemma keyword_lexeme_ok x k off line col :
    In (x, k) keywords -> k <> T_EOF /\ lexeme_ok (mkToken k [] off line col) x.
  Proof.
    intro H. apply keyword_entry in H as [Hp Hf]. unfold LexerSpec.lexeme_ok. simpl.
    destruct k; try discriminate Hp; (split; [discriminate | split; [reflexivity | symmetry; exact Hf]]).
  Qed.

  Ltac finish_fixed :=
    let H := fresh in
    intro H; inversion H; subst; clear H; right;
    split; [discriminate|]; split; [simpl; lia|];
    split; [unfold LexerSpec.lexeme_ok; simpl; split; reflexivity
           | intros _ _; simpl; repeat constructor; discriminate].

  Ltac with_eq_case rest :=
    unfold with_eq;
    let P := fresh "P" in
    destruct (peek rest =? 61) eqn:P;
    [ let d := fresh "d" in let r := fresh "r" in
      destruct rest as [|d r]; simpl in P; [discriminate|];
      apply N.eqb_eq in P; subst d; finish_fixed
    | finish_fixed ].

  Lemma next_token_spec c rest ty lit len off line col :
    next_token c rest = (ty, lit, len) ->
    (ty = T_EOF /\ b = true /\ c = 0) \/
    (ty <> T_EOF /\ (1 <= len <= S (List.length rest))%nat /\
     lexeme_ok (mkToken ty lit off line col) (firstn len (c :: rest)) /\
     (b = true -> oracle_ok -> Forall (fun r => r <> 0) (firstn len (c :: rest)))).
  Proof.
    unfold Lexer.next_token, fixed1.
    destruct ((c =? 32) || (c =? 9)) eqn:Ews.
    { intro H; inversion H; subst; clear H. right.
      assert (Hc : c = 32 \/ c = 9).
      { apply orb_true_iff in Ews as [E|E]; apply N.eqb_eq in E; auto. }
      split; [discriminate|]. split; [pose proof (span_len_le is_hws rest); lia|].
      split.
      - unfold LexerSpec.lexeme_ok; simpl. split; [reflexivity|].
        exists c, (firstn (span_len is_hws rest) rest). split; [reflexivity|]. split; [exact Hc|].
        apply span_len_forall.
      - intros _ _. simpl. constructor; [destruct Hc; subst; discriminate|].
        eapply Forall_impl; [|apply span_len_forall]. intros a Ha. apply is_hws_nonnul. exact Ha. }
    apply orb_false_iff in Ews as [E32 E9].
    destruct (c =? 61) eqn:E61. { apply N.eqb_eq in E61; subst c. with_eq_case rest. }
    destruct (c =? 43) eqn:E43. { apply N.eqb_eq in E43; subst c. finish_fixed. }
    destruct (c =? 45) eqn:E45. { apply N.eqb_eq in E45; subst c. finish_fixed. }
    destruct (c =? 33) eqn:E33. { apply N.eqb_eq in E33; subst c. with_eq_case rest. }
    destruct (c =? 47) eqn:E47.
    { apply N.eqb_eq in E47; subst c.
      destruct (peek rest =? 47) eqn:P; [|finish_fixed].
      destruct rest as [|d r]; simpl in P; [discriminate|]. apply N.eqb_eq in P; subst d.
      assert (Hcc : comment_char b 47 = true) by (unfold comment_char, is_end; destruct b; reflexivity).
      simpl span_len. rewrite Hcc.
      intro H; inversion H; subst; clear H. right.
      split; [discriminate|]. split; [pose proof (span_len_le (comment_char b) r); simpl; lia|].
      simpl firstn.
      split.
      - unfold LexerSpec.lexeme_ok; simpl. split; [reflexivity|].
        exists (firstn (span_len (comment_char b) r) r). split; [reflexivity|]. apply span_len_forall.
      - intros Hb _. constructor; [discriminate|]. constructor; [discriminate|].
        eapply Forall_impl; [|apply span_len_forall]. intros a Ha. apply comment_char_nonnul; assumption. }
    destruct (c =? 42) eqn:E42. { apply N.eqb_eq in E42; subst c. finish_fixed. }
    destruct (c =? 37) eqn:E37. { apply N.eqb_eq in E37; subst c. finish_fixed. }
    destruct (c =? 60) eqn:E60. { apply N.eqb_eq in E60; subst c. with_eq_case rest. }
    destruct (c =? 62) eqn:E62. { apply N.eqb_eq in E62; subst c. with_eq_case rest. }
    destruct (c =? 58) eqn:E58. { apply N.eqb_eq in E58; subst c. with_eq_case rest. }
    destruct (c =? 123) eqn:E123. { apply N.eqb_eq in E123; subst c. finish_fixed. }
    destruct (c =? 125) eqn:E125. { apply N.eqb_eq in E125; subst c. finish_fixed. }
    destruct (c =? 40) eqn:E40. { apply N.eqb_eq in E40; subst c. finish_fixed. }
    destruct (c =? 41) eqn:E41. { apply N.eqb_eq in E41; subst c. finish_fixed. }
    destruct (c =? 91) eqn:E91. { apply N.eqb_eq in E91; subst c. finish_fixed. }
    destruct (c =? 93) eqn:E93. { apply N.eqb_eq in E93; subst c. finish_fixed. }
    destruct (c =? 10) eqn:E10. { apply N.eqb_eq in E10; subst c. finish_fixed. }
    destruct (c =? 46) eqn:E46.
    { apply N.eqb_eq in E46; subst c.
      destruct ((peek rest =? 46) && (peek2 rest =? 46)) eqn:P; [|finish_fixed].
      apply andb_true_iff in P as [P1 P2].
      destruct rest as [|d1 [|d2 r]]; simpl in P1, P2; try discriminate.
      apply N.eqb_eq in P1, P2; subst d1 d2. finish_fixed. }
    destruct (c =? 34) eqn:E34.
    { apply N.eqb_eq in E34; subst c.
      assert (Hnn : b = true -> Forall (fun r => r <> 0) (firstn (S (string_span b false rest)) (34 :: rest))).
      { intro Hb. simpl. constructor; [discriminate | apply string_span_nonnul; exact Hb]. }
      pose proof (string_span_le rest false) as Hle.
      destruct (unquote (34 :: firstn (string_span b false rest) rest)) as [s|] eqn:U;
        intro H; inversion H; subst; clear H; right;
        (split; [discriminate|]); (split; [lia|]); (split; [|intros Hb _; apply Hnn; exact Hb]);
        unfold LexerSpec.lexeme_ok; simpl.
      - split; [eexists; reflexivity | exact U].
      - right. split; [eexists; reflexivity|]. split; [exact U | reflexivity]. }
    destruct (is_end b c) eqn:E0.
    { intro H; inversion H; subst; clear H. left.
      unfold is_end in E0. apply andb_true_iff in E0 as [Hb Hc]. apply N.eqb_eq in Hc. auto. }
    assert (Hsp : is_special b c = false).
    { unfold is_special. simpl existsb.
      rewrite E32, E9, E61, E43, E45, E33, E47, E42, E37, E60, E62, E58, E123, E125, E40, E41, E91, E93, E10, E46, E34.
      simpl. exact E0. }
    assert (Hc0 : b = true -> c <> 0).
    { intros Hb Hc. unfold is_end in E0. rewrite Hb, Hc in E0. discriminate. }
    destruct (is_letter uni_letter c) eqn:Elet.
    { pose proof (span_len_le (ident_char uni_letter uni_digit) rest) as Hle.
      assert (Hshape : ident_shaped (c :: firstn (span_len (ident_char uni_letter uni_digit) rest) rest)).
      { exists c, (firstn (span_len (ident_char uni_letter uni_digit) rest) rest).
        split; [reflexivity|]. split; [exact Hsp|]. split; [exact Elet | apply span_len_forall]. }
      assert (Hnn : b = true -> oracle_ok ->
                Forall (fun r => r <> 0) (firstn (S (span_len (ident_char uni_letter uni_digit) rest)) (c :: rest))).
      { intros Hb Ho. simpl. constructor; [apply Hc0; exact Hb|].
        eapply Forall_impl; [|apply span_len_forall]. intros a Ha. eapply ident_char_nonnul; eassumption. }
      destruct (lookup_keyword keywords (c :: firstn (span_len (ident_char uni_letter uni_digit) rest) rest)) as [kw|] eqn:K;
        intro H; inversion H; subst; clear H; right.
      - apply lookup_keyword_sound in K. apply (keyword_lexeme_ok _ _ off line col) in K as [K1 K2].
        split; [exact K1|]. split; [lia|]. split; [exact K2 | exact Hnn].
      - split; [discriminate|]. split; [lia|]. split; [|exact Hnn].
        unfold LexerSpec.lexeme_ok; simpl. split; [reflexivity|]. split; [exact Hshape | exact K]. }
    destruct (is_digit c) eqn:Edig.
    { pose proof (span_len_le num_char rest) as Hle.
      intro H; inversion H; subst; clear H; right.
      split; [discriminate|]. split; [lia|]. split.
      - unfold LexerSpec.lexeme_ok; simpl. split; [reflexivity|].
        exists c, (firstn (span_len num_char rest) rest). repeat split; try assumption. apply span_len_forall.
      - intros Hb _. simpl. constructor; [apply Hc0; exact Hb|].
        eapply Forall_impl; [|apply span_len_forall]. intros a Ha. apply num_char_nonnul. exact Ha. }
    intro H; inversion H; subst; clear H; right.
    split; [discriminate|]. split; [simpl; lia|]. split.
    - unfold LexerSpec.lexeme_ok; simpl. left. exists c. repeat split; assumption.
    - intros Hb _. simpl. constructor; [apply Hc0; exact Hb | constructor].
  Qed.

  (* ---------- maximal munch of one token ---------- *)
  Notation maximal_munch := (maximal_munch uni_letter uni_digit b).

  Lemma keyword_type_plain k : In k (map snd keywords) -> plain_type k = true.
  Proof.
    intro H. apply in_map_iff in H as [[w k'] [E Hin]]. simpl in E. subst k'.
    exact (proj1 (keyword_entry _ _ Hin)).
  Qed.

  Ltac munch_vacuous :=
    let H := fresh in
    intro H; inversion H; subst; clear H;
    repeat split;
    (let X := fresh "X" in
     intro X;
     first [ discriminate X
           | destruct X as [X|X]; [discriminate X | simpl in X; intuition discriminate] ]).

  Lemma next_token_munch c rest ty lit len off line col :
    next_token c rest = (ty, lit, len) ->
    maximal_munch (mkToken ty lit off line col) (skipn len (c :: rest)).
  Proof.
    unfold Lexer.next_token, fixed1, with_eq, LexerSpec.maximal_munch. cbn [t_type].
    destruct ((c =? 32) || (c =? 9)).
    { intro H; inversion H; subst; clear H. simpl skipn.
      repeat split; intro X; try discriminate X.
      - apply span_len_maximal.
      - destruct X as [X|X]; [discriminate X | apply keyword_type_plain in X; discriminate X]. }
    destruct (c =? 61). { destruct (peek rest =? 61); munch_vacuous. }
    destruct (c =? 43). { munch_vacuous. }
    destruct (c =? 45). { munch_vacuous. }
    destruct (c =? 33). { destruct (peek rest =? 61); munch_vacuous. }
    destruct (c =? 47).
    { destruct (peek rest =? 47); [|munch_vacuous].
      intro H; inversion H; subst; clear H. simpl skipn.
      repeat split; intro X; try discriminate X.
      - destruct X as [X|X]; [discriminate X | apply keyword_type_plain in X; discriminate X].
      - apply span_len_maximal. }
    destruct (c =? 42). { munch_vacuous. }
    destruct (c =? 37). { munch_vacuous. }
    destruct (c =? 60). { destruct (peek rest =? 61); munch_vacuous. }
    destruct (c =? 62). { destruct (peek rest =? 61); munch_vacuous. }
    destruct (c =? 58). { destruct (peek rest =? 61); munch_vacuous. }
    destruct (c =? 123). { munch_vacuous. }
    destruct (c =? 125). { munch_vacuous. }
    destruct (c =? 40). { munch_vacuous. }
    destruct (c =? 41). { munch_vacuous. }
    destruct (c =? 91). { munch_vacuous. }
    destruct (c =? 93). { munch_vacuous. }
    destruct (c =? 10). { munch_vacuous. }
    destruct (c =? 46). { destruct ((peek rest =? 46) && (peek2 rest =? 46)); munch_vacuous. }
    destruct (c =? 34).
    { destruct (unquote (c :: firstn (string_span b false rest) rest)); munch_vacuous. }
    destruct (is_end b c). { munch_vacuous. }
    destruct (is_letter uni_letter c).
    { destruct (lookup_keyword keywords (c :: firstn (span_len (ident_char uni_letter uni_digit) rest) rest)) as [kw|] eqn:K;
        intro H; inversion H; subst; clear H; simpl skipn.
      - apply lookup_keyword_sound in K. apply keyword_entry in K as [Hp _].
        repeat split; intro X; try (subst; discriminate Hp). apply span_len_maximal.
      - repeat split; intro X; try discriminate X. apply span_len_maximal. }
    destruct (is_digit c).
    { intro H; inversion H; subst; clear H. simpl skipn.
      repeat split; intro X; try discriminate X.
      - apply span_len_maximal.
      - destruct X as [X|X]; [discriminate X | apply keyword_type_plain in X; discriminate X]. }
    munch_vacuous.
  Qed.

  (* ---------- skipping the rest of a token ---------- *)
  Lemma lex_go_skip : forall k l off line col, (k <= List.length l)%nat ->
    exists line' col', lex_go k off line col l = lex_go O (off + N.of_nat k) line' col' (skipn k l).
  Proof.
    induction k as [|k IH]; intros l off line col Hk.
    - exists line, col. simpl. rewrite N.add_0_r. reflexivity.
    - destruct l as [|c rest]; simpl in Hk; [lia|].
      destruct (IH rest (off + 1) (adv_line c line) (adv_col c col)) as [l' [c' E]]; [lia|].
      exists l', c'. simpl. rewrite E. f_equal. lia.
  Qed.

  (* ---------- lex_partition ---------- *)
  Definition partition_ok (l : list N) (off : N) (toks : list token) : Prop :=
    exists lx ts e,
      toks = ts ++ [e] /\ t_type e = T_EOF /\
      t_off e = off + N.of_nat (List.length (effective b l)) /\
      concat lx = effective b l /\
      Forall (fun x => x <> []) lx /\
      map t_off toks = off :: ends off lx /\
      Forall2 lexeme_ok ts lx /\
      Forall2 maximal_munch ts (rests l lx).

  Lemma partition_eof l lit off line col : effective b l = [] ->
    partition_ok l off [mkToken T_EOF lit off line col].
  Proof.
    intro He. exists [], [], (mkToken T_EOF lit off line col). rewrite He. simpl.
    repeat split; try reflexivity; try constructor. lia.
  Qed.

  Lemma lex_go_partition : (b = true -> oracle_ok) -> forall n l off line col,
    (List.length l <= n)%nat -> partition_ok l off (lex_go O off line col l).
  Proof.
    intros Ho n. induction n as [|n IH]; intros l off line col Hn.
    - destruct l; [|simpl in Hn; lia]. simpl. apply partition_eof. destruct b; reflexivity.
    - destruct l as [|c rest]; [simpl; apply partition_eof; destruct b; reflexivity|].
      simpl. destruct (next_token c rest) as [[ty lit] len] eqn:NT.
      pose proof (next_token_munch _ _ _ _ _ off line col NT) as Hmun.
      apply (next_token_spec _ _ _ _ _ off line col) in NT.
      destruct NT as [[Hty [Hb Hc]] | [Hty [Hlen [Hok Hnn]]]].
      + subst ty c. simpl. apply partition_eof. rewrite Hb. reflexivity.
      + rewrite (token_type_beq_neq _ _ Hty).
        destruct len as [|k]; [lia|]. simpl Nat.pred.
        destruct (lex_go_skip k rest (off + 1) (adv_line c line) (adv_col c col)) as [l' [c' E]]; [lia|].
        rewrite E.
        assert (Hshort : (List.length (skipn k rest) <= n)%nat)
          by (rewrite skipn_length; simpl in Hn; lia).
        destruct (IH (skipn k rest) (off + 1 + N.of_nat k) l' c' Hshort)
          as [lx [ts [e [Et [Ee [Eoff [Ecat [Hne [Eoffs [Hall Hmunch]]]]]]]]]].
        set (x := firstn (S k) (c :: rest)) in *.
        assert (Hx : x ++ skipn k rest = c :: rest).
        { unfold x. change (skipn k rest) with (skipn (S k) (c :: rest)). apply firstn_skipn. }
        assert (Hxl : List.length x = S k).
        { unfold x. rewrite firstn_length. simpl. lia. }
        assert (Heff : effective b (c :: rest) = x ++ effective b (skipn k rest)).
        { rewrite <- Hx. apply effective_app. intro Hb. apply Hnn; [exact Hb | apply Ho; exact Hb]. }
        exists (x :: lx), (mkToken ty lit off line col :: ts), e.
        split; [rewrite Et; reflexivity|]. split; [exact Ee|].
        split; [rewrite Eoff, Heff, app_length, Hxl; lia|].
        split; [simpl; rewrite Ecat; symmetry; exact Heff|].
        split; [constructor; [intro Hx0; rewrite Hx0 in Hxl; discriminate | exact Hne]|].
        split.
        * simpl map. f_equal.
          change (ends off (x :: lx))
            with ((off + N.of_nat (List.length x)) :: ends (off + N.of_nat (List.length x)) lx).
          rewrite Eoffs, Hxl.
          replace (off + N.of_nat (S k)) with (off + 1 + N.of_nat k) by lia. reflexivity.
        * split; [constructor; assumption|].
          change (rests (c :: rest) (x :: lx))
            with (skipn (List.length x) (c :: rest) :: rests (skipn (List.length x) (c :: rest)) lx).
          rewrite Hxl. constructor; [exact Hmun | exact Hmunch].
  Qed.

  (* ---------- the theorems, for the lexer as it is (b = true) and the
     corrected one (b = false) at once ---------- *)
  Notation lex_gen := (lex_gen uni_letter uni_digit b).

  Theorem lex_gen_total input :
    lex_gen input <> [] /\ (List.length (lex_gen input) <= S (List.length input))%nat.
  Proof.
    pose proof (lex_go_length input O 0 1 1) as H. unfold Lexer.lex_gen.
    split; [|lia]. intro E. rewrite E in H. simpl in H. lia.
  Qed.

  Theorem lex_gen_positions input : Forall (located input) (lex_gen input).
  Proof. exact (lex_go_located input [] O). Qed.

  Theorem lex_gen_partition input : (b = true -> oracle_ok) ->
    let toks := lex_gen input in
    let lx := lexemes_of input toks in
    concat lx = effective b input /\
    Forall (fun x => x <> []) lx /\
    map t_off toks = 0 :: ends 0 lx /\
    Forall2 lexeme_ok (removelast toks) lx /\
    Forall2 maximal_munch (removelast toks) (rests input lx).
  Proof.
    intro Ho. destruct (lex_go_partition Ho (List.length input) input 0 1 1 (le_n _))
      as [lx [ts [e [Et [Ee [Eoff [Ecat [Hne [Eoffs [Hall Hmunch]]]]]]]]]].
    change (Lexer.lex_go uni_letter uni_digit b 0 0 1 1 input) with (lex_gen input) in *.
    assert (Hlx : lexemes_of input (lex_gen input) = lx).
    { unfold lexemes_of. rewrite Eoffs. simpl skipn.
      destruct (effective_prefix b input) as [tail Ht].
      apply (slices_ends lx input tail). rewrite Ecat. exact Ht. }
    simpl. rewrite Hlx. split; [exact Ecat|]. split; [exact Hne|]. split; [exact Eoffs|].
    rewrite Et, removelast_last. split; assumption.
  Qed.

  Theorem lex_gen_ends_with_eof input : (b = true -> oracle_ok) ->
    exists ts e, lex_gen input = ts ++ [e] /\ t_type e = T_EOF /\
                 Forall (fun t => t_type t <> T_EOF) ts /\
                 t_off e = N.of_nat (List.length (effective b input)).
  Proof.
    intro Ho. destruct (lex_go_partition Ho (List.length input) input 0 1 1 (le_n _))
      as [lx [ts [e [Et [Ee [Eoff [Ecat [Hne [Eoffs [Hall Hmunch]]]]]]]]]].
    exists ts, e. split; [exact Et|]. split; [exact Ee|]. split; [|rewrite Eoff; lia].
    clear - Hall. induction Hall as [|t x ts lx Hok _ IH]; constructor; [|exact IH].
    intro E. unfold LexerSpec.lexeme_ok in Hok. rewrite E in Hok. exact Hok.
  Qed.

  (* the partition theorem without, and only, its maximal-munch part *)
  Corollary lex_gen_partition4 input : (b = true -> oracle_ok) ->
    let toks := lex_gen input in
    let lx := lexemes_of input toks in
    concat lx = effective b input /\
    Forall (fun x => x <> []) lx /\
    map t_off toks = 0 :: ends 0 lx /\
    Forall2 lexeme_ok (removelast toks) lx.
  Proof.
    intro Ho. destruct (lex_gen_partition input Ho) as [H1 [H2 [H3 [H4 _]]]].
    simpl. auto.
  Qed.

  Corollary lex_gen_maximal_munch input : (b = true -> oracle_ok) ->
    let toks := lex_gen input in
    Forall2 maximal_munch (removelast toks) (rests input (lexemes_of input toks)).
  Proof.
    intro Ho. destruct (lex_gen_partition input Ho) as [_ [_ [_ [_ H5]]]]. exact H5.
  Qed.

  (* ---------- keyword_iff ---------- *)
  Lemma fixed_format_special t : plain_type t = true -> is_keyword_type t = false ->
    exists c r, tt_format t = c :: r /\ is_special b c = true.
  Proof.
    destruct t; intros Hp Hk; try discriminate Hp; try discriminate Hk;
      (eexists; eexists; split; [reflexivity | reflexivity]).
  Qed.

  Lemma keyword_type_in t : is_keyword_type t = true -> In (tt_format t, t) keywords.
  Proof.
    unfold is_keyword_type. intro H. apply existsb_exists in H as [[w k] [Hin Hk]].
    simpl in Hk. apply token_type_beq_eq in Hk. subst k.
    destruct (keyword_entry _ _ Hin) as [_ Hf]. rewrite Hf. exact Hin.
  Qed.

  Theorem keyword_iff_lexeme t x : lexeme_ok t x -> ident_shaped x ->
    (forall k, In (x, k) keywords -> t_type t = k /\ t_lit t = []) /\
    ((forall k, ~ In (x, k) keywords) -> t_type t = T_IDENT /\ t_lit t = x) /\
    (is_keyword_type (t_type t) = true -> In (x, t_type t) keywords).
  Proof.
    intros Hok [c [r [Hx [Hsp [Hlet Hr]]]]].
    assert (Hnot_special : forall c' r', x = c' :: r' -> is_special b c' = true -> False).
    { intros c' r' E Hs. rewrite Hx in E. inversion E; subst. rewrite Hs in Hsp. discriminate. }
    unfold LexerSpec.lexeme_ok in Hok.
    destruct (plain_type (t_type t)) eqn:Hp.
    - (* operator, delimiter, NL or keyword: x = tt_format ty *)
      assert (Hok' : t_lit t = [] /\ x = tt_format (t_type t)) by (destruct (t_type t); try discriminate Hp; exact Hok).
      destruct Hok' as [Hlit Hfmt].
      destruct (is_keyword_type (t_type t)) eqn:Hk.
      + pose proof (keyword_type_in _ Hk) as Hin. rewrite <- Hfmt in Hin.
        split; [|split].
        * intros k Hk'. split; [|exact Hlit].
          pose proof (lookup_keyword_complete _ _ _ keywords_nodup Hin) as L1.
          pose proof (lookup_keyword_complete _ _ _ keywords_nodup Hk') as L2. congruence.
        * intro Hno. exfalso. exact (Hno _ Hin).
        * intros _. exact Hin.
      + exfalso. destruct (fixed_format_special _ Hp Hk) as [c' [r' [Ef Hs]]].
        apply (Hnot_special c' r'); [rewrite Hfmt; exact Ef | exact Hs].
    - destruct (t_type t) eqn:Ety; try discriminate Hp.
      + (* ILLEGAL *) exfalso. destruct Hok as [[c' [Ex [_ [_ [Hl _]]]]] | [[body Ex] _]].
        * rewrite Hx in Ex. inversion Ex; subst. rewrite Hl in Hlet. discriminate.
        * apply (Hnot_special 34 body Ex). unfold is_special. reflexivity.
      + (* EOF *) contradiction.
      + (* COMMENT *) exfalso. destruct Hok as [_ [body [Ex _]]].
        apply (Hnot_special 47 (47 :: body) Ex). reflexivity.
      + (* IDENT *) destruct Hok as [Hlit [_ Hnone]]. split; [|split].
        * intros k Hin. exfalso. exact (lookup_keyword_none _ _ Hnone k Hin).
        * intros _. split; [reflexivity | exact Hlit].
        * intro Hk. discriminate Hk.
      + (* NUM_LIT *) exfalso. destruct Hok as [_ [c' [ds [Ex [_ [Hl _]]]]]].
        rewrite Hx in Ex. inversion Ex; subst. rewrite Hl in Hlet. discriminate.
      + (* STRING_LIT *) exfalso. destruct Hok as [[body Ex] _].
        apply (Hnot_special 34 body Ex). reflexivity.
      + (* WS *) exfalso. destruct Hok as [_ [c' [ws [Ex [Hc _]]]]].
        apply (Hnot_special c' ws Ex). destruct Hc; subst; reflexivity.
  Qed.
End Proofs.

(* ---------- the fix of d745e6e changed nothing on inputs without U+0000 ---------- *)
Lemma span_len_ext p q l :
  Forall (fun c => p c = q c) l -> span_len p l = span_len q l.
Proof. induction 1 as [|c l H _ IH]; simpl; [reflexivity|]. rewrite H, IH. reflexivity. Qed.

Lemma is_end_nonnul bb c : c <> 0 -> is_end bb c = false.
Proof. intro H. unfold is_end. apply N.eqb_neq in H. rewrite H. apply andb_false_r. Qed.

Lemma string_span_nonnul_eq l : Forall (fun c => c <> 0) l ->
  forall esc, string_span true esc l = string_span false esc l.
Proof.
  induction 1 as [|c l H _ IH]; intro esc; cbn [string_span]; [reflexivity|].
  rewrite !(is_end_nonnul _ c H), IH. reflexivity.
Qed.

Lemma next_token_nonnul_eq L D c rest : c <> 0 -> Forall (fun c => c <> 0) rest ->
  next_token L D true c rest = next_token L D false c rest.
Proof.
  intros Hc Hr. unfold next_token.
  rewrite !(is_end_nonnul _ c Hc), (string_span_nonnul_eq rest Hr).
  rewrite (span_len_ext (comment_char true) (comment_char false) rest); [reflexivity|].
  eapply Forall_impl; [|exact Hr]. intros a Ha. unfold comment_char. rewrite !(is_end_nonnul _ a Ha). reflexivity.
Qed.

Lemma lex_go_nonnul_eq L D l : Forall (fun c => c <> 0) l ->
  forall skip off line col, lex_go L D true skip off line col l = lex_go L D false skip off line col l.
Proof.
  induction 1 as [|c l Hc Hl IH]; intros skip off line col; simpl; [reflexivity|].
  destruct skip; [|apply IH].
  rewrite (next_token_nonnul_eq L D c l Hc Hl).
  destruct (next_token L D false c l) as [[ty lit] len].
  destruct (token_type_beq ty T_EOF); [reflexivity|]. rewrite IH. reflexivity.
Qed.

Theorem lex_before_fix_agrees L D input : Forall (fun c => c <> 0) input ->
  lex_before_fix L D input = lex L D input.
Proof. intro H. exact (lex_go_nonnul_eq L D input H O 0 1 1). Qed.

(* ---------- strconv.Unquote model: the escape-free case ---------- *)
(* a quoted lexeme without backslash, quote or newline inside unquotes to its body *)
Lemma unquote_plain body :
  Forall (fun c => c <> 34 /\ c <> 92 /\ c <> 10) body ->
  unquote (34 :: body ++ [34]) = Some body.
Proof.
  unfold unquote. induction 1 as [|c body [H34 [H92 H10]] _ IH].
  - reflexivity.
  - change ((c :: body) ++ [34]) with (c :: (body ++ [34])).
    apply N.eqb_neq in H34, H92, H10.
    cbn [unquote_body]. rewrite H34, H10, H92. cbn [negb]. rewrite IH. reflexivity.
Qed.

(* an unterminated body never unquotes *)
Lemma unquote_unterminated body :
  Forall (fun c => c <> 34 /\ c <> 92) body -> unquote (34 :: body) = None.
Proof.
  unfold unquote. induction 1 as [|c body [H34 H92] _ IH]; [reflexivity|].
  apply N.eqb_neq in H34, H92.
  cbn [unquote_body]. rewrite H34, H92. cbn [negb].
  destruct (c =? 10); [reflexivity|]. rewrite IH. reflexivity.
Qed.
