(* CompileProofs.v — theorems about the compiler model. *)
From Coq Require Import ZArith NArith List Bool Lia ZifyBool ZifyNat ZifyN Floats.
From EvyV Require Import Base Bytecode BytecodeProofs SymTab Vm VmProofs Compile CompileSem.
Require Import EvyV.Gen.Opcodes.
Import ListNotations.
Open Scope Z_scope.

Scheme expr_mind := Induction for expr Sort Prop
  with elist_mind := Induction for elist Sort Prop
  with eplist_mind := Induction for eplist Sort Prop
  with oexpr_mind := Induction for oexpr Sort Prop.
Combined Scheme expr_mutind from expr_mind, elist_mind, eplist_mind, oexpr_mind.

Scheme stmt_mind := Induction for stmt Sort Prop
  with slist_mind := Induction for slist Sort Prop
  with clist_mind := Induction for clist Sort Prop
  with oslist_mind := Induction for oslist Sort Prop.
Combined Scheme stmt_mutind from stmt_mind, slist_mind, clist_mind, oslist_mind.

Lemma bind_ok r f st' : (r >>= f) = COk st' -> exists st1, r = COk st1 /\ f st1 = COk st'.
Proof. destruct r as [st1|e]; simpl; intro H; [eauto|discriminate]. Qed.

Ltac bind_inv H :=
  let st := fresh "st" in let H1 := fresh "H" in
  apply bind_ok in H; destruct H as (st & H1 & H).

(* ---------- the corrected compiler rejects everything outside the subset ---------- *)
Ltac binds := repeat match goal with H : (_ >>= _) = COk _ |- _ => bind_inv H end.
Ltac use_ih := repeat match goal with
  | IH : forall st st', _ = COk st' -> _ = true, H : _ = COk _ |- _ => rewrite (IH _ _ H); clear H
  end.

Lemma strict_expr_supported :
  (forall e st st', compile_expr true e st = COk st' -> supported_expr e = true) /\
  (forall l st st', compile_elist true l st = COk st' -> supported_elist l = true) /\
  (forall l st st', compile_pairs true l st = COk st' -> supported_pairs l = true) /\
  (forall o st st', compile_oexpr true o st = COk st' -> supported_oexpr o = true).
Proof.
  apply expr_mutind; intros; simpl in *; auto; binds; try (destruct op; try discriminate); use_ih; auto; try discriminate.
Qed.

Definition body_of (strict : bool) (l : slist) (st : cstate) : cres :=
  match l with
  | SNil => COk st
  | SCons s t => compile_stmt strict s st >>= compile_slist strict t
  end.

Lemma compile_slist_body strict l st : compile_slist strict l st = body_of strict l st.
Proof. destruct l; reflexivity. Qed.

Opaque emit emit_const.
Lemma strict_stmt_supported :
  (forall s st st', compile_stmt true s st = COk st' -> supported_stmt s = true) /\
  (forall l st st', body_of true l st = COk st' -> supported_slist l = true) /\
  (forall l jumps st st', fst (compile_elifs true l jumps st) = COk st' -> supported_clist l = true) /\
  (forall o, match o with
             | NoElse => True
             | Else b => forall st st', body_of true b st = COk st' -> supported_slist b = true
             end).
Proof.
  destruct strict_expr_supported as (SE & SL & SP & SO).
  assert (BLOCK : forall b, (forall st st', body_of true b st = COk st' -> supported_slist b = true) ->
                            forall st st', compile_block true b st = COk st' -> supported_slist b = true).
  { intros b Hb st st' H. destruct b as [|s t]; [reflexivity|]. simpl in H. bind_inv H.
    eapply Hb; simpl; eassumption. }
  assert (COND : forall c b, (forall st st', body_of true b st = COk st' -> supported_slist b = true) ->
                             forall st st', compile_cond true c b st = COk st' ->
                                            supported_expr c = true /\ supported_slist b = true).
  { intros c b Hb st st' H. destruct b as [|s t].
    - simpl in H. bind_inv H. split; [eapply SE; eassumption|reflexivity].
    - simpl in H. bind_inv H; bind_inv H; bind_inv H.
      split; [eapply SE; eassumption|]. eapply Hb; simpl; eassumption. }
  assert (FOR : forall lv rop n b, (forall st st', body_of true b st = COk st' -> supported_slist b = true) ->
                                   forall st st', for_loop true lv rop n b st = COk st' -> supported_slist b = true).
  { intros lv rop n b Hb st st' H. destruct b as [|s t]; [reflexivity|]. simpl in H.
    bind_inv H; bind_inv H; bind_inv H; bind_inv H. eapply Hb; simpl; eassumption. }
  Ltac derive SE SO BLOCK COND FOR SL SP :=
    repeat match goal with
    | H : compile_elist true _ _ = COk _ |- _ => apply SL in H
    | H : compile_pairs true _ _ = COk _ |- _ => apply SP in H
    | H : compile_expr true _ _ = COk _ |- _ => apply SE in H
    | H : compile_oexpr true _ _ = COk _ |- _ => apply SO in H
    | IH : (forall st st', body_of true ?b st = COk st' -> _), H : compile_block true ?b _ = COk _ |- _ =>
        apply (BLOCK _ IH) in H
    | IH : (forall st st', body_of true ?b st = COk st' -> _), H : compile_cond true _ ?b _ = COk _ |- _ =>
        apply (COND _ _ IH) in H; destruct H
    | IH : (forall st st', body_of true ?b st = COk st' -> _), H : for_loop true _ _ _ ?b _ = COk _ |- _ =>
        apply (FOR _ _ _ _ IH) in H
    end.
  Ltac finish := repeat match goal with H : _ = true |- _ => rewrite H; clear H end; simpl; auto.
  apply stmt_mutind; intros; simpl in *; auto.
  - (* SDecl *) binds. derive SE SO BLOCK COND FOR SL SP. finish.
  - (* SAssign *)
    match goal with H : _ = COk _ |- _ => bind_inv H; rename H into HT end.
    destruct target; simpl in *; binds;
      try (destruct (st_resolve _ _); [|discriminate]);
      try (destruct op; try discriminate);
      derive SE SO BLOCK COND FOR SL SP; try discriminate; finish.
  - (* SIf *)
    match goal with H : _ = COk _ |- _ => bind_inv H; rename H into HT end.
    match type of HT with context [compile_elifs true ?l ?j ?x] =>
      destruct (compile_elifs true l j x) as [r jumps] eqn:EE end.
    binds.
    match goal with IH : forall jumps st st', fst (compile_elifs true elifs jumps st) = COk st' -> _ |- _ =>
      erewrite IH by (rewrite EE; simpl; eassumption) end.
    destruct els; simpl in *; derive SE SO BLOCK COND FOR SL SP; finish.
  - (* SWhile *) binds. derive SE SO BLOCK COND FOR SL SP. finish.
  - (* SForStep *) binds. derive SE SO BLOCK COND FOR SL SP. destruct start, step; simpl in *; finish.
  - (* SForIter *) destruct t; try discriminate; binds; derive SE SO BLOCK COND FOR SL SP; finish.
  - (* SBlock *) derive SE SO BLOCK COND FOR SL SP. finish.
  - (* SUnsupported *) discriminate.
  - (* SCons *) binds.
    match goal with H : compile_slist true _ _ = COk _ |- _ => rewrite compile_slist_body in H end.
    repeat match goal with IH : forall st st', _ = COk st' -> _ = true, H : _ = COk _ |- _ => rewrite (IH _ _ H); clear H end.
    reflexivity.
  - (* CCons *)
    match goal with H : fst (match ?x with _ => _ end) = COk _ |- _ => destruct x eqn:EC; [|simpl in H; discriminate] end.
    derive SE SO BLOCK COND FOR SL SP. finish. eauto.
  - (* Else *) eauto.
Qed.

Transparent emit emit_const.

Theorem compile_rejects_unsupported : forall (p : slist) (st : cstate),
  compile p = COk st -> supported_slist p = true.
Proof.
  intros p st H. unfold compile, compile_program in H. rewrite compile_slist_body in H.
  destruct strict_stmt_supported as (_ & SL & _). eapply SL; eauto.
Qed.

(* ====================================================================== *)
(* compile_correct_partial: the expression fragment                        *)
(* ====================================================================== *)
Open Scope N_scope.

Lemma vm_steps_trans n : forall m p s s1 o,
  vm_steps n p s = Running s1 -> vm_steps m p s1 = o -> vm_steps (n + m) p s = o.
Proof.
  induction n as [|n IH]; simpl; intros m p s s1 o H1 H2.
  - injection H1 as <-. exact H2.
  - destruct (vm_step p s); try discriminate. eauto.
Qed.

Lemma fetch_noarg p s o pre post :
  pcode p = pre ++ [N_of_opc o] ++ post -> ip s = N.of_nat (List.length pre) -> has_operand o = false ->
  vm_step p s = exec p s o 0 (ip s + 1).
Proof.
  intros HC HI HO. unfold vm_step. rewrite HC, HI, Nat2N.id, skipn_app, skipn_all, Nat.sub_diag.
  cbn [app skipn]. rewrite opc_of_N_of_opc, has_operand_vm, HO. reflexivity.
Qed.

Lemma fetch_arg p s o hi lo pre post :
  pcode p = pre ++ [N_of_opc o; hi; lo] ++ post -> ip s = N.of_nat (List.length pre) -> has_operand o = true ->
  vm_step p s = exec p s o (hi * 256 + lo) (ip s + 3).
Proof.
  intros HC HI HO. unfold vm_step. rewrite HC, HI, Nat2N.id, skipn_app, skipn_all, Nat.sub_diag.
  cbn [app skipn]. rewrite opc_of_N_of_opc, has_operand_vm, HO. reflexivity.
Qed.

Lemma make_arg_bytes o z : has_operand o = true -> (0 <= z < 65536)%Z ->
  exists hi lo, make (N_of_opc o) [z] = Some [N_of_opc o; hi; lo] /\ hi * 256 + lo = Z.to_N z.
Proof.
  intros HO Hz. unfold make. rewrite lookup_def_opc, HO. cbn [make_operands option_map].
  change (2 =? 2) with true. assert (HF : fits16 z = true) by (unfold fits16; lia). rewrite HF. cbn [andb negb]. cbv iota.
  destruct (put16_read z Hz) as (hi & lo & -> & E). exists hi, lo. split; [reflexivity|exact E].
Qed.

Lemma make_noarg_bytes o : has_operand o = false -> make (N_of_opc o) [] = Some [N_of_opc o].
Proof. intro HO. unfold make. rewrite lookup_def_opc, HO. reflexivity. Qed.

Lemma emit_ok o ops st st' : emit true o ops st = COk st' ->
  exists ins, make (N_of_opc o) ops = Some ins /\
              st' = {| ccode := ccode st ++ ins; cconsts := cconsts st; csym := csym st; cbreaks := cbreaks st |}.
Proof.
  unfold emit. destruct (make (N_of_opc o) ops) as [ins|]; [|discriminate].
  intro H; inversion H; subst. eauto.
Qed.

Definition is_pure (o : opc) : bool :=
  match o with
  | SetGlobal | SetLocal | Drop | SetIndex | Jump | JumpOnFalse | StepRange | IterRange => false
  | _ => true
  end.

Lemma exec_pure p s o arg next pn v :
  is_pure o = true -> simple_effect o arg = Some (pn, 1) ->
  (N.to_nat pn <= List.length (ostack s))%nat ->
  pure_sem o arg (pconsts p) (locals s) (globals s) (firstn (N.to_nat pn) (ostack s)) = POk v ->
  N.of_nat (List.length (locals s)) + N.of_nat (S (List.length (ostack s) - N.to_nat pn)) <= StackSize ->
  exec p s o arg next =
  Running {| ip := next; ostack := v :: skipn (N.to_nat pn) (ostack s); locals := locals s; globals := globals s |}.
Proof.
  intros HP HE HL HS HR. unfold exec.
  destruct o; try discriminate HP; rewrite HE;
    (destruct (List.length (ostack s) <? N.to_nat pn)%nat eqn:E; [apply Nat.ltb_lt in E; lia|]);
    rewrite HS; unfold with_stack; cbn [List.length]; rewrite skipn_length;
    (destruct (StackSize <? _) eqn:E2; [apply N.ltb_lt in E2; lia|]); reflexivity.
Qed.

(* the fragment *)
(* every name the symbol table resolves is a global whose slot fits 16 bits,
   and the VM's global slots hold the environment *)
Definition sym_static (sym : symtab) : Prop :=
  forall n y, st_resolve n sym = Some y -> sscp y = GlobalScope.
Definition globals_hold (env : genv) (sym : symtab) (g : list value) : Prop :=
  forall n y v, st_resolve n sym = Some y -> env n = Some v -> nth_error g (N.to_nat (sidx y)) = Some v.

(* with locals: the slot of every visible name holds its value *)
Definition slot_holds (y : symbol) (v : value) (ls gs : list value) : Prop :=
  match sscp y with
  | GlobalScope => nth_error gs (N.to_nat (sidx y)) = Some v
  | LocalScope => nth_error ls (N.to_nat (sidx y)) = Some v
  end.
Definition vars_hold (env : genv) (sym : symtab) (ls gs : list value) : Prop :=
  forall n y v, st_resolve n sym = Some y -> env n = Some v -> slot_holds y v ls gs.

Lemma globals_vars_hold env sym ls gs : sym_static sym -> globals_hold env sym gs -> vars_hold env sym ls gs.
Proof. intros HS HG n y v HR HE. unfold slot_holds. rewrite (HS n y HR). apply (HG n y v HR HE). Qed.

Definition run_to (p : program) (s : vmstate) (len : nat) (v : value) : Prop :=
  exists n, vm_steps n p s =
            Running {| ip := ip s + N.of_nat len; ostack := v :: ostack s; locals := locals s; globals := globals s |}.

Definition expr_correct (e : expr) : Prop :=
  forall env st st' v,
    compile_expr true e st = COk st' -> eval_expr env e = Some v ->
    csym st' = csym st /\
    exists seg newc,
      ccode st' = ccode st ++ seg /\ cconsts st' = cconsts st ++ newc /\
      forall p s more pre post,
        pcode p = pre ++ seg ++ post ->
        pconsts p = map const_value (cconsts st') ++ more ->
        ip s = N.of_nat (List.length pre) ->
        vars_hold env (csym st) (locals s) (globals s) ->
        N.of_nat (List.length (locals s)) + N.of_nat (List.length (ostack s)) + edepth e <= StackSize ->
        run_to p s (List.length seg) v.

Lemma run_one p s len v s1 :
  vm_step p s = Running s1 ->
  s1 = {| ip := ip s + N.of_nat len; ostack := v :: ostack s; locals := locals s; globals := globals s |} ->
  run_to p s len v.
Proof. intros H ->. exists 1%nat. simpl. rewrite H. reflexivity. Qed.

Lemma nth_error_map_app {A B} (f : A -> B) l x more :
  nth_error (map f (l ++ [x]) ++ more) (List.length l) = Some (f x).
Proof.
  rewrite nth_error_app1 by (rewrite map_length, app_length; simpl; lia).
  rewrite map_app. rewrite nth_error_app2 by (rewrite map_length; lia).
  rewrite map_length, Nat.sub_diag. reflexivity.
Qed.

(* a constant: OpConstant idx *)
Lemma const_correct k st st' :
  emit_const true k st = COk st' ->
  csym st' = csym st /\
  exists seg, ccode st' = ccode st ++ seg /\ cconsts st' = cconsts st ++ [k] /\
    forall p s more pre post,
      pcode p = pre ++ seg ++ post ->
      pconsts p = map const_value (cconsts st') ++ more ->
      ip s = N.of_nat (List.length pre) ->
      N.of_nat (List.length (locals s)) + N.of_nat (List.length (ostack s)) + 1 <= StackSize ->
      run_to p s (List.length seg) (const_value k).
Proof.
  unfold emit_const. intro H. apply emit_ok in H. destruct H as (ins & HM & ->). cbn [csym ccode cconsts].
  split; [reflexivity|]. exists ins. split; [reflexivity|]. split; [reflexivity|].
  intros p s more pre post HC HK HI HR.
  pose proof (make_some_range Constant _ _ eq_refl HM) as HRng.
  destruct (make_arg_bytes Constant (Z.of_nat (List.length (cconsts st)))) as (hi & lo & HM' & E); [reflexivity|lia|].
  rewrite HM in HM'. inversion HM'; subst ins; clear HM'.
  eapply run_one.
  - rewrite (fetch_arg p s Constant hi lo pre post HC HI eq_refl).
    apply (exec_pure p s Constant _ _ 0 (const_value k)); try reflexivity.
    + simpl. lia.
    + cbn [pure_sem]. rewrite E, HK.
      replace (N.to_nat (Z.to_N (Z.of_nat (List.length (cconsts st))))) with (List.length (cconsts st)) by lia.
      rewrite nth_error_map_app. reflexivity.
    + change (N.to_nat 0) with 0%nat. lia.
  - reflexivity.
Qed.

Lemma edepth_pos e : 1 <= edepth e.
Proof. induction e; simpl; lia. Qed.

(* a no-operand pure instruction appended by emit, executed *)
Lemma noarg_step o st2 st' :
  emit true o [] st2 = COk st' -> has_operand o = false ->
  csym st' = csym st2 /\ cconsts st' = cconsts st2 /\ ccode st' = ccode st2 ++ [N_of_opc o].
Proof.
  intros H HO. apply emit_ok in H. destruct H as (ins & HM & ->).
  rewrite (make_noarg_bytes o HO) in HM. inversion HM; subst. auto.
Qed.

Lemma binop_correct op lt rt st2 st' a b v :
  compile_binop true op lt rt st2 = COk st' -> eval_binop op lt rt a b = Some v ->
  exists o, emit true o [] st2 = COk st' /\ is_pure o = true /\ has_operand o = false /\
            (forall arg, simple_effect o arg = Some (2, 1)) /\
            forall arg cs ls gs, pure_sem o arg cs ls gs [b; a] = POk v.
Proof.
  intros HC HE. unfold compile_binop in HC. unfold eval_binop in HE.
  destruct op;
    try (destruct (val_equals a b) as [t|] eqn:EV; [|discriminate]; inversion HE; subst;
         (eexists; split; [exact HC|]; split; [reflexivity|]; split; [reflexivity|]; split; [reflexivity|];
          intros arg cs ls gs; cbn [pure_sem]; rewrite EV; reflexivity));
    try (destruct lt, rt; try discriminate; destruct a, b; try discriminate;
         cbn [num_binop str_binop] in HC;
         (eexists; split; [exact HC|]; split; [reflexivity|]; split; [reflexivity|]; split; [reflexivity|];
          intros arg cs ls gs; cbn [pure_sem num2 str2];
          repeat match type of HE with
                 | context [if ?c then _ else _] => destruct c
                 | context [match arr_repeat ?g ?r ?l with _ => _ end] => destruct (arr_repeat g r l)
                 end;
          try discriminate; inversion HE; reflexivity)).
Qed.

Lemma unop_correct op st1 st' a v :
  (match op with
   | UMinus => emit true Minus [] st1
   | UBang => emit true Not [] st1
   | UOtherOp => CErr ErrUnknownOperator
   end) = COk st' ->
  (match op with
   | UMinus => match a with VNum f => Some (VNum (- f)) | _ => None end
   | UBang => match a with VBool b => Some (VBool (negb b)) | _ => None end
   | UOtherOp => None
   end) = Some v ->
  exists o, emit true o [] st1 = COk st' /\ is_pure o = true /\ has_operand o = false /\
            (forall arg, simple_effect o arg = Some (1, 1)) /\
            forall arg cs ls gs, pure_sem o arg cs ls gs [a] = POk v.
Proof.
  intros HC HE. destruct op; try discriminate; destruct a; try discriminate; inversion HE; subst;
    (eexists; split; [exact HC|]; repeat split).
Qed.

(* all the values of a list on the stack, the first one deepest *)
Definition run_tol (p : program) (s : vmstate) (len : nat) (vs : list value) : Prop :=
  exists n, vm_steps n p s =
            Running {| ip := ip s + N.of_nat len; ostack := rev vs ++ ostack s; locals := locals s; globals := globals s |}.

Definition elist_correct (l : elist) : Prop :=
  forall env st st' vs,
    compile_elist true l st = COk st' -> eval_list env l = Some vs ->
    csym st' = csym st /\
    exists seg newc,
      ccode st' = ccode st ++ seg /\ cconsts st' = cconsts st ++ newc /\
      forall p s more pre post,
        pcode p = pre ++ seg ++ post ->
        pconsts p = map const_value (cconsts st') ++ more ->
        ip s = N.of_nat (List.length pre) ->
        vars_hold env (csym st) (locals s) (globals s) ->
        N.of_nat (List.length (locals s)) + N.of_nat (List.length (ostack s)) + edepth_list l <= StackSize ->
        run_tol p s (List.length seg) vs.

Lemma eval_list_len env : forall l vs, eval_list env l = Some vs -> Z.of_nat (List.length vs) = elist_len l.
Proof.
  induction l as [|e t IH]; intros vs H; simpl in H.
  - inversion H; reflexivity.
  - destruct (eval_expr env e); [|discriminate]. destruct (eval_list env t) as [vt|] eqn:E; [|discriminate].
    inversion H; subst. cbn [List.length elist_len]. rewrite <- (IH vt eq_refl). lia.
Qed.

(* the pairs of a map literal on the stack: key, value, key, value, …, the first key deepest *)
Definition flatp (m : list (list N * value)) : list value := flat_map (fun kv => [VStr (fst kv); snd kv]) m.

Definition pairs_correct (l : eplist) : Prop :=
  forall env st st' m,
    compile_pairs true l st = COk st' -> eval_pairs env l = Some m ->
    csym st' = csym st /\
    exists seg newc,
      ccode st' = ccode st ++ seg /\ cconsts st' = cconsts st ++ newc /\
      forall p s more pre post,
        pcode p = pre ++ seg ++ post ->
        pconsts p = map const_value (cconsts st') ++ more ->
        ip s = N.of_nat (List.length pre) ->
        vars_hold env (csym st) (locals s) (globals s) ->
        N.of_nat (List.length (locals s)) + N.of_nat (List.length (ostack s)) + edepth_pairs l <= StackSize ->
        run_tol p s (List.length seg) (flatp m).

Lemma eval_pairs_len env : forall l m, eval_pairs env l = Some m -> Z.of_nat (List.length m) = pairs_len l.
Proof.
  induction l as [|k e t IH]; intros m H; simpl in H.
  - inversion H; reflexivity.
  - destruct (eval_expr env e); [|discriminate]. destruct (eval_pairs env t) as [mt|] eqn:E; [|discriminate].
    inversion H; subst. cbn [List.length pairs_len]. rewrite <- (IH mt eq_refl). lia.
Qed.

Lemma flatp_length m : List.length (flatp m) = (2 * List.length m)%nat.
Proof. induction m as [|kv t IH]; [reflexivity|]. cbn [flatp flat_map app List.length] in *. unfold flatp in IH. rewrite IH. lia. Qed.

(* OpMap rebuilds the pairs in source order from the popped values *)
Lemma map_pairs_flat : forall m acc, map_pairs (rev (flatp m)) acc = Some (m ++ acc).
Proof.
  induction m as [|[k v] t IH] using rev_ind; intro acc; [reflexivity|].
  unfold flatp. rewrite flat_map_app. cbn [flat_map fst snd app]. rewrite rev_app_distr. cbn [rev app map_pairs].
  fold (flatp t). rewrite IH, <- app_assoc. reflexivity.
Qed.

(* an optional slice bound: the expression, or OpNone *)
Definition oexpr_correct (o : oexpr) : Prop :=
  forall env st st' v,
    compile_oexpr true o st = COk st' -> eval_oexpr env o = Some v ->
    csym st' = csym st /\
    exists seg newc,
      ccode st' = ccode st ++ seg /\ cconsts st' = cconsts st ++ newc /\
      forall p s more pre post,
        pcode p = pre ++ seg ++ post ->
        pconsts p = map const_value (cconsts st') ++ more ->
        ip s = N.of_nat (List.length pre) ->
        vars_hold env (csym st) (locals s) (globals s) ->
        N.of_nat (List.length (locals s)) + N.of_nat (List.length (ostack s)) + edepth_o o <= StackSize ->
        run_to p s (List.length seg) v.

Lemma edepth_o_pos o : 1 <= edepth_o o.
Proof. destruct o; cbn [edepth_o]; [lia|apply edepth_pos]. Qed.

Theorem compile_expr_correct_all :
  (forall e, efrag e = true -> expr_correct e) /\
  (forall l, efrag_list l = true -> elist_correct l) /\
  (forall l, efrag_pairs l = true -> pairs_correct l) /\
  (forall o, efrag_o o = true -> oexpr_correct o).
Proof.
  apply expr_mutind; try (intros; exact I).
  - (* ENum *) intros f HF; unfold expr_correct; intros env st st' v HC HE.
    simpl in HC, HE. inversion HE; subst v. destruct (const_correct _ _ _ HC) as (A & seg & B & C & D).
    split; [exact A|]. exists seg, [KNum f]. split; [exact B|]. split; [exact C|].
    intros p s more pre post H1 H2 H4 _ H6. eapply (D p s more pre post); eauto.
  - (* EBool *) intros b HF; unfold expr_correct; intros env st st' v HC HE.
    simpl in HC, HE. inversion HE; subst v.
    assert (HO : has_operand (if b then OTrue else OFalse) = false) by (destruct b; reflexivity).
    destruct (noarg_step _ _ _ HC HO) as (A & B & C).
    split; [exact A|]. exists [N_of_opc (if b then OTrue else OFalse)], []. split; [exact C|].
    split; [rewrite app_nil_r; exact B|].
    intros p s more pre post H1 H2 H4 _ H6. simpl in H6. eapply run_one.
    + rewrite (fetch_noarg p s _ pre post H1 H4 HO).
      apply (exec_pure p s _ _ _ 0 (VBool b)); try (destruct b; reflexivity).
      * simpl; lia.
      * change (N.to_nat 0) with 0%nat. lia.
    + reflexivity.
  - (* EStr *) intros s HF; unfold expr_correct; intros env st st' v HC HE.
    simpl in HC, HE. inversion HE; subst v. destruct (const_correct _ _ _ HC) as (A & seg & B & C & D).
    split; [exact A|]. exists seg, [KStr s]. split; [exact B|]. split; [exact C|].
    intros p s0 more pre post H1 H2 H4 _ H6. eapply (D p s0 more pre post); eauto.
  - (* EVar *) intros n HF; unfold expr_correct; intros env st st' v HC HE.
    simpl in HC, HE. unfold compile_var in HC.
    destruct (st_resolve n (csym st)) as [y|] eqn:ER; [|discriminate].
    assert (exists o, emit true o [Z.of_N (sidx y)] st = COk st' /\ has_operand o = true /\ is_pure o = true /\
                      (forall arg, simple_effect o arg = Some (0%N, 1%N)) /\
                      forall cs ls gs, slot_holds y v ls gs -> pure_sem o (sidx y) cs ls gs [] = POk v) as (o & HEm & HO & HP & HSE & HPS).
    { unfold slot_holds. destruct (sscp y); [exists GetGlobal|exists GetLocal]; (split; [exact HC|]); repeat split;
        intros cs ls gs HH; cbn [pure_sem]; rewrite HH; reflexivity. }
    apply emit_ok in HEm. destruct HEm as (ins & HM & ->). cbn [csym ccode cconsts].
    pose proof (make_some_range o _ _ HO HM) as HRng.
    destruct (make_arg_bytes o (Z.of_N (sidx y)) HO) as (hi & lo & HM' & E); [lia|].
    rewrite HM in HM'. inversion HM'; subst ins; clear HM'.
    split; [reflexivity|]. exists [N_of_opc o; hi; lo], []. split; [reflexivity|].
    split; [rewrite app_nil_r; reflexivity|].
    intros p s more pre post H1 H2 H4 H5 H6. simpl in H6. eapply run_one.
    + rewrite (fetch_arg p s o hi lo pre post H1 H4 HO).
      apply (exec_pure p s o _ _ 0 v HP (HSE _)).
      * simpl; lia.
      * cbn [firstn N.to_nat]. rewrite E, N2Z.id. apply HPS. apply (H5 _ _ _ ER HE).
      * change (N.to_nat 0) with 0%nat. lia.
    + reflexivity.
  - (* EArr *) intros l IHl HF; unfold expr_correct; intros env st st' v HC HE.
    cbn [efrag] in HF. simpl in HC. bind_inv HC. cbn [eval_expr] in HE.
    destruct (eval_list env l) as [vs|] eqn:Evs; [|discriminate]. cbn [option_map] in HE. inversion HE; subst v.
    destruct (IHl HF env st st0 vs H Evs) as (A & seg & newc & B & C & D).
    apply emit_ok in HC. destruct HC as (ins & HM & ->). cbn [csym ccode cconsts].
    pose proof (make_some_range Array _ _ eq_refl HM) as HRng.
    destruct (make_arg_bytes Array (elist_len l)) as (hi & lo & HM' & E); [reflexivity|lia|].
    rewrite HM in HM'. inversion HM'; subst ins; clear HM'.
    pose proof (eval_list_len env l vs Evs) as HLen.
    split; [exact A|]. exists (seg ++ [N_of_opc Array; hi; lo]), newc.
    split; [rewrite B, app_assoc; reflexivity|]. split; [exact C|].
    intros p s more pre post H1 H2 H4 H5 H6. cbn [edepth] in H6.
    assert (R1 : run_tol p s (List.length seg) vs).
    { eapply (D p s more pre ([N_of_opc Array; hi; lo] ++ post)).
      - rewrite H1, <- !app_assoc. reflexivity.
      - exact H2.
      - exact H4.
      - exact H5.
      - lia. }
    destruct R1 as (n1 & R1).
    set (s1 := {| ip := ip s + N.of_nat (List.length seg); ostack := rev vs ++ ostack s; locals := locals s; globals := globals s |}) in *.
    exists (n1 + 1)%nat. eapply vm_steps_trans; [exact R1|]. simpl.
    rewrite (fetch_arg p s1 Array hi lo (pre ++ seg) post); [|rewrite H1, <- !app_assoc; reflexivity|unfold s1; simpl; rewrite H4, app_length; lia|reflexivity].
    assert (EN : N.to_nat (hi * 256 + lo) = List.length (rev vs)) by (rewrite rev_length, E; lia).
    rewrite (exec_pure p s1 Array _ _ (hi * 256 + lo)%N (VArr vs)); try reflexivity.
    + unfold s1; simpl. rewrite EN, skipn_app, skipn_all, Nat.sub_diag. cbn [skipn app].
      rewrite app_length. simpl. f_equal. f_equal. lia.
    + unfold s1; simpl. rewrite EN, app_length. lia.
    + unfold s1; simpl. rewrite EN, firstn_app, firstn_all, Nat.sub_diag. cbn [firstn]. rewrite app_nil_r.
      cbn [pure_sem]. rewrite rev_involutive. reflexivity.
    + unfold s1; simpl. rewrite EN, app_length. replace (List.length (rev vs) + List.length (ostack s) - List.length (rev vs))%nat with (List.length (ostack s)) by lia. lia.
  - (* EMap *) intros kvs IHl np HF; unfold expr_correct; intros env st st' v HC HE.
    cbn [efrag] in HF. apply andb_true_iff in HF. destruct HF as [HNP HF]. apply Z.eqb_eq in HNP. subst np.
    simpl in HC. bind_inv HC. cbn [eval_expr] in HE.
    destruct (eval_pairs env kvs) as [m|] eqn:Evs; [|discriminate]. cbn [option_map] in HE. inversion HE; subst v.
    destruct (IHl HF env st st0 m H Evs) as (A & seg & newc & B & C & D).
    apply emit_ok in HC. destruct HC as (ins & HM & ->). cbn [csym ccode cconsts].
    pose proof (make_some_range Map _ _ eq_refl HM) as HRng.
    destruct (make_arg_bytes Map (pairs_len kvs)) as (hi & lo & HM' & E); [reflexivity|lia|].
    rewrite HM in HM'. inversion HM'; subst ins; clear HM'.
    pose proof (eval_pairs_len env kvs m Evs) as HLen.
    split; [exact A|]. exists (seg ++ [N_of_opc Map; hi; lo]), newc.
    split; [rewrite B, app_assoc; reflexivity|]. split; [exact C|].
    intros p s more pre post H1 H2 H4 H5 H6. cbn [edepth] in H6.
    assert (R1 : run_tol p s (List.length seg) (flatp m)).
    { eapply (D p s more pre ([N_of_opc Map; hi; lo] ++ post)).
      - rewrite H1, <- !app_assoc. reflexivity.
      - exact H2.
      - exact H4.
      - exact H5.
      - lia. }
    destruct R1 as (n1 & R1).
    set (s1 := {| ip := ip s + N.of_nat (List.length seg); ostack := rev (flatp m) ++ ostack s; locals := locals s; globals := globals s |}) in *.
    exists (n1 + 1)%nat. eapply vm_steps_trans; [exact R1|]. simpl.
    rewrite (fetch_arg p s1 Map hi lo (pre ++ seg) post); [|rewrite H1, <- !app_assoc; reflexivity|unfold s1; simpl; rewrite H4, app_length; lia|reflexivity].
    assert (EN : N.to_nat (2 * (hi * 256 + lo)) = List.length (rev (flatp m))) by (rewrite rev_length, flatp_length, E; lia).
    rewrite (exec_pure p s1 Map _ _ (2 * (hi * 256 + lo))%N (VMap m)); try reflexivity.
    + unfold s1; cbn [ostack locals globals ip]. rewrite EN, skipn_app, skipn_all, Nat.sub_diag. cbn [skipn app].
      rewrite app_length. cbn [List.length]. f_equal. f_equal. lia.
    + unfold s1; cbn [ostack locals globals ip]. rewrite EN, app_length. lia.
    + unfold s1; cbn [ostack locals globals ip]. rewrite EN, firstn_app, firstn_all, Nat.sub_diag. cbn [firstn]. rewrite app_nil_r.
      cbn [pure_sem]. rewrite map_pairs_flat, app_nil_r. reflexivity.
    + unfold s1; cbn [ostack locals globals ip]. rewrite EN, app_length. replace (List.length (rev (flatp m)) + List.length (ostack s) - List.length (rev (flatp m)))%nat with (List.length (ostack s)) by lia. lia.
  - (* EUn *) intros op e IHe HF; try (destruct op; discriminate HF); unfold expr_correct; intros env st st' v HC HE.
    assert (HF1 : efrag e = true) by (destruct op; simpl in HF; congruence).
    specialize (IHe HF1). simpl in HC. bind_inv HC.
    assert (exists a, eval_expr env e = Some a /\
              (match op with
               | UMinus => match a with VNum f => Some (VNum (- f)) | _ => None end
               | UBang => match a with VBool b => Some (VBool (negb b)) | _ => None end
               | UOtherOp => None
               end) = Some v) as (a & Ha & Hv).
    { simpl in HE. destruct op; try discriminate; destruct (eval_expr env e) as [a|]; try discriminate; eauto. }
    destruct (IHe env st st0 a H Ha) as (A & seg & newc & B & C & D).
    destruct (unop_correct _ _ _ _ _ HC Hv) as (o & HEm & HP & HO & HSE & HPS).
    destruct (noarg_step _ _ _ HEm HO) as (A' & B' & C').
    split; [congruence|]. exists (seg ++ [N_of_opc o]), newc.
    split; [rewrite C', B, app_assoc; reflexivity|]. split; [congruence|].
    intros p s more pre post H1 H2 H4 H5 H6.
    assert (R1 : run_to p s (List.length seg) a).
    { eapply (D p s more pre ([N_of_opc o] ++ post)).
      - rewrite H1, <- !app_assoc. reflexivity.
      - rewrite H2, B'. reflexivity.
      - exact H4.
      - exact H5.
      - simpl in H6. exact H6. }
    destruct R1 as (n1 & R1). set (s1 := {| ip := ip s + N.of_nat (List.length seg); ostack := a :: ostack s; locals := locals s; globals := globals s |}) in *.
    exists (n1 + 1)%nat. eapply vm_steps_trans; [exact R1|]. simpl.
    rewrite (fetch_noarg p s1 o (pre ++ seg) post); [|rewrite H1, <- !app_assoc; reflexivity|unfold s1; simpl; rewrite H4, app_length; lia|exact HO].
    rewrite (exec_pure p s1 o 0 _ 1 v HP (HSE 0)).
    + unfold s1; simpl. rewrite app_length. simpl. f_equal. f_equal. lia.
    + unfold s1; simpl; lia.
    + unfold s1; simpl. apply HPS.
    + unfold s1; simpl. pose proof (edepth_pos e). simpl in H6. lia.
  - (* EBin *) intros op lt rt e1 IHe1 e2 IHe2 HF; unfold expr_correct; intros env st st' v HC HE.
    simpl in HF. apply andb_true_iff in HF. destruct HF as [HF1 HF2].
    specialize (IHe1 HF1). specialize (IHe2 HF2). simpl in HC. bind_inv HC. bind_inv H.
    simpl in HE. destruct (eval_expr env e1) as [a|] eqn:Ea; [|discriminate].
    destruct (eval_expr env e2) as [b|] eqn:Eb; [|discriminate].
    destruct (IHe1 env st st1 a H0 Ea) as (A1 & seg1 & newc1 & B1 & C1 & D1).
    destruct (IHe2 env st1 st0 b H Eb) as (A2 & seg2 & newc2 & B2 & C2 & D2).
    destruct (binop_correct _ _ _ _ _ _ _ _ HC HE) as (o & HEm & HP & HO & HSE & HPS).
    destruct (noarg_step _ _ _ HEm HO) as (A' & B' & C').
    split; [congruence|]. exists (seg1 ++ seg2 ++ [N_of_opc o]), (newc1 ++ newc2).
    split; [rewrite C', B2, B1, <- !app_assoc; reflexivity|].
    split; [rewrite B', C2, C1, <- app_assoc; reflexivity|].
    intros p s more pre post H1 H2 H4 H5 H6. cbn [edepth] in H6.
    assert (R1 : run_to p s (List.length seg1) a).
    { eapply (D1 p s (map const_value newc2 ++ more) pre (seg2 ++ [N_of_opc o] ++ post)).
      - rewrite H1, <- !app_assoc. reflexivity.
      - rewrite H2, B', C2, map_app, <- app_assoc. reflexivity.
      - exact H4.
      - exact H5.
      - pose proof (N.le_max_l (edepth e1) (1 + edepth e2)). lia. }
    destruct R1 as (n1 & R1).
    set (s1 := {| ip := ip s + N.of_nat (List.length seg1); ostack := a :: ostack s; locals := locals s; globals := globals s |}) in *.
    assert (R2 : run_to p s1 (List.length seg2) b).
    { eapply (D2 p s1 more (pre ++ seg1) ([N_of_opc o] ++ post)).
      - rewrite H1, <- !app_assoc. reflexivity.
      - rewrite H2, B'. reflexivity.
      - unfold s1; simpl. rewrite H4, app_length. lia.
      - unfold s1; simpl. rewrite A1. exact H5.
      - unfold s1; cbn [ostack locals List.length]. pose proof (N.le_max_r (edepth e1) (1 + edepth e2)). lia. }
    destruct R2 as (n2 & R2).
    set (s2 := {| ip := ip s1 + N.of_nat (List.length seg2); ostack := b :: ostack s1; locals := locals s1; globals := globals s1 |}) in *.
    exists (n1 + (n2 + 1))%nat. eapply vm_steps_trans; [exact R1|]. eapply vm_steps_trans; [exact R2|]. simpl.
    rewrite (fetch_noarg p s2 o (pre ++ seg1 ++ seg2) post);
      [|rewrite H1, <- !app_assoc; reflexivity|unfold s2, s1; simpl; rewrite H4, !app_length; lia|exact HO].
    rewrite (exec_pure p s2 o 0 _ 2 v HP (HSE 0)).
    + unfold s2, s1; simpl. rewrite !app_length. simpl. f_equal. f_equal. lia.
    + unfold s2, s1; simpl; lia.
    + unfold s2, s1; simpl. apply HPS.
    + unfold s2, s1; simpl. pose proof (edepth_pos e2). lia.
  - (* EIndex *) intros e1 IHe1 e2 IHe2 HF; unfold expr_correct; intros env st st' v HC HE.
    simpl in HF. apply andb_true_iff in HF. destruct HF as [HF1 HF2].
    specialize (IHe1 HF1). specialize (IHe2 HF2). simpl in HC. bind_inv HC. bind_inv H.
    simpl in HE. destruct (eval_expr env e1) as [a|] eqn:Ea; [|discriminate].
    destruct (eval_expr env e2) as [b|] eqn:Eb; [|discriminate].
    destruct (IHe1 env st st1 a H0 Ea) as (A1 & seg1 & newc1 & B1 & C1 & D1).
    destruct (IHe2 env st1 st0 b H Eb) as (A2 & seg2 & newc2 & B2 & C2 & D2).
    assert (exists o, emit true o [] st0 = COk st' /\ is_pure o = true /\ has_operand o = false /\
              (forall arg, simple_effect o arg = Some (2, 1)) /\
              forall arg cs ls gs, pure_sem o arg cs ls gs [b; a] = POk v) as (o & HEm & HP & HO & HSE & HPS).
    { exists Index. split; [exact HC|]. repeat split. intros arg cs ls gs. cbn [pure_sem].
      destruct (index_value a b); inversion HE; reflexivity. }
    destruct (noarg_step _ _ _ HEm HO) as (A' & B' & C').
    split; [congruence|]. exists (seg1 ++ seg2 ++ [N_of_opc o]), (newc1 ++ newc2).
    split; [rewrite C', B2, B1, <- !app_assoc; reflexivity|].
    split; [rewrite B', C2, C1, <- app_assoc; reflexivity|].
    intros p s more pre post H1 H2 H4 H5 H6. cbn [edepth] in H6.
    assert (R1 : run_to p s (List.length seg1) a).
    { eapply (D1 p s (map const_value newc2 ++ more) pre (seg2 ++ [N_of_opc o] ++ post)).
      - rewrite H1, <- !app_assoc. reflexivity.
      - rewrite H2, B', C2, map_app, <- app_assoc. reflexivity.
      - exact H4.
      - exact H5.
      - pose proof (N.le_max_l (edepth e1) (1 + edepth e2)). lia. }
    destruct R1 as (n1 & R1).
    set (s1 := {| ip := ip s + N.of_nat (List.length seg1); ostack := a :: ostack s; locals := locals s; globals := globals s |}) in *.
    assert (R2 : run_to p s1 (List.length seg2) b).
    { eapply (D2 p s1 more (pre ++ seg1) ([N_of_opc o] ++ post)).
      - rewrite H1, <- !app_assoc. reflexivity.
      - rewrite H2, B'. reflexivity.
      - unfold s1; simpl. rewrite H4, app_length. lia.
      - unfold s1; simpl. rewrite A1. exact H5.
      - unfold s1; cbn [ostack locals List.length]. pose proof (N.le_max_r (edepth e1) (1 + edepth e2)). lia. }
    destruct R2 as (n2 & R2).
    set (s2 := {| ip := ip s1 + N.of_nat (List.length seg2); ostack := b :: ostack s1; locals := locals s1; globals := globals s1 |}) in *.
    exists (n1 + (n2 + 1))%nat. eapply vm_steps_trans; [exact R1|]. eapply vm_steps_trans; [exact R2|]. simpl.
    rewrite (fetch_noarg p s2 o (pre ++ seg1 ++ seg2) post);
      [|rewrite H1, <- !app_assoc; reflexivity|unfold s2, s1; simpl; rewrite H4, !app_length; lia|exact HO].
    rewrite (exec_pure p s2 o 0 _ 2 v HP (HSE 0)).
    + unfold s2, s1; simpl. rewrite !app_length. simpl. f_equal. f_equal. lia.
    + unfold s2, s1; simpl; lia.
    + unfold s2, s1; simpl. apply HPS.
    + unfold s2, s1; simpl. pose proof (edepth_pos e2). lia.
  - (* ESlice *) intros l IHl a IHa b IHb HF; unfold expr_correct; intros env st st' v HC HE.
    cbn [efrag] in HF. apply andb_true_iff in HF. destruct HF as [HF HF3]. apply andb_true_iff in HF. destruct HF as [HF1 HF2].
    cbn [compile_expr] in HC.
    apply bind_ok in HC; destruct HC as (c3 & HC3 & HC). apply bind_ok in HC3; destruct HC3 as (c2 & HC2 & HCb).
    apply bind_ok in HC2; destruct HC2 as (c1 & HCl & HCa).
    cbn [eval_expr] in HE. destruct (eval_expr env l) as [x|] eqn:El; [|discriminate].
    destruct (eval_oexpr env a) as [va|] eqn:Ea; [|discriminate]. destruct (eval_oexpr env b) as [vb|] eqn:Eb; [|discriminate].
    destruct (IHl HF1 env st c1 x HCl El) as (A1 & seg1 & newc1 & B1 & C1 & D1).
    destruct (IHa HF2 env c1 c2 va HCa Ea) as (A2 & seg2 & newc2 & B2 & C2 & D2).
    destruct (IHb HF3 env c2 c3 vb HCb Eb) as (A3 & seg3 & newc3 & B3 & C3 & D3).
    assert (HPS : forall arg cs ls gs, pure_sem Slice arg cs ls gs [vb; va; x] = POk v).
    { intros arg cs ls gs. cbn [pure_sem]. destruct (slice_value x va vb); inversion HE; reflexivity. }
    destruct (noarg_step _ _ _ HC eq_refl) as (A' & B' & C').
    split; [congruence|]. exists (seg1 ++ seg2 ++ seg3 ++ [N_of_opc Slice]), (newc1 ++ newc2 ++ newc3).
    split; [rewrite C', B3, B2, B1, <- !app_assoc; reflexivity|].
    split; [rewrite B', C3, C2, C1, <- !app_assoc; reflexivity|].
    intros p s more pre post H1 H2 H4 H5 H6. cbn [edepth] in H6.
    pose proof (edepth_o_pos a) as Pa. pose proof (edepth_o_pos b) as Pb.
    assert (R1 : run_to p s (List.length seg1) x).
    { eapply (D1 p s (map const_value (newc2 ++ newc3) ++ more) pre (seg2 ++ seg3 ++ [N_of_opc Slice] ++ post)).
      - rewrite H1, <- !app_assoc. reflexivity.
      - rewrite H2, B', C3, C2, !map_app, <- !app_assoc. reflexivity.
      - exact H4.
      - exact H5.
      - lia. }
    destruct R1 as (n1 & R1).
    set (s1 := {| ip := ip s + N.of_nat (List.length seg1); ostack := x :: ostack s; locals := locals s; globals := globals s |}) in *.
    assert (R2 : run_to p s1 (List.length seg2) va).
    { eapply (D2 p s1 (map const_value newc3 ++ more) (pre ++ seg1) (seg3 ++ [N_of_opc Slice] ++ post)).
      - rewrite H1, <- !app_assoc. reflexivity.
      - rewrite H2, B', C3, map_app, <- app_assoc. reflexivity.
      - unfold s1; simpl. rewrite H4, app_length. lia.
      - unfold s1; simpl. rewrite A1. exact H5.
      - unfold s1; cbn [ostack locals List.length]. lia. }
    destruct R2 as (n2 & R2).
    set (s2 := {| ip := ip s1 + N.of_nat (List.length seg2); ostack := va :: ostack s1; locals := locals s1; globals := globals s1 |}) in *.
    assert (R3 : run_to p s2 (List.length seg3) vb).
    { eapply (D3 p s2 more (pre ++ seg1 ++ seg2) ([N_of_opc Slice] ++ post)).
      - rewrite H1, <- !app_assoc. reflexivity.
      - rewrite H2, B'. reflexivity.
      - unfold s2, s1; simpl. rewrite H4, !app_length. lia.
      - unfold s2, s1; simpl. rewrite A2, A1. exact H5.
      - unfold s2, s1; cbn [ostack locals List.length]. lia. }
    destruct R3 as (n3 & R3).
    set (s3 := {| ip := ip s2 + N.of_nat (List.length seg3); ostack := vb :: ostack s2; locals := locals s2; globals := globals s2 |}) in *.
    exists (n1 + (n2 + (n3 + 1)))%nat. eapply vm_steps_trans; [exact R1|]. eapply vm_steps_trans; [exact R2|]. eapply vm_steps_trans; [exact R3|]. simpl.
    rewrite (fetch_noarg p s3 Slice (pre ++ seg1 ++ seg2 ++ seg3) post);
      [|rewrite H1, <- !app_assoc; reflexivity|unfold s3, s2, s1; simpl; rewrite H4, !app_length; lia|reflexivity].
    rewrite (exec_pure p s3 Slice 0 _ 3 v eq_refl eq_refl).
    + unfold s3, s2, s1; simpl. rewrite !app_length. simpl. f_equal. f_equal. lia.
    + unfold s3, s2, s1; simpl; lia.
    + unfold s3, s2, s1; simpl. exact (HPS 0 [] [] []).
    + unfold s3, s2, s1; simpl. lia.
  - (* EGroup *) intros e IHe HF; unfold expr_correct; intros env st st' v HC HE.
    simpl in HF, HC, HE. destruct (IHe HF env st st' v HC HE) as (A & seg & newc & B & C & D).
    split; [exact A|]. exists seg, newc. split; [exact B|]. split; [exact C|]. exact D.
  - (* EUnsupported *) intros w HF. discriminate HF.
  - (* ENil *) intros _ env st st' vs HC HE. simpl in HC, HE. inversion HC; subst st'. inversion HE; subst vs.
    split; [reflexivity|]. exists [], []. split; [rewrite app_nil_r; reflexivity|]. split; [rewrite app_nil_r; reflexivity|].
    intros p s more pre post _ _ _ _ _. exists 0%nat. simpl. destruct s; simpl. f_equal. f_equal. lia.
  - (* ECons *) intros e IHe t IHt HF env st st' vs HC HE.
    cbn [efrag_list] in HF. apply andb_true_iff in HF. destruct HF as [HF1 HF2].
    simpl in HC. bind_inv HC. cbn [eval_list] in HE.
    destruct (eval_expr env e) as [v|] eqn:Ev; [|discriminate]. destruct (eval_list env t) as [vt|] eqn:Evt; [|discriminate].
    inversion HE; subst vs.
    destruct (IHe HF1 env st st0 v H Ev) as (A1 & seg1 & newc1 & B1 & C1 & D1).
    destruct (IHt HF2 env st0 st' vt HC Evt) as (A2 & seg2 & newc2 & B2 & C2 & D2).
    split; [congruence|]. exists (seg1 ++ seg2), (newc1 ++ newc2).
    split; [rewrite B2, B1, app_assoc; reflexivity|]. split; [rewrite C2, C1, app_assoc; reflexivity|].
    intros p s more pre post H1 H2 H4 H5 H6. cbn [edepth_list] in H6.
    assert (R1 : run_to p s (List.length seg1) v).
    { eapply (D1 p s (map const_value newc2 ++ more) pre (seg2 ++ post)).
      - rewrite H1, <- !app_assoc. reflexivity.
      - rewrite H2, C2, map_app, <- app_assoc. reflexivity.
      - exact H4.
      - exact H5.
      - lia. }
    destruct R1 as (n1 & R1).
    set (s1 := {| ip := ip s + N.of_nat (List.length seg1); ostack := v :: ostack s; locals := locals s; globals := globals s |}) in *.
    assert (R2 : run_tol p s1 (List.length seg2) vt).
    { eapply (D2 p s1 more (pre ++ seg1) post).
      - rewrite H1, <- !app_assoc. reflexivity.
      - exact H2.
      - unfold s1; simpl. rewrite H4, app_length. lia.
      - unfold s1; simpl. rewrite A1. exact H5.
      - unfold s1; cbn [ostack locals List.length]. lia. }
    destruct R2 as (n2 & R2).
    exists (n1 + n2)%nat. eapply vm_steps_trans; [exact R1|]. rewrite R2. unfold s1; simpl.
    rewrite app_length, <- app_assoc. simpl. f_equal. f_equal. lia.
  - (* PNil *) intros _ env st st' m HC HE. simpl in HC, HE. inversion HC; subst st'. inversion HE; subst m.
    split; [reflexivity|]. exists [], []. split; [rewrite app_nil_r; reflexivity|]. split; [rewrite app_nil_r; reflexivity|].
    intros p s more pre post _ _ _ _ _. exists 0%nat. simpl. destruct s; simpl. f_equal. f_equal. lia.
  - (* PCons *) intros k e IHe t IHt HF env st st' m HC HE.
    cbn [efrag_pairs] in HF. apply andb_true_iff in HF. destruct HF as [HF1 HF2].
    cbn [compile_pairs] in HC. bind_inv HC. bind_inv H. cbn [eval_pairs] in HE.
    destruct (eval_expr env e) as [v|] eqn:Ev; [|discriminate]. destruct (eval_pairs env t) as [mt|] eqn:Evt; [|discriminate].
    inversion HE; subst m.
    destruct (const_correct _ _ _ H0) as (A0 & seg0 & B0 & C0 & D0).
    destruct (IHe HF1 env st1 st0 v H Ev) as (A1 & seg1 & newc1 & B1 & C1 & D1).
    destruct (IHt HF2 env st0 st' mt HC Evt) as (A2 & seg2 & newc2 & B2 & C2 & D2).
    split; [congruence|]. exists (seg0 ++ seg1 ++ seg2), ([KStr k] ++ newc1 ++ newc2).
    split; [rewrite B2, B1, B0, <- !app_assoc; reflexivity|]. split; [rewrite C2, C1, C0, <- !app_assoc; reflexivity|].
    intros p s more pre post H1 H2 H4 H5 H6. cbn [edepth_pairs] in H6. pose proof (edepth_pos e) as HP.
    assert (R0 : run_to p s (List.length seg0) (const_value (KStr k))).
    { eapply (D0 p s (map const_value (newc1 ++ newc2) ++ more) pre (seg1 ++ seg2 ++ post)).
      - rewrite H1, <- !app_assoc. reflexivity.
      - rewrite H2, C2, C1, !map_app, <- !app_assoc. reflexivity.
      - exact H4.
      - lia. }
    destruct R0 as (n0 & R0).
    set (s0 := {| ip := ip s + N.of_nat (List.length seg0); ostack := const_value (KStr k) :: ostack s; locals := locals s; globals := globals s |}) in *.
    assert (R1 : run_to p s0 (List.length seg1) v).
    { eapply (D1 p s0 (map const_value newc2 ++ more) (pre ++ seg0) (seg2 ++ post)).
      - rewrite H1, <- !app_assoc. reflexivity.
      - rewrite H2, C2, map_app, <- app_assoc. reflexivity.
      - unfold s0; simpl. rewrite H4, app_length. lia.
      - unfold s0; simpl. rewrite A0. exact H5.
      - unfold s0; cbn [ostack locals List.length]. lia. }
    destruct R1 as (n1 & R1).
    set (s1 := {| ip := ip s0 + N.of_nat (List.length seg1); ostack := v :: ostack s0; locals := locals s0; globals := globals s0 |}) in *.
    assert (R2 : run_tol p s1 (List.length seg2) (flatp mt)).
    { eapply (D2 p s1 more (pre ++ seg0 ++ seg1) post).
      - rewrite H1, <- !app_assoc. reflexivity.
      - exact H2.
      - unfold s1, s0; simpl. rewrite H4, !app_length. lia.
      - unfold s1, s0; simpl. rewrite A1, A0. exact H5.
      - unfold s1, s0; cbn [ostack locals List.length]. lia. }
    destruct R2 as (n2 & R2).
    exists (n0 + (n1 + n2))%nat. eapply vm_steps_trans; [exact R0|]. eapply vm_steps_trans; [exact R1|]. rewrite R2. unfold s1, s0; simpl.
    rewrite !app_length, <- !app_assoc. simpl. f_equal. f_equal. lia.
  - (* ONoneE *) intros _ env st st' v HC HE. cbn [compile_oexpr] in HC. cbn [eval_oexpr] in HE. inversion HE; subst v.
    destruct (noarg_step _ _ _ HC eq_refl) as (A & B & C).
    split; [exact A|]. exists [N_of_opc ONone], []. split; [exact C|]. split; [rewrite app_nil_r; exact B|].
    intros p s more pre post H1 H2 H4 _ H6. cbn [edepth_o] in H6. eapply run_one.
    + rewrite (fetch_noarg p s ONone pre post H1 H4 eq_refl).
      apply (exec_pure p s ONone _ _ 0 VNone); try reflexivity.
      * simpl; lia.
      * change (N.to_nat 0) with 0%nat. lia.
    + reflexivity.
  - (* OSome *) intros e IHe HF env st st' v HC HE. cbn [efrag_o] in HF. cbn [compile_oexpr] in HC. cbn [eval_oexpr edepth_o] in *.
    exact (IHe HF env st st' v HC HE).
Qed.

Theorem compile_expr_correct_v : forall e, efrag e = true -> expr_correct e.
Proof. exact (proj1 compile_expr_correct_all). Qed.

(* the form without locals: every visible name is a global *)
Definition expr_correct_g (e : expr) : Prop :=
  forall env st st' v,
    compile_expr true e st = COk st' -> eval_expr env e = Some v -> sym_static (csym st) ->
    csym st' = csym st /\
    exists seg newc,
      ccode st' = ccode st ++ seg /\ cconsts st' = cconsts st ++ newc /\
      forall p s more pre post,
        pcode p = pre ++ seg ++ post ->
        pconsts p = map const_value (cconsts st') ++ more ->
        ip s = N.of_nat (List.length pre) ->
        globals_hold env (csym st) (globals s) ->
        N.of_nat (List.length (locals s)) + N.of_nat (List.length (ostack s)) + edepth e <= StackSize ->
        run_to p s (List.length seg) v.

Theorem compile_expr_correct : forall e, efrag e = true -> expr_correct_g e.
Proof.
  intros e HF env st st' v HC HE HS. destruct (compile_expr_correct_v e HF env st st' v HC HE) as (A & seg & newc & B & C & D).
  split; [exact A|]. exists seg, newc. split; [exact B|]. split; [exact C|].
  intros p s more pre post H1 H2 H4 H5 H6. apply (D p s more pre post H1 H2 H4); [|exact H6].
  apply globals_vars_hold; assumption.
Qed.
