(* CompileProofs.v — theorems about the compiler model. *)
From Coq Require Import ZArith NArith List Bool Lia ZifyBool ZifyNat ZifyN Floats.
From EvyV Require Import Base Bytecode BytecodeProofs SymTab Vm Compile.
Require Import EvyV.Gen.Opcodes.
Import ListNotations.
Open Scope Z_scope.

Scheme expr_mind := Induction for expr Sort Prop
  with elist_mind := Induction for elist Sort Prop
  with eplist_mind := Induction for eplist Sort Prop
  with oexpr_mind := Induction for oexpr Sort Prop.
Combined Scheme expr_mutind from expr_mind, elist_mind, eplist_mind, oexpr_mind.

Scheme stmt_mind := Induction for stmt Sort Prop
  with slist_mind := Induction for slist Sort Prop
  with clist_mind := Induction for clist Sort Prop
  with oslist_mind := Induction for oslist Sort Prop.
Combined Scheme stmt_mutind from stmt_mind, slist_mind, clist_mind, oslist_mind.

Lemma bind_ok r f st' : (r >>= f) = COk st' -> exists st1, r = COk st1 /\ f st1 = COk st'.
Proof. destruct r as [st1|e]; simpl; intro H; [eauto|discriminate]. Qed.

Ltac bind_inv H :=
  let st := fresh "st" in let H1 := fresh "H" in
  apply bind_ok in H; destruct H as (st & H1 & H).

(* ---------- the corrected compiler rejects everything outside the subset ---------- *)
Ltac binds := repeat match goal with H : (_ >>= _) = COk _ |- _ => bind_inv H end.
Ltac use_ih := repeat match goal with
  | IH : forall st st', _ = COk st' -> _ = true, H : _ = COk _ |- _ => rewrite (IH _ _ H); clear H
  end.

Lemma strict_expr_supported :
  (forall e st st', compile_expr true e st = COk st' -> supported_expr e = true) /\
  (forall l st st', compile_elist true l st = COk st' -> supported_elist l = true) /\
  (forall l st st', compile_pairs true l st = COk st' -> supported_pairs l = true) /\
  (forall o st st', compile_oexpr true o st = COk st' -> supported_oexpr o = true).
Proof.
  apply expr_mutind; intros; simpl in *; auto; binds; try (destruct op; try discriminate); use_ih; auto; try discriminate.
Qed.

Definition body_of (strict : bool) (l : slist) (st : cstate) : cres :=
  match l with
  | SNil => COk st
  | SCons s t => compile_stmt strict s st >>= compile_slist strict t
  end.

Lemma compile_slist_body strict l st : compile_slist strict l st = body_of strict l st.
Proof. destruct l; reflexivity. Qed.

Opaque emit emit_const.
Lemma strict_stmt_supported :
  (forall s st st', compile_stmt true s st = COk st' -> supported_stmt s = true) /\
  (forall l st st', body_of true l st = COk st' -> supported_slist l = true) /\
  (forall l jumps st st', fst (compile_elifs true l jumps st) = COk st' -> supported_clist l = true) /\
  (forall o, match o with
             | NoElse => True
             | Else b => forall st st', body_of true b st = COk st' -> supported_slist b = true
             end).
Proof.
  destruct strict_expr_supported as (SE & SL & SP & SO).
  assert (BLOCK : forall b, (forall st st', body_of true b st = COk st' -> supported_slist b = true) ->
                            forall st st', compile_block true b st = COk st' -> supported_slist b = true).
  { intros b Hb st st' H. destruct b as [|s t]; [reflexivity|]. simpl in H. bind_inv H.
    eapply Hb; simpl; eassumption. }
  assert (COND : forall c b, (forall st st', body_of true b st = COk st' -> supported_slist b = true) ->
                             forall st st', compile_cond true c b st = COk st' ->
                                            supported_expr c = true /\ supported_slist b = true).
  { intros c b Hb st st' H. destruct b as [|s t].
    - simpl in H. bind_inv H. split; [eapply SE; eassumption|reflexivity].
    - simpl in H. bind_inv H; bind_inv H; bind_inv H.
      split; [eapply SE; eassumption|]. eapply Hb; simpl; eassumption. }
  assert (FOR : forall lv rop n b, (forall st st', body_of true b st = COk st' -> supported_slist b = true) ->
                                   forall st st', for_loop true lv rop n b st = COk st' -> supported_slist b = true).
  { intros lv rop n b Hb st st' H. destruct b as [|s t]; [reflexivity|]. simpl in H.
    bind_inv H; bind_inv H; bind_inv H; bind_inv H. eapply Hb; simpl; eassumption. }
  Ltac derive SE SO BLOCK COND FOR SL SP :=
    repeat match goal with
    | H : compile_elist true _ _ = COk _ |- _ => apply SL in H
    | H : compile_pairs true _ _ = COk _ |- _ => apply SP in H
    | H : compile_expr true _ _ = COk _ |- _ => apply SE in H
    | H : compile_oexpr true _ _ = COk _ |- _ => apply SO in H
    | IH : (forall st st', body_of true ?b st = COk st' -> _), H : compile_block true ?b _ = COk _ |- _ =>
        apply (BLOCK _ IH) in H
    | IH : (forall st st', body_of true ?b st = COk st' -> _), H : compile_cond true _ ?b _ = COk _ |- _ =>
        apply (COND _ _ IH) in H; destruct H
    | IH : (forall st st', body_of true ?b st = COk st' -> _), H : for_loop true _ _ _ ?b _ = COk _ |- _ =>
        apply (FOR _ _ _ _ IH) in H
    end.
  Ltac finish := repeat match goal with H : _ = true |- _ => rewrite H; clear H end; simpl; auto.
  apply stmt_mutind; intros; simpl in *; auto.
  - (* SDecl *) binds. derive SE SO BLOCK COND FOR SL SP. finish.
  - (* SAssign *)
    match goal with H : _ = COk _ |- _ => bind_inv H; rename H into HT end.
    destruct target; simpl in *; binds;
      try (destruct (st_resolve _ _); [|discriminate]);
      try (destruct op; try discriminate);
      derive SE SO BLOCK COND FOR SL SP; try discriminate; finish.
  - (* SIf *)
    match goal with H : _ = COk _ |- _ => bind_inv H; rename H into HT end.
    match type of HT with context [compile_elifs true ?l ?j ?x] =>
      destruct (compile_elifs true l j x) as [r jumps] eqn:EE end.
    binds.
    match goal with IH : forall jumps st st', fst (compile_elifs true elifs jumps st) = COk st' -> _ |- _ =>
      erewrite IH by (rewrite EE; simpl; eassumption) end.
    destruct els; simpl in *; derive SE SO BLOCK COND FOR SL SP; finish.
  - (* SWhile *) binds. derive SE SO BLOCK COND FOR SL SP. finish.
  - (* SForStep *) binds. derive SE SO BLOCK COND FOR SL SP. destruct start, step; simpl in *; finish.
  - (* SForIter *) destruct t; try discriminate; binds; derive SE SO BLOCK COND FOR SL SP; finish.
  - (* SBlock *) derive SE SO BLOCK COND FOR SL SP. finish.
  - (* SUnsupported *) discriminate.
  - (* SCons *) binds.
    match goal with H : compile_slist true _ _ = COk _ |- _ => rewrite compile_slist_body in H end.
    repeat match goal with IH : forall st st', _ = COk st' -> _ = true, H : _ = COk _ |- _ => rewrite (IH _ _ H); clear H end.
    reflexivity.
  - (* CCons *)
    match goal with H : fst (match ?x with _ => _ end) = COk _ |- _ => destruct x eqn:EC; [|simpl in H; discriminate] end.
    derive SE SO BLOCK COND FOR SL SP. finish. eauto.
  - (* Else *) eauto.
Qed.

Transparent emit emit_const.

Theorem compile_fixed_rejects_unsupported : forall (p : slist) (st : cstate),
  compile_fixed p = COk st -> supported_slist p = true.
Proof.
  intros p st H. unfold compile_fixed, compile_program in H. rewrite compile_slist_body in H.
  destruct strict_stmt_supported as (_ & SL & _). eapply SL; eauto.
Qed.
