(* SemFresh.v — property C09, parts A1 and A4: what is fresh and what is shared.
   A1  copy_or_ref (the exact behaviour on each kind of cell)
   A4  indexing shares the element cell; slicing and + build a fresh array cell
       whose elements are copy_or_ref'd; * deep-copies: nothing reachable from
       the result existed before. *)
From Coq Require Import ZArith NArith PArith List String Bool Floats FMapPositive Lia.
From EvyV Require Import Base Num Ast Omap Sem SemStoreBase.
Import ListNotations.
Local Open Scope positive_scope.

(* ====================================================================== *)
(* A1                                                                      *)
(* ====================================================================== *)
(* arrays and maps: the same cell, nothing changes (for every positive fuel) *)
Theorem composite_shared fuel l s v :
  hget (st_heap s) l = Some v -> is_composite v = true ->
  copy_or_ref (S fuel) l s = (Ok l, s).
Proof.
  intros H C. simpl. unfold bindM, load. rewrite H. destruct v; try discriminate; reflexivity.
Qed.

(* basic cells: one allocation at hnext, holding the same value *)
Theorem basic_copied fuel l s v :
  hget (st_heap s) l = Some v -> is_basic v = true ->
  copy_or_ref (S fuel) l s = (Ok (hnext (st_heap s)), upd_heap (snd (halloc (st_heap s) v)) s).
Proof.
  intros H C. simpl. unfold bindM, load. rewrite H. destruct v; try discriminate; reflexivity.
Qed.

Lemma copy_rel_basic_inv N h' l c v :
  hget h' l = Some v -> is_basic v = true -> copy_rel N h' l c -> N <= c /\ hget h' c = Some v.
Proof.
  intros H B C. destruct C as [l c w Hw Bw Hc Hn | l w Hw Cw | l c t i i' Hw].
  - rewrite H in Hw; inversion Hw; subst; auto.
  - rewrite H in Hw; inversion Hw; subst. destruct w; discriminate.
  - rewrite H in Hw; inversion Hw; subst. discriminate.
Qed.
Lemma copy_rel_composite_inv N h' l c v :
  hget h' l = Some v -> is_composite v = true -> copy_rel N h' l c -> c = l.
Proof.
  intros H B C. destruct C as [l c w Hw Bw Hc Hn | l w Hw Cw | l c t i i' Hw]; auto.
  - rewrite H in Hw; inversion Hw; subst. destruct w; discriminate.
  - rewrite H in Hw; inversion Hw; subst. discriminate.
Qed.
Lemma copy_rel_any_inv N h' l c t i :
  hget h' l = Some (HAny t i) -> copy_rel N h' l c ->
  N <= c /\ exists i', hget h' c = Some (HAny t i') /\ c <> i' /\ copy_rel N h' i i'.
Proof.
  intros H C. destruct C as [l c w Hw Bw Hc Hn | l w Hw Cw | l c t' i0 i' Hw].
  - rewrite H in Hw; inversion Hw; subst. discriminate.
  - rewrite H in Hw; inversion Hw; subst. discriminate.
  - rewrite H in Hw; inversion Hw; subst. eauto.
Qed.

(* A1, in one statement: whatever the fuel, a successful copy_or_ref only extends the heap
   (every existing cell keeps its content, nothing but the heap changes) and
   - for a num/string/bool cell the result is a cell that did not exist, holding an equal value;
   - for an array/map cell the result is the cell itself;
   - for an any cell the result is a box that did not exist, whose content is, recursively,
     the copy_or_ref of the old content (fresh for a basic content, shared for a composite). *)
Theorem copy_or_ref_fresh fuel l s c s' :
  wf s -> copy_or_ref fuel l s = (Ok c, s') ->
  wf s' /\ heap_extends (st_heap s) (st_heap s') /\ s' = upd_heap (st_heap s') s /\
  copy_rel (hnext (st_heap s)) (st_heap s') l c /\
  match hget (st_heap s) l with
  | Some (HNum _ as v) | Some (HStr _ as v) | Some (HBool _ as v) =>
      hnext (st_heap s) <= c /\ hget (st_heap s) c = None /\ hget (st_heap s') c = Some v
  | Some (HArr _) | Some (HMap _) => c = l /\ s' = s
  | Some (HAny t i) =>
      hnext (st_heap s) <= c /\ hget (st_heap s) c = None /\
      exists i', hget (st_heap s') c = Some (HAny t i') /\ copy_rel (hnext (st_heap s)) (st_heap s') i i'
  | _ => False
  end.
Proof.
  intros W H. destruct (copy_or_ref_spec _ _ _ _ _ H W) as [(E & W' & U) X].
  destruct (X _ eq_refl) as [C _].
  split; [auto|split; [auto|split; [auto|split; [auto|]]]].
  destruct fuel as [|f]; [simpl in H; apply fail_inv in H; destruct H; discriminate|].
  destruct (hget (st_heap s) l) as [v|] eqn:G.
  2: { simpl in H. unfold bindM, load in H. rewrite G in H. inversion H. }
  pose proof (proj2 E _ _ G) as G'.
  destruct v.
  1-3: destruct (copy_rel_basic_inv _ _ _ _ _ G' eq_refl C) as [A B];
       (split; [auto | split; [apply W; auto | auto]]).
  - destruct (copy_rel_any_inv _ _ _ _ _ _ G' C) as [A (i' & B & _ & D)].
    split; [auto | split; [apply W; auto | eauto]].
  - rewrite (composite_shared f l s _ G eq_refl) in H. inversion H; auto.
  - rewrite (composite_shared f l s _ G eq_refl) in H. inversion H; auto.
  - simpl in H. unfold bindM, load in H. rewrite G in H. inversion H.
Qed.

(* ====================================================================== *)
(* mapM of an extending computation                                        *)
(* ====================================================================== *)
Lemma Forall2_impl {A B} (P Q : A -> B -> Prop) l l' :
  (forall a b, P a b -> Q a b) -> Forall2 P l l' -> Forall2 Q l l'.
Proof. intros H F. induction F; constructor; auto. Qed.

Section MapMExt.
  Context {A B : Type} (fm : A -> M B) (Q : A -> positive -> heap -> B -> Prop).
  Hypothesis Qmono : forall a N N' h h' b, N' <= N -> heap_extends h h' -> Q a N h b -> Q a N' h' b.
  Hypothesis Hfm : forall a s r s', fm a s = (r, s') -> wf s ->
    only_extends s s' /\ forall b, r = Ok b -> Q a (hnext (st_heap s)) (st_heap s') b.

  Lemma mapM_ext l : forall s r s', mapM fm l s = (r, s') -> wf s ->
    only_extends s s' /\
    forall bs, r = Ok bs -> Forall2 (fun a b => Q a (hnext (st_heap s)) (st_heap s') b) l bs.
  Proof.
    induction l as [|a t IH]; intros s r s' H W; simpl in H.
    - apply ret_inv in H; destruct H as [-> ->]. split; [apply only_extends_refl; auto|].
      intros bs E; inversion E; constructor.
    - apply bind_inv in H. destruct H as [(b & s1 & H1 & H) | (x & H1 & ->)];
        destruct (Hfm _ _ _ _ H1 W) as [E1 Q1]; [|split; [auto|discriminate]].
      pose proof (proj1 (proj2 E1)) as W1.
      apply bind_inv in H. destruct H as [(bs & s2 & H2 & H) | (x & H2 & ->)];
        destruct (IH _ _ _ H2 W1) as [E2 Q2].
      2: { split; [eapply only_extends_trans; eauto | discriminate]. }
      apply ret_inv in H; destruct H as [-> ->].
      split; [eapply only_extends_trans; eauto|].
      intros bs' E; inversion E; subst; clear E. constructor.
      + eapply Qmono; [| |apply Q1; reflexivity]; [lia | apply E2].
      + specialize (Q2 _ eq_refl). eapply Forall2_impl; [|exact Q2].
        intros a' b' HQ. eapply Qmono; [| |exact HQ]; [apply E1 | apply heap_extends_refl].
  Qed.
End MapMExt.

Lemma mapM_copy_spec d ls s r s' :
  mapM (copy_or_ref d) ls s = (r, s') -> wf s ->
  only_extends s s' /\
  forall cs, r = Ok cs -> Forall2 (fun l c => copy_rel (hnext (st_heap s)) (st_heap s') l c) ls cs.
Proof.
  apply (mapM_ext (copy_or_ref d) (fun l N h c => copy_rel N h l c)).
  - intros a N N' h h' b LN E C. eapply copy_rel_mono; eauto.
  - intros a s0 r0 s0' H W. destruct (copy_or_ref_spec _ _ _ _ _ H W) as [E X]. split; auto.
    intros b Eb. apply X; auto.
Qed.

(* ====================================================================== *)
(* A4 — indexing shares                                                    *)
(* ====================================================================== *)
(* a[i] on an array IS the element cell (no copy, state as after the operands) *)
Theorem eindex_shares n P e t a i s s0 s1 s2 la li els fi k l :
  tick s = (Ok tt, s0) ->
  eval_expr n P e a s0 = (Ok la, s1) ->
  eval_expr n P e i s1 = (Ok li, s2) ->
  hget (st_heap s2) la = Some (HArr els) ->
  hget (st_heap s2) li = Some (HNum fi) ->
  normalize_index fi (List.length els) false = Ok k ->
  nth_error els k = Some l ->
  eval_expr (S n) P e (EIndex t a i) s = (Ok l, s2).
Proof.
  intros T A I Ha Hi Nk Nth. cbn [eval_expr]. unfold bindM at 1. rewrite T.
  unfold bindM at 1. rewrite A. unfold bindM at 1. rewrite I.
  unfold bindM at 1. unfold load at 1. rewrite Ha.
  unfold bindM at 1. unfold load_num, bindM, load. rewrite Hi. unfold ret at 1.
  unfold lift. rewrite Nk, Nth. reflexivity.
Qed.

(* m[k] / m.k on a map IS the value cell *)
Theorem edot_shares n P e t a key s s0 s1 la om l :
  tick s = (Ok tt, s0) ->
  eval_expr n P e a s0 = (Ok la, s1) ->
  hget (st_heap s1) la = Some (HMap om) ->
  oget key om = Some l ->
  eval_expr (S n) P e (EDot t a key) s = (Ok l, s1).
Proof.
  intros T A Ha G. cbn [eval_expr]. unfold bindM at 1. rewrite T.
  unfold bindM at 1. rewrite A. unfold bindM at 1. unfold load at 1. rewrite Ha. rewrite G. reflexivity.
Qed.

(* ====================================================================== *)
(* A4 — slices and concatenation                                           *)
(* ====================================================================== *)
(* the tail of ESlice on an array, as a named term *)
Definition slice_arr (els : list loc) (llo lhi : option loc) : M loc :=
  let* (s0, e0) := slice_bounds llo lhi (List.length els) in
  let* d := depth_fuel in
  let* els' := mapM (copy_or_ref d) (firstn (e0 - s0) (skipn s0 els)) in
  alloc (HArr els').

Lemma eslice_unfold n P e t a lo hi :
  eval_expr (S n) P e (ESlice t a lo hi) =
  (let* _ := tick in
   let* la := eval_expr n P e a in
   let* llo := match lo with Some y => let* l := eval_expr n P e y in ret (Some l) | None => ret None end in
   let* lhi := match hi with Some y => let* l := eval_expr n P e y in ret (Some l) | None => ret None end in
   let* va := load la in
   match va with
   | HArr els => slice_arr els llo lhi
   | HStr s =>
       let* (s0, e0) := slice_bounds llo lhi (List.length s) in
       alloc (HStr (firstn (e0 - s0) (skipn s0 s)))
   | _ => internal "expected string or array before ["
   end).
Proof. reflexivity. Qed.

(* a slice is a fresh array cell; its elements are the copy_or_ref of the selected elements:
   basic elements are fresh cells, array/map elements are shared with the sliced array *)
Theorem slice_fresh els llo lhi s c s' :
  wf s -> slice_arr els llo lhi s = (Ok c, s') ->
  exists lo hi els',
    slice_bounds llo lhi (List.length els) s = (Ok (lo, hi), s) /\
    heap_extends (st_heap s) (st_heap s') /\ s' = upd_heap (st_heap s') s /\
    hnext (st_heap s) <= c /\ hget (st_heap s) c = None /\
    hget (st_heap s') c = Some (HArr els') /\
    Forall2 (copy_rel (hnext (st_heap s)) (st_heap s')) (firstn (hi - lo) (skipn lo els)) els'.
Proof.
  intros W H. unfold slice_arr in H.
  apply bind_inv in H. destruct H as [([lo hi] & s1 & H1 & H) | (x & H1 & E)]; [|discriminate].
  pose proof (ro_slice_bounds _ _ _ _ _ _ H1); subst s1.
  apply bind_inv in H. destruct H as [(d & s1 & H2 & H) | (x & H2 & E)]; [|discriminate].
  apply depth_fuel_inv in H2; destruct H2 as [_ ->].
  apply bind_inv in H. destruct H as [(els' & s1 & H3 & H) | (x & H3 & E)]; [|discriminate].
  destruct (mapM_copy_spec _ _ _ _ _ H3 W) as [(E1 & W1 & U1) F]. specialize (F _ eq_refl).
  apply alloc_inv in H. destruct H as [Ec ->]. inversion Ec; subst c; clear Ec.
  exists lo, hi, els'. repeat split; simpl.
  - exact H1.
  - destruct E1; lia.
  - intros l v Hl. apply hget_halloc_old; auto. apply E1; auto.
  - rewrite U1. reflexivity.
  - apply E1.
  - apply W. apply E1.
  - apply hget_halloc_new.
  - eapply Forall2_impl; [|exact F]. intros a b C. eapply copy_rel_mono; [| |exact C];
      [lia | apply heap_extends_halloc; auto].
Qed.

(* xs + ys: a fresh array cell whose elements are the copy_or_ref of both operands' elements *)
Theorem concat_fresh xs r ys s c s' :
  wf s -> hget (st_heap s) r = Some (HArr ys) -> bin_arr BPlus xs r s = (Ok c, s') ->
  exists xs' ys',
    heap_extends (st_heap s) (st_heap s') /\ s' = upd_heap (st_heap s') s /\
    hnext (st_heap s) <= c /\ hget (st_heap s) c = None /\
    hget (st_heap s') c = Some (HArr (xs' ++ ys')) /\
    Forall2 (copy_rel (hnext (st_heap s)) (st_heap s')) xs xs' /\
    Forall2 (copy_rel (hnext (st_heap s)) (st_heap s')) ys ys'.
Proof.
  intros W Hr H. unfold bin_arr in H.
  apply bind_inv in H. destruct H as [(rv & s1 & H1 & H) | (x & H1 & E)]; [|discriminate].
  apply load_inv in H1. destruct H1 as [-> [(v & Ev & Hv) | [Ev _]]]; [|discriminate].
  inversion Ev; subst v; clear Ev. rewrite Hr in Hv. inversion Hv; subst rv; clear Hv.
  apply bind_inv in H. destruct H as [(d & s1 & H2 & H) | (x & H2 & E)]; [|discriminate].
  apply depth_fuel_inv in H2; destruct H2 as [_ ->].
  apply bind_inv in H. destruct H as [(xs' & s1 & H3 & H) | (x & H3 & E)]; [|discriminate].
  destruct (mapM_copy_spec _ _ _ _ _ H3 W) as [(E1 & W1 & U1) F1]. specialize (F1 _ eq_refl).
  apply bind_inv in H. destruct H as [(ys' & s2 & H4 & H) | (x & H4 & E)]; [|discriminate].
  destruct (mapM_copy_spec _ _ _ _ _ H4 W1) as [(E2 & W2 & U2) F2]. specialize (F2 _ eq_refl).
  apply alloc_inv in H. destruct H as [Ec ->]. inversion Ec; subst c; clear Ec.
  assert (E12 : heap_extends (st_heap s) (st_heap s2)) by (eapply heap_extends_trans; eauto).
  exists xs', ys'. repeat split; simpl.
  - destruct E12; lia.
  - intros l v Hl. apply hget_halloc_old; auto. apply E12; auto.
  - generalize (snd (halloc (st_heap s2) (HArr (xs' ++ ys')))). intro h.
    rewrite U2, U1. reflexivity.
  - apply E12.
  - apply W. apply E12.
  - apply hget_halloc_new.
  - eapply Forall2_impl; [|exact F1]. intros a b C. eapply copy_rel_mono; [| |exact C]; [lia|].
    eapply heap_extends_trans; [exact E2 | apply heap_extends_halloc; auto].
  - eapply Forall2_impl; [|exact F2]. intros a b C. eapply copy_rel_mono; [| |exact C]; [apply E1|].
    apply heap_extends_halloc; auto.
Qed.

(* ====================================================================== *)
(* A4 — repetition deep-copies                                             *)
(* ====================================================================== *)
(* cells reachable from a cell through any-contents, array elements and map values *)
Inductive reach (h : heap) : loc -> loc -> Prop :=
| reach_refl l : reach h l l
| reach_any l t i x : hget h l = Some (HAny t i) -> reach h i x -> reach h l x
| reach_arr l els i x : hget h l = Some (HArr els) -> In i els -> reach h i x -> reach h l x
| reach_map l m k i x : hget h l = Some (HMap m) -> In (k, i) (pairs m) -> reach h i x -> reach h l x.

(* everything reachable from c is allocated and at or above N *)
Definition all_fresh (N : positive) (h : heap) (c : loc) : Prop :=
  forall x, reach h c x -> N <= x /\ hget h x <> None.

Lemma all_fresh_child_any N h c t i : all_fresh N h c -> hget h c = Some (HAny t i) -> all_fresh N h i.
Proof. intros F H x R. apply F. eapply reach_any; eauto. Qed.
Lemma all_fresh_child_arr N h c els i : all_fresh N h c -> hget h c = Some (HArr els) -> In i els -> all_fresh N h i.
Proof. intros F H I x R. apply F. eapply reach_arr; eauto. Qed.
Lemma all_fresh_child_map N h c m k i :
  all_fresh N h c -> hget h c = Some (HMap m) -> In (k, i) (pairs m) -> all_fresh N h i.
Proof. intros F H I x R. apply F. eapply reach_map; eauto. Qed.

Lemma reach_back N h h' c x :
  heap_extends h h' -> all_fresh N h c -> reach h' c x -> reach h c x.
Proof.
  intros [_ E] F R. induction R as [l | l t i x H R IH | l els i x H I R IH | l m k i x H I R IH].
  - constructor.
  - destruct (F l (reach_refl _ _)) as [_ Hl]. destruct (hget h l) as [v|] eqn:G; [|congruence].
    pose proof (E _ _ G) as G'. rewrite H in G'. inversion G'; subst v.
    eapply reach_any; eauto. apply IH. eapply all_fresh_child_any; eauto.
  - destruct (F l (reach_refl _ _)) as [_ Hl]. destruct (hget h l) as [v|] eqn:G; [|congruence].
    pose proof (E _ _ G) as G'. rewrite H in G'. inversion G'; subst v.
    eapply reach_arr; eauto. apply IH. eapply all_fresh_child_arr; eauto.
  - destruct (F l (reach_refl _ _)) as [_ Hl]. destruct (hget h l) as [v|] eqn:G; [|congruence].
    pose proof (E _ _ G) as G'. rewrite H in G'. inversion G'; subst v.
    eapply reach_map; eauto. apply IH. eapply all_fresh_child_map; eauto.
Qed.

Lemma all_fresh_mono N N' h h' c :
  N' <= N -> heap_extends h h' -> all_fresh N h c -> all_fresh N' h' c.
Proof.
  intros LN E F x R. apply (reach_back N h h' c x E F) in R. destruct (F x R) as [A B].
  split; [lia|]. destruct (hget h x) as [v|] eqn:G; [|congruence]. rewrite (proj2 E _ _ G). discriminate.
Qed.

(* a freshly allocated cell all of whose children are all_fresh *)
Lemma all_fresh_new N h v :
  fresh_ok h -> N <= hnext h ->
  match v with
  | HAny _ i => all_fresh N h i
  | HArr els => Forall (all_fresh N h) els
  | HMap m => Forall (fun p => all_fresh N h (snd p)) (pairs m)
  | _ => True
  end ->
  all_fresh N (snd (halloc h v)) (hnext h).
Proof.
  intros W LN Hv x R.
  assert (E : heap_extends h (snd (halloc h v))) by (apply heap_extends_halloc; auto).
  pose proof (hget_halloc_new h v) as G.
  inversion R as [l | l t i x0 H R' | l els i x0 H I R' | l m k i x0 H I R']; subst.
  - split; [auto | rewrite G; discriminate].
  - rewrite G in H; inversion H; subst v. eapply all_fresh_mono; [| exact E | exact Hv | exact R']. lia.
  - rewrite G in H; inversion H; subst v. rewrite Forall_forall in Hv.
    eapply all_fresh_mono; [| exact E | apply Hv; exact I | exact R']. lia.
  - rewrite G in H; inversion H; subst v. rewrite Forall_forall in Hv.
    eapply all_fresh_mono; [| exact E | apply (Hv (k, i)); exact I | exact R']. lia.
Qed.

Lemma Forall2_Forall_r {A B} (Q : B -> Prop) (l : list A) (l' : list B) :
  Forall2 (fun _ b => Q b) l l' -> Forall Q l'.
Proof. intro F. induction F; constructor; auto. Qed.

Lemma deep_copy_spec fuel : forall l s r s',
  deep_copy fuel l s = (r, s') -> wf s ->
  only_extends s s' /\ forall c, r = Ok c -> all_fresh (hnext (st_heap s)) (st_heap s') c.
Proof.
  induction fuel as [|f IH]; intros l s r s' H W; simpl in H.
  { apply crash_inv in H; destruct H as [-> ->]. split; [apply only_extends_refl; auto | discriminate]. }
  apply bind_inv in H. destruct H as [(v & s1 & H1 & H) | (e & H1 & ->)];
    apply load_inv in H1; destruct H1 as [-> H1]; [|split; [apply only_extends_refl; auto | discriminate]].
  destruct H1 as [(v' & Hv & Hg) | [? _]]; [|discriminate]. inversion Hv; subst v'; clear Hv.
  destruct v.
  1-3: apply alloc_inv in H; destruct H as [-> ->]; split; [apply only_extends_alloc; auto|];
       intros c E; inversion E; subst; clear E; simpl; apply all_fresh_new; auto; lia.
  - (* any *)
    apply bind_inv in H. destruct H as [(i' & s1 & H1 & H) | (e & H1 & ->)];
      destruct (IH _ _ _ _ H1 W) as [X1 X2]; [|split; [auto|discriminate]].
    specialize (X2 _ eq_refl). pose proof X1 as (E1 & W1 & U1).
    apply alloc_inv in H; destruct H as [-> ->]. split.
    + eapply only_extends_trans; [exact X1 | apply only_extends_alloc; auto].
    + intros c E; inversion E; subst; clear E. simpl. apply all_fresh_new; auto. apply E1.
  - (* array *)
    apply bind_inv in H. destruct H as [(els' & s1 & H1 & H) | (e & H1 & ->)].
    + destruct (mapM_ext (deep_copy f) (fun _ N h c => all_fresh N h c)
                  ltac:(intros; eapply all_fresh_mono; eauto) ltac:(intros; eapply IH; eauto)
                  _ _ _ _ H1 W) as [X1 X2].
      specialize (X2 _ eq_refl). pose proof X1 as (E1 & W1 & U1).
      apply alloc_inv in H; destruct H as [-> ->]. split.
      * eapply only_extends_trans; [exact X1 | apply only_extends_alloc; auto].
      * intros c E; inversion E; subst; clear E. simpl. apply all_fresh_new; auto; [apply E1|].
        eapply Forall2_Forall_r; exact X2.
    + destruct (mapM_ext (deep_copy f) (fun _ N h c => all_fresh N h c)
                  ltac:(intros; eapply all_fresh_mono; eauto) ltac:(intros; eapply IH; eauto)
                  _ _ _ _ H1 W) as [X1 X2]. split; [auto|discriminate].
  - (* map *)
    match type of H with bindM (mapM ?g _) _ _ = _ =>
      assert (Hgm : forall k s0 r0 s0', g k s0 = (r0, s0') -> wf s0 ->
                only_extends s0 s0' /\
                forall b, r0 = Ok b -> all_fresh (hnext (st_heap s0)) (st_heap s0') (snd b))
    end.
    { intros k s0 r0 s0' Hk W0. simpl in Hk. destruct (plookup k (pairs m)) as [i|].
      - apply bind_inv in Hk. destruct Hk as [(i' & s2 & K1 & Hk) | (e & K1 & ->)];
          destruct (IH _ _ _ _ K1 W0) as [Y1 Y2]; [|split; [auto|discriminate]].
        apply ret_inv in Hk; destruct Hk as [-> ->]. split; auto.
        intros b E; inversion E; subst; simpl. apply Y2; auto.
      - apply crash_inv in Hk; destruct Hk as [-> ->]. split; [apply only_extends_refl; auto|discriminate]. }
    apply bind_inv in H. destruct H as [(ps & s1 & H1 & H) | (e & H1 & ->)];
      destruct (mapM_ext _ (fun _ N h (p : str * loc) => all_fresh N h (snd p))
                  ltac:(intros; eapply all_fresh_mono; eauto) Hgm _ _ _ _ H1 W) as [X1 X2];
      [|split; [auto|discriminate]].
    specialize (X2 _ eq_refl). pose proof X1 as (E1 & W1 & U1).
    apply alloc_inv in H; destruct H as [-> ->]. split.
    + eapply only_extends_trans; [exact X1 | apply only_extends_alloc; auto].
    + intros c E; inversion E; subst; clear E. simpl. apply all_fresh_new; auto; [apply E1|].
      simpl. eapply Forall2_Forall_r; exact X2.
  - apply crash_inv in H; destruct H as [-> ->]. split; [apply only_extends_refl; auto | discriminate].
Qed.

(* xs * n: a fresh array cell, and NOTHING reachable from it existed before — nested arrays,
   maps and any-boxes are copied too (deepCopy) *)
Theorem repeat_fresh xs r s c s' :
  wf s -> bin_arr BAsterisk xs r s = (Ok c, s') ->
  heap_extends (st_heap s) (st_heap s') /\ s' = upd_heap (st_heap s') s /\
  (exists els', hget (st_heap s') c = Some (HArr els')) /\
  forall x, reach (st_heap s') c x -> hnext (st_heap s) <= x /\ hget (st_heap s) x = None.
Proof.
  intros W H. unfold bin_arr in H.
  apply bind_inv in H. destruct H as [(fl & s1 & H1 & H) | (x & H1 & E)]; [|discriminate].
  pose proof (ro_load_num _ _ _ _ H1); subst s1. clear H1.
  destruct (go_int_exact fl) as [n|]; [|apply fail_inv in H; destruct H; discriminate].
  destruct (Z.ltb n 0); [apply fail_inv in H; destruct H; discriminate|].
  destruct (Z.ltb max_alloc _); [apply fail_inv in H; destruct H; discriminate|].
  apply bind_inv in H. destruct H as [(d & s1 & H2 & H) | (x & H2 & E)]; [|discriminate].
  apply depth_fuel_inv in H2; destruct H2 as [Ed ->]. inversion Ed; subst d; clear Ed.
  apply bind_inv in H. destruct H as [(parts & s1 & H3 & H) | (x & H3 & E)]; [|discriminate].
  assert (Qm : forall (a : unit) N N' h h' (b : list loc), N' <= N -> heap_extends h h' ->
                 Forall (all_fresh N h) b -> Forall (all_fresh N' h') b).
  { intros a N N' h h' b LN E F. eapply Forall_impl; [|exact F]. intros; eapply all_fresh_mono; eauto. }
  assert (Hg : forall (a : unit) s0 r0 s0', mapM (deep_copy value_depth) xs s0 = (r0, s0') -> wf s0 ->
                 only_extends s0 s0' /\
                 forall b, r0 = Ok b -> Forall (all_fresh (hnext (st_heap s0)) (st_heap s0')) b).
  { intros a s0 r0 s0' Hk W0.
    destruct (mapM_ext (deep_copy value_depth) (fun _ N h c => all_fresh N h c)
                ltac:(intros; eapply all_fresh_mono; eauto)
                ltac:(intros; eapply deep_copy_spec; eauto) _ _ _ _ Hk W0) as [Y1 Y2].
    split; auto. intros b E. eapply Forall2_Forall_r. apply Y2; exact E. }
  destruct (mapM_ext (fun _ : unit => mapM (deep_copy value_depth) xs)
              (fun _ N h (p : list loc) => Forall (all_fresh N h) p) Qm Hg _ _ _ _ H3 W) as [X1 X2].
  specialize (X2 _ eq_refl). pose proof X1 as (E1 & W1 & U1).
  apply alloc_inv in H. destruct H as [Ec ->]. inversion Ec; subst c; clear Ec.
  assert (AF : all_fresh (hnext (st_heap s)) (snd (halloc (st_heap s1) (HArr (List.concat parts)))) (hnext (st_heap s1))).
  { apply all_fresh_new; auto; [apply E1|].
    apply Forall2_Forall_r in X2. clear -X2. induction X2; simpl; [constructor|].
    apply Forall_app; split; auto. }
  split; [|split; [|split]]; simpl.
  - eapply heap_extends_trans; [exact E1 | apply heap_extends_halloc; auto].
  - generalize (snd (halloc (st_heap s1) (HArr (List.concat parts)))). intro h. rewrite U1. reflexivity.
  - eexists. apply hget_halloc_new.
  - intros x R. destruct (AF x R) as [A _]. split; [auto | apply W; auto].
Qed.
