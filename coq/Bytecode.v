(* Bytecode.v — model of pkg/bytecode/code.go (Lookup, Make, ReadOperands,
   ReadUint16), instructions.go (changeOperand), linear decoding, and the
   executable well-formedness checker [wf_check] with the declarative judgment
   [WF] it is proved sound for (BytecodeProofs.v).  The opcode numbers, names
   and operand widths come from Gen/Opcodes.v, regenerated from code.go on
   every run.  No proofs here. *)
From Coq Require Import ZArith NArith List Bool String FMapPositive.
From EvyV Require Import Base.
Require Import EvyV.Gen.Opcodes.
Import ListNotations.
Open Scope string_scope.
Open Scope N_scope.

(* ---------- opcodes ---------- *)
(* The Go identifiers of the const block, as an inductive type; the numbers
   are those of Gen/Opcodes.v (so a renumbering in code.go is followed). *)
Inductive opc :=
| Constant | GetGlobal | SetGlobal | Drop | GetLocal | SetLocal
| Add | Subtract | Multiply | Divide | Modulo | OTrue | OFalse | Not | Minus
| Equal | NotEqual | NumLT | NumLE | NumGT | NumGE | StrLT | StrLE | StrGT | StrGE
| StrConcat | Array | ArrConcat | ArrRepeat | Map | Index | SetIndex | Slice | ONone
| Jump | JumpOnFalse | StepRange | IterRange.

Definition all_opcs : list opc :=
  [Constant; GetGlobal; SetGlobal; Drop; GetLocal; SetLocal;
   Add; Subtract; Multiply; Divide; Modulo; OTrue; OFalse; Not; Minus;
   Equal; NotEqual; NumLT; NumLE; NumGT; NumGE; StrLT; StrLE; StrGT; StrGE;
   StrConcat; Array; ArrConcat; ArrRepeat; Map; Index; SetIndex; Slice; ONone;
   Jump; JumpOnFalse; StepRange; IterRange].

Definition N_of_opc (o : opc) : N :=
  match o with
  | Constant => OpConstant | GetGlobal => OpGetGlobal | SetGlobal => OpSetGlobal | Drop => OpDrop
  | GetLocal => OpGetLocal | SetLocal => OpSetLocal
  | Add => OpAdd | Subtract => OpSubtract | Multiply => OpMultiply | Divide => OpDivide | Modulo => OpModulo
  | OTrue => OpTrue | OFalse => OpFalse | Not => OpNot | Minus => OpMinus
  | Equal => OpEqual | NotEqual => OpNotEqual
  | NumLT => OpNumLessThan | NumLE => OpNumLessThanEqual | NumGT => OpNumGreaterThan | NumGE => OpNumGreaterThanEqual
  | StrLT => OpStringLessThan | StrLE => OpStringLessThanEqual | StrGT => OpStringGreaterThan
  | StrGE => OpStringGreaterThanEqual | StrConcat => OpStringConcatenate
  | Array => OpArray | ArrConcat => OpArrayConcatenate | ArrRepeat => OpArrayRepeat | Map => OpMap
  | Index => OpIndex | SetIndex => OpSetIndex | Slice => OpSlice | ONone => OpNone
  | Jump => OpJump | JumpOnFalse => OpJumpOnFalse | StepRange => OpStepRange | IterRange => OpIterRange
  end.

Definition opc_of_N (b : N) : option opc := find (fun o => N.eqb (N_of_opc o) b) all_opcs.

(* code.go: Lookup — the definition table (operand widths) *)
Fixpoint lookup_in (b : N) (t : list (N * string * list N)) : option (list N) :=
  match t with
  | [] => None
  | (n, _, ws) :: r => if N.eqb n b then Some ws else lookup_in b r
  end.
Definition lookup_def (b : N) : option (list N) := lookup_in b op_table.

Definition sumN (l : list N) : N := fold_right N.add 0 l.

(* ---------- Make / ReadOperands ---------- *)
(* binary.BigEndian.PutUint16(…, uint16(o)): the Go int is silently truncated *)
Definition put16 (o : Z) : list N :=
  let v := Z.to_N (o mod 65536) in [v / 256; v mod 256].

(* Make (code.go at HEAD, after e351c68): one zero-initialised slot per width;
   operand i overwrites slot i when its width is 2 — and must fit 16 bits,
   otherwise Make returns ErrOperandRange ([None]); other widths are left
   zero; more operands than widths is an index-out-of-range panic in Go
   ([None] too; the compiler never does it) *)
Definition fits16 (o : Z) : bool := ((0 <=? o) && (o <=? 65535))%Z.

Fixpoint make_operands (ws : list N) (operands : list Z) : option (list N) :=
  match ws, operands with
  | [], [] => Some []
  | [], _ :: _ => None
  | w :: ws', [] => option_map (app (repeat 0 (N.to_nat w))) (make_operands ws' [])
  | w :: ws', o :: os' =>
      if (w =? 2) && negb (fits16 o) then None
      else option_map (app (if w =? 2 then put16 o else repeat 0 (N.to_nat w))) (make_operands ws' os')
  end.

Definition make (op : N) (operands : list Z) : option (list N) :=
  match lookup_def op with
  | None => None
  | Some ws => option_map (cons op) (make_operands ws operands)
  end.

(* Make as it was before e351c68: uint16(o), silently truncated (kept for the
   regression lemmas …_before_fix) *)
Fixpoint make_operands_before_fix (ws : list N) (operands : list Z) : option (list N) :=
  match ws, operands with
  | [], [] => Some []
  | [], _ :: _ => None
  | w :: ws', [] => option_map (app (repeat 0 (N.to_nat w))) (make_operands_before_fix ws' [])
  | w :: ws', o :: os' =>
      option_map (app (if w =? 2 then put16 o else repeat 0 (N.to_nat w))) (make_operands_before_fix ws' os')
  end.
Definition make_before_fix (op : N) (operands : list Z) : option (list N) :=
  match lookup_def op with
  | None => None
  | Some ws => option_map (cons op) (make_operands_before_fix ws operands)
  end.

(* instructions.go: changeOperand — overwrite the two bytes after opPosition;
   at HEAD an operand that does not fit 16 bits is ErrOperandRange ([None]) *)
Fixpoint set_nth {A} (n : nat) (x : A) (l : list A) : list A :=
  match n, l with
  | _, [] => []
  | O, _ :: t => x :: t
  | S n', y :: t => y :: set_nth n' x t
  end.
Definition change_operand_before_fix (pos : N) (operand : Z) (code : list N) : list N :=
  match put16 operand with
  | [hi; lo] => set_nth (N.to_nat pos + 2) lo (set_nth (N.to_nat pos + 1) hi code)
  | _ => code
  end.
Definition change_operand (pos : N) (operand : Z) (code : list N) : option (list N) :=
  if fits16 operand then Some (change_operand_before_fix pos operand code) else None.

(* ReadOperands: width 2 is read big-endian, any other width yields operand 0;
   [None] when the slice is too short (Go: slice bounds panic) *)
Fixpoint take_bytes (n : nat) (l : list N) : option (list N * list N) :=
  match n, l with
  | O, _ => Some ([], l)
  | S n', [] => None
  | S n', b :: t => match take_bytes n' t with Some (a, r) => Some (b :: a, r) | None => None end
  end.

Fixpoint read_operands (ws : list N) (l : list N) : option (list N * list N) :=
  match ws with
  | [] => Some ([], l)
  | w :: ws' =>
      match take_bytes (N.to_nat w) l with
      | None => None
      | Some (bs, r) =>
          let v := match bs with [hi; lo] => if w =? 2 then hi * 256 + lo else 0 | _ => 0 end in
          match read_operands ws' r with Some (vs, r') => Some (v :: vs, r') | None => None end
      end
  end.

(* ---------- linear decoding (Instructions.String's loop) ---------- *)
Record instr := { iop : N; iargs : list N; ilen : N }.

Definition decode1 (l : list N) : option (instr * list N) :=
  match l with
  | [] => None
  | b :: rest =>
      match lookup_def b with
      | None => None
      | Some ws =>
          match read_operands ws rest with
          | Some (args, rest') => Some ({| iop := b; iargs := args; ilen := 1 + sumN ws |}, rest')
          | None => None
          end
      end
  end.

Fixpoint decode_from (fuel : nat) (pc : N) (l : list N) : option (list (N * instr)) :=
  match l with
  | [] => Some []
  | _ :: _ =>
      match fuel with
      | O => None
      | S f =>
          match decode1 l with
          | None => None
          | Some (i, rest) =>
              match decode_from f (pc + ilen i) rest with
              | Some r => Some ((pc, i) :: r)
              | None => None
              end
          end
      end
  end.

Definition decode_all (code : list N) : option (list (N * instr)) :=
  decode_from (List.length code) 0 code.

(* ---------- the abstract stack discipline ---------- *)
Record bcinfo := { bcode : list N; nconsts : N; gcount : N; lcount : N }.

Definition codelen (bc : bcinfo) : N := N.of_nat (List.length (bcode bc)).

(* what is known about the stack at a program point: its height (counted from
   the bottom of the VM stack, so never below LocalCount), or — right after a
   range instruction that was told there is a loop variable — "the top is the
   still-going flag b, below it the current element iff b": height k+2 when
   b = true and k+1 when b = false *)
Inductive ast := AH (k : N) | ACond (k : N).

Definition ast_eqb (a b : ast) : bool :=
  match a, b with
  | AH x, AH y => N.eqb x y
  | ACond x, ACond y => N.eqb x y
  | _, _ => false
  end.

Definition arg0 (i : instr) : N := nth 0 (iargs i) 0.

(* (values popped, values pushed) of the straight-line instructions *)
Definition simple_effect (o : opc) (a : N) : option (N * N) :=
  match o with
  | Constant | GetGlobal | GetLocal | OTrue | OFalse | ONone => Some (0, 1)
  | SetGlobal | SetLocal => Some (1, 0)
  | Drop => Some (a, 0)
  | Add | Subtract | Multiply | Divide | Modulo
  | Equal | NotEqual | NumLT | NumLE | NumGT | NumGE | StrLT | StrLE | StrGT | StrGE
  | StrConcat | ArrConcat | ArrRepeat | Index => Some (2, 1)
  | Not | Minus => Some (1, 1)
  | Array => Some (a, 1)
  | Map => Some (2 * a, 1)
  | SetIndex => Some (3, 0)
  | Slice => Some (3, 1)
  | Jump | JumpOnFalse | StepRange | IterRange => None
  end.

(* abstract successors of instruction i at pc in abstract state a *)
Definition xfer (lc : N) (pc : N) (i : instr) (a : ast) : option (list (N * ast)) :=
  match opc_of_N (iop i) with
  | None => None
  | Some o =>
      let next := pc + ilen i in
      match o, a with
      | Jump, AH k => Some [(arg0 i, AH k)]
      | JumpOnFalse, AH k => if lc + 1 <=? k then Some [(next, AH (k - 1)); (arg0 i, AH (k - 1))] else None
      | JumpOnFalse, ACond k => Some [(next, AH (k + 1)); (arg0 i, AH k)]
      | StepRange, AH k =>
          if lc + 3 <=? k then Some [(next, if arg0 i =? 0 then AH (k + 1) else ACond k)] else None
      | IterRange, AH k =>
          if lc + 2 <=? k then Some [(next, if arg0 i =? 0 then AH (k + 1) else ACond k)] else None
      | _, AH k =>
          match simple_effect o (arg0 i) with
          | Some (p, q) => if lc + p <=? k then Some [(next, AH (k - p + q))] else None
          | None => None
          end
      | _, ACond _ => None
      end
  end.

(* operands in range *)
Definition operand_ok (bc : bcinfo) (i : instr) : bool :=
  match opc_of_N (iop i) with
  | Some Constant => arg0 i <? nconsts bc
  | Some GetGlobal | Some SetGlobal => arg0 i <? gcount bc
  | Some GetLocal | Some SetLocal => arg0 i <? lcount bc
  | Some _ => true
  | None => false
  end.

Definition jump_target (i : instr) : option N :=
  match opc_of_N (iop i) with
  | Some Jump | Some JumpOnFalse => Some (arg0 i)
  | _ => None
  end.

(* ---------- height maps ---------- *)
Definition hmap := PositiveMap.t (option ast).
Definition hkey (pc : N) : positive := N.succ_pos pc.
Definition hfind (pc : N) (m : hmap) : option (option ast) := PositiveMap.find (hkey pc) m.
Definition hbuild (l : list (N * option ast)) : hmap :=
  fold_left (fun m kv => PositiveMap.add (hkey (fst kv)) (snd kv) m) l (PositiveMap.empty _).

(* the height function a map denotes *)
Definition hfun (m : hmap) (pc : N) : option ast :=
  match hfind pc m with Some (Some a) => Some a | _ => None end.

(* ---------- the declarative judgment ---------- *)
Definition WF (bc : bcinfo) : Prop :=
  exists (instrs : list (N * instr)) (h : N -> option ast),
    (* the code decodes completely into defined instructions *)
    decode_all (bcode bc) = Some instrs /\
    (* every operand is in range; every jump lands on an instruction boundary or at the end *)
    (forall pc i, In (pc, i) instrs ->
       operand_ok bc i = true /\
       forall t, jump_target i = Some t -> t = codelen bc \/ In t (map fst instrs)) /\
    (* the entry state *)
    (instrs <> [] -> h 0 = Some (AH (lcount bc))) /\
    (* h is consistent along every edge, never lets the stack go below
       LocalCount (that is inside xfer), and is LocalCount at the end *)
    (forall pc a, h pc = Some a ->
       exists i succs, In (pc, i) instrs /\ xfer (lcount bc) pc i a = Some succs /\
         forall t a', In (t, a') succs ->
           (t = codelen bc /\ a' = AH (lcount bc)) \/ (t < codelen bc /\ h t = Some a')).

(* ---------- the checker ---------- *)
(* Step 1 (untrusted): infer an annotation per instruction in one forward pass.
   [cur] is the state flowing in from the previous instruction, [pend] the
   states announced by forward jumps already seen. *)
Definition pend_add (t : N) (a : ast) (pend : PositiveMap.t ast) : PositiveMap.t ast :=
  match PositiveMap.find (hkey t) pend with
  | Some _ => pend
  | None => PositiveMap.add (hkey t) a pend
  end.

Fixpoint infer (lc : N) (instrs : list (N * instr)) (cur : option ast) (pend : PositiveMap.t ast)
  : list (option ast) :=
  match instrs with
  | [] => []
  | (pc, i) :: rest =>
      let here := match cur with Some a => Some a | None => PositiveMap.find (hkey pc) pend end in
      match here with
      | None => None :: infer lc rest None pend
      | Some a =>
          match xfer lc pc i a with
          | None => Some a :: infer lc rest None pend
          | Some succs =>
              let cur' := match opc_of_N (iop i) with
                          | Some Jump => None
                          | _ => option_map snd (hd_error succs)
                          end in
              let pend' := fold_left (fun p s => if pc <? fst s then pend_add (fst s) (snd s) p else p) succs pend in
              Some a :: infer lc rest cur' pend'
          end
      end
  end.

(* Step 2 (trusted, proved sound): check the annotation locally. *)
(* [cl] is codelen bc, computed once by the caller *)
Definition succ_ok (bc : bcinfo) (cl : N) (m : hmap) (s : N * ast) : bool :=
  if fst s =? cl then ast_eqb (snd s) (AH (lcount bc))
  else (fst s <? cl) &&
       match hfind (fst s) m with Some (Some a') => ast_eqb a' (snd s) | _ => false end.

Definition instr_ok (bc : bcinfo) (cl : N) (m : hmap) (x : (N * instr) * option ast) : bool :=
  let '((pc, i), oa) := x in
  operand_ok bc i &&
  match jump_target i with
  | Some t => (t =? cl) || match hfind t m with Some _ => true | None => false end
  | None => true
  end &&
  match oa with
  | None => true
  | Some a => match xfer (lcount bc) pc i a with
              | Some succs => forallb (succ_ok bc cl m) succs
              | None => false
              end
  end.

Definition verify (bc : bcinfo) (instrs : list (N * instr)) (anns : list (option ast)) : bool :=
  let z := combine instrs anns in
  let m := hbuild (map (fun x => (fst (fst x), snd x)) z) in
  let cl := codelen bc in
  Nat.eqb (List.length instrs) (List.length anns) &&
  forallb (instr_ok bc cl m) z &&
  match instrs with
  | [] => true
  | _ :: _ => match hfind 0 m with Some (Some a) => ast_eqb a (AH (lcount bc)) | _ => false end
  end.

Definition wf_check (bc : bcinfo) : bool :=
  match decode_all (bcode bc) with
  | None => false
  | Some instrs =>
      verify bc instrs (infer (lcount bc) instrs (Some (AH (lcount bc))) (PositiveMap.empty _))
  end.

(* why a program is rejected (diagnostics for the harness; not used in proofs) *)
Definition wf_diag (bc : bcinfo) : sx :=
  match decode_all (bcode bc) with
  | None => Lst [Sym (s_ "decode-failed")]
  | Some instrs =>
      let anns := infer (lcount bc) instrs (Some (AH (lcount bc))) (PositiveMap.empty _) in
      let z := combine instrs anns in
      let m := hbuild (map (fun x => (fst (fst x), snd x)) z) in
      let cl := codelen bc in
      match find (fun x => negb (instr_ok bc cl m x)) z with
      | Some ((pc, i), oa) =>
          Lst [Sym (s_ "bad-instruction"); Int (Z.of_N pc); Int (Z.of_N (iop i)); Int (Z.of_N (arg0 i));
               match oa with
               | Some (AH k) => Lst [Sym (s_ "height"); Int (Z.of_N k)]
               | Some (ACond k) => Lst [Sym (s_ "cond"); Int (Z.of_N k)]
               | None => Sym (s_ "unreachable")
               end;
               sx_bool (operand_ok bc i)]
      | None => Lst [Sym (s_ "entry-or-length")]
      end
  end.

(* ---------- wire format ---------- *)
Fixpoint dec_bytes (l : list sx) : option (list N) :=
  match l with
  | [] => Some []
  | Int z :: t => match dec_bytes t with Some r => Some (Z.to_N z :: r) | None => None end
  | _ => None
  end.

(* (wf (byte…) nconsts gcount lcount) ↦ (true) | (false diag…)
   (decode (byte…)) ↦ ((pc op arg…)…) | decode-failed
   (make op (operand…)) ↦ (byte…) | none *)
Definition bytecode_case (x : sx) : sx :=
  match x with
  | Lst [Sym t; Lst bs; Int nc; Int gc; Int lc] =>
      if str_eqb t (s_ "wf") then
        match dec_bytes bs with
        | Some code =>
            let bc := {| bcode := code; nconsts := Z.to_N nc; gcount := Z.to_N gc; lcount := Z.to_N lc |} in
            if wf_check bc then Lst [Sym (s_ "true")] else Lst [Sym (s_ "false"); wf_diag bc]
        | None => Sym (s_ "decode-error")
        end
      else Sym (s_ "decode-error")
  | Lst [Sym t; Lst bs] =>
      if str_eqb t (s_ "decode") then
        match dec_bytes bs with
        | Some code =>
            match decode_all code with
            | Some instrs => Lst (map (fun pi => Lst (Int (Z.of_N (fst pi)) :: Int (Z.of_N (iop (snd pi)))
                                                        :: map (fun a => Int (Z.of_N a)) (iargs (snd pi)))) instrs)
            | None => Sym (s_ "decode-failed")
            end
        | None => Sym (s_ "decode-error")
        end
      else Sym (s_ "decode-error")
  | Lst [Sym t; Int op; Lst os] =>
      if str_eqb t (s_ "make") then
        match make (Z.to_N op) (map (fun o => match o with Int z => z | _ => 0%Z end) os) with
        | Some bs => Lst (map (fun b => Int (Z.of_N b)) bs)
        | None => Sym (s_ "none")
        end
      else Sym (s_ "decode-error")
  | _ => Sym (s_ "decode-error")
  end.
