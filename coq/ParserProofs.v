(* ParserProofs.v — totality of the parser model (C03): for every token list, every
   builtin table and every typing oracle, Parser.parse returns Accept or Reject with a
   non-empty error list; it never reaches a modelled Go panic site and never runs out
   of fuel.  The argument is the progress argument the Go code relies on implicitly:
   every loop iteration and every recursive descent consumes at least one token.

   here c = number of tokens left.  All lemmas bound [here] of the resulting state. *)
From Coq Require Import List NArith ZArith Bool Arith Lia String.
From EvyV Require Import Base Pratt Parser.
From EvyV.Gen Require Import Prec.
Import ListNotations.
Local Open Scope nat_scope.

(* ================================================================ *)
(** * Cursor primitives never move backwards                         *)

Lemma here_advance_wss c : here (advance_wss c) = here c - 1.
Proof. unfold here, advance_wss; simpl. destruct (rest c); simpl; lia. Qed.

Lemma here_advance_if_ws c : here (advance_if_ws c) <= here c.
Proof. unfold advance_if_ws. destruct (is_ws (cur c)); [rewrite here_advance_wss|]; lia. Qed.

Lemma here_advance c : here (advance c) <= here c - 1.
Proof.
  unfold advance. pose proof (here_advance_wss c) as H.
  destruct (is_wss (advance_wss c)); [lia|].
  pose proof (here_advance_if_ws (advance_wss c)) as H2.
  destruct (is_ws (peek (advance_if_ws (advance_wss c)))); unfold here in *; simpl; lia.
Qed.

Lemma here_push_wss b c : here (push_wss b c) = here c.
Proof. reflexivity. Qed.
Lemma here_add_err_at e n c : here (add_err_at e n c) = here c.
Proof. reflexivity. Qed.
Lemma here_add_err e c : here (add_err e c) = here c.
Proof. reflexivity. Qed.
Lemma here_mark_used n c : here (mark_used n c) = here c.
Proof. reflexivity. Qed.

Lemma here_pop_wss c : here (pop_wss c) <= here c.
Proof.
  unfold pop_wss.
  set (c1 := {| prev := prev c; rest := rest c; peek := peek c; wss := tl (wss c); errs := errs c; used := used c |}).
  assert (H : here c1 = here c) by reflexivity.
  destruct (negb (is_wss c1) && is_ws (cur c1)); [pose proof (here_advance c1)|]; lia.
Qed.

Lemma here_assert_token t c : here (snd (assert_token t c)) = here c.
Proof. unfold assert_token. destruct (toktype_beq (cur_t c) t); reflexivity. Qed.

Lemma assert_token_eq t c ok c' : assert_token t c = (ok, c') -> here c' = here c.
Proof. intro H. pose proof (here_assert_token t c) as H2. rewrite H in H2. exact H2. Qed.

Lemma here_unexpected_left c : here (unexpected_left c) = here c.
Proof. unfold unexpected_left. destruct (_ && _); reflexivity. Qed.

Lemma here_slice_close E c : here (slice_close E c) <= here c - 1.
Proof. unfold slice_close. destruct (e_fix_slice E); [rewrite here_advance_wss; lia|apply here_advance]. Qed.

(* a current token other than EOF means there is a token *)
Lemma cur_t_not_eof c : cur_t c <> T_EOF -> 0 < here c.
Proof. unfold cur_t, cur, here. destruct (rest c); simpl; [congruence|lia]. Qed.

(* collect the facts about every cursor operation occurring in a state term *)
Ltac hfact t :=
  lazymatch t with
  | advance ?x => hfact x; pose proof (here_advance x)
  | advance_wss ?x => hfact x; pose proof (here_advance_wss x)
  | advance_if_ws ?x => hfact x; pose proof (here_advance_if_ws x)
  | pop_wss ?x => hfact x; pose proof (here_pop_wss x)
  | push_wss ?b ?x => hfact x; pose proof (here_push_wss b x)
  | add_err_at ?e ?n ?x => hfact x; pose proof (here_add_err_at e n x)
  | add_err ?e ?x => hfact x; pose proof (here_add_err e x)
  | mark_used ?n ?x => hfact x; pose proof (here_mark_used n x)
  | unexpected_left ?x => hfact x; pose proof (here_unexpected_left x)
  | slice_close ?E ?x => hfact x; pose proof (here_slice_close E x)
  | snd (assert_token ?t ?x) => hfact x; pose proof (here_assert_token t x)
  | (if ?b then ?x else ?y) => hfact x; hfact y
  | _ => idtac
  end.
Ltac hs :=
  repeat match goal with
         | H : assert_token _ _ = (_, _) |- _ => apply assert_token_eq in H
         end;
  lazymatch goal with
  | |- here ?a <= _ => hfact a
  | |- here ?a < _ => hfact a
  | |- _ => idtac
  end;
  repeat match goal with |- context[if ?b then _ else _] => destruct b end;
  try lia.

(* ================================================================ *)
(** * The expression parser is total and makes progress              *)

Definition okr {A} (n : nat) (r : res A) : Prop :=
  exists a c', r = Some (a, c') /\ here c' <= n.
(* ... and a returned tree means that at least one token was consumed *)
Definition okx (n : nat) (r : res (option tree)) : Prop :=
  exists a c', r = Some (a, c') /\ here c' <= n /\ (a <> None -> here c' < n).
(* parseExpr at callee fuel is total on states with at most m tokens left *)
Definition PE (pe : nat -> pstate -> res (option tree)) (m : nat) : Prop :=
  forall p c, here c <= m -> okx (here c) (pe p c).

Ltac fin :=
  unfold ret; do 2 eexists; split; [reflexivity|];
  first [ split; [hs | let N := fresh "N" in intro N; first [ exfalso; apply N; reflexivity | hs ] ] | hs ].

Lemma okx_okr n r : okx n r -> okr n r.
Proof. intros (a & c & H1 & H2 & _). exists a, c. auto. Qed.

Lemma multiline_ws_total : forall fuel c, here c < fuel ->
  exists c', parse_multiline_ws fuel c = Some c' /\ here c' <= here c.
Proof.
  induction fuel as [|f IH]; intros c Hf; [lia|].
  cbn [parse_multiline_ws].
  destruct (cur_t c) eqn:T; try (eexists; split; [reflexivity|lia]);
    assert (0 < here c) by (apply cur_t_not_eof; congruence).
  - (* COMMENT *)
    destruct (IH (advance_wss (snd (assert_token T_NL (advance_wss c))))) as (c' & E1 & E2).
    { rewrite here_advance_wss, here_assert_token, here_advance_wss. lia. }
    exists c'. split; [exact E1|]. rewrite here_advance_wss, here_assert_token, here_advance_wss in E2. lia.
  - destruct (IH (advance_wss c)) as (c' & E1 & E2); [rewrite here_advance_wss; lia|].
    exists c'. split; [exact E1|]. rewrite here_advance_wss in E2. lia.
  - destruct (IH (advance_wss c)) as (c' & E1 & E2); [rewrite here_advance_wss; lia|].
    exists c'. split; [exact E1|]. rewrite here_advance_wss in E2. lia.
Qed.

Lemma parse_type_total : forall fuel c, here c < fuel -> okr (here c) (parse_type fuel c).
Proof.
  induction fuel as [|f IH]; intros c Hf; [lia|].
  cbn [parse_type].
  destruct (cur_t c) eqn:T; try fin.
  - (* [ *)
    destruct (cur_t (advance c)) eqn:T2; try fin.
    pose proof (here_advance c). pose proof (here_advance (advance c)).
    assert (0 < here c) by (apply cur_t_not_eof; congruence).
    assert (0 < here (advance c)) by (apply cur_t_not_eof; congruence).
    destruct (IH (advance (advance c))) as (a & c' & E1 & E2); [lia|].
    rewrite E1. destruct a; fin.
  - destruct (cur_t (advance c)) eqn:T2; try fin.
    pose proof (here_advance c). pose proof (here_advance (advance c)).
    assert (0 < here c) by (apply cur_t_not_eof; congruence).
    assert (0 < here (advance c)) by (apply cur_t_not_eof; congruence).
    destruct (IH (advance (advance c))) as (a & c' & E1 & E2); [lia|].
    rewrite E1. destruct a; fin.
Qed.

Section ExprTotal.
Variable E : env.
Variable pe : nat -> pstate -> res (option tree).
Variable m : nat.
Hypothesis HPE : PE pe m.

(* use the hypothesis on pe for the call  pe p c1  occurring in the goal *)
Ltac use_pe p c1 :=
  let a := fresh "a" in let c' := fresh "c'" in let Q1 := fresh "Q" in let Q2 := fresh "Q" in let Q3 := fresh "Q" in
  destruct (HPE p c1) as (a & c' & Q1 & Q2 & Q3); [hs | rewrite Q1].

Lemma expr_wss_total c : here c <= m -> okx (here c) (parse_expr_wss pe c).
Proof.
  intro H. unfold parse_expr_wss.
  destruct (HPE lowestPrec (push_wss true c)) as (a & c' & Q1 & Q2 & Q3); [exact H|].
  rewrite Q1. rewrite here_push_wss in *. pose proof (here_pop_wss c').
  unfold ret. exists a, (pop_wss c'). split; [reflexivity|]. split; [lia|]. intro N. specialize (Q3 N). lia.
Qed.

Lemma expr_list_total : forall fuel acc c, here c <= m -> here c < fuel ->
  okr (here c) (parse_expr_list pe fuel acc c).
Proof.
  induction fuel as [|f IH]; intros acc c Hm Hf; [lia|].
  cbn [parse_expr_list].
  assert (D : okr (here c) (if is_at_eol c then ret (Some (rev acc)) c else
            (do (n, st1) <- parse_expr_wss pe c;
             match n with None => ret None st1 | Some t => parse_expr_list pe f (t :: acc) (advance_if_ws st1) end))).
  { destruct (is_at_eol c); [fin|].
    destruct (expr_wss_total c Hm) as (a & c' & Q1 & Q2 & Q3). rewrite Q1.
    destruct a as [t|]; [|fin].
    assert (here c' < here c) by (apply Q3; discriminate).
    pose proof (here_advance_if_ws c').
    destruct (IH (t :: acc) (advance_if_ws c')) as (a2 & c2 & R1 & R2); [lia|lia|].
    exists a2, c2. split; [exact R1|lia]. }
  destruct (cur_t c); try exact D; fin.
Qed.

Lemma func_call_total fuel top nil c :
  here c - 1 <= m -> here c < fuel -> 0 < here c -> okx (here c) (parse_func_call E pe fuel top nil c).
Proof.
  intros Hm Hf Hp. unfold parse_func_call. pose proof (here_advance c).
  destruct (top || negb nil); [|fin].
  destruct (expr_list_total fuel [] (advance c)) as (a & c' & Q1 & Q2); [lia|lia|].
  rewrite Q1. fin.
Qed.

Lemma toplevel_total fuel c :
  here c <= m -> here c < fuel -> okx (here c) (parse_toplevel E pe fuel c).
Proof.
  intros Hm Hf. unfold parse_toplevel.
  destruct (cur_t c) eqn:T; try (apply HPE; exact Hm).
  destruct (func_of E (tlit (cur c))) as [[|]|]; try (apply HPE; exact Hm).
  apply func_call_total; [lia|exact Hf|apply cur_t_not_eof; congruence].
Qed.

Lemma lookup_var_total c : 0 < here c -> okx (here c) (lookup_var E c).
Proof.
  intro Hp. unfold lookup_var. pose proof (here_advance c).
  destruct (str_eqb _ _); [fin|]. destruct (mem_str _ _); [fin|]. destruct (func_of E _); fin.
Qed.

Lemma ident_expr_total fuel c :
  here c - 1 <= m -> here c < fuel -> 0 < here c -> okx (here c) (parse_ident_expr E pe fuel c).
Proof.
  intros Hm Hf Hp. unfold parse_ident_expr.
  destruct (func_of E _) as [[|]|]; try (apply lookup_var_total; exact Hp).
  apply func_call_total; assumption.
Qed.

Lemma array_elems_total : forall fuel acc c, here c <= m -> here c < fuel ->
  okr (here c) (parse_array_elems E pe fuel acc c).
Proof.
  induction fuel as [|f IH]; intros acc c Hm Hf; [lia|].
  cbn [parse_array_elems].
  assert (D : okr (here c)
    (do (n, st1) <- parse_expr_wss pe c;
     match n with
     | None => ret None st1
     | Some t =>
       if tyerr E TS_array_elem_none t (here c) then ret None (add_err_at (E_type TS_array_elem_none) (here c) st1) else
       match parse_multiline_ws (S f) st1 with
       | None => None
       | Some st2 => parse_array_elems E pe f (t :: acc) st2
       end
     end)).
  { destruct (expr_wss_total c Hm) as (a & c' & Q1 & Q2 & Q3). rewrite Q1.
    destruct a as [t|]; [|fin].
    assert (here c' < here c) by (apply Q3; discriminate).
    destruct (tyerr E _ _ _); [fin|].
    destruct (multiline_ws_total (S f) c') as (c2 & W1 & W2); [lia|]. rewrite W1.
    destruct (IH (t :: acc) c2) as (a3 & c3 & R1 & R2); [lia|lia|].
    exists a3, c3. split; [exact R1|lia]. }
  destruct (cur_t c); try exact D; fin.
Qed.

Lemma array_literal_total fuel c :
  here c - 1 <= m -> here c < fuel -> 0 < here c -> okx (here c) (parse_array_literal E pe fuel c).
Proof.
  intros Hm Hf Hp. unfold parse_array_literal. pose proof (here_advance c).
  destruct (multiline_ws_total fuel (advance c)) as (c2 & W1 & W2); [lia|]. rewrite W1.
  destruct (array_elems_total fuel [] c2) as (a & c3 & Q1 & Q2); [lia|lia|]. rewrite Q1.
  destruct a as [l|]; [|fin].
  destruct (assert_token T_RBRACKET c3) as [ok c4] eqn:A. destruct ok; fin.
Qed.

Lemma map_pairs_total : forall fuel acc c, here c <= m -> here c < fuel ->
  okr (here c) (parse_map_pairs E pe fuel acc c).
Proof.
  induction fuel as [|f IH]; intros acc c Hm Hf; [lia|].
  cbn [parse_map_pairs].
  destruct (cur_t c) eqn:T; try fin;
    (assert (Hp : 0 < here c) by (apply cur_t_not_eof; congruence));
    set (st0 := match ttype (as_ident (cur c)) with T_IDENT => c | _ => add_err E_map_key c end);
    (assert (H0 : here st0 = here c) by (unfold st0; destruct (ttype (as_ident (cur c))); reflexivity));
    pose proof (here_advance st0);
    (destruct (has_key _ _); [fin|]);
    set (st3 := advance (snd (assert_token T_COLON (advance st0))));
    (assert (H3 : here st3 <= here c - 1)
       by (unfold st3; pose proof (here_advance (snd (assert_token T_COLON (advance st0)))); rewrite here_assert_token in *; lia));
    (destruct (expr_wss_total st3) as (a & c' & Q1 & Q2 & Q3); [lia|]); rewrite Q1;
    (destruct a as [t|]; [|fin]);
    (destruct (tyerr E _ _ _); [fin|]);
    (destruct (multiline_ws_total (S f) c') as (c2 & W1 & W2); [lia|]); rewrite W1;
    (destruct (IH ((tlit (as_ident (cur c)), t) :: acc) c2) as (a3 & c3 & R1 & R2); [lia|lia|]);
    exists a3, c3; (split; [exact R1|lia]).
Qed.

Lemma map_literal_total fuel c :
  here c - 1 <= m -> here c < fuel -> 0 < here c -> okx (here c) (parse_map_literal E pe fuel c).
Proof.
  intros Hm Hf Hp. unfold parse_map_literal. pose proof (here_advance (push_wss false c)). rewrite here_push_wss in *.
  destruct (multiline_ws_total fuel (advance (push_wss false c))) as (c2 & W1 & W2); [lia|]. rewrite W1.
  destruct (map_pairs_total fuel [] c2) as (a & c3 & Q1 & Q2); [lia|lia|]. rewrite Q1.
  destruct a as [l|]; [|fin].
  destruct (assert_token T_RCURLY c3) as [ok c4] eqn:A. destruct ok; fin.
Qed.

Lemma literal_total fuel c :
  here c - 1 <= m -> here c < fuel -> 0 < here c -> okx (here c) (parse_literal E pe fuel c).
Proof.
  intros Hm Hf Hp. unfold parse_literal. pose proof (here_advance c).
  destruct (ttype (cur c)); try fin.
  - destruct (num_lit_ok _); fin.
  - apply array_literal_total; assumption.
  - apply map_literal_total; assumption.
Qed.

Lemma unary_total c : here c - 1 <= m -> 0 < here c -> okx (here c) (parse_unary E pe c).
Proof.
  intros Hm Hp. unfold parse_unary. pose proof (here_advance c).
  set (st2 := if is_ws (prev (advance c)) then add_err_at E_ws_after_unary (here c) (advance c) else advance c).
  assert (H2 : here st2 = here (advance c)) by (unfold st2; destruct (is_ws _); reflexivity).
  destruct (HPE unary_operand_prec st2) as (a & c' & Q1 & Q2 & Q3); [lia|]. rewrite Q1.
  destruct a as [t|]; [|fin]. destruct (tyerr E _ _ _); fin.
Qed.

Lemma binary_total left c : here c - 1 <= m -> 0 < here c -> okx (here c) (parse_binary E pe left c).
Proof.
  intros Hm Hp. unfold parse_binary. pose proof (here_advance c).
  destruct (HPE (binary_operand_prec (precedences (cur_t c))) (advance c)) as (a & c' & Q1 & Q2 & Q3); [lia|]. rewrite Q1.
  destruct a as [t|]; [|fin]. destruct (tyerr E _ _ _); fin.
Qed.

Lemma grouped_total fuel c :
  here c - 1 <= m -> here c < fuel -> 0 < here c -> okx (here c) (parse_grouped E pe fuel c).
Proof.
  intros Hm Hf Hp. unfold parse_grouped. pose proof (here_advance (push_wss false c)). rewrite here_push_wss in *.
  destruct (toplevel_total fuel (advance (push_wss false c))) as (a & c' & Q1 & Q2 & Q3); [lia|lia|]. rewrite Q1.
  destruct (assert_token T_RPAREN c') as [ok c4] eqn:A. destruct ok, a; fin.
Qed.

Lemma slice_total fuel tok left start c :
  here c <= m -> here c < fuel -> okx (here c) (parse_slice E pe fuel tok left start c).
Proof.
  intros Hm Hf. unfold parse_slice.
  destruct (tyerr E TS_not_sliceable left tok); [fin|].
  assert (D : okx (here c)
    (do (e, st1) <- parse_toplevel E pe fuel c;
     match e with
     | None => ret None st1
     | Some x =>
       let '(ok, st2) := assert_token T_RBRACKET st1 in
       if ok then
         let st3 := slice_close E st2 in
         let t := TSlice left start (Some x) in
         if tyerr E TS_slice_bounds t tok then ret None (add_err_at (E_type TS_slice_bounds) tok st3) else ret (Some t) st3
       else ret None st2
     end)).
  { destruct (toplevel_total fuel c Hm Hf) as (a & c' & Q1 & Q2 & Q3). rewrite Q1.
    destruct a as [x|]; [|fin].
    assert (here c' < here c) by (apply Q3; discriminate).
    destruct (assert_token T_RBRACKET c') as [ok c4] eqn:A. destruct ok; [|fin].
    cbv zeta. destruct (tyerr E _ _ _); fin. }
  destruct (cur_t c) eqn:T; try exact D.
  assert (0 < here c) by (apply cur_t_not_eof; congruence).
  cbv zeta. destruct (tyerr E _ _ _); fin.
Qed.

Lemma index_or_slice_total fuel allow left c :
  here c - 1 <= m -> here c < fuel -> 0 < here c -> okx (here c) (parse_index_or_slice E pe fuel allow left c).
Proof.
  intros Hm Hf Hp. unfold parse_index_or_slice.
  pose proof (here_advance (push_wss false c)) as HA. rewrite here_push_wss in HA.
  destruct (is_ws (prev (push_wss false c))); [fin|].
  set (st1 := advance (push_wss false c)) in *.
  destruct (tyerr E TS_not_indexable left _); [fin|].
  destruct (allow && _).
  - pose proof (here_advance st1).
    destruct (slice_total fuel (here c) left None (advance st1)) as (a & c' & Q1 & Q2 & Q3); [lia|lia|]. rewrite Q1.
    pose proof (here_pop_wss c'). unfold ret. exists a, (pop_wss c'). split; [reflexivity|]. split; [lia|]. intro N. lia.
  - destruct (toplevel_total fuel st1) as (a & c' & Q1 & Q2 & Q3); [lia|lia|]. rewrite Q1.
    destruct a as [i|]; [|fin].
    destruct (allow && _).
    + pose proof (here_advance c').
      destruct (slice_total fuel (here c) left (Some i) (advance c')) as (a2 & c2 & R1 & R2 & R3); [lia|lia|]. rewrite R1.
      pose proof (here_pop_wss c2). unfold ret. exists a2, (pop_wss c2). split; [reflexivity|]. split; [lia|]. intro N. lia.
    + destruct (assert_token T_RBRACKET c') as [ok c4] eqn:A. destruct ok; [|fin].
      destruct (tyerr E _ _ _); fin.
Qed.

Lemma dot_total left c : 0 < here c -> okx (here c) (parse_dot E left c).
Proof.
  intro Hp. unfold parse_dot. destruct (is_ws (prev c)); [fin|]. destruct (is_ws (look1 (rest c))); [fin|].
  pose proof (here_advance c). destruct (tyerr E _ _ _); [fin|].
  destruct (ttype (as_ident (cur (advance c)))); fin.
Qed.

Lemma type_assertion_total fuel left c :
  here c < fuel -> 0 < here c -> okx (here c) (parse_type_assertion E fuel left c).
Proof.
  intros Hf Hp. unfold parse_type_assertion. destruct (is_ws (prev c)); [fin|]. destruct (is_ws (look1 (rest c))); [fin|].
  set (st1 := advance (advance (push_wss false c))).
  assert (H1 : here st1 <= here c - 1).
  { unfold st1. pose proof (here_advance (advance (push_wss false c))). pose proof (here_advance (push_wss false c)).
    rewrite here_push_wss in *. lia. }
  destruct (parse_type_total fuel st1) as (t & c2 & Q1 & Q2); [lia|]. rewrite Q1.
  set (st3 := match t with None => add_err_at E_bad_type (here c) c2 | Some TyAny => add_err_at E_assert_any (here c) c2 | Some _ => c2 end).
  assert (H3 : here st3 = here c2) by (unfold st3; destruct t as [[]|]; reflexivity).
  destruct (assert_token T_RPAREN st3) as [ok c4] eqn:A. apply assert_token_eq in A.
  set (st5 := if ok then advance_wss c4 else c4).
  assert (H5 : here st5 <= here c4) by (unfold st5; destruct ok; [rewrite here_advance_wss|]; lia).
  set (st6 := if tyerr E TS_assert_not_any left (here c) then add_err_at (E_type TS_assert_not_any) (here c) st5 else st5).
  assert (H6 : here st6 = here st5) by (unfold st6; destruct (tyerr E _ _ _); reflexivity).
  pose proof (here_pop_wss st6).
  destruct t; unfold ret; do 2 eexists; (split; [reflexivity|]); (split; [lia|intro; lia]).
Qed.

Lemma prefix_total fuel c :
  here c - 1 <= m -> here c < fuel -> okx (here c) (parse_prefix E pe fuel c).
Proof.
  intros Hm Hf. unfold parse_prefix.
  destruct (cur_t c) eqn:T; try fin;
    (assert (Hp : 0 < here c) by (apply cur_t_not_eof; congruence)).
  all: first [ apply ident_expr_total; assumption | apply literal_total; assumption
             | apply unary_total; assumption | apply grouped_total; assumption | idtac ].
Qed.

(* one turn of the loop body: total, and strictly consuming when it yields a tree *)
Lemma infix_total fuel left c r :
  here c - 1 <= m -> here c < fuel -> parse_infix E pe fuel left c = Some r -> okx (here c) r.
Proof.
  intros Hm Hf. unfold parse_infix.
  destruct (is_binary_op (cur_t c)) eqn:B.
  - intro H; inversion H; subst. apply binary_total; [exact Hm|].
    apply cur_t_not_eof. intro Q. rewrite Q in B. discriminate B.
  - destruct (cur_t c) eqn:T; try discriminate;
      (assert (Hp : 0 < here c) by (apply cur_t_not_eof; congruence)).
    + intro H; inversion H; subst. apply index_or_slice_total; assumption.
    + destruct (ttype (peek c)); intro H; inversion H; subst;
        first [ apply type_assertion_total; assumption | apply dot_total; assumption ].
Qed.

End ExprTotal.

Lemma here_zero_eof c : here c = 0 -> cur_t c = T_EOF.
Proof. unfold here, cur_t, cur. destruct (rest c); simpl; [reflexivity|discriminate]. Qed.

Lemma parse_expr_unfold E f p st :
  parse_expr E (S f) p st =
  match parse_prefix E (parse_expr E f) f st with
  | None => None
  | Some (l, st1) => match l with None => ret None st1 | Some lf => expr_loop E f p lf st1 end
  end.
Proof. reflexivity. Qed.

Lemma expr_loop_unfold E f p left st :
  expr_loop E (S f) p left st =
  if is_at_expr_end st then ret (Some left) st
  else if loop_continues p (precedences (cur_t st)) then
    match parse_infix E (parse_expr E f) f left st with
    | None => ret (Some left) st
    | Some r => match r with
                | None => None
                | Some (l, st1) => match l with None => ret None st1 | Some left' => expr_loop E f p left' st1 end
                end
    end
  else ret (Some left) st.
Proof. reflexivity. Qed.

Lemma expr_total E : forall fuel,
  (forall p c, 2 * here c + 2 <= fuel -> okx (here c) (parse_expr E fuel p c)) /\
  (forall p l c, 2 * here c + 1 <= fuel -> okr (here c) (expr_loop E fuel p l c)).
Proof.
  induction fuel as [|f [IHe IHl]]; [split; intros; lia|].
  split.
  - intros p c Hf. rewrite parse_expr_unfold.
    destruct (here c) as [|h] eqn:Hh.
    + (* no token left: the prefix switch reports and returns nil *)
      unfold parse_prefix. rewrite (here_zero_eof c Hh). unfold ret.
      exists None, (unexpected_left c). split; [reflexivity|]. rewrite here_unexpected_left. split; [lia|intro N; exfalso; apply N; reflexivity].
    + assert (HPE : PE (parse_expr E f) h).
      { intros q c1 H1. apply IHe. lia. }
      destruct (prefix_total E (parse_expr E f) h HPE f c) as (a & c1 & Q1 & Q2 & Q3); [lia|lia|]. rewrite Q1.
      destruct a as [lf|].
      * assert (here c1 < here c) by (apply Q3; discriminate).
        destruct (IHl p lf c1) as (a2 & c2 & R1 & R2); [lia|]. rewrite R1.
        exists a2, c2. split; [reflexivity|]. split; [lia|intro; lia].
      * rewrite Hh in *. unfold ret. exists None, c1. split; [reflexivity|]. split; [lia|intro N; exfalso; apply N; reflexivity].
  - intros p l c Hf. rewrite expr_loop_unfold.
    destruct (is_at_expr_end c) eqn:EE; [fin|].
    destruct (loop_continues p (precedences (cur_t c))); [|fin].
    destruct (here c) as [|h] eqn:Hh.
    { unfold is_at_expr_end, is_at_eol in EE. rewrite (here_zero_eof c Hh) in EE. simpl in EE.
      destruct (is_wss c && is_ws (cur c)); discriminate EE. }
    assert (HPE : PE (parse_expr E f) h).
    { intros q c1 H1. apply IHe. lia. }
    destruct (parse_infix E (parse_expr E f) f l c) as [r|] eqn:PI.
    + destruct (infix_total E (parse_expr E f) h HPE f l c r) as (a & c1 & Q1 & Q2 & Q3); [lia|lia|exact PI|]. rewrite Q1.
      destruct a as [lf|].
      * assert (here c1 < here c) by (apply Q3; discriminate).
        destruct (IHl p lf c1) as (a2 & c2 & R1 & R2); [lia|]. rewrite R1.
        exists a2, c2. split; [reflexivity|lia].
      * unfold ret. exists None, c1. split; [reflexivity|lia].
    + unfold ret. exists (Some l), c. split; [reflexivity|lia].
Qed.

(* the fuel Parser.v hands to every expression-level call suffices *)
Theorem expr_fuel_suffices E c : PE (parse_expr E (efuel c)) (here c).
Proof. intros p c1 H. apply (expr_total E (efuel c)). unfold efuel. lia. Qed.

(* ================================================================ *)
(** * Statement level: state helpers never move the cursor backwards *)

Lemma pos_with_scs s l : pos (with_scs s l) = pos s.
Proof. reflexivity. Qed.
Lemma pos_upd f s : pos (upd f s) = here (f (cs s)).
Proof. reflexivity. Qed.
Lemma pos_adv s : pos (adv s) <= pos s - 1.
Proof. unfold adv. rewrite pos_upd. apply here_advance. Qed.
Lemma pos_serr_at k n s : pos (serr_at k n s) = pos s.
Proof. reflexivity. Qed.
Lemma pos_serr k s : pos (serr k s) = pos s.
Proof. reflexivity. Qed.
Lemma pos_assert_eol s : pos (assert_eol s) = pos s.
Proof. unfold assert_eol. destruct (is_at_eol (cs s)); reflexivity. Qed.
Lemma pos_passert t s : pos (snd (passert t s)) = pos s.
Proof.
  unfold passert. destruct (assert_token t (cs s)) as [ok c] eqn:A. simpl.
  apply assert_token_eq in A. exact A.
Qed.
Lemma passert_eq t s ok s' : passert t s = (ok, s') -> pos s' = pos s.
Proof. intro H. pose proof (pos_passert t s) as H2. rewrite H in H2. exact H2. Qed.

Lemma pos_zero_eof s : pos s = 0 -> ct s = T_EOF.
Proof. apply here_zero_eof. Qed.
Lemma ct_not_eof s : ct s <> T_EOF -> 0 < pos s.
Proof. apply cur_t_not_eof. Qed.

Lemma apnl_loop_le : forall f c, here (apnl_loop f c) <= here c.
Proof.
  induction f as [|f IH]; intro c; simpl; [lia|].
  pose proof (IH (advance c)). pose proof (here_advance c).
  destruct (cur_t c); lia.
Qed.
Lemma pos_apnl s : pos (apnl s) <= pos s.
Proof. unfold apnl. rewrite pos_upd. apply apnl_loop_le. Qed.
Lemma pos_apnl_lt s : ct s <> T_EOF -> pos (apnl s) < pos s.
Proof.
  intro H. pose proof (ct_not_eof s H) as Hp. unfold apnl. rewrite pos_upd. unfold pos, ct in *.
  cbn [apnl_loop]. pose proof (here_advance (cs s)). pose proof (apnl_loop_le (here (cs s)) (advance (cs s))).
  destruct (cur_t (cs s)); try lia. congruence.
Qed.

Lemma pos_scope_set n p s : pos (scope_set n p s) = pos s.
Proof. unfold scope_set. destruct (str_eqb _ _); [reflexivity|]. destruct (scs s); reflexivity. Qed.
Lemma pos_mark n s : pos (mark n s) = pos s.
Proof. reflexivity. Qed.
Lemma pos_push_scope a b c s : pos (push_scope a b c s) = pos s.
Proof. reflexivity. Qed.
Lemma pos_push_inherit b s : pos (push_inherit b s) = pos s.
Proof. reflexivity. Qed.
Lemma pos_pop_scope s : pos (pop_scope s) = pos s.
Proof. reflexivity. Qed.
Lemma pos_fold_serr {X} (f : X -> nat) k (l : list X) : forall s,
  pos (fold_left (fun s v => serr_at k (f v) s) l s) = pos s.
Proof. induction l as [|x l IH]; intro s; simpl; [reflexivity|]. rewrite IH. reflexivity. Qed.
Lemma pos_validate_scope s : pos (validate_scope s) = pos s.
Proof. unfold validate_scope. destruct (scs s); [reflexivity|]. apply pos_fold_serr. Qed.
Lemma pos_collect s c : pos (collect s c) = here c.
Proof.
  unfold collect. rewrite pos_upd. simpl.
  assert (H : forall l s0, cs (fold_right mark s0 l) = cs s0) by (induction l; intro; simpl; auto).
  unfold here. simpl. rewrite H. reflexivity.
Qed.
Lemma pos_validate_var_decl B n p a s : pos (snd (validate_var_decl B n p a s)) = pos s.
Proof. unfold validate_var_decl. repeat (destruct (_ : bool); try reflexivity). Qed.
Lemma validate_var_decl_eq B n p a s ok s' : validate_var_decl B n p a s = (ok, s') -> pos s' = pos s.
Proof. intro H. pose proof (pos_validate_var_decl B n p a s) as H2. rewrite H in H2. exact H2. Qed.
Lemma pos_finish_end s : pos (finish_end s) <= pos s.
Proof.
  unfold finish_end. pose proof (pos_apnl (assert_eol (adv (snd (passert T_END s))))).
  rewrite pos_assert_eol in *. pose proof (pos_adv (snd (passert T_END s))). rewrite pos_passert in *. lia.
Qed.

Lemma pos_ty_err_here site s : pos (ty_err_here site s) = pos s.
Proof. reflexivity. Qed.

(* facts about the position of every state operation in a term *)
Ltac pfact t :=
  lazymatch t with
  | adv ?x => pfact x; pose proof (pos_adv x)
  | apnl ?x => pfact x; pose proof (pos_apnl x)
  | finish_end ?x => pfact x; pose proof (pos_finish_end x)
  | serr_at ?k ?n ?x => pfact x; pose proof (pos_serr_at k n x)
  | serr ?k ?x => pfact x; pose proof (pos_serr k x)
  | assert_eol ?x => pfact x; pose proof (pos_assert_eol x)
  | snd (passert ?t ?x) => pfact x; pose proof (pos_passert t x)
  | snd (validate_var_decl ?B ?n ?p ?a ?x) => pfact x; pose proof (pos_validate_var_decl B n p a x)
  | scope_set ?n ?p ?x => pfact x; pose proof (pos_scope_set n p x)
  | mark ?n ?x => pfact x; pose proof (pos_mark n x)
  | push_scope ?a ?b ?c ?x => pfact x; pose proof (pos_push_scope a b c x)
  | push_inherit ?b ?x => pfact x; pose proof (pos_push_inherit b x)
  | pop_scope ?x => pfact x; pose proof (pos_pop_scope x)
  | validate_scope ?x => pfact x; pose proof (pos_validate_scope x)
  | ty_err_here ?site ?x => pfact x; pose proof (pos_ty_err_here site x)
  | upd (add_err_at ?e ?n) ?x => pfact x; pose proof (eq_refl : pos (upd (add_err_at e n) x) = pos x)
  | upd (add_err ?e) ?x => pfact x; pose proof (eq_refl : pos (upd (add_err e) x) = pos x)
  | with_scs ?x ?l => pfact x; pose proof (pos_with_scs x l)
  | (if ?b then ?x else ?y) => pfact x; pfact y
  | _ => idtac
  end.
Ltac ps_ :=
  repeat match goal with
         | H : passert _ _ = (_, _) |- _ => apply passert_eq in H
         | H : validate_var_decl _ _ _ _ _ = (_, _) |- _ => apply validate_var_decl_eq in H
         end;
  lazymatch goal with
  | |- pos ?a <= _ => pfact a
  | |- pos ?a < _ => pfact a
  | |- _ => idtac
  end;
  repeat match goal with |- context[if ?b then _ else _] => destruct b end;
  try lia.

(* ================================================================ *)
(** * Statement level: total, no panic site reached, progress        *)

Definition okP {A} (n : nat) (r : PR A) : Prop :=
  exists a s', r = Ok a s' /\ pos s' <= n.
Definition okT (n : nat) (r : PR (option tree)) : Prop :=
  exists a s', r = Ok a s' /\ pos s' <= n /\ (a <> None -> pos s' < n).
(* a statement parser always consumes something *)
Definition okS (n : nat) (r : PR (option stmt)) : Prop :=
  exists a s', r = Ok a s' /\ pos s' < n.

Ltac finP := do 2 eexists; split; [reflexivity|]; ps_.

Section StmtTotal.
Variable B : benv.

Lemma p_toplevel_ok s : okT (pos s) (p_toplevel B s).
Proof.
  unfold p_toplevel, expr_call.
  destruct (toplevel_total (env_of B s) (parse_expr (env_of B s) (efuel (cs s))) (here (cs s))
              (expr_fuel_suffices _ _) (efuel (cs s)) (cs s)) as (a & c' & Q1 & Q2 & Q3); [lia|unfold efuel; lia|].
  rewrite Q1. exists a, (collect s c'). rewrite pos_collect. auto.
Qed.

Lemma p_expr_list_ok s : okP (pos s) (p_expr_list B s).
Proof.
  unfold p_expr_list, expr_call.
  destruct (expr_list_total (parse_expr (env_of B s) (efuel (cs s))) (here (cs s))
              (expr_fuel_suffices _ _) (efuel (cs s)) [] (cs s)) as (a & c' & Q1 & Q2); [lia|unfold efuel; lia|].
  rewrite Q1. exists a, (collect s c'). rewrite pos_collect. auto.
Qed.

Lemma p_func_call_ok nil s : 0 < pos s -> exists c s', p_func_call B nil s = Ok (Some c) s' /\ pos s' < pos s.
Proof.
  intro Hp. unfold p_func_call, expr_call, parse_func_call.
  pose proof (here_advance (cs s)).
  destruct (true || negb nil).
  - destruct (expr_list_total (parse_expr (env_of B s) (efuel (cs s))) (here (cs s))
              (expr_fuel_suffices _ _) (efuel (cs s)) [] (advance (cs s))) as (a & c' & Q1 & Q2); [lia|unfold efuel; lia|].
    rewrite Q1. unfold ret. do 2 eexists. split; [reflexivity|]. rewrite pos_collect. unfold pos in *.
    destruct (arity_wrong _ _ _); [|destruct (tyerr _ _ _ _)]; unfold here in *; simpl; lia.
  - unfold ret. do 2 eexists. split; [reflexivity|]. rewrite pos_collect. unfold pos in *. lia.
Qed.

Lemma p_index_ok left s : 0 < pos s -> okT (pos s) (p_index B left s).
Proof.
  intro Hp. unfold p_index, expr_call.
  destruct (index_or_slice_total (env_of B s) (parse_expr (env_of B s) (efuel (cs s))) (here (cs s))
              (expr_fuel_suffices _ _) (efuel (cs s)) false left (cs s)) as (a & c' & Q1 & Q2 & Q3);
    [lia|unfold efuel; lia|exact Hp|].
  rewrite Q1. exists a, (collect s c'). rewrite pos_collect. auto.
Qed.

Lemma p_dot_ok left s : 0 < pos s -> okT (pos s) (p_dot B left s).
Proof.
  intro Hp. unfold p_dot, expr_call.
  destruct (dot_total (env_of B s) left (cs s) Hp) as (a & c' & Q1 & Q2 & Q3).
  rewrite Q1. exists a, (collect s c'). rewrite pos_collect. auto.
Qed.

Lemma p_type_ok s : okP (pos s) (p_type B s).
Proof.
  unfold p_type, expr_call.
  destruct (parse_type_total (efuel (cs s)) (cs s)) as (a & c' & Q1 & Q2); [unfold efuel; lia|].
  rewrite Q1. exists a, (collect s c'). rewrite pos_collect. auto.
Qed.

Lemma typed_decl_ok s : okP (pos s - 1) (parse_typed_decl B s).
Proof.
  unfold parse_typed_decl.
  set (s1 := adv (snd (passert T_COLON (adv (snd (passert T_IDENT s)))))).
  assert (H1 : pos s1 <= pos s - 1).
  { unfold s1. pose proof (pos_adv (snd (passert T_COLON (adv (snd (passert T_IDENT s)))))).
    pose proof (pos_adv (snd (passert T_IDENT s))).
    rewrite !pos_passert in *. lia. }
  destruct (p_type_ok s1) as (t & s2 & Q1 & Q2). rewrite Q1.
  destruct t; do 2 eexists; (split; [reflexivity|]); try rewrite pos_serr_at; lia.
Qed.

Lemma typed_decl_stmt_ok s : 0 < pos s -> okS (pos s) (parse_typed_decl_stmt B s).
Proof.
  intro Hp. unfold parse_typed_decl_stmt.
  destruct (typed_decl_ok s) as (d & s1 & Q1 & Q2). rewrite Q1.
  destruct d as [[name dpos] t].
  do 2 eexists. split; [reflexivity|].
  match goal with |- pos (apnl ?x) < _ => pose proof (pos_apnl x); assert (pos x = pos s1); [|lia] end.
  destruct t; [|reflexivity].
  destruct (validate_var_decl B name dpos false s1) as [ok s2] eqn:V. apply validate_var_decl_eq in V.
  destruct ok; [rewrite pos_assert_eol, pos_scope_set|]; lia.
Qed.

Lemma inferred_decl_stmt_ok s : 0 < pos s -> okS (pos s) (parse_inferred_decl_stmt B s).
Proof.
  intro Hp. unfold parse_inferred_decl_stmt.
  set (s1 := adv (adv (snd (passert T_IDENT s)))).
  assert (H1 : pos s1 <= pos s - 1).
  { unfold s1. pose proof (pos_adv (adv (snd (passert T_IDENT s)))). pose proof (pos_adv (snd (passert T_IDENT s))).
    rewrite pos_passert in *. lia. }
  destruct (p_toplevel_ok s1) as (v & s2 & Q1 & Q2 & _). rewrite Q1.
  destruct v as [t|]; [|finP].
  destruct (tyerr_s B _ _ _); [finP|].
  destruct (validate_var_decl B _ _ false s2) as [ok s3] eqn:V.
  destruct ok; finP.
Qed.

Lemma assign_target_loop_ok : forall fuel tok n s, pos s < fuel -> okP (pos s) (assign_target_loop B fuel tok n s).
Proof.
  induction fuel as [|f IH]; intros tok n s Hf; [lia|].
  cbn [assign_target_loop].
  destruct (ct s) eqn:T; try finP.
  - assert (Hp : 0 < pos s) by (apply ct_not_eof; congruence).
    destruct (tyerr_s B _ _ _); [finP|].
    destruct (p_index_ok n s Hp) as (r & s1 & Q1 & Q2 & Q3). rewrite Q1.
    destruct r as [n'|]; [|finP].
    assert (pos s1 < pos s) by (apply Q3; discriminate).
    destruct (IH tok n' s1) as (a & s2 & R1 & R2); [lia|]. rewrite R1. do 2 eexists. split; [reflexivity|lia].
  - assert (Hp : 0 < pos s) by (apply ct_not_eof; congruence).
    destruct (p_dot_ok n s Hp) as (r & s1 & Q1 & Q2 & Q3). rewrite Q1.
    destruct r as [n'|]; [|finP].
    assert (pos s1 < pos s) by (apply Q3; discriminate).
    destruct (IH tok n' s1) as (a & s2 & R1 & R2); [lia|]. rewrite R1. do 2 eexists. split; [reflexivity|lia].
Qed.

Lemma assign_target_ok s : okP (pos s - 1) (parse_assign_target B s).
Proof.
  unfold parse_assign_target. pose proof (pos_adv s).
  destruct (str_eqb _ _); [finP|]. destruct (negb _); [finP|].
  destruct (assign_target_loop_ok (S (pos (adv s))) (pos s) (TVar (tlit (cur (cs s)))) (mark (tlit (cur (cs s))) (adv s)))
    as (a & s2 & R1 & R2); [rewrite pos_mark; lia|].
  rewrite R1. rewrite pos_mark in R2. do 2 eexists. split; [reflexivity|lia].
Qed.

Lemma assign_stmt_ok s : ct s <> T_EOF -> okS (pos s) (parse_assign_stmt B s).
Proof.
  intro Hc. pose proof (ct_not_eof s Hc) as Hp. unfold parse_assign_stmt.
  destruct (is_func _ s).
  { do 2 eexists. split; [reflexivity|]. pose proof (pos_apnl_lt (serr K_assign_to_func s)). rewrite pos_serr in *. apply H. exact Hc. }
  destruct (assign_target_ok s) as (tg & s1 & Q1 & Q2). rewrite Q1.
  destruct tg as [target|]; [|finP].
  destruct (p_toplevel_ok (adv (snd (passert T_ASSIGN s1)))) as (v & s3 & R1 & R2 & _). rewrite R1.
  pose proof (pos_adv (snd (passert T_ASSIGN s1))). rewrite pos_passert in *.
  destruct v as [value|]; finP.
Qed.

Lemma apnl_serr_lt k s : ct s <> T_EOF -> pos (apnl (serr k s)) < pos s.
Proof. intro H. pose proof (pos_apnl_lt (serr k s)) as HL. rewrite pos_serr in HL. apply HL. exact H. Qed.

Lemma lookup_fn_is_func n s : is_func n s = true -> exists fi, lookup_fn n (fns s) = Some fi.
Proof. unfold is_func. destruct (lookup_fn n (fns s)); [eauto|discriminate]. Qed.

Lemma call_stmt_ok s : is_func (tlit (cur (cs s))) s = true -> 0 < pos s -> okS (pos s) (parse_call_stmt B s).
Proof.
  intros Hf Hp. unfold parse_call_stmt. destruct (lookup_fn_is_func _ _ Hf) as (fi & ->).
  destruct (p_func_call_ok (fi_nil fi) s Hp) as (c & s1 & Q1 & Q2). rewrite Q1. finP.
Qed.

Lemma return_stmt_ok s : 0 < pos s -> okS (pos s) (parse_return_stmt B s).
Proof.
  intro Hp. unfold parse_return_stmt. pose proof (pos_adv s).
  destruct (is_at_eol (cs (adv s))); [finP|].
  destruct (p_toplevel_ok (adv s)) as (r & s2 & Q1 & Q2 & _). rewrite Q1.
  destruct r; finP.
Qed.

Lemma break_stmt_ok s : 0 < pos s -> okS (pos s) (parse_break_stmt s).
Proof. intro Hp. unfold parse_break_stmt. finP. Qed.

Lemma condition_ok s : okP (pos s) (parse_condition B s).
Proof.
  unfold parse_condition. destruct (p_toplevel_ok s) as (c & s1 & Q1 & Q2 & _). rewrite Q1.
  destruct c; finP.
Qed.

Lemma empty_stmt_ok s : ct s = T_NL \/ ct s = T_COMMENT -> okS (pos s) (parse_empty_stmt s).
Proof.
  intro H. assert (Hp : 0 < pos s) by (apply ct_not_eof; destruct H as [H|H]; rewrite H; discriminate).
  unfold parse_empty_stmt. destruct H as [-> | ->]; finP.
Qed.

(* ---- the part that is open in parseStatement ---- *)
Variable ps : pst -> PR (option stmt).
Variable m : nat.
Definition PS : Prop := forall s, pos s <= m -> ct s <> T_EOF -> okS (pos s) (ps s).
Hypothesis HPS : PS.

Lemma block_loop_ok : forall fuel els acc terms s, pos s <= m -> pos s < fuel ->
  okP (pos s) (block_loop ps fuel els acc terms s).
Proof.
  induction fuel as [|f IH]; intros els acc terms s Hm Hf; [lia|].
  cbn [block_loop].
  destruct (match ct s with T_END | T_EOF => true | T_ELSE => els | _ => false end) eqn:AE; [finP|].
  assert (Hc : ct s <> T_EOF) by (intro Q; rewrite Q in AE; discriminate).
  destruct (HPS s Hm Hc) as (r & s1 & Q1 & Q2). rewrite Q1.
  destruct r as [st|].
  - destruct (terms && negb (is_empty_stmt st)).
    + destruct (IH els acc terms (serr_at K_unreachable (pos s) s1)) as (a & s2 & R1 & R2); [rewrite pos_serr_at; lia|rewrite pos_serr_at; lia|].
      rewrite R1. rewrite pos_serr_at in R2. do 2 eexists. split; [reflexivity|lia].
    + destruct (IH els (st :: acc) (terms || always_terms st) s1) as (a & s2 & R1 & R2); [lia|lia|].
      rewrite R1. do 2 eexists. split; [reflexivity|lia].
  - destruct (IH els acc terms s1) as (a & s2 & R1 & R2); [lia|lia|].
    rewrite R1. do 2 eexists. split; [reflexivity|lia].
Qed.

Lemma block_with_ok fuel els s : pos s <= m -> pos s < fuel -> okP (pos s) (parse_block_with ps fuel els s).
Proof.
  intros Hm Hf. unfold parse_block_with.
  destruct (block_loop_ok fuel els [] false s Hm Hf) as (b & s1 & Q1 & Q2). rewrite Q1.
  do 2 eexists. split; [reflexivity|]. rewrite pos_validate_scope.
  destruct b as [[|x l] t]; [rewrite pos_serr_at|]; lia.
Qed.

Lemma for_stmt_ok fuel s : 0 < pos s -> pos s - 1 <= m -> pos s <= fuel -> okS (pos s) (parse_for_stmt B ps fuel s).
Proof.
  intros Hp Hm Hf. unfold parse_for_stmt.
  set (s1 := adv (push_inherit true s)).
  assert (H1 : pos s1 <= pos s - 1) by (unfold s1; pose proof (pos_adv (push_inherit true s)); rewrite pos_push_inherit in *; lia).
  match goal with |- okS _ (match ?lv with _ => _ end) => set (LV := lv) end.
  assert (HL : pos (snd LV) <= pos s1).
  { unfold LV. destruct (ct s1); simpl; try lia.
    destruct (validate_var_decl B _ _ false s1) as [ok s2] eqn:V. apply validate_var_decl_eq in V.
    destruct ok; simpl; [|lia].
    match goal with |- pos (adv ?x) <= _ => pose proof (pos_adv x) end.
    rewrite pos_passert in *.
    match goal with H : pos (adv (snd (passert _ (adv ?y)))) <= _ |- _ => pose proof (pos_adv y) end.
    rewrite pos_scope_set in *. lia. }
  destruct LV as [[v|] s4]; simpl in HL; [|finP].
  destruct (passert T_RANGE s4) as [ok s5] eqn:A. apply passert_eq in A.
  destruct ok; simpl; [|finP].
  destruct (p_expr_list_ok (adv s5)) as (ns & s7 & Q1 & Q2). rewrite Q1. pose proof (pos_adv s5).
  destruct (match ns with Some l => l | None => [] end) as [|n more]; [finP|].
  destruct (_ && _); [finP|].
  match goal with |- context[parse_block_with ps fuel false ?x] => set (sb := x) end.
  assert (Hsb : pos sb <= pos s7).
  { unfold sb. match goal with |- pos (apnl ?y) <= _ => pose proof (pos_apnl y); assert (pos y = pos s7) end; [|lia].
    destruct (tyerr_s B _ _ _); [unfold ty_err_here|]; rewrite ?pos_assert_eol; try reflexivity.
    change (pos (assert_eol s7) = pos s7). apply pos_assert_eol. }
  destruct (block_with_ok fuel false sb) as (b & s10 & R1 & R2); [lia|lia|]. rewrite R1.
  do 2 eexists. split; [reflexivity|]. rewrite pos_pop_scope. pose proof (pos_finish_end s10). lia.
Qed.

Lemma while_stmt_ok fuel s : 0 < pos s -> pos s - 1 <= m -> pos s <= fuel -> okS (pos s) (parse_while_stmt B ps fuel s).
Proof.
  intros Hp Hm Hf. unfold parse_while_stmt. pose proof (pos_adv s).
  destruct (condition_ok (push_inherit true (adv s))) as (c & s2 & Q1 & Q2). rewrite Q1. rewrite pos_push_inherit in Q2.
  pose proof (pos_apnl s2).
  destruct (block_with_ok fuel false (apnl s2)) as (b & s3 & R1 & R2); [lia|lia|]. rewrite R1.
  do 2 eexists. split; [reflexivity|]. rewrite pos_pop_scope. pose proof (pos_finish_end s3). lia.
Qed.

Lemma if_cond_block_ok fuel s : 0 < pos s -> pos s - 1 <= m -> pos s <= fuel ->
  exists a s', parse_if_cond_block B ps fuel s = Ok a s' /\ pos s' < pos s.
Proof.
  intros Hp Hm Hf. unfold parse_if_cond_block.
  pose proof (pos_adv (push_inherit false s)) as HA. rewrite pos_push_inherit in HA.
  destruct (condition_ok (adv (push_inherit false s))) as (c & s2 & Q1 & Q2). rewrite Q1.
  pose proof (pos_apnl s2).
  destruct (block_with_ok fuel true (apnl s2)) as (b & s3 & R1 & R2); [lia|lia|]. rewrite R1.
  do 2 eexists. split; [reflexivity|]. rewrite pos_pop_scope. lia.
Qed.

Lemma else_if_loop_ok : forall fuel bfuel acc s, pos s < fuel -> pos s - 1 <= m -> pos s <= bfuel ->
  okP (pos s) (else_if_loop B ps fuel bfuel acc s).
Proof.
  induction fuel as [|f IH]; intros bfuel acc s Hf Hm Hb; [lia|].
  cbn [else_if_loop].
  destruct (ct s) eqn:T; try finP.
  destruct (ttype (peek (cs s))) eqn:PK; try finP.
  assert (Hp : 0 < pos s) by (apply ct_not_eof; congruence).
  pose proof (pos_adv s).
  (* the token after ELSE is IF: it is still there *)
  destruct (pos (adv s)) as [|k] eqn:PA.
  - (* nothing left after "else": parse_if_cond_block still returns (on EOF) *)
    assert (Q : exists a s', parse_if_cond_block B ps bfuel (adv s) = Ok a s' /\ pos s' <= 0).
    { unfold parse_if_cond_block.
      pose proof (pos_adv (push_inherit false (adv s))) as HA. rewrite pos_push_inherit in HA.
      destruct (condition_ok (adv (push_inherit false (adv s)))) as (c & s2 & Q1 & Q2). rewrite Q1.
      pose proof (pos_apnl s2).
      destruct (block_with_ok bfuel true (apnl s2)) as (b & s3 & R1 & R2); [lia|lia|]. rewrite R1.
      do 2 eexists. split; [reflexivity|]. rewrite pos_pop_scope. lia. }
    destruct Q as (cb & s1 & Q1 & Q2). rewrite Q1.
    destruct (IH bfuel (cb :: acc) s1) as (a & s2 & R1 & R2); [lia|lia|lia|]. rewrite R1.
    do 2 eexists. split; [reflexivity|lia].
  - destruct (if_cond_block_ok bfuel (adv s)) as (cb & s1 & Q1 & Q2); [lia|lia|lia|]. rewrite Q1.
    destruct (IH bfuel (cb :: acc) s1) as (a & s2 & R1 & R2); [lia|lia|lia|]. rewrite R1.
    do 2 eexists. split; [reflexivity|lia].
Qed.

Lemma if_stmt_ok fuel s : 0 < pos s -> pos s - 1 <= m -> pos s <= fuel -> okS (pos s) (parse_if_stmt B ps fuel s).
Proof.
  intros Hp Hm Hf. unfold parse_if_stmt.
  destruct (if_cond_block_ok fuel s Hp Hm Hf) as (cb & s1 & Q1 & Q2). rewrite Q1.
  destruct (else_if_loop_ok (S (pos s1)) fuel [cb] s1) as (brs & s2 & R1 & R2); [lia|lia|lia|]. rewrite R1.
  destruct (ct s2) eqn:T2;
    try (do 2 eexists; split; [reflexivity|]; pose proof (pos_finish_end s2); lia).
  cbv zeta.
  assert (H3 : pos (push_inherit false (apnl (assert_eol (adv s2)))) <= pos s2).
  { rewrite pos_push_inherit. pose proof (pos_apnl (assert_eol (adv s2))). rewrite pos_assert_eol in *. pose proof (pos_adv s2). lia. }
  destruct (block_with_ok fuel false (push_inherit false (apnl (assert_eol (adv s2))))) as (b & s4 & S1 & S2); [lia|lia|].
  rewrite S1. do 2 eexists. split; [reflexivity|]. pose proof (pos_finish_end (pop_scope s4)). rewrite pos_pop_scope in *. lia.
Qed.

Lemma statement_body_ok fuel s :
  ct s <> T_EOF -> pos s - 1 <= m -> pos s <= fuel -> okS (pos s) (parse_statement_body B ps fuel s).
Proof.
  intros Hc Hm Hf. pose proof (ct_not_eof s Hc) as Hp. unfold parse_statement_body.
  destruct (ct s) eqn:T; try congruence;
    try (do 2 eexists; split; [reflexivity|apply apnl_serr_lt; rewrite T; discriminate]).
  - apply empty_stmt_ok. right. exact T.
  - (* IDENT *)
    destruct (ttype (peek (cs s))) eqn:PK;
      try (apply assign_stmt_ok; rewrite T; discriminate); try (apply typed_decl_stmt_ok; exact Hp);
      try (apply inferred_decl_stmt_ok; exact Hp);
      (destruct (is_func (tlit (cur (cs s))) s) eqn:F; [apply call_stmt_ok; assumption|]);
      try (apply assign_stmt_ok; rewrite T; discriminate);
      (do 2 eexists; split; [reflexivity|apply apnl_serr_lt; rewrite T; discriminate]).
  - (* WS *) finP.
  - apply empty_stmt_ok. left. exact T.
  - apply if_stmt_ok; assumption.
  - apply return_stmt_ok; assumption.
  - apply for_stmt_ok; assumption.
  - apply while_stmt_ok; assumption.
  - apply break_stmt_ok; assumption.
Qed.

End StmtTotal.

Section ProgramTotal.
Variable B : benv.

Theorem stmt_total : forall fuel s, 2 * pos s + 1 <= fuel -> ct s <> T_EOF ->
  okS (pos s) (parse_statement B fuel s).
Proof.
  induction fuel as [|f IH]; intros s Hf Hc; [lia|].
  cbn [parse_statement]. pose proof (ct_not_eof s Hc).
  apply (statement_body_ok B (parse_statement B f) (pos s - 1)); [|exact Hc|lia|lia].
  intros s1 H1 Hc1. apply IH; [lia|exact Hc1].
Qed.

Lemma PS_of_fuel fuel n : 2 * n + 1 <= fuel -> PS (parse_statement B fuel) n.
Proof. intros H s Hs Hc. apply stmt_total; [lia|exact Hc]. Qed.

Lemma parse_block_ok fuel s : 2 * pos s + 1 <= fuel -> okP (pos s) (parse_block B fuel s).
Proof.
  intro H. unfold parse_block.
  apply (block_with_ok (parse_statement B fuel) (pos s) (PS_of_fuel fuel (pos s) H)); lia.
Qed.

Lemma pos_add_params l : forall s, pos (add_params B l s) = pos s.
Proof.
  induction l as [|x l IH]; intro s; simpl; [reflexivity|].
  unfold add_params in *. simpl. rewrite IH. rewrite pos_scope_set, pos_validate_var_decl. reflexivity.
Qed.

Lemma func_ok fuel s : ct s <> T_EOF -> 2 * pos s + 1 <= fuel -> okS (pos s) (parse_func B fuel s).
Proof.
  intros Hc Hf. pose proof (ct_not_eof s Hc) as Hp. unfold parse_func.
  pose proof (pos_adv s). pose proof (pos_apnl (adv s)).
  match goal with |- context[parse_block B fuel ?x] => set (s3 := x) end.
  assert (H3 : pos s3 = pos (apnl (adv s))) by (unfold s3; rewrite pos_add_params, pos_push_scope; reflexivity).
  destruct (parse_block_ok fuel s3) as (b & s4 & Q1 & Q2); [lia|]. rewrite Q1.
  destruct (negb _); [finP|]. destruct (mem_str _ _); [finP|].
  do 2 eexists. split; [reflexivity|]. rewrite pos_pop_scope.
  match goal with |- pos {| cs := cs ?x; scs := _; fns := _; bodies := _; hds := _ |} < _ =>
    change (pos x < pos s); pose proof (pos_finish_end (if fi_ret
      (match (if match ct (adv s) with T_IDENT => true | _ => false end then lookup_fn (tlit (cur (cs (adv s)))) (fns (apnl (adv s))) else None) with
       | Some fi => fi | None => {| fi_nil := true; fi_ret := false; fi_arity := Some 0; fi_params := [] |} end) && negb (block_terms b)
      then serr K_missing_return s4 else s4)) as HF end.
  destruct (_ && _) in HF |- *; rewrite ?pos_serr in HF; lia.
Qed.

Lemma on_params_loop_ok : forall fuel acc s, pos s < fuel -> okP (pos s) (on_params_loop B fuel acc s).
Proof.
  induction fuel as [|f IH]; intros acc s Hf; [lia|].
  cbn [on_params_loop].
  destruct (is_at_eol (cs s)) eqn:EOL; [finP|].
  assert (Hp : 0 < pos s).
  { apply ct_not_eof. intro Q. unfold is_at_eol, ct in *. rewrite Q in EOL. discriminate EOL. }
  destruct (typed_decl_ok B (snd (passert T_IDENT s))) as (d & s1 & Q1 & Q2). rewrite Q1. rewrite pos_passert in Q2.
  destruct (IH (d :: acc) s1) as (a & s2 & R1 & R2); [lia|]. rewrite R1. do 2 eexists. split; [reflexivity|lia].
Qed.

Lemma pos_add_event_params ps : forall ex s, pos (add_event_params B ps ex s) = pos s.
Proof.
  induction ps as [|[[n p] t] ps IH]; intros ex s; simpl; [reflexivity|].
  destruct ex as [|e ex]; [reflexivity|]. rewrite IH, pos_scope_set.
  destruct t as [t'|]; [destruct (ty_eqb t' e); rewrite ?pos_serr|]; apply pos_validate_var_decl.
Qed.

Lemma event_handler_ok fuel s : ct s <> T_EOF -> 2 * pos s + 1 <= fuel -> okS (pos s) (parse_event_handler B fuel s).
Proof.
  intros Hc Hf. pose proof (ct_not_eof s Hc) as Hp. unfold parse_event_handler.
  pose proof (pos_adv s).
  destruct (passert T_IDENT (adv s)) as [ok s2] eqn:A. apply passert_eq in A.
  destruct ok; cbn [negb]; [|do 2 eexists; split; [reflexivity|]; pose proof (pos_apnl s2); lia].
  match goal with |- context[on_params_loop B _ [] (adv ?x)] => set (s3 := x) end.
  assert (H3 : pos s3 = pos s2).
  { unfold s3. destruct (mem_str _ _); [apply pos_serr|]. destruct (lookup_ev _ _); [reflexivity|apply pos_serr]. }
  pose proof (pos_adv s3).
  destruct (on_params_loop_ok (S (pos s3)) [] (adv s3)) as (params & s4 & Q1 & Q2); [lia|]. rewrite Q1.
  match goal with |- context[parse_block B fuel ?x] => set (s6 := x) end.
  assert (H6 : pos s6 = pos (apnl s4)).
  { unfold s6. destruct params; [reflexivity|]. destruct (lookup_ev _ _); [|reflexivity].
    rewrite pos_add_event_params. destruct (Nat.eqb _ _); reflexivity. }
  pose proof (pos_apnl s4).
  destruct (parse_block_ok fuel s6) as (b & s7 & R1 & R2); [lia|]. rewrite R1.
  do 2 eexists. split; [reflexivity|]. rewrite pos_pop_scope. pose proof (pos_finish_end s7). lia.
Qed.

(* parseProgram: the statement loop never panics, never runs out of fuel *)
Theorem program_loop_total : forall fuel acc terms s, 2 * pos s + 3 <= fuel ->
  exists prog s', program_loop B fuel acc terms s = Ok prog s'.
Proof.
  induction fuel as [|f IH]; intros acc terms s Hf; [lia|].
  cbn [program_loop].
  destruct (ct s) eqn:T; try (do 2 eexists; reflexivity).
  all: assert (Hc : ct s <> T_EOF) by (rewrite T; discriminate).
  all: try (destruct (stmt_total f s) as (r & s1 & Q1 & Q2); [lia|exact Hc|]; rewrite Q1;
            destruct r as [st|]; [destruct terms|]; apply IH; rewrite ?pos_serr_at; lia).
  - destruct (func_ok f s Hc) as (r & s1 & Q1 & Q2); [lia|]. rewrite Q1. apply IH. lia.
  - destruct (event_handler_ok f s Hc) as (r & s1 & Q1 & Q2); [lia|]. rewrite Q1. apply IH. lia.
Qed.

(* ---- the signature pre-pass ---- *)
Lemma sig_params_loop_ok : forall fuel acc s, pos s < fuel -> okP (pos s) (sig_params_loop B fuel acc s).
Proof.
  induction fuel as [|f IH]; intros acc s Hf; [lia|].
  cbn [sig_params_loop].
  destruct (is_at_eol (cs s) || _) eqn:EOL; [finP|].
  assert (Hp : 0 < pos s).
  { apply ct_not_eof. intro Q. unfold is_at_eol, ct in *. rewrite Q in EOL. discriminate EOL. }
  destruct (typed_decl_ok B (snd (passert T_IDENT s))) as (d & s1 & Q1 & Q2). rewrite Q1. rewrite pos_passert in Q2.
  destruct d as [[n p] t].
  destruct (IH ((n, p) :: acc) s1) as (a & s2 & R1 & R2); [lia|]. rewrite R1. do 2 eexists. split; [reflexivity|lia].
Qed.

Lemma func_def_signature_ok s : exists r s', parse_func_def_signature B s = Ok r s'.
Proof.
  unfold parse_func_def_signature.
  destruct (passert T_IDENT (adv s)) as [ok s2] eqn:A.
  destruct ok; cbn [negb]; [|do 2 eexists; reflexivity].
  cbv zeta.
  destruct (ct (adv s2));
    try (destruct (p_type_ok B (adv (adv s2))) as (t & s5' & Q0 & _); rewrite Q0);
    match goal with |- context[sig_params_loop B (S (pos ?x)) [] ?x] =>
      destruct (sig_params_loop_ok (S (pos x)) [] x) as (params & s5 & Q1 & _); [lia|]; rewrite Q1 end;
    do 2 eexists; reflexivity.
Qed.

Lemma signature_step_ok pv toks s : exists s', signature_step B pv toks s = Ok tt s'.
Proof.
  unfold signature_step.
  destruct (func_def_signature_ok (with_cs s (state_at pv toks (errs (cs s))))) as (r & s1 & ->).
  destruct r as [[name fi]|]; eexists; reflexivity.
Qed.

Lemma signatures_total : forall toks pv s, exists s', signatures B pv toks s = Ok tt s'.
Proof.
  induction toks as [|t r IH]; intros pv s; simpl; [eexists; reflexivity|].
  destruct (ttype t); try apply IH.
  destruct (signature_step_ok pv (t :: r) s) as (s1 & ->). apply IH.
Qed.

End ProgramTotal.

(* ================================================================ *)
(** * parse_total, errors_located                                    *)

Lemma pos_state_at pv toks es : here (state_at pv toks es) = List.length toks.
Proof. reflexivity. Qed.

Theorem parse_total B raw eof :
  (exists prog, parse B raw eof = Accept prog) \/
  (exists e es, parse B raw eof = Reject (e :: es)).
Proof.
  unfold parse.
  set (good := filter (fun tp => negb (is_illegal (fst tp))) raw).
  set (toks := map fst good). set (poss := map snd good).
  match goal with |- context[signatures B tEOF toks ?s0] => destruct (signatures_total B toks tEOF s0) as (s1 & ->) end.
  destruct (_ ++ _) as [|e es] eqn:ES; [|right; eauto].
  match goal with |- context[program_loop B (fuel_of toks) [] false ?s2] =>
    destruct (program_loop_total B (fuel_of toks) [] false s2) as (prog & s3 & ->) end.
  { unfold pos; simpl. rewrite pos_state_at. unfold fuel_of. lia. }
  destruct (map _ (rev (errs (cs (validate_scope s3))))) as [|e es]; [left|right]; eauto.
Qed.

(* every reported position is the position of a token of the input, or of EOF *)
Lemma locate_in poss eof n : In (locate poss eof n) (eof :: poss).
Proof.
  unfold locate. destruct (nth_in_or_default (List.length poss - n) poss eof) as [H|H]; [right; exact H|left; symmetry; exact H].
Qed.

Theorem errors_located B raw eof es :
  parse B raw eof = Reject es -> forall p, In p es -> In p (eof :: map snd raw) \/ p = (0, 0).
Proof.
  unfold parse.
  set (good := filter (fun tp => negb (is_illegal (fst tp))) raw).
  set (toks := map fst good). set (poss := map snd good).
  assert (Hsub : forall p, In p (eof :: poss) -> In p (eof :: map snd raw)).
  { intros p [H|H]; [left; exact H|right]. unfold poss, good in H. apply in_map_iff in H as (x & Hx & Hin).
    apply filter_In in Hin as [Hin _]. apply in_map_iff. eauto. }
  assert (Hill : forall p, In p (map snd (filter (fun tp => is_illegal (fst tp)) raw)) -> In p (eof :: map snd raw)).
  { intros p H. right. apply in_map_iff in H as (x & Hx & Hin). apply filter_In in Hin as [Hin _]. apply in_map_iff. eauto. }
  set (loc := fun e : perr * nat => match fst e with E_arity => (0, 0) | _ => locate poss eof (snd e) end).
  assert (Hloc : forall l p, In p (map loc l) -> In p (eof :: map snd raw) \/ p = (0, 0)).
  { intros l p H. apply in_map_iff in H as (x & <- & _). unfold loc.
    destruct (fst x); try (left; apply Hsub; apply locate_in). right; reflexivity. }
  destruct (signatures B tEOF toks _) as [u s1| |]; try discriminate.
  destruct (_ ++ _) as [|e0 es0] eqn:ES.
  - destruct (program_loop B (fuel_of toks) [] false _) as [prog s3| |]; try discriminate.
    destruct (map _ (rev (errs (cs (validate_scope s3))))) as [|e1 es1] eqn:EM; [discriminate|].
    intro H; inversion H; subst. intros p Hp. apply (Hloc (rev (errs (cs (validate_scope s3))))). fold loc in EM. rewrite EM. exact Hp.
  - intro H; inversion H; subst. intros p Hp. rewrite <- ES in Hp. apply in_app_or in Hp as [Hp|Hp]; [left; apply Hill; exact Hp|].
    eapply Hloc; exact Hp.
Qed.
