(* ParserProofs.v — totality of the parser model (C03): for every token list, every
   builtin table and every typing oracle, Parser.parse returns Accept or Reject with a
   non-empty error list; it never reaches a modelled Go panic site and never runs out
   of fuel.  The argument is the progress argument the Go code relies on implicitly:
   every loop iteration and every recursive descent consumes at least one token.

   here c = number of tokens left.  All lemmas bound [here] of the resulting state. *)
From Coq Require Import List NArith ZArith Bool Arith Lia String.
From EvyV Require Import Base Pratt Parser.
From EvyV.Gen Require Import Prec.
Import ListNotations.
Local Open Scope nat_scope.

(* ================================================================ *)
(** * Cursor primitives never move backwards                         *)

Lemma here_advance_wss c : here (advance_wss c) = here c - 1.
Proof. unfold here, advance_wss; simpl. destruct (rest c); simpl; lia. Qed.

Lemma here_advance_if_ws c : here (advance_if_ws c) <= here c.
Proof. unfold advance_if_ws. destruct (is_ws (cur c)); [rewrite here_advance_wss|]; lia. Qed.

Lemma here_advance c : here (advance c) <= here c - 1.
Proof.
  unfold advance. pose proof (here_advance_wss c) as H.
  destruct (is_wss (advance_wss c)); [lia|].
  pose proof (here_advance_if_ws (advance_wss c)) as H2.
  destruct (is_ws (peek (advance_if_ws (advance_wss c)))); unfold here in *; simpl; lia.
Qed.

Lemma here_push_wss b c : here (push_wss b c) = here c.
Proof. reflexivity. Qed.
Lemma here_add_err_at e n c : here (add_err_at e n c) = here c.
Proof. reflexivity. Qed.
Lemma here_add_err e c : here (add_err e c) = here c.
Proof. reflexivity. Qed.
Lemma here_mark_used n c : here (mark_used n c) = here c.
Proof. reflexivity. Qed.

Lemma here_pop_wss c : here (pop_wss c) <= here c.
Proof.
  unfold pop_wss.
  set (c1 := {| prev := prev c; rest := rest c; peek := peek c; wss := tl (wss c); errs := errs c; used := used c |}).
  assert (H : here c1 = here c) by reflexivity.
  destruct (negb (is_wss c1) && is_ws (cur c1)); [pose proof (here_advance c1)|]; lia.
Qed.

Lemma here_assert_token t c : here (snd (assert_token t c)) = here c.
Proof. unfold assert_token. destruct (toktype_beq (cur_t c) t); reflexivity. Qed.

Lemma assert_token_eq t c ok c' : assert_token t c = (ok, c') -> here c' = here c.
Proof. intro H. pose proof (here_assert_token t c) as H2. rewrite H in H2. exact H2. Qed.

Lemma here_unexpected_left c : here (unexpected_left c) = here c.
Proof. unfold unexpected_left. destruct (_ && _); reflexivity. Qed.

Lemma here_slice_close E c : here (slice_close E c) <= here c - 1.
Proof. unfold slice_close. destruct (e_fix_slice E); [rewrite here_advance_wss; lia|apply here_advance]. Qed.

(* a current token other than EOF means there is a token *)
Lemma cur_t_not_eof c : cur_t c <> T_EOF -> 0 < here c.
Proof. unfold cur_t, cur, here. destruct (rest c); simpl; [congruence|lia]. Qed.

(* collect the facts about every cursor operation occurring in a state term *)
Ltac hfact t :=
  lazymatch t with
  | advance ?x => hfact x; pose proof (here_advance x)
  | advance_wss ?x => hfact x; pose proof (here_advance_wss x)
  | advance_if_ws ?x => hfact x; pose proof (here_advance_if_ws x)
  | pop_wss ?x => hfact x; pose proof (here_pop_wss x)
  | push_wss ?b ?x => hfact x; pose proof (here_push_wss b x)
  | add_err_at ?e ?n ?x => hfact x; pose proof (here_add_err_at e n x)
  | add_err ?e ?x => hfact x; pose proof (here_add_err e x)
  | mark_used ?n ?x => hfact x; pose proof (here_mark_used n x)
  | unexpected_left ?x => hfact x; pose proof (here_unexpected_left x)
  | slice_close ?E ?x => hfact x; pose proof (here_slice_close E x)
  | snd (assert_token ?t ?x) => hfact x; pose proof (here_assert_token t x)
  | (if ?b then ?x else ?y) => hfact x; hfact y
  | _ => idtac
  end.
Ltac hs :=
  repeat match goal with
         | H : assert_token _ _ = (_, _) |- _ => apply assert_token_eq in H
         end;
  lazymatch goal with
  | |- here ?a <= _ => hfact a
  | |- here ?a < _ => hfact a
  | |- _ => idtac
  end;
  repeat match goal with |- context[if ?b then _ else _] => destruct b end;
  try lia.

(* ================================================================ *)
(** * The expression parser is total and makes progress              *)

Definition okr {A} (n : nat) (r : res A) : Prop :=
  exists a c', r = Some (a, c') /\ here c' <= n.
(* ... and a returned tree means that at least one token was consumed *)
Definition okx (n : nat) (r : res (option tree)) : Prop :=
  exists a c', r = Some (a, c') /\ here c' <= n /\ (a <> None -> here c' < n).
(* parseExpr at callee fuel is total on states with at most m tokens left *)
Definition PE (pe : nat -> pstate -> res (option tree)) (m : nat) : Prop :=
  forall p c, here c <= m -> okx (here c) (pe p c).

Ltac fin :=
  unfold ret; do 2 eexists; split; [reflexivity|];
  first [ split; [hs | let N := fresh "N" in intro N; first [ exfalso; apply N; reflexivity | hs ] ] | hs ].

Lemma okx_okr n r : okx n r -> okr n r.
Proof. intros (a & c & H1 & H2 & _). exists a, c. auto. Qed.

Lemma multiline_ws_total : forall fuel c, here c < fuel ->
  exists c', parse_multiline_ws fuel c = Some c' /\ here c' <= here c.
Proof.
  induction fuel as [|f IH]; intros c Hf; [lia|].
  cbn [parse_multiline_ws].
  destruct (cur_t c) eqn:T; try (eexists; split; [reflexivity|lia]);
    assert (0 < here c) by (apply cur_t_not_eof; congruence).
  - (* COMMENT *)
    destruct (IH (advance_wss (snd (assert_token T_NL (advance_wss c))))) as (c' & E1 & E2).
    { rewrite here_advance_wss, here_assert_token, here_advance_wss. lia. }
    exists c'. split; [exact E1|]. rewrite here_advance_wss, here_assert_token, here_advance_wss in E2. lia.
  - destruct (IH (advance_wss c)) as (c' & E1 & E2); [rewrite here_advance_wss; lia|].
    exists c'. split; [exact E1|]. rewrite here_advance_wss in E2. lia.
  - destruct (IH (advance_wss c)) as (c' & E1 & E2); [rewrite here_advance_wss; lia|].
    exists c'. split; [exact E1|]. rewrite here_advance_wss in E2. lia.
Qed.

Lemma parse_type_total : forall fuel c, here c < fuel -> okr (here c) (parse_type fuel c).
Proof.
  induction fuel as [|f IH]; intros c Hf; [lia|].
  cbn [parse_type].
  destruct (cur_t c) eqn:T; try fin.
  - (* [ *)
    destruct (cur_t (advance c)) eqn:T2; try fin.
    pose proof (here_advance c). pose proof (here_advance (advance c)).
    assert (0 < here c) by (apply cur_t_not_eof; congruence).
    assert (0 < here (advance c)) by (apply cur_t_not_eof; congruence).
    destruct (IH (advance (advance c))) as (a & c' & E1 & E2); [lia|].
    rewrite E1. destruct a; fin.
  - destruct (cur_t (advance c)) eqn:T2; try fin.
    pose proof (here_advance c). pose proof (here_advance (advance c)).
    assert (0 < here c) by (apply cur_t_not_eof; congruence).
    assert (0 < here (advance c)) by (apply cur_t_not_eof; congruence).
    destruct (IH (advance (advance c))) as (a & c' & E1 & E2); [lia|].
    rewrite E1. destruct a; fin.
Qed.

Section ExprTotal.
Variable E : env.
Variable pe : nat -> pstate -> res (option tree).
Variable m : nat.
Hypothesis HPE : PE pe m.

(* use the hypothesis on pe for the call  pe p c1  occurring in the goal *)
Ltac use_pe p c1 :=
  let a := fresh "a" in let c' := fresh "c'" in let Q1 := fresh "Q" in let Q2 := fresh "Q" in let Q3 := fresh "Q" in
  destruct (HPE p c1) as (a & c' & Q1 & Q2 & Q3); [hs | rewrite Q1].

Lemma expr_wss_total c : here c <= m -> okx (here c) (parse_expr_wss pe c).
Proof.
  intro H. unfold parse_expr_wss.
  destruct (HPE lowestPrec (push_wss true c)) as (a & c' & Q1 & Q2 & Q3); [exact H|].
  rewrite Q1. rewrite here_push_wss in *. pose proof (here_pop_wss c').
  unfold ret. exists a, (pop_wss c'). split; [reflexivity|]. split; [lia|]. intro N. specialize (Q3 N). lia.
Qed.

Lemma expr_list_total : forall fuel acc c, here c <= m -> here c < fuel ->
  okr (here c) (parse_expr_list pe fuel acc c).
Proof.
  induction fuel as [|f IH]; intros acc c Hm Hf; [lia|].
  cbn [parse_expr_list].
  assert (D : okr (here c) (if is_at_eol c then ret (Some (rev acc)) c else
            (do (n, st1) <- parse_expr_wss pe c;
             match n with None => ret None st1 | Some t => parse_expr_list pe f (t :: acc) (advance_if_ws st1) end))).
  { destruct (is_at_eol c); [fin|].
    destruct (expr_wss_total c Hm) as (a & c' & Q1 & Q2 & Q3). rewrite Q1.
    destruct a as [t|]; [|fin].
    assert (here c' < here c) by (apply Q3; discriminate).
    pose proof (here_advance_if_ws c').
    destruct (IH (t :: acc) (advance_if_ws c')) as (a2 & c2 & R1 & R2); [lia|lia|].
    exists a2, c2. split; [exact R1|lia]. }
  destruct (cur_t c); try exact D; fin.
Qed.

Lemma func_call_total fuel top nil c :
  here c - 1 <= m -> here c < fuel -> 0 < here c -> okx (here c) (parse_func_call E pe fuel top nil c).
Proof.
  intros Hm Hf Hp. unfold parse_func_call. pose proof (here_advance c).
  destruct (top || negb nil); [|fin].
  destruct (expr_list_total fuel [] (advance c)) as (a & c' & Q1 & Q2); [lia|lia|].
  rewrite Q1. fin.
Qed.

Lemma toplevel_total fuel c :
  here c <= m -> here c < fuel -> okx (here c) (parse_toplevel E pe fuel c).
Proof.
  intros Hm Hf. unfold parse_toplevel.
  destruct (cur_t c) eqn:T; try (apply HPE; exact Hm).
  destruct (func_of E (tlit (cur c))) as [[|]|]; try (apply HPE; exact Hm).
  apply func_call_total; [lia|exact Hf|apply cur_t_not_eof; congruence].
Qed.

Lemma lookup_var_total c : 0 < here c -> okx (here c) (lookup_var E c).
Proof.
  intro Hp. unfold lookup_var. pose proof (here_advance c).
  destruct (str_eqb _ _); [fin|]. destruct (mem_str _ _); [fin|]. destruct (func_of E _); fin.
Qed.

Lemma ident_expr_total fuel c :
  here c - 1 <= m -> here c < fuel -> 0 < here c -> okx (here c) (parse_ident_expr E pe fuel c).
Proof.
  intros Hm Hf Hp. unfold parse_ident_expr.
  destruct (func_of E _) as [[|]|]; try (apply lookup_var_total; exact Hp).
  apply func_call_total; assumption.
Qed.

Lemma array_elems_total : forall fuel acc c, here c <= m -> here c < fuel ->
  okr (here c) (parse_array_elems E pe fuel acc c).
Proof.
  induction fuel as [|f IH]; intros acc c Hm Hf; [lia|].
  cbn [parse_array_elems].
  assert (D : okr (here c)
    (do (n, st1) <- parse_expr_wss pe c;
     match n with
     | None => ret None st1
     | Some t =>
       if tyerr E TS_array_elem_none t st1 then ret None (add_err_at (E_type TS_array_elem_none) (here c) st1) else
       match parse_multiline_ws (S f) st1 with
       | None => None
       | Some st2 => parse_array_elems E pe f (t :: acc) st2
       end
     end)).
  { destruct (expr_wss_total c Hm) as (a & c' & Q1 & Q2 & Q3). rewrite Q1.
    destruct a as [t|]; [|fin].
    assert (here c' < here c) by (apply Q3; discriminate).
    destruct (tyerr E _ _ _); [fin|].
    destruct (multiline_ws_total (S f) c') as (c2 & W1 & W2); [lia|]. rewrite W1.
    destruct (IH (t :: acc) c2) as (a3 & c3 & R1 & R2); [lia|lia|].
    exists a3, c3. split; [exact R1|lia]. }
  destruct (cur_t c); try exact D; fin.
Qed.

Lemma array_literal_total fuel c :
  here c - 1 <= m -> here c < fuel -> 0 < here c -> okx (here c) (parse_array_literal E pe fuel c).
Proof.
  intros Hm Hf Hp. unfold parse_array_literal. pose proof (here_advance c).
  destruct (multiline_ws_total fuel (advance c)) as (c2 & W1 & W2); [lia|]. rewrite W1.
  destruct (array_elems_total fuel [] c2) as (a & c3 & Q1 & Q2); [lia|lia|]. rewrite Q1.
  destruct a as [l|]; [|fin].
  destruct (assert_token T_RBRACKET c3) as [ok c4] eqn:A. destruct ok; fin.
Qed.

Lemma map_pairs_total : forall fuel acc c, here c <= m -> here c < fuel ->
  okr (here c) (parse_map_pairs E pe fuel acc c).
Proof.
  induction fuel as [|f IH]; intros acc c Hm Hf; [lia|].
  cbn [parse_map_pairs].
  destruct (cur_t c) eqn:T; try fin;
    (assert (Hp : 0 < here c) by (apply cur_t_not_eof; congruence));
    set (st0 := match ttype (as_ident (cur c)) with T_IDENT => c | _ => add_err E_map_key c end);
    (assert (H0 : here st0 = here c) by (unfold st0; destruct (ttype (as_ident (cur c))); reflexivity));
    pose proof (here_advance st0);
    (destruct (has_key _ _); [fin|]);
    set (st3 := advance (snd (assert_token T_COLON (advance st0))));
    (assert (H3 : here st3 <= here c - 1)
       by (unfold st3; pose proof (here_advance (snd (assert_token T_COLON (advance st0)))); rewrite here_assert_token in *; lia));
    (destruct (expr_wss_total st3) as (a & c' & Q1 & Q2 & Q3); [lia|]); rewrite Q1;
    (destruct a as [t|]; [|fin]);
    (destruct (tyerr E _ _ _); [fin|]);
    (destruct (multiline_ws_total (S f) c') as (c2 & W1 & W2); [lia|]); rewrite W1;
    (destruct (IH ((tlit (as_ident (cur c)), t) :: acc) c2) as (a3 & c3 & R1 & R2); [lia|lia|]);
    exists a3, c3; (split; [exact R1|lia]).
Qed.

Lemma map_literal_total fuel c :
  here c - 1 <= m -> here c < fuel -> 0 < here c -> okx (here c) (parse_map_literal E pe fuel c).
Proof.
  intros Hm Hf Hp. unfold parse_map_literal. pose proof (here_advance (push_wss false c)). rewrite here_push_wss in *.
  destruct (multiline_ws_total fuel (advance (push_wss false c))) as (c2 & W1 & W2); [lia|]. rewrite W1.
  destruct (map_pairs_total fuel [] c2) as (a & c3 & Q1 & Q2); [lia|lia|]. rewrite Q1.
  destruct a as [l|]; [|fin].
  destruct (assert_token T_RCURLY c3) as [ok c4] eqn:A. destruct ok; fin.
Qed.

Lemma literal_total fuel c :
  here c - 1 <= m -> here c < fuel -> 0 < here c -> okx (here c) (parse_literal E pe fuel c).
Proof.
  intros Hm Hf Hp. unfold parse_literal. pose proof (here_advance c).
  destruct (ttype (cur c)); try fin.
  - destruct (num_lit_ok _); fin.
  - apply array_literal_total; assumption.
  - apply map_literal_total; assumption.
Qed.

Lemma unary_total c : here c - 1 <= m -> 0 < here c -> okx (here c) (parse_unary E pe c).
Proof.
  intros Hm Hp. unfold parse_unary. pose proof (here_advance c).
  set (st2 := if is_ws (prev (advance c)) then add_err_at E_ws_after_unary (here c) (advance c) else advance c).
  assert (H2 : here st2 = here (advance c)) by (unfold st2; destruct (is_ws _); reflexivity).
  destruct (HPE unary_operand_prec st2) as (a & c' & Q1 & Q2 & Q3); [lia|]. rewrite Q1.
  destruct a as [t|]; [|fin]. destruct (tyerr E _ _ _); fin.
Qed.

Lemma binary_total left c : here c - 1 <= m -> 0 < here c -> okx (here c) (parse_binary E pe left c).
Proof.
  intros Hm Hp. unfold parse_binary. pose proof (here_advance c).
  destruct (HPE (binary_operand_prec (precedences (cur_t c))) (advance c)) as (a & c' & Q1 & Q2 & Q3); [lia|]. rewrite Q1.
  destruct a as [t|]; [|fin]. destruct (tyerr E _ _ _); fin.
Qed.

Lemma grouped_total fuel c :
  here c - 1 <= m -> here c < fuel -> 0 < here c -> okx (here c) (parse_grouped E pe fuel c).
Proof.
  intros Hm Hf Hp. unfold parse_grouped. pose proof (here_advance (push_wss false c)). rewrite here_push_wss in *.
  destruct (toplevel_total fuel (advance (push_wss false c))) as (a & c' & Q1 & Q2 & Q3); [lia|lia|]. rewrite Q1.
  destruct (assert_token T_RPAREN c') as [ok c4] eqn:A. destruct ok, a; fin.
Qed.

Lemma slice_total fuel tok left start c :
  here c <= m -> here c < fuel -> okx (here c) (parse_slice E pe fuel tok left start c).
Proof.
  intros Hm Hf. unfold parse_slice.
  destruct (tyerr E TS_not_sliceable left c); [fin|].
  assert (D : okx (here c)
    (do (e, st1) <- parse_toplevel E pe fuel c;
     match e with
     | None => ret None st1
     | Some x =>
       let '(ok, st2) := assert_token T_RBRACKET st1 in
       if ok then
         let st3 := slice_close E st2 in
         let t := TSlice left start (Some x) in
         if tyerr E TS_slice_bounds t st3 then ret None (add_err_at (E_type TS_slice_bounds) tok st3) else ret (Some t) st3
       else ret None st2
     end)).
  { destruct (toplevel_total fuel c Hm Hf) as (a & c' & Q1 & Q2 & Q3). rewrite Q1.
    destruct a as [x|]; [|fin].
    assert (here c' < here c) by (apply Q3; discriminate).
    destruct (assert_token T_RBRACKET c') as [ok c4] eqn:A. destruct ok; [|fin].
    cbv zeta. destruct (tyerr E _ _ _); fin. }
  destruct (cur_t c) eqn:T; try exact D.
  assert (0 < here c) by (apply cur_t_not_eof; congruence).
  cbv zeta. destruct (tyerr E _ _ _); fin.
Qed.

Lemma index_or_slice_total fuel allow left c :
  here c - 1 <= m -> here c < fuel -> 0 < here c -> okx (here c) (parse_index_or_slice E pe fuel allow left c).
Proof.
  intros Hm Hf Hp. unfold parse_index_or_slice.
  pose proof (here_advance (push_wss false c)) as HA. rewrite here_push_wss in HA.
  destruct (is_ws (prev (push_wss false c))); [fin|].
  set (st1 := advance (push_wss false c)) in *.
  destruct (tyerr E TS_not_indexable left st1); [fin|].
  destruct (allow && _).
  - pose proof (here_advance st1).
    destruct (slice_total fuel (here c) left None (advance st1)) as (a & c' & Q1 & Q2 & Q3); [lia|lia|]. rewrite Q1.
    pose proof (here_pop_wss c'). unfold ret. exists a, (pop_wss c'). split; [reflexivity|]. split; [lia|]. intro N. lia.
  - destruct (toplevel_total fuel st1) as (a & c' & Q1 & Q2 & Q3); [lia|lia|]. rewrite Q1.
    destruct a as [i|]; [|fin].
    destruct (allow && _).
    + pose proof (here_advance c').
      destruct (slice_total fuel (here c) left (Some i) (advance c')) as (a2 & c2 & R1 & R2 & R3); [lia|lia|]. rewrite R1.
      pose proof (here_pop_wss c2). unfold ret. exists a2, (pop_wss c2). split; [reflexivity|]. split; [lia|]. intro N. lia.
    + destruct (assert_token T_RBRACKET c') as [ok c4] eqn:A. destruct ok; [|fin].
      destruct (tyerr E _ _ _); fin.
Qed.

Lemma dot_total left c : 0 < here c -> okx (here c) (parse_dot E left c).
Proof.
  intro Hp. unfold parse_dot. destruct (is_ws (prev c)); [fin|]. destruct (is_ws (look1 (rest c))); [fin|].
  pose proof (here_advance c). destruct (tyerr E _ _ _); [fin|].
  destruct (ttype (as_ident (cur (advance c)))); fin.
Qed.

Lemma type_assertion_total fuel left c :
  here c < fuel -> 0 < here c -> okx (here c) (parse_type_assertion E fuel left c).
Proof.
  intros Hf Hp. unfold parse_type_assertion. destruct (is_ws (prev c)); [fin|]. destruct (is_ws (look1 (rest c))); [fin|].
  set (st1 := advance (advance (push_wss false c))).
  assert (H1 : here st1 <= here c - 1).
  { unfold st1. pose proof (here_advance (advance (push_wss false c))). pose proof (here_advance (push_wss false c)).
    rewrite here_push_wss in *. lia. }
  destruct (parse_type_total fuel st1) as (t & c2 & Q1 & Q2); [lia|]. rewrite Q1.
  set (st3 := match t with None => add_err_at E_bad_type (here c) c2 | Some TyAny => add_err_at E_assert_any (here c) c2 | Some _ => c2 end).
  assert (H3 : here st3 = here c2) by (unfold st3; destruct t as [[]|]; reflexivity).
  destruct (assert_token T_RPAREN st3) as [ok c4] eqn:A. apply assert_token_eq in A.
  set (st5 := if ok then advance_wss c4 else c4).
  assert (H5 : here st5 <= here c4) by (unfold st5; destruct ok; [rewrite here_advance_wss|]; lia).
  set (st6 := if tyerr E TS_assert_not_any left st5 then add_err_at (E_type TS_assert_not_any) (here c) st5 else st5).
  assert (H6 : here st6 = here st5) by (unfold st6; destruct (tyerr E _ _ _); reflexivity).
  pose proof (here_pop_wss st6).
  destruct t; unfold ret; do 2 eexists; (split; [reflexivity|]); (split; [lia|intro; lia]).
Qed.

Lemma prefix_total fuel c :
  here c - 1 <= m -> here c < fuel -> okx (here c) (parse_prefix E pe fuel c).
Proof.
  intros Hm Hf. unfold parse_prefix.
  destruct (cur_t c) eqn:T; try fin;
    (assert (Hp : 0 < here c) by (apply cur_t_not_eof; congruence)).
  all: first [ apply ident_expr_total; assumption | apply literal_total; assumption
             | apply unary_total; assumption | apply grouped_total; assumption | idtac ].
Qed.

(* one turn of the loop body: total, and strictly consuming when it yields a tree *)
Lemma infix_total fuel left c r :
  here c - 1 <= m -> here c < fuel -> parse_infix E pe fuel left c = Some r -> okx (here c) r.
Proof.
  intros Hm Hf. unfold parse_infix.
  destruct (is_binary_op (cur_t c)) eqn:B.
  - intro H; inversion H; subst. apply binary_total; [exact Hm|].
    apply cur_t_not_eof. intro Q. rewrite Q in B. discriminate B.
  - destruct (cur_t c) eqn:T; try discriminate;
      (assert (Hp : 0 < here c) by (apply cur_t_not_eof; congruence)).
    + intro H; inversion H; subst. apply index_or_slice_total; assumption.
    + destruct (ttype (peek c)); intro H; inversion H; subst;
        first [ apply type_assertion_total; assumption | apply dot_total; assumption ].
Qed.

End ExprTotal.

Lemma here_zero_eof c : here c = 0 -> cur_t c = T_EOF.
Proof. unfold here, cur_t, cur. destruct (rest c); simpl; [reflexivity|discriminate]. Qed.

Lemma parse_expr_unfold E f p st :
  parse_expr E (S f) p st =
  match parse_prefix E (parse_expr E f) f st with
  | None => None
  | Some (l, st1) => match l with None => ret None st1 | Some lf => expr_loop E f p lf st1 end
  end.
Proof. reflexivity. Qed.

Lemma expr_loop_unfold E f p left st :
  expr_loop E (S f) p left st =
  if is_at_expr_end st then ret (Some left) st
  else if loop_continues p (precedences (cur_t st)) then
    match parse_infix E (parse_expr E f) f left st with
    | None => ret (Some left) st
    | Some r => match r with
                | None => None
                | Some (l, st1) => match l with None => ret None st1 | Some left' => expr_loop E f p left' st1 end
                end
    end
  else ret (Some left) st.
Proof. reflexivity. Qed.

Lemma expr_total E : forall fuel,
  (forall p c, 2 * here c + 2 <= fuel -> okx (here c) (parse_expr E fuel p c)) /\
  (forall p l c, 2 * here c + 1 <= fuel -> okr (here c) (expr_loop E fuel p l c)).
Proof.
  induction fuel as [|f [IHe IHl]]; [split; intros; lia|].
  split.
  - intros p c Hf. rewrite parse_expr_unfold.
    destruct (here c) as [|h] eqn:Hh.
    + (* no token left: the prefix switch reports and returns nil *)
      unfold parse_prefix. rewrite (here_zero_eof c Hh). unfold ret.
      exists None, (unexpected_left c). split; [reflexivity|]. rewrite here_unexpected_left. split; [lia|intro N; exfalso; apply N; reflexivity].
    + assert (HPE : PE (parse_expr E f) h).
      { intros q c1 H1. apply IHe. lia. }
      destruct (prefix_total E (parse_expr E f) h HPE f c) as (a & c1 & Q1 & Q2 & Q3); [lia|lia|]. rewrite Q1.
      destruct a as [lf|].
      * assert (here c1 < here c) by (apply Q3; discriminate).
        destruct (IHl p lf c1) as (a2 & c2 & R1 & R2); [lia|]. rewrite R1.
        exists a2, c2. split; [reflexivity|]. split; [lia|intro; lia].
      * rewrite Hh in *. unfold ret. exists None, c1. split; [reflexivity|]. split; [lia|intro N; exfalso; apply N; reflexivity].
  - intros p l c Hf. rewrite expr_loop_unfold.
    destruct (is_at_expr_end c) eqn:EE; [fin|].
    destruct (loop_continues p (precedences (cur_t c))); [|fin].
    destruct (here c) as [|h] eqn:Hh.
    { unfold is_at_expr_end, is_at_eol in EE. rewrite (here_zero_eof c Hh) in EE. simpl in EE.
      destruct (is_wss c && is_ws (cur c)); discriminate EE. }
    assert (HPE : PE (parse_expr E f) h).
    { intros q c1 H1. apply IHe. lia. }
    destruct (parse_infix E (parse_expr E f) f l c) as [r|] eqn:PI.
    + destruct (infix_total E (parse_expr E f) h HPE f l c r) as (a & c1 & Q1 & Q2 & Q3); [lia|lia|exact PI|]. rewrite Q1.
      destruct a as [lf|].
      * assert (here c1 < here c) by (apply Q3; discriminate).
        destruct (IHl p lf c1) as (a2 & c2 & R1 & R2); [lia|]. rewrite R1.
        exists a2, c2. split; [reflexivity|lia].
      * unfold ret. exists None, c1. split; [reflexivity|lia].
    + unfold ret. exists (Some l), c. split; [reflexivity|lia].
Qed.

(* the fuel Parser.v hands to every expression-level call suffices *)
Theorem expr_fuel_suffices E c : PE (parse_expr E (efuel c)) (here c).
Proof. intros p c1 H. apply (expr_total E (efuel c)). unfold efuel. lia. Qed.
