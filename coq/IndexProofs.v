(* IndexProofs.v — lemmas about Index.v (model of normalizeIndex & friends).

   Structure:
   A. host-level list accesses (go_nth, list_update, slice_loop, go_subslice)
   B. the float link: [go_index_int f] — the integer that survives Go's
      int(f) / float64(i) round trip — equals [float_int f] — the integer the
      float denotes (decoded from Prim2SF) when it fits in int64.
   C. normalize_index / normalize_slice_indices against the reference
      functions written with [float_int]; index / set-index / slice specs;
      heap-level freshness. *)
From Coq Require Import ZArith NArith List Bool Floats Lia ZifyBool ZifyNat ZifyN Zpower.
From EvyV Require Import Base Index.
Import ListNotations.
Open Scope Z_scope.

(* ================= A. lists ================= *)

Lemma zlen_nonneg {A} (s : list A) : 0 <= zlen s.
Proof. unfold zlen. lia. Qed.

Lemma go_nth_in {A} (s : list A) i :
  0 <= i < zlen s -> exists x, go_nth s i = Some x /\ nth_error s (Z.to_nat i) = Some x.
Proof.
  intros H. unfold go_nth. destruct (i <? 0) eqn:E; [lia|].
  destruct (nth_error s (Z.to_nat i)) eqn:N.
  - eauto.
  - apply nth_error_None in N. unfold zlen in H. lia.
Qed.

Lemma go_nth_some {A} (s : list A) i x :
  go_nth s i = Some x -> 0 <= i < zlen s /\ nth_error s (Z.to_nat i) = Some x.
Proof.
  unfold go_nth. destruct (i <? 0) eqn:E; [discriminate|]. intros H. split; [|exact H].
  assert (Z.to_nat i < List.length s)%nat by (apply nth_error_Some; congruence).
  unfold zlen. lia.
Qed.

Lemma list_update_spec {A} (s : list A) n v :
  (n < List.length s)%nat ->
  exists s', list_update s n v = Some s' /\ List.length s' = List.length s /\
             nth_error s' n = Some v /\ (forall m, m <> n -> nth_error s' m = nth_error s m).
Proof.
  revert n. induction s as [|x t IH]; intros n H; simpl in H; [lia|].
  destruct n as [|n].
  - exists (v :: t). simpl. repeat split; auto. intros [|m] Hm; [congruence|reflexivity].
  - destruct (IH n) as (t' & E & L & N & F); [lia|].
    exists (x :: t'). simpl. rewrite E. repeat split; auto.
    intros [|m] Hm; simpl; [reflexivity|]. apply F. congruence.
Qed.

Lemma list_update_none {A} (s : list A) n v :
  (List.length s <= n)%nat -> list_update s n v = None.
Proof.
  revert n. induction s as [|x t IH]; intros n H; simpl; [reflexivity|].
  destruct n as [|n]; simpl in H; [lia|]. rewrite IH; [reflexivity|lia].
Qed.

Lemma list_update_some {A} (s s' : list A) n v :
  list_update s n v = Some s' -> (n < List.length s)%nat.
Proof.
  intros H. destruct (Nat.lt_ge_cases n (List.length s)) as [L|L]; [exact L|].
  rewrite list_update_none in H by exact L. discriminate.
Qed.

(* extensionality through nth_error *)
Lemma nth_error_ext {A} (a b : list A) :
  (forall n, nth_error a n = nth_error b n) -> a = b.
Proof.
  revert b. induction a as [|x a IH]; intros [|y b] H.
  - reflexivity.
  - specialize (H O). discriminate.
  - specialize (H O). discriminate.
  - f_equal.
    + specialize (H O). simpl in H. congruence.
    + apply IH. intros n. exact (H (S n)).
Qed.

Lemma slice_loop_spec {A} (copy : A -> A) (s : list A) (n : nat) : forall i,
  0 <= i -> i + Z.of_nat n <= zlen s ->
  slice_loop copy s i n = Some (map copy (firstn n (skipn (Z.to_nat i) s))).
Proof.
  induction n as [|n IH]; intros i H0 H1; simpl; [reflexivity|].
  destruct (go_nth_in s i) as (x & E & N); [lia|]. rewrite E.
  rewrite IH by lia.
  replace (Z.to_nat (i + 1)) with (S (Z.to_nat i)) by lia.
  f_equal.
  (* skipn i s = x :: skipn (S i) s *)
  assert (K : forall (l : list A) k y, nth_error l k = Some y -> skipn k l = y :: skipn (S k) l).
  { induction l as [|z l IHl]; intros [|k] y Hy; simpl in *; try discriminate.
    - congruence.
    - rewrite (IHl k y Hy). reflexivity. }
  rewrite (K s _ x N). reflexivity.
Qed.

Lemma slice_loop_length {A} (copy : A -> A) (s : list A) n i r :
  slice_loop copy s i n = Some r -> List.length r = n.
Proof.
  revert i r. induction n as [|n IH]; intros i r; simpl.
  - intros H. inversion H. reflexivity.
  - destruct (go_nth s i); [|discriminate].
    destruct (slice_loop copy s (i + 1) n) eqn:E; [|discriminate].
    intros H. inversion H. simpl. f_equal. eapply IH. exact E.
Qed.

(* ================= B. the float link ================= *)

(* the integer that passes the test  index.V == float64(int(index.V)) *)
Definition go_index_int (f : float) : option Z :=
  let i := go_int f in
  if PrimFloat.eqb f (go_float64 i) then Some i else None.

(* the integer denoted by f (Prim2SF decoding, Base.float_to_Z) if it fits in int64 *)
Definition float_int (f : float) : option Z :=
  match float_to_Z f with
  | Some i => if in_int64 i then Some i else None
  | None => None
  end.

(* the link, for one float *)
Definition rt (f : float) : Prop := go_index_int f = float_int f.

(* --- digits --- *)
Lemma digits2_bounds p :
  2 ^ (Z.pos (SpecFloat.digits2_pos p) - 1) <= Z.pos p < 2 ^ Z.pos (SpecFloat.digits2_pos p).
Proof.
  induction p as [p IH|p IH|]; cbn [SpecFloat.digits2_pos].
  - rewrite Pos2Z.inj_succ. replace (Z.succ (Z.pos (SpecFloat.digits2_pos p)) - 1) with (Z.succ (Z.pos (SpecFloat.digits2_pos p) - 1)) by lia.
    rewrite !Z.pow_succ_r by lia. lia.
  - rewrite Pos2Z.inj_succ. replace (Z.succ (Z.pos (SpecFloat.digits2_pos p)) - 1) with (Z.succ (Z.pos (SpecFloat.digits2_pos p) - 1)) by lia.
    rewrite !Z.pow_succ_r by lia. lia.
  - simpl. lia.
Qed.

Lemma digits2_unique p d :
  2 ^ (d - 1) <= Z.pos p < 2 ^ d -> Z.pos (SpecFloat.digits2_pos p) = d.
Proof.
  intros [L U]. pose proof (digits2_bounds p) as [L' U'].
  set (D := Z.pos (SpecFloat.digits2_pos p)) in *.
  assert (0 < D) by (unfold D; lia).
  assert (0 <= d).
  { destruct (Z.lt_ge_cases d 0) as [N|N]; [|lia]. rewrite (Z.pow_neg_r 2 d N) in U. lia. }
  destruct (Z.lt_trichotomy D d) as [C|[C|C]]; [|exact C|].
  - (* D < d : p < 2^D <= 2^(d-1) <= p *)
    assert (2 ^ D <= 2 ^ (d - 1)) by (apply Z.pow_le_mono_r; lia). lia.
  - assert (2 ^ d <= 2 ^ (D - 1)) by (apply Z.pow_le_mono_r; lia). lia.
Qed.

Lemma digits2_shift k p :
  SpecFloat.digits2_pos (shift_pos k p) = (SpecFloat.digits2_pos p + k)%positive.
Proof.
  unfold shift_pos. induction k as [|k IH] using Pos.peano_ind.
  - simpl. lia.
  - rewrite Pos.iter_succ. cbn [SpecFloat.digits2_pos]. rewrite IH. lia.
Qed.

Lemma shift_pos_Z k p : Z.pos (shift_pos k p) = Z.pos p * 2 ^ Z.pos k.
Proof. rewrite shift_pos_correct. rewrite Zpower_pos_nat, Zpower_nat_Z, positive_nat_Z. lia. Qed.

(* --- rounding an already canonical mantissa is the identity --- *)
Lemma binary_round_aux_exact sx mz ez :
  SpecFloat.digits2_pos mz = 53%positive -> -1074 <= ez <= 971 ->
  SpecFloat.binary_round_aux 53 1024 sx (Z.pos mz) ez SpecFloat.loc_Exact = SpecFloat.S754_finite sx mz ez.
Proof.
  intros Hd He.
  assert (F : SpecFloat.fexp 53 1024 (53 + ez) - ez = 0) by (unfold SpecFloat.fexp, SpecFloat.emin; lia).
  unfold SpecFloat.binary_round_aux, SpecFloat.shr_fexp.
  cbn [SpecFloat.Zdigits2 SpecFloat.shr_record_of_loc]. rewrite Hd, F.
  cbn [SpecFloat.shr SpecFloat.shr_m SpecFloat.loc_of_shr_record SpecFloat.round_nearest_even SpecFloat.Zdigits2 SpecFloat.shr_record_of_loc].
  rewrite Hd, F. cbn [SpecFloat.shr SpecFloat.shr_m].
  replace (Zle_bool ez (1024 - 53)) with true; [reflexivity|].
  symmetry. apply Zle_imp_le_bool. lia.
Qed.

(* integers with at most 53 significant bits are represented exactly *)
Lemma binary_round_small sx p :
  Z.pos (SpecFloat.digits2_pos p) <= 53 ->
  exists m e, SpecFloat.binary_round 53 1024 sx p 0 = SpecFloat.S754_finite sx m e /\
              SpecFloat.digits2_pos m = 53%positive /\ -52 <= e <= 0 /\
              Z.pos m = Z.pos p * 2 ^ (- e) /\ e = Z.pos (SpecFloat.digits2_pos p) - 53.
Proof.
  intros Hd. set (d := SpecFloat.digits2_pos p) in *.
  unfold SpecFloat.binary_round, SpecFloat.shl_align. fold d.
  assert (F : SpecFloat.fexp 53 1024 (Z.pos d + 0) = Z.pos d - 53) by (unfold SpecFloat.fexp, SpecFloat.emin; lia).
  rewrite F.
  destruct (Z.pos d - 53 - 0) as [|q|q] eqn:E.
  - (* d = 53 *)
    exists p, 0. rewrite binary_round_aux_exact; [|unfold d in *; lia|lia].
    change (- 0) with 0. rewrite Z.pow_0_r.
    repeat split; try reflexivity; try (unfold d in *; lia).
  - lia.
  - exists (shift_pos q p), (Z.pos d - 53).
    rewrite binary_round_aux_exact.
    + split; [reflexivity|]. split; [rewrite digits2_shift; fold d; lia|].
      split; [lia|]. split; [|reflexivity].
      rewrite shift_pos_Z. f_equal. f_equal. lia.
    + rewrite digits2_shift. fold d. lia.
    + lia.
Qed.

(* --- SFeqb on finite numbers --- *)
Lemma SFeqb_finite s1 m1 e1 s2 m2 e2 :
  SpecFloat.SFeqb (SpecFloat.S754_finite s1 m1 e1) (SpecFloat.S754_finite s2 m2 e2) = true <->
  s1 = s2 /\ m1 = m2 /\ e1 = e2.
Proof.
  unfold SpecFloat.SFeqb, SpecFloat.SFcompare.
  destruct s1, s2; split; try (intros H; discriminate H); try (intros (H & _); discriminate H).
  - destruct (Z.compare_spec e1 e2) as [E|E|E]; try discriminate.
    destruct (Pos.compare_cont Eq m1 m2) eqn:C; simpl; try discriminate.
    intros _. apply Pos.compare_eq in C. auto.
  - intros (_ & -> & ->). rewrite Z.compare_refl, Pos.compare_cont_refl. reflexivity.
  - destruct (Z.compare_spec e1 e2) as [E|E|E]; try discriminate.
    destruct (Pos.compare_cont Eq m1 m2) eqn:C; simpl; try discriminate.
    intros _. apply Pos.compare_eq in C. auto.
  - intros (_ & -> & ->). rewrite Z.compare_refl, Pos.compare_cont_refl. reflexivity.
Qed.

(* ================= B (continued). the float link for every float ================= *)

Fixpoint niter {A} (n : nat) (g : A -> A) (x : A) : A :=
  match n with O => x | S n' => niter n' g (g x) end.

Lemma niter_add {A} (g : A -> A) a : forall b x, niter (a + b) g x = niter b g (niter a g x).
Proof. induction a as [|a IH]; intros b x; simpl; [reflexivity|apply IH]. Qed.

Lemma iter_pos_niter {A} (g : A -> A) p : forall x,
  SpecFloat.iter_pos g p x = niter (Pos.to_nat p) g x.
Proof.
  induction p as [p IH|p IH|]; intros x; cbn [SpecFloat.iter_pos].
  - rewrite !IH, Pos2Nat.inj_xI. simpl. rewrite Nat.add_0_r, niter_add. reflexivity.
  - rewrite !IH, Pos2Nat.inj_xO. simpl. rewrite Nat.add_0_r, niter_add. reflexivity.
  - reflexivity.
Qed.

Lemma niter_shr_shift n : forall m,
  niter n SpecFloat.shr_1 {| SpecFloat.shr_m := Z.pos (shift_nat n m); SpecFloat.shr_r := false; SpecFloat.shr_s := false |}
  = {| SpecFloat.shr_m := Z.pos m; SpecFloat.shr_r := false; SpecFloat.shr_s := false |}.
Proof.
  induction n as [|n IH]; intros m; [reflexivity|].
  cbn [niter shift_nat nat_rect SpecFloat.shr_1 orb]. apply IH.
Qed.

Lemma shr_fexp_shift k m :
  SpecFloat.digits2_pos m = 53%positive ->
  SpecFloat.shr_fexp 53 1024 (Z.pos (shift_pos k m)) 0 SpecFloat.loc_Exact =
  ({| SpecFloat.shr_m := Z.pos m; SpecFloat.shr_r := false; SpecFloat.shr_s := false |}, Z.pos k).
Proof.
  intros Hd. unfold SpecFloat.shr_fexp. cbn [SpecFloat.Zdigits2 SpecFloat.shr_record_of_loc].
  rewrite digits2_shift, Hd.
  assert (F : SpecFloat.fexp 53 1024 (Z.pos (53 + k) + 0) - 0 = Z.pos k) by (unfold SpecFloat.fexp, SpecFloat.emin; lia).
  rewrite F. cbn [SpecFloat.shr]. rewrite iter_pos_niter, shift_pos_nat, niter_shr_shift. reflexivity.
Qed.

(* an integer m * 2^k with a full 53-bit m is represented exactly *)
Lemma binary_round_shift sx k m :
  SpecFloat.digits2_pos m = 53%positive -> Z.pos k <= 971 ->
  SpecFloat.binary_round 53 1024 sx (shift_pos k m) 0 = SpecFloat.S754_finite sx m (Z.pos k).
Proof.
  intros Hd Hk. unfold SpecFloat.binary_round, SpecFloat.shl_align.
  rewrite digits2_shift, Hd.
  assert (F : SpecFloat.fexp 53 1024 (Z.pos (53 + k) + 0) - 0 = Z.pos k) by (unfold SpecFloat.fexp, SpecFloat.emin; lia).
  rewrite F.
  rewrite <- (binary_round_aux_exact sx m (Z.pos k) Hd) by lia.
  unfold SpecFloat.binary_round_aux. rewrite (shr_fexp_shift k m Hd).
  assert (G : SpecFloat.shr_fexp 53 1024 (Z.pos m) (Z.pos k) SpecFloat.loc_Exact =
              ({| SpecFloat.shr_m := Z.pos m; SpecFloat.shr_r := false; SpecFloat.shr_s := false |}, Z.pos k)).
  { unfold SpecFloat.shr_fexp. cbn [SpecFloat.Zdigits2 SpecFloat.shr_record_of_loc]. rewrite Hd.
    assert (F' : SpecFloat.fexp 53 1024 (53 + Z.pos k) - Z.pos k = 0) by (unfold SpecFloat.fexp, SpecFloat.emin; lia).
    rewrite F'. reflexivity. }
  rewrite G. reflexivity.
Qed.

Lemma valid_finite s m e :
  SpecFloat.valid_binary 53 1024 (SpecFloat.S754_finite s m e) = true ->
  SpecFloat.fexp 53 1024 (Z.pos (SpecFloat.digits2_pos m) + e) = e /\ e <= 971.
Proof.
  cbn [SpecFloat.valid_binary]. unfold SpecFloat.bounded, SpecFloat.canonical_mantissa.
  intros H. apply andb_true_iff in H as [H1 H2].
  apply Zeq_bool_eq in H1. apply Zle_bool_imp_le in H2. lia.
Qed.

Lemma finite_valid s m e :
  SpecFloat.digits2_pos m = 53%positive -> -1074 <= e <= 971 ->
  SpecFloat.valid_binary 53 1024 (SpecFloat.S754_finite s m e) = true.
Proof.
  intros Hd He. cbn [SpecFloat.valid_binary]. unfold SpecFloat.bounded, SpecFloat.canonical_mantissa.
  rewrite Hd. apply andb_true_iff. split.
  - apply Zeq_is_eq_bool. unfold SpecFloat.fexp, SpecFloat.emin. lia.
  - apply Zle_imp_le_bool. lia.
Qed.

Definition signed (s : bool) (p : positive) : Z := if s then Z.neg p else Z.pos p.

Lemma float_of_Z_signed s p :
  float_of_Z (signed s p) = SF2Prim (SpecFloat.binary_round 53 1024 s p 0).
Proof. destruct s; reflexivity. Qed.

Lemma Prim2SF_float_of_Z_small s p :
  Z.pos (SpecFloat.digits2_pos p) <= 53 ->
  exists m e, Prim2SF (float_of_Z (signed s p)) = SpecFloat.S754_finite s m e /\
              Z.pos m = Z.pos p * 2 ^ (- e) /\ e = Z.pos (SpecFloat.digits2_pos p) - 53.
Proof.
  intros Hd. destruct (binary_round_small s p Hd) as (m & e & R & Dm & He & Hm & Ee).
  exists m, e. rewrite float_of_Z_signed, R.
  rewrite Prim2SF_SF2Prim by (apply finite_valid; [exact Dm|lia]). auto.
Qed.

Lemma Prim2SF_float_of_Z_shift s k m :
  SpecFloat.digits2_pos m = 53%positive -> Z.pos k <= 971 ->
  Prim2SF (float_of_Z (signed s (shift_pos k m))) = SpecFloat.S754_finite s m (Z.pos k).
Proof.
  intros Hd Hk. rewrite float_of_Z_signed, binary_round_shift by assumption.
  apply Prim2SF_SF2Prim. apply finite_valid; [exact Hd|lia].
Qed.

Lemma Prim2SF_min_int64 :
  Prim2SF (float_of_Z min_int64) = SpecFloat.S754_finite true 4503599627370496 11.
Proof. vm_compute. reflexivity. Qed.

Lemma SFeqb_refl_finite s m e :
  SpecFloat.SFeqb (SpecFloat.S754_finite s m e) (SpecFloat.S754_finite s m e) = true.
Proof. apply SFeqb_finite. auto. Qed.

Lemma signed_cases s p : signed s p = (if s then - Z.pos p else Z.pos p).
Proof. destruct s; reflexivity. Qed.

(* the round trip  f == float64(int(f))  accepts exactly the integers of int64 *)
Lemma rt_all f : rt f.
Proof.
  unfold rt, go_index_int, float_int, go_int, float_to_Z, go_float64.
  rewrite eqb_spec.
  pose proof (Prim2SF_valid f) as V. unfold valid_binary, FloatOps.prec, FloatOps.emax in V.
  destruct (Prim2SF f) as [s|s| |s m e] eqn:P.
  - (* zero *) destruct s; vm_compute; reflexivity.
  - (* infinity *) destruct s; vm_compute; reflexivity.
  - (* nan *) vm_compute; reflexivity.
  - (* finite *)
    apply (valid_finite s m e) in V as [C E971].
    pose proof (digits2_bounds m) as [BL BU].
    set (D := Z.pos (SpecFloat.digits2_pos m)) in *.
    assert (HD : D = 53 \/ (e = -1074 /\ D <= 53)).
    { unfold SpecFloat.fexp, SpecFloat.emin in C. lia. }
    cbn [sf_trunc].
    destruct (0 <=? e) eqn:Ee.
    + (* e >= 0 : an integer, |f| >= 2^52 *)
      assert (D53 : D = 53) by lia. rewrite D53 in *.
      assert (Dm : SpecFloat.digits2_pos m = 53%positive) by (unfold D in D53; lia).
      set (T := Z.pos m * 2 ^ e).
      assert (P2e : 1 <= 2 ^ e) by (apply (Z.pow_le_mono_r 2 0 e); lia).
      assert (TL : 2 ^ 52 <= T) by (unfold T; nia).
      destruct (in_int64 (if s then - T else T)) eqn:I64.
      * (* fits: e <= 11 and the conversion back is exact *)
        assert (Hrep : Prim2SF (float_of_Z (if s then - T else T)) = SpecFloat.S754_finite s m e).
        { destruct e as [|k|k]; [| |lia].
          - (* e = 0 *)
            destruct (Prim2SF_float_of_Z_small s m) as (m' & e' & R & Hm & He); [fold D; lia|].
            fold D in He. rewrite D53 in He. replace e' with 0 in * by lia.
            change (- 0) with 0 in Hm. rewrite Z.pow_0_r, Z.mul_1_r in Hm.
            assert (m' = m) by lia. subst m'.
            unfold T. rewrite Z.pow_0_r, Z.mul_1_r. rewrite <- signed_cases. exact R.
          - unfold T. rewrite <- shift_pos_Z, <- signed_cases.
            apply Prim2SF_float_of_Z_shift; [exact Dm|lia]. }
        rewrite Hrep, SFeqb_refl_finite. reflexivity.
      * (* does not fit: int(f) is the indefinite value, and f is not -2^63 *)
        rewrite Prim2SF_min_int64.
        destruct (SpecFloat.SFeqb (SpecFloat.S754_finite s m e) (SpecFloat.S754_finite true 4503599627370496 11)) eqn:Q; [|reflexivity].
        apply (SFeqb_finite s m e true 4503599627370496 11) in Q as (-> & -> & ->). vm_compute in I64. discriminate.
    + (* e < 0 *)
      assert (Eneg : e < 0) by lia.
      set (d := 2 ^ (- e)).
      assert (Dpos : 0 < d) by (apply Z.pow_pos_nonneg; lia).
      set (q := Z.pos m / d). set (r := Z.pos m mod d).
      assert (Hdiv : Z.pos m = d * q + r /\ 0 <= r < d).
      { split; [apply Z.div_mod; lia|apply Z.mod_pos_bound; lia]. }
      destruct Hdiv as [Hdiv Hr].
      assert (Hq0 : 0 <= q) by (apply Z.div_pos; lia).
      assert (P53 : 2 ^ D <= 2 ^ 53) by (apply Z.pow_le_mono_r; lia).
      assert (Hqm : q <= Z.pos m) by nia.
      assert (I64 : in_int64 (if s then - q else q) = true).
      { unfold in_int64, min_int64. destruct s; lia. }
      rewrite I64.
      destruct (Z.eq_dec q 0) as [Q0|Q0].
      * (* |f| < 1 : truncates to 0, f is not an integer *)
        rewrite Q0. replace (if s then - 0 else 0) with 0 by (destruct s; reflexivity).
        assert (r <> 0) by lia.
        replace (r =? 0) with false by lia.
        replace (Prim2SF (float_of_Z 0)) with (SpecFloat.S754_zero false) by (vm_compute; reflexivity).
        destruct s; reflexivity.
      * destruct q as [|p|p] eqn:Hq; [lia| |lia].
        assert (Dp : Z.pos (SpecFloat.digits2_pos p) <= 53).
        { pose proof (digits2_bounds p) as [L _].
          assert (2 ^ (Z.pos (SpecFloat.digits2_pos p) - 1) < 2 ^ 53) by lia.
          apply Z.pow_lt_mono_r_iff in H; lia. }
        destruct (Prim2SF_float_of_Z_small s p Dp) as (m' & e' & R & Hm & He).
        rewrite <- signed_cases, R.
        destruct (r =? 0) eqn:R0.
        -- (* an integer below 2^53 *)
           assert (r = 0) by lia.
           assert (D53 : D = 53).
           { destruct HD as [H53|[Em Dle]]; [exact H53|].
             assert (2 ^ 53 <= d) by (unfold d; apply Z.pow_le_mono_r; lia). nia. }
           rewrite D53 in *.
           (* digits p = 53 + e *)
           assert (Epe : 0 <= 53 + e).
           { destruct (Z.lt_ge_cases (53 + e) 0) as [N|N]; [|lia].
             assert (2 ^ 53 <= d) by (unfold d; apply Z.pow_le_mono_r; lia). nia. }
           assert (S1 : 2 ^ 53 = 2 ^ (53 + e) * d).
           { unfold d. rewrite <- Z.pow_add_r by lia. f_equal. lia. }
           assert (Dpe : Z.pos (SpecFloat.digits2_pos p) = 53 + e).
           { apply digits2_unique. split.
             - destruct (Z.eq_dec (53 + e) 0) as [Z0|NZ].
               + replace (53 + e - 1) with (-1) by lia. rewrite Z.pow_neg_r by lia. lia.
               + assert (S2 : 2 ^ 52 = 2 ^ (53 + e - 1) * d).
                 { unfold d. rewrite <- Z.pow_add_r by lia. f_equal. lia. }
                 change (53 - 1) with 52 in BL. nia.
             - nia. }
           assert (He' : e' = e) by lia. clear He. subst e'.
           fold d in Hm. assert (m' = m) by nia. subst m'.
           rewrite SFeqb_refl_finite. rewrite signed_cases. cbn iota beta. rewrite I64. reflexivity.
        -- (* not an integer: the exact float of the truncation differs from f *)
           assert (r <> 0) by lia.
           destruct (SpecFloat.SFeqb (SpecFloat.S754_finite s m e) (SpecFloat.S754_finite s m' e')) eqn:Q; [|reflexivity].
           apply (SFeqb_finite s m e s m' e') in Q as (_ & <- & <-).
           fold d in Hm. exfalso. nia.
Qed.

(* ================= C. normalisation against the reference ================= *)

(* reference written from the statement: the index must denote an integer
   (that Go's int can hold), lie in [-n, limit], negative counts from the end *)
Definition idx_ref (n limit : Z) (f : float) : res Z :=
  match float_int f with
  | None => Panic EIndexValue
  | Some i => if (- n <=? i) && (i <=? limit) then Ok (if i <? 0 then i + n else i) else Panic EBounds
  end.

Lemma float_int_some f i :
  float_int f = Some i <-> float_to_Z f = Some i /\ - 2 ^ 63 <= i < 2 ^ 63.
Proof.
  unfold float_int, in_int64, min_int64. destruct (float_to_Z f) as [j|].
  - destruct ((- 2 ^ 63 <=? j) && (j <? 2 ^ 63)) eqn:E; split.
    + intros H. inversion H; subst. split; [reflexivity|lia].
    + intros [H _]. exact H.
    + discriminate.
    + intros [H R]. inversion H; subst. lia.
  - split; [discriminate|intros [H _]; discriminate].
Qed.

Lemma float_int_none f :
  float_int f = None <->
  float_to_Z f = None \/ exists i, float_to_Z f = Some i /\ ~ (- 2 ^ 63 <= i < 2 ^ 63).
Proof.
  unfold float_int, in_int64, min_int64. destruct (float_to_Z f) as [j|].
  - destruct ((- 2 ^ 63 <=? j) && (j <? 2 ^ 63)) eqn:E; split.
    + discriminate.
    + intros [H|(i & H & R)]; [discriminate|]. inversion H; subst. lia.
    + intros _. right. exists j. split; [reflexivity|lia].
    + reflexivity.
  - split; [intros _; left; reflexivity|reflexivity].
Qed.

Lemma normalize_index_go f n slice :
  normalize_index f n slice =
  match go_index_int f with
  | None => Panic EIndexValue
  | Some i => if (- n <=? i) && (i <=? (if slice then n else n - 1))
              then Ok (if i <? 0 then i + n else i) else Panic EBounds
  end.
Proof.
  unfold normalize_index, go_index_int.
  destruct (PrimFloat.eqb f (go_float64 (go_int f))); cbn [negb]; [|reflexivity].
  set (i := go_int f).
  destruct slice;
    repeat match goal with |- context [if ?b then _ else _] => destruct b eqn:? end;
    try reflexivity; try lia; f_equal; lia.
Qed.

Lemma normalize_index_ref f n slice :
  rt f -> normalize_index f n slice = idx_ref n (if slice then n else n - 1) f.
Proof. intros H. rewrite normalize_index_go, H. reflexivity. Qed.

Lemma idx_ref_ok n limit f v :
  idx_ref n limit f = Ok v <->
  exists i, float_int f = Some i /\ - n <= i <= limit /\ v = (if i <? 0 then i + n else i).
Proof.
  unfold idx_ref. destruct (float_int f) as [j|].
  - destruct ((- n <=? j) && (j <=? limit)) eqn:E; split.
    + intros H. inversion H. exists j. repeat split; lia.
    + intros (i & H & R & ->). inversion H; subst. reflexivity.
    + discriminate.
    + intros (i & H & R & _). inversion H; subst. lia.
  - split; [discriminate|intros (i & H & _); discriminate].
Qed.

Lemma idx_ref_panic n limit f e :
  idx_ref n limit f = Panic e <->
  (e = EIndexValue /\ float_int f = None) \/
  (e = EBounds /\ exists i, float_int f = Some i /\ ~ (- n <= i <= limit)).
Proof.
  unfold idx_ref. destruct (float_int f) as [j|].
  - destruct ((- n <=? j) && (j <=? limit)) eqn:E; split.
    + discriminate.
    + intros [[_ H]|(_ & i & H & R)]; [discriminate|]. inversion H; subst. lia.
    + intros H. inversion H. right. split; [reflexivity|]. exists j. split; [reflexivity|lia].
    + intros [[_ H]|(-> & _)]; [discriminate|reflexivity].
  - split.
    + intros H. inversion H. left. auto.
    + intros [[-> _]|(_ & i & H & _)]; [reflexivity|discriminate].
Qed.

Lemma idx_ref_no_crash n limit f : idx_ref n limit f <> HostCrash.
Proof. unfold idx_ref. destruct (float_int f); [destruct (_ && _)|]; discriminate. Qed.

Lemma mod_norm n i : - n <= i < n -> i mod n = (if i <? 0 then i + n else i).
Proof.
  intros H. destruct (i <? 0) eqn:E.
  - rewrite <- (Z.mod_add i 1 n) by lia. rewrite Z.mul_1_l. apply Z.mod_small. lia.
  - apply Z.mod_small. lia.
Qed.

(* ---------- index ---------- *)
Section IndexSpec.
  Context {A : Type}.
  Variable s : list A.
  Variable f : float.
  Hypothesis Hlen : zlen s < 2 ^ 63.     (* a Go slice length is at most maxInt *)
  Hypothesis Hrt : rt f.
  Let n := zlen s.

  Lemma arr_index_unfold :
    arr_index s f = match idx_ref n (n - 1) f with
                    | Ok i => match nth_error s (Z.to_nat i) with Some x => Ok x | None => HostCrash end
                    | Panic e => Panic e
                    | HostCrash => HostCrash
                    end.
  Proof.
    unfold arr_index. fold n. rewrite (normalize_index_ref f n false Hrt).
    destruct (idx_ref n (n - 1) f) as [i|e|] eqn:E; try reflexivity.
    apply idx_ref_ok in E as (j & _ & R & ->).
    destruct (go_nth_in s (if j <? 0 then j + n else j)) as (x & G & N).
    { fold n. destruct (j <? 0) eqn:?; lia. }
    rewrite G, N. reflexivity.
  Qed.

  Lemma index_spec x :
    arr_index s f = Ok x <->
    exists i, float_to_Z f = Some i /\ - n <= i < n /\ nth_error s (Z.to_nat (i mod n)) = Some x.
  Proof.
    rewrite arr_index_unfold. split.
    - destruct (idx_ref n (n - 1) f) as [v|e|] eqn:E; try discriminate.
      apply idx_ref_ok in E as (i & Hi & R & ->).
      apply float_int_some in Hi as [Hi _].
      destruct (nth_error s (Z.to_nat (if i <? 0 then i + n else i))) eqn:N; [|discriminate].
      intros H. inversion H; subst. exists i. rewrite mod_norm by lia. repeat split; auto; lia.
    - intros (i & Hi & R & N).
      assert (FI : float_int f = Some i).
      { apply float_int_some. split; [exact Hi|]. pose proof (zlen_nonneg s). fold n in H. unfold n in *. lia. }
      assert (E : idx_ref n (n - 1) f = Ok (i mod n)).
      { apply idx_ref_ok. exists i. rewrite mod_norm by lia. repeat split; auto; lia. }
      rewrite E, N. reflexivity.
  Qed.

  Lemma index_panic e :
    arr_index s f = Panic e <->
    (e = EIndexValue /\ float_int f = None) \/
    (e = EBounds /\ exists i, float_int f = Some i /\ ~ (- n <= i < n)).
  Proof.
    rewrite arr_index_unfold. destruct (idx_ref n (n - 1) f) as [v|e'|] eqn:E.
    - apply idx_ref_ok in E as (i & Hi & R & ->).
      destruct (nth_error _ _); split; try discriminate;
        intros [[_ H]|(_ & j & H & R')]; rewrite Hi in H; try discriminate; inversion H; subst; lia.
    - split.
      + intros H. inversion H; subst. apply idx_ref_panic in E.
        destruct E as [E|(-> & i & Hi & R)]; [left; exact E|]. right. split; [reflexivity|]. exists i. split; [exact Hi|lia].
      + intros H. f_equal. symmetry.
        assert (E' : idx_ref n (n - 1) f = Panic e).
        { apply idx_ref_panic. destruct H as [H|(-> & i & Hi & R)]; [left; exact H|]. right. split; [reflexivity|]. exists i. split; [exact Hi|lia]. }
        congruence.
    - exfalso. exact (idx_ref_no_crash _ _ _ E).
  Qed.

  Lemma index_no_crash : arr_index s f <> HostCrash.
  Proof.
    rewrite arr_index_unfold. destruct (idx_ref n (n - 1) f) as [v|e'|] eqn:E; try discriminate.
    - apply idx_ref_ok in E as (i & Hi & R & ->).
      destruct (nth_error s _) eqn:N; [discriminate|]. apply nth_error_None in N.
      unfold n, zlen in *. destruct (i <? 0) eqn:?; lia.
    - exfalso. exact (idx_ref_no_crash _ _ _ E).
  Qed.

  (* ---------- set index ---------- *)
  Variable v : A.

  Lemma arr_set_index_unfold :
    arr_set_index s f v = match idx_ref n (n - 1) f with
                          | Ok i => match list_update s (Z.to_nat i) v with Some s' => Ok s' | None => HostCrash end
                          | Panic e => Panic e
                          | HostCrash => HostCrash
                          end.
  Proof.
    unfold arr_set_index. fold n. rewrite (normalize_index_ref f n false Hrt).
    destruct (idx_ref n (n - 1) f) as [i|e|] eqn:E; try reflexivity.
    apply idx_ref_ok in E as (j & _ & R & ->).
    unfold go_set_nth. destruct ((if j <? 0 then j + n else j) <? 0) eqn:C; [|reflexivity].
    destruct (j <? 0) eqn:?; lia.
  Qed.

  Lemma set_index_spec s' :
    arr_set_index s f v = Ok s' <->
    exists i, float_to_Z f = Some i /\ - n <= i < n /\
              List.length s' = List.length s /\
              nth_error s' (Z.to_nat (i mod n)) = Some v /\
              (forall k, k <> Z.to_nat (i mod n) -> nth_error s' k = nth_error s k).
  Proof.
    rewrite arr_set_index_unfold. split.
    - destruct (idx_ref n (n - 1) f) as [w|e|] eqn:E; try discriminate.
      apply idx_ref_ok in E as (i & Hi & R & ->).
      apply float_int_some in Hi as [Hi _].
      destruct (list_update_spec s (Z.to_nat (if i <? 0 then i + n else i)) v) as (t & U & L & N & F).
      { unfold n, zlen in *. destruct (i <? 0) eqn:?; lia. }
      rewrite U. intros H. inversion H; subst. exists i. rewrite mod_norm by lia.
      repeat split; auto; lia.
    - intros (i & Hi & R & L & N & F).
      assert (FI : float_int f = Some i).
      { apply float_int_some. split; [exact Hi|]. pose proof (zlen_nonneg s). unfold n in *. lia. }
      assert (E : idx_ref n (n - 1) f = Ok (i mod n)).
      { apply idx_ref_ok. exists i. rewrite mod_norm by lia. repeat split; auto; lia. }
      rewrite E.
      destruct (list_update_spec s (Z.to_nat (i mod n)) v) as (t & U & L' & N' & F').
      { pose proof (Z.mod_pos_bound i n). unfold n, zlen in *. lia. }
      rewrite U. f_equal. apply nth_error_ext. intros k.
      destruct (Nat.eq_dec k (Z.to_nat (i mod n))) as [->|D].
      + congruence.
      + rewrite F' by exact D. rewrite F by exact D. reflexivity.
  Qed.

  (* same domain and same error kinds as a read: nothing is written on an error *)
  Lemma set_index_panic e : arr_set_index s f v = Panic e <-> arr_index s f = Panic e.
  Proof.
    rewrite arr_set_index_unfold, arr_index_unfold.
    destruct (idx_ref n (n - 1) f) as [w|e'|] eqn:E;
      [|split; intros H; inversion H; reflexivity|split; discriminate].
    apply idx_ref_ok in E as (i & Hi & R & ->).
    destruct (list_update_spec s (Z.to_nat (if i <? 0 then i + n else i)) v) as (t & U & _).
    { unfold n, zlen in *. destruct (i <? 0) eqn:?; lia. }
    rewrite U.
    destruct (nth_error s (Z.to_nat (if i <? 0 then i + n else i))) eqn:N.
    - split; discriminate.
    - apply nth_error_None in N. unfold n, zlen in *. destruct (i <? 0) eqn:?; lia.
  Qed.

  Lemma set_index_ok_iff : (exists s', arr_set_index s f v = Ok s') <-> (exists x, arr_index s f = Ok x).
  Proof.
    rewrite arr_set_index_unfold, arr_index_unfold.
    destruct (idx_ref n (n - 1) f) as [w|e'|] eqn:E.
    - apply idx_ref_ok in E as (i & Hi & R & ->).
      destruct (list_update_spec s (Z.to_nat (if i <? 0 then i + n else i)) v) as (t & U & _).
      { unfold n, zlen in *. destruct (i <? 0) eqn:?; lia. }
      rewrite U.
      destruct (nth_error s (Z.to_nat (if i <? 0 then i + n else i))) eqn:N.
      + split; eauto.
      + apply nth_error_None in N. unfold n, zlen in *. destruct (i <? 0) eqn:?; lia.
    - split; intros [? H]; discriminate.
    - split; intros [? H]; discriminate.
  Qed.

  Lemma set_index_no_crash : arr_set_index s f v <> HostCrash.
  Proof.
    rewrite arr_set_index_unfold. destruct (idx_ref n (n - 1) f) as [w|e'|] eqn:E; try discriminate.
    - apply idx_ref_ok in E as (i & Hi & R & ->).
      destruct (list_update_spec s (Z.to_nat (if i <? 0 then i + n else i)) v) as (t & U & _).
      { unfold n, zlen in *. destruct (i <? 0) eqn:?; lia. }
      rewrite U. discriminate.
    - exfalso. exact (idx_ref_no_crash _ _ _ E).
  Qed.
End IndexSpec.

(* ---------- slices ---------- *)
Lemma nth_error_firstn_lt {A} (l : list A) : forall m k,
  (k < m)%nat -> nth_error (firstn m l) k = nth_error l k.
Proof.
  induction l as [|x l IH]; intros [|m] [|k] H; simpl; try reflexivity; try lia.
  apply IH. lia.
Qed.

Lemma nth_error_skipn_add {A} (l : list A) : forall m k,
  nth_error (skipn m l) k = nth_error l (m + k).
Proof.
  induction l as [|x l IH]; intros [|m] k; simpl; try reflexivity.
  - destruct k; reflexivity.
  - apply IH.
Qed.

Definition ort (o : option float) : Prop := match o with Some f => rt f | None => True end.

(* reference for one bound: a missing bound is its default *)
Definition bound_ref (n : Z) (o : option float) (dflt : Z) : res Z :=
  match o with Some f => idx_ref n n f | None => Ok dflt end.

(* the statement's reading of a bound: "after adding n to negative bounds" *)
Definition bound_ok (n : Z) (o : option float) (dflt v : Z) : Prop :=
  match o with
  | None => v = dflt
  | Some f => exists i, float_to_Z f = Some i /\ - n <= i <= n /\ v = (if i <? 0 then i + n else i)
  end.

Lemma bound_ref_ok n o dflt v :
  0 <= n < 2 ^ 63 -> (bound_ref n o dflt = Ok v <-> bound_ok n o dflt v).
Proof.
  intros Hn. destruct o as [f|]; simpl.
  - rewrite idx_ref_ok. split.
    + intros (i & Hi & R & ->). apply float_int_some in Hi as [Hi _]. eauto.
    + intros (i & Hi & R & ->). exists i. repeat split; try lia. apply float_int_some. split; [exact Hi|lia].
  - split; [intros H; inversion H; reflexivity|intros ->; reflexivity].
Qed.

Lemma bound_ok_range n o dflt v : 0 <= dflt <= n -> bound_ok n o dflt v -> 0 <= v <= n.
Proof.
  intros Hd. destruct o as [f|]; simpl.
  - intros (i & _ & R & ->). destruct (i <? 0) eqn:?; lia.
  - lia.
Qed.

Lemma bound_ref_no_crash n o dflt : bound_ref n o dflt <> HostCrash.
Proof. destruct o; simpl; [apply idx_ref_no_crash|discriminate]. Qed.

Lemma normalize_slice_ref st en n :
  ort st -> ort en ->
  normalize_slice_indices st en n =
  match bound_ref n st 0 with
  | Panic e => Panic e
  | HostCrash => HostCrash
  | Ok a => match bound_ref n en n with
            | Panic e => Panic e
            | HostCrash => HostCrash
            | Ok b => if b <? a then Panic ESlice else Ok (a, b)
            end
  end.
Proof.
  intros H1 H2. unfold normalize_slice_indices, bound_ref.
  destruct st as [f1|], en as [f2|]; simpl in H1, H2;
    try rewrite (normalize_index_ref _ n true H1); try rewrite (normalize_index_ref _ n true H2); reflexivity.
Qed.

Section SliceSpec.
  Context {A : Type}.
  Variable copy : A -> A.
  Variable s : list A.
  Variables st en : option float.
  Hypothesis Hlen : zlen s < 2 ^ 63.
  Hypothesis Hst : ort st.
  Hypothesis Hen : ort en.
  Let n := zlen s.

  Definition sub (a b : Z) : list A := firstn (Z.to_nat (b - a)) (skipn (Z.to_nat a) s).

  Lemma Hn : 0 <= n < 2 ^ 63.
  Proof. pose proof (zlen_nonneg s). unfold n. lia. Qed.

  Lemma arr_slice_unfold :
    arr_slice copy s st en =
    match bound_ref n st 0 with
    | Panic e => Panic e
    | HostCrash => HostCrash
    | Ok a => match bound_ref n en n with
              | Panic e => Panic e
              | HostCrash => HostCrash
              | Ok b => if b <? a then Panic ESlice else Ok (map copy (sub a b))
              end
    end.
  Proof.
    unfold arr_slice. fold n. rewrite (normalize_slice_ref st en n Hst Hen).
    destruct (bound_ref n st 0) as [a|e|] eqn:Ea; try reflexivity.
    destruct (bound_ref n en n) as [b|e|] eqn:Eb; try reflexivity.
    destruct (b <? a) eqn:C; [reflexivity|].
    pose proof Hn as Hn.
    apply (bound_ref_ok n st 0 a Hn) in Ea. apply (bound_ref_ok n en n b Hn) in Eb.
    apply bound_ok_range in Ea; [|lia]. apply bound_ok_range in Eb; [|lia].
    destruct (b - a <? 0) eqn:D; [lia|].
    rewrite slice_loop_spec by (fold n; lia). reflexivity.
  Qed.

  Lemma slice_spec r :
    arr_slice copy s st en = Ok r <->
    exists a b, bound_ok n st 0 a /\ bound_ok n en n b /\ a <= b /\ r = map copy (sub a b).
  Proof.
    rewrite arr_slice_unfold. pose proof Hn as Hn. split.
    - destruct (bound_ref n st 0) as [a|e|] eqn:Ea; try discriminate.
      destruct (bound_ref n en n) as [b|e|] eqn:Eb; try discriminate.
      destruct (b <? a) eqn:C; [discriminate|]. intros H. inversion H; subst.
      exists a, b. rewrite <- (bound_ref_ok n st 0 a Hn), <- (bound_ref_ok n en n b Hn). repeat split; auto; lia.
    - intros (a & b & Ha & Hb & L & ->).
      apply (bound_ref_ok n st 0 a Hn) in Ha. apply (bound_ref_ok n en n b Hn) in Hb.
      rewrite Ha, Hb. destruct (b <? a) eqn:C; [lia|reflexivity].
  Qed.

  (* the result has exactly b - a elements, and they are the elements a .. b-1 *)
  Lemma slice_elements a b :
    0 <= a <= b -> b <= n ->
    List.length (sub a b) = Z.to_nat (b - a) /\
    forall k, (k < Z.to_nat (b - a))%nat -> nth_error (sub a b) k = nth_error s (Z.to_nat a + k).
  Proof.
    intros H1 H2. unfold sub. split.
    - rewrite firstn_length, skipn_length. unfold n, zlen in *. lia.
    - intros k Hk. rewrite nth_error_firstn_lt by exact Hk. apply nth_error_skipn_add.
  Qed.

  Lemma slice_panic e :
    arr_slice copy s st en = Panic e <->
    bound_ref n st 0 = Panic e \/
    (exists a, bound_ref n st 0 = Ok a /\ bound_ref n en n = Panic e) \/
    (e = ESlice /\ exists a b, bound_ok n st 0 a /\ bound_ok n en n b /\ b < a).
  Proof.
    rewrite arr_slice_unfold. pose proof Hn as Hn.
    destruct (bound_ref n st 0) as [a|e1|] eqn:Ea.
    - destruct (bound_ref n en n) as [b|e2|] eqn:Eb.
      + destruct (b <? a) eqn:C; split.
        * intros H. inversion H; subst. right. right. split; [reflexivity|]. exists a, b.
          rewrite <- (bound_ref_ok n st 0 a Hn), <- (bound_ref_ok n en n b Hn). repeat split; auto; lia.
        * intros [H|[(a' & _ & H)|(-> & _)]]; try discriminate. reflexivity.
        * discriminate.
        * intros [H|[(a' & _ & H)|(-> & a' & b' & Ha & Hb & L)]]; try discriminate.
          apply (bound_ref_ok n st 0 a' Hn) in Ha. apply (bound_ref_ok n en n b' Hn) in Hb.
          assert (a' = a) by congruence. assert (b' = b) by congruence. lia.
      + split.
        * intros H. inversion H; subst. right. left. eauto.
        * intros [H|[(a' & _ & H)|(-> & a' & b' & Ha & Hb & L)]]; try discriminate.
          -- inversion H; reflexivity.
          -- apply (bound_ref_ok n en n b' Hn) in Hb. congruence.
      + exfalso. exact (bound_ref_no_crash _ _ _ Eb).
    - split.
      + intros H. inversion H; subst. left. reflexivity.
      + intros [H|[(a' & H & _)|(-> & a' & b' & Ha & Hb & L)]]; try discriminate.
        * inversion H; reflexivity.
        * apply (bound_ref_ok n st 0 a' Hn) in Ha. congruence.
    - exfalso. exact (bound_ref_no_crash _ _ _ Ea).
  Qed.

  Lemma slice_no_crash : arr_slice copy s st en <> HostCrash.
  Proof.
    rewrite arr_slice_unfold.
    destruct (bound_ref n st 0) as [a|e1|] eqn:Ea; [|discriminate|exact (fun _ => bound_ref_no_crash _ _ _ Ea)].
    destruct (bound_ref n en n) as [b|e2|] eqn:Eb; [|discriminate|exact (fun _ => bound_ref_no_crash _ _ _ Eb)].
    destruct (b <? a); discriminate.
  Qed.
End SliceSpec.

(* ---------- strings: the same laws on code points ---------- *)
Section StrSpec.
  Variable s : str.
  Hypothesis Hlen : zlen s < 2 ^ 63.
  Let n := zlen s.

  Lemma str_index_arr f : rt f ->
    str_index s f = match arr_index s f with Ok c => Ok [c] | Panic e => Panic e | HostCrash => HostCrash end.
  Proof.
    intros Hrt. unfold str_index, arr_index.
    destruct (normalize_index f (zlen s) false); try reflexivity.
    destruct (go_nth s a); reflexivity.
  Qed.

  Lemma str_slice_arr st en : ort st -> ort en ->
    str_slice s st en = arr_slice (fun c => c) s st en.
  Proof.
    intros H1 H2. rewrite (arr_slice_unfold (fun c => c) s st en Hlen H1 H2).
    unfold str_slice. fold n. rewrite (normalize_slice_ref st en n H1 H2).
    assert (Hn : 0 <= n < 2 ^ 63) by (pose proof (zlen_nonneg s); unfold n; lia).
    destruct (bound_ref n st 0) as [a|e|] eqn:Ea; try reflexivity.
    destruct (bound_ref n en n) as [b|e|] eqn:Eb; try reflexivity.
    destruct (b <? a) eqn:C; [reflexivity|].
    apply (bound_ref_ok n st 0 a Hn) in Ea. apply (bound_ref_ok n en n b Hn) in Eb.
    apply bound_ok_range in Ea; [|lia]. apply bound_ok_range in Eb; [|lia].
    unfold go_subslice. fold n.
    replace ((0 <=? a) && (a <=? b) && (b <=? n)) with true by lia.
    rewrite map_id. reflexivity.
  Qed.
End StrSpec.

(* ---------- the heap: freshness of slices, frame of stores ---------- *)
Lemma copy_or_ref_id v : copy_or_ref v = v.
Proof. destruct v; reflexivity. Qed.

Lemma map_copy_or_ref l : map copy_or_ref l = l.
Proof. induction l; simpl; [reflexivity|]. rewrite copy_or_ref_id, IHl. reflexivity. Qed.

Lemma h_set_index_frame h a f v h' :
  h_set_index h a f v = Ok h' ->
  List.length h' = List.length h /\
  (forall a', a' <> a -> h_get h' a' = h_get h a') /\
  exists s s', h_get h a = Some s /\ h_get h' a = Some s' /\ arr_set_index s f v = Ok s'.
Proof.
  unfold h_set_index, h_get. destruct (nth_error h a) as [s|] eqn:G; [|discriminate].
  destruct (arr_set_index s f v) as [s'|e|] eqn:E; try discriminate.
  destruct (list_update h a s') as [h2|] eqn:U; [|discriminate].
  intros H. inversion H; subst h2.
  destruct (list_update_spec h a s') as (t & U' & L & N & F).
  { eapply list_update_some. exact U. }
  rewrite U in U'. inversion U'; subst t.
  split; [exact L|]. split; [exact F|]. exists s, s'. auto.
Qed.

Lemma h_slice_fresh h a st en h' b :
  h_slice h a st en = Ok (h', b) ->
  b = List.length h /\ h_get h b = None /\
  (forall a', (a' < List.length h)%nat -> h_get h' a' = h_get h a') /\
  exists s r, h_get h a = Some s /\ arr_slice copy_or_ref s st en = Ok r /\ h_get h' b = Some r.
Proof.
  unfold h_slice, h_get. destruct (nth_error h a) as [s|] eqn:G; [|discriminate].
  destruct (arr_slice copy_or_ref s st en) as [r|e|] eqn:E; try discriminate.
  intros H. inversion H; subst. split; [reflexivity|].
  split; [apply nth_error_None; lia|].
  split; [intros a' L; apply nth_error_app1; exact L|].
  exists s, r. split; [reflexivity|]. split; [exact E|].
  rewrite nth_error_app2 by lia. rewrite Nat.sub_diag. reflexivity.
Qed.

(* a store through the slice never reaches an object that existed before the
   slice was taken (in particular not the original), and a store through the
   original never reaches the slice *)
Lemma slice_then_store_independent h a st en h1 b :
  h_slice h a st en = Ok (h1, b) ->
  (forall f v h2, h_set_index h1 b f v = Ok h2 ->
     forall a', (a' < List.length h)%nat -> h_get h2 a' = h_get h a') /\
  (forall a0 f v h2, (a0 < List.length h)%nat -> h_set_index h1 a0 f v = Ok h2 ->
     h_get h2 b = h_get h1 b).
Proof.
  intros H. apply h_slice_fresh in H as (-> & _ & Old & _). split.
  - intros f v h2 S a' L. apply h_set_index_frame in S as (_ & F & _).
    rewrite F by lia. apply Old. exact L.
  - intros a0 f v h2 L S. apply h_set_index_frame in S as (_ & F & _). apply F. lia.
Qed.

(* ---------- closing: the link holds for every float ---------- *)
Lemma ort_all o : ort o.
Proof. destruct o; simpl; [apply rt_all|exact I]. Qed.

Lemma index_kind_huge {A} (s : list A) f i :
  zlen s < 2 ^ 63 -> float_to_Z f = Some i -> ~ (- 2 ^ 63 <= i < 2 ^ 63) ->
  arr_index s f = Panic EIndexValue.
Proof.
  intros Hl Hi R. apply (index_panic s f (rt_all f)). left. split; [reflexivity|].
  apply float_int_none. right. eauto.
Qed.

Lemma str_index_spec (s : str) f r :
  zlen s < 2 ^ 63 ->
  (str_index s f = Ok r <->
   exists i c, float_to_Z f = Some i /\ - zlen s <= i < zlen s /\
               nth_error s (Z.to_nat (i mod zlen s)) = Some c /\ r = [c]).
Proof.
  intros Hl. rewrite (str_index_arr s f (rt_all f)). split.
  - destruct (arr_index s f) as [c|e|] eqn:E; try discriminate.
    intros H. inversion H; subst. apply (index_spec s f Hl (rt_all f)) in E as (i & Hi & R & N).
    exists i, c. auto.
  - intros (i & c & Hi & R & N & ->).
    assert (E : arr_index s f = Ok c) by (apply (index_spec s f Hl (rt_all f)); eauto).
    rewrite E. reflexivity.
Qed.

Lemma str_index_panic (s : str) f e :
  str_index s f = Panic e <-> arr_index s f = Panic e.
Proof.
  rewrite (str_index_arr s f (rt_all f)). destruct (arr_index s f); split; intros H; try discriminate; inversion H; reflexivity.
Qed.

Lemma str_index_no_crash (s : str) f : zlen s < 2 ^ 63 -> str_index s f <> HostCrash.
Proof.
  intros Hl. rewrite (str_index_arr s f (rt_all f)).
  pose proof (index_no_crash s f (rt_all f)). destruct (arr_index s f); congruence.
Qed.

(* the new array holds the very same element values — for inner arrays the same
   addresses — as positions a .. b-1 of the original: inner arrays are shared *)
Lemma h_slice_contents h a st en h' b s :
  h_get h a = Some s -> zlen s < 2 ^ 63 ->
  h_slice h a st en = Ok (h', b) ->
  exists x y, bound_ok (zlen s) st 0 x /\ bound_ok (zlen s) en (zlen s) y /\ x <= y /\
              h_get h' b = Some (sub s x y) /\ h_get h' a = Some s.
Proof.
  intros G Hl H. pose proof H as H0.
  apply h_slice_fresh in H as (-> & _ & Old & s' & r & G' & E & B).
  rewrite G in G'. inversion G'; subst s'.
  apply (slice_spec copy_or_ref s st en Hl (ort_all st) (ort_all en)) in E as (x & y & Hx & Hy & L & ->).
  rewrite map_copy_or_ref in B. exists x, y. repeat split; auto.
  rewrite Old; [exact G|]. apply nth_error_Some. unfold h_get in G. congruence.
Qed.
