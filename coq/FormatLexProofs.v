(* FormatLexProofs.v — C06: the lexer model reads the formatter's text back as the token view.

   lex_reads_pieces: if every piece, in front of the text that follows it, is read by Lexer.Next
   as one token of the piece's type spanning exactly the piece ([pieces_ok], a decidable, local
   condition evaluated by the harness on every formatted input), then
       lex (render ps) = toks_of_pieces ps ++ [EOF]       (types; literals except for strings).
   The proof is the decomposition of the rune-by-rune loop lex_go along the pieces: the skip
   counter set by a token of k runes is exhausted exactly at the end of the piece, and the
   positions do not influence types or literals.
   lex_nl / lex_sp / ...: the local condition holds outright for the layout pieces. *)
From Coq Require Import List String NArith ZArith Bool Arith Lia.
From EvyV Require Import Base FmtAst Format Pratt Lexer FormatParse FormatLex.
From EvyV.Gen Require Prec TokenTypes.
Import ListNotations.
Local Open Scope nat_scope.

Section P.
  Variable ul ud : N -> bool.
  Notation go := (lex_go ul ud false).

  (* positions play no part in the types and literals *)
  Lemma lex_go_pos : forall l k o li c o' li' c',
    map lview (go k o li c l) = map lview (go k o' li' c' l).
  Proof.
    induction l as [|x l IH]; intros k o li c o' li' c'; cbn [lex_go]; [reflexivity|].
    destruct k as [|k]; [|apply IH].
    destruct (next_token ul ud false x l) as [[ty lit] len].
    destruct (TokenTypes.token_type_beq ty TokenTypes.T_EOF); cbn [map]; [reflexivity|].
    f_equal. apply IH.
  Qed.

  (* a skip counter of |w| is exhausted exactly after w *)
  Lemma lex_go_skip : forall w z o li c,
    map lview (go (List.length w) o li c (w ++ z)) = map lview (go 0 o li c z).
  Proof.
    induction w as [|x w IH]; intros z o li c; [reflexivity|].
    cbn [List.length app lex_go]. rewrite IH. apply lex_go_pos.
  Qed.

  Lemma view_eqb_eq a b : view_eqb a b = true -> a = b.
  Proof.
    destruct a as [t1 l1], b as [t2 l2]. unfold view_eqb. cbn [fst snd]. intro H. apply andb_true_iff in H as [H1 H2].
    apply TokenTypes.internal_token_type_dec_bl in H1. apply str_eqb_eq in H2. subst. reflexivity.
  Qed.

  Theorem lex_go_pieces : forall ps, pieces_ok ul ud ps = true -> forall o li c,
    map lview (go 0 o li c (render ps)) = map pview (toks_of_pieces ps) ++ [(TokenTypes.T_EOF, [])].
  Proof.
    induction ps as [|p r IH]; intros H o li c; [reflexivity|].
    cbn [pieces_ok] in H. apply andb_true_iff in H as [Hp Hr]. specialize (IH Hr).
    unfold render, toks_of_pieces. cbn [flat_map]. fold (render r). fold (toks_of_pieces r).
    unfold piece_ok in Hp.
    destruct (render1 p) as [|x w] eqn:R; destruct (tok_of_piece p) as [|t [|t' ts]] eqn:Tk; try discriminate Hp.
    - cbn [app map]. apply IH.
    - cbn [app map lex_go].
      destruct (next_token ul ud false x (w ++ render r)) as [[ty lit] len].
      apply andb_true_iff in Hp as [Hp Hv]. apply andb_true_iff in Hp as [Hl He].
      apply Nat.eqb_eq in Hl. apply negb_true_iff in He. rewrite He. cbn [map]. subst len. cbn [Nat.pred].
      rewrite lex_go_skip. rewrite (lex_go_pos _ 0 _ _ _ o li c). rewrite IH.
      apply view_eqb_eq in Hv. unfold lview. cbn [t_type t_lit]. rewrite Hv. reflexivity.
  Qed.

  Theorem lex_reads_pieces ps : pieces_ok ul ud ps = true ->
    map lview (lex ul ud (render ps)) = map pview (toks_of_pieces ps) ++ [(TokenTypes.T_EOF, [])].
  Proof. intro H. unfold lex, lex_gen. apply lex_go_pieces. exact H. Qed.

  (* the local condition, for the layout pieces and in general for a piece of one rune *)
  Lemma piece_ok_nl z : piece_ok ul ud NL z = true.
  Proof. reflexivity. Qed.

  Definition not_blank (z : str) : bool := match z with c :: _ => negb (is_hws c) | [] => true end.

  Lemma span_blank z : not_blank z = true -> span_len is_hws z = 0.
  Proof. destruct z as [|c z]; [reflexivity|]. cbn [not_blank span_len]. intro H. apply negb_true_iff in H. rewrite H. reflexivity. Qed.

  Lemma piece_ok_sp z : not_blank z = true -> piece_ok ul ud Sp z = true.
  Proof.
    intro H. unfold piece_ok. cbn [render1 tok_of_piece app]. unfold next_token. cbn [N.eqb Pos.eqb orb].
    rewrite (span_blank z H). reflexivity.
  Qed.

  Lemma span_spaces n z : not_blank z = true -> span_len is_hws (spaces n ++ z) = n.
  Proof.
    intro H. induction n as [|n IH]; [exact (span_blank z H)|]. cbn [spaces repeat app span_len].
    change (is_hws 32) with true. cbv beta iota. f_equal. exact IH.
  Qed.

  Lemma piece_ok_ind n z : not_blank z = true -> piece_ok ul ud (Ind n) z = true.
  Proof.
    intro H. destruct n as [|n]; [reflexivity|]. unfold piece_ok. cbn [render1 tok_of_piece].
    replace (4 * S n) with (S (4 * n + 3)) by lia. cbn [spaces repeat]. fold (spaces (4 * n + 3)).
    unfold next_token. cbn [N.eqb Pos.eqb orb]. rewrite (span_spaces _ z H).
    unfold spaces. rewrite repeat_length, Nat.eqb_refl. reflexivity.
  Qed.

  (* brackets and the one-rune operators that are no prefix of another token *)
  Lemma piece_ok_bracket t z :
    In t [k_lbr; k_rbr; k_lcu; k_rcu; k_lpa; k_rpa; s_ "+"%string; s_ "-"%string; s_ "*"%string; s_ "%"%string] ->
    piece_ok ul ud (T t) z = true.
  Proof. intro H. cbn [In] in H. repeat (destruct H as [<-|H]; [reflexivity|]). contradiction. Qed.

  (* the operators that are a prefix of a two-rune token, in front of anything but "=" *)
  Lemma piece_ok_eq_prefix t z :
    In t [k_assign; k_colon; s_ "<"%string; s_ ">"%string; s_ "!"%string] ->
    (match z with c :: _ => negb (N.eqb c 61) | [] => true end) = true ->
    piece_ok ul ud (T t) z = true.
  Proof.
    intros H Hz. destruct z as [|c z'].
    - cbn [In] in H. repeat (destruct H as [<-|H]; [reflexivity|]). contradiction.
    - apply negb_true_iff in Hz. cbn [In] in H.
      repeat (destruct H as [<-|H]; [cbn; unfold with_eq; cbn [peek]; rewrite Hz; reflexivity|]). contradiction.
  Qed.

  (* the two-rune operators *)
  Lemma piece_ok_two t z :
    In t [k_declare; s_ "=="%string; s_ "!="%string; s_ "<="%string; s_ ">="%string] -> piece_ok ul ud (T t) z = true.
  Proof. intro H. cbn [In] in H. repeat (destruct H as [<-|H]; [reflexivity|]). contradiction. Qed.
End P.
