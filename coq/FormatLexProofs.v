(* FormatLexProofs.v — C06: the lexer model reads the formatter's text back as the token view.

   lex_reads_pieces: if every piece, in front of the text that follows it, is read by Lexer.Next
   as one token of the piece's type spanning exactly the piece ([pieces_ok], a decidable, local
   condition evaluated by the harness on every formatted input), then
       lex (render ps) = toks_of_pieces ps ++ [EOF]       (types; literals except for strings).
   The proof is the decomposition of the rune-by-rune loop lex_go along the pieces: the skip
   counter set by a token of k runes is exhausted exactly at the end of the piece, and the
   positions do not influence types or literals.
   lex_nl / lex_sp / ...: the local condition holds outright for the layout pieces. *)
From Coq Require Import List String NArith ZArith Bool Arith Lia.
From EvyV Require Import Base FmtAst Format Pratt Lexer FormatParse FormatLex.
From EvyV.Gen Require Prec TokenTypes.
Import ListNotations.
Local Open Scope nat_scope.

Section P.
  Variable ul ud : N -> bool.
  Notation go := (lex_go ul ud false).

  (* positions play no part in the types and literals *)
  Lemma lex_go_pos : forall l k o li c o' li' c',
    map lview (go k o li c l) = map lview (go k o' li' c' l).
  Proof.
    induction l as [|x l IH]; intros k o li c o' li' c'; cbn [lex_go]; [reflexivity|].
    destruct k as [|k]; [|apply IH].
    destruct (next_token ul ud false x l) as [[ty lit] len].
    destruct (TokenTypes.token_type_beq ty TokenTypes.T_EOF); cbn [map]; [reflexivity|].
    f_equal. apply IH.
  Qed.

  (* a skip counter of |w| is exhausted exactly after w *)
  Lemma lex_go_skip : forall w z o li c,
    map lview (go (List.length w) o li c (w ++ z)) = map lview (go 0 o li c z).
  Proof.
    induction w as [|x w IH]; intros z o li c; [reflexivity|].
    cbn [List.length app lex_go]. rewrite IH. apply lex_go_pos.
  Qed.

  Lemma view_eqb_eq a b : view_eqb a b = true -> a = b.
  Proof.
    destruct a as [t1 l1], b as [t2 l2]. unfold view_eqb. cbn [fst snd]. intro H. apply andb_true_iff in H as [H1 H2].
    apply TokenTypes.internal_token_type_dec_bl in H1. apply str_eqb_eq in H2. subst. reflexivity.
  Qed.

  Theorem lex_go_pieces : forall ps, pieces_ok ul ud ps = true -> forall o li c,
    map lview (go 0 o li c (render ps)) = map pview (toks_of_pieces ps) ++ [(TokenTypes.T_EOF, [])].
  Proof.
    induction ps as [|p r IH]; intros H o li c; [reflexivity|].
    cbn [pieces_ok] in H. apply andb_true_iff in H as [Hp Hr]. specialize (IH Hr).
    unfold render, toks_of_pieces. cbn [flat_map]. fold (render r). fold (toks_of_pieces r).
    unfold piece_ok in Hp.
    destruct (render1 p) as [|x w] eqn:R; destruct (tok_of_piece p) as [|t [|t' ts]] eqn:Tk; try discriminate Hp.
    - cbn [app map]. apply IH.
    - cbn [app map lex_go].
      destruct (next_token ul ud false x (w ++ render r)) as [[ty lit] len].
      apply andb_true_iff in Hp as [Hp Hv]. apply andb_true_iff in Hp as [Hl He].
      apply Nat.eqb_eq in Hl. apply negb_true_iff in He. rewrite He. cbn [map]. subst len. cbn [Nat.pred].
      rewrite lex_go_skip. rewrite (lex_go_pos _ 0 _ _ _ o li c). rewrite IH.
      apply view_eqb_eq in Hv. unfold lview. cbn [t_type t_lit]. rewrite Hv. reflexivity.
  Qed.

  Theorem lex_reads_pieces ps : pieces_ok ul ud ps = true ->
    map lview (lex ul ud (render ps)) = map pview (toks_of_pieces ps) ++ [(TokenTypes.T_EOF, [])].
  Proof. intro H. unfold lex, lex_gen. apply lex_go_pieces. exact H. Qed.

  (* the local condition, for the layout pieces and in general for a piece of one rune *)
  Lemma piece_ok_nl z : piece_ok ul ud NL z = true.
  Proof. reflexivity. Qed.

  Definition not_blank (z : str) : bool := match z with c :: _ => negb (is_hws c) | [] => true end.

  Lemma span_blank z : not_blank z = true -> span_len is_hws z = 0.
  Proof. destruct z as [|c z]; [reflexivity|]. cbn [not_blank span_len]. intro H. apply negb_true_iff in H. rewrite H. reflexivity. Qed.

  Lemma piece_ok_sp z : not_blank z = true -> piece_ok ul ud Sp z = true.
  Proof.
    intro H. unfold piece_ok. cbn [render1 tok_of_piece app]. unfold next_token. cbn [N.eqb Pos.eqb orb].
    rewrite (span_blank z H). reflexivity.
  Qed.

  Lemma span_spaces n z : not_blank z = true -> span_len is_hws (spaces n ++ z) = n.
  Proof.
    intro H. induction n as [|n IH]; [exact (span_blank z H)|]. cbn [spaces repeat app span_len].
    change (is_hws 32) with true. cbv beta iota. f_equal. exact IH.
  Qed.

  Lemma piece_ok_ind n z : not_blank z = true -> piece_ok ul ud (Ind n) z = true.
  Proof.
    intro H. destruct n as [|n]; [reflexivity|]. unfold piece_ok. cbn [render1 tok_of_piece].
    replace (4 * S n) with (S (4 * n + 3)) by lia. cbn [spaces repeat]. fold (spaces (4 * n + 3)).
    unfold next_token. cbn [N.eqb Pos.eqb orb]. rewrite (span_spaces _ z H).
    unfold spaces. rewrite repeat_length, Nat.eqb_refl. reflexivity.
  Qed.

  (* brackets and the one-rune operators that are no prefix of another token *)
  Lemma piece_ok_bracket t z :
    In t [k_lbr; k_rbr; k_lcu; k_rcu; k_lpa; k_rpa; s_ "+"%string; s_ "-"%string; s_ "*"%string; s_ "%"%string] ->
    piece_ok ul ud (T t) z = true.
  Proof. intro H. cbn [In] in H. repeat (destruct H as [<-|H]; [reflexivity|]). contradiction. Qed.

  (* the operators that are a prefix of a two-rune token, in front of anything but "=" *)
  Lemma piece_ok_eq_prefix t z :
    In t [k_assign; k_colon; s_ "<"%string; s_ ">"%string; s_ "!"%string] ->
    (match z with c :: _ => negb (N.eqb c 61) | [] => true end) = true ->
    piece_ok ul ud (T t) z = true.
  Proof.
    intros H Hz. destruct z as [|c z'].
    - cbn [In] in H. repeat (destruct H as [<-|H]; [reflexivity|]). contradiction.
    - apply negb_true_iff in Hz. cbn [In] in H.
      repeat (destruct H as [<-|H]; [cbn; unfold with_eq; cbn [peek]; rewrite Hz; reflexivity|]). contradiction.
  Qed.

  (* the two-rune operators *)
  Lemma piece_ok_two t z :
    In t [k_declare; s_ "=="%string; s_ "!="%string; s_ "<="%string; s_ ">="%string] -> piece_ok ul ud (T t) z = true.
  Proof. intro H. cbn [In] in H. repeat (destruct H as [<-|H]; [reflexivity|]). contradiction. Qed.
End P.

(* ====================================================================== *)
(* identifiers and keywords                                                *)
(* ====================================================================== *)
Section Words.
  Variable ul ud : N -> bool.

  (* the runes Lexer.Next tests before it asks whether the rune is a letter *)
  Definition special (c : N) : bool :=
    (N.eqb c 32 || N.eqb c 9 || N.eqb c 61 || N.eqb c 43 || N.eqb c 45 || N.eqb c 33 || N.eqb c 47 || N.eqb c 42 || N.eqb c 37
     || N.eqb c 60 || N.eqb c 62 || N.eqb c 58 || N.eqb c 123 || N.eqb c 125 || N.eqb c 40 || N.eqb c 41 || N.eqb c 91 || N.eqb c 93
     || N.eqb c 10 || N.eqb c 46 || N.eqb c 34)%bool.

  (* a word: a letter (or "_") that is none of those runes, followed by letters / digits / "_" *)
  Definition word (s : str) : bool :=
    match s with
    | c :: w => is_letter ul c && negb (special c) && forallb (ident_char ul ud) w
    | [] => false
    end.
  Definition ends_word (z : str) : bool := match z with c :: _ => negb (ident_char ul ud c) | [] => true end.

  Lemma span_word w z : forallb (ident_char ul ud) w = true -> ends_word z = true ->
    span_len (ident_char ul ud) (w ++ z) = List.length w /\ firstn (List.length w) (w ++ z) = w.
  Proof.
    intros Hw Hz. induction w as [|c w IH]; cbn [app List.length firstn].
    - split; [|reflexivity]. destruct z as [|c z]; [reflexivity|]. cbn [span_len]. cbn [ends_word] in Hz. apply negb_true_iff in Hz. rewrite Hz. reflexivity.
    - cbn [forallb] in Hw. apply andb_true_iff in Hw as [Hc Hw]. destruct (IH Hw) as [I1 I2]. cbn [span_len]. rewrite Hc, I1, I2. auto.
  Qed.

  Lemma next_token_word c w z : word (c :: w) = true -> ends_word z = true ->
    next_token ul ud false c (w ++ z) =
    match lookup_keyword Keywords.keywords (c :: w) with
    | Some kw => (kw, [], S (List.length w))
    | None => (TokenTypes.T_IDENT, c :: w, S (List.length w))
    end.
  Proof.
    intros Hw Hz. cbn [word] in Hw. apply andb_true_iff in Hw as [Hw Hall]. apply andb_true_iff in Hw as [Hl Hs].
    apply negb_true_iff in Hs. unfold special in Hs.
    repeat (apply orb_false_iff in Hs; destruct Hs as [Hs ?]).
    destruct (span_word w z Hall Hz) as [S1 S2].
    unfold next_token.
    repeat match goal with H : N.eqb c _ = false |- _ => rewrite H; clear H end.
    cbn [orb]. unfold is_end. cbn [andb]. rewrite Hl, S1, S2. reflexivity.
  Qed.
End Words.

(* the two generated keyword tables (lexer: Keywords.keywords; token view: FormatParse.keyword_table) agree *)
Definition kw_agree (s : str) : bool :=
  match lookup_keyword Keywords.keywords s, assoc_tt s keyword_table with
  | Some a, Some b => TokenTypes.token_type_beq a (tt_conv b)
  | None, None => true
  | _, _ => false
  end.
Definition kw_keys : list str := map fst Keywords.keywords ++ map fst keyword_table.

Lemma kw_keys_agree : forallb kw_agree kw_keys = true.
Proof. vm_compute. reflexivity. Qed.

Lemma lookup_keyword_none kws s : mem_str s (map fst kws) = false -> lookup_keyword kws s = None.
Proof.
  induction kws as [|[k t] r IH]; [reflexivity|]. cbn [map fst mem_str lookup_keyword]. intro H. apply orb_false_iff in H as [H1 H2].
  rewrite H1. exact (IH H2).
Qed.
Lemma assoc_tt_none l s : mem_str s (map fst l) = false -> assoc_tt s l = None.
Proof.
  induction l as [|[k t] r IH]; [reflexivity|]. cbn [map fst mem_str assoc_tt]. intro H. apply orb_false_iff in H as [H1 H2].
  rewrite H1. exact (IH H2).
Qed.
Lemma mem_str_app s a b : mem_str s (a ++ b) = mem_str s a || mem_str s b.
Proof. induction a as [|x a IH]; [reflexivity|]. cbn [app mem_str]. rewrite IH, orb_assoc. reflexivity. Qed.
Lemma mem_str_in s l : mem_str s l = true -> In s l.
Proof.
  induction l as [|x l IH]; [discriminate|]. cbn [mem_str]. intro H. apply orb_true_iff in H as [H|H]; [left; apply str_eqb_eq in H; exact H | right; exact (IH H)].
Qed.

Lemma kw_agree_all s : kw_agree s = true.
Proof.
  destruct (mem_str s kw_keys) eqn:M.
  - pose proof kw_keys_agree as H. rewrite forallb_forall in H. apply H, mem_str_in, M.
  - unfold kw_keys in M. rewrite mem_str_app in M. apply orb_false_iff in M as [M1 M2].
    unfold kw_agree. rewrite (lookup_keyword_none _ _ M1), (assoc_tt_none _ _ M2). reflexivity.
Qed.

Lemma ident_text_tok s : ident_text s = true -> tok_of_text s = {| ttype := Prec.T_IDENT; tlit := s |}.
Proof.
  unfold ident_text. destruct (tok_of_text s) as [t l]. destruct t; try discriminate.
  intro H. apply str_eqb_eq in H. subst. reflexivity.
Qed.

Section WordPieces.
  Variable ul ud : N -> bool.

  (* an identifier piece *)
  Lemma piece_ok_ident s z : ident_text s = true -> word ul ud s = true -> ends_word ul ud z = true ->
    piece_ok ul ud (T s) z = true.
  Proof.
    intros Hi Hw Hz. destruct s as [|c w]; [discriminate Hw|].
    unfold piece_ok. cbn [render1 tok_of_piece]. rewrite (next_token_word ul ud c w z Hw Hz).
    (* not a keyword: tok_of_text gave an identifier with this literal *)
    pose proof (kw_agree_all (c :: w)) as Ha. unfold kw_agree in Ha.
    assert (Hk : assoc_tt (c :: w) keyword_table = None).
    { unfold ident_text, tok_of_text in Hi. destruct (assoc_tt (c :: w) punct_table) as [t0|]; [destruct t0; cbn in Hi; discriminate Hi|].
      destruct (assoc_tt (c :: w) keyword_table) as [t0|]; [destruct t0; cbn in Hi; discriminate Hi | reflexivity]. }
    rewrite Hk in Ha. destruct (lookup_keyword Keywords.keywords (c :: w)); [discriminate Ha|].
    rewrite (ident_text_tok _ Hi). cbn [List.length]. rewrite Nat.eqb_refl. cbn [negb TokenTypes.token_type_beq andb].
    unfold view_eqb, pview. cbn [ttype tlit tt_conv view_lit fst snd TokenTypes.token_type_beq andb]. apply str_eqb_refl.
  Qed.

  (* a keyword piece: any text of the keyword table *)
  Lemma piece_ok_keyword s t z : assoc_tt s punct_table = None -> assoc_tt s keyword_table = Some t ->
    word ul ud s = true -> ends_word ul ud z = true -> piece_ok ul ud (T s) z = true.
  Proof.
    intros Hp Hk Hw Hz. destruct s as [|c w]; [discriminate Hw|].
    unfold piece_ok. cbn [render1 tok_of_piece]. rewrite (next_token_word ul ud c w z Hw Hz).
    pose proof (kw_agree_all (c :: w)) as Ha. unfold kw_agree in Ha. rewrite Hk in Ha.
    destruct (lookup_keyword Keywords.keywords (c :: w)) as [a|]; [|discriminate Ha].
    apply TokenTypes.internal_token_type_dec_bl in Ha. subst a.
    unfold tok_of_text. rewrite Hp, Hk. cbn [List.length]. rewrite Nat.eqb_refl. cbn [andb].
    unfold view_eqb, pview. cbn [ttype tlit mk fst snd].
    assert (He : TokenTypes.token_type_beq (tt_conv t) TokenTypes.T_EOF = false).
    { clear - Hk. destruct t; try reflexivity. exfalso. revert Hk. generalize (c :: w). intro s.
      assert (H : forallb (fun kt => negb (match snd kt with Prec.T_EOF => true | _ => false end)) keyword_table = true) by (vm_compute; reflexivity).
      intro Hk. clear - H Hk. induction keyword_table as [|[k v] r IH]; [discriminate Hk|]. cbn [assoc_tt] in Hk. cbn [forallb snd] in H. apply andb_true_iff in H as [H1 H2].
      destruct (str_eqb k s); [injection Hk as ->; discriminate H1 | exact (IH H2 Hk)]. }
    rewrite He. cbn [negb andb].
    assert (Hr : TokenTypes.token_type_beq (tt_conv t) (tt_conv t) = true) by (apply TokenTypes.internal_token_type_dec_lb; reflexivity).
    rewrite Hr. cbn [andb]. destruct (tt_conv t); apply str_eqb_refl.
  Qed.
End WordPieces.
