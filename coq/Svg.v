(* Svg.v — model of the SVG graphics platform of `evy run --svg-out`
   (pkg/cli/svg/runtime.go, svg.go) at the level of its decisions: the cursor,
   the pen (rt.attr) and font (rt.textAttr) state, the buffer of pending
   elements, Push (lone element vs <g>, attributes overwritten), the element
   tree that WriteSVG encodes, and [flatten], which resolves inherited
   presentation attributes to one (geometry, paint, font) triple per leaf shape.
   No proofs here (see SvgProofs.v).

   Every function takes [fx : fixes], one switch per recorded defect: [cur] is
   what /repo HEAD does (the lone-element and gridn fixes are in: 7a67899,
   292a02f), [none] the code before those fixes (regression lemmas), [all] the
   code with the remaining proposed_fixes/C19-*.diff applied.  The places where
   the variants differ are marked FIX.

   Numbers are primitive binary64 floats and every arithmetic operation is
   written in the order the Go code performs it.  Number -> text
   (strconv.FormatFloat, xml's float encoding, %f in the rotate transform) is
   NOT modelled: the model keeps numbers, the harness parses the attribute
   text back to float64 (FormatFloat(-1) round-trips; %f is compared after
   formatting the model's number the same way). *)
From Coq Require Import ZArith NArith List String Bool Floats.
From EvyV Require Import Base.
From EvyV.Gen Require Import SvgConsts.
Import ListNotations.
Open Scope Z_scope.

(* ---------- float helpers ---------- *)
Definition fmul := PrimFloat.mul.
Definition fadd := PrimFloat.add.
Definition fsub := PrimFloat.sub.
Definition fopp := PrimFloat.opp.
Definition fabs := PrimFloat.abs.

(* Go's builtin min(x, y) on float64: NaN if either is NaN; -0 < +0 *)
Definition fmin (a b : float) : float :=
  if is_nan a then a else if is_nan b then b
  else if PrimFloat.ltb a b then a else if PrimFloat.ltb b a then b
  else match Prim2SF a with SpecFloat.S754_zero true => a | _ => b end.

(* structural equality of the decoded float = equality of strconv's shortest
   text (used where the Go code compares two ftoa strings) *)
Definition sf_eqb (a b : SpecFloat.spec_float) : bool :=
  match a, b with
  | SpecFloat.S754_zero s1, SpecFloat.S754_zero s2 => Bool.eqb s1 s2
  | SpecFloat.S754_infinity s1, SpecFloat.S754_infinity s2 => Bool.eqb s1 s2
  | SpecFloat.S754_nan, SpecFloat.S754_nan => true
  | SpecFloat.S754_finite s1 m1 e1, SpecFloat.S754_finite s2 m2 e2 =>
      Bool.eqb s1 s2 && Pos.eqb m1 m2 && Z.eqb e1 e2
  | _, _ => false
  end.
Definition same_text (a b : float) : bool := sf_eqb (Prim2SF a) (Prim2SF b).

Definition is_empty (s : str) : bool := match s with [] => true | _ => false end.

(* ---------- one switch per recorded defect ---------- *)
Record fixes := mkFx {
  fx_ellipse : bool;   (* Ellipse transforms y with transformY                      (finding) *)
  fx_lone : bool;      (* setAttr of *Rect / *Group keeps own attributes            (7a67899) *)
  fx_gridn : bool;     (* gridnFunc rejects unit <= 0 before calling the platform   (292a02f) *)
  fx_gridn_bound : bool; (* gridnFunc rejects units below minGridUnit (and NaN); Gridn counts
                            rounds with an integer, at most maxGridRounds + 1       (e0d2614) *)
  fx_text : bool;      (* text filled with the fill colour and not stroked          (finding) *)
  fx_baseline : bool;  (* Font keeps the mapped baseline name                       (finding) *)
  fx_family : bool }.  (* the root element carries the default font family          (finding) *)
Definition cur : fixes := mkFx false true true true false false false.    (* /repo HEAD *)
Definition none : fixes := mkFx false false false false false false false. (* before the fix commits *)
Definition all : fixes := mkFx true true true true true true true.        (* with every proposed fix *)

(* ---------- attributes as they sit on an element ----------
   svg.go: type Attr / type TextAttr.  Every field is `omitempty`: "" / nil
   means the attribute is not written and the value is inherited. *)
Record eattr := mkA {
  a_fill : str; a_stroke : str; a_sw : option float; a_cap : str;
  a_dash : list float (* StrokeDashArray = join (map ftoa) " " ; [] is "" *) }.
Record tattr := mkT {
  t_anchor : str; t_base : str; t_size : option float; t_weight : option float;
  t_style : str; t_family : str;
  t_ls : option float (* LetterSpacing = ftoa x ; None is "" *) }.
Definition a0 : eattr := mkA [] [] None [] [].
Definition t0 : tattr := mkT [] [] None None [] [] None.

(* ---------- the platform's pen and font (rt.attr, rt.textAttr) ---------- *)
Record pen := mkP {
  p_fill : str; p_stroke : str;
  p_sw : option float; (* None: StrokeWidth still points to defaultStrokeWidth;
                          Some w: a pointer made by Width (never equal to the default pointer) *)
  p_cap : str; p_dash : list float }.
Record fnt := mkF {
  f_anchor : str; f_base : str; f_size : float; f_weight : float;
  f_style : str; f_family : str; f_ls : float }.

Definition sw_val (p : pen) : float := match p_sw p with Some w => w | None => default_StrokeWidth end.

(* var defaultAttr, var defaultTextAttr *)
Definition default_pen : pen := mkP default_Fill default_Stroke None default_StrokeLinecap [].
Definition default_fnt : fnt :=
  mkF default_TextAnchor default_Baseline default_FontSize default_FontWeight
      default_FontStyle default_FontFamily default_LetterSpacing.

(* `rt.attr != defaultAttr` (struct comparison: strings by value, StrokeWidth by POINTER) *)
Definition pen_is_default (p : pen) : bool :=
  str_eqb (p_fill p) default_Fill && str_eqb (p_stroke p) default_Stroke &&
  match p_sw p with None => true | Some _ => false end &&
  str_eqb (p_cap p) default_StrokeLinecap && match p_dash p with [] => true | _ => false end.

Definition nds (d s : str) : str := if str_eqb s d then [] else s.

(* func (rt *GraphicsPlatform) nonDefaultAttr() Attr *)
Definition nd_attr (p : pen) : eattr :=
  mkA (nds default_Fill (p_fill p)) (nds default_Stroke (p_stroke p))
      (if PrimFloat.eqb (sw_val p) default_StrokeWidth then None else Some (sw_val p))
      (nds default_StrokeLinecap (p_cap p)) (p_dash p).

(* func (rt *GraphicsPlatform) nonDefaultTextAttr() TextAttr *)
Definition nd_tattr (f : fnt) : tattr :=
  mkT (nds default_TextAnchor (f_anchor f)) (nds default_Baseline (f_base f))
      (if PrimFloat.eqb (f_size f) default_FontSize then None else Some (f_size f))
      (if PrimFloat.eqb (f_weight f) default_FontWeight then None else Some (f_weight f))
      (nds default_FontStyle (f_style f)) (nds default_FontFamily (f_family f))
      (if same_text (f_ls f) default_LetterSpacing then None else Some (f_ls f)).

(* ---------- elements ---------- *)
Inductive geom :=
| GLine (x1 y1 x2 y2 : float)
| GRect (x y w h : float)              (* Width/Height are ftoa (|w|), ftoa (|h|) *)
| GClear                               (* x=0 y=0 width=height="100%" *)
| GCircle (cx cy r : float)
| GPoly (pts : list (float * float))
| GEllipse (cx cy rx ry : float) (rot : option (float * float * float)) (* rotate(%f %f %f) *)
| GText (x y : float) (s : str).

Definition is_text (g : geom) : bool := match g with GText _ _ _ => true | _ => false end.

(* an element of rt.elements: a shape, or the *Group built by Gridn *)
Inductive item :=
| IShape (g : geom) (a : eattr) (t : tattr)
| IGrid (a : eattr) (t : tattr) (lines : list (geom * eattr)).

(* an element of rt.SVG.Elements: a lone item, or the *Group built by Push *)
Inductive top :=
| TItem (i : item)
| TGroup (a : eattr) (t : tattr) (kids : list item).

Record core := mkK { cx : float; cy : float; kpen : pen; kfnt : fnt }.
Record state := mkS { k : core; pending : list item; pushed : list top }.

(* ---------- coordinate transform: scale, transformX, transformY ---------- *)
Definition sf : float := float_of_Z c_scaleFactor.
Definition scale (s : float) : float := fmul sf s.
Definition tx (x : float) : float := scale x.
Definition ty_origin : float := scale (float_of_Z c_evyHeight).   (* rt.scale(evyHeight) *)
Definition ty (y : float) : float := fsub ty_origin (scale y).

(* ---------- commands = the calls of evaluator.GraphicsPlatform ---------- *)
Record fontprops := mkFP {
  fp_family : option str; fp_size : option float; fp_weight : option float; fp_style : option str;
  fp_baseline : option str; fp_align : option str; fp_ls : option float }.

Inductive cmd :=
| CMove (x y : float) | CLine (x y : float) | CRect (w h : float) | CCircle (r : float)
| CClear (c : str) | CPoly (pts : list (float * float))
| CEllipse (x y rx ry rot : float)   (* startAngle/endAngle are ignored by the platform *)
| CText (s : str) | CGridn (unit : float) (c : str)
| CWidth (w : float) | CColor (c : str) | CStroke (c : str) | CFill (c : str)
| CDash (l : list float) | CLinecap (c : str) | CFont (p : fontprops).

Definition is_draw (c : cmd) : bool :=
  match c with
  | CLine _ _ | CRect _ _ | CCircle _ | CClear _ | CPoly _ | CEllipse _ _ _ _ _ | CText _ | CGridn _ _ => true
  | _ => false
  end.
Definition is_style (c : cmd) : bool :=
  match c with
  | CWidth _ | CColor _ | CStroke _ | CFill _ | CDash _ | CLinecap _ | CFont _ => true
  | _ => false
  end.

(* ---------- Font: baseline / align tables ---------- *)
Definition baseline_map (b : str) : option str :=
  if str_eqb b (s_ "top") then Some (s_ "hanging")
  else if str_eqb b (s_ "middle") then Some (s_ "middle")
  else if str_eqb b (s_ "bottom") then Some (s_ "ideographic")
  else if str_eqb b (s_ "alphabetic") then Some (s_ "alphabetic")
  else None.
Definition align_map (a : str) : option str :=
  if str_eqb a (s_ "left") then Some (s_ "start")
  else if str_eqb a (s_ "right") then Some (s_ "end")
  else if str_eqb a (s_ "center") then Some (s_ "middle")
  else None.

Definition opt_or {A} (o : option A) (d : A) : A := match o with Some x => x | None => d end.

(* func (rt *GraphicsPlatform) Font(props map[string]any), after rt.Push() *)
Definition font_update (fx : fixes) (p : fontprops) (f : fnt) : fnt :=
  mkF (match fp_align p with Some a => opt_or (align_map a) (f_anchor f) | None => f_anchor f end)
      (match fp_baseline p with
       | Some b =>
           (* the switch maps top/middle/bottom/alphabetic, then the statement
              `rt.textAttr.Baseline = baseline` after it overwrites the result *)
           if fx_baseline fx then opt_or (baseline_map b) (f_base f) (* FIX font-baseline-not-mapped *)
           else b
       | None => f_base f end)
      (match fp_size p with Some s => scale s | None => f_size f end)
      (opt_or (fp_weight p) (f_weight f))
      (opt_or (fp_style p) (f_style f))
      (opt_or (fp_family p) (f_family f))
      (opt_or (fp_ls p) (f_ls f)).

(* ---------- the pen/cursor part of every call ---------- *)
Definition set_pen (kk : core) (p : pen) : core := mkK (cx kk) (cy kk) p (kfnt kk).
Definition set_pos (kk : core) (x y : float) : core := mkK x y (kpen kk) (kfnt kk).

Definition core_step (fx : fixes) (kk : core) (c : cmd) : core :=
  let p := kpen kk in
  match c with
  | CMove x y => set_pos kk (tx x) (ty y)                      (* Move *)
  | CLine x y => set_pos kk (tx x) (ty y)                      (* Line: rt.x = x; rt.y = y *)
  | CRect w h => set_pos kk (fadd (cx kk) (scale w)) (fadd (cy kk) (fopp (scale h)))  (* Rect: rt.x += width; rt.y += height *)
  | CWidth w => set_pen kk (mkP (p_fill p) (p_stroke p) (Some (scale w)) (p_cap p) (p_dash p))
  | CColor c => set_pen kk (mkP c c (p_sw p) (p_cap p) (p_dash p))
  | CStroke c => set_pen kk (mkP (p_fill p) c (p_sw p) (p_cap p) (p_dash p))
  | CFill c => set_pen kk (mkP c (p_stroke p) (p_sw p) (p_cap p) (p_dash p))
  | CDash l => set_pen kk (mkP (p_fill p) (p_stroke p) (p_sw p) (p_cap p) (map scale l))
  | CLinecap c => set_pen kk (mkP (p_fill p) (p_stroke p) (p_sw p) c (p_dash p))
  | CFont fp => mkK (cx kk) (cy kk) p (font_update fx fp (kfnt kk))
  | _ => kk
  end.

(* ---------- Gridn's loop:  for i := 0.0; i <= 1000; i += unit ----------
   one (hLine, vLine) pair per round; [true] marks the rounds with lineCnt%5 == 0 *)
Definition grid_h : float := float_of_Z (c_evyHeight * c_scaleFactor).   (* height := float64(evyHeight * scaleFactor) *)
Definition grid_w : float := float_of_Z (c_evyWidth * c_scaleFactor).
Definition grid_every : Z := Z.of_nat grid_thick_every.
Definition grid_pair (i : float) (thick : bool) (r : list (geom * bool)) : list (geom * bool) :=
  (GLine i 0%float i grid_h, thick) :: (GLine 0%float i grid_w i, thick) :: r.

Fixpoint grid_loop (fuel : nat) (i unit : float) (cnt : Z) : option (list (geom * bool)) :=
  match fuel with
  | O => None   (* OutOfFuel: the loop did not end within the budget *)
  | S f =>
      if PrimFloat.leb i grid_bound then
        match grid_loop f (fadd i unit) unit (Z.succ cnt) with
        | Some r => Some (grid_pair i (Z.eqb (Z.modulo cnt grid_every) 0) r)
        | None => None
        end
      else Some []
  end.

(* FIX gridn-tiny-unit-does-not-terminate (proposed_fixes/C19-gridn-tiny-unit.diff):
     for lineCnt := 0; lineCnt <= maxGridRounds; lineCnt++ {
         i := float64(lineCnt) * unit
         if !(i <= 1000) { break } ... }
   structural on the number of rounds left: no fuel, it always ends *)
Fixpoint grid_rounds (left : nat) (n : Z) (unit : float) : list (geom * bool) :=
  match left with
  | O => []
  | S left' =>
      let i := fmul (float_of_Z n) unit in
      if PrimFloat.leb i grid_bound then
        grid_pair i (Z.eqb (Z.modulo n grid_every) 0) (grid_rounds left' (Z.succ n) unit)
      else []
  end.
Definition grid_count (unit : float) : list (geom * bool) :=
  grid_rounds (Z.to_nat (grid_max_rounds + 1)) 0 unit.

Definition grid_lines (fx : fixes) (fuel : nat) (u : float) : option (list (geom * bool)) :=
  if fx_gridn_bound fx then Some (grid_count (tx u)) else grid_loop fuel 0%float (tx u) 0%Z.
(* `hLine.StrokeWidth = &thickWdith` *)
Definition grid_line_attr (thick : bool) : eattr :=
  if thick then mkA [] [] (Some grid_thick_width) [] [] else a0.

(* ---------- the element each drawing call appends to rt.elements ---------- *)
Definition clear_color (c : str) : str := if is_empty c then clear_default_color else c.

(* Text: `if rt.attr.Fill != rt.attr.Stroke { text.Fill = rt.attr.Stroke }` *)
Definition text_attr (fx : fixes) (p : pen) : eattr :=
  if fx_text fx then mkA [] (s_ "none") None [] []   (* FIX text-painted-with-stroke-colour: filled with the fill colour, not stroked *)
  else mkA (if str_eqb (p_fill p) (p_stroke p) then [] else p_stroke p) [] None [] [].

Definition draw_item (fx : fixes) (fuel : nat) (kk : core) (c : cmd) : option (option item) :=
  (* None: the call does not return (Gridn); Some None: not a drawing call *)
  match c with
  | CLine x y => Some (Some (IShape (GLine (cx kk) (cy kk) (tx x) (ty y)) a0 t0))
  | CRect w h =>
      let w' := scale w in let h' := fopp (scale h) in
      let nx := fadd (cx kk) w' in let ny := fadd (cy kk) h' in
      Some (Some (IShape (GRect (fmin (cx kk) nx) (fmin (cy kk) ny) (fabs w') (fabs h')) a0 t0))
  | CCircle r => Some (Some (IShape (GCircle (cx kk) (cy kk) (scale r)) a0 t0))
  | CClear c => Some (Some (IShape GClear (mkA (clear_color c) (clear_color c) None [] []) t0))
  | CPoly pts => Some (Some (IShape (GPoly (map (fun v => (tx (fst v), ty (snd v))) pts)) a0 t0))
  | CEllipse x y rx ry rot =>
      let x' := tx x in
      let y' := if fx_ellipse fx then ty y (* FIX ellipse-cy-not-flipped *) else tx y (* `y = rt.transformX(y)` *) in
      let tr := if PrimFloat.eqb rot 0%float then None else Some (rot, x', y') in
      Some (Some (IShape (GEllipse x' y' (scale rx) (scale ry) tr) a0 t0))
  | CText s => Some (Some (IShape (GText (cx kk) (cy kk) s) (text_attr fx (kpen kk)) t0))
  | CGridn u c =>
      match grid_lines fx fuel u with
      | Some l => Some (Some (IGrid (mkA [] c None [] []) t0 (map (fun gb => (fst gb, grid_line_attr (snd gb))) l)))
      | None => None
      end
  | _ => Some None
  end.

(* ---------- inheritance: [over own outer] = attributes in effect on an
   element carrying [own] inside a context whose attributes in effect are [outer] ---------- *)
Definition pick_s (own outer : str) : str := match own with [] => outer | _ => own end.
Definition pick_o {A} (own outer : option A) : option A := match own with Some _ => own | None => outer end.
Definition pick_l {A} (own outer : list A) : list A := match own with [] => outer | _ => own end.

Definition over_a (own outer : eattr) : eattr :=
  mkA (pick_s (a_fill own) (a_fill outer)) (pick_s (a_stroke own) (a_stroke outer))
      (pick_o (a_sw own) (a_sw outer)) (pick_s (a_cap own) (a_cap outer))
      (pick_l (a_dash own) (a_dash outer)).
Definition over_t (own outer : tattr) : tattr :=
  mkT (pick_s (t_anchor own) (t_anchor outer)) (pick_s (t_base own) (t_base outer))
      (pick_o (t_size own) (t_size outer)) (pick_o (t_weight own) (t_weight outer))
      (pick_s (t_style own) (t_style outer)) (pick_s (t_family own) (t_family outer))
      (pick_o (t_ls own) (t_ls outer)).

(* ---------- Push ---------- *)
(* setAttr of *Line, *Circle, *Polyline, *Ellipse: `x.Attr = a` (they never carry
   attributes of their own); of *Rect and *Group: `x.Attr = a.overriddenBy(x.Attr)`
   since 7a67899 (before: `x.Attr = a`); of *Text:
   `t.Attr = a; if t.Attr.Fill != t.Attr.Stroke { t.Attr.Fill = t.Attr.Stroke }` *)
Definition set_attr (fx : fixes) (i : item) (a : eattr) : item :=
  match i with
  | IShape g own t =>
      if is_text g then
        if fx_text fx then IShape g (over_a own a) t   (* FIX text-painted-with-stroke-colour: the own stroke="none" stays *)
        else IShape g (if str_eqb (a_fill a) (a_stroke a) then a
                       else mkA (a_stroke a) (a_stroke a) (a_sw a) (a_cap a) (a_dash a)) t
      else if fx_lone fx then IShape g (over_a own a) t   (* FIX lone-clear-fill-overwritten (7a67899) *)
      else IShape g a t
  | IGrid own t l => if fx_lone fx then IGrid (over_a own a) t l (* FIX lone-grid-stroke-overwritten (7a67899) *)
                     else IGrid a t l
  end.

(* `if at, ok := el.(textAttrSetter); ok { at.setTextAttr(...) }` : *Group and *Text *)
Definition set_tattr (i : item) (ta : tattr) : item :=
  match i with
  | IShape g a t => if is_text g then IShape g a ta else i
  | IGrid a t l => IGrid a ta l
  end.

Definition push (fx : fixes) (st : state) : state :=
  let p := kpen (k st) in
  match pending st with
  | [] => st
  | [e] =>
      let e1 := if pen_is_default p then e else set_attr fx e (nd_attr p) in
      let e2 := set_tattr e1 (nd_tattr (kfnt (k st))) in
      mkS (k st) [] (pushed st ++ [TItem e2])
  | es =>
      mkS (k st) [] (pushed st ++ [TGroup (if pen_is_default p then a0 else nd_attr p)
                                          (nd_tattr (kfnt (k st))) es])
  end.

(* one platform call.  None: the call never returns (Gridn with a unit that does
   not advance the loop variable): no document is ever written *)
Definition step (fx : fixes) (fuel : nat) (st : state) (c : cmd) : option state :=
  match draw_item fx fuel (k st) c with
  | None => None
  | Some (Some it) => Some (mkS (core_step fx (k st) c) (pending st ++ [it]) (pushed st))
  | Some None =>
      let st' := if is_style c then push fx st else st in
      Some (mkS (core_step fx (k st') c) (pending st') (pushed st'))
  end.

Fixpoint run (fx : fixes) (fuel : nat) (st : state) (l : list cmd) : option state :=
  match l with
  | [] => Some st
  | c :: t => match step fx fuel st c with Some st' => run fx fuel st' t | None => None end
  end.

(* NewGraphicsPlatform: cursor at transformX(0), transformY(0), default pen and
   font, nothing pending — followed by rt.Clear("white") *)
Definition pre_init : state :=
  mkS (mkK (tx 0%float) (ty 0%float) default_pen default_fnt) [] [].
Definition white : str := s_ "white".
Definition program (l : list cmd) : list cmd := CClear white :: l.

(* ---------- the document ---------- *)
(* attributes of the <svg> root set by NewGraphicsPlatform *)
Definition root_a (fx : fixes) : eattr := mkA root_Fill root_Stroke root_StrokeWidth root_StrokeLinecap [].
Definition root_t (fx : fixes) : tattr :=
  mkT root_TextAnchor root_Baseline root_FontSize root_FontWeight root_FontStyle
      (if fx_family fx then pick_s root_FontFamily default_FontFamily (* FIX default-font-family-not-written *) else root_FontFamily)
      None.

Record doc := mkD { d_root_a : eattr; d_root_t : tattr; d_elems : list top }.

(* WriteSVG: rt.Push(); encode rt.SVG *)
Definition render (fx : fixes) (st : state) : doc :=
  mkD (root_a fx) (root_t fx) (pushed (push fx st)).

(* ---------- flatten ---------- *)
(* SVG's initial values of the presentation attributes (SVG 1.1 / CSS):
   fill black, stroke none, stroke-width 1, stroke-linecap butt, no dashes,
   text-anchor start, dominant-baseline auto (the alphabetic baseline for
   horizontal text; written "alphabetic" here), font-size medium (16),
   font-weight 400, font-style normal, font-family: depends on the viewer
   (written ""), letter-spacing normal (0). *)
Definition initial_a : eattr := mkA (s_ "black") (s_ "none") (Some 1%float) (s_ "butt") [].
Definition initial_t : tattr :=
  mkT (s_ "start") (s_ "alphabetic") (Some 16%float) (Some 400%float) (s_ "normal") [] (Some 0%float).

(* a drawn shape: geometry, paint in effect, font in effect (text only) *)
Definition fshape : Type := geom * eattr * option tattr.

Definition flat_item (ca : eattr) (ct : tattr) (i : item) : list fshape :=
  match i with
  | IShape g a t => [(g, over_a a ca, if is_text g then Some (over_t t ct) else None)]
  | IGrid a t l => map (fun ga => (fst ga, over_a (snd ga) (over_a a ca), None)) l
  end.

Definition flat_top (ca : eattr) (ct : tattr) (tp : top) : list fshape :=
  match tp with
  | TItem i => flat_item ca ct i
  | TGroup a t kids => flat_map (flat_item (over_a a ca) (over_t t ct)) kids
  end.

Definition flatten (d : doc) : list fshape :=
  flat_map (flat_top (over_a (d_root_a d) initial_a) (over_t (d_root_t d) initial_t)) (d_elems d).

(* ---------- the specification ----------
   [spec fx fuel cmds]: each drawing call, in order, with its geometry (x ↦ 10·x,
   y ↦ 1000 − 10·y for EVERY kind of shape when fx_ellipse) and the pen / font in
   force when it was issued.  [spec all] is the intended meaning; a switch that
   is off describes that local deviation of the code (ellipse y, text paint,
   baseline names, default family).  fx_lone and fx_gridn do not occur in it. *)
Definition eff (d s : str) : str := if is_empty s then d else s.

(* the pen in force, as presentation attributes; "" for a colour or cap means
   "not set" and denotes the default pen's value *)
Definition spec_paint (p : pen) : eattr :=
  mkA (eff default_Fill (p_fill p)) (eff default_Stroke (p_stroke p)) (Some (sw_val p))
      (eff default_StrokeLinecap (p_cap p)) (p_dash p).

Definition spec_font (fx : fixes) (f : fnt) : tattr :=
  mkT (eff default_TextAnchor (f_anchor f)) (eff default_Baseline (f_base f))
      (Some (f_size f)) (Some (f_weight f)) (eff default_FontStyle (f_style f))
      (if fx_family fx then eff default_FontFamily (f_family f)
       else (* the default family is written nowhere unless the root element carries it
               (root_FontFamily = "" today: the viewer's default applies) *)
         pick_s (nds default_FontFamily (f_family f)) root_FontFamily)
      (Some (f_ls f)).

Definition spec_text_paint (fx : fixes) (p : pen) : eattr :=
  let sp := spec_paint p in
  if fx_text fx then
    (* docs/builtins.md, text: "Only fill and color have an effect on the text; stroke has no effect" *)
    mkA (a_fill sp) (s_ "none") (a_sw sp) (a_cap sp) (a_dash sp)
  else
    (* the present code fills text with the stroke colour (and strokes it) *)
    mkA (if str_eqb (p_fill p) (p_stroke p) then a_fill sp
         else if is_empty (p_stroke p) then a_fill sp else p_stroke p)
        (a_stroke sp) (a_sw sp) (a_cap sp) (a_dash sp).

Definition spec_grid_line (p : pen) (c : str) (gb : geom * bool) : fshape :=
  let sp := spec_paint p in
  (fst gb,
   mkA (a_fill sp) (if is_empty c then a_stroke sp else c)
       (if snd gb then Some grid_thick_width else a_sw sp) (a_cap sp) (a_dash sp),
   None).

Definition spec_shapes (fx : fixes) (fuel : nat) (kk : core) (c : cmd) : option (list fshape) :=
  let p := kpen kk in
  let sp := spec_paint p in
  match c with
  | CLine x y => Some [(GLine (cx kk) (cy kk) (tx x) (ty y), sp, None)]
  | CRect w h =>
      let w' := scale w in let h' := fopp (scale h) in
      Some [(GRect (fmin (cx kk) (fadd (cx kk) w')) (fmin (cy kk) (fadd (cy kk) h')) (fabs w') (fabs h'), sp, None)]
  | CCircle r => Some [(GCircle (cx kk) (cy kk) (scale r), sp, None)]
  | CClear c =>
      Some [(GClear, mkA (clear_color c) (clear_color c) (a_sw sp) (a_cap sp) (a_dash sp), None)]
  | CPoly pts => Some [(GPoly (map (fun v => (tx (fst v), ty (snd v))) pts), sp, None)]
  | CEllipse x y rx ry rot =>
      let x' := tx x in
      let y' := if fx_ellipse fx then ty y else tx y in
      Some [(GEllipse x' y' (scale rx) (scale ry)
                      (if PrimFloat.eqb rot 0%float then None else Some (rot, x', y')), sp, None)]
  | CText s => Some [(GText (cx kk) (cy kk) s, spec_text_paint fx p, Some (spec_font fx (kfnt kk)))]
  | CGridn u c =>
      match grid_lines fx fuel u with
      | Some l => Some (map (spec_grid_line p c) l)
      | None => None
      end
  | _ => Some []
  end.

Fixpoint spec_from (fx : fixes) (fuel : nat) (kk : core) (l : list cmd) : option (list fshape) :=
  match l with
  | [] => Some []
  | c :: t =>
      match spec_shapes fx fuel kk c, spec_from fx fuel (core_step fx kk c) t with
      | Some a, Some b => Some (a ++ b)
      | _, _ => None
      end
  end.

Definition spec (fx : fixes) (fuel : nat) (l : list cmd) : option (list fshape) :=
  spec_from fx fuel (k pre_init) l.

(* ---------- the guard ----------
   [lone_ok fx p [e]]: pushing the single pending element [e] under pen [p] loses
   nothing.  Without fx_lone an element with attributes of its own (the `clear`
   rectangle, the `gridn` group) must only be pushed alone under the default
   pen; without fx_text a lone text must not be pushed with an unset stroke
   colour and a set, non-default fill colour (part of the text-paint deviation). *)
Definition self_styled (i : item) : bool :=
  match i with
  | IShape g a _ => negb (is_text g) && negb (is_empty (a_fill a) && is_empty (a_stroke a))
  | IGrid a _ _ => negb (is_empty (a_stroke a))
  end.
Definition text_stroke_unset (p : pen) (i : item) : bool :=
  match i with
  | IShape g _ _ => is_text g && is_empty (p_stroke p) && negb (is_empty (p_fill p)) && negb (str_eqb (p_fill p) default_Fill)
  | _ => false
  end.
Definition lone_ok (fx : fixes) (p : pen) (pend : list item) : bool :=
  match pend with
  | [e] => (fx_lone fx || negb (self_styled e) || pen_is_default p) &&
           (fx_text fx || negb (text_stroke_unset p e))
  | _ => true
  end.

(* the guard over a history: checked at every Push *)
Fixpoint guard (fx : fixes) (fuel : nat) (st : state) (l : list cmd) : bool :=
  match l with
  | [] => lone_ok fx (kpen (k st)) (pending st)
  | c :: t =>
      (if is_style c then lone_ok fx (kpen (k st)) (pending st) else true) &&
      match step fx fuel st c with Some st' => guard fx fuel st' t | None => true end
  end.

(* ---------- argument validation before the platform is called ----------
   evaluator/builtin.go gridnFunc (since 292a02f):
   `if unit.V <= 0 { return ErrBadArguments }` (with the proposed bound:
   `if !(unit.V >= minGridUnit)`) — the program panics, nothing
   after the call runs, and main.go still writes the SVG drawn so far.
   [effective fx l] = the calls that reach the platform. *)
Definition wrapper_accepts (fx : fixes) (c : cmd) : bool :=
  match c with
  | CGridn u _ =>
      if fx_gridn_bound fx then PrimFloat.leb grid_min_unit u   (* `if !(unit.V >= minGridUnit)`: NaN is rejected too *)
      else if fx_gridn fx then negb (PrimFloat.leb u 0%float)   (* `if unit.V <= 0` *)
      else true
  | _ => true
  end.
Fixpoint effective (fx : fixes) (l : list cmd) : list cmd :=
  match l with
  | [] => []
  | c :: t => if wrapper_accepts fx c then c :: effective fx t else []
  end.
Definition rejected (fx : fixes) (l : list cmd) : bool := existsb (fun c => negb (wrapper_accepts fx c)) l.

(* ---------- wire format ---------- *)
Definition dec_float (x : sx) : option float :=
  match x with Int z => Some (float_of_bits z) | _ => None end.

Fixpoint dec_floats (l : list sx) : option (list float) :=
  match l with
  | [] => Some []
  | x :: t => match dec_float x, dec_floats t with Some f, Some r => Some (f :: r) | _, _ => None end
  end.

Fixpoint dec_pts (l : list sx) : option (list (float * float)) :=
  match l with
  | [] => Some []
  | Lst [a; b] :: t =>
      match dec_float a, dec_float b, dec_pts t with
      | Some x, Some y, Some r => Some ((x, y) :: r) | _, _, _ => None end
  | _ => None
  end.

Definition fp_empty : fontprops := mkFP None None None None None None None.

Fixpoint dec_font (l : list sx) (p : fontprops) : option fontprops :=
  match l with
  | [] => Some p
  | Lst [Sym key; v] :: t =>
      let p' :=
        match v with
        | Str s =>
            if str_eqb key (s_ "family") then Some (mkFP (Some s) (fp_size p) (fp_weight p) (fp_style p) (fp_baseline p) (fp_align p) (fp_ls p))
            else if str_eqb key (s_ "style") then Some (mkFP (fp_family p) (fp_size p) (fp_weight p) (Some s) (fp_baseline p) (fp_align p) (fp_ls p))
            else if str_eqb key (s_ "baseline") then Some (mkFP (fp_family p) (fp_size p) (fp_weight p) (fp_style p) (Some s) (fp_align p) (fp_ls p))
            else if str_eqb key (s_ "align") then Some (mkFP (fp_family p) (fp_size p) (fp_weight p) (fp_style p) (fp_baseline p) (Some s) (fp_ls p))
            else None
        | Int z =>
            let f := float_of_bits z in
            if str_eqb key (s_ "size") then Some (mkFP (fp_family p) (Some f) (fp_weight p) (fp_style p) (fp_baseline p) (fp_align p) (fp_ls p))
            else if str_eqb key (s_ "weight") then Some (mkFP (fp_family p) (fp_size p) (Some f) (fp_style p) (fp_baseline p) (fp_align p) (fp_ls p))
            else if str_eqb key (s_ "letterspacing") then Some (mkFP (fp_family p) (fp_size p) (fp_weight p) (fp_style p) (fp_baseline p) (fp_align p) (Some f))
            else None
        | _ => None
        end in
      match p' with Some q => dec_font t q | None => None end
  | _ => None
  end.

Definition dec_cmd (x : sx) : option cmd :=
  match x with
  | Lst [Sym n; Int a; Int b] =>
      let fa := float_of_bits a in let fb := float_of_bits b in
      if str_eqb n (s_ "move") then Some (CMove fa fb)
      else if str_eqb n (s_ "line") then Some (CLine fa fb)
      else if str_eqb n (s_ "rect") then Some (CRect fa fb)
      else None
  | Lst [Sym n; Int a] =>
      let fa := float_of_bits a in
      if str_eqb n (s_ "circle") then Some (CCircle fa)
      else if str_eqb n (s_ "width") then Some (CWidth fa)
      else None
  | Lst [Sym n; Str s] =>
      if str_eqb n (s_ "clear") then Some (CClear s)
      else if str_eqb n (s_ "text") then Some (CText s)
      else if str_eqb n (s_ "color") then Some (CColor s)
      else if str_eqb n (s_ "stroke") then Some (CStroke s)
      else if str_eqb n (s_ "fill") then Some (CFill s)
      else if str_eqb n (s_ "linecap") then Some (CLinecap s)
      else None
  | Lst [Sym n; Int u; Str s] =>
      if str_eqb n (s_ "gridn") then Some (CGridn (float_of_bits u) s) else None
  | Lst [Sym n; Lst l] =>
      if str_eqb n (s_ "poly") then option_map CPoly (dec_pts l)
      else if str_eqb n (s_ "dash") then option_map CDash (dec_floats l)
      else if str_eqb n (s_ "font") then option_map CFont (dec_font l fp_empty)
      else None
  | Lst [Sym n; Int a; Int b; Int c; Int d; Int e] =>
      if str_eqb n (s_ "ellipse") then
        Some (CEllipse (float_of_bits a) (float_of_bits b) (float_of_bits c) (float_of_bits d) (float_of_bits e))
      else None
  | _ => None
  end.

Fixpoint dec_cmds (l : list sx) : option (list cmd) :=
  match l with
  | [] => Some []
  | x :: t => match dec_cmd x, dec_cmds t with Some c, Some r => Some (c :: r) | _, _ => None end
  end.

(* generic XML-like encoding: (tag ((name value)…) (children…) text) with value
   (s "…") | (f bits) | (fl bits…) *)
Definition vs (s : str) : sx := Lst [Sym (s_ "s"); Str s].
Definition vf (f : float) : sx := Lst [Sym (s_ "f"); sx_float f].
Definition vfl (l : list float) : sx := Lst (Sym (s_ "fl") :: map sx_float l).
Definition at_ (n : string) (v : sx) : sx := Lst [Str (s_ n); v].

Definition at_s (n : string) (s : str) : list sx := if is_empty s then [] else [at_ n (vs s)].
Definition at_o (n : string) (o : option float) : list sx := match o with Some f => [at_ n (vf f)] | None => [] end.

Definition enc_eattr (a : eattr) : list sx :=
  at_s "fill" (a_fill a) ++ at_s "stroke" (a_stroke a) ++ at_o "stroke-width" (a_sw a) ++
  at_s "stroke-linecap" (a_cap a) ++
  match a_dash a with [] => [] | l => [at_ "stroke-dasharray" (vfl l)] end.
Definition enc_tattr (t : tattr) : list sx :=
  at_s "text-anchor" (t_anchor t) ++ at_s "dominant-baseline" (t_base t) ++ at_o "font-size" (t_size t) ++
  at_o "font-weight" (t_weight t) ++ at_s "font-style" (t_style t) ++ at_s "font-family" (t_family t) ++
  at_o "letter-spacing" (t_ls t).

Fixpoint flat_pts (l : list (float * float)) : list float :=
  match l with [] => [] | (x, y) :: t => x :: y :: flat_pts t end.

Definition enc_geom (g : geom) : str * list sx * str :=
  match g with
  | GLine x1 y1 x2 y2 => (s_ "line", [at_ "x1" (vf x1); at_ "y1" (vf y1); at_ "x2" (vf x2); at_ "y2" (vf y2)], [])
  | GRect x y w h => (s_ "rect", [at_ "x" (vf x); at_ "y" (vf y); at_ "width" (vf w); at_ "height" (vf h)], [])
  | GClear => (s_ "rect", [at_ "x" (vf 0%float); at_ "y" (vf 0%float); at_ "width" (vs clear_size); at_ "height" (vs clear_size)], [])
  | GCircle x y r => (s_ "circle", [at_ "cx" (vf x); at_ "cy" (vf y); at_ "r" (vf r)], [])
  | GPoly pts => (s_ "polyline", [at_ "points" (vfl (flat_pts pts))], [])
  | GEllipse x y rx ry tr =>
      (s_ "ellipse", [at_ "cx" (vf x); at_ "cy" (vf y); at_ "rx" (vf rx); at_ "ry" (vf ry)] ++
                     match tr with Some (r, a, b) => [at_ "transform" (vfl [r; a; b])] | None => [] end, [])
  | GText x y s => (s_ "text", [at_ "x" (vf x); at_ "y" (vf y)], s)
  end.

Definition node (tag : str) (attrs kids : list sx) (text : str) : sx :=
  Lst [Str tag; Lst attrs; Lst kids; Str text].

Definition enc_shape (g : geom) (a : eattr) (t : option tattr) : sx :=
  let '(tag, ga, text) := enc_geom g in
  node tag (enc_eattr a ++ match t with Some t => enc_tattr t | None => [] end ++ ga) [] text.

Definition enc_item (i : item) : sx :=
  match i with
  | IShape g a t => enc_shape g a (if is_text g then Some t else None)
  | IGrid a t l => node (s_ "g") (enc_eattr a ++ enc_tattr t) (map (fun ga => enc_shape (fst ga) (snd ga) None) l) []
  end.
Definition enc_top (tp : top) : sx :=
  match tp with
  | TItem i => enc_item i
  | TGroup a t kids => node (s_ "g") (enc_eattr a ++ enc_tattr t) (map enc_item kids) []
  end.
Definition enc_doc (d : doc) : sx :=
  node (s_ "svg") (enc_eattr (d_root_a d) ++ enc_tattr (d_root_t d)) (map enc_top (d_elems d)) [].

Definition enc_fshape (f : fshape) : sx :=
  let '(g, a, t) := f in enc_shape g a t.

(* entry point: (fuel (cmd…)) ↦
   (ok tree flat spec_cur spec_intended guard tree_all flat_all spec_all rejected_cur rejected_all)
   | (hang rejected_cur rejected_all)
   each variant computed on the calls that reach the platform under ITS wrappers *)
Definition svg_case (x : sx) : sx :=
  match x with
  | Lst [Int fuel; Lst cs] =>
      match dec_cmds cs with
      | Some l =>
          let fuel := Z.to_nat fuel in
          let prog := program (effective cur l) in
          let proga := program (effective all l) in
          (* the intended meaning with the grid loop of the model in force *)
          let intended_cur := mkFx true true true (fx_gridn_bound cur) true true true in
          match run cur fuel pre_init prog, run all fuel pre_init proga,
                spec cur fuel prog, spec intended_cur fuel prog, spec all fuel proga with
          | Some st, Some stf, Some sa, Some si, Some sall =>
              Lst [Sym (s_ "ok"); enc_doc (render cur st);
                   Lst (map enc_fshape (flatten (render cur st)));
                   Lst (map enc_fshape sa); Lst (map enc_fshape si);
                   sx_bool (guard cur fuel pre_init prog);
                   enc_doc (render all stf);
                   Lst (map enc_fshape (flatten (render all stf)));
                   Lst (map enc_fshape sall);
                   sx_bool (rejected cur l); sx_bool (rejected all l)]
          | _, _, _, _, _ => Lst [Sym (s_ "hang"); sx_bool (rejected cur l); sx_bool (rejected all l)]
          end
      | None => Sym (s_ "decode-error")
      end
  | Lst [Int fuel; Lst cs; Sym which] =>
      (* brief answer for very large documents: only the render tree of one variant *)
      match dec_cmds cs with
      | Some l =>
          let fuel := Z.to_nat fuel in
          let fx := if str_eqb which (s_ "all") then all else cur in
          match run fx fuel pre_init (program (effective fx l)) with
          | Some st => Lst [Sym (s_ "brief"); enc_doc (render fx st); sx_bool (rejected cur l); sx_bool (rejected all l)]
          | None => Lst [Sym (s_ "hang"); sx_bool (rejected cur l); sx_bool (rejected all l)]
          end
      | None => Sym (s_ "decode-error")
      end
  | _ => Sym (s_ "decode-error")
  end.
